/-
Helper lemmas for C20 (Props/C20.lean): the staging layer of compression.c on a lower transport
that accepts every write completely (write side), and the read path under any fragmentation.

Method: a disconnect or a fuel exhaustion is never undone (`FlagsLe`), so a history that ends
connected and not diverged went through the good path of every function; on these paths the
invariants `Core` / `RunInv` (write) and `RInv` (read) are preserved.
-/
import Strophe.Spec.Zlib
namespace Strophe.Lemmas.Compression
open Strophe Strophe.Compression Strophe.Spec.Zlib

variable {C : Codec}

/-- `t` is at least as bad as `s`: a disconnect / divergence is never undone -/
def FlagsLe (s t : St C) : Prop :=
  (t.connected = true → s.connected = true) ∧ (s.diverged = true → t.diverged = true)

theorem FlagsLe.refl (s : St C) : FlagsLe s s := ⟨id, id⟩
theorem FlagsLe.trans {s t u : St C} (a : FlagsLe s t) (b : FlagsLe t u) : FlagsLe s u :=
  ⟨fun h => a.1 (b.1 h), fun h => b.2 (a.2 h)⟩

def Good (s : St C) : Prop := s.connected = true ∧ s.diverged = false

theorem Good.of_le {s t : St C} (h : FlagsLe s t) (g : Good t) : Good s := by
  refine ⟨h.1 g.1, ?_⟩
  cases hd : s.diverged with
  | false => rfl
  | true => have := h.2 hd; rw [g.2] at this; cases this

theorem lowerWrite_flags (s : St C) (b : Bytes) :
    (lowerWrite s b).1.connected = s.connected ∧ (lowerWrite s b).1.diverged = s.diverged := by
  unfold lowerWrite
  simp only
  split <;> (split <;> exact ⟨rfl, rfl⟩)

theorem tryWrite_flags (s : St C) (f : Bool) :
    (tryWrite s f).1.connected = s.connected ∧ (tryWrite s f).1.diverged = s.diverged := by
  unfold tryWrite
  simp only
  split
  · split
    · exact lowerWrite_flags s s.out
    · simpa using lowerWrite_flags s s.out
  · simp

def _root_.Strophe.Compression.LoopOut.st : LoopOut C → St C
  | .ret s _ => s
  | .done s _ => s
  | .fuel s => s

theorem disconnect_le (s : St C) : FlagsLe s (disconnect s) := by
  refine ⟨?_, ?_⟩ <;> simp [disconnect]

theorem cwLoop_le : ∀ (fuel : Nat) (s : St C) (inp : Bytes) (k : Nat) (fl : Int),
    FlagsLe s (cwLoop fuel s inp k fl).st := by
  intro fuel
  induction fuel with
  | zero => intro s inp k fl; simp [cwLoop, LoopOut.st, FlagsLe.refl]
  | succ fuel ih =>
    intro s inp k fl
    have ht := tryWrite_flags s false
    have hle : FlagsLe s (tryWrite s false).1 := ⟨fun h => by rw [← ht.1]; exact h, fun h => by rw [ht.2]; exact h⟩
    unfold cwLoop
    simp only
    split
    · exact hle
    · split
      · exact hle.trans ⟨by simp [LoopOut.st], by simp [LoopOut.st]⟩
      · split
        · exact hle.trans ⟨by simp [LoopOut.st], by simp [LoopOut.st]⟩
        · split
          · exact hle.trans ⟨by simp [LoopOut.st, disconnect], by simp [LoopOut.st, disconnect]⟩
          · split
            · exact hle.trans ⟨by simp [LoopOut.st], by simp [LoopOut.st]⟩
            · refine hle.trans (FlagsLe.trans ?_ (ih _ _ _ _))
              exact ⟨by simp, by simp⟩

theorem tryWrite_le (s : St C) (f : Bool) : FlagsLe s (tryWrite s f).1 := by
  have ht := tryWrite_flags s f
  exact ⟨fun h => by rw [← ht.1]; exact h, fun h => by rw [ht.2]; exact h⟩

theorem compressionWrite_le (fuel : Nat) (s : St C) (inp : Bytes) (fl : Int) :
    FlagsLe s (compressionWrite fuel s inp fl).1 := by
  have h := cwLoop_le fuel s inp 0 fl
  unfold compressionWrite
  split
  · rename_i s' r heq; rw [heq] at h; exact h
  · rename_i s' heq; rw [heq] at h
    exact h.trans ⟨by simp [LoopOut.st], by simp [LoopOut.st]⟩
  · rename_i s' r heq; rw [heq] at h
    split
    · exact h.trans (tryWrite_le _ _)
    · exact h

theorem compressionFlush_le (fuel : Nat) (s : St C) : FlagsLe s (compressionFlush fuel s).1 :=
  compressionWrite_le _ _ _ _

theorem upperWrite_le (fuel : Nat) (s : St C) (inp : Bytes) : FlagsLe s (upperWrite fuel s inp).1 := by
  have h := compressionWrite_le fuel s inp Gen.Zl.compressionWriteMode
  unfold upperWrite
  simp only
  split
  · exact h.trans ⟨by simp, by simp⟩
  · exact h

theorem sendLoop_le (fuel : Nat) : ∀ (q : List (Bytes × Nat)) (s : St C), FlagsLe s (sendLoop fuel s q).1 := by
  intro q
  induction q with
  | nil => intro s; simp [sendLoop, FlagsLe.refl]
  | cons e rest ih =>
    intro s
    obtain ⟨d, w⟩ := e
    unfold sendLoop
    simp only
    split
    · exact upperWrite_le _ _ _
    · exact (upperWrite_le _ _ _).trans (ih _)

theorem runOnceSend_le (fuel : Nat) (s : St C) : FlagsLe s (runOnceSend fuel s) := by
  unfold runOnceSend
  split
  · exact FlagsLe.refl s
  · simp only
    have h1 := sendLoop_le fuel s.queue s
    have h2 : FlagsLe s { (sendLoop fuel s s.queue).1 with queue := (sendLoop fuel s s.queue).2 } :=
      h1.trans ⟨by simp, by simp⟩
    have h3 := h2.trans (compressionFlush_le fuel _)
    split
    · exact h3.trans ⟨by simp [disconnect], by simp [disconnect]⟩
    · exact h3

theorem runOp_le (fuel : Nat) (s : St C) (op : Op) : FlagsLe s (runOp fuel s op) := by
  cases op with
  | send b =>
    simp only [runOp, sendRaw]
    split
    · exact ⟨by simp, by simp⟩
    · exact FlagsLe.refl s
  | iter sc =>
    simp only [runOp]
    exact FlagsLe.trans (t := { s with sched := sc }) ⟨by simp, by simp⟩ (runOnceSend_le _ _)

theorem run_le (fuel : Nat) : ∀ (ops : List Op) (s : St C), FlagsLe s (run fuel s ops) := by
  intro ops
  induction ops with
  | nil => intro s; exact FlagsLe.refl s
  | cons op rest ih => intro s; exact (runOp_le fuel s op).trans (ih _)

/-! ### the all-accepting lower transport: nothing staged is ever lost -/

theorem bufSize_pos : 0 < bufSize := by decide

/-- what holds between calls when the lower transport takes everything it is offered -/
structure Core (H : HDeflate C) (s : St C) : Prop where
  okz : H.ok s.z
  stream : s.net ++ s.out = H.prod s.z
  outLe : s.out.length ≤ bufSize
  allAcc : ∀ a ∈ s.sched, a = Accept.all

theorem popSched_all (l : List Accept) (h : ∀ a ∈ l, a = Accept.all) :
    (popSched l).1 = Accept.all ∧ ∀ a ∈ (popSched l).2, a = Accept.all := by
  cases l with
  | nil => exact ⟨rfl, by simp [popSched]⟩
  | cons a r =>
    refine ⟨h a (by simp), ?_⟩
    intro x hx
    exact h x (by simp [popSched] at hx; simp [hx])

theorem lowerWrite_all (s : St C) (b : Bytes) (h : ∀ a ∈ s.sched, a = Accept.all) :
    lowerWrite s b =
      ({ s with sched := (popSched s.sched).2, calls := s.calls ++ [(b.length, (b.length : Int))],
                net := s.net ++ b }, (b.length : Int)) := by
  have hp := (popSched_all s.sched h).1
  have hneg : ¬ ((b.length : Int) < 0) := by omega
  unfold lowerWrite
  simp only [hp, Accept.ret, hneg, false_and, if_false, Int.toNat_natCast, List.take_length]

/-- facts about one `_try_compressed_write_to_network` -/
theorem tryWrite_all (H : HDeflate C) (s : St C) (f : Bool) (hc : Core H s) :
    Core H (tryWrite s f).1 ∧ 0 ≤ (tryWrite s f).2 ∧ (tryWrite s f).1.z = s.z ∧
    (tryWrite s f).1.queue = s.queue ∧ (tryWrite s f).1.flushDone = s.flushDone ∧
    (tryWrite s f).1.connected = s.connected ∧ (tryWrite s f).1.diverged = s.diverged ∧
    (f = false → (tryWrite s f).1.out.length < bufSize) ∧ (f = true → (tryWrite s f).1.out = []) := by
  unfold tryWrite
  simp only
  split
  · rename_i hcond
    rw [lowerWrite_all s s.out hc.allAcc]
    have hneg : ¬ ((s.out.length : Int) < 0) := by omega
    simp only [hneg, if_false]
    refine ⟨⟨hc.okz, ?_, by simp, (popSched_all _ hc.allAcc).2⟩, ?_⟩
    · simpa using hc.stream
    · have := bufSize_pos
      simp; omega
  · rename_i hcond
    refine ⟨hc, by omega, rfl, rfl, rfl, rfl, rfl, ?_, ?_⟩
    · intro hf
      subst hf
      have hle := hc.outLe
      have hp := bufSize_pos
      simp at hcond
      show s.out.length < bufSize
      by_cases h0 : s.out.length = bufSize
      · have h1 := hcond h0
        rw [h1] at h0 ⊢
        simp at h0 ⊢
        omega
      · omega
    · intro hf
      subst hf
      simp at hcond
      show s.out = []
      exact hcond

/-- fields the staging functions never touch on their good paths -/
def Frame (s t : St C) : Prop :=
  t.queue = s.queue ∧ t.connected = s.connected ∧ t.diverged = s.diverged

theorem Frame.trans {s t u : St C} (a : Frame s t) (b : Frame t u) : Frame s u :=
  ⟨b.1.trans a.1, b.2.1.trans a.2.1, b.2.2.trans a.2.2⟩

/-- the state after one deflate call keeps the core invariant -/
theorem core_after_deflate (H : HDeflate C) (t : St C) (inp : Bytes) (fl : Int) (fd : Bool)
    (hc : Core H t) :
    Core H { t with z := (C.deflate t.z inp fl (bufSize - t.out.length)).1,
                    out := t.out ++ (C.deflate t.z inp fl (bufSize - t.out.length)).2.2.1,
                    flushDone := fd } := by
  refine ⟨H.step_ok _ _ _ _ hc.okz, ?_, ?_, hc.allAcc⟩
  · show t.net ++ (t.out ++ _) = _
    rw [H.step_prod _ _ _ _ hc.okz, ← hc.stream, List.append_assoc]
  · show (t.out ++ _).length ≤ bufSize
    have h1 := H.produced_le t.z inp fl (bufSize - t.out.length) hc.okz
    have h2 := hc.outLe
    simp only [List.length_append]
    omega

theorem cwLoop_write (H : HDeflate C) : ∀ (fuel : Nat) (s : St C) (inp : Bytes) (k : Nat), Core H s →
    (∀ s' r, cwLoop fuel s inp k 0 = .ret s' r → s'.connected = false) ∧
    (∀ s' r, cwLoop fuel s inp k 0 = .done s' r →
        Core H s' ∧ Frame s s' ∧ H.cons s'.z = H.cons s.z ++ inp ∧ r = ((k + inp.length : Nat) : Int)) := by
  intro fuel
  induction fuel with
  | zero => intro s inp k _; simp [cwLoop]
  | succ fuel ih =>
    intro s inp k hc
    obtain ⟨htc, hnn, htz, htq, _, htconn, htdiv, htlt, _⟩ := tryWrite_all H s false hc
    have hneg : ¬ (tryWrite s false).2 < 0 := by omega
    have hfr : Frame s (tryWrite s false).1 := ⟨htq, htconn, htdiv⟩
    have hcd := core_after_deflate H (tryWrite s false).1 inp 0
    have hok := htc.okz
    have hcl := H.consumed_le (tryWrite s false).1.z inp 0 (bufSize - (tryWrite s false).1.out.length) hok
    have hsc := H.step_cons (tryWrite s false).1.z inp 0 (bufSize - (tryWrite s false).1.out.length) hok
    have hse := H.no_stream_end (tryWrite s false).1.z inp 0 (bufSize - (tryWrite s false).1.out.length) hok
    unfold cwLoop
    simp only [hneg, ↓reduceIte]
    split
    · rename_i h; exact absurd h hse
    · split
      · rename_i h; exact absurd rfl h.1
      · split
        · refine ⟨?_, ?_⟩
          · intro s' r h
            injection h with h1 _
            rw [← h1]; rfl
          · intro s' r h; cases h
        · split
          · rename_i hemp
            refine ⟨fun s' r h => (by cases h), ?_⟩
            intro s' r h
            injection h with h1 h2
            subst h1
            have hn : (C.deflate (tryWrite s false).1.z inp 0 (bufSize - (tryWrite s false).1.out.length)).2.1 = inp.length := by
              have : inp.length ≤ (C.deflate (tryWrite s false).1.z inp 0 (bufSize - (tryWrite s false).1.out.length)).2.1 := by
                simpa [List.isEmpty_iff, List.drop_eq_nil_iff] using hemp
              omega
            refine ⟨hcd _ htc, hfr, ?_, ?_⟩
            · show H.cons (C.deflate _ _ _ _).1 = _
              rw [hsc, hn, List.take_length, htz]
            · rw [← h2, hn]
          · have hc1 := hcd (decide ((0:Int) ≠ 0) &&
                ((C.deflate (tryWrite s false).1.z inp 0 (bufSize - (tryWrite s false).1.out.length)).2.2.2 == Gen.Zl.zOk &&
                  decide ((C.deflate (tryWrite s false).1.z inp 0 (bufSize - (tryWrite s false).1.out.length)).2.2.1.length <
                    bufSize - (tryWrite s false).1.out.length) ||
                 (C.deflate (tryWrite s false).1.z inp 0 (bufSize - (tryWrite s false).1.out.length)).2.2.2 == Gen.Zl.zBufError)) htc
            obtain ⟨ihr, ihd⟩ := ih _ (inp.drop (C.deflate (tryWrite s false).1.z inp 0 (bufSize - (tryWrite s false).1.out.length)).2.1)
              (k + (C.deflate (tryWrite s false).1.z inp 0 (bufSize - (tryWrite s false).1.out.length)).2.1) hc1
            refine ⟨ihr, ?_⟩
            intro s' r h
            obtain ⟨c1, f1, e1, r1⟩ := ihd s' r h
            refine ⟨c1, hfr.trans f1, ?_, ?_⟩
            · rw [e1]
              show H.cons (C.deflate _ _ _ _).1 ++ _ = _
              rw [hsc, htz, List.append_assoc, List.take_append_drop]
            · rw [r1, List.length_drop]
              congr 1
              omega

theorem cwLoop_flush (H : HDeflate C) (fuel : Nat) (s : St C) (fl : Int) (hfl : fl ≠ 0)
    (hc : Core H s) :
    (∀ s' r, cwLoop fuel s [] 0 fl = .ret s' r → s'.connected = false) ∧
    (∀ s' r, cwLoop fuel s [] 0 fl = .done s' r →
        Core H s' ∧ Frame s s' ∧ H.cons s'.z = H.cons s.z ∧
        (s'.flushDone = true → H.decode (H.prod s'.z) = H.cons s'.z)) := by
  cases fuel with
  | zero => simp [cwLoop]
  | succ fuel =>
    obtain ⟨htc, hnn, htz, htq, _, htconn, htdiv, htlt, _⟩ := tryWrite_all H s false hc
    have hneg : ¬ (tryWrite s false).2 < 0 := by omega
    have hfr : Frame s (tryWrite s false).1 := ⟨htq, htconn, htdiv⟩
    have hcd := core_after_deflate H (tryWrite s false).1 [] fl
    have hok := htc.okz
    have hroom : 0 < bufSize - (tryWrite s false).1.out.length := by have := htlt rfl; omega
    have hsc := H.step_cons (tryWrite s false).1.z [] fl (bufSize - (tryWrite s false).1.out.length) hok
    have hsp := H.step_prod (tryWrite s false).1.z [] fl (bufSize - (tryWrite s false).1.out.length) hok
    have hse := H.no_stream_end (tryWrite s false).1.z [] fl (bufSize - (tryWrite s false).1.out.length) hok
    have hfc := H.flush_complete (tryWrite s false).1.z [] fl (bufSize - (tryWrite s false).1.out.length) hok hfl
    have hbe := H.buf_error (tryWrite s false).1.z [] fl (bufSize - (tryWrite s false).1.out.length) hok
    have hfb := H.flush_buf_error (tryWrite s false).1.z fl (bufSize - (tryWrite s false).1.out.length) hok hfl hroom
    have hcons : H.cons (C.deflate (tryWrite s false).1.z [] fl (bufSize - (tryWrite s false).1.out.length)).1 = H.cons s.z := by
      rw [hsc, htz]; simp
    unfold cwLoop
    simp only [hneg, ↓reduceIte]
    split
    · rename_i h; exact absurd h hse
    · split
      · rename_i h
        refine ⟨fun s' r h => (by cases h), ?_⟩
        intro s' r h'
        injection h' with h1 _
        subst h1
        refine ⟨hcd _ htc, hfr, hcons, ?_⟩
        intro _
        show H.decode (H.prod (C.deflate _ _ _ _).1) = H.cons (C.deflate _ _ _ _).1
        rw [hsp, hsc, (hbe h.2).1, (hbe h.2).2]
        simpa using hfb h.2
      · split
        · refine ⟨?_, fun s' r h => (by cases h)⟩
          intro s' r h
          injection h with h1 _
          rw [← h1]; rfl
        · rename_i hnb hok'
          have hrc : (C.deflate (tryWrite s false).1.z [] fl (bufSize - (tryWrite s false).1.out.length)).2.2.2 = Gen.Zl.zOk := by
            simpa using hok'
          split
          · refine ⟨fun s' r h => (by cases h), ?_⟩
            intro s' r h
            injection h with h1 _
            subst h1
            refine ⟨hcd _ htc, hfr, hcons, ?_⟩
            intro hfd
            show H.decode (H.prod (C.deflate _ _ _ _).1) = H.cons (C.deflate _ _ _ _).1
            apply hfc hrc
            have hne : (Gen.Zl.zOk == Gen.Zl.zBufError) = false := by decide
            simp only [hrc, hne, Bool.or_false, Bool.and_eq_true, decide_eq_true_eq, beq_self_eq_true, true_and] at hfd
            exact hfd.2
          · rename_i hne
            simp at hne

theorem writeMode_zero : Gen.Zl.compressionWriteMode = 0 := by decide
theorem flushMode_ne_zero (b : Bool) :
    (if b then Gen.Zl.compressionFlushModeDontReset else Gen.Zl.compressionFlushModeReset) ≠ 0 := by
  cases b <;> decide

/-- compression_write on an all-accepting transport: either the connection is gone, or the whole
    element was consumed by deflate and nothing staged was lost -/
theorem compressionWrite_write (H : HDeflate C) (fuel : Nat) (s : St C) (inp : Bytes) (hc : Core H s)
    (hg : Good (compressionWrite fuel s inp 0).1) :
    Core H (compressionWrite fuel s inp 0).1 ∧ Frame s (compressionWrite fuel s inp 0).1 ∧
    H.cons (compressionWrite fuel s inp 0).1.z = H.cons s.z ++ inp ∧
    (compressionWrite fuel s inp 0).2 = (inp.length : Int) := by
  obtain ⟨hret, hdone⟩ := cwLoop_write H fuel s inp 0 hc
  revert hg
  unfold compressionWrite
  split
  · rename_i s' r heq
    intro hg
    have := hret s' r heq
    rw [hg.1] at this; cases this
  · intro hg; have := hg.2; simp at this
  · rename_i s' r heq
    intro _
    obtain ⟨c, f, e, hr⟩ := hdone s' r heq
    simp only [ne_eq, not_true_eq_false, ↓reduceIte]
    exact ⟨c, f, e, by simpa using hr⟩

theorem compressionFlush_ok (H : HDeflate C) (fuel : Nat) (s : St C) (hc : Core H s)
    (hg : Good (compressionFlush fuel s).1) :
    Core H (compressionFlush fuel s).1 ∧ Frame s (compressionFlush fuel s).1 ∧
    H.cons (compressionFlush fuel s).1.z = H.cons s.z ∧ (compressionFlush fuel s).1.out = [] ∧
    ((compressionFlush fuel s).1.flushDone = true →
      H.decode (compressionFlush fuel s).1.net = H.cons (compressionFlush fuel s).1.z) := by
  have hfl := flushMode_ne_zero s.dontReset
  obtain ⟨hret, hdone⟩ := cwLoop_flush H fuel s _ hfl hc
  revert hg
  unfold compressionFlush compressionWrite
  split
  · rename_i s' r heq
    intro hg
    have := hret s' r heq
    rw [hg.1] at this; cases this
  · intro hg; have := hg.2; simp at this
  · rename_i s' r heq
    intro _
    obtain ⟨c, f, e, hd⟩ := hdone s' r heq
    simp only [hfl, ne_eq, not_false_eq_true, ↓reduceIte]
    obtain ⟨tc, _, tz, tq, tfd, tconn, tdiv, _, tout⟩ := tryWrite_all H s' true c
    refine ⟨tc, f.trans ⟨tq, tconn, tdiv⟩, by rw [tz, e], tout rfl, ?_⟩
    intro hfd
    have hs := tc.stream
    rw [tout rfl, List.append_nil] at hs
    rw [hs, tz]
    exact hd (by rw [← tfd]; exact hfd)

theorem upperWrite_ok (H : HDeflate C) (fuel : Nat) (s : St C) (inp : Bytes) (hc : Core H s)
    (hg : Good (upperWrite fuel s inp).1) :
    Core H (upperWrite fuel s inp).1 ∧ Frame s (upperWrite fuel s inp).1 ∧
    H.cons (upperWrite fuel s inp).1.z = H.cons s.z ++ inp ∧
    (upperWrite fuel s inp).2 = (inp.length : Int) := by
  have hle : FlagsLe (compressionWrite fuel s inp 0).1 (upperWrite fuel s inp).1 := by
    unfold upperWrite
    simp only [writeMode_zero]
    split
    · exact ⟨by simp, by simp⟩
    · exact FlagsLe.refl _
  have h := compressionWrite_write H fuel s inp hc (Good.of_le hle hg)
  have hneg : ¬ ((compressionWrite fuel s inp 0).2 < 0) := by rw [h.2.2.2]; omega
  unfold upperWrite
  simp only [writeMode_zero, hneg, false_and, ↓reduceIte]
  exact h

/-- the `while (sq)` loop on an all-accepting transport: the whole queue goes through deflate -/
theorem sendLoop_ok (H : HDeflate C) (fuel : Nat) :
    ∀ (q : List (Bytes × Nat)) (s : St C), Core H s → (∀ e ∈ q, e.2 = 0) →
      Good (sendLoop fuel s q).1 →
      Core H (sendLoop fuel s q).1 ∧ Frame s (sendLoop fuel s q).1 ∧ (sendLoop fuel s q).2 = [] ∧
      H.cons (sendLoop fuel s q).1.z = H.cons s.z ++ (q.map (·.1)).flatten := by
  intro q
  induction q with
  | nil =>
    intro s hc _ _
    simp [sendLoop, hc, Frame]
  | cons e rest ih =>
    intro s hc hw hg
    obtain ⟨d, w⟩ := e
    have hw0 : w = 0 := hw (d, w) (by simp)
    subst hw0
    have hgu : Good (upperWrite fuel s (d.drop 0)).1 := by
      refine Good.of_le ?_ hg
      unfold sendLoop
      simp only
      split
      · exact FlagsLe.refl _
      · exact sendLoop_le fuel rest _
    obtain ⟨c1, f1, e1, r1⟩ := upperWrite_ok H fuel s (d.drop 0) hc hgu
    have hr : (upperWrite fuel s (d.drop 0)).2 = ((d.length : Int) - ((0 : Nat) : Int)) := by
      rw [r1]; simp
    revert hg
    unfold sendLoop
    simp only [hr, ne_eq, not_true_eq_false, ↓reduceIte]
    intro hg
    obtain ⟨c2, f2, q2, e2⟩ := ih _ c1 (fun x hx => hw x (by simp [hx])) hg
    refine ⟨c2, f1.trans f2, q2, ?_⟩
    rw [e2, e1]
    simp

theorem runOnceSend_ok (H : HDeflate C) (fuel : Nat) (s : St C) (hc : Core H s)
    (hq : ∀ e ∈ s.queue, e.2 = 0) (hg : Good (runOnceSend fuel s)) :
    Core H (runOnceSend fuel s) ∧ (runOnceSend fuel s).queue = [] ∧
    H.cons (runOnceSend fuel s).z = H.cons s.z ++ (s.queue.map (·.1)).flatten ∧
    (runOnceSend fuel s).out = [] ∧
    ((runOnceSend fuel s).flushDone = true →
      H.decode (runOnceSend fuel s).net = H.cons (runOnceSend fuel s).z) := by
  have hconn : s.connected = true := (Good.of_le (runOnceSend_le fuel s) hg).1
  revert hg
  unfold runOnceSend
  simp only [hconn, Bool.true_eq_false, ↓reduceIte]
  split
  · intro hg; have := hg.1; simp [disconnect] at this
  · intro hg
    have hgs : Good (sendLoop fuel s s.queue).1 := by
      have h1 : FlagsLe (sendLoop fuel s s.queue).1
          { (sendLoop fuel s s.queue).1 with queue := (sendLoop fuel s s.queue).2 } := ⟨by simp, by simp⟩
      exact Good.of_le (h1.trans (compressionFlush_le fuel _)) hg
    obtain ⟨c1, _, q1, e1⟩ := sendLoop_ok H fuel s.queue s hc hq hgs
    have c1' : Core H { (sendLoop fuel s s.queue).1 with queue := (sendLoop fuel s s.queue).2 } :=
      ⟨c1.okz, c1.stream, c1.outLe, c1.allAcc⟩
    obtain ⟨c2, f2, e2, o2, d2⟩ := compressionFlush_ok H fuel _ c1' hg
    refine ⟨c2, ?_, ?_, o2, d2⟩
    · rw [f2.1]; exact q1
    · rw [e2]; exact e1

/-! ### whole histories -/

theorem submitted_append (a b : List Op) : submitted (a ++ b) = submitted a ++ submitted b := by
  induction a with
  | nil => rfl
  | cons op r ih => cases op <;> simp [submitted, ih]

/-- invariant between the application's calls, for histories on an all-accepting transport -/
structure RunInv (H : HDeflate C) (s : St C) (sub : Bytes) : Prop where
  okz : H.ok s.z
  stream : s.net ++ s.out = H.prod s.z
  outLe : s.out.length ≤ bufSize
  written0 : ∀ e ∈ s.queue, e.2 = 0
  sub : H.cons s.z ++ (s.queue.map (·.1)).flatten = sub

theorem init_inv (H : HDeflate C) (dr : Bool) : RunInv H (init C dr) [] :=
  ⟨H.init_ok, by simp [init, H.init_prod], by simp [init], by simp [init], by simp [init, H.init_cons]⟩

theorem runOp_inv (H : HDeflate C) (fuel : Nat) (s : St C) (sub : Bytes) (op : Op)
    (hi : RunInv H s sub) (ha : op.allAccept) (hg : Good (runOp fuel s op)) :
    RunInv H (runOp fuel s op) (sub ++ submitted [op]) := by
  have hgs : Good s := Good.of_le (runOp_le fuel s op) hg
  cases op with
  | send b =>
    simp only [runOp, sendRaw, hgs.1, ↓reduceIte, submitted, List.append_nil]
    refine ⟨hi.okz, hi.stream, hi.outLe, ?_, ?_⟩
    · intro e he
      simp only [List.mem_append, List.mem_singleton] at he
      cases he with
      | inl h => exact hi.written0 e h
      | inr h => rw [h]
    · simp only [List.map_append, List.flatten_append, List.map_cons, List.map_nil,
        List.flatten_cons, List.flatten_nil, List.append_nil]
      rw [← List.append_assoc, hi.sub]
  | iter sc =>
    have hc : Core H { s with sched := sc } := ⟨hi.okz, hi.stream, hi.outLe, ha⟩
    obtain ⟨c, q, e, _, _⟩ := runOnceSend_ok H fuel { s with sched := sc } hc hi.written0 hg
    simp only [runOp, submitted, List.append_nil]
    refine ⟨c.okz, c.stream, c.outLe, by rw [q]; simp, ?_⟩
    rw [q, e]
    simpa using hi.sub

theorem run_inv (H : HDeflate C) (fuel : Nat) : ∀ (ops : List Op) (s : St C) (sub : Bytes),
    RunInv H s sub → (∀ op ∈ ops, op.allAccept) → Good (run fuel s ops) →
    RunInv H (run fuel s ops) (sub ++ submitted ops) := by
  intro ops
  induction ops with
  | nil => intro s sub hi _ _; simpa [run, submitted] using hi
  | cons op rest ih =>
    intro s sub hi ha hg
    have hg1 : Good (runOp fuel s op) := Good.of_le (run_le fuel rest _) hg
    have h1 := runOp_inv H fuel s sub op hi (ha op (by simp)) hg1
    have h2 := ih (runOp fuel s op) _ h1 (fun o ho => ha o (by simp [ho])) hg
    have : submitted (op :: rest) = submitted [op] ++ submitted rest := submitted_append [op] rest
    rw [this, ← List.append_assoc]
    exact h2

/-- safety on an all-accepting transport: whatever the server has received inflates to a prefix
    of the submitted stream -/
theorem write_safe (H : HDeflate C) (dr : Bool) (fuel : Nat) (ops : List Op)
    (hall : ∀ op ∈ ops, op.allAccept) (hg : Good (run fuel (init C dr) ops)) :
    H.decode (run fuel (init C dr) ops).net <+: submitted ops := by
  have hi := run_inv H fuel ops (init C dr) [] (init_inv H dr) hall hg
  simp only [List.nil_append] at hi
  have h1 : (run fuel (init C dr) ops).net <+: H.prod (run fuel (init C dr) ops).z :=
    ⟨_, hi.stream⟩
  have h2 := H.decode_prefix _ _ hi.okz h1
  exact h2.trans ⟨_, hi.sub⟩

/-- completeness: at the end of an iteration whose flush completed, the server has everything -/
theorem write_complete (H : HDeflate C) (dr : Bool) (fuel : Nat) (pre : List Op) (sc : List Accept)
    (hall : ∀ op ∈ pre ++ [Op.iter sc], op.allAccept)
    (hg : Good (run fuel (init C dr) (pre ++ [Op.iter sc])))
    (hfd : (run fuel (init C dr) (pre ++ [Op.iter sc])).flushDone = true) :
    H.decode (run fuel (init C dr) (pre ++ [Op.iter sc])).net = submitted (pre ++ [Op.iter sc]) ∧
    (run fuel (init C dr) (pre ++ [Op.iter sc])).queue = [] := by
  have hrun : run fuel (init C dr) (pre ++ [Op.iter sc]) =
      runOnceSend fuel { run fuel (init C dr) pre with sched := sc } := by
    simp [run, List.foldl_append, runOp]
  rw [hrun] at hg hfd ⊢
  have hg1 : Good (run fuel (init C dr) pre) :=
    Good.of_le (FlagsLe.trans (t := { run fuel (init C dr) pre with sched := sc }) ⟨by simp, by simp⟩
      (runOnceSend_le fuel _)) hg
  have hi := run_inv H fuel pre (init C dr) [] (init_inv H dr)
    (fun o ho => hall o (by simp [ho])) hg1
  simp only [List.nil_append] at hi
  have hc : Core H { run fuel (init C dr) pre with sched := sc } :=
    ⟨hi.okz, hi.stream, hi.outLe, hall (Op.iter sc) (by simp)⟩
  obtain ⟨_, q, e, _, d⟩ := runOnceSend_ok H fuel _ hc hi.written0 hg
  refine ⟨?_, q⟩
  rw [d hfd, e, submitted_append]
  simpa [submitted] using hi.sub

/-! ### read path -/

theorem connDecompress_le (s : St C) (fresh : Bytes) (len : Nat) :
    FlagsLe s (connDecompress s fresh len).1 := by
  unfold connDecompress
  simp only
  split
  · exact ⟨by simp, by simp⟩
  · split
    · exact ⟨by simp, by simp⟩
    · exact ⟨by simp [disconnect], by simp [disconnect]⟩

theorem lowerRead_flags (s : St C) (len : Nat) :
    (lowerRead s len).1.connected = s.connected ∧ (lowerRead s len).1.diverged = s.diverged := by
  unfold lowerRead
  split
  · split <;> exact ⟨rfl, rfl⟩
  · exact ⟨rfl, rfl⟩

theorem compressionRead_le (s : St C) (len : Nat) : FlagsLe s (compressionRead s len).1 := by
  unfold compressionRead
  split
  · exact connDecompress_le _ _ _
  · have h := lowerRead_flags s bufSize
    have hle : FlagsLe s (lowerRead s bufSize).1 :=
      ⟨fun x => by rw [← h.1]; exact x, fun x => by rw [h.2]; exact x⟩
    simp only
    split
    · exact hle.trans (connDecompress_le _ _ _)
    · exact hle

theorem evRead_le (s : St C) : FlagsLe s (evRead s).1 := by
  have h := compressionRead_le s msgBufSize
  unfold evRead
  simp only
  split
  · exact h
  · split
    · exact h.trans ⟨by simp [disconnect], by simp [disconnect]⟩
    · exact h.trans ⟨by simp [disconnect], by simp [disconnect]⟩

/-! the send half never touches the read side -/

/-- the fields of the read path -/
def rd (s : St C) : C.I × Option Bytes × Bytes × Bool × Bool :=
  (s.zi, s.inPend, s.inq, s.inEof, s.readDone)

theorem lowerWrite_rd (s : St C) (b : Bytes) : rd (lowerWrite s b).1 = rd s := by
  unfold lowerWrite
  simp only
  split <;> (split <;> rfl)

theorem tryWrite_rd (s : St C) (f : Bool) : rd (tryWrite s f).1 = rd s := by
  unfold tryWrite
  simp only
  split
  · split
    · exact lowerWrite_rd s s.out
    · exact lowerWrite_rd s s.out
  · rfl

theorem cwLoop_rd : ∀ (fuel : Nat) (s : St C) (inp : Bytes) (k : Nat) (fl : Int),
    rd (cwLoop fuel s inp k fl).st = rd s := by
  intro fuel
  induction fuel with
  | zero => intro s inp k fl; rfl
  | succ fuel ih =>
    intro s inp k fl
    have ht := tryWrite_rd s false
    unfold cwLoop
    simp only
    split
    · exact ht
    · split
      · exact ht
      · split
        · exact ht
        · split
          · exact ht
          · split
            · exact ht
            · exact (ih _ _ _ _).trans ht

theorem compressionWrite_rd (fuel : Nat) (s : St C) (inp : Bytes) (fl : Int) :
    rd (compressionWrite fuel s inp fl).1 = rd s := by
  have h := cwLoop_rd fuel s inp 0 fl
  unfold compressionWrite
  split
  · rename_i s' r heq; rw [heq] at h; exact h
  · rename_i s' heq; rw [heq] at h; exact h
  · rename_i s' r heq; rw [heq] at h
    split
    · exact (tryWrite_rd _ _).trans h
    · exact h

theorem upperWrite_rd (fuel : Nat) (s : St C) (inp : Bytes) : rd (upperWrite fuel s inp).1 = rd s := by
  have h := compressionWrite_rd fuel s inp Gen.Zl.compressionWriteMode
  unfold upperWrite
  simp only
  split
  · exact h
  · exact h

theorem sendLoop_rd (fuel : Nat) : ∀ (q : List (Bytes × Nat)) (s : St C), rd (sendLoop fuel s q).1 = rd s := by
  intro q
  induction q with
  | nil => intro s; rfl
  | cons e rest ih =>
    intro s
    obtain ⟨d, w⟩ := e
    unfold sendLoop
    simp only
    split
    · exact upperWrite_rd _ _ _
    · exact (ih _).trans (upperWrite_rd _ _ _)

theorem runOnceSend_rd (fuel : Nat) (s : St C) : rd (runOnceSend fuel s) = rd s := by
  unfold runOnceSend
  split
  · rfl
  · simp only
    have h1 := sendLoop_rd fuel s.queue s
    have h2 : rd { (sendLoop fuel s s.queue).1 with queue := (sendLoop fuel s s.queue).2 } = rd s := h1
    have h3 : rd (compressionFlush fuel
        { (sendLoop fuel s s.queue).1 with queue := (sendLoop fuel s s.queue).2 }).1 = rd s :=
      (compressionWrite_rd fuel _ [] _).trans h2
    split
    · exact h3
    · exact h3

theorem readLoop_le (wfuel : Nat) : ∀ (fuel : Nat) (s : St C) (acc : Bytes) (rets : List Int),
    FlagsLe s (readLoop wfuel fuel s acc rets).1 := by
  intro fuel
  induction fuel with
  | zero => intro s acc rets; exact ⟨by simp [readLoop], by simp [readLoop]⟩
  | succ fuel ih =>
    intro s acc rets
    have hs : FlagsLe s (runOnceSend wfuel { s with sched := [] }) :=
      FlagsLe.trans (t := { s with sched := [] }) ⟨by simp, by simp⟩ (runOnceSend_le _ _)
    unfold readLoop
    split
    · simp only
      split
      · exact hs.trans ((evRead_le _).trans (ih _ _ _))
      · exact hs
    · exact FlagsLe.refl s

/-- what the read side maintains: everything that arrived is either consumed by inflate, waiting
    in the decompression buffer, or still in the lower transport; everything inflate produced was
    delivered -/
structure RInv (HI : HInflate C) (s : St C) (allIn delivered : Bytes) : Prop where
  oki : HI.ok s.zi
  input : HI.cons s.zi ++ (s.inPend.getD [] ++ s.inq) = allIn
  output : HI.prod s.zi = delivered
  done : s.readDone = true → HI.prod s.zi = HI.plain (HI.cons s.zi)

theorem connDecompress_ok (HI : HInflate C) (s : St C) (fresh : Bytes) (len : Nat) (inq' : Bytes)
    (allIn del : Bytes) (hok : HI.ok s.zi) (hout : HI.prod s.zi = del)
    (hin : HI.cons s.zi ++ ((decompInput s fresh) ++ inq') = allIn)
    (hq : s.inq = inq')
    (hpos : (connDecompress s fresh len).2.1 > 0) :
    RInv HI (connDecompress s fresh len).1 allIn (del ++ (connDecompress s fresh len).2.2) := by
  revert hpos
  have hcl := HI.consumed_le s.zi (decompInput s fresh) len hok
  have hsc := HI.step_cons s.zi (decompInput s fresh) len hok
  have hsp := HI.step_prod s.zi (decompInput s fresh) len hok
  have hco := HI.complete s.zi (decompInput s fresh) len hok
  have hso := HI.step_ok s.zi (decompInput s fresh) len hok
  unfold connDecompress
  simp only
  split
  · rename_i hrc
    intro _
    refine ⟨hso, ?_, ?_, ?_⟩
    · show HI.cons (C.inflate _ _ _).1 ++ (Option.getD (if _ then none else some _) [] ++ s.inq) = allIn
      rw [hsc, hq, ← hin]
      have hp : ∀ (l : Bytes), Option.getD (if l.isEmpty then none else some l) [] = l := by
        intro l; cases l <;> simp
      rw [hp, List.append_assoc, ← List.append_assoc (List.take _ _), List.take_append_drop]
    · show HI.prod (C.inflate _ _ _).1 = _
      rw [hsp, hout]
    · intro hd
      have hd' : (C.inflate s.zi (decompInput s fresh) len).2.2.1.length < len := by
        simpa using hd
      exact (hco (by cases hrc with | inl h => exact Or.inr h | inr h => exact Or.inl h) hd').2
  · split
    · intro h; simp at h
    · intro h; simp at h

theorem compressionRead_ok (HI : HInflate C) (s : St C) (len : Nat) (allIn del : Bytes)
    (hi : RInv HI s allIn del) (hpos : (compressionRead s len).2.1 > 0) :
    RInv HI (compressionRead s len).1 allIn (del ++ (compressionRead s len).2.2) := by
  revert hpos
  unfold compressionRead
  split
  · rename_i p hp
    intro hpos
    refine connDecompress_ok HI s [] len s.inq allIn del hi.oki hi.output ?_ rfl hpos
    simpa [decompInput, hp] using hi.input
  · rename_i hp
    simp only
    split
    · rename_i hret
      intro hpos
      have hne : s.inq.isEmpty = false := by
        cases h : s.inq.isEmpty with
        | false => rfl
        | true => simp [lowerRead, h] at hret; split at hret <;> simp at hret
      have hlr : lowerRead s bufSize =
          ({ s with inq := s.inq.drop (min s.inq.length bufSize) },
           ((min s.inq.length bufSize : Nat) : Int), s.inq.take (min s.inq.length bufSize)) := by
        simp [lowerRead, hne]
      rw [hlr] at hpos ⊢
      refine connDecompress_ok HI _ _ len (s.inq.drop (min s.inq.length bufSize)) allIn del hi.oki hi.output ?_ rfl hpos
      simp only [decompInput, hp]
      rw [List.take_append_drop]
      simpa [hp] using hi.input
    · intro h; exact absurd h (by assumption)

theorem evRead_ok (HI : HInflate C) (s : St C) (allIn del : Bytes) (hi : RInv HI s allIn del)
    (hg : Good (evRead s).1) :
    RInv HI (evRead s).1 allIn (del ++ (evRead s).2.2) := by
  revert hg
  unfold evRead
  simp only
  split
  · rename_i hpos
    intro _
    exact compressionRead_ok HI s msgBufSize allIn del hi hpos
  · split
    · intro hg; have := hg.1; simp [disconnect] at this
    · intro hg; have := hg.1; simp [disconnect] at this

theorem rinv_of_rd (HI : HInflate C) (s t : St C) (allIn del : Bytes) (h : rd t = rd s)
    (hi : RInv HI s allIn del) : RInv HI t allIn del := by
  simp only [rd, Prod.mk.injEq] at h
  obtain ⟨h1, h2, h3, _, h5⟩ := h
  exact ⟨by rw [h1]; exact hi.oki, by rw [h1, h2, h3]; exact hi.input, by rw [h1]; exact hi.output,
    by rw [h1, h5]; exact hi.done⟩

theorem readLoop_ok (HI : HInflate C) (wfuel : Nat) : ∀ (fuel : Nat) (s : St C) (acc : Bytes)
    (rets : List Int) (allIn del : Bytes), RInv HI s allIn del →
    Good (readLoop wfuel fuel s acc rets).1 →
    ∃ x, (readLoop wfuel fuel s acc rets).2.1 = acc ++ x ∧
      RInv HI (readLoop wfuel fuel s acc rets).1 allIn (del ++ x) ∧
      (readLoop wfuel fuel s acc rets).1.inq = [] := by
  intro fuel
  induction fuel with
  | zero => intro s acc rets allIn del _ hg; have := hg.2; simp [readLoop] at this
  | succ fuel ih =>
    intro s acc rets allIn del hi hg
    have hgs : Good s := Good.of_le (readLoop_le _ _ _ _ _) hg
    revert hg
    unfold readLoop
    split
    · simp only
      have hrd : rd (runOnceSend wfuel { s with sched := [] }) = rd s :=
        (runOnceSend_rd wfuel _).trans rfl
      have hi' := rinv_of_rd HI s _ allIn del hrd hi
      split
      · intro hg
        have hge : Good (evRead (runOnceSend wfuel { s with sched := [] })).1 :=
          Good.of_le (readLoop_le _ _ _ _ _) hg
        have h1 := evRead_ok HI _ allIn del hi' hge
        obtain ⟨x, hx, hinv, hq⟩ := ih _ (acc ++ (evRead (runOnceSend wfuel { s with sched := [] })).2.2)
          (rets ++ [(evRead (runOnceSend wfuel { s with sched := [] })).2.1]) allIn _ h1 hg
        refine ⟨(evRead (runOnceSend wfuel { s with sched := [] })).2.2 ++ x, ?_, ?_, hq⟩
        · rw [hx, List.append_assoc]
        · rw [← List.append_assoc]; exact hinv
      · rename_i hdis
        intro hg
        exact absurd hg.1 hdis
    · rename_i hcond
      intro _
      refine ⟨[], by simp, by simpa using hi, ?_⟩
      simp only [hgs.1, Bool.true_and, readable, Bool.or_eq_true, not_or] at hcond
      simp at hcond
      exact List.isEmpty_iff.mp (by simpa using hcond.1)

/-- the fold of `rxAll`, from an arbitrary accumulator -/
def rxFold (wfuel fuel : Nat) (p : St C × Bytes) (frags : List Bytes) : St C × Bytes :=
  frags.foldl (fun p f => let r := rxFragment wfuel fuel p.1 f; (r.1, p.2 ++ r.2.1)) p

theorem rxFold_cons (wfuel fuel : Nat) (p : St C × Bytes) (f : Bytes) (rest : List Bytes) :
    rxFold wfuel fuel p (f :: rest) =
      rxFold wfuel fuel ((rxFragment wfuel fuel p.1 f).1, p.2 ++ (rxFragment wfuel fuel p.1 f).2.1) rest := rfl

theorem rxFold_le (wfuel fuel : Nat) : ∀ (frags : List Bytes) (p : St C × Bytes),
    FlagsLe p.1 (rxFold wfuel fuel p frags).1 := by
  intro frags
  induction frags with
  | nil => intro p; exact FlagsLe.refl _
  | cons f rest ih =>
    intro p
    rw [rxFold_cons]
    refine FlagsLe.trans ?_ (ih _)
    unfold rxFragment
    exact FlagsLe.trans (t := { p.1 with inq := p.1.inq ++ f }) ⟨by simp, by simp⟩ (readLoop_le _ _ _ _ _)

theorem rxFold_ok (HI : HInflate C) (wfuel fuel : Nat) : ∀ (frags : List Bytes) (p : St C × Bytes)
    (allIn : Bytes), RInv HI p.1 allIn p.2 → p.1.inq = [] → Good (rxFold wfuel fuel p frags).1 →
    RInv HI (rxFold wfuel fuel p frags).1 (allIn ++ frags.flatten) (rxFold wfuel fuel p frags).2 ∧
    (rxFold wfuel fuel p frags).1.inq = [] := by
  intro frags
  induction frags with
  | nil => intro p allIn hi hq _; simpa [rxFold] using ⟨hi, hq⟩
  | cons f rest ih =>
    intro p allIn hi hq hg
    rw [rxFold_cons] at hg ⊢
    have hg1 : Good (rxFragment wfuel fuel p.1 f).1 := Good.of_le (rxFold_le wfuel fuel rest _) hg
    have hi1 : RInv HI { p.1 with inq := p.1.inq ++ f } (allIn ++ f) p.2 := by
      refine ⟨hi.oki, ?_, hi.output, hi.done⟩
      show HI.cons p.1.zi ++ (p.1.inPend.getD [] ++ (p.1.inq ++ f)) = allIn ++ f
      rw [← hi.input]
      simp [List.append_assoc]
    obtain ⟨x, hx, hinv, hq1⟩ := readLoop_ok HI wfuel fuel _ [] [] (allIn ++ f) p.2 hi1 hg1
    have h2 := ih ((rxFragment wfuel fuel p.1 f).1, p.2 ++ (rxFragment wfuel fuel p.1 f).2.1) (allIn ++ f)
      (by
        show RInv HI (rxFragment wfuel fuel p.1 f).1 (allIn ++ f) (p.2 ++ (rxFragment wfuel fuel p.1 f).2.1)
        have : (rxFragment wfuel fuel p.1 f).2.1 = x := by
          unfold rxFragment; rw [hx]; simp
        rw [this]; exact hinv)
      hq1 hg
    simpa [List.append_assoc] using h2

theorem init_rinv (HI : HInflate C) (dr : Bool) : RInv HI (init C dr) [] [] :=
  ⟨HI.init_ok, by simp [init, HI.init_cons], by simp [init, HI.init_prod],
   fun _ => by simp [init, HI.init_cons, HI.init_prod, HI.plain_nil]⟩

/-- however the compressed bytes are fragmented: if the event loop is still connected after the
    last fragment, nothing is left in the decompression buffer and the last inflate call had room
    left, the parser got exactly the plaintext of everything that arrived -/
theorem read_ok (HI : HInflate C) (dr : Bool) (wfuel fuel : Nat) (frags : List Bytes)
    (hg : Good (rxAll wfuel fuel (init C dr) frags).1)
    (hp : pending (rxAll wfuel fuel (init C dr) frags).1 = false)
    (hd : (rxAll wfuel fuel (init C dr) frags).1.readDone = true) :
    (rxAll wfuel fuel (init C dr) frags).2 = HI.plain frags.flatten := by
  have h := rxFold_ok HI wfuel fuel frags (init C dr, []) [] (init_rinv HI dr) rfl hg
  obtain ⟨hi, hq⟩ := h
  have hin := hi.input
  have hpn : (rxFold wfuel fuel (init C dr, []) frags).1.inPend = none := by
    have hp' : pending (rxFold wfuel fuel (init C dr, []) frags).1 = false := hp
    unfold pending at hp'
    cases hh : (rxFold wfuel fuel (init C dr, []) frags).1.inPend with
    | none => rfl
    | some p => rw [hh] at hp'; simp at hp'
  rw [hq, hpn] at hin
  simp only [Option.getD_none, List.append_nil, List.nil_append] at hin
  have hout := hi.output
  have hdone := hi.done hd
  show (rxFold wfuel fuel (init C dr, []) frags).2 = _
  rw [← hout, hdone, hin]

end Strophe.Lemmas.Compression
