/-
C07 — helper lemmas, part 4: the DIGEST-MD5 challenge parser and the hash table.
-/
import Strophe.Model.Sasl
import Strophe.Spec.Rfc2831
open Strophe Strophe.Hash Strophe.Sasl
open Strophe.Spec.Rfc2831

namespace Strophe.Lemmas.Sasl

/-! ### hash table: `hash_get` after `hash_add` -/

theorem lookup_append_single (t : Table) (k v k' : Bytes) (hno : t.any (fun e => e.1 == k) = false) :
    (t ++ [(k, v)]).lookup k' = if k' = k then some v else t.lookup k' := by
  induction t with
  | nil =>
    by_cases h : k' = k
    · subst h; simp [List.lookup]
    · have : (k' == k) = false := by simpa using h
      simp [List.lookup, this, h]
  | cons e t ih =>
    obtain ⟨a, b⟩ := e
    simp only [List.any_cons, Bool.or_eq_false_iff] at hno
    have hak : ¬ a = k := by simpa using hno.1
    simp only [List.cons_append, List.lookup_cons]
    by_cases h : k' = a
    · subst h
      simp [hak]
    · have : (k' == a) = false := by simpa using h
      simp only [this]
      exact ih hno.2

theorem lookup_map_replace (t : Table) (k v k' : Bytes) :
    (t.map (fun e => if e.1 == k then (k, v) else e)).lookup k' =
      if k' = k then (if t.any (fun e => e.1 == k) then some v else none) else t.lookup k' := by
  induction t with
  | nil => simp [List.lookup]
  | cons e t ih =>
    obtain ⟨a, b⟩ := e
    simp only [List.map_cons, List.any_cons]
    by_cases hak : a = k
    · subst hak
      simp only [beq_self_eq_true, if_true, List.lookup_cons, Bool.true_or]
      by_cases h : k' = a
      · subst h; simp
      · have : (k' == a) = false := by simpa using h
        simp only [this, h, if_false]
        rw [ih]; simp [h]
    · have hak' : (a == k) = false := by simpa using hak
      simp only [hak', Bool.false_eq_true, if_false, List.lookup_cons, Bool.false_or]
      by_cases h : k' = a
      · subst h
        have : ¬ k' = k := hak
        simp [this]
      · have : (k' == a) = false := by simpa using h
        simp only [this]
        exact ih

theorem Table.get_add (t : Table) (k v k' : Bytes) :
    (t.add k v).get k' = if k' = k then some v else t.get k' := by
  unfold Table.add Table.get
  by_cases hany : t.any (fun e => e.1 == k) = true
  · rw [if_pos hany, lookup_map_replace, hany]; simp
  · have hno : t.any (fun e => e.1 == k) = false := by
      cases h : t.any (fun e => e.1 == k) with
      | true => exact absurd h hany
      | false => rfl
    rw [if_neg hany, lookup_append_single t k v k' hno]

theorem Table.get_add_self (t : Table) (k v : Bytes) : (t.add k v).get k = some v := by
  rw [Table.get_add]; simp

theorem Table.get_add_ne (t : Table) (k v k' : Bytes) (h : k' ≠ k) : (t.add k v).get k' = t.get k' := by
  rw [Table.get_add]; simp [h]

/-! ### the scanner on a rendered directive list -/

def run (st : PState × Table) (s : Bytes) : PState × Table := s.foldl pstep st

theorem run_append (st : PState × Table) (a b : Bytes) : run st (a ++ b) = run (run st a) b := by
  simp [run, List.foldl_append]

/-- a directive name: token characters only (no `=`, `,`, space), non-empty -/
def KeyOk (k : Bytes) : Prop := k ≠ [] ∧ ∀ c ∈ k, c ≠ eq_ ∧ c ≠ comma ∧ c ≠ space

/-- an unquoted value as the C scanner reads it back: no `,`, not starting with a quote -/
def BareOk (v : Bytes) : Prop := (∀ c ∈ v, c ≠ comma) ∧ v.head? ≠ some dquote ∧ v.head? ≠ some squote

def DirOk (d : Directive) : Prop := KeyOk d.key ∧ (d.quoted = false → BareOk d.value)

theorem run_inKey (k acc : Bytes) (t : Table) (h : ∀ c ∈ k, c ≠ eq_) :
    run (.inKey acc, t) k = (.inKey (k.reverse ++ acc), t) := by
  induction k generalizing acc with
  | nil => rfl
  | cons c k ih =>
    have hc : (c == eq_) = false := by simpa using h c (by simp)
    simp only [run, List.foldl_cons, pstep, hc, Bool.false_eq_true, if_false]
    have := ih (c :: acc) (fun x hx => h x (by simp [hx]))
    simp only [run] at this
    rw [this]; simp

theorem run_key (k : Bytes) (t : Table) (hk : KeyOk k) :
    run (.skip, t) (k ++ [eq_]) = (.valStart k, t) := by
  obtain ⟨hne, hc⟩ := hk
  cases k with
  | nil => exact absurd rfl hne
  | cons c k =>
    obtain ⟨h1, h2, h3⟩ := hc c (by simp)
    have e1 : (c == comma) = false := by simpa using h2
    have e2 : (c == space) = false := by simpa using h3
    have e3 : (c == eq_) = false := by simpa using h1
    rw [List.cons_append, run, List.foldl_cons]
    simp only [pstep, e1, e2, e3, Bool.or_false, Bool.false_eq_true, if_false]
    have := run_append (.inKey [c], t) k [eq_]
    simp only [run] at this
    rw [this]
    have h' := run_inKey k [c] t (fun x hx => (hc x (by simp [hx])).1)
    simp only [run] at h'
    rw [h']
    simp [pstep]

theorem run_quotedBody (key v acc : Bytes) (t : Table) :
    run (.inQuoted key dquote acc, t) (v.flatMap (fun c => if c = 34 ∨ c = 92 then [92, c] else [c])) =
      (.inQuoted key dquote (v.reverse ++ acc), t) := by
  induction v generalizing acc with
  | nil => rfl
  | cons c v ih =>
    rw [List.flatMap_cons, run_append]
    by_cases hq : c = 34 ∨ c = 92
    · rw [if_pos hq]
      have step : run (.inQuoted key dquote acc, t) [92, c] = (.inQuoted key dquote (c :: acc), t) := by
        simp [run, pstep, dquote, backslash]
      rw [step, ih]; simp
    · rw [if_neg hq]
      have h1 : (c == dquote) = false := by
        have : c ≠ 34 := fun e => hq (Or.inl e)
        simpa [dquote] using this
      have h2 : (c == backslash) = false := by
        have : c ≠ 92 := fun e => hq (Or.inr e)
        simpa [backslash] using this
      have step : run (.inQuoted key dquote acc, t) [c] = (.inQuoted key dquote (c :: acc), t) := by
        simp [run, pstep, h1, h2]
      rw [step, ih]; simp

theorem run_quoted (key v : Bytes) (t : Table) :
    run (.valStart key, t) (quotedString v) = (.skip, t.add key v) := by
  unfold quotedString
  rw [run_append, run_append]
  have s1 : run (.valStart key, t) [34] = (.inQuoted key dquote [], t) := by
    simp [run, pstep, squote, dquote]
  rw [s1, run_quotedBody]
  simp [run, pstep, dquote]

theorem run_inBare (key v acc : Bytes) (t : Table) (h : ∀ c ∈ v, c ≠ comma) :
    run (.inBare key acc, t) v = (.inBare key (v.reverse ++ acc), t) := by
  induction v generalizing acc with
  | nil => rfl
  | cons c v ih =>
    have hc : (c == comma) = false := by simpa using h c (by simp)
    simp only [run, List.foldl_cons, pstep, hc, Bool.false_eq_true, if_false]
    have := ih (c :: acc) (fun x hx => h x (by simp [hx]))
    simp only [run] at this
    rw [this]; simp

/-- after an unquoted value the scanner is in a state from which both a `,` and the end of the
    string store the value -/
theorem run_bare (key v : Bytes) (t : Table) (h : BareOk v) :
    pfinish (run (.valStart key, t) v) = t.add key v ∧
    pstep (run (.valStart key, t) v) comma = (.skip, t.add key v) := by
  obtain ⟨hc, hd, hs⟩ := h
  cases v with
  | nil => simp [run, pfinish, pstep, comma, squote, dquote]
  | cons c v =>
    have e1 : (c == squote) = false := by simpa using hs
    have e2 : (c == dquote) = false := by simpa using hd
    have e3 : (c == comma) = false := by simpa using hc c (by simp)
    have : run (.valStart key, t) (c :: v) = (.inBare key (v.reverse ++ [c]), t) := by
      rw [run, List.foldl_cons]
      simp only [pstep, e1, e2, e3, Bool.or_false, Bool.false_eq_true, if_false]
      have := run_inBare key v [c] t (fun x hx => hc x (by simp [hx]))
      simpa [run] using this
    rw [this]
    simp [pfinish, pstep]

/-- one rendered directive -/
theorem run_directive (d : Directive) (t : Table) (h : DirOk d) :
    pfinish (run (.skip, t) d.render) = t.add d.key d.value ∧
    pstep (run (.skip, t) d.render) comma = (.skip, t.add d.key d.value) := by
  unfold Directive.render
  rw [run_append, show ([61] : Bytes) = [eq_] from rfl, run_key d.key t h.1]
  cases hq : d.quoted with
  | true => simp [run_quoted, pfinish, pstep, comma, space]
  | false => simpa using run_bare d.key d.value t (h.2 hq)

/-- the table `_parse_digest_challenge` builds from a rendered challenge -/
theorem parse_render (ds : List Directive) (h : ∀ d ∈ ds, DirOk d) (t : Table) :
    pfinish (run (.skip, t) (renderChallenge ds)) = ds.foldl (fun (t : Table) d => t.add d.key d.value) t := by
  induction ds generalizing t with
  | nil => rfl
  | cons d rest ih =>
    cases rest with
    | nil => simpa [renderChallenge] using (run_directive d t (h d (by simp))).1
    | cons d' rest' =>
      have hd := run_directive d t (h d (by simp))
      simp only [renderChallenge]
      rw [run_append, run_append]
      have : run (run (.skip, t) d.render) [44] = (.skip, t.add d.key d.value) := by
        have := hd.2
        simpa [run, comma] using this
      rw [this, ih (fun x hx => h x (by simp [hx]))]
      rfl

theorem parseChallenge_render (ds : List Directive) (h : ∀ d ∈ ds, DirOk d) :
    parseChallenge (renderChallenge ds) = ds.foldl (fun (t : Table) d => t.add d.key d.value) [] :=
  parse_render ds h []

/-- `hash_get` on that table = the last occurrence of the directive -/
theorem get_foldl_add (ds : List Directive) (t : Table) (k : Bytes) :
    (ds.foldl (fun (t : Table) d => t.add d.key d.value) t).get k =
      match lastValue ds k with
      | some v => some v
      | none => t.get k := by
  induction ds generalizing t with
  | nil => simp [lastValue]
  | cons d rest ih =>
    rw [List.foldl_cons, ih]
    unfold lastValue
    simp only [List.reverse_cons, List.find?_append]
    cases hf : rest.reverse.find? (fun d => d.key == k) with
    | some x => simp
    | none =>
      simp only [Option.none_or, Option.map_none]
      rw [Table.get_add]
      by_cases hk : k = d.key
      · subst hk; simp
      · have : (d.key == k) = false := by simpa using fun e => hk e.symm
        simp [List.find?, this, hk]

end Strophe.Lemmas.Sasl
