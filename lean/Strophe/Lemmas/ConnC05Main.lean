/-
C05: the counter equals the count over the dispatch history in every reachable state.

The invariant is `Agree` (the statement) ∧ "no SM record yet ⇒ empty count" ∧ `HS` (registration of
`_handle_sm`) ∧ the C03 invariant `Good` (at most one negotiation handler pending, distinct handler
uids), which gives `Pre` wherever a stanza is dispatched.
-/
import Strophe.Lemmas.ConnC05Fire
import Strophe.Lemmas.ConnC03I

namespace Strophe.Lemmas.ConnC05
open Strophe Strophe.Conn Strophe.Lemmas.ConnC13
open Strophe.Lemmas.ConnC03 (hkey negK OpOk)

variable {jid : Option Bytes} {U : Item → Prop} {NR : Prop} {p : ConnC03.Par} {c : Conn}

theorem hkey_uid (l : List Handler) : (l.map hkey).map (·.1) = l.map (·.uid) := by
  rw [List.map_map]; rfl

/-- the C03 invariant provides what the dispatch lemma needs -/
theorem pre_of_inv (hi : ConnC03.Inv jid U NR p c) (hx : p.x = none) : Pre c := by
  have hh := hi.h
  have hnd := hh.nd
  rw [List.map_append, hkey_uid, hkey_uid, List.nodup_append] at hnd
  obtain ⟨nd1, _, nd3⟩ := hnd
  have one : ∀ k1 ∈ c.handlers.map hkey ++ c.idHandlers.map hkey, ∀ k2 ∈ c.handlers.map hkey ++ c.idHandlers.map hkey,
      negK k1 → negK k2 → k1 = k2 := by
    intro k1 h1 k2 h2 n1 n2
    exact hh.one k1 h1 k2 h2 n1 n2 (by rw [hx]; exact fun e => nomatch e) (by rw [hx]; exact fun e => nomatch e)
  refine ⟨nd1, ?_⟩
  intro h hm hf
  have km : hkey h ∈ c.handlers.map hkey ++ c.idHandlers.map hkey :=
    List.mem_append_left _ (List.mem_map_of_mem hm)
  have kn : negK (hkey h) := ⟨.sm, hf, fun e => nomatch e⟩
  refine ⟨?_, ?_⟩
  · intro h' hm'
    cases hfn : h'.fn with
    | userAll => exact .inr (.inr rfl)
    | sys s =>
      by_cases hs : s = .error
      · subst hs; exact .inr (.inl rfl)
      · left
        have := one (hkey h') (List.mem_append_left _ (List.mem_map_of_mem hm')) (hkey h) km ⟨s, hfn, hs⟩ kn
        exact congrArg (·.1) this
  · intro h' hm'
    have km' : hkey h' ∈ c.handlers.map hkey ++ c.idHandlers.map hkey :=
      List.mem_append_right _ (List.mem_map_of_mem hm')
    have clash : negK (hkey h') → False := by
      intro n'
      have e := one (hkey h') km' (hkey h) km n' kn
      exact nd3 h.uid (List.mem_map_of_mem (f := (·.uid)) hm) h'.uid (List.mem_map_of_mem (f := (·.uid)) hm')
        (congrArg (·.1) e).symm
    rcases hh.idk (hkey h') (List.mem_map_of_mem hm') with e | e | e | e
    · exact (clash ⟨.bind, e, fun a => nomatch a⟩).elim
    · exact (clash ⟨.session, e, fun a => nomatch a⟩).elim
    · exact (clash ⟨.legacy, e, fun a => nomatch a⟩).elim
    · exact .inr e

/-! ### the invariant proper -/

/-- the statement, and: before the first connect call (no SM record) nothing has been counted -/
def M (c : Conn) : Prop := Agree c ∧ (c.hasSm = false → countSince c.rxLog = 0)

theorem M_same {c0 c : Conn} (h : Same c0 c) (m : M c0) : M c :=
  ⟨h.agree m.1, fun hf => by rw [h.2.1]; exact m.2 (h.2.2 ▸ hf)⟩

theorem M_freshSm (m : M c) : M (if c.hasSm then c else { c with hasSm := true, sm := {} }) := by
  split
  · exact m
  · rename_i hf
    refine ⟨?_, fun a => nomatch a⟩
    have hf : c.hasSm = false := by cases hb : c.hasSm <;> simp_all
    show (0 : UInt32) = UInt32.ofNat (countSince c.rxLog)
    rw [m.2 hf]; rfl

theorem M_connectClient (m : M c) : M (connectClient c).1 := by
  unfold connectClient
  split
  · exact m
  · split
    · exact m
    · dsimp only
      exact M_same (Same_connConnect (Same.refl _)) (M_freshSm m)

theorem M_connectComponent (m : M c) : M (connectComponent c).1 := by
  unfold connectComponent
  split
  · exact m
  · have h1 : M (setFlags c (getFlags c ||| Gen.flagDisableTls)).1 := M_same (Same_setFlags (Same.refl c)) m
    generalize setFlags c (getFlags c ||| Gen.flagDisableTls) = r at h1
    obtain ⟨c1, rc⟩ := r
    dsimp only at h1 ⊢
    split
    · exact h1
    · exact M_same (Same_connConnect (Same.refl _)) (M_freshSm h1)

theorem M_connectRaw (m : M c) : M (connectRaw c).1 := by
  unfold connectRaw
  split
  · exact m
  · have h1 : M (connectClient { c with isRaw := true }).1 :=
      M_connectClient (M_same (show Same c { c with isRaw := true } from ⟨rfl, rfl, rfl⟩) m)
    generalize connectClient { c with isRaw := true } = r at h1
    obtain ⟨c1, rc⟩ := r
    dsimp only at h1 ⊢
    split
    · exact M_same (show Same c1 { c1 with isRaw := false } from ⟨rfl, rfl, rfl⟩) h1
    · exact h1

/-! ### parser events -/

theorem M_parserEvent (hi : ConnC03.Inv jid U NR p c) (hx : p.x = none) (hs : HS none c) (m : M c) (e : PEv) :
    M (parserEvent c e) := by
  cases e with
  | open_ n id =>
    unfold parserEvent; dsimp only
    split
    · exact M_same ⟨rfl, rfl, rfl⟩ m
    · exact M_same (Same_handleStreamStart (c0 := c) ⟨rfl, rfl, rfl⟩) m
  | stanza t =>
    unfold parserEvent; dsimp only
    split
    · exact M_same ⟨rfl, rfl, rfl⟩ m
    · by_cases hd : c.state = .disconnected
      · have : handleStreamStanza c t = c := by unfold handleStreamStanza; rw [if_pos hd]
        rw [this]; exact m
      · obtain ⟨a, hh⟩ := handleStreamStanza_agree (st := t) (pre_of_inv hi hx) hs m.1
        refine ⟨a, fun hf => ?_⟩
        rw [hh, hi.cfg.hsm hd] at hf; cases hf
  | end_ =>
    unfold parserEvent; dsimp only
    split
    · exact M_same ⟨rfl, rfl, rfl⟩ m
    · exact M_same (Same_handleStreamEnd (c0 := c) ⟨rfl, rfl, rfl⟩) m
  | error =>
    unfold parserEvent
    exact M_same (Same_sendStanza (c0 := c) ⟨rfl, rfl, rfl⟩) m

theorem M_events (evs : List PEv) : ∀ (c : Conn) (p : ConnC03.Par), ConnC03.DP p → p.mb = 0 →
    ConnC03.Inv jid U NR p c → HS none c → M c → M (evs.foldl parserEvent c) := by
  induction evs with
  | nil => intro c p _ _ _ _ m; exact m
  | cons e evs ih =>
    intro c p dp hmb hi hs m
    obtain ⟨pb, hi'⟩ := hi.parserEvent dp hmb e
    exact ih _ _ (dp.setPb pb) hmb hi' (HS_parserEvent hs) (M_parserEvent hi dp.x hs m e)

/-! ### `xmpp_run_once`, along the decomposition of ConnC03H.lean -/

open Strophe.Lemmas.ConnC03 (roW roR roT roC5 roFinal runOnce_eq)

/-- `HS` and `Same` through a stage -/
structure St (c c' : Conn) : Prop where
  hs : HS none c → HS none c'
  same : Same c c'

theorem St.trans {a b c : Conn} (h1 : St a b) (h2 : St b c) : St a c :=
  ⟨fun h => h2.hs (h1.hs h), h1.same.trans h2.same⟩

theorem St_roW (c : Conn) : St c (roW c) := by
  refine ⟨fun h => ?_, ?_⟩
  · unfold roW; ctrav
  · exact Same_roW (Same.refl c)

theorem St_roR (c : Conn) : St c (roR c) := ⟨fun h => h, ⟨rfl, rfl, rfl⟩⟩

theorem St_fireTimed (c : Conn) : St c (fireTimed c) := ⟨HS_fireTimed, Same_fireTimed (Same.refl c)⟩

theorem St_roT (c : Conn) : St c (roT c) := by
  refine ⟨fun h => ?_, ?_⟩
  · unfold roT; ctrav
  · have h := Same.refl c
    unfold roT; ctrav

theorem M_roC5 (g : ConnC03.Good2 jid U NR c) (hs : HS none c) (m : M c) (rx : Rx) : M (roC5 c rx) := by
  have h := Same.refl c
  unfold roC5
  split
  · refine M_same ?_ m
    ctrav
  · split
    · rename_i hc
      cases rx with
      | none => exact m
      | data evs =>
        dsimp only
        obtain ⟨p, b', hi⟩ := g.1
        exact M_events evs c _ ((b'.setSb .connected).dp rfl) b'.mb (hi.setSb .connected (Or.inl hc)) hs m
      | eof => exact M_same (by dsimp only; ctrav) m
      | ioerr => exact M_same (by dsimp only; ctrav) m
    · exact m

theorem M_runOnce (g : ConnC03.Good jid U NR c) (hs : HS none c) (m : M c) (rx : Rx) : M (runOnce c rx) := by
  rw [runOnce_eq]
  have g2 : ConnC03.Good2 jid U NR (roR (roW c)) := ⟨g.write.reset, fun _ => rfl⟩
  have g4 := g2.fireTimed.roT
  have s4 : St c (roT (fireTimed (roR (roW c)))) :=
    (((St_roW c).trans (St_roR _)).trans (St_fireTimed _)).trans (St_roT _)
  have hs4 := s4.hs hs
  have m4 := M_same s4.same m
  generalize roT (fireTimed (roR (roW c))) = c4 at g4 hs4 m4
  unfold roFinal
  split
  · exact m4
  · dsimp only
    repeat' split
    all_goals first
      | exact m4
      | exact M_same (Same_fireTimed (Same.refl _)) (M_roC5 g4 hs4 m4 _)

/-! ### histories -/

theorem M_step (g : ConnC03.Good jid U NR c) (hs : HS none c) (m : M c) (op : Op) : M (step c op) := by
  cases op with
  | connect k =>
    cases k
    · exact M_connectClient m
    · exact M_connectComponent m
    · exact M_connectRaw m
  | run rx => exact M_runOnce g hs m rx
  | setTcp f e => exact m
  | setTls sf nf => exact m
  | setSched l d => exact m
  | tick ms => exact m
  | setSmCallback => exact m
  | setSendOnConnect on => exact m
  | setFlags f => exact M_same (Same_setFlags (Same.refl c)) m
  | usend it => exact M_same (Same_xmppSend (Same.refl c)) m
  | uraw it => exact M_same (Same_xmppSendRaw (Same.refl c)) m
  | urawstr it => exact M_same (Same_xmppSendRawString (Same.refl c)) m
  | udisc => exact M_same (Same_xmppDisconnect (Same.refl c)) m
  | release => exact M_same (Same_release (Same.refl c)) m
  | addUserHandlers =>
    exact M_same (Same_addTimed (Same_addIdHandler (Same_addHandler (Same.refl c)))) m

theorem M_exec (ops : List Op) (hops : ∀ op ∈ ops, OpOk U NR op) : ∀ (c : Conn),
    ConnC03.Good jid U NR c → HS none c → M c → M (exec c ops) := by
  induction ops with
  | nil => intro c _ _ m; exact m
  | cons op ops ih =>
    intro c g hs m
    exact ih (fun o ho => hops o (List.mem_cons_of_mem _ ho)) _
      (g.step op (hops op List.mem_cons_self)) (HS_step op hs) (M_step g hs m op)

theorem M_fresh (jid pass : Option Bytes) (cert : Bool) (flags : Nat) : M (fresh jid pass cert flags) := by
  unfold fresh
  refine M_same (Same_setFlags (Same.refl _)) ?_
  exact ⟨rfl, fun _ => rfl⟩

theorem opOk_any (ops : List Op) : ∀ op ∈ ops, OpOk (fun _ => True) False op := by
  intro op _; cases op <;> first | exact True.intro | exact ⟨True.intro, id⟩

theorem handled_is_dispatch_count' (jid pass : Option Bytes) (cert : Bool) (flags : Nat) (ops : List Op) :
    let c := exec (fresh jid pass cert flags) ops
    c.sm.handledNr = UInt32.ofNat (countSince c.rxLog) :=
  (M_exec (jid := jid) (U := fun _ => True) (NR := False) ops (opOk_any ops) _
    (ConnC03.good_fresh jid pass cert flags) (HS_fresh jid pass cert flags) (M_fresh jid pass cert flags)).1

end Strophe.Lemmas.ConnC05
