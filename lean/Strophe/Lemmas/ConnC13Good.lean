/-
"connected" is never reported after the disconnect of the same attempt (Props/C13.lean,
`connect_before_disconnect`).

Why it holds.  CONNECT / RAW_CONNECT are raised by `_stream_negotiation_success` and
`conn_established`.  Stanza handlers only run while the connection is not disconnected at the start
of the dispatch (`_handle_stream_stanza`), but a handler may disconnect in the middle of a dispatch
(`_auth` when TLS is mandatory and missing) and a later handler of the same dispatch could still
complete the negotiation.  This cannot happen because the stanza names for which a handler
disconnects directly ("features", "failure") are not names for which a handler completes the
negotiation ("enabled", "resumed", "failed", "handshake"), the `_handle_features` handler is only
registered for the name "features", and the id handlers (bind/session/legacy; the application's
own id handler only reports the stanza), which complete the
negotiation whatever the name, all run BEFORE the other handlers and never disconnect directly.
That needs three further invariants: `HL` (which functions sit in which handler list), `G` (the
property itself) and the lifecycle invariant `J` of ConnC13Inv.lean (not disconnected ⇒ no
disconnect notification yet).
-/
import Strophe.Lemmas.ConnC13Inv

namespace Strophe.Lemmas.ConnC13
open Strophe Strophe.Conn

variable {c : Conn}

/-! ### HL: what is registered where -/

/-- a stanza handler is not one of the id handlers' functions, and `_handle_features` is
    registered for the element name "features" -/
def okH (fn : HFun) (name : Option Bytes) : Bool :=
  match fn with
  | .sys .bind => false
  | .sys .session => false
  | .sys .legacy => false
  | .sys .features => name == some (b "features")
  | _ => true

def okI (fn : HFun) : Bool :=
  match fn with
  | .sys .bind => true
  | .sys .session => true
  | .sys .legacy => true
  | .userAll => true      -- the application's own id handler: only reports the stanza
  | _ => false

def HL (c : Conn) : Prop :=
  (∀ h ∈ c.handlers, okH h.fn h.name = true) ∧ (∀ h ∈ c.idHandlers, okI h.fn = true)

theorem HL_addHandler {fn ud ns name type user} (h : HL c) (hok : okH fn name = true) :
    HL (addHandler c fn ud ns name type user) := by
  unfold addHandler; split
  · exact h
  · refine ⟨?_, h.2⟩
    intro x hx
    rcases List.mem_append.1 hx with hx | hx
    · exact h.1 x hx
    · simp only [List.mem_singleton] at hx; subst hx; exact hok

theorem HL_addIdHandler {fn id user} (h : HL c) (hok : okI fn = true) : HL (addIdHandler c fn id user) := by
  unfold addIdHandler; split
  · exact h
  · refine ⟨h.1, ?_⟩
    intro x hx
    rcases List.mem_append.1 hx with hx | hx
    · exact h.2 x hx
    · simp only [List.mem_singleton] at hx; subst hx; exact hok

theorem HL_rec1 {p : Handler → Bool} (h : HL c) : HL { c with handlers := c.handlers.filter p } :=
  ⟨fun x hx => h.1 x (List.mem_filter.1 hx).1, h.2⟩
theorem HL_rec2 {p : Handler → Bool} (h : HL c) : HL { c with idHandlers := c.idHandlers.filter p } :=
  ⟨h.1, fun x hx => h.2 x (List.mem_filter.1 hx).1⟩
theorem HL_rec3 (h : HL c) :
    HL { c with handlers := c.handlers.map fun (h : Handler) => { h with enabled := true } } := by
  refine ⟨?_, h.2⟩
  intro x hx
  obtain ⟨y, hy, rfl⟩ := List.mem_map.1 hx
  exact h.1 y hy
theorem HL_rec4 {id : Bytes} (h : HL c) :
    HL { c with idHandlers := c.idHandlers.map fun (h : Handler) =>
      if h.id = some id then { h with enabled := true } else h } := by
  refine ⟨h.1, ?_⟩
  intro x hx
  obtain ⟨y, hy, rfl⟩ := List.mem_map.1 hx
  split
  · exact h.2 y hy
  · exact h.2 y hy
theorem HL_rec5 {p q : Handler → Bool} {tm : List Timed} (h : HL c) :
    HL { c with handlers := c.handlers.filter p, idHandlers := c.idHandlers.filter q, timed := tm } :=
  ⟨fun x hx => h.1 x (List.mem_filter.1 hx).1, fun x hx => h.2 x (List.mem_filter.1 hx).1⟩

theorem HL_rec6 {id : Bytes} (h : HL c) :
    HL { c with handlers := c.handlers.map fun (h : Handler) => { h with enabled := true },
                idHandlers := c.idHandlers.map fun (h : Handler) =>
                  if h.id = some id then { h with enabled := true } else h } :=
  ⟨(HL_rec3 h).1, (HL_rec4 (id := id) h).2⟩

theorem HL_triggerSmCallback (h : HL c) : HL (triggerSmCallback c) := h
theorem HL_prepareReset {o} (h : HL c) : HL (prepareReset c o) := h
theorem HL_notify {e} (h : HL c) : HL (notify c e) := by
  cauto notify

theorem HL_resetTimed (h : HL c) : HL (resetTimed c) := by
  cauto resetTimed

theorem HL_delTimed {fn} (h : HL c) : HL (delTimed c fn) := by
  cauto delTimed

theorem HL_addTimed {fn period user} (h : HL c) : HL (addTimed c fn period user) := by
  cauto addTimed

theorem HL_systemDeleteAll (h : HL c) : HL (systemDeleteAll c) := by
  cauto systemDeleteAll

theorem HL_resetSmForReconnect (h : HL c) : HL (resetSmForReconnect c) := by
  cauto resetSmForReconnect

theorem HL_connDisconnect (h : HL c) : HL (connDisconnect c) := by
  cauto connDisconnect

theorem HL_pushRawWith {it o sn} (h : HL c) : HL (pushRawWith c it o sn) := by
  cauto pushRawWith

theorem HL_pushRaw {it o} (h : HL c) : HL (pushRaw c it o) := by
  cauto pushRaw

theorem HL_sendStanza {it o} (h : HL c) : HL (sendStanza c it o) := by
  cauto sendStanza

theorem HL_sendRaw {it o} (h : HL c) : HL (sendRaw c it o) := by
  cauto sendRaw

theorem HL_sendRawString {it} (h : HL c) : HL (sendRawString c it) := by
  cauto sendRawString

theorem HL_xmppDisconnect (h : HL c) : HL (xmppDisconnect c) := by
  cauto xmppDisconnect

theorem HL_connTlsStart (h : HL c) : HL (connTlsStart c).1 := by
  cauto connTlsStart

theorem HL_connOpenStream (h : HL c) : HL (connOpenStream c) := by
  cauto connOpenStream

theorem HL_authLegacyStep (h : HL c) : HL (authLegacyStep c) := by
  cauto authLegacyStep

theorem HL_auth (n : Nat) : ∀ {c}, HL c → HL (auth c n) := by
  induction n with
  | zero => intro c h; exact h
  | succ n ih =>
    intro c h
    rw [auth]
    dsimp only
    ctrav
    all_goals first | (apply ih; ctrav) | skip
theorem HL_authTop (h : HL c) : HL (authTop c) := HL_auth _ h

theorem HL_saslChild {t} (h : HL c) : HL (saslChild c t) := by
  cauto saslChild

theorem HL_noteOffers {st} (h : HL c) : HL (noteOffers c st) := by
  cauto noteOffers

theorem HL_handleFeatures {st} (h : HL c) : HL (handleFeatures c st) := by
  cauto handleFeatures

theorem HL_doBind (h : HL c) : HL (doBind c) := by
  cauto doBind

theorem HL_smEnable (h : HL c) : HL (smEnable c) := by
  cauto smEnable

theorem HL_sessionStart (h : HL c) : HL (sessionStart c) := by
  cauto sessionStart

theorem HL_handleFeaturesSasl {st} (h : HL c) : HL (handleFeaturesSasl c st) := by
  cauto handleFeaturesSasl

theorem HL_compressionOffer {st} (h : HL c) : HL (compressionOffer c st) := by
  cauto compressionOffer

theorem HL_handleFeaturesCompress {st} (h : HL c) : HL (handleFeaturesCompress c st) := by
  cauto handleFeaturesCompress

theorem HL_handleSaslResult {st} (h : HL c) : HL (handleSaslResult c st) := by
  cauto handleSaslResult

theorem HL_smQueueResend (h : HL c) : HL (smQueueResend c) := by
  cauto smQueueResend

theorem HL_negotiationSuccess (h : HL c) : HL (negotiationSuccess c) := by
  cauto negotiationSuccess

theorem HL_handleSm {st} (h : HL c) : HL (handleSm c st) := by
  cauto handleSm

theorem HL_handleBind {st} (h : HL c) : HL (handleBind c st) := by
  cauto handleBind

theorem HL_handleSession {st} (h : HL c) : HL (handleSession c st) := by
  cauto handleSession

theorem HL_handleLegacy {st} (h : HL c) : HL (handleLegacy c st) := by
  cauto handleLegacy

theorem HL_handleError {st} (h : HL c) : HL (handleError c st) := by
  cauto handleError

theorem HL_runSys {k st} (h : HL c) : HL (runSys c k st).1 := by
  cauto runSys

theorem HL_runHandler {k st} (h : HL c) : HL (runHandler c k st).1 := by
  cauto runHandler

theorem HL_fireOne {st uid} (h : HL c) : HL (fireOne st c uid) := by
  cauto fireOne

theorem HL_fireIdOne {st uid} (h : HL c) : HL (fireIdOne st c uid) := by
  cauto fireIdOne

theorem HL_fireStanza {st} (h : HL c) : HL (fireStanza c st) := by
  cauto fireStanza

theorem HL_smElement {st} (h : HL c) : HL (smHandleStanza.smElement c st) := by
  cauto smHandleStanza.smElement

theorem HL_smHandleStanza {st} (h : HL c) : HL (smHandleStanza c st) := by
  cauto smHandleStanza

theorem HL_handleStreamStanza {st} (h : HL c) : HL (handleStreamStanza c st) := by
  cauto handleStreamStanza

theorem HL_componentOpen (h : HL c) : HL (componentOpen c) := by
  cauto componentOpen

theorem HL_runOpenHandler (h : HL c) : HL (runOpenHandler c) := by
  cauto runOpenHandler

theorem HL_handleStreamStart {n id} (h : HL c) : HL (handleStreamStart c n id) := by
  cauto handleStreamStart

theorem HL_handleStreamEnd (h : HL c) : HL (handleStreamEnd c) := by
  cauto handleStreamEnd

theorem HL_parserEvent {e} (h : HL c) : HL (parserEvent c e) := by
  cauto parserEvent

theorem HL_runTimed {f} (h : HL c) : HL (runTimed c f).1 := by
  cauto runTimed

theorem HL_fireTimedOne {uid} (h : HL c) : HL (fireTimedOne c uid) := by
  cauto fireTimedOne

theorem HL_fireTimed (h : HL c) : HL (fireTimed c) := by
  cauto fireTimed

theorem HL_retire {e} (h : HL c) : HL (retire c e) := by
  cauto retire

theorem HL_writeElems (l : List QElem) : ∀ {c}, HL c → HL (writeElems c l) := by
  induction l with
  | nil => intro c h; exact h
  | cons e q ih =>
    intro c h
    unfold writeElems
    ctrav
    all_goals first | (apply ih; ctrav) | skip
theorem HL_writeLoop (h : HL c) : HL (writeLoop c) := HL_writeElems _ h

theorem HL_connEstablished (h : HL c) : HL (connEstablished c) := by
  cauto connEstablished

theorem HL_runOnce {rx} (h : HL c) : HL (runOnce c rx) := by
  cauto runOnce

theorem HL_xmppSend {it} (h : HL c) : HL (xmppSend c it) := by
  cauto xmppSend

theorem HL_xmppSendRawString {it} (h : HL c) : HL (xmppSendRawString c it) := by
  cauto xmppSendRawString

theorem HL_xmppSendRaw {it} (h : HL c) : HL (xmppSendRaw c it) := by
  cauto xmppSendRaw

theorem HL_release (h : HL c) : HL (release c) := by
  cauto release

theorem HL_connReset (h : HL c) : HL (connReset c) := by
  cauto connReset

theorem HL_setFlags {f} (h : HL c) : HL (setFlags c f).1 := by
  cauto setFlags

theorem HL_connConnect {d t} (h : HL c) : HL (connConnect c d t).1 := by
  cauto connConnect

theorem HL_connectClient (h : HL c) : HL (connectClient c).1 := by
  cauto connectClient

theorem HL_connectComponent (h : HL c) : HL (connectComponent c).1 := by
  cauto connectComponent

theorem HL_connectRaw (h : HL c) : HL (connectRaw c).1 := by
  cauto connectRaw

/-! ### G: the property; functions that raise no CONNECT keep it -/

def G (c : Conn) : Prop := ∀ p ∈ c.evs, isConn p.2 = true → p.1.notifiedDisconnect = 0

theorem G_notify {e} (h : G c) (he : isConn e = false) : G (notify c e) := by
  unfold notify
  intro p hp hc
  rcases List.mem_append.1 hp with hp | hp
  · exact h p hp hc
  · simp only [List.mem_singleton] at hp
    subst hp
    rw [he] at hc; cases hc

theorem G_triggerSmCallback (h : G c) : G (triggerSmCallback c) := h
theorem G_prepareReset {o} (h : G c) : G (prepareReset c o) := h
theorem G_addHandler {fn ud ns name type user} (h : G c) : G (addHandler c fn ud ns name type user) := by
  cauto addHandler
theorem G_addIdHandler {fn id user} (h : G c) : G (addIdHandler c fn id user) := by
  cauto addIdHandler

theorem G_resetTimed (h : G c) : G (resetTimed c) := by
  cauto resetTimed

theorem G_delTimed {fn} (h : G c) : G (delTimed c fn) := by
  cauto delTimed

theorem G_addTimed {fn period user} (h : G c) : G (addTimed c fn period user) := by
  cauto addTimed

theorem G_systemDeleteAll (h : G c) : G (systemDeleteAll c) := by
  cauto systemDeleteAll

theorem G_resetSmForReconnect (h : G c) : G (resetSmForReconnect c) := by
  cauto resetSmForReconnect

theorem G_connDisconnect (h : G c) : G (connDisconnect c) := by
  cauto connDisconnect

theorem G_pushRawWith {it o sn} (h : G c) : G (pushRawWith c it o sn) := by
  cauto pushRawWith

theorem G_pushRaw {it o} (h : G c) : G (pushRaw c it o) := by
  cauto pushRaw

theorem G_sendStanza {it o} (h : G c) : G (sendStanza c it o) := by
  cauto sendStanza

theorem G_sendRaw {it o} (h : G c) : G (sendRaw c it o) := by
  cauto sendRaw

theorem G_sendRawString {it} (h : G c) : G (sendRawString c it) := by
  cauto sendRawString

theorem G_xmppDisconnect (h : G c) : G (xmppDisconnect c) := by
  cauto xmppDisconnect

theorem G_connTlsStart (h : G c) : G (connTlsStart c).1 := by
  cauto connTlsStart

theorem G_connOpenStream (h : G c) : G (connOpenStream c) := by
  cauto connOpenStream

theorem G_authLegacyStep (h : G c) : G (authLegacyStep c) := by
  cauto authLegacyStep

theorem G_auth (n : Nat) : ∀ {c}, G c → G (auth c n) := by
  induction n with
  | zero => intro c h; exact h
  | succ n ih =>
    intro c h
    rw [auth]
    dsimp only
    ctrav
    all_goals first | (apply ih; ctrav) | skip
theorem G_authTop (h : G c) : G (authTop c) := G_auth _ h

theorem G_saslChild {t} (h : G c) : G (saslChild c t) := by
  cauto saslChild

theorem G_noteOffers {st} (h : G c) : G (noteOffers c st) := by
  cauto noteOffers

theorem G_handleFeatures {st} (h : G c) : G (handleFeatures c st) := by
  cauto handleFeatures

theorem G_doBind (h : G c) : G (doBind c) := by
  cauto doBind

theorem G_smEnable (h : G c) : G (smEnable c) := by
  cauto smEnable

theorem G_sessionStart (h : G c) : G (sessionStart c) := by
  cauto sessionStart

theorem G_handleFeaturesSasl {st} (h : G c) : G (handleFeaturesSasl c st) := by
  cauto handleFeaturesSasl

theorem G_compressionOffer {st} (h : G c) : G (compressionOffer c st) := by
  cauto compressionOffer

theorem G_handleFeaturesCompress {st} (h : G c) : G (handleFeaturesCompress c st) := by
  cauto handleFeaturesCompress

theorem G_handleSaslResult {st} (h : G c) : G (handleSaslResult c st) := by
  cauto handleSaslResult

theorem G_smQueueResend (h : G c) : G (smQueueResend c) := by
  cauto smQueueResend

theorem G_handleError {st} (h : G c) : G (handleError c st) := by
  cauto handleError

theorem G_smElement {st} (h : G c) : G (smHandleStanza.smElement c st) := by
  cauto smHandleStanza.smElement

theorem G_smHandleStanza {st} (h : G c) : G (smHandleStanza c st) := by
  cauto smHandleStanza

theorem G_componentOpen (h : G c) : G (componentOpen c) := by
  cauto componentOpen

theorem G_runOpenHandler (h : G c) : G (runOpenHandler c) := by
  cauto runOpenHandler

theorem G_handleStreamStart {n id} (h : G c) : G (handleStreamStart c n id) := by
  cauto handleStreamStart

theorem G_handleStreamEnd (h : G c) : G (handleStreamEnd c) := by
  cauto handleStreamEnd

theorem G_runTimed {f} (h : G c) : G (runTimed c f).1 := by
  cauto runTimed

theorem G_fireTimedOne {uid} (h : G c) : G (fireTimedOne c uid) := by
  cauto fireTimedOne

theorem G_fireTimed (h : G c) : G (fireTimed c) := by
  cauto fireTimed

theorem G_retire {e} (h : G c) : G (retire c e) := by
  cauto retire

theorem G_writeElems (l : List QElem) : ∀ {c}, G c → G (writeElems c l) := by
  induction l with
  | nil => intro c h; exact h
  | cons e q ih =>
    intro c h
    unfold writeElems
    ctrav
    all_goals first | (apply ih; ctrav) | skip
theorem G_writeLoop (h : G c) : G (writeLoop c) := G_writeElems _ h

theorem G_xmppSend {it} (h : G c) : G (xmppSend c it) := by
  cauto xmppSend

theorem G_xmppSendRawString {it} (h : G c) : G (xmppSendRawString c it) := by
  cauto xmppSendRawString

theorem G_xmppSendRaw {it} (h : G c) : G (xmppSendRaw c it) := by
  cauto xmppSendRaw

theorem G_release (h : G c) : G (release c) := by
  cauto release

theorem G_connReset (h : G c) : G (connReset c) := by
  cauto connReset

theorem G_setFlags {f} (h : G c) : G (setFlags c f).1 := by
  cauto setFlags

theorem G_connConnect {d t} (h : G c) : G (connConnect c d t).1 := by
  cauto connConnect

theorem G_connectClient (h : G c) : G (connectClient c).1 := by
  cauto connectClient

theorem G_connectComponent (h : G c) : G (connectComponent c).1 := by
  cauto connectComponent

theorem G_connectRaw (h : G c) : G (connectRaw c).1 := by
  cauto connectRaw

/-! ### St: functions that leave the connection state alone -/

def St (s : CState) (c : Conn) : Prop := c.state = s

variable {s : CState}

theorem St_triggerSmCallback (h : St s c) : St s (triggerSmCallback c) := h
theorem St_prepareReset {o} (h : St s c) : St s (prepareReset c o) := h
theorem St_addHandler {fn ud ns name type user} (h : St s c) : St s (addHandler c fn ud ns name type user) := by
  cauto addHandler
theorem St_addIdHandler {fn id user} (h : St s c) : St s (addIdHandler c fn id user) := by
  cauto addIdHandler
theorem St_notify {e} (h : St s c) : St s (notify c e) := by
  cauto notify

theorem St_resetTimed (h : St s c) : St s (resetTimed c) := by
  cauto resetTimed

theorem St_delTimed {fn} (h : St s c) : St s (delTimed c fn) := by
  cauto delTimed

theorem St_addTimed {fn period user} (h : St s c) : St s (addTimed c fn period user) := by
  cauto addTimed

theorem St_resetSmForReconnect (h : St s c) : St s (resetSmForReconnect c) := by
  cauto resetSmForReconnect

theorem St_pushRawWith {it o sn} (h : St s c) : St s (pushRawWith c it o sn) := by
  cauto pushRawWith

theorem St_pushRaw {it o} (h : St s c) : St s (pushRaw c it o) := by
  cauto pushRaw

theorem St_sendStanza {it o} (h : St s c) : St s (sendStanza c it o) := by
  cauto sendStanza

theorem St_sendRaw {it o} (h : St s c) : St s (sendRaw c it o) := by
  cauto sendRaw

theorem St_sendRawString {it} (h : St s c) : St s (sendRawString c it) := by
  cauto sendRawString

theorem St_xmppDisconnect (h : St s c) : St s (xmppDisconnect c) := by
  cauto xmppDisconnect

theorem St_connTlsStart (h : St s c) : St s (connTlsStart c).1 := by
  cauto connTlsStart

theorem St_connOpenStream (h : St s c) : St s (connOpenStream c) := by
  cauto connOpenStream

theorem St_noteOffers {st} (h : St s c) : St s (noteOffers c st) := by
  cauto noteOffers

theorem St_doBind (h : St s c) : St s (doBind c) := by
  cauto doBind

theorem St_smEnable (h : St s c) : St s (smEnable c) := by
  cauto smEnable

theorem St_sessionStart (h : St s c) : St s (sessionStart c) := by
  cauto sessionStart

theorem St_handleFeaturesSasl {st} (h : St s c) : St s (handleFeaturesSasl c st) := by
  cauto handleFeaturesSasl

theorem St_compressionOffer {st} (h : St s c) : St s (compressionOffer c st) := by
  cauto compressionOffer

theorem St_handleFeaturesCompress {st} (h : St s c) : St s (handleFeaturesCompress c st) := by
  cauto handleFeaturesCompress

theorem St_smQueueResend (h : St s c) : St s (smQueueResend c) := by
  cauto smQueueResend

theorem St_negotiationSuccess (h : St s c) : St s (negotiationSuccess c) := by
  cauto negotiationSuccess

theorem St_handleSm {st} (h : St s c) : St s (handleSm c st) := by
  cauto handleSm

theorem St_handleBind {st} (h : St s c) : St s (handleBind c st) := by
  cauto handleBind

theorem St_handleSession {st} (h : St s c) : St s (handleSession c st) := by
  cauto handleSession

theorem St_handleLegacy {st} (h : St s c) : St s (handleLegacy c st) := by
  cauto handleLegacy

theorem St_handleError {st} (h : St s c) : St s (handleError c st) := by
  cauto handleError

/-! ### GZ: the property and "no disconnect notification yet" -/

def GZ (c : Conn) : Prop := G c ∧ c.g.notifiedDisconnect = 0

theorem GZ_triggerSmCallback (h : GZ c) : GZ (triggerSmCallback c) := h

theorem GZ_resetTimed (h : GZ c) : GZ (resetTimed c) := by
  cauto resetTimed

theorem GZ_delTimed {fn} (h : GZ c) : GZ (delTimed c fn) := by
  cauto delTimed

theorem GZ_pushRawWith {it o sn} (h : GZ c) : GZ (pushRawWith c it o sn) := by
  cauto pushRawWith

theorem GZ_pushRaw {it o} (h : GZ c) : GZ (pushRaw c it o) := by
  cauto pushRaw

theorem GZ_sendRaw {it o} (h : GZ c) : GZ (sendRaw c it o) := by
  cauto sendRaw

theorem GZ_smQueueResend (h : GZ c) : GZ (smQueueResend c) := by
  cauto smQueueResend

/-! ### handlers that may complete the negotiation: started with no disconnect notification yet -/

theorem G_negotiationSuccess (h : GZ c) : G (negotiationSuccess c) := by
  have h1 : G (notify { c with negotiated := true } .connect) := by
    unfold notify
    intro p hp hc
    rcases List.mem_append.1 hp with hp | hp
    · exact h.1 p hp hc
    · simp only [List.mem_singleton] at hp
      subst hp
      exact h.2
  unfold negotiationSuccess
  dsimp only
  exact pred_ite (P := G) (fun _ => G_sendStanza h1) (fun _ => h1)

theorem G_notify' (h : GZ c) : G (notify c .rawConnect) := by
  unfold notify
  intro p hp hc
  rcases List.mem_append.1 hp with hp | hp
  · exact h.1 p hp hc
  · simp only [List.mem_singleton] at hp
    subst hp
    exact h.2

theorem G_handleSm {st} (h : GZ c) : G (handleSm c st) := by
  have hG := h.1
  cauto handleSm
theorem G_handleBind {st} (h : GZ c) : G (handleBind c st) := by
  have hG := h.1
  cauto handleBind
theorem G_handleSession {st} (h : GZ c) : G (handleSession c st) := by
  have hG := h.1
  cauto handleSession
theorem G_handleLegacy {st} (h : GZ c) : G (handleLegacy c st) := by
  have hG := h.1
  cauto handleLegacy
theorem G_runSys {k st} (h : GZ c) : G (runSys c k st).1 := by
  have hG := h.1
  cauto runSys
theorem G_runHandler {k st} (h : GZ c) : G (runHandler c k st).1 := by
  have hG := h.1
  cauto runHandler
theorem G_connEstablished (h : GZ c) : G (connEstablished c) := by
  have hG := h.1
  cauto connEstablished

/-! ### quiet and loud stanza names -/

/-- element names for which no handler disconnects directly -/
def quiet (st : XTree) : Prop := st.name?.getD [] ≠ b "features" ∧ st.name?.getD [] ≠ b "failure"

theorem St_handleSaslResult {st} (hq : st.name?.getD [] ≠ b "failure") (h : St s c) :
    St s (handleSaslResult c st) := by
  unfold handleSaslResult
  dsimp only
  rw [if_neg hq]
  ctrav

theorem St_runSys {k st} (hq : quiet st) (hk : k ≠ .features) (h : St s c) : St s (runSys c k st).1 := by
  cases k
  case features => exact absurd rfl hk
  all_goals
    unfold runSys
    dsimp only
    ctrav
  all_goals exact hq.2

theorem G_handleSm_loud {st} (hl : ¬ quiet st) (h : G c) : G (handleSm c st) := by
  have e : st.name?.getD [] = b "features" ∨ st.name?.getD [] = b "failure" := by
    unfold quiet at hl
    by_cases h1 : st.name?.getD [] = b "features"
    · exact .inl h1
    · by_cases h2 : st.name?.getD [] = b "failure"
      · exact .inr h2
      · exact absurd ⟨h1, h2⟩ hl
  unfold handleSm
  dsimp only
  rcases e with e | e <;> rw [e] <;>
    rw [if_neg (by decide), if_neg (by decide), if_neg (by decide)] <;> exact h

theorem name_of_loud {st : XTree} (hl : ¬ quiet st) : st.name? ≠ some (b "handshake") := by
  intro e
  apply hl
  unfold quiet
  rw [e]
  exact ⟨by decide, by decide⟩

theorem G_runSys_loud {k st nm} (hl : ¬ quiet st) (hk : okH (.sys k) nm = true) (h : G c) :
    G (runSys c k st).1 := by
  cases k
  case bind => cases hk
  case session => cases hk
  case legacy => cases hk
  case sm =>
    have := G_handleSm_loud (st := st) hl h
    unfold runSys
    dsimp only
    first
      | exact this
      | exact pred_ite_fst (P := G) (fun _ => h) (fun _ => this)
  case componentHs =>
    unfold runSys
    dsimp only
    rw [if_pos (name_of_loud hl)]
    ctrav
  all_goals
    unfold runSys
    dsimp only
    ctrav

/-! ### one dispatch -/

/-- during the id-handler phase, and during the handler phase of a quiet stanza -/
def Pq (a : Nat) (c : Conn) : Prop := J a c ∧ HL c ∧ G c ∧ c.state ≠ .disconnected
/-- during the handler phase of a loud stanza -/
def Pl (c : Conn) : Prop := HL c ∧ G c

variable {a : Nat}

theorem GZ_of_Pq (h : Pq a c) : GZ c := by
  refine ⟨h.2.2.1, ?_⟩
  have := h.1.hnd
  rw [if_neg h.2.2.2] at this
  exact this

theorem Pq_runHandler_id {hd : Handler} {st} (h : Pq a c) (hm : hd ∈ c.idHandlers) :
    Pq a (runHandler c hd st).1 := by
  refine ⟨J_runHandler h.1, HL_runHandler h.2.1, G_runHandler (GZ_of_Pq h), ?_⟩
  have hok := h.2.1.2 hd hm
  have hs : St c.state (runHandler c hd st).1 := by
    unfold runHandler
    cases hf : hd.fn with
    | userAll => dsimp only; exact St_notify rfl
    | sys k =>
      rw [hf] at hok
      dsimp only
      cases k <;> first | cases hok | skip
      all_goals
        unfold runSys
        dsimp only
        ctrav
      all_goals exact rfl
  rw [hs]; exact h.2.2.2

theorem name_of_matches {hd : Handler} {st : XTree} {n : Bytes} (hn : hd.name = some n)
    (hm : hMatches hd st = true) : st.name?.getD [] = n := by
  unfold hMatches at hm
  rw [hn] at hm
  simp only [Bool.and_eq_true, decide_eq_true_eq] at hm
  rw [hm.1.2]; rfl

theorem Pq_runHandler_quiet {hd : Handler} {st} (hq : quiet st) (h : Pq a c) (hmem : hd ∈ c.handlers)
    (hm : hMatches hd st = true) : Pq a (runHandler c hd st).1 := by
  refine ⟨J_runHandler h.1, HL_runHandler h.2.1, G_runHandler (GZ_of_Pq h), ?_⟩
  have hok := h.2.1.1 hd hmem
  have hs : St c.state (runHandler c hd st).1 := by
    unfold runHandler
    cases hf : hd.fn with
    | userAll => dsimp only; exact St_notify rfl
    | sys k =>
      dsimp only
      refine St_runSys hq ?_ rfl
      intro hk
      subst hk
      rw [hf] at hok
      simp only [okH, beq_iff_eq] at hok
      exact hq.1 (name_of_matches hok hm)
  rw [hs]; exact h.2.2.2

theorem Pl_runHandler_loud {hd : Handler} {st} (hl : ¬ quiet st) (h : Pl c) (hmem : hd ∈ c.handlers) :
    Pl (runHandler c hd st).1 := by
  refine ⟨HL_runHandler h.1, ?_⟩
  have hok := h.1.1 hd hmem
  unfold runHandler
  cases hf : hd.fn with
  | userAll => dsimp only; exact G_notify h.2 rfl
  | sys k =>
    rw [hf] at hok
    dsimp only
    exact G_runSys_loud hl hok h.2

theorem Pq_fireIdOne {st uid} (h : Pq a c) : Pq a (fireIdOne st c uid) := by
  unfold fireIdOne
  split
  · exact h
  · rename_i hd hf
    have hmem := List.mem_of_find?_eq_some hf
    split
    · exact h
    · have hr := Pq_runHandler_id (st := st) h hmem
      split
      rename_i c1 keep heq
      rw [heq] at hr
      split
      · exact hr
      · exact ⟨hr.1, HL_rec2 hr.2.1, hr.2.2.1, hr.2.2.2⟩

theorem Pq_fireOne {st uid} (hq : quiet st) (h : Pq a c) : Pq a (fireOne st c uid) := by
  unfold fireOne
  split
  · exact h
  · rename_i hd hf
    have hmem := List.mem_of_find?_eq_some hf
    split
    · exact h
    · split
      · rename_i hm
        have hr := Pq_runHandler_quiet hq h hmem hm
        split
        rename_i c1 keep heq
        rw [heq] at hr
        split
        · exact hr
        · exact ⟨hr.1, HL_rec1 hr.2.1, hr.2.2.1, hr.2.2.2⟩
      · exact h

theorem Pl_fireOne {st uid} (hl : ¬ quiet st) (h : Pl c) : Pl (fireOne st c uid) := by
  unfold fireOne
  split
  · exact h
  · rename_i hd hf
    have hmem := List.mem_of_find?_eq_some hf
    split
    · exact h
    · split
      · have hr := Pl_runHandler_loud (st := st) hl h hmem
        split
        rename_i c1 keep heq
        rw [heq] at hr
        split
        · exact hr
        · exact ⟨HL_rec1 hr.1, hr.2⟩
      · exact h

/-- the handler phase of `handler_fire_stanza` (all stanza handlers were enabled before the id
    phase; those added during the id phase are in the list but disabled, `fireOne` skips them) -/
theorem G_handlerPhase {st} (c1 : Conn) (h : Pq a c1) :
    G ((c1.handlers.map (·.uid)).foldl (fireOne st) c1) := by
  by_cases hq : quiet st
  · exact (pred_foldl (P := Pq a) (fun c x hc => Pq_fireOne hq hc) _ h).2.2.1
  · exact (pred_foldl (P := Pl) (fun c x hc => Pl_fireOne hq hc) _ ⟨h.2.1, h.2.2.1⟩).2

theorem G_fireStanza {st} (h : Pq a c) : G (fireStanza c st) := by
  unfold fireStanza
  dsimp only
  refine G_handlerPhase (a := a) _ ?_
  split
  · refine pred_foldl (P := Pq a) (fun c x hc => Pq_fireIdOne hc) _ ?_
    exact ⟨h.1, HL_rec6 h.2.1, h.2.2.1, h.2.2.2⟩
  · exact ⟨h.1, HL_rec3 h.2.1, h.2.2.1, h.2.2.2⟩

/-! ### the combined invariant -/

def K (a : Nat) (c : Conn) : Prop := J a c ∧ HL c ∧ G c

theorem G_handleStreamStanza' {st} (h : K a c) : G (handleStreamStanza c st) := by
  unfold handleStreamStanza
  refine pred_ite (P := G) (fun _ => h.2.2) (fun hs => ?_)
  dsimp only
  have := G_fireStanza (st := st) ⟨h.1, h.2.1, h.2.2, hs⟩
  exact pred_ite (P := G) (fun _ => G_smHandleStanza this) (fun _ => this)

theorem K_handleStreamStanza {st} (h : K a c) : K a (handleStreamStanza c st) :=
  ⟨J_handleStreamStanza h.1, HL_handleStreamStanza h.2.1, G_handleStreamStanza' h⟩
theorem K_handleStreamStart {n id} (h : K a c) : K a (handleStreamStart c n id) :=
  ⟨J_handleStreamStart h.1, HL_handleStreamStart h.2.1, G_handleStreamStart h.2.2⟩
theorem K_handleStreamEnd (h : K a c) : K a (handleStreamEnd c) :=
  ⟨J_handleStreamEnd h.1, HL_handleStreamEnd h.2.1, G_handleStreamEnd h.2.2⟩
theorem K_sendStanza {it o} (h : K a c) : K a (sendStanza c it o) :=
  ⟨J_sendStanza h.1, HL_sendStanza h.2.1, G_sendStanza h.2.2⟩
theorem K_parserEvent {e} (h : K a c) : K a (parserEvent c e) := by
  cauto parserEvent
theorem K_writeLoop (h : K a c) : K a (writeLoop c) :=
  ⟨J_writeLoop h.1, HL_writeLoop h.2.1, G_writeLoop h.2.2⟩
theorem K_connDisconnect (h : K a c) : K a (connDisconnect c) :=
  ⟨J_connDisconnect h.1, HL_connDisconnect h.2.1, G_connDisconnect h.2.2⟩
theorem K_fireTimed (h : K a c) : K a (fireTimed c) :=
  ⟨J_fireTimed h.1, HL_fireTimed h.2.1, G_fireTimed h.2.2⟩
theorem K_connEstablished' (h : K a c) (hs : c.state = .connecting) :
    K a (connEstablished { c with state := .connected }) := by
  have hj := J_rec5 h.1 hs
  refine ⟨J_connEstablished hj, HL_connEstablished h.2.1, G_connEstablished ⟨h.2.2, ?_⟩⟩
  have := h.1.hnd
  rw [if_neg (by simp [hs])] at this
  exact this

theorem K_runOnce {rx} (h : K a c) : K a (runOnce c rx) := by
  unfold runOnce
  ctrav

/-! ### reachable states -/

theorem HL_step (op : Op) (h : HL c) : HL (step c op) := by
  cases op with
  | connect k =>
    cases k
    · exact HL_connectClient h
    · exact HL_connectComponent h
    · exact HL_connectRaw h
  | run rx => exact HL_runOnce h
  | setTcp f e => exact h
  | setTls sf nf => exact h
  | setSched l d => exact h
  | tick ms => exact h
  | setSmCallback => exact h
  | setSendOnConnect on => exact h
  | setFlags f => exact HL_setFlags h
  | usend it => exact HL_xmppSend h
  | uraw it => exact HL_xmppSendRaw h
  | urawstr it => exact HL_xmppSendRawString h
  | udisc => exact HL_xmppDisconnect h
  | release => exact HL_release h
  | addUserHandlers => exact HL_addTimed (HL_addIdHandler (HL_addHandler h rfl) rfl)

theorem G_step (op : Op) (hI : Inv c) (hH : HL c) (h : G c) : G (step c op) := by
  cases op with
  | connect k =>
    cases k
    · exact G_connectClient h
    · exact G_connectComponent h
    · exact G_connectRaw h
  | run rx =>
    rcases hI with hI | ⟨a, hI⟩
    · show G (runOnce c rx)
      rw [runOnce_disc c rx hI.hst]; exact h
    · exact (K_runOnce ⟨hI, hH, h⟩).2.2
  | setTcp f e => exact h
  | setTls sf nf => exact h
  | setSched l d => exact h
  | tick ms => exact h
  | setSmCallback => exact h
  | setSendOnConnect on => exact h
  | setFlags f => exact G_setFlags h
  | usend it => exact G_xmppSend h
  | uraw it => exact G_xmppSendRaw h
  | urawstr it => exact G_xmppSendRawString h
  | udisc => exact G_xmppDisconnect h
  | release => exact G_release h
  | addUserHandlers => exact G_addTimed (G_addIdHandler (G_addHandler h))

theorem good_exec (ops : List Op) : ∀ {c}, Inv c → HL c → G c → G (exec c ops) := by
  induction ops with
  | nil => intro c _ _ h; exact h
  | cons op ops ih => intro c hI hH h; exact ih (Inv_step op hI) (HL_step op hH) (G_step op hI hH h)

theorem good_reach (jid pass : Option Bytes) (cert : Bool) (flags : Nat) (ops : List Op) :
    G (exec (fresh jid pass cert flags) ops) := by
  apply good_exec ops (Inv_fresh jid pass cert flags)
  · unfold fresh
    apply HL_setFlags
    exact ⟨fun x hx => (by cases hx), fun x hx => (by cases hx)⟩
  · unfold fresh
    apply G_setFlags
    intro p hp; cases hp

end Strophe.Lemmas.ConnC13
