/-
Two small concrete codecs that satisfy H-zlib (`HDeflate`, `HInflate`).  They serve as
(1) non-vacuity witnesses for the hypotheses of the C20 theorems and (2) the engines of the
regression examples in Props/C20.lean — the inputs that refuted the full-strength statements
before the fixes D22–D24, D30–D33 (evaluated by the kernel with `decide`).  They are deliberately simple; nothing about zlib is claimed here.

* `toyA`: deflate copies input to output as far as there is room (no internal buffering);
  inflate strips a one-byte stream header and copies the rest.
* `toyB`: deflate swallows all input and emits only when flushed (like zlib at small sizes);
  inflate doubles every byte and takes all input at once (an expanding stream).
* `toyC`: deflate as `toyA`; inflate doubles every byte but takes only as much input as the
  output room needs (the usual behaviour of zlib on a large, highly compressible block).
-/
import Strophe.Spec.Zlib

namespace Strophe.Lemmas.CompressionToy
open Strophe Strophe.Compression Strophe.Spec.Zlib

/-- ghost history carried by the toy states -/
structure Hist where
  pend : Bytes := []
  hdr : Bool := false
  cons : Bytes := []
  prod : Bytes := []

theorem ite_cases' {α : Type} (c : Prop) [Decidable c] (a b : α) :
    (if c then b else a) = a ∨ (if c then b else a) = b := by
  split
  · exact Or.inr rfl
  · exact Or.inl rfl

theorem ite_eq_right {α : Type} (c : Prop) [Decidable c] (a b : α) (hab : a ≠ b)
    (h : (if c then b else a) = b) : c := by
  by_cases hc : c
  · exact hc
  · rw [if_neg hc] at h; exact absurd h hab

theorem zOk_ne_bufError : Gen.Zl.zOk ≠ Gen.Zl.zBufError := by decide

/-! ### toyA -/

def copyDeflate (d : Hist) (inp : Bytes) (_fl : Int) (room : Nat) : Hist × Nat × Bytes × Int :=
  let n := min inp.length room
  ({ d with cons := d.cons ++ inp.take n, prod := d.prod ++ inp.take n }, n, inp.take n,
   if n = 0 then Gen.Zl.zBufError else Gen.Zl.zOk)

def hdrInflate (i : Hist) (inp : Bytes) (room : Nat) : Hist × Nat × Bytes × Int :=
  let skip := if i.hdr then 0 else min 1 inp.length
  let body := inp.drop skip
  let n := min body.length room
  ({ i with hdr := i.hdr || decide (skip > 0), cons := i.cons ++ inp.take (skip + n),
            prod := i.prod ++ body.take n },
   skip + n, body.take n, if skip + n = 0 then Gen.Zl.zBufError else Gen.Zl.zOk)

def toyA : Codec :=
  { D := Hist, I := Hist, dinit := {}, iinit := {}, deflate := copyDeflate, inflate := hdrInflate }

def toyA_deflate : HDeflate toyA where
  decode := id
  ok d := d.prod = d.cons
  cons d := d.cons
  prod d := d.prod
  init_ok := rfl
  init_cons := rfl
  init_prod := rfl
  step_ok := by
    intro d inp fl room h
    show d.prod ++ _ = d.cons ++ _
    rw [h]
  consumed_le := by intro d inp fl room _; exact Nat.min_le_left _ _
  produced_le := by
    intro d inp fl room _
    show (inp.take (min inp.length room)).length ≤ room
    simp only [List.length_take]; omega
  step_cons := by intro d inp fl room _; rfl
  step_prod := by intro d inp fl room _; rfl
  no_error := fun _ _ _ _ _ => ite_cases' _ _ _
  progress := by
    intro d inp fl room _ hne hroom
    show (if min inp.length room = 0 then Gen.Zl.zBufError else Gen.Zl.zOk) ≠ Gen.Zl.zBufError
    have hpos : 0 < inp.length := List.length_pos_iff.mpr hne
    have : ¬ (min inp.length room = 0) := by omega
    rw [if_neg this]; decide
  decode_prefix := by intro d p h hp; rw [← h]; exact hp
  flush_complete := by
    intro d inp fl room h _ _ _
    show d.prod ++ _ = d.cons ++ _
    rw [h]
  buf_error := by
    intro d inp fl room _ hrc
    have hrc' : (if min inp.length room = 0 then Gen.Zl.zBufError else Gen.Zl.zOk) = Gen.Zl.zBufError := hrc
    have hn : min inp.length room = 0 := by
      by_cases h : min inp.length room = 0
      · exact h
      · rw [if_neg h] at hrc'; exact absurd hrc' (by decide)
    refine ⟨hn, ?_⟩
    show inp.take (min inp.length room) = []
    rw [hn]; rfl
  flush_buf_error := by intro d fl room h _ _ _; exact h

def HdrOk (i : Hist) : Prop :=
  i.prod = i.cons.drop 1 ∧ (i.hdr = false → i.cons = []) ∧ (i.hdr = true → i.cons ≠ [])

theorem hdrInflate_ok (i : Hist) (inp : Bytes) (room : Nat) (h : HdrOk i) :
    HdrOk (hdrInflate i inp room).1 := by
  obtain ⟨h1, h2, h3⟩ := h
  unfold HdrOk hdrInflate
  cases hh : i.hdr with
  | true =>
    have hne := h3 hh
    cases hc : i.cons with
    | nil => exact absurd hc hne
    | cons a t => simp [h1, hc]
  | false =>
    have hnil := h2 hh
    cases inp with
    | nil => simp [h1, hnil]
    | cons a t =>
      have h1' : min 1 (t.length + 1) = 1 := by omega
      simp [h1, hnil, h1', Nat.add_comm 1]

theorem hdrInflate_consumed (i : Hist) (inp : Bytes) (room : Nat) :
    (hdrInflate i inp room).2.1 ≤ inp.length := by
  show (if i.hdr then 0 else min 1 inp.length) +
    min (inp.drop (if i.hdr then 0 else min 1 inp.length)).length room ≤ inp.length
  simp only [List.length_drop]
  split <;> omega

theorem hdrInflate_complete (i : Hist) (inp : Bytes) (room : Nat)
    (hlt : (hdrInflate i inp room).2.2.1.length < room) :
    (hdrInflate i inp room).2.1 = inp.length := by
  unfold hdrInflate at hlt ⊢
  cases hh : i.hdr with
  | true =>
    simp only [hh, ↓reduceIte, List.drop_zero, List.length_take, Nat.zero_add] at hlt ⊢
    omega
  | false =>
    simp only [hh, Bool.false_eq_true, ↓reduceIte, List.length_take, List.length_drop] at hlt ⊢
    omega

def toyA_inflate : HInflate toyA where
  plain p := p.drop 1
  ok := HdrOk
  cons i := i.cons
  prod i := i.prod
  plain_nil := rfl
  init_ok := ⟨rfl, fun _ => rfl, fun h => by cases h⟩
  init_cons := rfl
  init_prod := rfl
  step_ok := fun i inp room h => hdrInflate_ok i inp room h
  consumed_le := fun i inp room _ => hdrInflate_consumed i inp room
  step_cons := by intro i inp room _; rfl
  step_prod := by intro i inp room _; rfl
  complete := fun i inp room h _ hlt =>
    ⟨hdrInflate_complete i inp room hlt, (hdrInflate_ok i inp room h).1⟩
  buf_error := by
    intro i inp room _ hrc
    have hc := ite_eq_right _ _ _ zOk_ne_bufError hrc
    have hc' : (if i.hdr then 0 else min 1 inp.length) +
        min (inp.drop (if i.hdr then 0 else min 1 inp.length)).length room = 0 := hc
    refine ⟨hc, ?_⟩
    show (inp.drop _).take (min (inp.drop (if i.hdr then 0 else min 1 inp.length)).length room) = []
    have : min (inp.drop (if i.hdr then 0 else min 1 inp.length)).length room = 0 := by omega
    rw [this]; rfl
  buf_error_complete := fun i _ h _ _ => h.1

/-! ### toyB -/

def bufDeflate (d : Hist) (inp : Bytes) (fl : Int) (room : Nat) : Hist × Nat × Bytes × Int :=
  let out := if fl = 0 then [] else (d.pend ++ inp).take room
  ({ d with pend := if fl = 0 then d.pend ++ inp else (d.pend ++ inp).drop room,
            cons := d.cons ++ inp, prod := d.prod ++ out },
   inp.length, out, if inp = [] ∧ out = [] then Gen.Zl.zBufError else Gen.Zl.zOk)

def dbl (p : Bytes) : Bytes := p.flatMap fun b => [b, b]

def dblInflate (i : Hist) (inp : Bytes) (room : Nat) : Hist × Nat × Bytes × Int :=
  let all := i.pend ++ dbl inp
  ({ i with pend := all.drop room, cons := i.cons ++ inp, prod := i.prod ++ all.take room },
   inp.length, all.take room, if inp = [] ∧ all.take room = [] then Gen.Zl.zBufError else Gen.Zl.zOk)

def toyB : Codec :=
  { D := Hist, I := Hist, dinit := {}, iinit := {}, deflate := bufDeflate, inflate := dblInflate }

theorem bufDeflate_ok (d : Hist) (inp : Bytes) (fl : Int) (room : Nat)
    (h : d.prod ++ d.pend = d.cons) :
    (bufDeflate d inp fl room).1.prod ++ (bufDeflate d inp fl room).1.pend =
      (bufDeflate d inp fl room).1.cons := by
  unfold bufDeflate
  by_cases hfl : fl = 0
  · simp [hfl, ← h, List.append_assoc]
  · simp only [hfl, ↓reduceIte, ← h, List.append_assoc, List.take_append_drop]

theorem take_short_drop_nil (l : Bytes) (room : Nat) (h : (l.take room).length < room) :
    l.drop room = [] := by
  simp only [List.length_take] at h
  exact List.drop_eq_nil_of_le (by omega)

def toyB_deflate : HDeflate toyB where
  decode := id
  ok d := d.prod ++ d.pend = d.cons
  cons d := d.cons
  prod d := d.prod
  init_ok := rfl
  init_cons := rfl
  init_prod := rfl
  step_ok := fun d inp fl room h => bufDeflate_ok d inp fl room h
  consumed_le := by intro d inp fl room _; exact Nat.le_refl _
  produced_le := by
    intro d inp fl room _
    show (if fl = 0 then [] else (d.pend ++ inp).take room).length ≤ room
    split
    · simp
    · simp only [List.length_take]; omega
  step_cons := by
    intro d inp fl room _
    show d.cons ++ inp = d.cons ++ inp.take inp.length
    rw [List.take_length]
  step_prod := by intro d inp fl room _; rfl
  no_error := fun _ _ _ _ _ => ite_cases' _ _ _
  progress := by
    intro d inp fl room _ hne _
    show (if inp = [] ∧ (if fl = 0 then [] else (d.pend ++ inp).take room) = [] then Gen.Zl.zBufError
      else Gen.Zl.zOk) ≠ Gen.Zl.zBufError
    have : ¬ (inp = [] ∧ (if fl = 0 then [] else (d.pend ++ inp).take room) = []) := fun h => hne h.1
    rw [if_neg this]; decide
  decode_prefix := by
    intro d p h hp
    exact hp.trans ⟨d.pend, h⟩
  flush_complete := by
    intro d inp fl room h hfl _ hlt
    have hok := bufDeflate_ok d inp fl room h
    have hlt' : (if fl = 0 then [] else (d.pend ++ inp).take room).length < room := hlt
    rw [if_neg hfl] at hlt'
    have hp : (bufDeflate d inp fl room).1.pend = [] := by
      show (if fl = 0 then d.pend ++ inp else (d.pend ++ inp).drop room) = []
      rw [if_neg hfl]
      exact take_short_drop_nil _ _ hlt'
    rw [hp, List.append_nil] at hok
    exact hok
  buf_error := by
    intro d inp fl room _ hrc
    have hrc' : (if inp = [] ∧ (if fl = 0 then [] else (d.pend ++ inp).take room) = [] then
        Gen.Zl.zBufError else Gen.Zl.zOk) = Gen.Zl.zBufError := hrc
    by_cases hc : inp = [] ∧ (if fl = 0 then [] else (d.pend ++ inp).take room) = []
    · exact ⟨by show inp.length = 0; rw [hc.1]; rfl, hc.2⟩
    · rw [if_neg hc] at hrc'; exact absurd hrc' (by decide)
  flush_buf_error := by
    intro d fl room h hfl hroom hrc
    have hrc' : (if ([] : Bytes) = [] ∧ (if fl = 0 then [] else (d.pend ++ []).take room) = [] then
        Gen.Zl.zBufError else Gen.Zl.zOk) = Gen.Zl.zBufError := hrc
    by_cases hc : ([] : Bytes) = [] ∧ (if fl = 0 then [] else (d.pend ++ []).take room) = []
    · have h2 := hc.2
      rw [if_neg hfl, List.append_nil] at h2
      have hp : d.pend = [] := by
        cases hpd : d.pend with
        | nil => rfl
        | cons a t =>
          rw [hpd] at h2
          cases room with
          | zero => omega
          | succ r => simp at h2
      show d.prod = d.cons
      rw [← h, hp, List.append_nil]
    · rw [if_neg hc] at hrc'; exact absurd hrc' (by decide)

theorem dbl_append (a b : Bytes) : dbl (a ++ b) = dbl a ++ dbl b := by
  simp [dbl, List.flatMap_append]

theorem dblInflate_ok (i : Hist) (inp : Bytes) (room : Nat) (h : i.prod ++ i.pend = dbl i.cons) :
    (dblInflate i inp room).1.prod ++ (dblInflate i inp room).1.pend =
      dbl (dblInflate i inp room).1.cons := by
  unfold dblInflate
  simp only [List.append_assoc, List.take_append_drop, dbl_append, ← h]

def toyB_inflate : HInflate toyB where
  plain := dbl
  ok i := i.prod ++ i.pend = dbl i.cons
  cons i := i.cons
  prod i := i.prod
  plain_nil := rfl
  init_ok := rfl
  init_cons := rfl
  init_prod := rfl
  step_ok := fun i inp room h => dblInflate_ok i inp room h
  consumed_le := by intro i inp room _; exact Nat.le_refl _
  step_cons := by
    intro i inp room _
    show i.cons ++ inp = i.cons ++ inp.take inp.length
    rw [List.take_length]
  step_prod := by intro i inp room _; rfl
  complete := by
    intro i inp room h _ hlt
    refine ⟨rfl, ?_⟩
    have hok := dblInflate_ok i inp room h
    have hp : (dblInflate i inp room).1.pend = [] := take_short_drop_nil _ _ hlt
    rw [hp, List.append_nil] at hok
    exact hok
  buf_error := by
    intro i inp room _ hrc
    have hc : inp = [] ∧ (i.pend ++ dbl inp).take room = [] := ite_eq_right _ _ _ zOk_ne_bufError hrc
    exact ⟨by show inp.length = 0; rw [hc.1]; rfl, hc.2⟩
  buf_error_complete := by
    intro i room h hroom hrc
    have hc : ([] : Bytes) = [] ∧ (i.pend ++ dbl []).take room = [] := ite_eq_right _ _ _ zOk_ne_bufError hrc
    have hp : i.pend = [] := by
      have h2 := hc.2
      simp only [dbl, List.flatMap_nil, List.append_nil] at h2
      cases hpd : i.pend with
      | nil => rfl
      | cons a t =>
        rw [hpd] at h2
        cases room with
        | zero => omega
        | succ r => simp at h2
    show i.prod = dbl i.cons
    rw [← h, hp, List.append_nil]

/-! the toy inflaters never report an error (healthy streams only) -/

theorem ite_cases {α : Type} (c : Prop) [Decidable c] (a b : α) :
    (if c then b else a) = a ∨ (if c then b else a) = b := by
  split
  · exact Or.inr rfl
  · exact Or.inl rfl

theorem toyA_inflate_never_errors : ∀ i inp room, (toyA.inflate i inp room).2.2.2 = Gen.Zl.zOk ∨
    (toyA.inflate i inp room).2.2.2 = Gen.Zl.zBufError :=
  fun _ _ _ => ite_cases _ _ _

theorem toyB_inflate_never_errors : ∀ i inp room, (toyB.inflate i inp room).2.2.2 = Gen.Zl.zOk ∨
    (toyB.inflate i inp room).2.2.2 = Gen.Zl.zBufError :=
  fun _ _ _ => ite_cases _ _ _

/-! ### toyC -/

/-- doubling inflater that stops consuming when the output room is used up -/
def lazyDblInflate (i : Hist) (inp : Bytes) (room : Nat) : Hist × Nat × Bytes × Int :=
  let n := min inp.length ((room - i.pend.length + 1) / 2)
  let all := i.pend ++ dbl (inp.take n)
  ({ i with pend := all.drop room, cons := i.cons ++ inp.take n, prod := i.prod ++ all.take room },
   n, all.take room, if n = 0 ∧ all.take room = [] then Gen.Zl.zBufError else Gen.Zl.zOk)

def toyC : Codec :=
  { D := Hist, I := Hist, dinit := {}, iinit := {}, deflate := copyDeflate, inflate := lazyDblInflate }

theorem dbl_length (p : Bytes) : (dbl p).length = 2 * p.length := by
  induction p with
  | nil => rfl
  | cons a t ih => simp only [dbl, List.flatMap_cons, List.length_append, List.length_cons,
      List.length_nil] at ih ⊢; omega

theorem lazyDblInflate_ok (i : Hist) (inp : Bytes) (room : Nat) (h : i.prod ++ i.pend = dbl i.cons) :
    (lazyDblInflate i inp room).1.prod ++ (lazyDblInflate i inp room).1.pend =
      dbl (lazyDblInflate i inp room).1.cons := by
  unfold lazyDblInflate
  simp only [List.append_assoc, List.take_append_drop, dbl_append, ← h]

def toyC_inflate : HInflate toyC where
  plain := dbl
  ok i := i.prod ++ i.pend = dbl i.cons
  cons i := i.cons
  prod i := i.prod
  plain_nil := rfl
  init_ok := rfl
  init_cons := rfl
  init_prod := rfl
  step_ok := fun i inp room h => lazyDblInflate_ok i inp room h
  consumed_le := by intro i inp room _; exact Nat.min_le_left _ _
  step_cons := by intro i inp room _; rfl
  step_prod := by intro i inp room _; rfl
  complete := by
    intro i inp room h _ hlt
    have hlt' : ((i.pend ++ dbl (inp.take (min inp.length ((room - i.pend.length + 1) / 2)))).take room).length
        < room := hlt
    have hok := lazyDblInflate_ok i inp room h
    have hp : (lazyDblInflate i inp room).1.pend = [] := take_short_drop_nil _ _ hlt'
    rw [hp, List.append_nil] at hok
    refine ⟨?_, hok⟩
    show min inp.length ((room - i.pend.length + 1) / 2) = inp.length
    simp only [List.length_take, List.length_append, dbl_length] at hlt'
    omega
  buf_error := by
    intro i inp room _ hrc
    exact ite_eq_right _ _ _ zOk_ne_bufError hrc
  buf_error_complete := by
    intro i room h hroom hrc
    have hc : min ([] : Bytes).length ((room - i.pend.length + 1) / 2) = 0 ∧
        (i.pend ++ dbl (([] : Bytes).take (min ([] : Bytes).length ((room - i.pend.length + 1) / 2)))).take room = [] :=
      ite_eq_right _ _ _ zOk_ne_bufError hrc
    have hp : i.pend = [] := by
      have h2 := hc.2
      simp only [List.length_nil, Nat.zero_min, List.take_nil, dbl, List.flatMap_nil, List.append_nil] at h2
      cases hpd : i.pend with
      | nil => rfl
      | cons a t =>
        rw [hpd] at h2
        cases room with
        | zero => omega
        | succ r => simp at h2
    show i.prod = dbl i.cons
    rw [← h, hp, List.append_nil]

theorem toyC_inflate_never_errors : ∀ i inp room, (toyC.inflate i inp room).2.2.2 = Gen.Zl.zOk ∨
    (toyC.inflate i inp room).2.2.2 = Gen.Zl.zBufError :=
  fun _ _ _ => ite_cases _ _ _

end Strophe.Lemmas.CompressionToy
