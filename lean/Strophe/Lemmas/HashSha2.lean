/-
C17 helper lemmas, part 4: src/sha256.c / src/sha512.c (the LibTomCrypt template `Ltc`).
`process` refines the generic block fold and keeps `length` exact; `done` pads in place.
-/
import Strophe.Lemmas.HashBytes

namespace Strophe.Hash.Ltc
open Strophe Strophe.Hash Spec.Hash

variable {σ : Type}

/-- the context represents "state `st`, pending bytes `pend`, `n` bytes absorbed so far":
    `length` counts the bits of the compressed blocks only -/
structure Inv (bs : Nat) (md : Ctx σ) (st : σ) (pend : Bytes) (n : Nat) : Prop where
  state : md.state = st
  buf : HasPrefix bs md.buf pend
  cur : md.curlen = pend.length
  lt : pend.length < bs
  le : pend.length ≤ n
  len : md.length = UInt64.ofNat (8 * (n - pend.length))

theorem processLoop_inv {bs : Nat} (hbs : 0 < bs) (f : σ → Bytes → σ) (fuel : Nat)
    {md : Ctx σ} {st : σ} {pend : Bytes} {n : Nat} (h : Inv bs md st pend n)
    (inp : Bytes) (inlen : Nat) (hl : inlen = inp.length) (hf : inp.length ≤ fuel) :
    Inv bs (processLoop bs f fuel md inp inlen) (blocksFold bs f st (pend ++ inp)).1
      (blocksFold bs f st (pend ++ inp)).2 (n + inp.length) := by
  have base : ∀ {md : Ctx σ} {st : σ} {pend : Bytes} {n : Nat}, Inv bs md st pend n →
      Inv bs md (blocksFold bs f st (pend ++ [])).1 (blocksFold bs f st (pend ++ [])).2 (n + 0) := by
    intro md st pend n h
    rw [List.append_nil, blocksFold_lt f st h.lt]; exact h
  induction fuel generalizing md st pend n inp inlen with
  | zero =>
    have : inp = [] := List.eq_nil_of_length_eq_zero (by omega)
    subst this
    exact base h
  | succ fuel ih =>
    unfold processLoop
    by_cases h0 : inlen > 0
    · rw [if_pos h0]
      by_cases hA : md.curlen = 0 ∧ inlen ≥ bs
      · -- a whole block straight from the input
        rw [if_pos hA]
        have hp : pend = [] := List.eq_nil_of_length_eq_zero (by rw [← h.cur]; exact hA.1)
        subst hp
        have hge : bs ≤ inp.length := by omega
        have hinv : Inv bs { md with state := f md.state (inp.take bs),
                                     length := md.length + UInt64.ofNat (bs * 8) }
            (f st (inp.take bs)) [] (n + bs) := by
          refine ⟨by simp [h.state], HasPrefix.nil h.buf.1, by simpa using hA.1, hbs, by simp, ?_⟩
          simp only [h.len, List.length_nil, Nat.sub_zero, ← UInt64.ofNat_add]
          congr 1; omega
        have := ih hinv (inp.drop bs) (inlen - bs) (by simp [List.length_drop]; omega)
          (by simp [List.length_drop]; omega)
        rw [List.nil_append, blocksFold_ge hbs f st hge]
        rw [List.nil_append, List.length_drop] at this
        have e : n + bs + (inp.length - bs) = n + inp.length := by omega
        rw [e] at this
        exact this
      · rw [if_neg hA]
        simp only
        have hcur := h.cur
        have hlt := h.lt
        by_cases hfull : md.curlen + min inlen (bs - md.curlen) = bs
        · -- the buffer fills up: compress it
          rw [if_pos hfull]
          have hn' : min inlen (bs - md.curlen) = bs - pend.length := by omega
          have hbuf : memcpy md.buf md.curlen (inp.take (min inlen (bs - md.curlen)))
              = pend ++ inp.take (bs - pend.length) := by
            rw [hn', hcur]
            apply HasPrefix.full (h.buf.memcpy _ (by simp [List.length_take]; omega))
            simp [List.length_take]; omega
          rw [hbuf, hn']
          have hinv : Inv bs { length := md.length + UInt64.ofNat (8 * bs),
                               state := f md.state (pend ++ inp.take (bs - pend.length)),
                               curlen := 0, buf := pend ++ inp.take (bs - pend.length) }
              (f st (pend ++ inp.take (bs - pend.length))) [] (n + (bs - pend.length)) := by
            refine ⟨by simp [h.state], HasPrefix.nil (by simp [List.length_take]; omega), rfl, hbs,
              by simp, ?_⟩
            simp only [h.len, List.length_nil, Nat.sub_zero, ← UInt64.ofNat_add]
            have := h.le
            congr 1; omega
          have := ih hinv (inp.drop (bs - pend.length)) (inlen - (bs - pend.length))
            (by simp [List.length_drop]; omega) (by simp [List.length_drop]; omega)
          rw [blocksFold_pend hbs f st pend inp (by omega) (by omega)]
          rw [List.nil_append, List.length_drop] at this
          have e : n + (bs - pend.length) + (inp.length - (bs - pend.length)) = n + inp.length := by
            omega
          rw [e] at this
          exact this
        · -- everything fits into the buffer
          rw [if_neg hfull]
          have hn' : min inlen (bs - md.curlen) = inp.length := by omega
          rw [hn']
          have ht : inp.take inp.length = inp := List.take_length
          have hd : inp.drop inp.length = [] := List.drop_length
          rw [ht, hd]
          have hinv : Inv bs { md with buf := memcpy md.buf md.curlen inp,
                                       curlen := md.curlen + inp.length }
              st (pend ++ inp) (n + inp.length) := by
            refine ⟨h.state, ?_, by simp [hcur], by simp; omega, by have := h.le; simp; omega, ?_⟩
            · rw [hcur]; exact h.buf.memcpy inp (by omega)
            · simp only [h.len, List.length_append]
              have := h.le
              congr 2; omega
          have := ih hinv [] (inlen - inp.length) (by simp; omega) (by simp)
          rw [List.append_nil] at this
          exact this
    · rw [if_neg h0]
      have : inp = [] := List.eq_nil_of_length_eq_zero (by omega)
      subst this
      exact base h

/-- `*_process`: neither early-return guard fires while the bit count fits 64 bits -/
theorem process_inv {bs : Nat} (hbs : 0 < bs) (f : σ → Bytes → σ)
    {md : Ctx σ} {st : σ} {pend : Bytes} {n : Nat} (h : Inv bs md st pend n)
    (inp : Bytes) (hno : 8 * (n + inp.length) < 2 ^ 64) :
    Inv bs (process bs f md inp) (blocksFold bs f st (pend ++ inp)).1
      (blocksFold bs f st (pend ++ inp)).2 (n + inp.length) := by
  unfold process
  have g1 : ¬ md.curlen > bs := by rw [h.cur]; have := h.lt; omega
  have g2 : ¬ md.length + UInt64.ofNat inp.length < md.length := by
    rw [UInt64.lt_iff_toNat_lt, UInt64.toNat_add, h.len, UInt64.toNat_ofNat', UInt64.toNat_ofNat']
    have := h.le
    omega
  simp only [g1, g2, if_false]
  exact processLoop_inv hbs f _ h inp _ rfl (by omega)

theorem foldl_process_inv {bs : Nat} (hbs : 0 < bs) (f : σ → Bytes → σ) (iv : σ)
    (chunks : List Bytes) {md : Ctx σ} {msg : Bytes}
    (h : Inv bs md (blocksFold bs f iv msg).1 (blocksFold bs f iv msg).2 msg.length)
    (hno : 8 * (msg ++ chunks.flatten).length < 2 ^ 64) :
    Inv bs (chunks.foldl (process bs f) md) (blocksFold bs f iv (msg ++ chunks.flatten)).1
      (blocksFold bs f iv (msg ++ chunks.flatten)).2 (msg ++ chunks.flatten).length := by
  induction chunks generalizing md msg with
  | nil => simpa using h
  | cons x xs ih =>
    simp only [List.foldl_cons, List.flatten_cons, ← List.append_assoc] at hno ⊢
    apply ih _ hno
    have := process_inv hbs f h x (by
      simp only [List.length_append] at hno ⊢; omega)
    rw [blocksFold_append hbs] at this
    simpa using this

theorem zeros_add (a b : Nat) : zeros (a + b) = zeros a ++ zeros b := by
  simp [zeros, List.replicate_append_replicate]

theorem store64H_length (x : UInt64) : (store64H x).length = 8 := rfl

/-- `*_done`: the padding written into the buffer, as one byte string absorbed by the block
    fold.  `zc` zero bytes follow the 0x80 byte. -/
theorem done_eq {bs thr lenPos : Nat} (hL : lenPos + 8 = bs) (hT : thr ≤ lenPos)
    (f : σ → Bytes → σ) (enc : σ → Bytes)
    {md : Ctx σ} {st : σ} {pend : Bytes} {n : Nat} (h : Inv bs md st pend n) :
    done bs thr lenPos f enc md = some (enc (blocksFold bs f st
      (pend ++ (0x80 :: zeros (if pend.length + 1 > thr then (bs - (pend.length + 1)) + lenPos
                                else lenPos - (pend.length + 1))
                ++ store64H (UInt64.ofNat (8 * n))))).1) := by
  have hbs : 0 < bs := by omega
  have hlt := h.lt
  have hlen : md.length + UInt64.ofNat (md.curlen * 8) = UInt64.ofNat (8 * n) := by
    rw [h.len, h.cur, ← UInt64.ofNat_add]
    have := h.le
    congr 1; omega
  unfold done
  have g : ¬ md.curlen ≥ bs := by rw [h.cur]; omega
  rw [if_neg g, hlen, h.cur, h.state]
  have hb1 : HasPrefix bs (memcpy md.buf pend.length [0x80]) (pend ++ [0x80]) :=
    h.buf.memcpy _ (by simp; omega)
  by_cases hc : pend.length + 1 > thr
  · simp only [hc, if_true]
    have hb2 : memcpy (memcpy md.buf pend.length [0x80]) (pend.length + 1)
        (zeros (bs - (pend.length + 1))) = pend ++ [0x80] ++ zeros (bs - (pend.length + 1)) := by
      apply HasPrefix.full (hb1.memcpy' _ _ (by simp) (by simp [zeros_length]; omega))
      simp [zeros_length]; omega
    rw [hb2]
    have hb3 : HasPrefix bs (memcpy (pend ++ [0x80] ++ zeros (bs - (pend.length + 1))) 0
        (zeros (lenPos - 0))) (zeros lenPos) := by
      apply HasPrefix.memcpy0
      · simp [zeros_length]; omega
      · simp [zeros_length]; omega
    have hb4 : memcpy (memcpy (pend ++ [0x80] ++ zeros (bs - (pend.length + 1))) 0
        (zeros (lenPos - 0))) lenPos (store64H (UInt64.ofNat (8 * n)))
        = zeros lenPos ++ store64H (UInt64.ofNat (8 * n)) := by
      apply HasPrefix.full (hb3.memcpy' _ _ (by simp [zeros_length]) (by
        simp [zeros_length, store64H_length]; omega))
      simp [zeros_length, store64H_length]; omega
    rw [hb4]
    have e : pend ++ (0x80 :: zeros (bs - (pend.length + 1) + lenPos)
          ++ store64H (UInt64.ofNat (8 * n)))
        = (pend ++ [0x80] ++ zeros (bs - (pend.length + 1)))
          ++ (zeros lenPos ++ store64H (UInt64.ofNat (8 * n))) := by
      rw [zeros_add]; simp
    rw [e, blocksFold_two hbs f st _ _ (by simp [zeros_length]; omega)
      (by simp [zeros_length, store64H_length]; omega)]
  · simp only [hc, if_false]
    have hb3 : HasPrefix bs (memcpy (memcpy md.buf pend.length [0x80]) (pend.length + 1)
        (zeros (lenPos - (pend.length + 1))))
        (pend ++ [0x80] ++ zeros (lenPos - (pend.length + 1))) :=
      hb1.memcpy' _ _ (by simp) (by simp [zeros_length]; omega)
    have hb4 : memcpy (memcpy (memcpy md.buf pend.length [0x80]) (pend.length + 1)
        (zeros (lenPos - (pend.length + 1)))) lenPos (store64H (UInt64.ofNat (8 * n)))
        = pend ++ [0x80] ++ zeros (lenPos - (pend.length + 1))
          ++ store64H (UInt64.ofNat (8 * n)) := by
      apply HasPrefix.full (hb3.memcpy' _ _ (by simp [zeros_length]; omega) (by
        simp [zeros_length, store64H_length]; omega))
      simp [zeros_length, store64H_length]; omega
    rw [hb4]
    have e : pend ++ (0x80 :: zeros (lenPos - (pend.length + 1))
          ++ store64H (UInt64.ofNat (8 * n)))
        = pend ++ [0x80] ++ zeros (lenPos - (pend.length + 1))
          ++ store64H (UInt64.ofNat (8 * n)) := by simp
    rw [e, blocksFold_one hbs f st _ (by simp [zeros_length, store64H_length]; omega)]

end Strophe.Hash.Ltc

namespace Strophe.Hash.Sha256
open Strophe Strophe.Hash Spec.Hash

theorem init_inv : Ltc.Inv 64 init iv [] 0 :=
  ⟨rfl, HasPrefix.nil (by simp [init, zeros]), rfl, by decide, by simp, rfl⟩

theorem digestOf_eq (s : State) : digestOf s = sha256MD.encode s := by
  simp [digestOf, sha256MD, store32H_eq]

theorem digestOf_length (s : State) : (digestOf s).length = 32 := by
  simp [digestOf, store32H]

theorem stream_inv (chunks : List Bytes) (h : 8 * chunks.flatten.length < 2 ^ 64) :
    Ltc.Inv 64 (chunks.foldl process init) (blocksFold 64 compress iv chunks.flatten).1
      (blocksFold 64 compress iv chunks.flatten).2 chunks.flatten.length := by
  have hp : process = Ltc.process 64 compress := by funext md inp; rfl
  have := Ltc.foldl_process_inv (bs := 64) (by decide) compress iv chunks (md := init) (msg := [])
    (by rw [blocksFold_lt (bs := 64) _ _ (by decide)]; exact init_inv) (by simpa using h)
  rw [hp]
  simpa using this

/-- `sha256_done` writes the FIPS 180-4 §5.1.1 padding -/
theorem done_spec {md : Ctx} {st : State} {pend : Bytes} {n : Nat} (h : Ltc.Inv 64 md st pend n)
    (hp : pend.length = n % 64) (hn : 8 * n < 2 ^ 64) :
    done md = some (sha256MD.encode (blocksFold 64 compress st (pend ++ sha256MD.pad n)).1) := by
  unfold done
  rw [Ltc.done_eq (by decide) (by decide) compress digestOf h, digestOf_eq]
  congr 5
  simp only [MD.pad, sha256MD, padZeros, Spec.Hash.zeros, zeros, store64H_eq, UInt64.toNat_ofNat',
    Nat.mod_eq_of_lt hn, List.cons_append]
  congr 3
  rw [hp]
  split <;> omega

end Strophe.Hash.Sha256

namespace Strophe.Hash.Sha512
open Strophe Strophe.Hash Spec.Hash

theorem init_inv : Ltc.Inv 128 init iv [] 0 :=
  ⟨rfl, HasPrefix.nil (by simp [init, zeros]), rfl, by decide, by simp, rfl⟩

theorem digestOf_eq (s : State) : digestOf s = sha512MD.encode s := by
  simp [digestOf, sha512MD, store64H_eq]

theorem digestOf_length (s : State) : (digestOf s).length = 64 := by
  simp [digestOf, store64H]

theorem stream_inv (chunks : List Bytes) (h : 8 * chunks.flatten.length < 2 ^ 64) :
    Ltc.Inv 128 (chunks.foldl process init) (blocksFold 128 compress iv chunks.flatten).1
      (blocksFold 128 compress iv chunks.flatten).2 chunks.flatten.length := by
  have hp : process = Ltc.process 128 compress := by funext md inp; rfl
  have := Ltc.foldl_process_inv (bs := 128) (by decide) compress iv chunks (md := init) (msg := [])
    (by rw [blocksFold_lt (bs := 128) _ _ (by decide)]; exact init_inv) (by simpa using h)
  rw [hp]
  simpa using this

/-- `sha512_done` writes the FIPS 180-4 §5.1.2 padding (the upper 64 bits of the 128-bit
    length field are the last eight of the zero bytes) -/
theorem done_spec {md : Ctx} {st : State} {pend : Bytes} {n : Nat} (h : Ltc.Inv 128 md st pend n)
    (hp : pend.length = n % 128) (hn : 8 * n < 2 ^ 64) :
    done md = some (sha512MD.encode (blocksFold 128 compress st (pend ++ sha512MD.pad n)).1) := by
  unfold done
  rw [Ltc.done_eq (by decide) (by decide) compress digestOf h, digestOf_eq]
  congr 5
  simp only [MD.pad, sha512MD, padZeros, store64H_eq, UInt64.toNat_ofNat',
    Nat.mod_eq_of_lt hn, List.cons_append, beBytes16_of_lt _ hn, Bool.false_eq_true, if_false]
  congr 1
  rw [← List.append_assoc]
  congr 1
  simp only [Spec.Hash.zeros, zeros, List.replicate_append_replicate]
  congr 1
  rw [hp]
  split <;> omega

end Strophe.Hash.Sha512
