/-
The negotiation token: at most one step of the stream negotiation is pending at any time
(a negotiation handler, or a parser reset waiting for the next stream header), and none while
stream management is on — apart from the XEP-0198 handler itself.  Part 1: definitions, counting,
the basic operations.
-/
import Strophe.Lemmas.ConnC04Inv5

namespace Strophe.Lemmas.ConnC04
open Strophe Strophe.Conn

/-- handlers whose firing takes the negotiation one step further -/
def isTok : HFun → Bool
  | .sys .features => true
  | .sys .featuresSasl => true
  | .sys .featuresCompress => true
  | .sys .proceedTls => true
  | .sys (.saslResult _) => true
  | .sys .digestChallenge => true
  | .sys .digestRspauth => true
  | .sys (.scramChallenge _ _) => true
  | .sys .sm => true
  | .sys .compressResult => true
  | .sys .bind => true
  | .sys .session => true
  | _ => false

/-- tokens in a handler list, not counting the handler that is being run -/
def tokP (u : Option Nat) (h : Handler) : Bool := isTok h.fn && decide (some h.uid ≠ u)
def cnt (u : Option Nat) (l : List Handler) : Nat := (l.filter (tokP u)).length

/-- a parser reset is pending or has just happened: the next thing to come is a stream header -/
def Fr (c : Conn) : Prop := c.resetParser = true ∨ c.pst = .fresh
instance (c : Conn) : Decidable (Fr c) := by unfold Fr; infer_instance

def frN (rp : Bool) (pst : PSt) : Nat := if rp = true ∨ pst = .fresh then 1 else 0

structure TkV (u ut : Option Nat) (n : Nat) (hs ids : List Handler) (tm : List Timed) (rp : Bool) (pst : PSt)
    (state : CState) (enb : Bool) (sid : Option Bytes) : Prop where
  le : cnt u hs + cnt u ids + frN rp pst ≤ n
  en : enb = true → frN rp pst = 0 ∧ (∀ h ∈ hs, tokP u h = true → h.fn = .sys .sm) ∧ cnt u ids = 0
  mt : ∀ t ∈ tm, t.fn = .missingFeatures → some t.uid ≠ ut → ∃ h ∈ hs, h.fn = .sys .features ∧ some h.uid ≠ u
  frp : state = .connected → pst = .fresh → rp = false
  c1 : sid.isSome = true → enb = true ∧ cnt u hs + cnt u ids + frN rp pst = 0

def Tk (u ut : Option Nat) (n : Nat) (c : Conn) : Prop :=
  TkV u ut n c.handlers c.idHandlers c.timed c.resetParser c.pst c.state c.sm.enabled c.sm.id

/-- stream management is off and no session id is held -/
def Off (c : Conn) : Prop := c.sm.enabled = false ∧ c.sm.id = none

/-! ### counting -/

theorem cnt_append (u : Option Nat) (l1 l2 : List Handler) : cnt u (l1 ++ l2) = cnt u l1 + cnt u l2 := by
  unfold cnt; rw [List.filter_append, List.length_append]

theorem cnt_single (u : Option Nat) (h : Handler) : cnt u [h] = if tokP u h = true then 1 else 0 := by
  unfold cnt
  by_cases hp : tokP u h = true
  · simp [List.filter, hp]
  · simp [List.filter, hp]

theorem cnt_filter_le (u : Option Nat) (p : Handler → Bool) (l : List Handler) : cnt u (l.filter p) ≤ cnt u l := by
  unfold cnt
  have : (l.filter p).filter (tokP u) = (l.filter (tokP u)).filter p := by
    rw [List.filter_filter, List.filter_filter]
    apply List.filter_congr
    intro x _; exact Bool.and_comm _ _
  rw [this]
  exact List.length_filter_le _ _

theorem cnt_map (u : Option Nat) (f : Handler → Handler) (hf : ∀ x, (f x).fn = x.fn ∧ (f x).uid = x.uid)
    (l : List Handler) : cnt u (l.map f) = cnt u l := by
  unfold cnt
  rw [List.filter_map, List.length_map]
  congr 1
  apply List.filter_congr
  intro x _
  simp [tokP, Function.comp, (hf x).1, (hf x).2]

theorem cnt_eq_zero {u : Option Nat} {l : List Handler} : cnt u l = 0 ↔ ∀ h ∈ l, tokP u h = false := by
  unfold cnt
  rw [List.length_eq_zero_iff, List.filter_eq_nil_iff]
  constructor
  · intro h x hx; simpa using h x hx
  · intro h x hx; simp [h x hx]

/-- a more generous exemption counts less -/
theorem cnt_le_none (u : Option Nat) (l : List Handler) : cnt u l ≤ cnt none l := by
  unfold cnt
  have : l.filter (tokP u) = (l.filter (tokP none)).filter (tokP u) := by
    rw [List.filter_filter]
    apply List.filter_congr
    intro x _
    by_cases h : tokP u x = true
    · have : tokP none x = true := by
        simp only [tokP, Bool.and_eq_true, decide_eq_true_eq] at h ⊢
        exact ⟨h.1, by simp⟩
      simp [h, this]
    · simp [h]
  rw [this]
  exact List.length_filter_le _ _

/-- the handler that is being run was counted before -/
theorem cnt_exempt {l : List Handler} {hd : Handler} (hm : hd ∈ l) (ht : isTok hd.fn = true) :
    cnt (some hd.uid) l + 1 ≤ cnt none l := by
  induction l with
  | nil => cases hm
  | cons a l ih =>
    have e1 : ∀ u, cnt u (a :: l) = cnt u [a] + cnt u l := fun u => cnt_append u [a] l
    rw [e1, e1, cnt_single, cnt_single]
    rcases List.mem_cons.1 hm with rfl | hm
    · have h1 : tokP (some hd.uid) hd = false := by simp [tokP]
      have h2 : tokP none hd = true := by simp [tokP, ht]
      rw [h1, h2]
      have := cnt_le_none (some hd.uid) l
      simp; omega
    · have := ih hm
      by_cases h1 : tokP (some hd.uid) a = true
      · have h2 : tokP none a = true := by
          simp only [tokP, Bool.and_eq_true, decide_eq_true_eq] at h1 ⊢
          exact ⟨h1.1, by simp⟩
        rw [if_pos h1, if_pos h2]; omega
      · rw [if_neg h1]
        split <;> omega

/-- removing the handler that was being run -/
theorem cnt_remove (uid : Nat) (l : List Handler) : cnt none (l.filter (·.uid ≠ uid)) = cnt (some uid) l := by
  unfold cnt
  rw [List.filter_filter]
  congr 1
  apply List.filter_congr
  intro x _
  simp only [tokP]
  by_cases h : x.uid = uid
  · simp [h]
  · simp [h]

/-- no token carries the uid of a handler of the other list -/
theorem cnt_other {l : List Handler} {uid : Nat} (h : ∀ x ∈ l, x.uid ≠ uid) : cnt (some uid) l = cnt none l := by
  unfold cnt
  congr 1
  apply List.filter_congr
  intro x hx
  have := h x hx
  simp [tokP, this]

/-! ### Off -/

variable {c : Conn}

theorem Off_pushRawWith {it o sn} (h : Off c) : Off (pushRawWith c it o sn) :=
  ⟨(pushRawWith_same c it o sn).en.trans h.1, (pushRawWith_same c it o sn).smId.trans h.2⟩
theorem Off_resetSmForReconnect (_h : Off c) : Off (resetSmForReconnect c) :=
  ⟨(resetSmForReconnect_same c).2.2.1, (resetSmForReconnect_same c).2.2.2.2.2.2.2.2.2.2.1⟩

theorem Off_triggerSmCallback (h : Off c) : Off (triggerSmCallback c) := h
theorem Off_addHandler {fn ud ns name type user} (h : Off c) : Off (addHandler c fn ud ns name type user) := by
  c4auto addHandler
theorem Off_addIdHandler {fn id user} (h : Off c) : Off (addIdHandler c fn id user) := by
  c4auto addIdHandler
theorem Off_addTimed {fn period user} (h : Off c) : Off (addTimed c fn period user) := by
  c4auto addTimed
theorem Off_delTimed {fn} (h : Off c) : Off (delTimed c fn) := by
  c4auto delTimed
theorem Off_resetTimed (h : Off c) : Off (resetTimed c) := by
  c4auto resetTimed
theorem Off_systemDeleteAll (h : Off c) : Off (systemDeleteAll c) := by
  c4auto systemDeleteAll
theorem Off_notify {e} (h : Off c) : Off (notify c e) := by
  c4auto notify
theorem Off_connDisconnect (h : Off c) : Off (connDisconnect c) := by
  c4auto connDisconnect
theorem Off_pushRaw {it o} (h : Off c) : Off (pushRaw c it o) := by
  c4auto pushRaw
theorem Off_sendStanza {it o} (h : Off c) : Off (sendStanza c it o) := by
  c4auto sendStanza
theorem Off_sendRaw {it o} (h : Off c) : Off (sendRaw c it o) := by
  c4auto sendRaw
theorem Off_sendRawString {it} (h : Off c) : Off (sendRawString c it) := by
  c4auto sendRawString
theorem Off_xmppDisconnect (h : Off c) : Off (xmppDisconnect c) := by
  c4auto xmppDisconnect
theorem Off_connTlsStart (h : Off c) : Off ((connTlsStart c).1) := by
  c4auto connTlsStart
theorem Off_connOpenStream (h : Off c) : Off (connOpenStream c) := by
  c4auto connOpenStream
theorem Off_prepareReset {o} (h : Off c) : Off (prepareReset c o) := h
theorem Off_negotiationSuccess (h : Off c) : Off (negotiationSuccess c) := by
  c4auto negotiationSuccess
theorem Off_authLegacyStep (h : Off c) : Off (authLegacyStep c) := by
  c4auto authLegacyStep
theorem Off_auth (n : Nat) : ∀ {c}, Off c → Off (auth c n) := by
  induction n with
  | zero => intro c h; exact h
  | succ n ih =>
    intro c h
    rw [auth]
    dsimp only
    c4trav
    all_goals first | (apply ih; c4trav) | skip
theorem Off_authTop (h : Off c) : Off (authTop c) := Off_auth _ h
theorem Off_saslChild {t} (h : Off c) : Off (saslChild c t) := by
  c4auto saslChild
theorem Off_noteOffers {st} (h : Off c) : Off (noteOffers c st) := by
  c4auto noteOffers
theorem Off_handleFeatures {st} (h : Off c) : Off (handleFeatures c st) := by
  c4auto handleFeatures
theorem Off_doBind (h : Off c) : Off (doBind c) := by
  c4auto doBind
theorem Off_sessionStart (h : Off c) : Off (sessionStart c) := by
  c4auto sessionStart
theorem Off_handleFeaturesSasl {st} (h : Off c) : Off (handleFeaturesSasl c st) := by
  c4auto handleFeaturesSasl
theorem Off_compressionOffer {st} (h : Off c) : Off (compressionOffer c st) := by
  c4auto compressionOffer
theorem Off_handleFeaturesCompress {st} (h : Off c) : Off (handleFeaturesCompress c st) := by
  c4auto handleFeaturesCompress
theorem Off_handleSaslResult {st} (h : Off c) : Off (handleSaslResult c st) := by
  c4auto handleSaslResult
theorem Off_smQueueResend (h : Off c) : Off (smQueueResend c) := by
  c4auto smQueueResend
theorem Off_handleLegacy {st} (h : Off c) : Off (handleLegacy c st) := by
  c4auto handleLegacy
theorem Off_handleError {st} (h : Off c) : Off (handleError c st) := by
  c4auto handleError
theorem Off_componentOpen (h : Off c) : Off (componentOpen c) := by
  c4auto componentOpen
theorem Off_runOpenHandler (h : Off c) : Off (runOpenHandler c) := by
  c4auto runOpenHandler

theorem Off_hsmTail {hb wr} (h : Off c) : Off (hsmTail c hb wr) := by
  c4auto hsmTail

/-! ### Tk: basic operations -/

variable {u ut : Option Nat} {n : Nat}

theorem Tk.mono {m : Nat} (h : Tk u ut n c) (hle : n ≤ m) : Tk u ut m c :=
  { h with le := Nat.le_trans h.le hle }

/-- the fields `Tk` reads are the same -/
theorem Tk_same {c' : Conn} (h : Tk u ut n c) (e1 : c'.handlers = c.handlers) (e2 : c'.idHandlers = c.idHandlers)
    (e3 : c'.timed = c.timed) (e4 : c'.resetParser = c.resetParser) (e5 : c'.pst = c.pst) (e6 : c'.state = c.state)
    (e7 : c'.sm.enabled = c.sm.enabled) (e8 : c'.sm.id = c.sm.id) : Tk u ut n c' := by
  unfold Tk; rw [e1, e2, e3, e4, e5, e6, e7, e8]; exact h

theorem Tk_pushRawWith {it o sn} (h : Tk u ut n c) : Tk u ut n (pushRawWith c it o sn) := by
  have s := pushRawWith_same c it o sn
  exact Tk_same h s.handlers s.idHandlers s.timed s.resetParser s.pst s.state s.en s.smId

theorem tokP_of_add {x : Handler} (hx : tokP u x = true) : isTok x.fn = true := by
  simp only [tokP, Bool.and_eq_true] at hx; exact hx.1

/-- a negotiation handler is registered: only while stream management is off, and nothing else is pending -/
theorem Tk_addHandler {fn ud ns name type user} (h : Tk u ut 0 c) (ho : Off c) :
    Tk u ut 1 (addHandler c fn ud ns name type user) := by
  unfold addHandler; split
  · exact h.mono (Nat.zero_le _)
  · have hz := Nat.le_zero.1 h.le
    have h1 : cnt u c.handlers = 0 := by omega
    have h2 : cnt u c.idHandlers = 0 := by omega
    have h3 : frN c.resetParser c.pst = 0 := by omega
    refine ⟨?_, fun he => ?_, ?_, h.frp, fun hi => ?_⟩
    · show cnt u (c.handlers ++ [_]) + cnt u c.idHandlers + frN c.resetParser c.pst ≤ 1
      rw [cnt_append, cnt_single, h1, h2, h3]; split <;> omega
    · have : c.sm.enabled = true := he
      rw [ho.1] at this; cases this
    · intro t ht hf hu
      obtain ⟨x, hx, hfx⟩ := h.mt t ht hf hu
      exact ⟨x, List.mem_append_left _ hx, hfx⟩
    · have : c.sm.id.isSome = true := hi
      rw [ho.2] at this; cases this

/-- a handler that is not part of the negotiation -/
theorem Tk_addHandler' {fn ud ns name type user} (hnt : isTok fn = false) (h : Tk u ut n c) :
    Tk u ut n (addHandler c fn ud ns name type user) := by
  unfold addHandler; split
  · exact h
  · have e : cnt u (c.handlers ++ [({ uid := c.nextUid, fn := fn, ud := ud, ns := ns, name := name, type := type, user := user } : Handler)])
        = cnt u c.handlers := by
      rw [cnt_append, cnt_single]
      have : tokP u ({ uid := c.nextUid, fn := fn, ud := ud, ns := ns, name := name, type := type, user := user } : Handler) = false := by
        simp [tokP, hnt]
      rw [this]; simp
    refine ⟨?_, fun he => ?_, ?_, h.frp, fun hi => ?_⟩
    · show cnt u (c.handlers ++ [_]) + _ + _ ≤ n
      rw [e]; exact h.le
    · obtain ⟨a1, a2, a3⟩ := h.en he
      refine ⟨a1, ?_, a3⟩
      intro x hx hp
      rcases List.mem_append.1 hx with hx | hx
      · exact a2 x hx hp
      · simp only [List.mem_singleton] at hx; subst hx
        have := tokP_of_add hp
        rw [hnt] at this; cases this
    · intro t ht hf hu
      obtain ⟨x, hx, hfx⟩ := h.mt t ht hf hu
      exact ⟨x, List.mem_append_left _ hx, hfx⟩
    · obtain ⟨a1, a2⟩ := h.c1 hi
      refine ⟨a1, ?_⟩
      show cnt u (c.handlers ++ [_]) + _ + _ = 0
      rw [e]; exact a2

theorem Tk_addIdHandler {fn id user} (h : Tk u ut 0 c) (ho : Off c) :
    Tk u ut 1 (addIdHandler c fn id user) := by
  unfold addIdHandler; split
  · exact h.mono (Nat.zero_le _)
  · have hz := Nat.le_zero.1 h.le
    have h1 : cnt u c.handlers = 0 := by omega
    have h2 : cnt u c.idHandlers = 0 := by omega
    have h3 : frN c.resetParser c.pst = 0 := by omega
    refine ⟨?_, fun he => ?_, h.mt, h.frp, fun hi => ?_⟩
    · show cnt u c.handlers + cnt u (c.idHandlers ++ [_]) + frN c.resetParser c.pst ≤ 1
      rw [cnt_append, cnt_single, h1, h2, h3]; split <;> omega
    · have : c.sm.enabled = true := he
      rw [ho.1] at this; cases this
    · have : c.sm.id.isSome = true := hi
      rw [ho.2] at this; cases this

theorem Tk_addIdHandler' {fn id user} (hnt : isTok fn = false) (h : Tk u ut n c) :
    Tk u ut n (addIdHandler c fn id user) := by
  unfold addIdHandler; split
  · exact h
  · have e : cnt u (c.idHandlers ++ [({ uid := c.nextUid, fn := fn, id := some id, user := user } : Handler)])
        = cnt u c.idHandlers := by
      rw [cnt_append, cnt_single]
      have : tokP u ({ uid := c.nextUid, fn := fn, id := some id, user := user } : Handler) = false := by
        simp [tokP, hnt]
      rw [this]; simp
    refine ⟨?_, fun he => ?_, h.mt, h.frp, fun hi => ?_⟩
    · show _ + cnt u (c.idHandlers ++ [_]) + _ ≤ n
      rw [e]; exact h.le
    · obtain ⟨a1, a2, a3⟩ := h.en he
      refine ⟨a1, a2, ?_⟩
      show cnt u (c.idHandlers ++ [_]) = 0
      rw [e]; exact a3
    · obtain ⟨a1, a2⟩ := h.c1 hi
      refine ⟨a1, ?_⟩
      show _ + cnt u (c.idHandlers ++ [_]) + _ = 0
      rw [e]; exact a2

/-- a timer other than the one waiting for the stream features -/
theorem Tk_addTimed' {fn period user} (hnm : (fn == TFun.missingFeatures) = false) (h : Tk u ut n c) :
    Tk u ut n (addTimed c fn period user) := by
  unfold addTimed; split
  · exact h
  · refine { h with mt := ?_ }
    intro t ht hf hu
    rcases List.mem_cons.1 ht with ht | ht
    · subst ht
      have : fn = TFun.missingFeatures := hf
      rw [this] at hnm; simp at hnm
    · exact h.mt t ht hf hu

theorem Tk_timedFilter (p : Timed → Bool) (h : Tk u ut n c) : Tk u ut n { c with timed := c.timed.filter p } :=
  { h with mt := fun t ht => h.mt t (List.mem_filter.1 ht).1 }

theorem Tk_timedMap (f : Timed → Timed) (hf : ∀ x, (f x).uid = x.uid ∧ (f x).fn = x.fn) (h : Tk u ut n c) :
    Tk u ut n { c with timed := c.timed.map f } := by
  refine { h with mt := ?_ }
  intro t ht hfn hu
  obtain ⟨y, hy, rfl⟩ := List.mem_map.1 ht
  rw [(hf y).2] at hfn
  rw [(hf y).1] at hu
  exact h.mt y hy hfn hu

theorem Tk_rec1 {p : Timed → Bool} (h : Tk u ut n c) : Tk u ut n { c with timed := c.timed.filter p } :=
  Tk_timedFilter p h
theorem Tk_rec2 (h : Tk u ut n c) :
    Tk u ut n { c with timed := c.timed.map fun (t : Timed) => { t with enabled := true } } :=
  Tk_timedMap _ (fun _ => ⟨rfl, rfl⟩) h
theorem Tk_rec3 {uid s : Nat} (h : Tk u ut n c) :
    Tk u ut n { c with timed := c.timed.map fun (x : Timed) => if x.uid = uid then { x with lastStamp := s } else x } :=
  Tk_timedMap _ (fun x => by split <;> exact ⟨rfl, rfl⟩) h
theorem Tk_rec4 {s : Nat} (h : Tk u ut n c) :
    Tk u ut n { c with timed := c.timed.map fun (t : Timed) => { t with lastStamp := s } } :=
  Tk_timedMap _ (fun _ => ⟨rfl, rfl⟩) h

theorem tokP_map {f : Handler → Handler} (hf : ∀ x, (f x).fn = x.fn ∧ (f x).uid = x.uid) (x : Handler) :
    tokP u (f x) = tokP u x := by
  simp [tokP, (hf x).1, (hf x).2]

theorem Tk_mapH (f : Handler → Handler) (hf : ∀ x, (f x).fn = x.fn ∧ (f x).uid = x.uid) (h : Tk u ut n c) :
    Tk u ut n { c with handlers := c.handlers.map f } := by
  have e := cnt_map u f hf c.handlers
  refine ⟨?_, fun he => ?_, ?_, h.frp, fun hi => ?_⟩
  · show cnt u (c.handlers.map f) + _ + _ ≤ n
    rw [e]; exact h.le
  · obtain ⟨a1, a2, a3⟩ := h.en he
    refine ⟨a1, ?_, a3⟩
    intro x hx hp
    obtain ⟨y, hy, rfl⟩ := List.mem_map.1 hx
    rw [tokP_map hf] at hp
    rw [(hf y).1]; exact a2 y hy hp
  · intro t ht hfn hu
    obtain ⟨x, hx, h1, h2⟩ := h.mt t ht hfn hu
    exact ⟨f x, List.mem_map.2 ⟨x, hx, rfl⟩, by rw [(hf x).1]; exact h1, by rw [(hf x).2]; exact h2⟩
  · obtain ⟨a1, a2⟩ := h.c1 hi
    refine ⟨a1, ?_⟩
    show cnt u (c.handlers.map f) + _ + _ = 0
    rw [e]; exact a2

theorem Tk_mapI (f : Handler → Handler) (hf : ∀ x, (f x).fn = x.fn ∧ (f x).uid = x.uid) (h : Tk u ut n c) :
    Tk u ut n { c with idHandlers := c.idHandlers.map f } := by
  have e := cnt_map u f hf c.idHandlers
  refine ⟨?_, fun he => ?_, h.mt, h.frp, fun hi => ?_⟩
  · show _ + cnt u (c.idHandlers.map f) + _ ≤ n
    rw [e]; exact h.le
  · obtain ⟨a1, a2, a3⟩ := h.en he
    exact ⟨a1, a2, by show cnt u (c.idHandlers.map f) = 0; rw [e]; exact a3⟩
  · obtain ⟨a1, a2⟩ := h.c1 hi
    refine ⟨a1, ?_⟩
    show _ + cnt u (c.idHandlers.map f) + _ = 0
    rw [e]; exact a2

theorem Tk_rec5 (h : Tk u ut n c) :
    Tk u ut n { c with handlers := c.handlers.map fun (h : Handler) => { h with enabled := true } } :=
  Tk_mapH _ (fun _ => ⟨rfl, rfl⟩) h
theorem Tk_rec6 {id : Bytes} (h : Tk u ut n c) :
    Tk u ut n { c with handlers := c.handlers.map (fun (h : Handler) => { h with enabled := true }),
                       idHandlers := c.idHandlers.map (fun (h : Handler) =>
                         if h.id = some id then { h with enabled := true } else h) } :=
  Tk_mapI (c := { c with handlers := c.handlers.map fun (h : Handler) => { h with enabled := true } }) _
    (fun x => by split <;> exact ⟨rfl, rfl⟩) (Tk_rec5 h)

/-- id handlers are removed -/
theorem Tk_filterI (p : Handler → Bool) (h : Tk u ut n c) : Tk u ut n { c with idHandlers := c.idHandlers.filter p } := by
  have e := cnt_filter_le u p c.idHandlers
  refine ⟨?_, fun he => ?_, h.mt, h.frp, fun hi => ?_⟩
  · show cnt u c.handlers + cnt u (c.idHandlers.filter p) + frN c.resetParser c.pst ≤ n
    have := h.le; omega
  · obtain ⟨a1, a2, a3⟩ := h.en he
    refine ⟨a1, a2, ?_⟩
    show cnt u (c.idHandlers.filter p) = 0
    omega
  · obtain ⟨a1, a2⟩ := h.c1 hi
    refine ⟨a1, ?_⟩
    show cnt u c.handlers + cnt u (c.idHandlers.filter p) + frN c.resetParser c.pst = 0
    omega

/-- the iteration of the event loop resets the parser if asked to -/
theorem Tk_rec7 (h : Tk u ut n c) :
    Tk u ut n { c with resetParser := false, pst := if c.resetParser = true then PSt.fresh else c.pst } := by
  have e : frN false (if c.resetParser = true then PSt.fresh else c.pst) = frN c.resetParser c.pst := by
    unfold frN
    cases c.resetParser <;> simp
  refine ⟨?_, fun he => ?_, h.mt, fun _ _ => rfl, fun hi => ?_⟩
  · show _ + _ + frN false _ ≤ n
    rw [e]; exact h.le
  · obtain ⟨a1, a2, a3⟩ := h.en he
    exact ⟨by show frN false _ = 0; rw [e]; exact a1, a2, a3⟩
  · obtain ⟨a1, a2⟩ := h.c1 hi
    refine ⟨a1, ?_⟩
    show _ + _ + frN false _ = 0
    rw [e]; exact a2

/-- a parser reset is requested: nothing else is pending, stream management is off -/
theorem Tk_prepareReset {o} (h : Tk u ut 0 c) (ho : Off c) : Tk u ut 1 (prepareReset c o) := by
  unfold prepareReset
  have hz := Nat.le_zero.1 h.le
  have h1 : cnt u c.handlers = 0 := by omega
  have h2 : cnt u c.idHandlers = 0 := by omega
  have h3 : frN c.resetParser c.pst = 0 := by omega
  have hp : c.pst ≠ .fresh := by
    intro hp
    unfold frN at h3
    rw [if_pos (.inr hp)] at h3; cases h3
  refine ⟨?_, fun he => ?_, h.mt, fun _ hf => absurd hf hp, fun hi => ?_⟩
  · show _ + _ + frN true c.pst ≤ 1
    rw [h1, h2]; unfold frN; simp
  · have : c.sm.enabled = true := he
    rw [ho.1] at this; cases this
  · have : c.sm.id.isSome = true := hi
    rw [ho.2] at this; cases this

theorem Tk_connDisconnect (h : Tk u ut n c) : Tk u ut n (connDisconnect c) := by
  unfold connDisconnect
  split
  · exact h
  · obtain ⟨_, _, h3, _, _, _, h7, h8, h9, _, h11, _⟩ :=
      resetSmForReconnect_same { c with state := .disconnected, negotiated := false, hasTls := false, isRaw := false }
    unfold notify Tk
    dsimp only
    rw [h3, h7, h8, h9, h11]
    exact ⟨h.le, fun he => (by cases he), h.mt, fun hs => (by cases hs), fun hi => (by cases hi)⟩

/-! ### Tk: functions that register no negotiation handler -/

theorem Tk_triggerSmCallback (h : Tk u ut n c) : Tk u ut n (triggerSmCallback c) := h
theorem Tk_delTimed {fn} (h : Tk u ut n c) : Tk u ut n (delTimed c fn) := by
  c4auto delTimed
theorem Tk_resetTimed (h : Tk u ut n c) : Tk u ut n (resetTimed c) := by
  c4auto resetTimed
theorem Tk_notify {e} (h : Tk u ut n c) : Tk u ut n (notify c e) := by
  c4auto notify
theorem Tk_pushRaw {it o} (h : Tk u ut n c) : Tk u ut n (pushRaw c it o) := by
  c4auto pushRaw
theorem Tk_sendStanza {it o} (h : Tk u ut n c) : Tk u ut n (sendStanza c it o) := by
  c4auto sendStanza
theorem Tk_sendRaw {it o} (h : Tk u ut n c) : Tk u ut n (sendRaw c it o) := by
  c4auto sendRaw
theorem Tk_sendRawString {it} (h : Tk u ut n c) : Tk u ut n (sendRawString c it) := by
  c4auto sendRawString
theorem Tk_xmppDisconnect (h : Tk u ut n c) : Tk u ut n (xmppDisconnect c) := by
  c4auto xmppDisconnect
theorem Tk_connTlsStart (h : Tk u ut n c) : Tk u ut n ((connTlsStart c).1) := by
  c4auto connTlsStart
theorem Tk_connOpenStream (h : Tk u ut n c) : Tk u ut n (connOpenStream c) := by
  c4auto connOpenStream
theorem Tk_negotiationSuccess (h : Tk u ut n c) : Tk u ut n (negotiationSuccess c) := by
  c4auto negotiationSuccess
theorem Tk_authLegacyStep (h : Tk u ut n c) : Tk u ut n (authLegacyStep c) := by
  c4auto authLegacyStep
theorem Tk_saslChild {t} (h : Tk u ut n c) : Tk u ut n (saslChild c t) := by
  c4auto saslChild
theorem Tk_noteOffers {st} (h : Tk u ut n c) : Tk u ut n (noteOffers c st) := by
  c4auto noteOffers
theorem Tk_compressionOffer {st} (h : Tk u ut n c) : Tk u ut n (compressionOffer c st) := by
  c4auto compressionOffer
theorem Tk_smQueueResend (h : Tk u ut n c) : Tk u ut n (smQueueResend c) := by
  c4auto smQueueResend
theorem Tk_handleLegacy {st} (h : Tk u ut n c) : Tk u ut n (handleLegacy c st) := by
  c4auto handleLegacy
theorem Tk_handleError {st} (h : Tk u ut n c) : Tk u ut n (handleError c st) := by
  c4auto handleError
theorem Tk_smElement {st} (h : Tk u ut n c) : Tk u ut n (smHandleStanza.smElement c st) := by
  c4auto smHandleStanza.smElement
theorem Tk_smHandleStanza {st} (h : Tk u ut n c) : Tk u ut n (smHandleStanza c st) := by
  c4auto smHandleStanza
theorem Tk_componentOpen (h : Tk u ut n c) : Tk u ut n (componentOpen c) := by
  c4auto componentOpen
theorem Tk_retire {e} (h : Tk u ut n c) : Tk u ut n (retire c e) := by
  c4auto retire
theorem Tk_writeElems (l : List QElem) : ∀ {c}, Tk u ut n c → Tk u ut n (writeElems c l) := by
  induction l with
  | nil => intro c h; exact h
  | cons e q ih =>
    intro c h
    unfold writeElems
    c4trav
    all_goals first | (apply ih; c4trav) | skip
theorem Tk_writeLoop (h : Tk u ut n c) : Tk u ut n (writeLoop c) := Tk_writeElems _ h

end Strophe.Lemmas.ConnC04
