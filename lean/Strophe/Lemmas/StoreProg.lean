/-
Whole programs: from the empty heap, every program that respects the ownership rules runs to its end
without a fault, in a good state; and what a good state implies (references keep subtrees alive, parent
pointers do not dangle, no reference left means nothing live).
-/
import Strophe.Lemmas.StoreStep

namespace Strophe.Store
open Strophe Strophe.Stanza

theorem inv_empty : Inv Mem.empty ⟨fun _ => [], fun _ => 0⟩ (fun _ => 0) := by
  have hd : ∀ x, (Mem.empty.get x).live = false := by
    intro x; simp [Mem.get, Mem.empty, Node.dead]
  constructor
  · intro p hl; rw [hd] at hl; cases hl
  · intro p _; rfl
  · intro p c hc; simp at hc
  · intro p; simp
  · intro p q c hc; simp at hc
  · intro p c hc; simp at hc
  · intro x hl; rw [hd] at hl; cases hl
  · intro x hl; rw [hd] at hl; cases hl
  · intro x hx; simp at hx
  · intro x hx; simp at hx

theorem good_init : GoodSt St.init := by
  refine ⟨⟨⟨fun _ => [], fun _ => 0⟩, ?_⟩, by simp [St.init]⟩
  have : St.init.holds = fun _ => 0 := by
    funext x; simp [holds_def, St.init, List.count_replicate]
  rw [this]
  exact inv_empty

theorem exec_good : ∀ (ops : List Op) (st : St), GoodSt st → WellOwned st ops →
    ∃ st', exec st ops = .ok st' ∧ GoodSt st'
  | [], st, hg, _ => ⟨st, rfl, hg⟩
  | op :: rest, st, hg, hw => by
    simp only [WellOwned] at hw
    obtain ⟨st1, out, he, hg1⟩ := step_good hg op hw.1
    rw [he] at hw
    obtain ⟨st', he', hg'⟩ := exec_good rest st1 hg1 hw.2
    exact ⟨st', by simp [exec, he, bind, Except.bind, he'], hg'⟩

/-! ### what a good state guarantees -/

/-- the subtree below `x` as the C code walks it: `children`, then `next` of everything below `x` -/
inductive Reach (m : Mem) (x : Nat) : Nat → Prop
  | self : Reach m x x
  | child {p c : Nat} : Reach m x p → (m.get p).children = some c → Reach m x c
  | sibling {a b : Nat} : Reach m x a → a ≠ x → (m.get a).next = some b → Reach m x b

theorem Chain.succ_mem {m : Mem} : ∀ {l : List Nat} {s : Option Nat}, Chain m s l → ∀ a b, a ∈ l →
    (m.get a).next = some b → b ∈ l
  | [], _, _, a, _, ha, _ => by simp at ha
  | x :: l, s, h, a, b, ha, hn => by
    obtain ⟨_, _, hc⟩ := h
    simp only [List.mem_cons] at ha
    rcases ha with rfl | ha
    · rw [hn] at hc
      obtain ⟨l', rfl⟩ := hc.head
      simp
    · exact List.mem_cons_of_mem _ (Chain.succ_mem hc a b ha hn)

theorem Desc.inv {G : Ghost} {x a : Nat} (h : Desc G x a) (hne : a ≠ x) : ∃ q, Desc G x q ∧ a ∈ G.kids q := by
  cases h with
  | refl => exact absurd rfl hne
  | step hq ha => exact ⟨_, hq, ha⟩

theorem reach_desc {m : Mem} {G : Ghost} {hold : Nat → Nat} (h : Inv m G hold) {x y : Nat}
    (hl : (m.get x).live = true) (hr : Reach m x y) : Desc G x y ∧ (m.get y).live = true := by
  induction hr with
  | self => exact ⟨Desc.refl, hl⟩
  | @child p c _ hc ih =>
    have hch := h.chain p ih.2 (by simp)
    rw [hc] at hch
    obtain ⟨l', hl'⟩ := hch.head
    have hmem : c ∈ G.kids p := by rw [hl']; simp
    exact ⟨Desc.step ih.1 hmem, h.kid_live hmem⟩
  | @sibling a b _ hne hn ih =>
    obtain ⟨q, hq, ha⟩ := ih.1.inv hne
    have hql := (h.par_live ha).1
    have hmem := Chain.succ_mem (h.chain q hql (by simp)) a b ha hn
    exact ⟨Desc.step hq hmem, h.kid_live hmem⟩

/-- no reference anywhere: nothing is live -/
theorem all_dead {m : Mem} {G : Ghost} (h : Inv m G (fun _ => 0)) : ∀ x, (m.get x).live = false := by
  have key : ∀ k x, (m.get x).live = true → m.size - brank G m.size x = k → False := by
    intro k
    induction k using Nat.strongRecOn with
    | _ k ih =>
      intro x hl hk
      have hr := h.ref x hl (by simp)
      have hp : HasPar G x := by
        apply Classical.byContradiction
        intro hn
        rw [hpN_not hn] at hr
        simp at hr
        omega
      obtain ⟨p, hp⟩ := hp
      have hpl := (h.par_live hp).1
      have hlt := brank_lt (G := G) (Mem.live_lt hl) (h.rank p x hp)
      have hle := brank_le G m.size p
      exact ih (m.size - brank G m.size p) (by omega) p hpl rfl
  intro x
  cases hl : (m.get x).live with
  | false => rfl
  | true => exact (key _ x hl rfl).elim

theorem liveBlocks_all_dead {m : Mem} (h : ∀ x, (m.get x).live = false) : m.liveBlocks = 0 := by
  unfold Mem.liveBlocks
  have : ∀ n ∈ m.heap, n.blocks = 0 := by
    intro n hn
    obtain ⟨i, hi, rfl⟩ := List.getElem_of_mem hn
    have := h i
    rw [Mem.get_def, List.getElem?_eq_getElem hi] at this
    simp at this
    simp [Node.blocks, this]
  generalize m.heap = l at this
  induction l with
  | nil => rfl
  | cons a l ih =>
    simp only [List.map_cons, List.sum_cons]
    rw [this a (by simp), ih (fun n hn => this n (by simp [hn]))]

/-- all slots empty -/
def St.noRefs (st : St) : Prop := ∀ i, st.slot i = none

theorem holds_noRefs {st : St} (h : st.noRefs) : st.holds = fun _ => 0 := by
  funext x
  rw [holds_def]
  apply Nat.eq_zero_of_not_pos
  intro hpos
  rw [List.count_pos_iff] at hpos
  obtain ⟨i, hi, he⟩ := List.getElem_of_mem hpos
  have := h i
  rw [← slot_getElem hi, he] at this
  cases this

theorem wellOwned_append : ∀ (a b : List Op) (st : St), WellOwned st a →
    (∀ st', exec st a = .ok st' → WellOwned st' b) → WellOwned st (a ++ b)
  | [], b, st, _, hb => hb st rfl
  | op :: rest, b, st, ha, hb => by
    simp only [WellOwned] at ha
    simp only [List.cons_append, WellOwned]
    refine ⟨ha.1, ?_⟩
    cases hs : step st op with
    | error e => trivial
    | ok r =>
      obtain ⟨st1, out⟩ := r
      rw [hs] at ha
      apply wellOwned_append rest b st1 ha.2
      intro st' he
      apply hb
      simp [exec, hs, bind, Except.bind, he]


theorem exec_append : ∀ (a b : List Op) (st : St), exec st (a ++ b) = (exec st a >>= fun s => exec s b)
  | [], b, st => by simp [exec, bind, Except.bind, pure, Except.pure]
  | op :: rest, b, st => by
    simp only [List.cons_append, exec]
    cases hs : step st op with
    | error e => rfl
    | ok r =>
      simp only [bind, Except.bind]
      have := exec_append rest b r.1
      simp only [bind, Except.bind] at this
      exact this

end Strophe.Store
