/-
C11 helper lemmas, part 4: `handler_fire_stanza` as a whole (`fireStanza_spec`) and its relation to the
specification `HandlerSpec.expected`.
-/
import Strophe.Lemmas.HandlerInst
import Strophe.Spec.HandlerSpec

namespace Strophe.Lemmas.Handler
open Strophe Strophe.Handler Strophe.HandlerSpec

/-! ### filter semantics -/

theorem matchesC_iff (f : Filter) (s : Stanza) : matchesC f s = true ↔ Matches f s := by
  unfold matchesC Matches
  rcases f with ⟨ns, name, type⟩
  simp only [Bool.and_eq_true, and_assoc]
  refine and_congr ?_ (and_congr ?_ ?_)
  · cases ns with
    | none => simp
    | some ns =>
      simp only [Bool.or_eq_true, beq_iff_eq, List.any_eq_true, reduceCtorEq, false_or]
      constructor
      · rintro (h | ⟨x, hx, hx'⟩)
        · exact Or.inl h
        · exact Or.inr (hx' ▸ hx)
      · rintro (h | h)
        · exact Or.inl h
        · exact Or.inr ⟨_, h, rfl⟩
  · cases name <;> simp
  · cases type <;> simp

/-! ### the whole dispatch -/

def stEnH (st : St) (c : Nat) : St := updConn st c fun cn => { cn with handlers := enableAll cn.handlers }
def stEnI (st : St) (c : Nat) (id : Str) : St :=
  updConn st c fun cn => { cn with idTab := tabSet cn.idTab id (enableAll (cn.idTab id)) }

theorem fireStanza_none (beh : Beh) (st : St) (c : Nat) (s : Stanza) (hs : s.id = none) :
    fireStanza beh st c s =
      stanzaLoop beh c s ((stEnH st c).conns c).handlers.length (stEnH st c) ((stEnH st c).conns c).handlers := by
  unfold fireStanza
  rw [hs]
  rfl

theorem fireStanza_some (beh : Beh) (st : St) (c : Nat) (s : Stanza) (id : Str) (hs : s.id = some id) :
    fireStanza beh st c s =
      (idLoop beh c s id (((stEnI (stEnH st c) c id).conns c).idTab id).length (stEnI (stEnH st c) c id)
        (((stEnI (stEnH st c) c id).conns c).idTab id)).bind fun st1 =>
        stanzaLoop beh c s (st1.conns c).handlers.length st1 (st1.conns c).handlers := by
  unfold fireStanza
  rw [hs]
  rfl

theorem stEnH_wf {st : St} (w : WF st) (c : Nat) : WF (stEnH st c) := by
  unfold stEnH
  apply WF.updc' w c
  · exact (w.h c).of_maps (enableAll_uid _) (enableAll_key _)
  · intro id; exact w.i c id
  · exact w.t c

theorem stEnI_wf {st : St} (w : WF st) (c : Nat) (id : Str) : WF (stEnI st c id) := by
  unfold stEnI
  apply WF.updc' w c
  · exact w.h c
  · intro id'
    by_cases h : id' = id
    · subst h; simp only [tabSet_same]
      exact (w.i c id').of_maps (enableAll_uid _) (enableAll_key _)
    · simp only [tabSet_other _ _ _ _ h]; exact w.i c id'
  · exact w.t c

/-- the stanza handlers when the dispatch starts (all enabled by its first loop) -/
def hSnap (st : St) (c : Nat) : List Item := enableAll (st.conns c).handlers
/-- the id handlers for the stanza's id when the dispatch starts -/
def iSnap (st : St) (c : Nat) (s : Stanza) : List Item :=
  match s.id with
  | some id => enableAll ((st.conns c).idTab id)
  | none => []

/-- the pass over the id handlers -/
def walkI (beh : Beh) (st : St) (c : Nat) (s : Stanza) : List Fired :=
  match s.id with
  | some id => gwalk beh (cfgI c s id (st.conns c).negotiated) st.cnt st.now [] (enableAll ((st.conns c).idTab id))
  | none => []

/-- the pass over the stanza handlers, after the id handlers -/
def walkH (beh : Beh) (st : St) (c : Nat) (s : Stanza) : List Fired :=
  gwalk beh (cfgH c s (st.conns c).negotiated) (cntAfter st.cnt (walkI beh st c s))
    (nowAfter st.now (walkI beh st c s)) (Cfg.delsOf (cfgH c s (st.conns c).negotiated) (actsOf (walkI beh st c s)))
    (hSnap st c)

def invS (c : Nat) (s : Stanza) (f : Fired) : Inv := mkInv .stanza c f.item s.name f.time f.step.keep

def selfDelI (beh : Beh) (st : St) (c : Nat) (s : Stanza) : Prop :=
  match s.id with
  | some id => SelfDelete (cfgI c s id (st.conns c).negotiated) (walkI beh st c s)
  | none => False

def selfDelH (beh : Beh) (st : St) (c : Nat) (s : Stanza) : Prop :=
  SelfDelete (cfgH c s (st.conns c).negotiated) (walkH beh st c s)

def FirePost (beh : Beh) (st : St) (c : Nat) (s : Stanza) : Except Err St → Prop
  | .ok st' =>
    st'.log = st.log ++ (walkI beh st c s ++ walkH beh st c s).map (invS c s) ∧
    WF st' ∧ st.nextUid ≤ st'.nextUid ∧ ¬ selfDelI beh st c s ∧ ¬ selfDelH beh st c s ∧
    st'.cnt = cntAfter st.cnt (walkI beh st c s ++ walkH beh st c s)
  | .error .stale => selfDelI beh st c s ∨ selfDelH beh st c s
  | .error .fuel => False

theorem cntAfter_append (cnt : Key → Nat) (w1 w2 : List Fired) :
    cntAfter cnt (w1 ++ w2) = cntAfter (cntAfter cnt w1) w2 := by
  simp [cntAfter, List.foldl_append]

theorem indep_I_H (c : Nat) (s : Stanza) (id : Str) (neg : Bool) : Indep (cfgI c s id neg) (cfgH c s neg) := by
  intro st l
  simp [cfgI, cfgH]

theorem fireStanza_spec (beh : Beh) (st : St) (c : Nat) (s : Stanza) (w : WF st) :
    FirePost beh st c s (fireStanza beh st c s) := by
  generalize hneg : (st.conns c).negotiated = neg
  have wA : WF (stEnH st c) := stEnH_wf w c
  have hnegA : ((stEnH st c).conns c).negotiated = neg := by simp [stEnH, hneg]
  have hHA : ((stEnH st c).conns c).handlers = hSnap st c := by simp [stEnH, hSnap]
  cases hs : s.id with
  | none =>
    rw [fireStanza_none _ _ _ _ hs, stanzaLoop_eq beh c s neg _ _ _ hnegA, hHA]
    have sp := gloop_spec beh (cfgH_ok c s neg) (hSnap st c) (hSnap st c).length (stEnH st c) [] [] []
      wA hnegA (List.length_filter_le _ _)
      (by show ((stEnH st c).conns c).handlers = _; rw [hHA, filter_nil_dels]; simp) (by simp)
    simp only [filter_nil_dels, List.append_nil] at sp
    have hW1 : walkI beh st c s = [] := by simp [walkI, hs]
    have hW2 : walkH beh st c s = gwalk beh (cfgH c s neg) st.cnt st.now [] (hSnap st c) := by
      simp [walkH, hW1, hneg, cntAfter, nowAfter, actsOf, Cfg.delsOf]
    have hsd : ¬ selfDelI beh st c s := by simp [selfDelI, hs]
    revert sp
    generalize gloop beh (cfgH c s neg) (hSnap st c).length (stEnH st c) (hSnap st c) = res
    intro sp
    cases res with
    | ok st' =>
      obtain ⟨rlog, rcnt, _, rwf, _, rnu, rsd, _⟩ := sp
      refine ⟨?_, rwf, rnu, hsd, ?_, ?_⟩
      · rw [rlog, hW1, hW2]; rfl
      · rw [selfDelH, hW2, hneg]; exact rsd
      · rw [rcnt, hW1, hW2]; rfl
    | error e =>
      cases e with
      | stale => exact Or.inr (by rw [selfDelH, hW2, hneg]; exact sp)
      | fuel => exact sp
  | some id =>
    rw [fireStanza_some _ _ _ _ id hs]
    have wI : WF (stEnI (stEnH st c) c id) := stEnI_wf wA c id
    have hnegI : ((stEnI (stEnH st c) c id).conns c).negotiated = neg := by simp [stEnI, stEnH, hneg]
    have hII : ((stEnI (stEnH st c) c id).conns c).idTab id = enableAll ((st.conns c).idTab id) := by
      simp [stEnI, stEnH]
    have hHI : ((stEnI (stEnH st c) c id).conns c).handlers = hSnap st c := by simp [stEnI, stEnH, hSnap]
    rw [idLoop_eq beh c s id neg _ _ _ hnegI, hII]
    have sp := gloop_spec beh (cfgI_ok c s id neg) (enableAll ((st.conns c).idTab id))
      (enableAll ((st.conns c).idTab id)).length (stEnI (stEnH st c) c id) [] [] []
      wI hnegI (List.length_filter_le _ _)
      (by show ((stEnI (stEnH st c) c id).conns c).idTab id = _; rw [hII, filter_nil_dels]; simp) (by simp)
    simp only [filter_nil_dels, List.append_nil] at sp
    have hW1 : walkI beh st c s = gwalk beh (cfgI c s id neg) st.cnt st.now [] (enableAll ((st.conns c).idTab id)) := by
      simp [walkI, hs, hneg]
    have hsdI : selfDelI beh st c s ↔ SelfDelete (cfgI c s id neg) (walkI beh st c s) := by
      simp [selfDelI, hs, hneg]
    revert sp
    generalize gloop beh (cfgI c s id neg) (enableAll ((st.conns c).idTab id)).length (stEnI (stEnH st c) c id)
      (enableAll ((st.conns c).idTab id)) = res
    intro sp
    cases res with
    | error e =>
      cases e with
      | stale => exact Or.inl (hsdI.mpr (hW1 ▸ sp))
      | fuel => exact sp
    | ok st1 =>
      obtain ⟨rlog, rcnt, rnow, rwf, rinv, rnu, rsd, rother⟩ := sp
      have sp1cnt : (stEnI (stEnH st c) c id).cnt = st.cnt := rfl
      have sp1now : (stEnI (stEnH st c) c id).now = st.now := rfl
      have sp1log : (stEnI (stEnH st c) c id).log = st.log := rfl
      have sp1nu : (stEnI (stEnH st c) c id).nextUid = st.nextUid := rfl
      rw [sp1cnt, sp1now, ← hW1] at rcnt rnow rlog rsd
      rw [sp1log] at rlog
      rw [sp1nu] at rnu
      have evo := rother (cfgH c s neg) (cfgH_ok c s neg) (indep_I_H c s id neg)
      rw [sp1cnt, sp1now, ← hW1] at evo
      obtain ⟨pre, post, hget1, _, _, hback⟩ := evo
      obtain ⟨hpre, hpost⟩ := hback rfl
      subst hpre
      have hget1' : (st1.conns c).handlers =
          (hSnap st c).filter (fun x => decide (x.fn ∉ Cfg.delsOf (cfgH c s neg) (actsOf (walkI beh st c s)))) ++ post := by
        have : (cfgH c s neg).get st1 = (st1.conns c).handlers := rfl
        rw [← this, hget1]
        simp [cfgH, hHI]
      show FirePost beh st c s (stanzaLoop beh c s (st1.conns c).handlers.length st1 (st1.conns c).handlers)
      rw [stanzaLoop_eq beh c s neg _ _ _ rinv, hget1']
      have sp2 := gloop_spec beh (cfgH_ok c s neg) (hSnap st c)
        ((hSnap st c).filter (fun x => decide (x.fn ∉ Cfg.delsOf (cfgH c s neg) (actsOf (walkI beh st c s)))) ++ post).length
        st1 [] post (Cfg.delsOf (cfgH c s neg) (actsOf (walkI beh st c s))) rwf rinv
        (by simp) (by simpa [cfgH] using hget1') hpost
      rw [rcnt, rnow] at sp2
      have hW2 : walkH beh st c s = gwalk beh (cfgH c s neg) (cntAfter st.cnt (walkI beh st c s))
          (nowAfter st.now (walkI beh st c s)) (Cfg.delsOf (cfgH c s neg) (actsOf (walkI beh st c s))) (hSnap st c) := by
        simp [walkH, hneg]
      rw [← hW2] at sp2
      revert sp2
      generalize gloop beh (cfgH c s neg) _ st1 _ = res2
      intro sp2
      cases res2 with
      | ok st' =>
        obtain ⟨qlog, qcnt, _, qwf, _, qnu, qsd, _⟩ := sp2
        refine ⟨?_, qwf, Nat.le_trans rnu qnu, ?_, ?_, ?_⟩
        · rw [qlog, rlog, List.map_append, List.append_assoc]; rfl
        · rw [hsdI]; exact rsd
        · rw [selfDelH, hneg]; exact qsd
        · rw [qcnt, rcnt, cntAfter_append]
      | error e =>
        cases e with
        | stale => exact Or.inr (by rw [selfDelH, hneg]; exact sp2)
        | fuel => exact sp2

/-! ### facts about the pass -/

theorem gwalk_mem (beh : Beh) (L : Cfg) :
    ∀ (cands : List Item) (cnt : Key → Nat) (now : Nat) (D : List Nat) (f : Fired),
      f ∈ gwalk beh L cnt now D cands →
      f.item ∈ cands ∧ (∃ n, f.step = beh f.item.key n) ∧ L.pred f.time f.item = true ∧ now ≤ f.time := by
  intro cands
  induction cands with
  | nil => intro cnt now D f h; cases h
  | cons it rest ih =>
    intro cnt now D f h
    by_cases hc : it.fn ∈ D ∨ L.pred now it = false
    · rw [gwalk_skip _ _ _ _ _ _ _ hc] at h
      obtain ⟨h1, h2, h3, h4⟩ := ih _ _ _ _ h
      exact ⟨List.mem_cons_of_mem _ h1, h2, h3, h4⟩
    · have h1 : it.fn ∉ D := fun h' => hc (Or.inl h')
      have h2 : L.pred now it = true := by
        cases hp : L.pred now it with
        | true => rfl
        | false => exact absurd (Or.inr hp) hc
      rw [gwalk_fire _ _ _ _ _ _ _ h1 h2] at h
      rcases List.mem_cons.mp h with rfl | h
      · exact ⟨List.mem_cons_self, ⟨_, rfl⟩, h2, Nat.le_refl _⟩
      · obtain ⟨q1, q2, q3, q4⟩ := ih _ _ _ _ h
        exact ⟨List.mem_cons_of_mem _ q1, q2, q3, Nat.le_trans (Nat.le_add_right _ _) q4⟩

theorem mem_enableAll {l : List Item} {x : Item} (h : x ∈ enableAll l) : ∃ y ∈ l, x = { y with enabled := true } := by
  unfold enableAll at h
  obtain ⟨y, hy, rfl⟩ := List.mem_map.mp h
  exact ⟨y, hy, rfl⟩

/-- everything the dispatch invokes was registered (and allocated) before the dispatch started -/
theorem walk_items_old (beh : Beh) (st : St) (c : Nat) (s : Stanza) (w : WF st) :
    ∀ f ∈ walkI beh st c s ++ walkH beh st c s, f.item.uid < st.nextUid := by
  intro f hf
  rcases List.mem_append.mp hf with hf | hf
  · unfold walkI at hf
    cases hs : s.id with
    | none => rw [hs] at hf; cases hf
    | some id =>
      rw [hs] at hf
      obtain ⟨hm, _⟩ := gwalk_mem _ _ _ _ _ _ _ hf
      obtain ⟨y, hy, e⟩ := mem_enableAll hm
      rw [e]; exact (w.i c id).lt y hy
  · unfold walkH hSnap at hf
    obtain ⟨hm, _⟩ := gwalk_mem _ _ _ _ _ _ _ hf
    obtain ⟨y, hy, e⟩ := mem_enableAll hm
    rw [e]; exact (w.h c).lt y hy

/-! ### relation to the specification -/

theorem delsOf_append (L : Cfg) (a b : List Act) : L.delsOf (a ++ b) = L.delsOf a ++ L.delsOf b := by
  simp [Cfg.delsOf]

theorem delsOf_I (c : Nat) (s : Stanza) (id : Str) (neg : Bool) (acts : List Act) :
    (cfgI c s id neg).delsOf acts = deletedId c id acts := by
  induction acts with
  | nil => rfl
  | cons a r ih =>
    have : (cfgI c s id neg).delsOf (a :: r) = delsI c id a ++ (cfgI c s id neg).delsOf r := by
      simp [Cfg.delsOf, cfgI]
    rw [this, ih]
    cases a <;> simp only [delsI, deletedId, List.nil_append]
    split <;> simp

theorem delsOf_H (c : Nat) (s : Stanza) (neg : Bool) (acts : List Act) :
    (cfgH c s neg).delsOf acts = deletedStanza c acts := by
  induction acts with
  | nil => rfl
  | cons a r ih =>
    have : (cfgH c s neg).delsOf (a :: r) = delsH c a ++ (cfgH c s neg).delsOf r := by
      simp [Cfg.delsOf, cfgH]
    rw [this, ih]
    cases a <;> simp only [delsH, deletedStanza, List.nil_append]
    split <;> simp

theorem deletedId_append (c : Nat) (id : Str) (a b : List Act) :
    deletedId c id (a ++ b) = deletedId c id a ++ deletedId c id b := by
  rw [← delsOf_I c default id true, delsOf_append, delsOf_I, delsOf_I]

theorem deletedStanza_append (c : Nat) (a b : List Act) :
    deletedStanza c (a ++ b) = deletedStanza c a ++ deletedStanza c b := by
  rw [← delsOf_H c default true, delsOf_append, delsOf_H, delsOf_H]

def callOf (ph : Phase) (f : Fired) : Call :=
  { phase := ph, reg := f.item.uid, key := f.item.key, ret := f.step.keep }

theorem gateOpen_enabled_iff (neg : Bool) (it : Item) :
    gateOpen neg { it with enabled := true } = true ↔ (it.user = true → neg = true) := by
  unfold gateOpen
  cases it.user <;> cases neg <;> simp

theorem actsOf_append (w1 w2 : List Fired) : actsOf (w1 ++ w2) = actsOf w1 ++ actsOf w2 := by
  simp [actsOf]

theorem fold_id (beh : Beh) (c : Nat) (neg : Bool) (s : Stanza) (id : Str) (hs : s.id = some id) :
    ∀ (cands : List Item) (a : Acc) (now : Nat),
      (cands.map (fun it => (Phase.id, it))).foldl (turn beh c neg s) a =
        { cnt := cntAfter a.cnt (gwalk beh (cfgI c s id neg) a.cnt now a.delI (enableAll cands)),
          delI := a.delI ++ deletedId c id (actsOf (gwalk beh (cfgI c s id neg) a.cnt now a.delI (enableAll cands))),
          delS := a.delS ++ deletedStanza c (actsOf (gwalk beh (cfgI c s id neg) a.cnt now a.delI (enableAll cands))),
          out := a.out ++ (gwalk beh (cfgI c s id neg) a.cnt now a.delI (enableAll cands)).map (callOf .id) } := by
  intro cands
  induction cands with
  | nil => intro a now; simp [enableAll, gwalk_nil, cntAfter, actsOf, deletedId, deletedStanza]
  | cons it rest ih =>
    intro a now
    have hen : enableAll (it :: rest) = { it with enabled := true } :: enableAll rest := rfl
    rw [List.map_cons, List.foldl_cons, hen]
    by_cases he : eligible neg s a .id it
    · have h1 : ({ it with enabled := true } : Item).fn ∉ a.delI := he.1
      have h2 : (cfgI c s id neg).pred now { it with enabled := true } = true :=
        (gateOpen_enabled_iff neg it).mpr he.2
      rw [gwalk_fire _ _ _ _ _ _ _ h1 h2]
      have ht : turn beh c neg s a (Phase.id, it) =
          { cnt := bump a.cnt it.key,
            delI := a.delI ++ deletedId c id (beh it.key (a.cnt it.key)).acts,
            delS := a.delS ++ deletedStanza c (beh it.key (a.cnt it.key)).acts,
            out := a.out ++ [{ phase := .id, reg := it.uid, key := it.key, ret := (beh it.key (a.cnt it.key)).keep }] } := by
        simp only [turn, he, if_true, hs]
      rw [ht, ih _ (now + ticks (beh it.key (a.cnt it.key)).acts)]
      have hk : ({ it with enabled := true } : Item).key = it.key := rfl
      simp only [hk, delsOf_I, cntAfter_cons, actsOf_cons, List.map_cons, List.append_assoc, List.cons_append,
        List.nil_append, callOf, deletedId_append, deletedStanza_append]
    · have hc : ({ it with enabled := true } : Item).fn ∈ a.delI ∨
          (cfgI c s id neg).pred now { it with enabled := true } = false := by
        by_cases h1 : it.fn ∈ a.delI
        · exact Or.inl h1
        · right
          cases hp : (cfgI c s id neg).pred now { it with enabled := true } with
          | false => rfl
          | true => exact absurd ⟨h1, (gateOpen_enabled_iff neg it).mp hp⟩ he
      rw [gwalk_skip _ _ _ _ _ _ _ hc]
      have ht : turn beh c neg s a (Phase.id, it) = a := by simp only [turn, he, if_false]
      rw [ht, ih a now]

theorem fold_stanza (beh : Beh) (c : Nat) (neg : Bool) (s : Stanza) :
    ∀ (cands : List Item) (a : Acc) (now : Nat),
      ((cands.map (fun it => (Phase.stanza, it))).foldl (turn beh c neg s) a).out =
        a.out ++ (gwalk beh (cfgH c s neg) a.cnt now a.delS (enableAll cands)).map (callOf .stanza) := by
  intro cands
  induction cands with
  | nil => intro a now; simp [enableAll, gwalk_nil]
  | cons it rest ih =>
    intro a now
    have hen : enableAll (it :: rest) = { it with enabled := true } :: enableAll rest := rfl
    rw [List.map_cons, List.foldl_cons, hen]
    have hpred : (cfgH c s neg).pred now { it with enabled := true } = true ↔
        ((it.user = true → neg = true) ∧ Matches it.flt s) := by
      show (gateOpen neg { it with enabled := true } && matchesC it.flt s) = true ↔ _
      rw [Bool.and_eq_true, gateOpen_enabled_iff, matchesC_iff]
    by_cases he : eligible neg s a .stanza it
    · have h1 : ({ it with enabled := true } : Item).fn ∉ a.delS := he.1.1
      have h2 := hpred.mpr ⟨he.2, he.1.2⟩
      rw [gwalk_fire _ _ _ _ _ _ _ h1 h2]
      have ht : turn beh c neg s a (Phase.stanza, it) =
          { cnt := bump a.cnt it.key,
            delI := a.delI ++ (match s.id with | some id => deletedId c id (beh it.key (a.cnt it.key)).acts | none => []),
            delS := a.delS ++ deletedStanza c (beh it.key (a.cnt it.key)).acts,
            out := a.out ++ [{ phase := .stanza, reg := it.uid, key := it.key, ret := (beh it.key (a.cnt it.key)).keep }] } := by
        unfold turn; rw [if_pos he]; rfl
      rw [ht, ih _ (now + ticks (beh it.key (a.cnt it.key)).acts)]
      have hk : ({ it with enabled := true } : Item).key = it.key := rfl
      simp only [hk, delsOf_H, List.map_cons, List.append_assoc, List.cons_append, List.nil_append, callOf]
    · have hc : ({ it with enabled := true } : Item).fn ∈ a.delS ∨
          (cfgH c s neg).pred now { it with enabled := true } = false := by
        by_cases h1 : it.fn ∈ a.delS
        · exact Or.inl h1
        · right
          cases hp : (cfgH c s neg).pred now { it with enabled := true } with
          | false => rfl
          | true =>
            have := hpred.mp hp
            exact absurd ⟨⟨h1, this.2⟩, this.1⟩ he
      rw [gwalk_skip _ _ _ _ _ _ _ hc]
      have ht : turn beh c neg s a (Phase.stanza, it) = a := by simp only [turn, he, if_false]
      rw [ht, ih a now]

/-- the handlers registered for the stanza's id when the dispatch starts -/
def idRegistered (st : St) (c : Nat) (s : Stanza) : List Item :=
  match s.id with
  | some id => (st.conns c).idTab id
  | none => []

theorem expected_eq (beh : Beh) (st : St) (c : Nat) (s : Stanza) :
    expected beh c (st.conns c).negotiated s st.cnt (idRegistered st c s) (st.conns c).handlers =
      (walkI beh st c s).map (callOf .id) ++ (walkH beh st c s).map (callOf .stanza) := by
  unfold expected candidates
  rw [List.foldl_append]
  cases hs : s.id with
  | none =>
    have h1 : idRegistered st c s = [] := by simp [idRegistered, hs]
    have h2 : walkI beh st c s = [] := by simp [walkI, hs]
    rw [h1, List.map_nil, List.foldl_nil, fold_stanza _ _ _ _ _ _ st.now]
    simp [walkH, h2, hSnap, cntAfter, nowAfter, actsOf, Cfg.delsOf]
  | some id =>
    have h1 : idRegistered st c s = (st.conns c).idTab id := by simp [idRegistered, hs]
    have h2 : walkI beh st c s =
        gwalk beh (cfgI c s id (st.conns c).negotiated) st.cnt st.now [] (enableAll ((st.conns c).idTab id)) := by
      simp [walkI, hs]
    rw [h1, fold_id beh c _ s id hs _ _ st.now, fold_stanza _ _ _ _ _ _ (nowAfter st.now (walkI beh st c s))]
    simp only [List.nil_append, ← h2]
    rw [← delsOf_H c s (st.conns c).negotiated]
    rfl

end Strophe.Lemmas.Handler
