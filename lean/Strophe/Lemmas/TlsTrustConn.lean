/-
C08 ↔ the connection machine (Model/Conn.lean): `Strophe.Conn.connTlsStart` takes the outcome of the
TLS start as two scripted bits (`tlsNewFail`, `tlsStartFail`); the C08 model computes them from the
policy, the certfail handler and what OpenSSL reports.  The transition is the same one.
-/
import Strophe.Model.Conn
import Strophe.Lemmas.TlsTrust

namespace Strophe.Lemmas.TlsTrustConn
open Strophe Strophe.Spec.OpenSsl

/-- the fields both models have -/
def Rel (k : Strophe.Conn.Conn) (c : TlsTrust.Conn) : Prop :=
  k.tlsDisabled = c.policy.disabled ∧ k.hasTls = c.hasTls ∧ k.secured = c.secured ∧
  k.tlsFailed = c.tlsFailed

/-- feeding the Conn machine with the bits the C08 model computes makes both take the same
    `conn_tls_start` transition: same success, same `secured` / `tls_failed` / `tls` fields, same
    answer of xmpp_conn_is_secured -/
theorem connTlsStart_agrees (E : Engine) (k : Strophe.Conn.Conn) (c : TlsTrust.Conn) (h : Rel k c)
    (hn : k.tlsNewFail = !E.newOk) (hs : k.tlsStartFail = !(TlsTrust.tlsStart E c.policy).ok) :
    Rel (Strophe.Conn.connTlsStart k).1 (TlsTrust.connTlsStart E c).1 ∧
    ((Strophe.Conn.connTlsStart k).2 = true ↔ (TlsTrust.connTlsStart E c).2 = 0) ∧
    Strophe.Conn.isSecured (Strophe.Conn.connTlsStart k).1 = TlsTrust.isSecured (TlsTrust.connTlsStart E c).1 := by
  obtain ⟨h1, h2, h3, h4⟩ := h
  unfold Strophe.Conn.connTlsStart TlsTrust.connTlsStart Strophe.Conn.isSecured TlsTrust.isSecured Rel
  cases hd : c.policy.disabled <;> cases hno : E.newOk <;> cases ho : (TlsTrust.tlsStart E c.policy).ok <;>
    simp_all [Lemmas.TlsTrust.pin_rc.1, Lemmas.TlsTrust.pin_rc.2.1, Lemmas.TlsTrust.pin_rc.2.2]

end Strophe.Lemmas.TlsTrustConn
