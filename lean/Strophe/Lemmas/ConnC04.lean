/-
Proofs behind Props/C04.lean (XEP-0198 outbound: numbering, retention, release, retransmission).

Where things are:
  ConnC04Base.lean   definitions (`Contig`, `NoWrap`, `smPending`, `hOf`, `carriesH`, `payload`), consecutive numbers
  ConnC04Step.lean   the step-level theorems (`retire_counts`, `ack_releases_exactly`,
                     `resumed_retransmits_exactly`, `failed_keeps_unhandled`, `enabled_resends_all`)
  ConnC04Inv1.lean   `Wr`: what is retained was written under that number
  ConnC04Inv2.lean   `HW`: well-formed handler lists
  ConnC04Inv3.lean   state preservation, quiet/loud stanza names, the branches of `_handle_sm`
  ConnC04Inv4.lean   `B`: disconnected ⇒ stream management off; consecutive numbers unless an answer is pending
  ConnC04Inv5.lean   `Rel`: nothing retained is lost
  ConnC04Inv6–9.lean `Tk`: at most one step of the negotiation is pending, none while stream management is on
  ConnC04Inv10.lean  `QO`: library elements are queued in the XEP-0198 class; only user items are counted
  ConnC04Inv13.lean  `QT`: what is queued stays queued until written, up to the next `_conn_reset` (D52)
  ConnC04Inv11–12.lean `Rs`: `_sm_enable` is not reached while a session id is held or a resumption is possible
-/
import Strophe.Lemmas.ConnC04Inv1
import Strophe.Lemmas.ConnC04Inv12
import Strophe.Lemmas.ConnC04Inv13

namespace Strophe.Lemmas.ConnC04
open Strophe Strophe.Conn

/-! ### numbering -/

/-- only what the user submitted is ever numbered: no negotiation element, `<r/>`, `<a/>`, stream
    error or stream header/trailer is counted (the server does not count them either) -/
theorem only_user_stanzas_numbered (jid pass : Option Bytes) (cert : Bool) (flags : Nat)
    (ops : List Op) (hu : userOps ops) :
    ∀ r ∈ (exec (fresh jid pass cert flags) ops).tx, r.smNum.isSome = true → r.item.isUserItem = true :=
  (TJ_reach jid pass cert flags ops hu).2.t

/-- what is retained is what the user submitted (in particular no `<r/>`: the hypothesis `hq` of
    `resumed_retransmits_exactly` and `enabled_resends_all` holds in every reachable state) -/
theorem retained_are_user_items (jid pass : Option Bytes) (cert : Bool) (flags : Nat)
    (ops : List Op) (hu : userOps ops) :
    ∀ x ∈ (exec (fresh jid pass cert flags) ops).sm.queue, x.2.item.isUserItem = true :=
  (TJ_reach jid pass cert flags ops hu).2.s

theorem retained_are_no_requests (jid pass : Option Bytes) (cert : Bool) (flags : Nat)
    (ops : List Op) (hu : userOps ops) :
    ∀ x ∈ (exec (fresh jid pass cert flags) ops).sm.queue, x.2.item ≠ .req := by
  intro x hx he
  have := retained_are_user_items jid pass cert flags ops hu x hx
  rw [he] at this; cases this

/-- on a session whose `<enable/>` / `<resume/>` has been answered, the retained numbers are
    consecutive and end at `sentNr - 1` -/
theorem contiguous_numbers (jid pass : Option Bytes) (cert : Bool) (flags : Nat) (ops : List Op) :
    let c := exec (fresh jid pass cert flags) ops
    c.sm.enabled = true → smPending c = false → Contig c.sm :=
  fun he hp => (K_reach jid pass cert flags ops).2.contig he hp

/-- … and also while a session id is held or a resumable session waits for its resumption
    (disconnected, reconnecting, `<resume/>` sent).

    First formulation: `(c.sm.id.isSome ∨ c.sm.previd.isSome) → Contig c.sm`.  That is false: a previous
    id alone does not make the session resumable.  `_handle_features_sasl` resumes only if it also
    holds the bound JID of the old session (auth.c: `can_resume && previd && bound_jid`); otherwise it
    binds again and `_sm_enable` restarts the numbering at 0 while the stale `previd` and the old
    retained elements stay (they are all sent again when `<enabled/>` arrives, `enabled_resends_all`).
    Counterexample: `Props/C04.lean`, `stale_previd_not_resumable`. -/
theorem contiguous_while_resumable (jid pass : Option Bytes) (cert : Bool) (flags : Nat) (ops : List Op) :
    let c := exec (fresh jid pass cert flags) ops
    (c.sm.id.isSome = true ∨ (c.sm.previd.isSome = true ∧ c.sm.boundJid.isSome = true)) → Contig c.sm :=
  fun hz => (TZ_reach jid pass cert flags ops).2.rz hz

/-! ### retention -/

/-- every retained element was written to the server under exactly that number -/
theorem retained_were_written (jid pass : Option Bytes) (cert : Bool) (flags : Nat) (ops : List Op) :
    ∀ x ∈ (exec (fresh jid pass cert flags) ops).sm.queue,
      ∃ r ∈ (exec (fresh jid pass cert flags) ops).tx, r.smNum = some x.1 ∧ r.item = x.2.item :=
  Wr_reach jid pass cert flags ops

/-- NOTHING IS LOST: a retained element leaves the retained queue only because the server reported a
    count `h` beyond its number (in `<a/>`, `<resumed/>` or `<failed/>`), or because it was put back
    into the send queue for retransmission; true of every reachable state and every operation except
    the release of the connection object.

    First formulation: for ARBITRARY `c` (with a fourth alternative "written in this step", which never
    occurs).  That is false of two kinds of unreachable states: no XEP-0198 record yet (`hasSm = false`)
    but a non-empty retained queue, and a `_handle_features` handler registered without its name
    filter next to the pending XEP-0198 handler (it disconnects in the middle of the dispatch of
    `<resumed/>`, after which `_sm_queue_resend` drops everything).  `retained_only_released_by_h_step`
    is the step-level form under the well-formedness hypotheses that exclude them.

    KNOWN FINDING D52 lives in the third alternative: an element put back into the send queue is no
    longer retained, and the send queue is emptied by `_conn_reset` at the next connect.  "An
    unacknowledged written stanza is always retained or queued for retransmission" therefore holds
    only up to the next `connReset` (witness: `Props/C04.lean`, `resend_lost_on_second_loss`). -/
theorem retained_only_released_by_h (jid pass : Option Bytes) (cert : Bool) (flags : Nat) (ops : List Op)
    (op : Op) (x : UInt32 × QElem) :
    let c := exec (fresh jid pass cert flags) ops
    x ∈ c.sm.queue → (match op with | .release => False | _ => True) →
    x ∈ (step c op).sm.queue ∨
    (∃ hv, carriesH op hv ∧ x.1.toNat < hv) ∨
    (∃ e ∈ (step c op).queue, e.item = x.2.item ∧ e.owner = x.2.owner ∧ e.snap = x.2.snap) := by
  intro c hx hop
  have hk := K_reach jid pass cert flags ops
  have hsm : c.hasSm = true := by
    cases h : c.hasSm with
    | true => rfl
    | false =>
      have := (hk.2.hs h).1
      rw [show c.sm.queue = [] from this] at hx
      cases hx
  exact released_step c hk.1 hsm op x hx hop

theorem retained_only_released_by_h_step (c : Conn) (hw : HW c) (hsm : c.hasSm = true) (op : Op)
    (x : UInt32 × QElem) (hx : x ∈ c.sm.queue) (hop : match op with | .release => False | _ => True) :
    x ∈ (step c op).sm.queue ∨
    (∃ hv, carriesH op hv ∧ x.1.toNat < hv) ∨
    (∃ e ∈ (step c op).queue, e.item = x.2.item ∧ e.owner = x.2.owner ∧ e.snap = x.2.snap) :=
  released_step c hw hsm op x hx hop

/-- the well-formedness hypothesis of the step-level form holds in every reachable state -/
theorem handlers_well_formed (jid pass : Option Bytes) (cert : Bool) (flags : Nat) (ops : List Op) :
    HW (exec (fresh jid pass cert flags) ops) :=
  HW_reach jid pass cert flags ops

end Strophe.Lemmas.ConnC04
