/-
Proofs behind Props/C04.lean (XEP-0198 outbound: numbering, retention, release, retransmission).
-/
import Strophe.Model.ConnOps

namespace Strophe.Lemmas.ConnC04
open Strophe Strophe.Conn

/-- the retained numbers are consecutive (mod 2^32) and end just below the next number to assign -/
def Contig (s : SmState) : Prop :=
  ∀ i (h : i < s.queue.length), (s.queue[i]).1 + UInt32.ofNat (s.queue.length - i) = s.sentNr

/-- no wrap-around inside the retained window (numbers can then be compared as naturals) -/
def NoWrap (s : SmState) : Prop := s.queue.length ≤ s.sentNr.toNat

/-- the XEP-0198 handler is waiting for the answer to `<enable/>` / `<resume/>` -/
def smPending (c : Conn) : Bool := c.handlers.any fun h => h.fn = .sys .sm

/-- the `h` the model reads off an SM element (`strtoul`; unusable text counts as "everything") -/
def hOf (st : XTree) : Option Nat :=
  (st.attr (b "h")).map fun hs => let (v, bad) := stringToUl hs; if bad then 2 ^ 64 - 1 else v

/-- an SM element carrying `h = hv` is among the parser events of this loop iteration -/
def carriesH (op : Op) (hv : Nat) : Prop :=
  ∃ evs st, op = .run (.data evs) ∧ PEv.stanza st ∈ evs ∧ hOf st = some hv

/-! ### numbering -/

/-- bookkeeping for one completely written element: counted iff SM is enabled and the element is
    not of the SM class; then it is retained under the current number and the number advances -/
theorem retire_counts (c : Conn) (e : QElem) :
    let c' := retire c e
    (∃ r, c'.tx = c.tx ++ [r] ∧ r.item = e.item ∧ r.owner = e.owner ∧
          r.smNum = if !e.owner.smBit && c.sm.enabled then some c.sm.sentNr else none) ∧
    (if !e.owner.smBit && c.sm.enabled then
       c'.sm.queue = c.sm.queue ++ [(c.sm.sentNr, e)] ∧ c'.sm.sentNr = c.sm.sentNr + 1
     else c'.sm.queue = c.sm.queue ∧ c'.sm.sentNr = c.sm.sentNr) := by
  sorry

/-- only what the user submitted is ever numbered: no negotiation element, `<r/>`, `<a/>`, stream
    error or stream header/trailer is counted (the server does not count them either) -/
theorem only_user_stanzas_numbered (jid pass : Option Bytes) (cert : Bool) (flags : Nat)
    (ops : List Op) (hu : userOps ops) :
    ∀ r ∈ (exec (fresh jid pass cert flags) ops).tx, r.smNum.isSome = true → r.item.isUserItem = true := by
  sorry

/-- on a session whose `<enable/>` / `<resume/>` has been answered, the retained numbers are
    consecutive and end at `sentNr - 1` -/
theorem contiguous_numbers (jid pass : Option Bytes) (cert : Bool) (flags : Nat) (ops : List Op) :
    let c := exec (fresh jid pass cert flags) ops
    c.sm.enabled = true → smPending c = false → Contig c.sm := by
  sorry

/-- … and also while a resumable session waits for its resumption (disconnected, reconnecting,
    `<resume/>` sent) -/
theorem contiguous_while_resumable (jid pass : Option Bytes) (cert : Bool) (flags : Nat) (ops : List Op) :
    let c := exec (fresh jid pass cert flags) ops
    (c.sm.id.isSome = true ∨ c.sm.previd.isSome = true) → Contig c.sm := by
  sorry

/-! ### retention -/

/-- every retained element was written to the server under exactly that number -/
theorem retained_were_written (jid pass : Option Bytes) (cert : Bool) (flags : Nat) (ops : List Op) :
    ∀ x ∈ (exec (fresh jid pass cert flags) ops).sm.queue,
      ∃ r ∈ (exec (fresh jid pass cert flags) ops).tx, r.smNum = some x.1 ∧ r.item = x.2.item := by
  sorry

/-- NOTHING IS LOST: a retained element leaves the retained queue only because the server reported a
    count `h` beyond its number (in `<a/>`, `<resumed/>` or `<failed/>`), or because it was put back
    into the send queue for retransmission; true of every state and every operation except the
    release of the connection object -/
theorem retained_only_released_by_h (c : Conn) (op : Op)
    (x : UInt32 × QElem) (hx : x ∈ c.sm.queue) (hop : match op with | .release => False | _ => True) :
    x ∈ (step c op).sm.queue ∨
    (∃ hv, carriesH op hv ∧ x.1.toNat < hv) ∨
    (∃ e ∈ (step c op).queue, e.item = x.2.item ∧ e.owner = x.2.owner ∧ e.snap = x.2.snap) ∨
    (∃ r ∈ ((step c op).tx.drop c.tx.length), r.item = x.2.item ∧ r.owner = x.2.owner) := by
  sorry

/-! ### release by acknowledgement -/

/-- `<a h='v'/>` releases exactly the retained elements numbered below `v` and nothing newer -/
theorem ack_releases_exactly (c : Conn) (st : XTree) (v : Nat)
    (hns : st.ns? = some Gen.nsSm) (hname : st.name? = some (b "a"))
    (hh : (st.attr (b "h")).map stringToUl = some (v, false))
    (hc : Contig c.sm) (hw : NoWrap c.sm) :
    (smHandleStanza c st).sm.queue = c.sm.queue.filter (fun e => v ≤ e.1.toNat) ∧
    (smHandleStanza c st).sm.sentNr = c.sm.sentNr ∧
    (smHandleStanza c st).queue = c.queue := by
  sorry

/-! ### resumption -/

/-- items of the send queue other than the ack requests the library interleaves -/
def payload (q : List QElem) : List Item := (q.map (·.item)).filter (· ≠ .req)

/-- `<resumed h='v'/>` answering our `<resume/>` with an `h` the server can have counted: exactly the
    retained elements numbered `v` and above are put back into the send queue, once, in their
    original order, behind whatever the library itself had queued; the counter continues at `v`;
    only then is the application told that the connection is up -/
theorem resumed_retransmits_exactly (c : Conn) (st : XTree) (ours : Bytes) (v : Nat)
    (hname : st.name? = some (b "resumed")) (hp : c.sm.previd = some ours)
    (hpv : st.attr (b "previd") = some ours) (hh : getH st = some v)
    (hstate : c.state = .connected) (hc : Contig c.sm) (hw : NoWrap c.sm)
    (hhonest : c.sm.sentNr.toNat - c.sm.queue.length ≤ v ∧ v ≤ c.sm.sentNr.toNat) :
    let c' := handleSm c st
    payload c'.queue = payload c.queue ++ ((c.sm.queue.filter (fun e => v ≤ e.1.toNat)).map (·.2.item)) ∧
    c'.sm.queue = [] ∧ c'.sm.sentNr = UInt32.ofNat v ∧ c'.sm.enabled = true ∧
    (∃ g, c'.evs = c.evs ++ [(g, Ev.connect)]) := by
  sorry

/-- failed resumption (`item-not-found`): what the server reports as handled is dropped, everything
    else stays retained -/
theorem failed_keeps_unhandled (c : Conn) (st cause : XTree)
    (hname : st.name? = some (b "failed")) (hcause : st.childByNs Gen.nsStanzasIetf = some cause)
    (hinf : cause.name? = some (b "item-not-found")) (hres : c.sm.resume = true) :
    (handleSm c st).sm.queue = smQueueCleanup c.sm.queue ((getH st).getD 0) := by
  sorry

/-- … and is sent again, first and in order, as soon as the new session's `<enabled/>` arrives -/
theorem enabled_resends_all (c : Conn) (st : XTree)
    (hname : st.name? = some (b "enabled")) (hen : c.sm.enabled = true) (hstate : c.state = .connected)
    (hid : (st.attr (b "resume")).isSome = true → (st.attr (b "id")).isSome = true) :
    let c' := handleSm c st
    payload c'.queue = payload c.queue ++ c.sm.queue.map (·.2.item) ∧ c'.sm.queue = [] ∧
    c'.sm.sentNr = c.sm.sentNr := by
  sorry

end Strophe.Lemmas.ConnC04
