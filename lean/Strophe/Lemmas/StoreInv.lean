/-
The ownership invariant of `Model/Store.lean`.

Ghost structure (proof-only, never executed): `G.kids p` is the list of children of `p` — the heap's
`children` / `next` pointers must spell exactly this list (`Chain`) — and `G.rank` decreases from parent to
child (no cycles).  `hold x` is the number of references to `x` held by the caller (handle slots, local
variables of a library function in progress).  `InvP` says the heap is a forest of live nodes in which

  ref x = [x has a parent] + hold x + pend x,        and  ref x ≥ 1,

a stanza without parent has `next = NULL` and `parent = NULL`, a child's `parent` is its parent, and every
held stanza is live.  `pend` / `Z` describe an xmpp_stanza_release in progress (references owned by the
cascade, stanzas already past the point of no return); outside of it they are `0` / `[]` (`Inv`).
-/
import Strophe.Lemmas.StoreBasic

namespace Strophe.Store
open Strophe Strophe.Stanza

structure Ghost where
  kids : Nat → List Nat
  rank : Nat → Nat

/-- the `next` chain starting at `start` is exactly the list, and all its nodes are live -/
def Chain (m : Mem) : Option Nat → List Nat → Prop
  | start, [] => start = none
  | start, a :: l => start = some a ∧ (m.get a).live = true ∧ Chain m (m.get a).next l

def HasPar (G : Ghost) (x : Nat) : Prop := ∃ p, x ∈ G.kids p

open Classical in
/-- the reference a parent holds -/
noncomputable def hpN (G : Ghost) (x : Nat) : Nat := if HasPar G x then 1 else 0

theorem hpN_of {G : Ghost} {x : Nat} (h : HasPar G x) : hpN G x = 1 := by simp [hpN, h]
theorem hpN_not {G : Ghost} {x : Nat} (h : ¬ HasPar G x) : hpN G x = 0 := by simp [hpN, h]

structure InvP (m : Mem) (G : Ghost) (hold pend : Nat → Nat) (Z : List Nat) : Prop where
  chain : ∀ p, (m.get p).live = true → p ∉ Z → Chain m (m.get p).children (G.kids p)
  nokids : ∀ p, ((m.get p).live = false ∨ p ∈ Z) → G.kids p = []
  kid : ∀ p c, c ∈ G.kids p → (m.get c).live = true ∧ c ∉ Z ∧ (m.get c).parent = some p
  nodup : ∀ p, (G.kids p).Nodup
  uniq : ∀ p q c, c ∈ G.kids p → c ∈ G.kids q → p = q
  rank : ∀ p c, c ∈ G.kids p → G.rank c < G.rank p
  ref : ∀ x, (m.get x).live = true → x ∉ Z →
    (m.get x).ref = hpN G x + hold x + pend x ∧ 1 ≤ (m.get x).ref
  root : ∀ x, (m.get x).live = true → x ∉ Z → ¬ HasPar G x → pend x = 0 →
    (m.get x).next = none ∧ (m.get x).parent = none
  held : ∀ x, 0 < hold x + pend x → (m.get x).live = true ∧ x ∉ Z
  pendRoot : ∀ x, 0 < pend x → ¬ HasPar G x

/-- no release in progress -/
def Inv (m : Mem) (G : Ghost) (hold : Nat → Nat) : Prop := InvP m G hold (fun _ => 0) []

/-! ### chains -/

theorem Chain.nil_iff {m : Mem} {s : Option Nat} : Chain m s [] ↔ s = none := Iff.rfl

theorem Chain.of_none {m : Mem} {l : List Nat} (h : Chain m none l) : l = [] := by
  cases l with
  | nil => rfl
  | cons a l => simp [Chain] at h

theorem Chain.head {m : Mem} {a : Nat} {l : List Nat} (h : Chain m (some a) l) : ∃ l', l = a :: l' := by
  cases l with
  | nil => simp [Chain] at h
  | cons b l' => simp only [Chain] at h; cases h.1; exact ⟨l', rfl⟩

/-- only `live` and `next` of the listed nodes matter -/
theorem Chain.congr {m m' : Mem} : ∀ {l : List Nat} {s : Option Nat}, Chain m s l →
    (∀ a ∈ l, (m'.get a).live = (m.get a).live ∧ (m'.get a).next = (m.get a).next) → Chain m' s l
  | [], _, h, _ => h
  | a :: l, s, h, hf => by
    simp only [Chain] at h ⊢
    have ha := hf a (by simp)
    refine ⟨h.1, by rw [ha.1]; exact h.2.1, ?_⟩
    rw [ha.2]
    exact Chain.congr h.2.2 (fun b hb => hf b (by simp [hb]))

theorem Chain.live {m : Mem} : ∀ {l : List Nat} {s : Option Nat}, Chain m s l → ∀ a ∈ l, (m.get a).live = true
  | [], _, _, a, ha => by simp at ha
  | b :: l, s, h, a, ha => by
    simp only [Chain] at h
    simp only [List.mem_cons] at ha
    rcases ha with rfl | ha
    · exact h.2.1
    · exact Chain.live h.2.2 a ha

/-- appending `c` behind a non-empty chain whose last node gets `next = c` -/
theorem Chain.snoc {m m' : Mem} {c : Nat} : ∀ {l : List Nat} {s : Option Nat}, Chain m s l → l ≠ [] →
    c ∉ l → l.Nodup →
    (∀ a ∈ l, (m'.get a).live = (m.get a).live) →
    (∀ a ∈ l, a ≠ l.getLast! → (m'.get a).next = (m.get a).next) →
    (m'.get l.getLast!).next = some c → (m'.get c).live = true → (m'.get c).next = none →
    Chain m' s (l ++ [c])
  | [], _, _, hne, _, _, _, _, _, _, _ => absurd rfl hne
  | [a], s, h, _, _, _, hl, _, hlast, hc, hcn => by
    simp only [Chain] at h
    simp only [List.getLast!, List.getLast] at hlast
    simp only [List.cons_append, List.nil_append, Chain]
    refine ⟨h.1, ?_, ?_, hc, hcn⟩
    · rw [hl a (by simp)]; exact h.2.1
    · exact hlast
  | a :: b :: l, s, h, _, hcl, hnd, hl, hn, hlast, hc, hcn => by
    simp only [Chain] at h
    have hlast' : (a :: b :: l).getLast! = (b :: l).getLast! := by simp [List.getLast!, List.getLast]
    have hab : a ≠ (b :: l).getLast! := by
      intro heq
      have hmem : (b :: l).getLast! ∈ b :: l := by
        simp only [List.getLast!]
        exact List.getLast_mem _
      rw [← heq] at hmem
      exact (List.nodup_cons.mp hnd).1 hmem
    simp only [List.cons_append, Chain]
    refine ⟨h.1, ?_, ?_⟩
    · rw [hl a (by simp)]; exact h.2.1
    · rw [hn a (by simp) (by rw [hlast']; exact hab)]
      have := Chain.snoc (m := m) (m' := m') (c := c) (l := b :: l) (s := (m.get a).next)
        (by simpa [Chain] using h.2.2) (by simp)
        (fun hm => hcl (by simp at hm ⊢; right; exact hm)) (List.nodup_cons.mp hnd).2
        (fun x hx => hl x (by simp at hx ⊢; right; exact hx))
        (fun x hx hne => hn x (by simp at hx ⊢; right; exact hx) (by rw [hlast']; exact hne))
        (by rw [← hlast']; exact hlast) hc hcn
      simpa [Chain] using this

/-! ### descendants -/

/-- `Desc G a x`: `a` is `x` or an ancestor of `x` -/
inductive Desc (G : Ghost) (a : Nat) : Nat → Prop
  | refl : Desc G a a
  | step {q x : Nat} : Desc G a q → x ∈ G.kids q → Desc G a x

theorem Desc.trans {G : Ghost} {a b c : Nat} (h1 : Desc G a b) (h2 : Desc G b c) : Desc G a c := by
  induction h2 with
  | refl => exact h1
  | step _ hx ih => exact Desc.step ih hx

/-- one more generation on top -/
theorem Desc.cons {G : Ghost} {q y x : Nat} (hy : y ∈ G.kids q) (h : Desc G y x) : Desc G q x :=
  Desc.trans (Desc.step Desc.refl hy) h

theorem Desc.hasPar_of_ne {G : Ghost} {a x : Nat} (h : Desc G a x) (hne : x ≠ a) : HasPar G x := by
  cases h with
  | refl => exact absurd rfl hne
  | step _ hx => exact ⟨_, hx⟩

/-! ### a bounded rank: number of nodes of smaller rank -/

def brank (G : Ghost) (n : Nat) (x : Nat) : Nat := ((List.range n).filter fun i => G.rank i < G.rank x).length

theorem filter_length_lt {α} (p q : α → Bool) : ∀ (l : List α) (w : α), (∀ a, p a = true → q a = true) →
    w ∈ l → q w = true → p w = false → (l.filter p).length < (l.filter q).length
  | [], _, _, hw, _, _ => by simp at hw
  | a :: l, w, hpq, hw, hqw, hpw => by
    have hmono : (l.filter p).length ≤ (l.filter q).length := by
      clear hw
      induction l with
      | nil => simp
      | cons b l ih =>
        simp only [List.filter_cons]
        by_cases hb : p b = true
        · simp [hb, hpq b hb]; exact ih
        · by_cases hq : q b = true
          · simp [hb, hq]; omega
          · simp [hb, hq]; exact ih
    simp only [List.mem_cons] at hw
    rcases hw with rfl | hw
    · simp [List.filter_cons, hqw, hpw]; omega
    · have ih := filter_length_lt p q l w hpq hw hqw hpw
      simp only [List.filter_cons]
      by_cases ha : p a = true
      · simp [ha, hpq a ha]; exact ih
      · by_cases hq : q a = true
        · simp [ha, hq]; omega
        · simp [ha, hq]; exact ih

theorem brank_lt {G : Ghost} {n c p : Nat} (hc : c < n) (h : G.rank c < G.rank p) : brank G n c < brank G n p := by
  unfold brank
  apply filter_length_lt _ _ _ c
  · intro a ha; simp at ha ⊢; omega
  · simp [hc]
  · simp [h]
  · simp

theorem brank_le (G : Ghost) (n x : Nat) : brank G n x ≤ n := by
  unfold brank
  have := List.length_filter_le (fun i => decide (G.rank i < G.rank x)) (List.range n)
  simpa using this

/-! ### pigeonhole -/

theorem nodup_length_le : ∀ (n : Nat) (l : List Nat), l.Nodup → (∀ x ∈ l, x < n) → l.length ≤ n
  | 0, l, _, h => by
    cases l with
    | nil => simp
    | cons a l => exact absurd (h a (by simp)) (by omega)
  | n + 1, l, hnd, h => by
    have h1 : (l.erase n).length ≤ n := by
      apply nodup_length_le n
      · exact hnd.erase n
      · intro x hx
        have hx' := List.mem_of_mem_erase hx
        have hne : x ≠ n := by
          intro heq
          subst heq
          exact (List.Nodup.not_mem_erase hnd) hx
        have := h x hx'
        omega
    have h2 : l.length ≤ (l.erase n).length + 1 := by
      by_cases hm : n ∈ l
      · rw [List.length_erase_of_mem hm]; omega
      · rw [List.erase_of_not_mem hm]; omega
    omega


/-! ### consequences and frames of `InvP` -/

def bump (hold : Nat → Nat) (id : Nat) : Nat → Nat := fun x => if x = id then hold x + 1 else hold x
def unbump (hold : Nat → Nat) (id : Nat) : Nat → Nat := fun x => if x = id then hold x - 1 else hold x

/-- the pointer view of a node -/
def PtrEq (a b : Node) : Prop :=
  a.live = b.live ∧ a.ref = b.ref ∧ a.parent = b.parent ∧ a.next = b.next ∧ a.children = b.children

theorem PtrEq.rfl' (a : Node) : PtrEq a a := ⟨rfl, rfl, rfl, rfl, rfl⟩

namespace InvP
variable {m : Mem} {G : Ghost} {hold pend : Nat → Nat} {Z : List Nat}

theorem kid_live (h : InvP m G hold pend Z) {p c : Nat} (hc : c ∈ G.kids p) : (m.get c).live = true :=
  (h.kid p c hc).1

theorem kid_lt (h : InvP m G hold pend Z) {p c : Nat} (hc : c ∈ G.kids p) : c < m.size :=
  Mem.live_lt (h.kid_live hc)

theorem par_live (h : InvP m G hold pend Z) {p c : Nat} (hc : c ∈ G.kids p) : (m.get p).live = true ∧ p ∉ Z := by
  apply Classical.byContradiction
  intro hn
  have : G.kids p = [] := by
    apply h.nokids
    by_cases hl : (m.get p).live = true
    · right
      apply Classical.byContradiction
      intro hz
      exact hn ⟨hl, hz⟩
    · left; simpa using hl
  rw [this] at hc
  simp at hc

theorem kids_length_le (h : InvP m G hold pend Z) (p : Nat) : (G.kids p).length ≤ m.size :=
  nodup_length_le m.size _ (h.nodup p) (fun _ hx => h.kid_lt hx)

theorem not_self_kid (h : InvP m G hold pend Z) (p : Nat) : p ∉ G.kids p := by
  intro hp
  have := h.rank p p hp
  omega

theorem desc_rank (h : InvP m G hold pend Z) {a x : Nat} (hd : Desc G a x) : G.rank x ≤ G.rank a := by
  induction hd with
  | refl => exact Nat.le_refl _
  | step _ hx ih => have := h.rank _ _ hx; omega

theorem desc_live (h : InvP m G hold pend Z) {a x : Nat} (ha : (m.get a).live = true) (hd : Desc G a x) :
    (m.get x).live = true := by
  cases hd with
  | refl => exact ha
  | step _ hx => exact h.kid_live hx

/-- a heap with the same pointer view of every node -/
theorem congr {m' : Mem} (h : InvP m G hold pend Z) (heq : ∀ x, PtrEq (m'.get x) (m.get x)) :
    InvP m' G hold pend Z where
  chain := by
    intro p hl hz
    rw [(heq p).1] at hl
    rw [(heq p).2.2.2.2]
    exact Chain.congr (h.chain p hl hz) (fun a _ => ⟨(heq a).1, (heq a).2.2.2.1⟩)
  nokids := by intro p hp; rw [(heq p).1] at hp; exact h.nokids p hp
  kid := by
    intro p c hc
    have := h.kid p c hc
    rw [(heq c).1, (heq c).2.2.1]
    exact this
  nodup := h.nodup
  uniq := h.uniq
  rank := h.rank
  ref := by intro x hl hz; rw [(heq x).1] at hl; rw [(heq x).2.1]; exact h.ref x hl hz
  root := by
    intro x hl hz hp hpe
    rw [(heq x).1] at hl
    rw [(heq x).2.2.2.1, (heq x).2.2.1]
    exact h.root x hl hz hp hpe
  held := by intro x hx; rw [(heq x).1]; exact h.held x hx
  pendRoot := h.pendRoot

/-- the caller obtains one more reference to the live stanza `s` whose count was raised -/
theorem bump_ref (h : InvP m G hold pend Z) {s : Nat} (hl : (m.get s).live = true) (hz : s ∉ Z) :
    InvP (m.put s { m.get s with ref := (m.get s).ref + 1 }) G (bump hold s) pend Z := by
  have hs := Mem.live_lt hl
  have hg : ∀ x, (m.put s { m.get s with ref := (m.get s).ref + 1 }).get x =
      if x = s then { m.get s with ref := (m.get s).ref + 1 } else m.get x := by
    intro x; rw [Mem.get_put]; by_cases hx : x = s <;> simp [hx, hs]
  constructor
  · intro p hlp hzp
    have hlp' : (m.get p).live = true := by rw [hg] at hlp; split at hlp <;> simp_all
    have hc : ((m.put s { m.get s with ref := (m.get s).ref + 1 }).get p).children = (m.get p).children := by
      rw [hg]; split <;> simp_all
    rw [hc]
    apply Chain.congr (h.chain p hlp' hzp)
    intro a _
    rw [hg]; split <;> simp_all
  · intro p hp
    apply h.nokids p
    rcases hp with hp | hp
    · left; rw [hg] at hp; split at hp <;> simp_all
    · right; exact hp
  · intro p c hc
    have := h.kid p c hc
    rw [hg]; split <;> simp_all
  · exact h.nodup
  · exact h.uniq
  · exact h.rank
  · intro x hlx hzx
    have hlx' : (m.get x).live = true := by rw [hg] at hlx; split at hlx <;> simp_all
    have := h.ref x hlx' hzx
    rw [hg]
    simp only [bump]
    split
    · next hx => subst hx; simp; omega
    · exact this
  · intro x hlx hzx hp hpe
    have hlx' : (m.get x).live = true := by rw [hg] at hlx; split at hlx <;> simp_all
    have := h.root x hlx' hzx hp hpe
    rw [hg]; split <;> simp_all
  · intro x hx
    rw [hg]
    simp only [bump] at hx
    split
    · next hxs => subst hxs; exact ⟨hl, hz⟩
    · next hxs => simp only [hxs, if_false] at hx; exact h.held x hx
  · exact h.pendRoot

/-- a fresh node without links: nobody's child, nobody's parent, one reference held by the caller -/
theorem push (h : InvP m G hold pend Z) {n : Node} (hl : n.live = true) (hr : n.ref = 1)
    (hp : n.parent = none) (hn : n.next = none) (hc : n.children = none) (hz : m.size ∉ Z) :
    InvP (m.push n) G (bump hold m.size) pend Z := by
  have hdead : (m.get m.size).live = false := by rw [Mem.get_of_ge (Nat.le_refl _)]; rfl
  have hk0 : G.kids m.size = [] := h.nokids _ (Or.inl hdead)
  have hnp : ¬ HasPar G m.size := by
    rintro ⟨p, hp'⟩
    have := h.kid_live hp'
    rw [hdead] at this; cases this
  have hh0 : hold m.size + pend m.size = 0 := by
    apply Classical.byContradiction
    intro hne
    have := (h.held m.size (by omega)).1
    rw [hdead] at this; cases this
  have hold_lt : ∀ x, (m.get x).live = true → x ≠ m.size := by
    intro x hx heq; subst heq; rw [hdead] at hx; cases hx
  constructor
  · intro p hlp hzp
    rw [Mem.get_push] at hlp ⊢
    split
    · next hps => subst hps; rw [hc, hk0]; exact rfl
    · next hps =>
      simp only [hps, if_false] at hlp
      apply Chain.congr (h.chain p hlp hzp)
      intro a ha
      have := hold_lt a (h.kid_live ha)
      rw [Mem.get_push]; simp [this]
  · intro p hp'
    rw [Mem.get_push] at hp'
    split at hp'
    · next hps => subst hps; exact hk0
    · exact h.nokids p hp'
  · intro p c hcm
    have := h.kid p c hcm
    have hne := hold_lt c this.1
    rw [Mem.get_push]; simp [hne]; exact this
  · exact h.nodup
  · exact h.uniq
  · exact h.rank
  · intro x hlx hzx
    rw [Mem.get_push] at hlx ⊢
    simp only [bump]
    split
    · next hx => subst hx; rw [hr, hpN_not hnp]; omega
    · next hx => simp only [hx, if_false] at hlx ⊢; exact h.ref x hlx hzx
  · intro x hlx hzx hpx hpe
    rw [Mem.get_push] at hlx ⊢
    split
    · exact ⟨hn, hp⟩
    · next hx => simp only [hx, if_false] at hlx; exact h.root x hlx hzx hpx hpe
  · intro x hx
    rw [Mem.get_push]
    simp only [bump] at hx
    split
    · next hxs => subst hxs; exact ⟨hl, hz⟩
    · next hxs => simp only [hxs, if_false] at hx; exact h.held x hx
  · exact h.pendRoot

end InvP

end Strophe.Store
