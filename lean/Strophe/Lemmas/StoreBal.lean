/-
The allocator's books are right (`Bal`): for EVERY program — well-owned or not — that runs without a fault,
the number of blocks obtained and not yet returned equals the structural count over the live nodes, every
attribute table satisfies the hash-table invariant, and the log of returned node blocks lists exactly the
dead nodes, each once.
-/
import Strophe.Lemmas.StoreBasic

namespace Strophe.Store
open Strophe Strophe.Stanza

structure Bal (m : Mem) : Prop where
  blocks : m.blocks = m.liveBlocks
  tabs : ∀ i t, (m.get i).attrs = some t → HashTab.WF t
  freedDead : ∀ x ∈ m.freed, (m.get x).live = false
  freedLt : ∀ x ∈ m.freed, x < m.size
  freedNodup : m.freed.Nodup
  deadFreed : ∀ x, x < m.size → (m.get x).live = false → x ∈ m.freed

theorem Bal.empty : Bal Mem.empty where
  blocks := rfl
  tabs := by intro i t h; simp [Mem.get, Mem.empty, Node.dead] at h
  freedDead := by intro x h; simp [Mem.empty] at h
  freedLt := by intro x h; simp [Mem.empty] at h
  freedNodup := by simp [Mem.empty]
  deadFreed := by intro x h; simp [Mem.empty, Mem.size] at h

theorem Bal.owned_le {m : Mem} (hb : Bal m) {s : Nat} (hl : (m.get s).live = true) :
    (m.get s).owned ≤ m.blocks := by
  rw [hb.blocks, ← blocks_of_live hl]
  exact Mem.blocks_le_liveBlocks m s

/-- a live node is replaced by a live node; `m1` is `m` with the allocator calls applied -/
theorem Bal.update {m m1 : Mem} (hb : Bal m) (hh : m1.heap = m.heap) (hf : m1.freed = m.freed)
    {s : Nat} {n' : Node} (hl : (m.get s).live = true) (hl' : n'.live = true)
    (ht : ∀ t, n'.attrs = some t → HashTab.WF t)
    (hbl : m1.blocks + (m.get s).owned = m.blocks + n'.owned) : Bal (m1.put s n') := by
  have hs : s < m.size := Mem.live_lt hl
  have hs1 : s < m1.size := by simpa [Mem.size, hh] using hs
  have hget : ∀ j, m1.get j = m.get j := by intro j; simp [Mem.get, hh]
  have hsz : (m1.put s n').size = m.size := by rw [Mem.size_put]; simp [Mem.size, hh]
  constructor
  · have h1 := Mem.liveBlocks_put (m := m1) n' hs1
    rw [hget, blocks_of_live hl, blocks_of_live hl'] at h1
    have h2 : m1.liveBlocks = m.liveBlocks := by simp [Mem.liveBlocks, hh]
    have h3 := hb.blocks
    simp only [Mem.blocks_put]
    omega
  · intro i t h
    rw [Mem.get_put] at h
    split at h
    · exact ht t h
    · rw [hget] at h; exact hb.tabs i t h
  · intro x hx
    simp only [Mem.freed_put, hf] at hx
    rw [Mem.get_put]
    split
    · next h => rw [h.1] at hx; have := hb.freedDead s hx; rw [hl] at this; cases this
    · rw [hget]; exact hb.freedDead x hx
  · intro x hx
    simp only [Mem.freed_put, hf] at hx
    rw [hsz]
    exact hb.freedLt x hx
  · simpa [hf] using hb.freedNodup
  · intro x hx hd
    simp only [Mem.freed_put, hf]
    rw [Mem.get_put] at hd
    split at hd
    · rw [hl'] at hd; cases hd
    · rw [hget] at hd
      rw [hsz] at hx
      exact hb.deadFreed x hx hd

/-- only pointer fields / the reference count of a live node change -/
theorem Bal.update_ptr {m : Mem} (hb : Bal m) {s : Nat} {n' : Node} (hl : (m.get s).live = true)
    (hl' : n'.live = true) (hd : n'.data = (m.get s).data) (ha : n'.attrs = (m.get s).attrs) : Bal (m.put s n') := by
  apply hb.update rfl rfl hl hl'
  · intro t h; rw [ha] at h; exact hb.tabs s t h
  · simp [Node.owned, hd, ha]

theorem Bal.push {m : Mem} (hb : Bal m) {n : Node} (hl : n.live = true)
    (ht : ∀ t, n.attrs = some t → HashTab.WF t) : Bal (m.push n) := by
  constructor
  · rw [Mem.liveBlocks_push, blocks_of_live hl, Mem.blocks_push, hb.blocks]
  · intro i t h
    rw [Mem.get_push] at h
    split at h
    · exact ht t h
    · exact hb.tabs i t h
  · intro x hx
    simp only [Mem.freed_push] at hx
    rw [Mem.get_push]
    have := hb.freedLt x hx
    split
    · omega
    · exact hb.freedDead x hx
  · intro x hx
    simp only [Mem.freed_push] at hx
    have := hb.freedLt x hx
    simp only [Mem.size_push]
    omega
  · simpa using hb.freedNodup
  · intro x hx hd
    simp only [Mem.freed_push]
    rw [Mem.get_push] at hd
    split at hd
    · rw [hl] at hd; cases hd
    · next h =>
      apply hb.deadFreed x _ hd
      simp only [Mem.size_push] at hx
      omega


theorem Bal.free_node {m : Mem} (hb : Bal m) {s : Nat} (hl : (m.get s).live = true) :
    Bal (Store.freeNode m s (m.get s)) := by
  have hs : s < m.size := Mem.live_lt hl
  have hown := hb.owned_le hl
  have hget : ∀ j, (Store.freeNode m s (m.get s)).get j = if j = s then { m.get s with live := false } else m.get j := by
    intro j
    rw [freeNode_get]
    simp [hs]
  have hsz := freeNode_size m s (m.get s)
  have hfr := freeNode_freed m s (m.get s)
  constructor
  · have h1 := Mem.liveBlocks_put (m := m) { m.get s with live := false } hs
    have h5 : ({ m.get s with live := false } : Node).blocks = 0 := rfl
    rw [blocks_of_live hl, h5] at h1
    rw [freeNode_blocks, freeNode_liveBlocks]
    have h4 := hb.blocks
    simp only [Node.owned] at hown h1
    omega
  · intro i t h
    rw [hget] at h
    split at h
    · exact hb.tabs s t h
    · exact hb.tabs i t h
  · intro x hx
    rw [hfr, List.mem_append] at hx
    rw [hget]
    split
    · rfl
    · rcases hx with hx | hx
      · exact hb.freedDead x hx
      · simp at hx; contradiction
  · intro x hx
    rw [hfr, List.mem_append] at hx
    rw [hsz]
    rcases hx with hx | hx
    · exact hb.freedLt x hx
    · simp at hx; omega
  · rw [hfr, List.nodup_append]
    refine ⟨hb.freedNodup, by simp, ?_⟩
    intro a ha b hb' hab
    simp at hb'
    subst hb'
    subst hab
    have := hb.freedDead a ha
    rw [hl] at this
    cases this
  · intro x hx hd
    rw [hfr, List.mem_append]
    rw [hget] at hd
    rw [hsz] at hx
    split at hd
    · next h => right; simp [h]
    · left; exact hb.deadFreed x hx hd

theorem bal_clone {m m' : Mem} {s : Nat} (hb : Bal m) (h : clone m s = .ok m') : Bal m' := by
  unfold clone at h
  rw [bind_ok] at h
  obtain ⟨n, hn, h⟩ := h
  rw [Mem.deref_ok] at hn
  obtain ⟨hl, rfl⟩ := hn
  rw [pure_ok] at h
  subst h
  exact hb.update_ptr hl hl rfl rfl

theorem bal_setName {m m' : Mem} {s : Nat} {name : Bytes} {rc : Int} (hb : Bal m)
    (h : setName m s name = .ok (m', rc)) : Bal m' := by
  unfold setName at h
  rw [bind_ok] at h
  obtain ⟨n, hn, h⟩ := h
  rw [Mem.deref_ok] at hn
  obtain ⟨hl, rfl⟩ := hn
  split at h
  · rw [pure_ok] at h; cases h; exact hb
  · rw [pure_ok] at h
    cases h
    have hown := hb.owned_le hl
    refine hb.update (m1 := (m.free _).alloc 1) (n' := { m.get s with kind := .tag, data := some name }) rfl rfl hl hl ?_ ?_
    · intro t ht; exact hb.tabs s t ht
    · simp only [Node.owned, Mem.blocks_alloc, Mem.blocks_free, dataBlocks] at hown ⊢
      cases (m.get s).data <;> simp at hown ⊢ <;> omega

theorem bal_setText {m m' : Mem} {s : Nat} {text : Bytes} {rc : Int} (hb : Bal m)
    (h : setText m s text = .ok (m', rc)) : Bal m' := by
  unfold setText at h
  rw [bind_ok] at h
  obtain ⟨n, hn, h⟩ := h
  rw [Mem.deref_ok] at hn
  obtain ⟨hl, rfl⟩ := hn
  split at h
  · rw [pure_ok] at h; cases h; exact hb
  · rw [pure_ok] at h
    cases h
    have hown := hb.owned_le hl
    refine hb.update (m1 := (m.free _).alloc 1) (n' := { m.get s with kind := .text, data := some text }) rfl rfl hl hl ?_ ?_
    · intro t ht; exact hb.tabs s t ht
    · simp only [Node.owned, Mem.blocks_alloc, Mem.blocks_free, dataBlocks] at hown ⊢
      cases (m.get s).data <;> simp at hown ⊢ <;> omega


theorem toList_new (n : Nat) : (HashTab.new n).toList = [] := by
  simp [HashTab.new, HashTab.toList]

theorem bal_setAttribute {m m' : Mem} {s : Nat} {key val : Bytes} {rc : Int} (hb : Bal m)
    (h : setAttribute m s key val = .ok (m', rc)) : Bal m' := by
  unfold setAttribute at h
  rw [bind_ok] at h
  obtain ⟨n, hn, h⟩ := h
  rw [Mem.deref_ok] at hn
  obtain ⟨hl, rfl⟩ := hn
  split at h
  · rw [pure_ok] at h; cases h; exact hb
  · have hown := hb.owned_le hl
    cases ha : (m.get s).attrs with
    | none =>
      simp only [ha] at h
      have hwf : HashTab.WF (HashTab.new Gen.Stanza.attrBuckets) := Stanza.wf_new8
      have hlen := toList_length_add hwf key val
      rw [toList_new] at hlen
      cases hg : (HashTab.new Gen.Stanza.attrBuckets).get key with
      | some v0 => rw [Stanza.get_new] at hg; cases hg
      | none =>
        simp only [hg] at h hlen
        rw [pure_ok] at h
        cases h
        refine hb.update (m1 := ((m.alloc 2).alloc 1).alloc 2)
          (n' := { m.get s with attrs := some ((HashTab.new Gen.Stanza.attrBuckets).add key val) }) rfl rfl hl hl ?_ ?_
        · intro t ht; cases ht; exact HashTab.wf_add hwf key val
        · simp only [Node.owned, Mem.blocks_alloc, ha, attrBlocks, tabBlocks, hlen] at hown ⊢
          simp
          omega
    | some tab =>
      simp only [ha] at h
      have hwf : HashTab.WF tab := hb.tabs s tab ha
      have hlen := toList_length_add hwf key val
      cases hg : tab.get key with
      | some v0 =>
        simp only [hg] at h hlen
        rw [pure_ok] at h
        cases h
        refine hb.update (m1 := (m.alloc 1).free 1) (n' := { m.get s with attrs := some (tab.add key val) }) rfl rfl hl hl ?_ ?_
        · intro t ht; cases ht; exact HashTab.wf_add hwf key val
        · simp only [Node.owned, Mem.blocks_alloc, Mem.blocks_free, ha, attrBlocks, tabBlocks, hlen] at hown ⊢
          simp
      | none =>
        simp only [hg] at h hlen
        rw [pure_ok] at h
        cases h
        refine hb.update (m1 := (m.alloc 1).alloc 2) (n' := { m.get s with attrs := some (tab.add key val) }) rfl rfl hl hl ?_ ?_
        · intro t ht; cases ht; exact HashTab.wf_add hwf key val
        · simp only [Node.owned, Mem.blocks_alloc, ha, attrBlocks, tabBlocks, hlen] at hown ⊢
          simp
          omega

theorem bal_delAttribute {m m' : Mem} {s : Nat} {key : Bytes} {rc : Int} (hb : Bal m)
    (h : delAttribute m s key = .ok (m', rc)) : Bal m' := by
  unfold delAttribute at h
  rw [bind_ok] at h
  obtain ⟨n, hn, h⟩ := h
  rw [Mem.deref_ok] at hn
  obtain ⟨hl, rfl⟩ := hn
  split at h
  · rw [pure_ok] at h; cases h; exact hb
  · have hown := hb.owned_le hl
    cases ha : (m.get s).attrs with
    | none => simp only [ha] at h; rw [pure_ok] at h; cases h; exact hb
    | some tab =>
      simp only [ha] at h
      have hwf : HashTab.WF tab := hb.tabs s tab ha
      have hlen := toList_length_drop hwf key
      rw [pure_ok] at h
      cases h
      by_cases hrc : (tab.drop key).2 = 0
      · simp only [hrc, if_true] at hlen ⊢
        refine hb.update (m1 := m.free 3) (n' := { m.get s with attrs := some (tab.drop key).1 }) rfl rfl hl hl ?_ ?_
        · intro t ht; cases ht; exact HashTab.wf_drop hwf key
        · simp only [Node.owned, Mem.blocks_free, ha, attrBlocks, tabBlocks] at hown ⊢
          omega
      · simp only [hrc, if_false] at hlen ⊢
        refine hb.update (m1 := m) (n' := { m.get s with attrs := some (tab.drop key).1 }) rfl rfl hl hl ?_ ?_
        · intro t ht; cases ht; exact HashTab.wf_drop hwf key
        · simp only [Node.owned, ha, attrBlocks, tabBlocks] at hown ⊢
          omega


/-- a node is overwritten by one with the same liveness, strings and table (pointer fields, reference
    count and type may differ) -/
theorem Bal.put_same {m : Mem} (hb : Bal m) {s : Nat} {n' : Node} (hl : n'.live = (m.get s).live)
    (hd : n'.data = (m.get s).data) (ha : n'.attrs = (m.get s).attrs) : Bal (m.put s n') := by
  by_cases hs : s < m.size
  · have hbk : n'.blocks = (m.get s).blocks := by simp [Node.blocks, Node.owned, hl, hd, ha]
    constructor
    · have h1 := Mem.liveBlocks_put (m := m) n' hs
      have h2 := hb.blocks
      simp only [Mem.blocks_put]
      omega
    · intro i t h
      rw [Mem.get_put] at h
      split at h
      · rw [ha] at h; exact hb.tabs s t h
      · exact hb.tabs i t h
    · intro x hx
      simp only [Mem.freed_put] at hx
      rw [Mem.get_put]
      split
      · next h => rw [hl, ← h.1]; exact hb.freedDead x hx
      · exact hb.freedDead x hx
    · intro x hx
      simp only [Mem.freed_put] at hx
      rw [Mem.size_put]
      exact hb.freedLt x hx
    · simpa using hb.freedNodup
    · intro x hx hdd
      simp only [Mem.freed_put]
      rw [Mem.size_put] at hx
      rw [Mem.get_put] at hdd
      split at hdd
      · next h => rw [hl, ← h.1] at hdd; exact hb.deadFreed x hx hdd
      · exact hb.deadFreed x hx hdd
  · have : m.put s n' = m := by
      simp only [Mem.put]
      rw [List.set_eq_of_length_le (by simpa [Mem.size] using Nat.le_of_not_lt hs)]
    rw [this]
    exact hb

theorem bal_addChildEx {m m' : Mem} {p c : Nat} {dc : Bool} {rc : Int} (hb : Bal m)
    (h : addChildEx m p c dc = .ok (m', rc)) : Bal m' := by
  unfold addChildEx at h
  rw [bind_ok] at h
  obtain ⟨m1, hm1, h⟩ := h
  have hb1 : Bal m1 := by
    cases dc with
    | true => simp only [if_true] at hm1; exact bal_clone hb hm1
    | false => simp only [Bool.false_eq_true, if_false] at hm1; rw [pure_ok] at hm1; subst hm1; exact hb
  rw [bind_ok] at h
  obtain ⟨nc, hnc, h⟩ := h
  rw [Mem.deref_ok] at hnc
  obtain ⟨_, rfl⟩ := hnc
  have hb2 : Bal (m1.put c { m1.get c with parent := some p }) := hb1.put_same rfl rfl rfl
  rw [bind_ok] at h
  obtain ⟨np, hnp, h⟩ := h
  rw [Mem.deref_ok] at hnp
  obtain ⟨_, rfl⟩ := hnp
  split at h
  · rw [pure_ok] at h; cases h
    exact hb2.put_same rfl rfl rfl
  · rw [bind_ok] at h
    obtain ⟨last, _, h⟩ := h
    rw [bind_ok] at h
    obtain ⟨nl, hnl, h⟩ := h
    rw [Mem.deref_ok] at hnl
    obtain ⟨_, rfl⟩ := hnl
    rw [bind_ok] at h
    obtain ⟨nc2, hnc2, h⟩ := h
    rw [Mem.deref_ok] at hnc2
    obtain ⟨_, rfl⟩ := hnc2
    rw [pure_ok] at h; cases h
    refine Bal.put_same ?_ rfl rfl rfl
    refine Bal.put_same ?_ rfl rfl rfl
    exact hb2

theorem bal_release : ∀ f : Nat,
    (∀ m s m' b, Bal m → release f m s = .ok (m', b) → Bal m') ∧
    (∀ m c m', Bal m → releaseKids f m c = .ok m' → Bal m') := by
  intro f
  induction f with
  | zero =>
    constructor
    · intro m s m' b _ h; simp [release] at h
    · intro m c m' hb h
      cases c with
      | none => simp [releaseKids, pure, Except.pure] at h; subst h; exact hb
      | some c => simp [releaseKids] at h
  | succ f ih =>
    constructor
    · intro m s m' b hb h
      simp only [release] at h
      rw [bind_ok] at h
      obtain ⟨n, hn, h⟩ := h
      rw [Mem.deref_ok] at hn
      obtain ⟨hl, rfl⟩ := hn
      split at h
      · rw [pure_ok] at h; cases h
        exact hb.put_same rfl rfl rfl
      · rw [bind_ok] at h
        obtain ⟨m1, hm1, h⟩ := h
        have hb1 := ih.2 _ _ _ hb hm1
        rw [bind_ok] at h
        obtain ⟨n2, hn2, h⟩ := h
        rw [Mem.deref_ok] at hn2
        obtain ⟨hl2, rfl⟩ := hn2
        rw [pure_ok] at h; cases h
        exact hb1.free_node hl2
    · intro m c m' hb h
      cases c with
      | none => simp [releaseKids, pure, Except.pure] at h; subst h; exact hb
      | some c =>
        simp only [releaseKids] at h
        rw [bind_ok] at h
        obtain ⟨n, hn, h⟩ := h
        rw [Mem.deref_ok] at hn
        obtain ⟨hl, rfl⟩ := hn
        rw [bind_ok] at h
        obtain ⟨⟨m1, b1⟩, hm1, h⟩ := h
        have hb0 : Bal (m.put c { m.get c with next := none, prev := none, parent := none }) := hb.put_same rfl rfl rfl
        have hb1 := ih.1 _ _ _ _ hb0 hm1
        exact ih.2 _ _ _ hb1 h


theorem tabsWF_mkTree (n : Node) (ks : List Tree) (hn : ∀ t, n.attrs = some t → HashTab.WF t)
    (hk : TabsWFKids ks) : TabsWF (mkTree n ks) := by
  unfold mkTree
  split <;> simp [TabsWF, hk]
  exact hn

theorem export_tabsWF : ∀ f : Nat,
    (∀ m s t, Bal m → exportTree f m s = .ok t → TabsWF t) ∧
    (∀ m p c ts, Bal m → exportKids f m p c = .ok ts → TabsWFKids ts) := by
  intro f
  induction f with
  | zero =>
    constructor
    · intro m s t _ h; simp [exportTree] at h
    · intro m p c ts _ h
      cases c with
      | none => simp [exportKids, pure, Except.pure] at h; subst h; simp [TabsWFKids]
      | some c => simp [exportKids] at h
  | succ f ih =>
    constructor
    · intro m s t hb h
      simp only [exportTree] at h
      rw [bind_ok] at h
      obtain ⟨n, hn, h⟩ := h
      rw [Mem.deref_ok] at hn
      obtain ⟨_, rfl⟩ := hn
      rw [bind_ok] at h
      obtain ⟨ks, hks, h⟩ := h
      rw [pure_ok] at h
      subst h
      exact tabsWF_mkTree _ _ (hb.tabs s) (ih.2 _ _ _ _ hb hks)
    · intro m p c ts hb h
      cases c with
      | none => simp [exportKids, pure, Except.pure] at h; subst h; simp [TabsWFKids]
      | some c =>
        simp only [exportKids] at h
        rw [bind_ok] at h
        obtain ⟨n, hn, h⟩ := h
        split at h
        · cases h
        · rw [bind_ok] at h
          obtain ⟨t, ht, h⟩ := h
          rw [bind_ok] at h
          obtain ⟨rest, hrest, h⟩ := h
          rw [pure_ok] at h
          subst h
          simp only [TabsWFKids]
          exact ⟨ih.1 _ _ _ hb ht, ih.2 _ _ _ _ hb hrest⟩

mutual
theorem bal_importTree : ∀ (t : Tree) (m m' : Mem) (id : Nat), Bal m → TabsWF t →
    importTree m t = .ok (m', id) → Bal m'
  | .tag name attrs ks, m, m', id, hb, hw, h => by
    simp only [TabsWF] at hw
    simp only [importTree] at h
    exact bal_importKids ks _ _ _ _ (hb.push rfl hw.1) hw.2 h
  | .text d ks, m, m', id, hb, hw, h => by
    simp only [TabsWF] at hw
    simp only [importTree] at h
    exact bal_importKids ks _ _ _ _ (hb.push rfl (by intro t h; cases h)) hw h
  | .unknown ks, m, m', id, hb, hw, h => by
    simp only [TabsWF] at hw
    simp only [importTree] at h
    exact bal_importKids ks _ _ _ _ (hb.push rfl (by intro t h; cases h)) hw h
theorem bal_importKids : ∀ (ks : List Tree) (m m' : Mem) (p id : Nat), Bal m → TabsWFKids ks →
    importKids m p ks = .ok (m', id) → Bal m'
  | [], m, m', _, _, hb, _, h => by
    simp only [importKids] at h; rw [pure_ok] at h; cases h; exact hb
  | k :: ks, m, m', p, id, hb, hw, h => by
    simp only [TabsWFKids] at hw
    simp only [importKids] at h
    rw [bind_ok] at h
    obtain ⟨⟨m1, c⟩, h1, h⟩ := h
    rw [bind_ok] at h
    obtain ⟨⟨m2, rc⟩, h2, h⟩ := h
    exact bal_importKids ks m2 m' p id (bal_addChildEx (bal_importTree k m m1 c hb hw.1 h1) h2) hw.2 h
end

theorem bal_copy {m m' : Mem} {s : Nat} {r : Option Nat} (hb : Bal m) (h : copy m s = .ok (m', r)) : Bal m' := by
  unfold copy at h
  rw [bind_ok] at h
  obtain ⟨t, ht, h⟩ := h
  have hw := (export_tabsWF _).1 _ _ _ hb ht
  obtain ⟨t', hc, _, hw'⟩ := Stanza.copy_spec t hw
  simp only [hc] at h
  rw [bind_ok] at h
  obtain ⟨⟨m1, id⟩, h1, h⟩ := h
  rw [pure_ok] at h
  cases h
  exact bal_importTree t' m _ _ hb hw' h1

theorem bal_fromString {m m' : Mem} {b : Bytes} {r : Option Nat} (hb : Bal m)
    (h : fromString m b = .ok (m', r)) : Bal m' := by
  unfold fromString at h
  cases hf : Stanza.fromString b with
  | none => simp only [hf] at h; rw [pure_ok] at h; cases h; exact hb
  | some t =>
    simp only [hf] at h
    rw [bind_ok] at h
    obtain ⟨⟨m1, id⟩, h1, h⟩ := h
    rw [pure_ok] at h
    cases h
    exact bal_importTree t m _ _ hb (Stanza.tabsWF_fromString b t hf) h1

theorem bal_reply {m m' : Mem} {s : Nat} {r : Option Nat} (hb : Bal m) (h : reply m s = .ok (m', r)) : Bal m' := by
  unfold reply at h
  rw [bind_ok] at h
  obtain ⟨n, hn, h⟩ := h
  rw [Mem.deref_ok] at hn
  obtain ⟨_, rfl⟩ := hn
  cases hr : Stanza.reply (mkTree (m.get s) []) with
  | none => simp only [hr] at h; rw [pure_ok] at h; cases h; exact hb
  | some t =>
    simp only [hr] at h
    rw [bind_ok] at h
    obtain ⟨⟨m1, id⟩, h1, h⟩ := h
    rw [pure_ok] at h
    cases h
    have hw : TabsWF (mkTree (m.get s) []) := tabsWF_mkTree _ _ (hb.tabs s) (by simp [TabsWFKids])
    exact bal_importTree t m _ _ hb (Stanza.tabsWF_reply _ _ hw hr) h1


theorem bal_replyErrorBody {m m' : Mem} {r : Nat} {et cond : Bytes} {tx : Option Bytes} {res : Option Nat}
    (hb0 : Bal m) (h : replyErrorBody m r et cond tx = .ok (m', res)) : Bal m' := by
  unfold replyErrorBody at h
  try simp only [stanzaNew_eq] at h
  have hb1 := Bal.push hb0 (n := Node.fresh) rfl (by intro t ht; cases ht)
  rw [bind_ok] at h
  obtain ⟨⟨m2, r2⟩, h2, h⟩ := h
  have hb2 := bal_setName hb1 h2
  try simp only [] at h
  rw [bind_ok] at h
  obtain ⟨⟨m3, r3⟩, h3, h⟩ := h
  have hb3 := bal_setAttribute hb2 h3
  try simp only [] at h
  rw [bind_ok] at h
  obtain ⟨⟨m4, r4⟩, h4, h⟩ := h
  have hb4 := bal_addChildEx hb3 h4
  try simp only [] at h
  rw [bind_ok] at h
  obtain ⟨⟨m5, r5⟩, h5, h⟩ := h
  have hb5 := (bal_release _).1 _ _ _ _ hb4 h5
  try simp only [] at h
  try simp only [stanzaNew_eq] at h
  have hb6 := Bal.push hb5 (n := Node.fresh) rfl (by intro t ht; cases ht)
  rw [bind_ok] at h
  obtain ⟨⟨m7, r7⟩, h7, h⟩ := h
  have hb7 := bal_setName hb6 h7
  try simp only [] at h
  rw [bind_ok] at h
  obtain ⟨⟨m8, r8⟩, h8, h⟩ := h
  have hb8 := bal_setAttribute hb7 h8
  try simp only [] at h
  rw [bind_ok] at h
  obtain ⟨⟨m9, r9⟩, h9, h⟩ := h
  have hb9 := bal_addChildEx hb8 h9
  try simp only [] at h
  rw [bind_ok] at h
  obtain ⟨⟨m10, r10⟩, h10, h⟩ := h
  have hb10 := (bal_release _).1 _ _ _ _ hb9 h10
  try simp only [] at h
  split at h
  · rw [pure_ok] at h; cases h; exact hb10
  try simp only [stanzaNew_eq] at h
  have hb21 := Bal.push hb10 (n := Node.fresh) rfl (by intro t ht; cases ht)
  rw [bind_ok] at h
  obtain ⟨⟨m22, r22⟩, h22, h⟩ := h
  have hb22 := bal_setName hb21 h22
  try simp only [] at h
  rw [bind_ok] at h
  obtain ⟨⟨m23, r23⟩, h23, h⟩ := h
  have hb23 := bal_setAttribute hb22 h23
  try simp only [] at h
  rw [bind_ok] at h
  obtain ⟨⟨m24, r24⟩, h24, h⟩ := h
  have hb24 := bal_addChildEx hb23 h24
  try simp only [] at h
  rw [bind_ok] at h
  obtain ⟨⟨m25, r25⟩, h25, h⟩ := h
  have hb25 := (bal_release _).1 _ _ _ _ hb24 h25
  try simp only [] at h
  try simp only [stanzaNew_eq] at h
  have hb26 := Bal.push hb25 (n := Node.fresh) rfl (by intro t ht; cases ht)
  rw [bind_ok] at h
  obtain ⟨⟨m27, r27⟩, h27, h⟩ := h
  have hb27 := bal_setText hb26 h27
  try simp only [] at h
  rw [bind_ok] at h
  obtain ⟨⟨m28, r28⟩, h28, h⟩ := h
  have hb28 := bal_addChildEx hb27 h28
  try simp only [] at h
  rw [bind_ok] at h
  obtain ⟨⟨m29, r29⟩, h29, h⟩ := h
  have hb29 := (bal_release _).1 _ _ _ _ hb28 h29
  try simp only [] at h
  rw [pure_ok] at h; cases h; exact hb29

theorem bal_replyError {m m' : Mem} {s : Nat} {et cond tx : Option Bytes} {r : Option Nat} (hb : Bal m)
    (h : replyError m s et cond tx = .ok (m', r)) : Bal m' := by
  unfold replyError at h
  split at h
  case h_2 => rw [pure_ok] at h; cases h; exact hb
  rw [bind_ok] at h
  obtain ⟨⟨ma, ra⟩, ha, h⟩ := h
  have hba := bal_reply hb ha
  simp only [] at h
  split at h
  · rw [pure_ok] at h; cases h; exact hba
  rw [bind_ok] at h
  obtain ⟨⟨mb, rb⟩, hb1, h⟩ := h
  have hbb := bal_setAttribute hba hb1
  simp only [] at h
  rw [bind_ok] at h
  obtain ⟨to, _, h⟩ := h
  split at h
  · rw [bind_ok] at h
    obtain ⟨⟨mc, rc⟩, hc1, h⟩ := h
    exact bal_replyErrorBody (bal_setAttribute hbb hc1) h
  · exact bal_replyErrorBody hbb h

theorem bal_errorNew {m m' : Mem} {ty : Int} {tx : Option Bytes} {r : Nat} (hb : Bal m)
    (h : errorNew m ty tx = .ok (m', r)) : Bal m' := by
  unfold errorNew at h
  try simp only [stanzaNew_eq] at h
  have hb1 := Bal.push hb (n := Node.fresh) rfl (by intro t ht; cases ht)
  rw [bind_ok] at h
  obtain ⟨⟨m2, r2⟩, h2, h⟩ := h
  have hb2 := bal_setName hb1 h2
  try simp only [] at h
  try simp only [stanzaNew_eq] at h
  have hb3 := Bal.push hb2 (n := Node.fresh) rfl (by intro t ht; cases ht)
  rw [bind_ok] at h
  obtain ⟨⟨m4, r4⟩, h4, h⟩ := h
  have hb4 := bal_setName hb3 h4
  try simp only [] at h
  rw [bind_ok] at h
  obtain ⟨⟨m5, r5⟩, h5, h⟩ := h
  have hb5 := bal_setAttribute hb4 h5
  try simp only [] at h
  rw [bind_ok] at h
  obtain ⟨⟨m6, r6⟩, h6, h⟩ := h
  have hb6 := bal_addChildEx hb5 h6
  try simp only [] at h
  split at h
  · rw [pure_ok] at h; cases h; exact hb6
  try simp only [stanzaNew_eq] at h
  have hb11 := Bal.push hb6 (n := Node.fresh) rfl (by intro t ht; cases ht)
  try simp only [stanzaNew_eq] at h
  have hb12 := Bal.push hb11 (n := Node.fresh) rfl (by intro t ht; cases ht)
  rw [bind_ok] at h
  obtain ⟨⟨m13, r13⟩, h13, h⟩ := h
  have hb13 := bal_setName hb12 h13
  try simp only [] at h
  rw [bind_ok] at h
  obtain ⟨⟨m14, r14⟩, h14, h⟩ := h
  have hb14 := bal_setAttribute hb13 h14
  try simp only [] at h
  rw [bind_ok] at h
  obtain ⟨⟨m15, r15⟩, h15, h⟩ := h
  have hb15 := bal_setText hb14 h15
  try simp only [] at h
  rw [bind_ok] at h
  obtain ⟨⟨m16, r16⟩, h16, h⟩ := h
  have hb16 := bal_addChildEx hb15 h16
  try simp only [] at h
  rw [bind_ok] at h
  obtain ⟨⟨m17, r17⟩, h17, h⟩ := h
  have hb17 := bal_addChildEx hb16 h17
  try simp only [] at h
  rw [pure_ok] at h; cases h; exact hb17


theorem bal_releaseAll : ∀ (l : List (Option Nat)) (m m' : Mem), Bal m → releaseAll l m = .ok m' → Bal m'
  | [], m, m', hb, h => by simp [releaseAll, pure, Except.pure] at h; subst h; exact hb
  | none :: rest, m, m', hb, h => by
    simp only [releaseAll] at h
    exact bal_releaseAll rest m m' hb h
  | some s :: rest, m, m', hb, h => by
    simp only [releaseAll] at h
    rw [bind_ok] at h
    obtain ⟨⟨m1, b⟩, h1, h⟩ := h
    exact bal_releaseAll rest m1 m' ((bal_release _).1 _ _ _ _ hb h1) h

@[simp] theorem putNew_mem (st : St) (w : Nat) (m : Mem) (r : Option Nat) : (putNew st w m r).1.mem = m := by
  cases r <;> rfl

-- destructure one layer of `step`'s plumbing
set_option hygiene false in
macro "peel_h" : tactic =>
  `(tactic| first
    | (rw [bind_ok] at h; obtain ⟨_, _, h⟩ := h)
    | (rw [pure_ok] at h)
    | (split at h))

theorem bal_step {st st' : St} {op : Op} {out : Out} (hb : Bal st.mem) (h : step st op = .ok (st', out)) :
    Bal st'.mem := by
  cases op <;> simp only [step] at h <;> (repeat' peel_h) <;>
    (try (cases h)) <;> (try exact hb) <;>
    (try (have hm := congrArg (fun p => p.1.mem) h; simp only [putNew_mem] at hm; rw [← hm])) <;>
    (try simp only [putNew_mem, stanzaNew_eq])
  all_goals first
    | exact hb
    | exact Bal.push hb rfl (by intro t ht; cases ht)
    | exact bal_clone hb (by assumption)
    | exact bal_copy hb (by assumption)
    | exact (bal_release _).1 _ _ _ _ hb (by assumption)
    | exact bal_addChildEx hb (by assumption)
    | exact bal_setName hb (by assumption)
    | exact bal_setText hb (by assumption)
    | exact bal_setAttribute hb (by assumption)
    | exact bal_delAttribute hb (by assumption)
    | exact bal_reply hb (by assumption)
    | exact bal_replyError hb (by assumption)
    | exact bal_errorNew hb (by assumption)
    | exact bal_fromString hb (by assumption)
    | exact bal_releaseAll _ _ _ hb (by assumption)

theorem bal_exec : ∀ (ops : List Op) (st st' : St), Bal st.mem → exec st ops = .ok st' → Bal st'.mem
  | [], st, st', hb, h => by simp [exec, pure, Except.pure] at h; subst h; exact hb
  | op :: rest, st, st', hb, h => by
    simp only [exec] at h
    rw [bind_ok] at h
    obtain ⟨⟨st1, out⟩, h1, h⟩ := h
    exact bal_exec rest st1 st' (bal_step hb h1) h

end Strophe.Store
