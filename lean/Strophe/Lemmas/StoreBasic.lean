/-
Basic facts about `Model/Store.lean`: the heap API (`get` / `put` / `push`), the structural block count,
and the `Except` plumbing used by all later proofs.
-/
import Strophe.Model.Store
import Strophe.Lemmas.HashTab
import Strophe.Lemmas.StanzaOps

namespace Strophe.Store
open Strophe Strophe.Stanza

/-! ### `Except` -/

theorem bind_ok {ε α β} {x : Except ε α} {f : α → Except ε β} {b : β} :
    (x >>= f) = .ok b ↔ ∃ a, x = .ok a ∧ f a = .ok b := by
  cases x with
  | error e => simp [bind, Except.bind]
  | ok a => simp [bind, Except.bind]

theorem bind_ok' {ε α β} {x : Except ε α} {f : α → Except ε β} {b : β} :
    (do let a ← x; f a) = .ok b ↔ ∃ a, x = .ok a ∧ f a = .ok b := bind_ok

theorem pure_ok {ε α} {a b : α} : (pure a : Except ε α) = .ok b ↔ a = b := by
  simp [pure, Except.pure]

theorem map_ok {ε α β} {x : Except ε α} {f : α → β} {b : β} :
    (f <$> x) = .ok b ↔ ∃ a, x = .ok a ∧ f a = b := by
  cases x <;> simp [Functor.map, Except.map]

namespace Mem

/-! ### heap access -/

theorem get_def (m : Mem) (i : Nat) : m.get i = (m.heap[i]?).getD Node.dead := by
  simp [get, List.getD_eq_getElem?_getD]

theorem get_of_ge {m : Mem} {i : Nat} (h : m.size ≤ i) : m.get i = Node.dead := by
  simp [get_def, size] at *
  simp [List.getElem?_eq_none h]

theorem live_lt {m : Mem} {i : Nat} (h : (m.get i).live = true) : i < m.size := by
  apply Classical.byContradiction
  intro hn
  rw [get_of_ge (Nat.le_of_not_lt hn)] at h
  simp [Node.dead] at h

@[simp] theorem size_put (m : Mem) (i : Nat) (n : Node) : (m.put i n).size = m.size := by
  simp [put, size]

theorem get_put (m : Mem) (i j : Nat) (n : Node) :
    (m.put i n).get j = if j = i ∧ i < m.size then n else m.get j := by
  simp only [get_def, put, size, List.getElem?_set]
  by_cases hji : i = j
  · subst hji
    by_cases hl : i < m.heap.length
    · simp [hl]
    · simp [hl, List.getElem?_eq_none (Nat.le_of_not_lt hl)]
  · have : ¬ (j = i) := fun h => hji h.symm
    simp [hji, this]

theorem get_put_self {m : Mem} {i : Nat} (n : Node) (h : i < m.size) : (m.put i n).get i = n := by
  simp [get_put, h]

theorem get_put_ne {m : Mem} {i j : Nat} (n : Node) (h : j ≠ i) : (m.put i n).get j = m.get j := by
  simp [get_put, h]

@[simp] theorem get_alloc (m : Mem) (k i : Nat) : (m.alloc k).get i = m.get i := rfl
@[simp] theorem get_free (m : Mem) (k i : Nat) : (m.free k).get i = m.get i := rfl
@[simp] theorem size_alloc (m : Mem) (k : Nat) : (m.alloc k).size = m.size := rfl
@[simp] theorem size_free (m : Mem) (k : Nat) : (m.free k).size = m.size := rfl
@[simp] theorem heap_alloc (m : Mem) (k : Nat) : (m.alloc k).heap = m.heap := rfl
@[simp] theorem heap_free (m : Mem) (k : Nat) : (m.free k).heap = m.heap := rfl
@[simp] theorem blocks_alloc (m : Mem) (k : Nat) : (m.alloc k).blocks = m.blocks + k := rfl
@[simp] theorem blocks_free (m : Mem) (k : Nat) : (m.free k).blocks = m.blocks - k := rfl
@[simp] theorem blocks_put (m : Mem) (i : Nat) (n : Node) : (m.put i n).blocks = m.blocks := rfl
@[simp] theorem freed_put (m : Mem) (i : Nat) (n : Node) : (m.put i n).freed = m.freed := rfl
@[simp] theorem freed_alloc (m : Mem) (k : Nat) : (m.alloc k).freed = m.freed := rfl
@[simp] theorem freed_free (m : Mem) (k : Nat) : (m.free k).freed = m.freed := rfl

@[simp] theorem size_push (m : Mem) (n : Node) : (m.push n).size = m.size + 1 := by
  simp [push, size]

theorem get_push (m : Mem) (n : Node) (j : Nat) : (m.push n).get j = if j = m.size then n else m.get j := by
  simp only [get_def, push, size, List.getElem?_append]
  by_cases h1 : j < m.heap.length
  · have : j ≠ m.heap.length := Nat.ne_of_lt h1
    simp [h1, this]
  · by_cases h2 : j = m.heap.length
    · subst h2; simp
    · have h3 : m.heap.length < j := by omega
      have h4 : j - m.heap.length ≠ 0 := by omega
      simp [h1, h2, List.getElem?_eq_none (Nat.le_of_lt h3)]
      cases hk : j - m.heap.length with
      | zero => exact absurd hk h4
      | succ k => simp

@[simp] theorem blocks_push (m : Mem) (n : Node) : (m.push n).blocks = m.blocks + n.owned := rfl
@[simp] theorem freed_push (m : Mem) (n : Node) : (m.push n).freed = m.freed := rfl

theorem deref_ok {m : Mem} {p : Nat} {n : Node} : m.deref p = .ok n ↔ (m.get p).live = true ∧ n = m.get p := by
  unfold deref
  by_cases h : (m.get p).live = true
  · simp [h, eq_comm]
  · simp [h]

theorem deref_of_live {m : Mem} {p : Nat} (h : (m.get p).live = true) : m.deref p = .ok (m.get p) := by
  simp [deref, h]

/-! ### the structural block count -/

theorem sum_set (l : List Nat) (i a : Nat) (h : i < l.length) : (l.set i a).sum + l.getD i 0 = l.sum + a := by
  induction l generalizing i with
  | nil => simp at h
  | cons x xs ih =>
    cases i with
    | zero => simp; omega
    | succ j =>
      simp at h ⊢
      have := ih j h
      simp at this
      omega

theorem getD_le_sum (l : List Nat) (i : Nat) : l.getD i 0 ≤ l.sum := by
  induction l generalizing i with
  | nil => simp
  | cons x xs ih =>
    cases i with
    | zero => simp
    | succ j =>
      have := ih j
      simp at this ⊢
      omega

theorem blocks_get (m : Mem) (i : Nat) : (m.get i).blocks = (m.heap.map Node.blocks).getD i 0 := by
  simp only [get_def, List.getD_eq_getElem?_getD, List.getElem?_map]
  cases m.heap[i]? with
  | none => simp [Node.blocks, Node.dead]
  | some n => simp

theorem liveBlocks_put {m : Mem} {i : Nat} (n : Node) (h : i < m.size) :
    (m.put i n).liveBlocks + (m.get i).blocks = m.liveBlocks + n.blocks := by
  have hl : i < (m.heap.map Node.blocks).length := by simpa [size] using h
  have := sum_set (m.heap.map Node.blocks) i n.blocks hl
  simp only [liveBlocks, put, List.map_set]
  rw [blocks_get]
  exact this

theorem blocks_le_liveBlocks (m : Mem) (i : Nat) : (m.get i).blocks ≤ m.liveBlocks := by
  rw [blocks_get]
  exact getD_le_sum _ _

theorem liveBlocks_push (m : Mem) (n : Node) : (m.push n).liveBlocks = m.liveBlocks + n.blocks := by
  simp [liveBlocks, push, List.sum_append]

@[simp] theorem liveBlocks_alloc (m : Mem) (k : Nat) : (m.alloc k).liveBlocks = m.liveBlocks := rfl
@[simp] theorem liveBlocks_free (m : Mem) (k : Nat) : (m.free k).liveBlocks = m.liveBlocks := rfl

end Mem

theorem stanzaNew_eq (m : Mem) : stanzaNew m = (m.push Node.fresh, m.size) := rfl

theorem blocks_of_live {n : Node} (h : n.live = true) : n.blocks = n.owned := by simp [Node.blocks, h]
theorem blocks_of_dead {n : Node} (h : n.live = false) : n.blocks = 0 := by simp [Node.blocks, h]

/-! ### attribute tables: blocks follow the entries -/

theorem toList_length_add {t : HashTab} (h : HashTab.WF t) (k v : Bytes) :
    (t.add k v).toList.length = t.toList.length + (if (t.get k).isSome then 0 else 1) := by
  have hi := HashTab.hashKey_lt h k
  have hg := HashTab.getD_eq_getElem t.buckets [] (t.hashKey k) hi
  cases hf : HashTab.chainFind k (t.buckets[t.hashKey k]) with
  | some v0 =>
    have := HashTab.toList_length_set t (t.hashKey k) (HashTab.chainReplace k v (t.buckets[t.hashKey k])) hi
    rw [HashTab.chainReplace_length] at this
    simp only [HashTab.add, HashTab.get_def, hg, hf, HashTab.toList, Option.isSome_some, if_true, Nat.add_zero] at this ⊢
    omega
  | none =>
    have := HashTab.toList_length_set t (t.hashKey k) ((k, v) :: t.buckets[t.hashKey k]) hi
    simp only [HashTab.add, HashTab.get_def, hg, hf, HashTab.toList, Option.isSome_none, Bool.false_eq_true, if_false,
      List.length_cons] at this ⊢
    omega

theorem toList_length_drop {t : HashTab} (h : HashTab.WF t) (k : Bytes) :
    (t.drop k).1.toList.length + (if (t.drop k).2 = 0 then 1 else 0) = t.toList.length := by
  have hi := HashTab.hashKey_lt h k
  have hg := HashTab.getD_eq_getElem t.buckets [] (t.hashKey k) hi
  cases hf : HashTab.chainFind k (t.buckets[t.hashKey k]) with
  | some v0 =>
    have hmem : k ∈ (t.buckets[t.hashKey k]).map Prod.fst := by
      apply Classical.byContradiction
      intro hn
      rw [← HashTab.chainFind_none_iff] at hn
      rw [hn] at hf
      cases hf
    have hd := HashTab.chainDrop_length k _ hmem
    have := HashTab.toList_length_set t (t.hashKey k) (HashTab.chainDrop k (t.buckets[t.hashKey k])) hi
    simp only [HashTab.drop, hg, hf, HashTab.toList, if_true] at this ⊢
    omega
  | none =>
    simp only [HashTab.drop, hg, hf]
    simp

theorem freeNode_get (m : Mem) (s : Nat) (n : Node) (j : Nat) :
    (freeNode m s n).get j = if j = s ∧ s < m.size then { n with live := false } else m.get j :=
  Mem.get_put m s j { n with live := false }

theorem freeNode_size (m : Mem) (s : Nat) (n : Node) : (freeNode m s n).size = m.size := by
  simp [freeNode, Mem.size, Mem.put]

theorem freeNode_freed (m : Mem) (s : Nat) (n : Node) : (freeNode m s n).freed = m.freed ++ [s] := by
  simp [freeNode]

theorem freeNode_blocks (m : Mem) (s : Nat) (n : Node) :
    (freeNode m s n).blocks = m.blocks - attrBlocks n.attrs - dataBlocks n.data - 1 := by
  simp [freeNode]

theorem freeNode_liveBlocks (m : Mem) (s : Nat) (n : Node) :
    (freeNode m s n).liveBlocks = (m.put s { n with live := false }).liveBlocks := rfl

end Strophe.Store
