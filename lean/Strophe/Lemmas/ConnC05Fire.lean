/-
C05: one dispatch (`handler_fire_stanza`) against the ghost marks.  `fireStanza_count`: the counter
after the handlers ran is 0 when the element is marked (`rxMarks`), unchanged otherwise.
-/
import Strophe.Lemmas.ConnC05Same
import Strophe.Lemmas.ConnC05Hs

namespace Strophe.Lemmas.ConnC05
open Strophe Strophe.Conn Strophe.Lemmas.ConnC13

/-- handlers that do nothing to the negotiation -/
def quiet (fn : HFun) : Prop := fn = .sys .error ∨ fn = .userAll

/-- what must be known about the state in which a stanza is dispatched (provided by the C03
    invariant: at most one negotiation handler is pending) -/
structure Pre (c : Conn) : Prop where
  nd : (c.handlers.map (·.uid)).Nodup
  alone : ∀ h ∈ c.handlers, h.fn = .sys .sm →
    (∀ h' ∈ c.handlers, h'.uid = h.uid ∨ quiet h'.fn) ∧ (∀ h' ∈ c.idHandlers, quiet h'.fn)

/-! ### quiet handlers -/

/-- nothing the count depends on changed, nor the handler lists -/
structure Q1 (a b : Conn) : Prop where
  hs : b.handlers = a.handlers
  ids : b.idHandlers = a.idHandlers
  sm : b.sm = a.sm
  log : b.rxLog = a.rxLog
  has : b.hasSm = a.hasSm

theorem Q1.refl (a : Conn) : Q1 a a := ⟨rfl, rfl, rfl, rfl, rfl⟩
theorem Q1.trans {a b c : Conn} (h1 : Q1 a b) (h2 : Q1 b c) : Q1 a c :=
  ⟨h2.hs.trans h1.hs, h2.ids.trans h1.ids, h2.sm.trans h1.sm, h2.log.trans h1.log, h2.has.trans h1.has⟩

theorem runHandler_quiet (x : Conn) (h : Handler) (st : XTree) (hq : quiet h.fn) :
    Q1 x (runHandler x h st).1 ∧ (runHandler x h st).2 = true := by
  unfold runHandler
  rcases hq with e | e
  · rw [e]; exact ⟨⟨rfl, rfl, rfl, rfl, rfl⟩, rfl⟩
  · rw [e]; exact ⟨⟨rfl, rfl, rfl, rfl, rfl⟩, rfl⟩

theorem fireOne_quiet (x : Conn) (st : XTree) (v : Nat)
    (hq : ∀ h ∈ x.handlers, h.uid = v → quiet h.fn) : Q1 x (fireOne st x v) := by
  unfold fireOne
  split
  · exact Q1.refl x
  · rename_i h hf
    have hm := List.mem_of_find?_eq_some hf
    have hu : h.uid = v := by simpa using List.find?_some hf
    obtain ⟨q, k⟩ := runHandler_quiet x h st (hq h hm hu)
    split
    · exact Q1.refl x
    · split
      · generalize runHandler x h st = r at q k
        obtain ⟨c1, keep⟩ := r
        dsimp only at q k ⊢
        rw [k]; exact q
      · exact Q1.refl x

theorem fireIdOne_quiet (x : Conn) (st : XTree) (v : Nat)
    (hq : ∀ h ∈ x.idHandlers, quiet h.fn) : Q1 x (fireIdOne st x v) := by
  unfold fireIdOne
  split
  · exact Q1.refl x
  · rename_i h hf
    have hm := List.mem_of_find?_eq_some hf
    obtain ⟨q, k⟩ := runHandler_quiet x h st (hq h hm)
    split
    · exact Q1.refl x
    · generalize runHandler x h st = r at q k
      obtain ⟨c1, keep⟩ := r
      dsimp only at q k ⊢
      rw [k]; exact q

theorem foldIdQuiet (st : XTree) (l : List Nat) : ∀ (x : Conn), (∀ h ∈ x.idHandlers, quiet h.fn) →
    Q1 x (l.foldl (fireIdOne st) x) := by
  induction l with
  | nil => intro x _; exact Q1.refl x
  | cons v l ih =>
    intro x hq
    have q := fireIdOne_quiet x st v hq
    exact q.trans (ih _ (by rw [q.ids]; exact hq))

/-! ### any handler but `_handle_sm` -/

variable {c0 x : Conn} {w : Option Nat}

theorem Same_fireOne {st v} (h : Same c0 x) (hs : HS (some w) x) (hne : some v ≠ w) :
    Same c0 (fireOne st x v) := by
  unfold fireOne
  split
  · exact h
  · rename_i hd hf
    have hm := List.mem_of_find?_eq_some hf
    have hu : hd.uid = v := by simpa using List.find?_some hf
    refine pred_ite (fun _ => h) (fun hen => ?_)
    refine pred_ite (fun _ => ?_) (fun _ => h)
    have hk : hd.fn ≠ .sys .sm := by
      intro e
      have he : hd.enabled = true := by
        cases hb : hd.enabled
        · simp [hb] at hen
        · rfl
      exact hne (by rw [← hu]; exact hs.en w rfl hd hm e he)
    have r := Same_runHandler (st := st) h hk
    generalize runHandler x hd st = p at r
    obtain ⟨c1, keep⟩ := p
    dsimp only at r ⊢
    split
    · exact r
    · exact r

theorem Same_fireIdOne {u : Option (Option Nat)} {st v} (h : Same c0 x) (hs : HS u x) :
    Same c0 (fireIdOne st x v) := by
  unfold fireIdOne
  split
  · exact h
  · rename_i hd hf
    have hm := List.mem_of_find?_eq_some hf
    refine pred_ite (fun _ => h) (fun _ => ?_)
    have hk : hd.fn ≠ .sys .sm := by
      intro e
      have := hs.idk hd hm
      rw [e] at this; exact this
    have r := Same_runHandler (st := st) h hk
    generalize runHandler x hd st = p at r
    obtain ⟨c1, keep⟩ := p
    dsimp only at r ⊢
    split
    · exact r
    · exact r

theorem foldId_same {u : Option (Option Nat)} (st : XTree) (l : List Nat) :
    ∀ (x : Conn), Same c0 x → HS u x → Same c0 (l.foldl (fireIdOne st) x) ∧ HS u (l.foldl (fireIdOne st) x) := by
  induction l with
  | nil => intro x h hs; exact ⟨h, hs⟩
  | cons v l ih =>
    intro x h hs
    exact ih _ (Same_fireIdOne h hs) (HS_fireIdOne hs)

theorem fold_same (st : XTree) (l : List Nat) (hl : ∀ v ∈ l, some v ≠ w) :
    ∀ (x : Conn), Same c0 x → HS (some w) x → Same c0 (l.foldl (fireOne st) x) := by
  induction l with
  | nil => intro x h _; exact h
  | cons v l ih =>
    intro x h hs
    exact ih (fun v' hv' => hl v' (List.mem_cons_of_mem _ hv')) _
      (Same_fireOne h hs (hl v List.mem_cons_self)) (HS_fireOne hs)

/-! ### `_handle_sm` -/

def smName (st : XTree) : Bytes := st.name?.getD []

/-- `_handle_sm` restarts the count: `<enabled/>` while our `<enable/>` is outstanding, `<failed/>`
    with a cause -/
def zeroes (x : Conn) (st : XTree) : Prop :=
  (smName st = b "enabled" ∧ x.sm.enabled = true) ∨
  (smName st = b "failed" ∧ (st.childByNs Gen.nsStanzasIetf).isSome = true)

instance (x : Conn) (st : XTree) : Decidable (zeroes x st) := by unfold zeroes; infer_instance

def zeroed (x : Conn) : Conn := { x with sm := { x.sm with handledNr := 0 } }

theorem handleSm_zero {st : XTree} (hz : zeroes x st) : Same (zeroed x) (handleSm x st) := by
  unfold handleSm
  dsimp only
  rcases hz with ⟨hn, he⟩ | ⟨hn, hc⟩
  · unfold smName at hn
    rw [if_pos hn, if_neg (by simp [he])]
    ctrav
    all_goals exact ⟨rfl, rfl, rfl⟩
  · unfold smName at hn
    have n1 : ¬ st.name?.getD [] = b "enabled" := by rw [hn]; decide
    have n2 : ¬ st.name?.getD [] = b "resumed" := by rw [hn]; decide
    rw [if_neg n1, if_neg n2, if_pos hn]
    cases hcs : st.childByNs Gen.nsStanzasIetf with
    | none => rw [hcs] at hc; cases hc
    | some cause =>
      dsimp only
      ctrav
      all_goals first
        | exact ⟨rfl, rfl, rfl⟩
        | (refine ⟨rfl, ?_, ?_⟩ <;> (repeat' split) <;> rfl)

theorem handleSm_keep {st : XTree} (hz : ¬ zeroes x st) : Same x (handleSm x st) := by
  unfold handleSm
  dsimp only
  by_cases h1 : st.name?.getD [] = b "enabled"
  · have he : x.sm.enabled = false := by
      cases hb : x.sm.enabled
      · rfl
      · exact absurd (Or.inl ⟨h1, hb⟩) hz
    rw [if_pos h1, if_pos (by simp [he])]
    exact ⟨rfl, rfl, rfl⟩
  · rw [if_neg h1]
    by_cases h2 : st.name?.getD [] = b "resumed"
    · rw [if_pos h2]
      ctrav
      all_goals exact ⟨rfl, rfl, rfl⟩
    · rw [if_neg h2]
      by_cases h3 : st.name?.getD [] = b "failed"
      · rw [if_pos h3]
        cases hcs : st.childByNs Gen.nsStanzasIetf with
        | none => exact ⟨rfl, rfl, rfl⟩
        | some cause => exact absurd (Or.inr ⟨h3, by rw [hcs]; rfl⟩) hz
      · rw [if_neg h3]
        exact ⟨rfl, rfl, rfl⟩

/-! ### the dispatch while `_handle_sm` is pending -/

def enableAll (l : List Handler) : List Handler := l.map fun (h : Handler) => { h with enabled := true }

theorem enableAll_uids (l : List Handler) : (enableAll l).map (·.uid) = l.map (·.uid) := by
  unfold enableAll; rw [List.map_map]; rfl

theorem mem_enableAll {l : List Handler} {e : Handler} (h : e ∈ enableAll l) :
    ∃ h' ∈ l, e = { h' with enabled := true } := by
  obtain ⟨y, hy, rfl⟩ := List.mem_map.1 h
  exact ⟨y, hy, rfl⟩

theorem find_unique : ∀ (l : List Handler), (l.map (·.uid)).Nodup → ∀ a ∈ l,
    l.find? (fun h => h.uid = a.uid) = some a := by
  intro l
  induction l with
  | nil => intro _ a ha; cases ha
  | cons y l ih =>
    intro hnd a ha
    rw [List.map_cons, List.nodup_cons] at hnd
    rcases List.mem_cons.1 ha with rfl | ha
    · simp
    · have hne : y.uid ≠ a.uid := fun e => hnd.1 (by rw [e]; exact List.mem_map_of_mem ha)
      rw [List.find?_cons_of_neg (by simpa using hne)]
      exact ih hnd.2 a ha

theorem fireOne_eq {x : Conn} {st : XTree} {v : Nat} {h : Handler}
    (hfind : x.handlers.find? (fun h => decide (h.uid = v)) = some h) (hu : h.user = false) (he : h.enabled = true) :
    fireOne st x v =
      if hMatches h st then
        (if (runHandler x h st).2 then (runHandler x h st).1
         else { (runHandler x h st).1 with handlers := (runHandler x h st).1.handlers.filter (·.uid ≠ v) })
      else x := by
  unfold fireOne
  rw [hfind]
  dsimp only
  rw [hu, he]
  rfl

/-- the states of a dispatch before `_handle_sm` has run -/
structure R1 (c x : Conn) : Prop where
  hs : x.handlers = enableAll c.handlers
  ids : ∀ h' ∈ x.idHandlers, quiet h'.fn
  sm : x.sm = c.sm
  log : x.rxLog = c.rxLog
  has : x.hasSm = c.hasSm

theorem R1.step {c x y : Conn} (r : R1 c x) (q : Q1 x y) : R1 c y :=
  ⟨q.hs.trans r.hs, by rw [q.ids]; exact r.ids, q.sm.trans r.sm, q.log.trans r.log, q.has.trans r.has⟩

/-- what the count is compared with after the dispatch -/
def target (c : Conn) (st : XTree) : Conn :=
  if st.ns? = some Gen.nsSm ∧ zeroes c st then zeroed c else c

section
variable {c : Conn} {st : XTree} {hd : Handler}

theorem hs_of_R1 (pre : Pre c) (hs0 : HS none c) (hm : hd ∈ c.handlers) (hf : hd.fn = .sys .sm) {x : Conn}
    (r : R1 c x) : HS (some (some hd.uid)) x := by
  unfold HS
  rw [r.hs]
  refine ⟨?_, ?_, ?_⟩
  · intro e he
    obtain ⟨h', hh', rfl⟩ := mem_enableAll he
    exact hs0.shape h' hh'
  · intro e he
    rcases r.ids e he with q | q <;> (rw [q]; exact True.intro)
  · intro v hv e he hfe _
    cases hv
    obtain ⟨h', hh', rfl⟩ := mem_enableAll he
    rcases (pre.alone hd hm hf).1 h' hh' with q | q | q
    · exact congrArg some q
    · rw [show h'.fn = .sys .sm from hfe] at q; cases q
    · rw [show h'.fn = .sys .sm from hfe] at q; cases q

theorem same_target_of_R1 {x : Conn} (r : R1 c x) (hz : ¬(st.ns? = some Gen.nsSm ∧ zeroes c st)) :
    Same (target c st) x := by
  unfold target; rw [if_neg hz]
  exact ⟨by rw [r.sm], r.log, r.has⟩

/-- the visit of the `_handle_sm` handler -/
theorem fire_sm (pre : Pre c) (hs0 : HS none c) (hm : hd ∈ c.handlers) (hf : hd.fn = .sys .sm) {x : Conn}
    (r : R1 c x) :
    Same (target c st) (fireOne st x hd.uid) ∧ HS (some (some hd.uid)) (fireOne st x hd.uid) := by
  have hsx := hs_of_R1 pre hs0 hm hf r
  obtain ⟨s1, s2, s3, s4⟩ : hd.ns = some Gen.nsSm ∧ hd.name = none ∧ hd.type = none ∧ hd.user = false := by
    have := hs0.shape hd hm; rw [hf] at this; exact this
  have hfind : x.handlers.find? (fun h => h.uid = hd.uid) = some { hd with enabled := true } := by
    rw [r.hs]
    exact find_unique (enableAll c.handlers) (by rw [enableAll_uids]; exact pre.nd)
      { hd with enabled := true } (List.mem_map_of_mem hm)
  have hfind' : x.handlers.find? (fun h => decide (h.uid = hd.uid)) = some { hd with enabled := true } := hfind
  have hzx : zeroes x st ↔ zeroes c st := by unfold zeroes; rw [r.sm]
  rw [fireOne_eq hfind' s4 rfl]
  have e1 : runHandler x { hd with enabled := true } st =
      (if st.ns? ≠ some Gen.nsSm then (x, true) else (handleSm x st, false)) := by
    unfold runHandler; dsimp only; rw [hf]; rfl
  by_cases hmt : hMatches { hd with enabled := true } st = true
  · rw [if_pos hmt]
    by_cases hns : st.ns? = some Gen.nsSm
    · have e2 : runHandler x { hd with enabled := true } st = (handleSm x st, false) := by
        rw [e1, if_neg (fun a => a hns)]
      rw [e2]
      dsimp only
      rw [if_neg (by simp)]
      refine ⟨?_, HS_rec1 (HS_handleSm hsx)⟩
      show Same (target c st) (handleSm x st)
      by_cases hz : zeroes c st
      · have : Same (zeroed c) (zeroed x) := ⟨rfl, r.log, r.has⟩
        unfold target; rw [if_pos ⟨hns, hz⟩]
        exact this.trans (handleSm_zero (hzx.2 hz))
      · exact (same_target_of_R1 r (fun a => hz a.2)).trans (handleSm_keep (fun a => hz (hzx.1 a)))
    · have e2 : runHandler x { hd with enabled := true } st = (x, true) := by
        rw [e1, if_pos hns]
      rw [e2]
      dsimp only
      rw [if_pos rfl]
      exact ⟨same_target_of_R1 r (fun a => hns a.1), hsx⟩
  · have hns : ¬ st.ns? = some Gen.nsSm := by
      intro e
      apply hmt
      unfold hMatches; dsimp only; rw [s1, s2, s3]; simp [e]
    rw [if_neg hmt]
    exact ⟨same_target_of_R1 r (fun a => hns a.1), hsx⟩

theorem fold_B (pre : Pre c) (hs0 : HS none c) (hm : hd ∈ c.handlers) (hf : hd.fn = .sys .sm) (L : List Nat) :
    L.Nodup → ∀ x, R1 c x →
      (hd.uid ∈ L → Same (target c st) (L.foldl (fireOne st) x)) ∧
      (hd.uid ∉ L → R1 c (L.foldl (fireOne st) x)) := by
  induction L with
  | nil => intro _ x r; exact ⟨(fun a => nomatch a), fun _ => r⟩
  | cons v L ih =>
    intro hnd x r
    rw [List.nodup_cons] at hnd
    by_cases hv : v = hd.uid
    · subst hv
      refine ⟨fun _ => ?_, fun a => absurd List.mem_cons_self a⟩
      obtain ⟨f1, f2⟩ := fire_sm (st := st) pre hs0 hm hf r
      exact fold_same st L (fun v' hv' e => hnd.1 (by cases e; exact hv')) _ f1 f2
    · have q : Q1 x (fireOne st x v) := by
        apply fireOne_quiet
        intro e he heu
        rw [r.hs] at he
        obtain ⟨h', hh', rfl⟩ := mem_enableAll he
        rcases (pre.alone hd hm hf).1 h' hh' with a | a
        · exact absurd (heu.symm.trans a) hv
        · exact a
      obtain ⟨i1, i2⟩ := ih hnd.2 _ (r.step q)
      refine ⟨fun a => ?_, fun a => ?_⟩
      · rcases List.mem_cons.1 a with a | a
        · exact absurd a.symm hv
        · exact i1 a
      · exact i2 (fun b => a (List.mem_cons_of_mem _ b))

theorem fireStanza_B (pre : Pre c) (hs0 : HS none c) (hm : hd ∈ c.handlers) (hf : hd.fn = .sys .sm) :
    Same (target c st) (fireStanza c st) := by
  have hq : ∀ h' ∈ c.idHandlers, quiet h'.fn := (pre.alone hd hm hf).2
  have key : ∀ x, R1 c x → Same (target c st) ((x.handlers.map (·.uid)).foldl (fireOne st) x) := by
    intro x r
    have e : x.handlers.map (·.uid) = c.handlers.map (·.uid) := by rw [r.hs, enableAll_uids]
    rw [e]
    exact (fold_B pre hs0 hm hf _ pre.nd x r).1 (List.mem_map_of_mem (f := (·.uid)) hm)
  unfold fireStanza
  dsimp only
  split
  · rename_i id _
    apply key
    have r0 : R1 c { c with handlers := enableAll c.handlers,
                            idHandlers := c.idHandlers.map fun (h : Handler) => if h.id = some id then { h with enabled := true } else h } := by
      refine ⟨rfl, ?_, rfl, rfl, rfl⟩
      intro e he
      obtain ⟨y, hy, rfl⟩ := List.mem_map.1 he
      split
      · exact hq y hy
      · exact hq y hy
    exact r0.step (foldIdQuiet st _ _ r0.ids)
  · apply key
    exact ⟨rfl, hq, rfl, rfl, rfl⟩

/-- no `_handle_sm` pending: nothing touches the counter -/
theorem fireStanza_A (hs0 : HS none c) (hno : ∀ h ∈ c.handlers, h.fn ≠ .sys .sm) :
    Same c (fireStanza c st) := by
  have hsE : ∀ (ids : List Handler), (∀ h ∈ ids, iOk h.fn) →
      HS (some none) { c with handlers := enableAll c.handlers, idHandlers := ids } := by
    intro ids hids
    refine ⟨?_, hids, ?_⟩
    · intro e he
      obtain ⟨h', hh', rfl⟩ := mem_enableAll he
      exact hs0.shape h' hh'
    · intro v _ e he hfe _
      obtain ⟨h', hh', rfl⟩ := mem_enableAll he
      exact absurd hfe (hno h' hh')
  have key : ∀ x, Same c x → HS (some none) x → Same c ((x.handlers.map (·.uid)).foldl (fireOne st) x) :=
    fun x sx hx => fold_same (w := none) st _ (by intro _ _ e; cases e) x sx hx
  unfold fireStanza
  dsimp only
  split
  · rename_i id _
    have h0 := hsE (c.idHandlers.map fun (h : Handler) => if h.id = some id then { h with enabled := true } else h)
      (by
        intro e he
        obtain ⟨y, hy, rfl⟩ := List.mem_map.1 he
        split
        · exact hs0.idk y hy
        · exact hs0.idk y hy)
    obtain ⟨f1, f2⟩ := foldId_same (c0 := c) st
      (((c.idHandlers.map fun (h : Handler) => if h.id = some id then { h with enabled := true } else h).filter
        (·.id = some id)).map (·.uid))
      { c with handlers := enableAll c.handlers,
               idHandlers := c.idHandlers.map fun (h : Handler) => if h.id = some id then { h with enabled := true } else h }
      ⟨rfl, rfl, rfl⟩ h0
    exact key _ f1 f2
  · exact key _ ⟨rfl, rfl, rfl⟩ (hsE c.idHandlers hs0.idk)

theorem name_iff (st : XTree) (n : Bytes) (hn : n ≠ []) : smName st = n ↔ st.name? = some n := by
  unfold smName
  cases st.name? with
  | none => simp; first | exact fun e => hn e | exact fun e => hn e.symm
  | some m => simp

theorem marks_nil_of_no (hno : ∀ h ∈ c.handlers, h.fn ≠ .sys .sm) : rxMarks c st = [] := by
  have : (c.handlers.any fun h => h.fn = .sys .sm) = false := by
    rw [List.any_eq_false]
    intro h hh
    simpa using hno h hh
  unfold rxMarks smAnswer
  rw [this]
  simp

theorem marks_iff (hm : hd ∈ c.handlers) (hf : hd.fn = .sys .sm) :
    rxMarks c st = [] ↔ ¬(st.ns? = some Gen.nsSm ∧ zeroes c st) := by
  have hany : (c.handlers.any fun h => h.fn = .sys .sm) = true := by
    rw [List.any_eq_true]
    exact ⟨hd, hm, by simpa using hf⟩
  have n1 := name_iff st (b "enabled") (by decide)
  have n2 := name_iff st (b "failed") (by decide)
  have d1 : ¬ (b "failed" = b "enabled") := by decide
  have d2 : ¬ (b "enabled" = b "failed") := by decide
  unfold rxMarks smAnswer zeroes
  rw [hany, n1, n2]
  by_cases hns : st.ns? = some Gen.nsSm <;> by_cases h1 : st.name? = some (b "enabled") <;>
    by_cases h2 : st.name? = some (b "failed") <;> by_cases h3 : c.sm.enabled = true <;>
    by_cases h4 : (st.childByNs Gen.nsStanzasIetf).isSome = true <;> simp [hns, h1, h2, h3, h4, d1, d2]

/-- one dispatch against the marks of the history -/
theorem fireStanza_count (pre : Pre c) (hs0 : HS none c) :
    Same (if rxMarks c st = [] then c else zeroed c) (fireStanza c st) := by
  by_cases ex : ∃ h ∈ c.handlers, h.fn = .sys .sm
  · obtain ⟨hd, hm, hf⟩ := ex
    have := fireStanza_B (st := st) pre hs0 hm hf
    unfold target at this
    by_cases hz : st.ns? = some Gen.nsSm ∧ zeroes c st
    · rw [if_pos hz] at this
      rw [if_neg (fun e => (marks_iff hm hf).1 e hz)]
      exact this
    · rw [if_neg hz] at this
      rw [if_pos ((marks_iff hm hf).2 hz)]
      exact this
  · have hno : ∀ h ∈ c.handlers, h.fn ≠ .sys .sm := fun h hh e => ex ⟨h, hh, e⟩
    rw [if_pos (marks_nil_of_no hno)]
    exact fireStanza_A hs0 hno

end

/-! ### `_handle_stream_stanza` -/

theorem Same_smElement {c0 c : Conn} {st} (h : Same c0 c) : Same c0 (smHandleStanza.smElement c st) := by
  cauto smHandleStanza.smElement

theorem marks_cases (c : Conn) (st : XTree) :
    rxMarks c st = [] ∨ rxMarks c st = [.enabledAccepted] ∨ rxMarks c st = [.smReset] := by
  unfold rxMarks
  split
  · exact .inr (.inl rfl)
  · split
    · exact .inr (.inr rfl)
    · exact .inl rfl

theorem handleStreamStanza_agree {c : Conn} {st : XTree} (pre : Pre c) (hs0 : HS none c) (ag : Agree c) :
    Agree (handleStreamStanza c st) ∧ (handleStreamStanza c st).hasSm = c.hasSm := by
  unfold handleStreamStanza
  split
  · exact ⟨ag, rfl⟩
  · dsimp only
    have S := fireStanza_count (st := st) pre hs0
    generalize fireStanza c st = c0 at S
    -- the counter after the handlers, against the history up to the marks
    have a0 : c0.sm.handledNr = UInt32.ofNat (countSince (c0.rxLog ++ rxMarks c st)) := by
      rcases marks_cases c st with e | e | e
      · rw [e, if_pos rfl] at S
        rw [e, List.append_nil, S.1, S.2.1]; exact ag
      · rw [e, if_neg (by simp)] at S
        rw [e, countSince_snoc, S.1]; rfl
      · rw [e, if_neg (by simp)] at S
        rw [e, countSince_snoc, S.1]; rfl
    have hh : c0.hasSm = c.hasSm := by
      have := S.2.2
      split at this <;> exact this
    generalize rxMarks c st = mk at a0
    by_cases hen : c0.sm.enabled = true
    · rw [if_pos hen]
      unfold smHandleStanza
      dsimp only
      cases hns : st.ns? with
      | none =>
        dsimp only
        have : Same { c0 with rxLog := c0.rxLog ++ mk ++ [RxEv.stanza (countsInbound c0 st)] }
            (smHandleStanza.smElement { c0 with rxLog := c0.rxLog ++ mk ++ [RxEv.stanza (countsInbound c0 st)] } st) :=
          Same_smElement ⟨rfl, rfl, rfl⟩
        refine ⟨?_, this.2.2.trans hh⟩
        unfold Agree
        rw [this.1, this.2.1]
        show c0.sm.handledNr = _
        rw [countSince_snoc, a0]
        simp [countsInbound, hns, cntStep]
      | some ns =>
        dsimp only
        by_cases hne : ns = Gen.nsSm
        · rw [if_neg (by simpa using hne)]
          have : Same { c0 with rxLog := c0.rxLog ++ mk ++ [RxEv.stanza (countsInbound c0 st)] }
              (smHandleStanza.smElement { c0 with rxLog := c0.rxLog ++ mk ++ [RxEv.stanza (countsInbound c0 st)] } st) :=
            Same_smElement ⟨rfl, rfl, rfl⟩
          refine ⟨?_, this.2.2.trans hh⟩
          unfold Agree
          rw [this.1, this.2.1]
          show c0.sm.handledNr = _
          rw [countSince_snoc, a0]
          simp [countsInbound, hns, hne, cntStep]
        · rw [if_pos hne]
          refine ⟨?_, hh⟩
          show c0.sm.handledNr + 1 = UInt32.ofNat (countSince (c0.rxLog ++ mk ++ [RxEv.stanza (countsInbound c0 st)]))
          rw [countSince_snoc, a0]
          have : countsInbound c0 st = true := by simp [countsInbound, hns, hne, hen]
          rw [this]
          exact (ofNat_succ _).symm
    · rw [if_neg hen]
      refine ⟨?_, hh⟩
      show c0.sm.handledNr = UInt32.ofNat (countSince (c0.rxLog ++ mk ++ [RxEv.stanza (countsInbound c0 st)]))
      rw [countSince_snoc, a0]
      have : countsInbound c0 st = false := by
        have : c0.sm.enabled = false := by cases hb : c0.sm.enabled <;> simp_all
        simp [countsInbound, this]
      rw [this]; rfl

end Strophe.Lemmas.ConnC05
