/-
Proofs behind Props/C02.lean (credentials obey the TLS and mechanism policy).
-/
import Strophe.Model.ConnOps

namespace Strophe.Lemmas.ConnC02
open Strophe Strophe.Conn

/-- mechanisms stronger than PLAIN that the client supports without further configuration -/
def strongerMask : Nat := scramMaskAll ||| Gen.saslMaskDigestmd5

theorem mandatory_tls_gate (jid pass : Option Bytes) (cert : Bool) (flags : Nat) (ops : List Op)
    (hu : userOps ops) :
    ∀ r ∈ (exec (fresh jid pass cert flags) ops).tx,
      r.snap.mandatory = true → r.item.authBearing = true → r.sec = true := by
  sorry

theorem never_starttls_when_disabled (jid pass : Option Bytes) (cert : Bool) (flags : Nat)
    (ops : List Op) (hu : userOps ops) :
    ∀ r ∈ (exec (fresh jid pass cert flags) ops).tx,
      r.item = .starttls → r.snap.tlsDisabled = false := by
  sorry

theorem plain_only_if_nothing_stronger (jid pass : Option Bytes) (cert : Bool) (flags : Nat)
    (ops : List Op) (hu : userOps ops) :
    ∀ r ∈ (exec (fresh jid pass cert flags) ops).tx, ∀ t, r.item = .auth (b "PLAIN") t →
      r.snap.g.offeredMechs &&& strongerMask = 0 ∧
      (r.snap.cert = true → r.snap.g.offeredMechs &&& Gen.saslMaskExternal = 0) := by
  sorry

theorem legacy_only_if_enabled (jid pass : Option Bytes) (cert : Bool) (flags : Nat)
    (ops : List Op) (hu : userOps ops) :
    ∀ r ∈ (exec (fresh jid pass cert flags) ops).tx, ∀ u res p, r.item = .legacy u res p →
      r.snap.authLegacy = true ∧ r.snap.isClient = true := by
  sorry

/-- the flag words the API refuses: DISABLE_TLS together with MANDATORY_TLS, LEGACY_SSL or TRUST_TLS -/
def conflict (f : Nat) : Bool :=
  f &&& Gen.flagDisableTls ≠ 0 &&
    (f &&& Gen.flagMandatoryTls ≠ 0 || f &&& Gen.flagLegacySsl ≠ 0 || f &&& Gen.flagTrustTls ≠ 0)

/-- complete table of `xmpp_conn_set_flags` over all 256 flag words and all connection states -/
theorem set_flags_table (c : Conn) (f : Nat) (hf : f < 256) :
    ((setFlags c f).2 = 0 ↔ (c.state = .disconnected ∧ conflict f = false)) ∧
    ((setFlags c f).2 = 0 → getFlags (setFlags c f).1 = f) ∧
    ((setFlags c f).2 ≠ 0 → (setFlags c f).1 = c) := by
  sorry

theorem tls_failed_never_secured (c : Conn) (h : c.tlsFailed = true) : isSecured c = false := by
  sorry

end Strophe.Lemmas.ConnC02
