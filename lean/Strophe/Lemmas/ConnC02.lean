/-
Proofs behind Props/C02.lean (credentials obey the TLS and mechanism policy).

The work is done in ConnC02Base (frame lemmas), ConnC02Inv (the invariant `Inv`), ConnC02Auth (`_auth`,
`_handle_features`), ConnC02Handlers / ConnC02Run (stanza handlers and dispatch), ConnC02Loop (parser events,
timers) and ConnC02Step (write loop, `xmpp_run_once`, API calls, histories): every record of every history
satisfies `RecOk` (`all_records`).
-/
import Strophe.Model.ConnOps
import Strophe.Lemmas.ConnC02Step

namespace Strophe.Lemmas.ConnC02
open Strophe Strophe.Conn

/-- mechanisms stronger than PLAIN that the client supports without further configuration -/
def strongerMask : Nat := scramMaskAll ||| Gen.saslMaskDigestmd5

/-- with MANDATORY_TLS set when an element is written, no authentication data leaves outside TLS -/
theorem mandatory_tls_gate (jid pass : Option Bytes) (cert : Bool) (flags : Nat) (ops : List Op)
    (hu : userOps ops) :
    ∀ r ∈ (exec (fresh jid pass cert flags) ops).tx,
      r.mandatoryW = true → r.item.authBearing = true → r.sec = true :=
  fun r hr hm hb => (all_records jid pass cert flags ops hu r hr).1 (.inl hm) hb

/-- the same with the flag as it was when the element was queued -/
theorem mandatory_tls_gate_snap (jid pass : Option Bytes) (cert : Bool) (flags : Nat) (ops : List Op)
    (hu : userOps ops) :
    ∀ r ∈ (exec (fresh jid pass cert flags) ops).tx,
      r.snap.mandatory = true → r.item.authBearing = true → r.sec = true :=
  fun r hr hm hb => (all_records jid pass cert flags ops hu r hr).1 (.inr hm) hb

theorem never_starttls_when_disabled (jid pass : Option Bytes) (cert : Bool) (flags : Nat)
    (ops : List Op) (hu : userOps ops) :
    ∀ r ∈ (exec (fresh jid pass cert flags) ops).tx,
      r.item = .starttls → r.snap.tlsDisabled = false ∧ r.tlsDisabledW = false :=
  fun r hr hi => (all_records jid pass cert flags ops hu r hr).2.1 hi

theorem plain_only_if_nothing_stronger (jid pass : Option Bytes) (cert : Bool) (flags : Nat)
    (ops : List Op) (hu : userOps ops) :
    ∀ r ∈ (exec (fresh jid pass cert flags) ops).tx, ∀ t, r.item = .auth (b "PLAIN") t →
      r.snap.g.offeredMechs &&& strongerMask = 0 ∧
      (r.snap.cert = true → r.snap.g.offeredMechs &&& Gen.saslMaskExternal = 0) :=
  fun r hr t hi => (all_records jid pass cert flags ops hu r hr).2.2.2 t hi

theorem legacy_only_if_enabled (jid pass : Option Bytes) (cert : Bool) (flags : Nat)
    (ops : List Op) (hu : userOps ops) :
    ∀ r ∈ (exec (fresh jid pass cert flags) ops).tx, ∀ u res p, r.item = .legacy u res p →
      r.snap.authLegacy = true ∧ r.snap.isClient = true ∧ r.legacyW = true :=
  fun r hr u res p hi => (all_records jid pass cert flags ops hu r hr).2.2.1 u res p hi

/-- the flag words the API refuses: DISABLE_TLS together with MANDATORY_TLS, LEGACY_SSL or TRUST_TLS -/
def conflict (f : Nat) : Bool :=
  f &&& Gen.flagDisableTls ≠ 0 &&
    (f &&& Gen.flagMandatoryTls ≠ 0 || f &&& Gen.flagLegacySsl ≠ 0 || f &&& Gen.flagTrustTls ≠ 0)

theorem flags_fin : ∀ f : Fin 256,
    (f.val &&& (knownFlags ^^^ 0xFFFFFFFFFFFFFFFF) = 0) ∧
    ((if f.val &&& Gen.flagDisableTls ≠ 0 then Gen.flagDisableTls else 0) |||
     (if f.val &&& Gen.flagMandatoryTls ≠ 0 then Gen.flagMandatoryTls else 0) |||
     (if f.val &&& Gen.flagLegacySsl ≠ 0 then Gen.flagLegacySsl else 0) |||
     (if f.val &&& Gen.flagTrustTls ≠ 0 then Gen.flagTrustTls else 0) |||
     (if f.val &&& Gen.flagDisableSm ≠ 0 then Gen.flagDisableSm else 0) |||
     (if f.val &&& Gen.flagEnableCompression ≠ 0 then Gen.flagEnableCompression else 0) |||
     (if f.val &&& Gen.flagCompressionDontReset ≠ 0 then Gen.flagCompressionDontReset else 0) |||
     (if f.val &&& Gen.flagLegacyAuth ≠ 0 then Gen.flagLegacyAuth else 0)) = f.val := by
  decide +kernel

theorem getFlags_applyFlags (c : Conn) (f : Nat) (hf : f < 256) : getFlags (applyFlags c f) = f := by
  have h := (flags_fin ⟨f, hf⟩).2
  simp only [] at h
  simpa [getFlags, applyFlags] using h

/-- complete table of `xmpp_conn_set_flags` over all 256 flag words and all connection states -/
theorem set_flags_table (c : Conn) (f : Nat) (hf : f < 256) :
    ((setFlags c f).2 = 0 ↔ (c.state = .disconnected ∧ conflict f = false)) ∧
    ((setFlags c f).2 = 0 → getFlags (setFlags c f).1 = f) ∧
    ((setFlags c f).2 ≠ 0 → (setFlags c f).1 = c) := by
  have hk := (flags_fin ⟨f, hf⟩).1
  simp only [] at hk
  have e : xmppEInvOp ≠ 0 := by decide
  have hcf : conflict f = (f &&& Gen.flagDisableTls ≠ 0 &&
      (f &&& Gen.flagMandatoryTls ≠ 0 || f &&& Gen.flagLegacySsl ≠ 0 || f &&& Gen.flagTrustTls ≠ 0)) := rfl
  rw [setFlags_eq, ← hcf]
  by_cases hs : c.state = .disconnected
  · by_cases hc : conflict f = true
    · simp [hs, hc, e]
    · simp [hs, hc, hk, getFlags_applyFlags c f hf]
  · simp [hs, e]

theorem tls_failed_never_secured (c : Conn) (h : c.tlsFailed = true) : isSecured c = false := by
  simp [isSecured, h]

end Strophe.Lemmas.ConnC02
