/-
Proofs behind Props/C13.lean (connection lifecycle) and Props/C01.lean (robustness).
-/
import Strophe.Model.ConnOps
import Strophe.Lemmas.ConnC13Inv
import Strophe.Lemmas.ConnC13Timed
import Strophe.Lemmas.ConnC13Good

namespace Strophe.Lemmas.ConnC13
open Strophe Strophe.Conn

def isDisconnectEv : Ev → Bool
  | .disconnect .. => true
  | _ => false

def isConnectEv : Ev → Bool
  | .connect => true
  | .rawConnect => true
  | _ => false

/-- the three public predicates -/
def isConnecting (c : Conn) : Bool := c.state = .connecting || (c.state = .connected && !c.negotiated)
def isConnected (c : Conn) : Bool := c.state = .connected && c.negotiated
def isDisconnected (c : Conn) : Bool := c.state = .disconnected

theorem isDisconnectEv_eq (e : Ev) : isDisconnectEv e = isDisc e := by cases e <;> rfl
theorem isConnectEv_eq (e : Ev) : isConnectEv e = isConn e := by cases e <;> rfl

theorem auth_noTls (c : Conn) (h : c.tlsSupport = false) (m : Nat) : auth c (m + 1) = auth c 1 := by
  have e1 := auth.eq_2 c m
  have e2 := auth.eq_2 c 0
  have h1 : ¬ c.tlsSupport = true := by simp [h]
  rw [e1, e2, if_neg h1, if_neg h1]

theorem auth_succ_succ (c : Conn) (m : Nat) : auth c (m + 2) = auth c 2 := by
  have e1 := auth.eq_2 c (m + 1)
  have e2 := auth.eq_2 c 1
  rw [e1, e2]
  by_cases h1 : c.tlsSupport = true
  · rw [if_pos h1, if_pos h1]
    by_cases h2 : c.tlsNewFail = true
    · rw [if_pos h2, if_pos h2, auth_noTls _ rfl, auth_noTls _ rfl 0]
    · rw [if_neg h2, if_neg h2]
  · rw [if_neg h1, if_neg h1]

theorem one_disconnect_per_attempt (jid pass : Option Bytes) (cert : Bool) (flags : Nat)
    (ops : List Op) (a : Nat) :
    (((exec (fresh jid pass cert flags) ops).evs.filter
        fun p => p.1.attempt = a && isDisconnectEv p.2).length) ≤ 1 := by
  have hf : (fun p : Ghost × Ev => decide (p.1.attempt = a) && isDisconnectEv p.2) =
      (fun p => decide (p.1.attempt = a) && isDisc p.2) := by
    funext p; rw [isDisconnectEv_eq]
  rw [hf]
  rcases Inv_reach jid pass cert flags ops with h | ⟨a', h⟩
  · have : (exec (fresh jid pass cert flags) ops).evs = [] := h.hevs
    rw [this]; simp
  · exact h.hcnt a

/-- an accepted attempt that has ended produced exactly one disconnect notification, a running one
    none yet; before the first accepted connect there is nothing to report -/
theorem ended_iff_notified (jid pass : Option Bytes) (cert : Bool) (flags : Nat) (ops : List Op) :
    let c := exec (fresh jid pass cert flags) ops
    (c.g.attempt = 0 → c.state = .disconnected ∧ c.evs = []) ∧
    (0 < c.g.attempt → (c.state = .disconnected → c.g.notifiedDisconnect = 1) ∧
                        (c.state ≠ .disconnected → c.g.notifiedDisconnect = 0)) := by
  intro c
  rcases Inv_reach jid pass cert flags ops with h | ⟨a', h⟩
  · refine ⟨fun _ => ⟨h.hst, h.hevs⟩, fun hp => ?_⟩
    have : c.g.attempt = 0 := h.hatt
    omega
  · have hatt : c.g.attempt = a' := h.hatt
    have hpos := h.hpos
    have hnd : c.g.notifiedDisconnect = if c.state = .disconnected then 1 else 0 := h.hnd
    refine ⟨fun h0 => by omega, fun _ => ⟨fun hs => by rw [hnd, if_pos hs], fun hs => by rw [hnd, if_neg hs]⟩⟩

/-- "connected" is never reported after the disconnect of the same attempt.

    Stanza handlers only start while the connection is not disconnected (`_handle_stream_stanza`),
    but inside ONE dispatch (`handler_fire_stanza`) a handler can still `conn_disconnect` directly
    (`_auth` when TLS is mandatory and missing, reached from `_handle_features` and from
    `_handle_sasl_result` on "failure") and a LATER handler of the same dispatch could complete the
    negotiation.  That is excluded only because
    (a) a direct disconnect happens only for the element names "features" / "failure", while the
        non-id handlers complete the negotiation only for "enabled" / "resumed" / "failed" /
        "handshake";
    (b) `_handle_features` is registered only with the name filter "features";
    (c) the id handlers (bind / session / legacy auth), which complete the negotiation whatever
        the element name, run BEFORE the other handlers and never disconnect directly.
    Invariants behind the proof (Lemmas/ConnC13Good.lean): `HL` (what sits in which handler list),
    `G` (this property), and the lifecycle invariant `J` (Lemmas/ConnC13Inv.lean). -/
theorem connect_before_disconnect (jid pass : Option Bytes) (cert : Bool) (flags : Nat)
    (ops : List Op) :
    ∀ p ∈ (exec (fresh jid pass cert flags) ops).evs, isConnectEv p.2 = true →
      p.1.notifiedDisconnect = 0 := by
  intro p hp hc
  rw [isConnectEv_eq] at hc
  exact good_reach jid pass cert flags ops p hp hc

/-- the attempt number recorded with a notification is that of an accepted connect -/
theorem events_belong_to_attempts (jid pass : Option Bytes) (cert : Bool) (flags : Nat)
    (ops : List Op) :
    ∀ p ∈ (exec (fresh jid pass cert flags) ops).evs,
      0 < p.1.attempt ∧ p.1.attempt ≤ (exec (fresh jid pass cert flags) ops).g.attempt := by
  intro p hp
  rcases Inv_reach jid pass cert flags ops with h | ⟨a', h⟩
  · have : (exec (fresh jid pass cert flags) ops).evs = [] := h.hevs
    rw [this] at hp; cases hp
  · have hatt : (exec (fresh jid pass cert flags) ops).g.attempt = a' := h.hatt
    rw [hatt]; exact h.hev p hp

theorem predicates_partition (c : Conn) :
    (isConnecting c && !isConnected c && !isDisconnected c) ||
    (!isConnecting c && isConnected c && !isDisconnected c) ||
    (!isConnecting c && !isConnected c && isDisconnected c) = true := by
  unfold isConnecting isConnected isDisconnected
  cases c.state <;> cases c.negotiated <;> decide

/-- the predicates agree with the notifications -/
theorem predicates_agree (jid pass : Option Bytes) (cert : Bool) (flags : Nat) (ops : List Op) :
    let c := exec (fresh jid pass cert flags) ops
    (isConnected c = true → c.g.notifiedConnect = true ∧ c.g.notifiedDisconnect = 0) ∧
    (isDisconnected c = true → c.g.attempt = 0 ∨ c.g.notifiedDisconnect = 1) := by
  intro c
  rcases Inv_reach jid pass cert flags ops with h | ⟨a', h⟩
  · have hst : c.state = .disconnected := h.hst
    refine ⟨fun hc => ?_, fun _ => .inl h.hatt⟩
    simp [isConnected, hst] at hc
  · have hnd : c.g.notifiedDisconnect = if c.state = .disconnected then 1 else 0 := h.hnd
    have hneg : c.negotiated = true → c.g.notifiedConnect = true := h.hneg
    refine ⟨fun hc => ?_, fun hd => ?_⟩
    · simp only [isConnected, Bool.and_eq_true, decide_eq_true_eq] at hc
      refine ⟨hneg hc.2, ?_⟩
      rw [hnd, if_neg (by simp [hc.1])]
    · simp only [isDisconnected, decide_eq_true_eq] at hd
      right; rw [hnd, if_pos hd]

/-- a timed handler is not invoked before its period has elapsed since it was registered, re-armed
    or last fired: one pass of `handler_fire_timed` leaves it untouched -/
theorem timed_not_early (c : Conn) (t : Timed) (ht : t ∈ c.timed) (hn : (c.timed.map (·.uid)).Nodup)
    (h : c.now - t.lastStamp < t.period) :
    ∃ t' ∈ (fireTimed c).timed, t'.uid = t.uid ∧ t'.lastStamp = t.lastStamp ∧ t'.fn = t.fn :=
  timed_not_early' c t ht hn h

/-- … and is invoked by the next pass once due (then it is re-stamped with the current time or,
    if it returned false, removed).  As a statement about ONE pass from an ARBITRARY state this
    needs one more fact about `c`: the uid counter is ahead of the handler's
    uid (`_partial`: with that hypothesis).  Without it the statement is false: a handler that fires
    earlier in the same pass may register a new timed handler (`xmpp_disconnect` → `_disconnect_cleanup`)
    which then receives the SAME uid as `t`, is found first by the loop and is not yet enabled, so
    `t` is skipped — see the `example` below.  The model hands out uids from `nextUid`, so this
    cannot happen in a reachable state (`timed_uids_fresh`, `timed_fires_when_due_reachable`). -/
theorem timed_fires_when_due_partial (c : Conn) (t : Timed) (ht : t ∈ c.timed)
    (hn : (c.timed.map (·.uid)).Nodup) (hs : c.state = .connected)
    (hu : t.user = false) (h : c.now - t.lastStamp ≥ t.period) (hfresh : t.uid < c.nextUid) :
    ∀ t' ∈ (fireTimed c).timed, t'.uid = t.uid → t'.lastStamp = c.now :=
  timed_fires_when_due' c t ht hn hs hu h hfresh

/-- every uid in use is below the uid counter, in every reachable state -/
theorem timed_uids_fresh (jid pass : Option Bytes) (cert : Bool) (flags : Nat) (ops : List Op) :
    ∀ x ∈ (exec (fresh jid pass cert flags) ops).timed, x.uid < (exec (fresh jid pass cert flags) ops).nextUid := by
  rcases Inv_reach jid pass cert flags ops with h | ⟨a', h⟩
  · exact h.htu
  · exact h.htu

/-- … and is invoked by the next pass once due (then it is re-stamped with the current time or,
    if it returned false, removed): in every reachable state, without further hypotheses (the
    one-pass statement for arbitrary states is false, see `timed_fires_when_due_partial` and the
    `example` below) -/
theorem timed_fires_when_due (jid pass : Option Bytes) (cert : Bool) (flags : Nat) (ops : List Op)
    (t : Timed) :
    let c := exec (fresh jid pass cert flags) ops
    t ∈ c.timed → c.state = .connected → t.user = false → c.now - t.lastStamp ≥ t.period →
      ∀ t' ∈ (fireTimed c).timed, t'.uid = t.uid → t'.lastStamp = c.now := by
  intro c ht hs hu h
  have hn : (c.timed.map (·.uid)).Nodup := by
    rcases Inv_reach jid pass cert flags ops with h | ⟨a', h⟩
    · exact h.htn
    · exact h.htn
  exact timed_fires_when_due' c t ht hn hs hu h (timed_uids_fresh jid pass cert flags ops t ht)

/-- the counterexample to the one-pass statement without `hfresh` (an UNREACHABLE state: uid 2 is in use
    although the counter is at 1): after the pass the due handler (uid 2, `missingSession`) still
    carries its old stamp 0 -/
example :
    let t : Timed := { uid := 2, fn := TFun.missingSession, period := 10, lastStamp := 0 }
    let t5 : Timed := { uid := 5, fn := TFun.missingBind, period := 10, lastStamp := 0 }
    let c : Conn := { state := CState.connected, nextUid := 1, timed := [t5, t] }
    (c.timed.map (·.uid)).Nodup ∧ c.state = .connected ∧ t.user = false ∧ c.now - t.lastStamp ≥ t.period ∧
    ((fireTimed c).timed.map fun x => (x.uid, x.lastStamp)) = [(2, 1000000), (2, 0)] := by decide

/-- timed handlers of a connection only run while it is connected -/
theorem timed_only_connected (c : Conn) (h : c.state ≠ .connected) : fireTimed c = c := by
  unfold fireTimed; simp [h]

/-- uids of timed handlers are pairwise distinct in every reachable state -/
theorem timed_uids_nodup (jid pass : Option Bytes) (cert : Bool) (flags : Nat) (ops : List Op) :
    ((exec (fresh jid pass cert flags) ops).timed.map (·.uid)).Nodup := by
  rcases Inv_reach jid pass cert flags ops with h | ⟨a', h⟩
  · exact h.htn
  · exact h.htn

/-- settings that only make sense offline are refused unless disconnected -/
theorem flags_offline_only (c : Conn) (f : Nat) (h : c.state ≠ .disconnected) :
    setFlags c f = (c, xmppEInvOp) := by
  unfold setFlags; simp [h]

/-- a second connect on a connection that is not disconnected is refused and changes nothing -/
theorem connect_refused_unless_disconnected (c : Conn) (d : Bytes) (t : CType)
    (h : c.state ≠ .disconnected) : connConnect c d t = (c, xmppEInvOp) := by
  unfold connConnect; simp [h]

/-- a stream error sent by the server is reported with its condition and text in the disconnect
    notification: `_handle_error` stores (condition, text) … -/
theorem stream_error_stored (c : Conn) (cond : Bytes) (i : Nat) (txt : Bytes)
    (hc : Gen.streamErrorNames.find? (fun p => p.2 = cond) = some (i, cond)) (hne : cond ≠ b "text")
    (htxt : txt ≠ []) :
    (handleError c (.tag (b "error") (some Gen.nsStreams) []
        [.tag cond (some Gen.nsStreamsIetf) [] [],
         .tag (b "text") (some Gen.nsStreamsIetf) [] [.text txt]])).streamError = some (i, some txt) := by
  have e1 : (XTree.tag cond (some Gen.nsStreamsIetf) [] []).name?.getD [] = cond := rfl
  have e2 : (XTree.tag (b "text") (some Gen.nsStreamsIetf) [] [.text txt]).name?.getD [] = b "text" := rfl
  have e3 : (XTree.tag (b "text") (some Gen.nsStreamsIetf) [] [.text txt]).getText = some txt := by
    simp [XTree.getText, htxt]
  unfold handleError
  simp only [XTree.children, List.foldl, XTree.ns?, if_true]
  rw [e1, e2, e3, hc]
  simp [hne]

/-- … and the disconnect notification carries what is stored -/
theorem disconnect_reports_stream_error (c : Conn) (h : c.state ≠ .disconnected) :
    (connDisconnect c).evs =
      c.evs ++ [(c.g, .disconnect c.error (c.streamError.map (·.1)) (c.streamError.bind (·.2)))] := by
  unfold connDisconnect; simp only [h, if_false]
  unfold notify resetSmForReconnect
  split <;> rfl

/-! ### C01 -/

/-- no crash site of the model is reachable (after the repairs recorded in known_findings.json the
    model has none left; this theorem keeps it that way) -/
theorem no_crash (jid pass : Option Bytes) (cert : Bool) (flags : Nat) (ops : List Op) :
    (exec (fresh jid pass cert flags) ops).crash = none := by
  rcases Inv_reach jid pass cert flags ops with h | ⟨a', h⟩
  · exact h.hcrash
  · exact h.hcrash

/-- the fuel of `_auth`'s self-recursion (one retry when TLS cannot be initialised) suffices -/
theorem auth_fuel_enough (c : Conn) (n : Nat) : auth c (n + 3) = auth c 3 := by
  rw [auth_succ_succ c (n+1), auth_succ_succ c 1]

/-- a disconnected connection object can be connected again: the call is accepted whenever the
    API's own preconditions hold — a JID is set, and its domain part is not empty and does not
    start with a dot (a JID without a usable domain is refused by `xmpp_connect_client` since
    c81bf46; without that precondition the statement is false: `example` below, JID "") -/
theorem reconnectable (jid pass : Option Bytes) (cert : Bool) (flags : Nat) (ops : List Op) :
    let c := exec (fresh jid pass cert flags) ops
    c.state = .disconnected → c.jid.isSome → c.tcpFail = false →
    (∀ j, c.jid = some j → (Jid.domain j).head? ≠ none ∧ (Jid.domain j).head? ≠ some 46) →
      (connectClient c).2 = 0 ∧ (connectClient c).1.state = .connecting ∧
      (connectClient c).1.queue = [] := by
  intro c hs hj ht hdom
  cases hjid : c.jid with
  | none => simp [hjid] at hj
  | some j =>
    have hr : ¬ c.state ≠ .disconnected := by simp [hs]
    have hd : ¬ ((Jid.domain j).head? = none ∨ (Jid.domain j).head? = some 46) := by
      have := hdom j hjid
      intro h; rcases h with h | h
      · exact this.1 h
      · exact this.2 h
    unfold connectClient
    simp only [hjid]
    rw [if_neg hd]
    split <;>
      simp [connConnect, connReset, systemDeleteAll, prepareReset, hs, ht]

/-- counterexample to `reconnectable` without the domain precondition (a JID without a usable
    domain is refused by xmpp_connect_client since c81bf46): the JID "" is present, the object is
    disconnected, TCP would succeed, and the call is refused with XMPP_EINVOP -/
example :
    let c := exec (fresh (some []) none false 0) []
    c.state = .disconnected ∧ c.jid.isSome = true ∧ c.tcpFail = false ∧ (connectClient c).2 = xmppEInvOp := by
  decide

/-- releasing ends a running attempt with its (single) disconnect notification -/
theorem release_disconnects (c : Conn) : (release c).state = .disconnected := by
  unfold release connDisconnect
  split
  · split
    · assumption
    · rfl
  · rename_i h
    cases hs : c.state <;> simp_all

end Strophe.Lemmas.ConnC13
