/-
Proofs behind Props/C13.lean (connection lifecycle) and Props/C01.lean (robustness).
-/
import Strophe.Model.ConnOps

namespace Strophe.Lemmas.ConnC13
open Strophe Strophe.Conn

def isDisconnectEv : Ev → Bool
  | .disconnect .. => true
  | _ => false

def isConnectEv : Ev → Bool
  | .connect => true
  | .rawConnect => true
  | _ => false

/-- the three public predicates -/
def isConnecting (c : Conn) : Bool := c.state = .connecting || (c.state = .connected && !c.negotiated)
def isConnected (c : Conn) : Bool := c.state = .connected && c.negotiated
def isDisconnected (c : Conn) : Bool := c.state = .disconnected

theorem one_disconnect_per_attempt (jid pass : Option Bytes) (cert : Bool) (flags : Nat)
    (ops : List Op) (a : Nat) :
    (((exec (fresh jid pass cert flags) ops).evs.filter
        fun p => p.1.attempt = a && isDisconnectEv p.2).length) ≤ 1 := by
  sorry

/-- an accepted attempt that has ended produced exactly one disconnect notification, a running one
    none yet; before the first accepted connect there is nothing to report -/
theorem ended_iff_notified (jid pass : Option Bytes) (cert : Bool) (flags : Nat) (ops : List Op) :
    let c := exec (fresh jid pass cert flags) ops
    (c.g.attempt = 0 → c.state = .disconnected ∧ c.evs = []) ∧
    (0 < c.g.attempt → (c.state = .disconnected → c.g.notifiedDisconnect = 1) ∧
                        (c.state ≠ .disconnected → c.g.notifiedDisconnect = 0)) := by
  sorry

/-- "connected" is never reported after the disconnect of the same attempt -/
theorem connect_before_disconnect (jid pass : Option Bytes) (cert : Bool) (flags : Nat)
    (ops : List Op) :
    ∀ p ∈ (exec (fresh jid pass cert flags) ops).evs, isConnectEv p.2 = true →
      p.1.notifiedDisconnect = 0 := by
  sorry

/-- the attempt number recorded with a notification is that of an accepted connect -/
theorem events_belong_to_attempts (jid pass : Option Bytes) (cert : Bool) (flags : Nat)
    (ops : List Op) :
    ∀ p ∈ (exec (fresh jid pass cert flags) ops).evs,
      0 < p.1.attempt ∧ p.1.attempt ≤ (exec (fresh jid pass cert flags) ops).g.attempt := by
  sorry

theorem predicates_partition (c : Conn) :
    (isConnecting c && !isConnected c && !isDisconnected c) ||
    (!isConnecting c && isConnected c && !isDisconnected c) ||
    (!isConnecting c && !isConnected c && isDisconnected c) = true := by
  sorry

/-- the predicates agree with the notifications -/
theorem predicates_agree (jid pass : Option Bytes) (cert : Bool) (flags : Nat) (ops : List Op) :
    let c := exec (fresh jid pass cert flags) ops
    (isConnected c = true → c.g.notifiedConnect = true ∧ c.g.notifiedDisconnect = 0) ∧
    (isDisconnected c = true → c.g.attempt = 0 ∨ c.g.notifiedDisconnect = 1) := by
  sorry

/-- a timed handler is not invoked before its period has elapsed since it was registered, re-armed
    or last fired: one pass of `handler_fire_timed` leaves it untouched -/
theorem timed_not_early (c : Conn) (t : Timed) (ht : t ∈ c.timed) (hn : (c.timed.map (·.uid)).Nodup)
    (h : c.now - t.lastStamp < t.period) :
    ∃ t' ∈ (fireTimed c).timed, t'.uid = t.uid ∧ t'.lastStamp = t.lastStamp ∧ t'.fn = t.fn := by
  sorry

/-- … and is invoked by the next pass once due (then it is re-stamped with the current time or,
    if it returned false, removed) -/
theorem timed_fires_when_due (c : Conn) (t : Timed) (ht : t ∈ c.timed)
    (hn : (c.timed.map (·.uid)).Nodup) (hs : c.state = .connected)
    (hu : t.user = false) (h : c.now - t.lastStamp ≥ t.period) :
    ∀ t' ∈ (fireTimed c).timed, t'.uid = t.uid → t'.lastStamp = c.now := by
  sorry

/-- timed handlers of a connection only run while it is connected -/
theorem timed_only_connected (c : Conn) (h : c.state ≠ .connected) : fireTimed c = c := by
  sorry

/-- uids of timed handlers are pairwise distinct in every reachable state -/
theorem timed_uids_nodup (jid pass : Option Bytes) (cert : Bool) (flags : Nat) (ops : List Op) :
    ((exec (fresh jid pass cert flags) ops).timed.map (·.uid)).Nodup := by
  sorry

/-- settings that only make sense offline are refused unless disconnected -/
theorem flags_offline_only (c : Conn) (f : Nat) (h : c.state ≠ .disconnected) :
    setFlags c f = (c, xmppEInvOp) := by
  sorry

/-- a second connect on a connection that is not disconnected is refused and changes nothing -/
theorem connect_refused_unless_disconnected (c : Conn) (d : Bytes) (t : CType)
    (h : c.state ≠ .disconnected) : connConnect c d t = (c, xmppEInvOp) := by
  sorry

/-- a stream error sent by the server is reported with its condition and text in the disconnect
    notification: `_handle_error` stores (condition, text) … -/
theorem stream_error_stored (c : Conn) (cond : Bytes) (i : Nat) (txt : Bytes)
    (hc : Gen.streamErrorNames.find? (fun p => p.2 = cond) = some (i, cond)) (hne : cond ≠ b "text")
    (htxt : txt ≠ []) :
    (handleError c (.tag (b "error") (some Gen.nsStreams) []
        [.tag cond (some Gen.nsStreamsIetf) [] [],
         .tag (b "text") (some Gen.nsStreamsIetf) [] [.text txt]])).streamError = some (i, some txt) := by
  sorry

/-- … and the disconnect notification carries what is stored -/
theorem disconnect_reports_stream_error (c : Conn) (h : c.state ≠ .disconnected) :
    (connDisconnect c).evs =
      c.evs ++ [(c.g, .disconnect c.error (c.streamError.map (·.1)) (c.streamError.bind (·.2)))] := by
  sorry

/-! ### C01 -/

/-- no crash site of the model is reachable (after the repairs recorded in known_findings.json the
    model has none left; this theorem keeps it that way) -/
theorem no_crash (jid pass : Option Bytes) (cert : Bool) (flags : Nat) (ops : List Op) :
    (exec (fresh jid pass cert flags) ops).crash = none := by
  sorry

/-- the fuel of `_auth`'s self-recursion (one retry when TLS cannot be initialised) suffices -/
theorem auth_fuel_enough (c : Conn) (n : Nat) : auth c (n + 3) = auth c 3 := by
  sorry

/-- a disconnected connection object can be connected again: the call is accepted whenever the
    API's own preconditions hold -/
theorem reconnectable (jid pass : Option Bytes) (cert : Bool) (flags : Nat) (ops : List Op) :
    let c := exec (fresh jid pass cert flags) ops
    c.state = .disconnected → c.jid.isSome → c.tcpFail = false →
      (connectClient c).2 = 0 ∧ (connectClient c).1.state = .connecting ∧
      (connectClient c).1.queue = [] := by
  sorry

/-- releasing ends a running attempt with its (single) disconnect notification -/
theorem release_disconnects (c : Conn) : (release c).state = .disconnected := by
  sorry

end Strophe.Lemmas.ConnC13
