/-
C07 — helper lemmas, part 1: the SCRAM primitives.
  * `crypto_HMAC_parts` is RFC 2104 HMAC of the concatenation (`hmacParts_*`)
  * `Realizes alg F`: a row of `scram_algs[]` computes the standard H / HMAC
  * `hi_eq_spec`: SCRAM_Hi = U1 XOR … XOR Ui, and ClientKey / ClientSignature / ClientProof
  * strtok / strtol / decimal / base64 facts used by the server-first parser
-/
import Strophe.Model.Sasl
import Strophe.Spec.Rfc5802
import Strophe.Lemmas.HashHmac
import Strophe.Lemmas.Base64
open Strophe Strophe.Hash Strophe.Sasl
open Strophe.Spec.Rfc5802

namespace Strophe.Lemmas.Sasl

/-- `crypto_HMAC` = `crypto_HMAC_parts` with an empty second part -/
theorem hmacParts_nil (alg : Alg) (key text : Bytes) : hmacParts alg key text [] = hmac alg key text := by
  unfold hmacParts hmac
  simp

theorem hmacParts_generic (alg : Alg) (H : Bytes → Bytes) (B : Nat) (key t1 t2 : Bytes)
    (hB : hmacBlockSize alg = B) (hD : alg.digestSize ≤ B)
    (hdl : ∀ x, (H x).length = alg.digestSize)
    (hhash : key.length > B → alg.hash key = some (H key))
    (hin : ∀ a, a.length = B →
      alg.final (alg.update (alg.update (alg.update alg.init a) t1) t2) = some (H (a ++ (t1 ++ t2))))
    (hout : ∀ a d, a.length = B → d.length = alg.digestSize →
      alg.final (alg.update (alg.update alg.init a) d) = some (H (a ++ d)))
    (ht2 : t2 ≠ []) :
    hmacParts alg key t1 t2 = some (Spec.Hash.hmac H B key (t1 ++ t2)) := by
  have hpos : t2.length > 0 := List.length_pos_iff.mpr ht2
  unfold hmacParts Spec.Hash.hmac
  simp only [hB, Gen.hmacIpad, Gen.hmacOpad, hpos, if_true]
  by_cases hk : key.length ≤ B
  · have hk' : ¬ key.length > B := by omega
    simp only [hk, hk', if_true, if_false, Option.bind_some, memcpy_zeros]
    have hlen : (key ++ Spec.Hash.zeros (B - key.length)).length = B := by
      simp [Spec.Hash.zeros]; omega
    rw [hin _ (by simpa using hlen)]
    simp only [Option.bind_some]
    rw [List.take_of_length_le (by rw [hdl]; exact Nat.le_refl _),
      hout _ _ (by simpa using hlen) (hdl _)]
  · have hk' : key.length > B := by omega
    simp only [hk, hk', if_true, if_false, hhash hk', Option.map_some, Option.bind_some, memcpy_zeros]
    have hlen : (H key ++ Spec.Hash.zeros (B - (H key).length)).length = B := by
      simp [Spec.Hash.zeros, hdl]; omega
    rw [hin _ (by simpa using hlen)]
    simp only [Option.bind_some]
    rw [List.take_of_length_le (by rw [hdl]; exact Nat.le_refl _),
      hout _ _ (by simpa using hlen) (hdl _)]

theorem hmacParts_sha1 (key t1 t2 : Bytes) :
    hmacParts algSha1 key t1 t2 = some (Spec.Hash.hmacSha1 key (t1 ++ t2)) := by
  by_cases h2 : t2 = []
  · subst h2; rw [hmacParts_nil, List.append_nil]; exact hmac_sha1 key t1
  apply hmacParts_generic algSha1 Spec.Hash.sha1 64 key t1 t2 (by decide) (by decide) sha1_length
  · intro _
    have := sha1_stream [key]
    simpa [algSha1, Sha1.hash] using this
  · intro a _
    have := sha1_stream [a, t1, t2]
    simpa [algSha1] using this
  · intro a d _ _
    have := sha1_stream [a, d]
    simpa [algSha1] using this
  · exact h2

theorem hmacParts_sha256 (key t1 t2 : Bytes) (hk : key.length < 2 ^ 60) (ht : t1.length + t2.length < 2 ^ 60) :
    hmacParts algSha256 key t1 t2 = some (Spec.Hash.hmacSha256 key (t1 ++ t2)) := by
  by_cases h2 : t2 = []
  · subst h2; rw [hmacParts_nil, List.append_nil]; exact hmac_sha256 key t1 hk (by simpa using ht)
  apply hmacParts_generic algSha256 Spec.Hash.sha256 64 key t1 t2 (by decide) (by decide) sha256_length
  · intro _
    have := sha256_stream [key] (by simp; omega)
    simpa [algSha256, Sha256.hash] using this
  · intro a ha
    have := sha256_stream [a, t1, t2] (by simp [ha]; omega)
    simpa [algSha256] using this
  · intro a d ha hd
    have hd' : d.length = 32 := hd
    have := sha256_stream [a, d] (by simp [ha, hd'])
    simpa [algSha256] using this
  · exact h2

theorem hmacParts_sha512 (key t1 t2 : Bytes) (hk : key.length < 2 ^ 60) (ht : t1.length + t2.length < 2 ^ 60) :
    hmacParts algSha512 key t1 t2 = some (Spec.Hash.hmacSha512 key (t1 ++ t2)) := by
  by_cases h2 : t2 = []
  · subst h2; rw [hmacParts_nil, List.append_nil]; exact hmac_sha512 key t1 hk (by simpa using ht)
  apply hmacParts_generic algSha512 Spec.Hash.sha512 128 key t1 t2 (by decide) (by decide) sha512_length
  · intro _
    have := sha512_stream [key] (by simp; omega)
    simpa [algSha512, Sha512.hash] using this
  · intro a ha
    have := sha512_stream [a, t1, t2] (by simp [ha]; omega)
    simpa [algSha512] using this
  · intro a d ha hd
    have hd' : d.length = 64 := hd
    have := sha512_stream [a, d] (by simp [ha, hd'])
    simpa [algSha512] using this
  · exact h2

/-- the algorithm table entry `alg` computes the standard functions `F` (for inputs below 2^60
    bytes, the domain of the LibTomCrypt code) -/
structure Realizes (alg : Alg) (F : HashFn) : Prop where
  ds : alg.digestSize = F.hLen
  small : F.hLen ≤ Gen.Sasl.hiTmpSize
  hmacLen : ∀ k t, (F.HMAC k t).length = F.hLen
  hLen : ∀ m, (F.H m).length = F.hLen
  hmac : ∀ k t, k.length < 2 ^ 60 → t.length < 2 ^ 60 → Hash.hmac alg k t = some (F.HMAC k t)
  hmacParts : ∀ k a b, k.length < 2 ^ 60 → a.length + b.length < 2 ^ 60 →
    Sasl.hmacParts alg k a b = some (F.HMAC k (a ++ b))
  hash : ∀ m, m.length < 2 ^ 60 → alg.hash m = some (F.H m)

theorem xorBytes_eq (a b : Bytes) : xorBytes a b = XOR a b := rfl

theorem XOR_length (a b : Bytes) (h : a.length = b.length) : (XOR a b).length = a.length := by
  simp [XOR, h]

theorem U_length {F : HashFn} (hl : ∀ k m, (F.HMAC k m).length = F.hLen) (str salt : Bytes) (k : Nat) :
    (U F str salt k).length = F.hLen := by
  cases k <;> simp [U, hl]

theorem HiAcc_length {F : HashFn} (hl : ∀ k m, (F.HMAC k m).length = F.hLen) (str salt : Bytes) :
    ∀ k, (HiAcc F str salt k).length = F.hLen
  | 0 => by simp [HiAcc, U_length hl]
  | k + 1 => by
    simp only [HiAcc]
    rw [XOR_length _ _ (by rw [HiAcc_length hl str salt k, U_length hl])]
    exact HiAcc_length hl str salt k

theorem Hi_length {F : HashFn} (hl : ∀ k m, (F.HMAC k m).length = F.hLen) (str salt : Bytes) (i : Nat) :
    (Hi F str salt i).length = F.hLen := HiAcc_length hl str salt _

variable {alg : Alg} {F : HashFn}

theorem hLen_lt (R : Realizes alg F) : F.hLen < 2 ^ 60 := by
  have := R.small
  simp only [Gen.Sasl.hiTmpSize] at this
  omega

theorem hiLoop_eq (R : Realizes alg F) (text salt : Bytes) (ht : text.length < 2 ^ 60) :
    ∀ n k, hiLoop alg text n (U F text salt k) (HiAcc F text salt k) = some (HiAcc F text salt (k + n))
  | 0, k => by simp [hiLoop]
  | n + 1, k => by
    simp only [hiLoop]
    rw [R.hmac text _ ht (by rw [U_length R.hmacLen]; exact hLen_lt R)]
    simp only [Option.bind_some, xorBytes_eq]
    have := hiLoop_eq R text salt ht n (k + 1)
    simp only [U, HiAcc] at this
    rw [this]
    congr 2
    omega

/-- `hi_eq_spec`: SCRAM_Hi computes U1 XOR … XOR Ui (RFC 5802 §2.2) for every salt and i ≥ 1 -/
theorem hi_eq_spec (R : Realizes alg F) (text salt : Bytes) (i : Nat) (hi1 : 1 ≤ i)
    (ht : text.length < 2 ^ 60) (hs : salt.length < 2 ^ 59) :
    hi alg text salt i = .ok (Hi F text salt i) := by
  unfold hi
  have h1 : ¬ alg.digestSize > Gen.Sasl.hiTmpSize := by rw [R.ds]; have := R.small; omega
  have h2 : ¬ i = 0 := by omega
  rw [if_neg h1, if_neg h2]
  have hint : Gen.Sasl.hiInt1 = INT1 := rfl
  rw [hint, R.hmacParts text salt INT1 ht (by simp [INT1]; omega)]
  simp only [Option.bind_some]
  have := hiLoop_eq R text salt ht (i - 1) 0
  simp only [U, HiAcc] at this
  rw [this]
  simp [ofDigest, Hi]

theorem hi_zero (text salt : Bytes) (h : alg.digestSize ≤ Gen.Sasl.hiTmpSize) :
    hi alg text salt 0 = .ok (zeros alg.digestSize) := by
  unfold hi
  rw [if_neg (by omega)]
  simp

theorem clientKeyLabel_eq : Gen.Sasl.clientKeyLabel = asc ['C', 'l', 'i', 'e', 'n', 't', ' ', 'K', 'e', 'y'] := by
  decide

theorem clientKey_eq_spec (R : Realizes alg F) (pw salt : Bytes) (i : Nat) (hi1 : 1 ≤ i)
    (ht : pw.length < 2 ^ 60) (hs : salt.length < 2 ^ 59) :
    clientKey alg pw salt i = .ok (ClientKey F (SaltedPassword F pw salt i)) := by
  unfold clientKey
  rw [hi_eq_spec R pw salt i hi1 ht hs]
  simp only [Res.bind]
  have hl : (Hi F pw salt i).length = F.hLen := Hi_length R.hmacLen pw salt i
  rw [List.take_of_length_le (by rw [hl, R.ds]; exact Nat.le_refl _),
    R.hmac _ _ (by rw [hl]; exact hLen_lt R) (by decide)]
  simp [ofDigest, ClientKey, SaltedPassword, Normalize, clientKeyLabel_eq]

theorem clientSignature_eq_spec (R : Realizes alg F) (key am : Bytes) (hk : key.length = F.hLen)
    (ha : am.length < 2 ^ 60) :
    clientSignature alg key am = .ok (ClientSignature F (StoredKey F key) am) := by
  unfold clientSignature
  rw [List.take_of_length_le (by rw [hk, R.ds]; exact Nat.le_refl _),
    R.hash key (by rw [hk]; exact hLen_lt R)]
  simp only [Option.bind_some]
  rw [List.take_of_length_le (by rw [R.hLen, R.ds]; exact Nat.le_refl _),
    R.hmac _ _ (by rw [R.hLen]; exact hLen_lt R) ha]
  simp [ofDigest, ClientSignature, StoredKey]

theorem clientProof_eq_spec (R : Realizes alg F) (key sign : Bytes) (hk : key.length = F.hLen)
    (hs : sign.length = F.hLen) :
    clientProof alg key sign = ClientProof key sign := by
  unfold clientProof ClientProof
  rw [List.take_of_length_le (by rw [hk, R.ds]; exact Nat.le_refl _),
    List.take_of_length_le (by rw [hs, R.ds]; exact Nat.le_refl _)]
  rfl

/-! ### strtok -/

theorem tokensAux_nocomma (s rest : Bytes) (h : ∀ c ∈ s, c ≠ comma) (cur : Bytes) :
    tokensAux (s ++ rest) cur = tokensAux rest (s.reverse ++ cur) := by
  induction s generalizing cur with
  | nil => rfl
  | cons c s ih =>
    have hc : (c == comma) = false := by simpa using h c (by simp)
    simp only [List.cons_append, tokensAux, hc]
    rw [show (if false = true then (if cur.isEmpty = true then tokensAux (s ++ rest) [] else
        cur.reverse :: tokensAux (s ++ rest) []) else tokensAux (s ++ rest) (c :: cur)) =
        tokensAux (s ++ rest) (c :: cur) from by simp]
    rw [ih (fun x hx => h x (by simp [hx]))]
    simp

/-- a non-empty comma-free run followed by a comma is one token -/
theorem tokens_cons (p rest : Bytes) (hne : p ≠ []) (h : ∀ c ∈ p, c ≠ comma) :
    tokensAux (p ++ comma :: rest) [] = p :: tokensAux rest [] := by
  rw [tokensAux_nocomma p _ h]
  simp [tokensAux, hne]

theorem tokens_last (p : Bytes) (hne : p ≠ []) (h : ∀ c ∈ p, c ≠ comma) :
    tokensAux p [] = [p] := by
  have := tokensAux_nocomma p [] h []
  rw [List.append_nil] at this
  rw [this]
  simp [tokensAux, hne]

/-! ### decimal numbers -/

theorem ofNat_toNat_small (n : Nat) (h : n < 256) : (UInt8.ofNat n).toNat = n := by
  simp [UInt8.toNat_ofNat', Nat.mod_eq_of_lt h]

theorem isDigit_ofNat (d : Nat) (h : d < 10) : isDigit (UInt8.ofNat (48 + d)) = true := by
  have : ∀ d : Fin 10, isDigit (UInt8.ofNat (48 + d.val)) = true := by decide
  exact this ⟨d, h⟩

theorem decimal_digits (n : Nat) : ∀ c ∈ decimal n, isDigit c = true := by
  induction n using decimal.induct with
  | case1 n h =>
    rw [decimal, dif_pos h]
    intro c hc
    simp only [List.mem_singleton] at hc
    subst hc
    exact isDigit_ofNat n h
  | case2 n h ih =>
    rw [decimal, dif_neg h]
    intro c hc
    simp only [List.mem_append, List.mem_singleton] at hc
    rcases hc with hc | hc
    · exact ih c hc
    · subst hc; exact isDigit_ofNat _ (Nat.mod_lt _ (by decide))

theorem decimal_ne_nil (n : Nat) : decimal n ≠ [] := by
  rw [decimal]
  split <;> simp

def digitFold (l : Bytes) (a : Nat) : Nat := l.foldl (fun a c => a * 10 + (c.toNat - 48)) a

theorem digitFold_decimal (n : Nat) : digitFold (decimal n) 0 = n := by
  induction n using decimal.induct with
  | case1 n h =>
    rw [decimal, dif_pos h]
    simp [digitFold]
    omega
  | case2 n h ih =>
    rw [decimal, dif_neg h]
    unfold digitFold at ih ⊢
    rw [List.foldl_append, ih]
    simp
    omega

theorem takeWhile_all {α : Type} (p : α → Bool) (l : List α) (h : ∀ x ∈ l, p x = true) : l.takeWhile p = l := by
  induction l with
  | nil => rfl
  | cons a l ih =>
    simp [List.takeWhile_cons, h a (by simp), ih (fun x hx => h x (by simp [hx]))]

theorem digit_facts (c : UInt8) (h : isDigit c = true) : isSpace c = false ∧ c ≠ 45 ∧ c ≠ 43 ∧ c ≠ comma := by
  have : ∀ c : Fin 256, isDigit (UInt8.ofNat c.val) = true →
      isSpace (UInt8.ofNat c.val) = false ∧ UInt8.ofNat c.val ≠ 45 ∧ UInt8.ofNat c.val ≠ 43 ∧
      UInt8.ofNat c.val ≠ comma := by decide +kernel
  have := this ⟨c.toNat, c.toNat_lt⟩
  simp only [UInt8.ofNat_toNat] at this
  exact this h

/-- `strtol` reads back the decimal rendering -/
theorem strtol_decimal (n : Nat) (h : n < 2 ^ 63) : strtol (decimal n) = (n : Int) := by
  have hd := decimal_digits n
  have hne := decimal_ne_nil n
  have hf := digitFold_decimal n
  cases hs : decimal n with
  | nil => exact absurd hs hne
  | cons c rest =>
    rw [hs] at hd hf
    obtain ⟨hsp, h45, h43, _⟩ := digit_facts c (hd c (by simp))
    unfold strtol
    have hdrop : (c :: rest).dropWhile isSpace = c :: rest := by simp [List.dropWhile_cons, hsp]
    simp only [hdrop, List.head?_cons]
    have e45 : (some c == some (45 : UInt8)) = false := by simpa using h45
    have e43 : (some c == some (43 : UInt8)) = false := by simpa using h43
    simp only [e45, e43, Bool.or_false, Bool.false_eq_true, if_false]
    simp only [takeWhile_all isDigit (c :: rest) hd]
    unfold digitFold at hf
    rw [hf]
    have : ¬ n > 2 ^ 63 - 1 := by omega
    simp [this]

theorem toU32_small (n : Nat) (h : n < 2 ^ 32) : toU32 (n : Int) = n := by
  unfold toU32
  have : ((n : Int) % (2 ^ 32 : Int)) = (n : Int) := by
    apply Int.emod_eq_of_lt <;> omega
  rw [this]; simp

theorem decimal_nocomma (n : Nat) : ∀ c ∈ decimal n, c ≠ comma :=
  fun c hc => (digit_facts c (decimal_digits n c hc)).2.2.2

/-! ### base64 facts -/

theorem chr_ne_comma : ∀ k : Fin 65, Base64.chr k.val ≠ comma := by decide +kernel

theorem chr_ne_comma' (k : Nat) (h : k < 65) : Base64.chr k ≠ comma := chr_ne_comma ⟨k, h⟩

theorem encode_nocomma (bs : Bytes) : ∀ c ∈ Base64.encode bs, c ≠ comma := by
  induction bs using Base64.encode.induct with
  | case1 a b c rest ih =>
    intro x hx
    simp only [Base64.encode, List.mem_cons] at hx
    rcases hx with hx | hx | hx | hx | hx
    · subst hx; exact chr_ne_comma' _ (by omega)
    · subst hx; exact chr_ne_comma' _ (by omega)
    · subst hx; exact chr_ne_comma' _ (by omega)
    · subst hx; exact chr_ne_comma' _ (by omega)
    · exact ih x hx
  | case2 a =>
    intro x hx
    have ha := a.toNat_lt
    simp only [Base64.encode, List.mem_cons, List.not_mem_nil, or_false, Base64.pad] at hx
    rcases hx with hx | hx | hx | hx <;> subst hx <;> exact chr_ne_comma' _ (by omega)
  | case3 a b =>
    intro x hx
    have ha := a.toNat_lt
    have hb := b.toNat_lt
    simp only [Base64.encode, List.mem_cons, List.not_mem_nil, or_false, Base64.pad] at hx
    rcases hx with hx | hx | hx | hx <;> subst hx <;> exact chr_ne_comma' _ (by omega)
  | case4 => intro x hx; simp [Base64.encode] at hx

theorem encode_ne_nil (bs : Bytes) (h : bs ≠ []) : Base64.encode bs ≠ [] := by
  intro e
  have := Lemmas.Base64.encode_length bs
  rw [e] at this
  have hl : 0 < bs.length := List.length_pos_iff.mpr h
  simp at this
  omega

theorem decodeBin_encode (bs : Bytes) (h : bs ≠ []) :
    Base64.decodeBin (Base64.encode bs) = some (bs, bs.length) := Lemmas.Base64.decode_encode bs h

end Strophe.Lemmas.Sasl
