/-
The negotiation token, part 3: one dispatch.  Entering a handler (the handler that runs is the one
pending thing), leaving it (it is removed), timers, stream headers.
-/
import Strophe.Lemmas.ConnC04Inv7

namespace Strophe.Lemmas.ConnC04
open Strophe Strophe.Conn

variable {c : Conn} {ut : Option Nat}

theorem tokP_none_of_some {uid : Nat} {x : Handler} (h : tokP (some uid) x = true) : tokP none x = true := by
  simp only [tokP, Bool.and_eq_true, decide_eq_true_eq] at h ⊢
  exact ⟨h.1, by simp⟩

theorem tokP_none_iff {x : Handler} : tokP none x = isTok x.fn := by
  simp [tokP]

/-- a pending stanza handler (not `_handle_features`) starts to run -/
theorem Tk_enterH {hd : Handler} (h : Tk none ut 1 c) (hw : HW c) (hm : hd ∈ c.handlers) (ht : isTok hd.fn = true)
    (hnf : hd.fn ≠ .sys .features) :
    Tk (some hd.uid) ut 0 c ∧ (hd.fn ≠ .sys .sm → Off c) ∧ c.sm.id = none := by
  have e1 := cnt_exempt hm ht
  have e2 := cnt_le_none (some hd.uid) c.idHandlers
  have hle := h.le
  have hn1 : 1 ≤ cnt none c.handlers := by omega
  have hid : c.sm.id = none := by
    cases hi : c.sm.id with
    | none => rfl
    | some i =>
      have := (h.c1 (by rw [hi]; rfl)).2
      omega
  refine ⟨⟨by omega, fun he => ?_, ?_, h.frp, fun hi => ?_⟩, fun hns => ⟨?_, hid⟩, hid⟩
  · obtain ⟨a1, a2, a3⟩ := h.en he
    exact ⟨a1, fun x hx hp => a2 x hx (tokP_none_of_some hp), by omega⟩
  · intro t htm hf hu
    obtain ⟨x, hx, hfx, _⟩ := h.mt t htm hf hu
    refine ⟨x, hx, hfx, ?_⟩
    intro e
    have : x = hd := eq_of_uid_eq hw.ndh hx hm (Option.some.inj e)
    rw [this] at hfx; exact hnf hfx
  · rw [hid] at hi; cases hi
  · cases he : c.sm.enabled with
    | false => rfl
    | true =>
      have := (h.en he).2.1 hd hm (by rw [tokP_none_iff]; exact ht)
      exact absurd this hns

/-- `_handle_features` starts to run: it deletes the `missingFeatures` timer first -/
theorem Tk_enterF {hd : Handler} {st} (h : Tk none ut 1 c) (hm : hd ∈ c.handlers) (hf : hd.fn = .sys .features) :
    Tk (some hd.uid) ut 0 (delTimed (noteOffers c st) .missingFeatures) ∧
    Off (delTimed (noteOffers c st) .missingFeatures) := by
  have ht : isTok hd.fn = true := by rw [hf]; rfl
  have e1 := cnt_exempt hm ht
  have e2 := cnt_le_none (some hd.uid) c.idHandlers
  have hle := h.le
  have hid : c.sm.id = none := by
    cases hi : c.sm.id with
    | none => rfl
    | some i =>
      have := (h.c1 (by rw [hi]; rfl)).2
      omega
  have hen : c.sm.enabled = false := by
    cases he : c.sm.enabled with
    | false => rfl
    | true =>
      have := (h.en he).2.1 hd hm (by rw [tokP_none_iff]; exact ht)
      rw [hf] at this; cases this
  refine ⟨⟨by show cnt (some hd.uid) c.handlers + cnt (some hd.uid) c.idHandlers + frN c.resetParser c.pst ≤ 0; omega,
    fun he => ?_, ?_, h.frp, fun hi => ?_⟩, hen, hid⟩
  · have : c.sm.enabled = true := he
    rw [hen] at this; cases this
  · intro t htm hfn _
    have : t ∈ c.timed.filter (·.fn ≠ TFun.missingFeatures) := htm
    have := (List.mem_filter.1 this).2
    simp [hfn] at this
  · have : c.sm.id.isSome = true := hi
    rw [hid] at this; cases this

/-- a pending id handler (bind / session) starts to run -/
theorem Tk_enterI {hd : Handler} (h : Tk none ut 1 c) (hw : HW c) (hm : hd ∈ c.idHandlers) (ht : isTok hd.fn = true) :
    Tk (some hd.uid) ut 0 c ∧ Off c := by
  have e1 := cnt_exempt hm ht
  have e2 := cnt_le_none (some hd.uid) c.handlers
  have hle := h.le
  have hid : c.sm.id = none := by
    cases hi : c.sm.id with
    | none => rfl
    | some i =>
      have := (h.c1 (by rw [hi]; rfl)).2
      omega
  have hen : c.sm.enabled = false := by
    cases he : c.sm.enabled with
    | false => rfl
    | true =>
      have := (h.en he).2.2
      omega
  refine ⟨⟨by omega, fun he => ?_, ?_, h.frp, fun hi => ?_⟩, hen, hid⟩
  · rw [hen] at he; cases he
  · intro t htm hf hu
    obtain ⟨x, hx, hfx, _⟩ := h.mt t htm hf hu
    refine ⟨x, hx, hfx, ?_⟩
    intro e
    exact hw.dj x hx hd hm (Option.some.inj e)
  · rw [hid] at hi; cases hi

/-- the stanza handler that has run is removed -/
theorem Tk_leaveH {c1 : Conn} {hd : Handler} (h : Tk (some hd.uid) ut 1 c1) (hw : HW c1) (hm : hd ∈ c1.handlers) :
    Tk none ut 1 { c1 with handlers := c1.handlers.filter (·.uid ≠ hd.uid) } := by
  have e1 := cnt_remove hd.uid c1.handlers
  have e2 : cnt (some hd.uid) c1.idHandlers = cnt none c1.idHandlers :=
    cnt_other (fun x hx e => hw.dj hd hm x hx e.symm)
  refine ⟨?_, fun he => ?_, ?_, h.frp, fun hi => ?_⟩
  · show cnt none (c1.handlers.filter _) + cnt none c1.idHandlers + _ ≤ 1
    rw [e1, ← e2]; exact h.le
  · obtain ⟨a1, a2, a3⟩ := h.en he
    refine ⟨a1, ?_, by show cnt none c1.idHandlers = 0; rw [← e2]; exact a3⟩
    intro x hx hp
    obtain ⟨hx1, hx2⟩ := List.mem_filter.1 hx
    have hne : x.uid ≠ hd.uid := by simpa using hx2
    apply a2 x hx1
    simp only [tokP, Bool.and_eq_true, decide_eq_true_eq] at hp ⊢
    exact ⟨hp.1, fun e => hne (Option.some.inj e)⟩
  · intro t htm hf hu
    obtain ⟨x, hx, hfx, hne⟩ := h.mt t htm hf hu
    refine ⟨x, List.mem_filter.2 ⟨hx, ?_⟩, hfx, by simp⟩
    have : x.uid ≠ hd.uid := fun e => hne (by rw [e])
    simpa using this
  · obtain ⟨a1, a2⟩ := h.c1 hi
    refine ⟨a1, ?_⟩
    show cnt none (c1.handlers.filter _) + cnt none c1.idHandlers + _ = 0
    rw [e1, ← e2]; exact a2

/-- the id handler that has run is removed -/
theorem Tk_leaveI {c1 : Conn} {hd : Handler} (h : Tk (some hd.uid) ut 1 c1) (hw : HW c1) (hm : hd ∈ c1.idHandlers) :
    Tk none ut 1 { c1 with idHandlers := c1.idHandlers.filter (·.uid ≠ hd.uid) } := by
  have e1 := cnt_remove hd.uid c1.idHandlers
  have e2 : cnt (some hd.uid) c1.handlers = cnt none c1.handlers :=
    cnt_other (fun x hx e => hw.dj x hx hd hm e)
  refine ⟨?_, fun he => ?_, ?_, h.frp, fun hi => ?_⟩
  · show cnt none c1.handlers + cnt none (c1.idHandlers.filter _) + _ ≤ 1
    rw [e1, ← e2]; exact h.le
  · obtain ⟨a1, a2, a3⟩ := h.en he
    refine ⟨a1, ?_, by show cnt none (c1.idHandlers.filter _) = 0; rw [e1]; exact a3⟩
    intro x hx hp
    apply a2 x hx
    simp only [tokP, Bool.and_eq_true, decide_eq_true_eq] at hp ⊢
    exact ⟨hp.1, fun e => hw.dj x hx hd hm (Option.some.inj e)⟩
  · intro t htm hf hu
    obtain ⟨x, hx, hfx, _⟩ := h.mt t htm hf hu
    exact ⟨x, hx, hfx, by simp⟩
  · obtain ⟨a1, a2⟩ := h.c1 hi
    refine ⟨a1, ?_⟩
    show cnt none c1.handlers + cnt none (c1.idHandlers.filter _) + _ = 0
    rw [e1, ← e2]; exact a2

/-- a stanza handler that is not part of the negotiation is removed -/
theorem Tk_leaveNT {c1 : Conn} {hd : Handler} {n : Nat} (h : Tk none ut n c1) (hw : HW c1) (hm : hd ∈ c1.handlers)
    (hnt : isTok hd.fn = false) :
    Tk none ut n { c1 with handlers := c1.handlers.filter (·.uid ≠ hd.uid) } := by
  have e := cnt_filter_le none (fun x => decide (x.uid ≠ hd.uid)) c1.handlers
  refine ⟨?_, fun he => ?_, ?_, h.frp, fun hi => ?_⟩
  · show cnt none (c1.handlers.filter _) + cnt none c1.idHandlers + frN c1.resetParser c1.pst ≤ n
    have := h.le; omega
  · obtain ⟨a1, a2, a3⟩ := h.en he
    exact ⟨a1, fun x hx hp => a2 x (List.mem_filter.1 hx).1 hp, a3⟩
  · intro t htm hf hu
    obtain ⟨x, hx, hfx, hne⟩ := h.mt t htm hf hu
    refine ⟨x, List.mem_filter.2 ⟨hx, ?_⟩, hfx, hne⟩
    have : x.uid ≠ hd.uid := by
      intro e
      have := eq_of_uid_eq hw.ndh hx hm e
      rw [this] at hfx; rw [hfx] at hnt; cases hnt
    simpa using this
  · obtain ⟨a1, a2⟩ := h.c1 hi
    refine ⟨a1, ?_⟩
    show cnt none (c1.handlers.filter _) + cnt none c1.idHandlers + frN c1.resetParser c1.pst = 0
    omega

/-! ### HasI: a dispatch only ever appends to the id-handler list -/

def HasI (y : Handler) (c : Conn) : Prop := y ∈ c.idHandlers

variable {y : Handler}

theorem HasI_addIdHandler {fn id user} (h : HasI y c) : HasI y (addIdHandler c fn id user) := by
  unfold addIdHandler; split
  · exact h
  · exact List.mem_append_left _ h

theorem HasI_triggerSmCallback (h : HasI y c) : HasI y (triggerSmCallback c) := h
theorem HasI_addHandler {fn ud ns name type user} (h : HasI y c) : HasI y (addHandler c fn ud ns name type user) := by
  c4auto addHandler
theorem HasI_addTimed {fn period user} (h : HasI y c) : HasI y (addTimed c fn period user) := by
  c4auto addTimed
theorem HasI_delTimed {fn} (h : HasI y c) : HasI y (delTimed c fn) := by
  c4auto delTimed
theorem HasI_resetTimed (h : HasI y c) : HasI y (resetTimed c) := by
  c4auto resetTimed
theorem HasI_resetSmForReconnect (h : HasI y c) : HasI y (resetSmForReconnect c) := by
  c4auto resetSmForReconnect
theorem HasI_notify {e} (h : HasI y c) : HasI y (notify c e) := by
  c4auto notify
theorem HasI_connDisconnect (h : HasI y c) : HasI y (connDisconnect c) := by
  c4auto connDisconnect
theorem HasI_pushRawWith {it o sn} (h : HasI y c) : HasI y (pushRawWith c it o sn) := by
  c4auto pushRawWith
theorem HasI_pushRaw {it o} (h : HasI y c) : HasI y (pushRaw c it o) := by
  c4auto pushRaw
theorem HasI_sendStanza {it o} (h : HasI y c) : HasI y (sendStanza c it o) := by
  c4auto sendStanza
theorem HasI_sendRaw {it o} (h : HasI y c) : HasI y (sendRaw c it o) := by
  c4auto sendRaw
theorem HasI_sendRawString {it} (h : HasI y c) : HasI y (sendRawString c it) := by
  c4auto sendRawString
theorem HasI_xmppDisconnect (h : HasI y c) : HasI y (xmppDisconnect c) := by
  c4auto xmppDisconnect
theorem HasI_connTlsStart (h : HasI y c) : HasI y ((connTlsStart c).1) := by
  c4auto connTlsStart
theorem HasI_connOpenStream (h : HasI y c) : HasI y (connOpenStream c) := by
  c4auto connOpenStream
theorem HasI_prepareReset {o} (h : HasI y c) : HasI y (prepareReset c o) := h
theorem HasI_negotiationSuccess (h : HasI y c) : HasI y (negotiationSuccess c) := by
  c4auto negotiationSuccess
theorem HasI_authLegacyStep (h : HasI y c) : HasI y (authLegacyStep c) := by
  c4auto authLegacyStep
theorem HasI_auth (n : Nat) : ∀ {c}, HasI y c → HasI y (auth c n) := by
  induction n with
  | zero => intro c h; exact h
  | succ n ih =>
    intro c h
    rw [auth]
    dsimp only
    c4trav
    all_goals first | (apply ih; c4trav) | skip
theorem HasI_authTop (h : HasI y c) : HasI y (authTop c) := HasI_auth _ h
theorem HasI_saslChild {t} (h : HasI y c) : HasI y (saslChild c t) := by
  c4auto saslChild
theorem HasI_noteOffers {st} (h : HasI y c) : HasI y (noteOffers c st) := by
  c4auto noteOffers
theorem HasI_handleFeatures {st} (h : HasI y c) : HasI y (handleFeatures c st) := by
  c4auto handleFeatures
theorem HasI_doBind (h : HasI y c) : HasI y (doBind c) := by
  c4auto doBind
theorem HasI_smEnable (h : HasI y c) : HasI y (smEnable c) := by
  c4auto smEnable
theorem HasI_sessionStart (h : HasI y c) : HasI y (sessionStart c) := by
  c4auto sessionStart
theorem HasI_handleFeaturesSasl {st} (h : HasI y c) : HasI y (handleFeaturesSasl c st) := by
  c4auto handleFeaturesSasl
theorem HasI_compressionOffer {st} (h : HasI y c) : HasI y (compressionOffer c st) := by
  c4auto compressionOffer
theorem HasI_handleFeaturesCompress {st} (h : HasI y c) : HasI y (handleFeaturesCompress c st) := by
  c4auto handleFeaturesCompress
theorem HasI_handleSaslResult {st} (h : HasI y c) : HasI y (handleSaslResult c st) := by
  c4auto handleSaslResult
theorem HasI_smQueueResend (h : HasI y c) : HasI y (smQueueResend c) := by
  c4auto smQueueResend
theorem HasI_handleSm {st} (h : HasI y c) : HasI y (handleSm c st) := by
  c4auto handleSm
theorem HasI_handleBind {st} (h : HasI y c) : HasI y (handleBind c st) := by
  c4auto handleBind
theorem HasI_handleSession {st} (h : HasI y c) : HasI y (handleSession c st) := by
  c4auto handleSession
theorem HasI_handleLegacy {st} (h : HasI y c) : HasI y (handleLegacy c st) := by
  c4auto handleLegacy
theorem HasI_handleError {st} (h : HasI y c) : HasI y (handleError c st) := by
  c4auto handleError
theorem HasI_runSys {k st} (h : HasI y c) : HasI y ((runSys c k st).1) := by
  c4auto runSys
theorem HasI_runHandler {k st} (h : HasI y c) : HasI y ((runHandler c k st).1) := by
  c4auto runHandler

/-! ### running one handler -/

/-- what is known after a handler returned: kept → nothing new is pending beyond what was;
    removed → at most one new thing, not counting the handler itself -/
def Post (ut : Option Nat) (tok : Bool) (uid : Nat) (r : Conn × Bool) : Prop :=
  (r.2 = true → Tk none ut 1 r.1) ∧
  (r.2 = false → if tok = true then Tk (some uid) ut 1 r.1 else Tk none ut 1 r.1)

theorem Post_drop {tok uid} {x : Conn} (h : if tok = true then Tk (some uid) ut 1 x else Tk none ut 1 x) :
    Post ut tok uid (x, false) :=
  ⟨fun h => Bool.noConfusion h, fun _ => h⟩
theorem Post_keep {tok uid} {x : Conn} (h : Tk none ut 1 x) : Post ut tok uid (x, true) :=
  ⟨fun _ => h, fun h => Bool.noConfusion h⟩

theorem Post_ite {tok uid} {p : Prop} [Decidable p] {a b : Conn × Bool} (h1 : p → Post ut tok uid a)
    (h2 : ¬p → Post ut tok uid b) : Post ut tok uid (if p then a else b) := by
  split
  · exact h1 ‹_›
  · exact h2 ‹_›

/-- a stanza handler of the negotiation -/
theorem Post_runSys_tok {k st} {hd : Handler} (h : Tk none ut 1 c) (hw : HW c) (hm : hd ∈ c.handlers)
    (hf : hd.fn = .sys k) (ht : isTok (.sys k) = true) : Post ut true hd.uid (runSys c k st) := by
  have htk : isTok hd.fn = true := by rw [hf]; exact ht
  by_cases hfe : k = .features
  · subst hfe
    obtain ⟨h0, ho⟩ := Tk_enterF (st := st) h hm hf
    unfold runSys
    dsimp only
    apply Post_drop
    rw [if_pos rfl, handleFeatures_eq]
    exact Tk_hf2 h0 ho
  · have hnf : hd.fn ≠ .sys .features := by
      rw [hf]; intro e; injection e with e; exact hfe e
    obtain ⟨h0, hoff, hid⟩ := Tk_enterH h hw hm htk hnf
    have h1 : Tk (some hd.uid) ut 1 c := h0.mono (Nat.zero_le _)
    cases k
    case error => cases ht
    case componentHs => cases ht
    case legacy => cases ht
    case features => exact absurd rfl hfe
    case sm =>
      unfold runSys
      dsimp only
      refine Post_ite (fun _ => Post_keep h) (fun _ => Post_drop ?_)
      rw [if_pos rfl]
      exact Tk_handleSm h0 hid
    all_goals
      have ho : Off c := hoff (by rw [hf]; intro e; cases e)
      unfold runSys
      dsimp only
    case featuresSasl => exact Post_drop (by rw [if_pos rfl]; exact Tk_handleFeaturesSasl h0 ho)
    case featuresCompress => exact Post_drop (by rw [if_pos rfl]; exact Tk_handleFeaturesCompress h0 ho)
    case saslResult => exact Post_drop (by rw [if_pos rfl]; exact Tk_handleSaslResult h0 ho)
    case bind => exact Post_drop (by rw [if_pos rfl]; exact Tk_handleBind h0 ho)
    case session => exact Post_drop (by rw [if_pos rfl]; exact Tk_handleSession h0 ho)
    case proceedTls =>
      refine Post_ite (fun _ => ?_) (fun _ => Post_drop (by rw [if_pos rfl]; exact h1))
      have a0 : Tk (some hd.uid) ut 0 (connTlsStart c).1 := Tk_connTlsStart h0
      have a1 : Off (connTlsStart c).1 := Off_connTlsStart ho
      generalize connTlsStart c = p at a0 a1 ⊢
      obtain ⟨c1, ok⟩ := p
      dsimp only at a0 a1 ⊢
      refine Post_ite (fun _ => Post_drop ?_) (fun _ => Post_drop ?_)
      · rw [if_pos rfl]; exact Tk_connOpenStream (Tk_prepareReset a0 a1)
      · rw [if_pos rfl]; exact Tk_xmppDisconnect (a0.mono (Nat.zero_le _))
    case digestChallenge =>
      refine Post_ite (fun _ => Post_ite (fun _ => Post_drop ?_) (fun _ => Post_drop ?_)) (fun _ => Post_drop ?_)
      · rw [if_pos rfl]; exact Tk_sendStanza (Tk_addHandler h0 ho)
      · rw [if_pos rfl]; exact Tk_xmppDisconnect h1
      · rw [if_pos rfl]; exact Tk_handleSaslResult h0 ho
    case digestRspauth =>
      refine Post_ite (fun _ => Post_keep (Tk_sendStanza h)) (fun _ => Post_drop ?_)
      rw [if_pos rfl]; exact Tk_handleSaslResult h0 ho
    case scramChallenge =>
      refine Post_ite (fun _ => Post_ite (fun _ => Post_keep (Tk_sendStanza h)) (fun _ => Post_drop ?_))
        (fun _ => Post_drop ?_)
      · rw [if_pos rfl]; exact Tk_xmppDisconnect h1
      · rw [if_pos rfl]; exact Tk_handleSaslResult h0 ho
    case compressResult =>
      refine Post_ite (fun _ => Post_drop ?_) (fun _ => Post_drop (by rw [if_pos rfl]; exact h1))
      rw [if_pos rfl]
      have a : Tk (some hd.uid) ut 1 (prepareReset c .openSasl) := Tk_prepareReset h0 ho
      exact Tk_connOpenStream (c := { (prepareReset c .openSasl) with compActive := true }) a

/-- a handler that is not part of the negotiation registers nothing -/
theorem Post_runSys_nt {k st uid} (h : Tk none ut 1 c) (ht : isTok (.sys k) = false) :
    Post ut false uid (runSys c k st) := by
  cases k
  case error => unfold runSys; exact Post_keep (Tk_handleError h)
  case componentHs =>
    unfold runSys
    dsimp only
    refine Post_ite (fun _ => Post_keep (Tk_xmppDisconnect (Tk_delTimed h))) (fun _ => Post_drop ?_)
    rw [if_neg (by simp)]
    exact Tk_negotiationSuccess (c := { (delTimed c .missingHandshake) with g := _ }) (Tk_delTimed h)
  case legacy =>
    unfold runSys
    exact Post_drop (by rw [if_neg (by simp)]; exact Tk_handleLegacy h)
  all_goals cases ht

theorem Post_runHandlerH {hd : Handler} {st} (h : Tk none ut 1 c) (hw : HW c) (hm : hd ∈ c.handlers) :
    Post ut (isTok hd.fn) hd.uid (runHandler c hd st) := by
  unfold runHandler
  cases hf : hd.fn with
  | userAll => dsimp only; exact Post_keep (Tk_notify h)
  | sys k =>
    dsimp only
    cases ht : isTok (.sys k)
    · exact Post_runSys_nt h ht
    · exact Post_runSys_tok h hw hm hf ht

theorem Post_runHandlerI {hd : Handler} {st} (h : Tk none ut 1 c) (hw : HW c) (hm : hd ∈ c.idHandlers) :
    Post ut (isTok hd.fn) hd.uid (runHandler c hd st) := by
  have hok := hw.oki hd hm
  unfold runHandler
  cases hf : hd.fn with
  | userAll => dsimp only; exact Post_keep (Tk_notify h)
  | sys k =>
    rw [hf] at hok
    dsimp only
    cases ht : isTok (.sys k)
    · exact Post_runSys_nt h ht
    · have htk : isTok hd.fn = true := by rw [hf]; exact ht
      obtain ⟨h0, ho⟩ := Tk_enterI h hw hm htk
      cases k <;> (try cases ht) <;> (try cases hok)
      · unfold runSys; exact Post_drop (by rw [if_pos rfl]; exact Tk_handleBind h0 ho)
      · unfold runSys; exact Post_drop (by rw [if_pos rfl]; exact Tk_handleSession h0 ho)

/-- between two handlers of a dispatch -/
def TH (ut : Option Nat) (c : Conn) : Prop := Tk none ut 1 c ∧ HW c

theorem TH_fireIdOne {st uid} (h : TH ut c) : TH ut (fireIdOne st c uid) := by
  unfold fireIdOne
  split
  · exact h
  · rename_i hd hf
    have hmem := List.mem_of_find?_eq_some hf
    have huid : hd.uid = uid := by simpa using List.find?_some hf
    split
    · exact h
    · have hp := Post_runHandlerI (st := st) h.1 h.2 hmem
      have hw1 : HW (runHandler c hd st).1 := HW_runHandler h.2
      -- id handlers are only appended during a dispatch
      have hm1 : HasI hd (runHandler c hd st).1 := HasI_runHandler hmem
      split
      rename_i c1 keep heq
      rw [heq] at hp hw1 hm1
      cases keep
      · rw [if_neg (by simp)]
        have := hp.2 rfl
        rw [← huid]
        cases ht : isTok hd.fn
        · rw [ht] at this
          exact ⟨Tk_filterI _ (by simpa using this), HW_rec3 hw1⟩
        · rw [ht] at this
          exact ⟨Tk_leaveI (by simpa using this) hw1 hm1, HW_rec3 hw1⟩
      · rw [if_pos rfl]; exact ⟨hp.1 rfl, hw1⟩

theorem TH_fireOne {st uid} (h : TH ut c) : TH ut (fireOne st c uid) := by
  unfold fireOne
  split
  · exact h
  · rename_i hd hf
    have hmem := List.mem_of_find?_eq_some hf
    have huid : hd.uid = uid := by simpa using List.find?_some hf
    split
    · exact h
    · split
      · have hp := Post_runHandlerH (st := st) h.1 h.2 hmem
        have hw1 : HW (runHandler c hd st).1 := HW_runHandler h.2
        have hm1 : HasH hd (runHandler c hd st).1 := HasH_runHandler hmem
        split
        rename_i c1 keep heq
        rw [heq] at hp hw1 hm1
        cases keep
        · rw [if_neg (by simp)]
          have := hp.2 rfl
          rw [← huid]
          cases ht : isTok hd.fn
          · rw [ht] at this
            exact ⟨Tk_leaveNT (by simpa using this) hw1 hm1 ht, HW_rec2 hw1⟩
          · rw [ht] at this
            exact ⟨Tk_leaveH (by simpa using this) hw1 hm1, HW_rec2 hw1⟩
        · rw [if_pos rfl]; exact ⟨hp.1 rfl, hw1⟩
      · exact h

theorem TH_fireStanza {st} (h : TH ut c) : TH ut (fireStanza c st) := by
  unfold fireStanza
  dsimp only
  refine pred_foldl (P := TH ut) (fun c x hc => TH_fireOne (uid := x) hc) _ ?_
  split
  · refine pred_foldl (P := TH ut) (fun c x hc => TH_fireIdOne (uid := x) hc) _ ?_
    exact ⟨Tk_rec6 h.1, HW_rec6 h.2⟩
  · exact ⟨Tk_rec5 h.1, HW_rec5 h.2⟩

theorem TH_handleStreamStanza {st} (h : TH ut c) : TH ut (handleStreamStanza c st) := by
  unfold handleStreamStanza
  refine pred_ite (P := TH ut) (fun _ => h) (fun _ => ?_)
  dsimp only
  have := TH_fireStanza (st := st) h
  refine pred_ite (P := TH ut) (fun _ => ?_) (fun _ => this)
  exact ⟨Tk_smHandleStanza (c := { (fireStanza c st) with rxLog := _ }) this.1,
    HW_smHandleStanza (c := { (fireStanza c st) with rxLog := _ }) this.2⟩

end Strophe.Lemmas.ConnC04
