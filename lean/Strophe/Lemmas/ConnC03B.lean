/-
C03, part B: the invariant is preserved by the primitive operations of the machine.
-/
import Strophe.Lemmas.ConnC03A

namespace Strophe.Lemmas.ConnC03
open Strophe Strophe.Conn

variable {jid : Option Bytes} {U : Item → Prop} {NR : Prop} {p : Par} {c : Conn}

/-! ### frame facts from `InvF` -/

theorem Inv.rp_false (h : Inv jid U NR p c) (hp : p.rpb = false) : c.resetParser = false := by
  cases hr : c.resetParser with
  | false => rfl
  | true => have := h.f.rpB hr; rw [hp] at this; cases this

theorem Inv.raw_false (h : Inv jid U NR p c) (hp : p.rb = false) : c.isRaw = false := by
  cases hr : c.isRaw with
  | false => rfl
  | true => have := h.f.rw hr; rw [hp] at this; cases this

theorem Inv.not_connecting (h : Inv jid U NR p c) (hp : p.sb ≠ .connecting) : c.state ≠ .connecting := by
  intro e; rcases h.f.st with a | a
  · exact hp (a ▸ e)
  · rw [a] at e; cases e

theorem Inv.live (h : Inv jid U NR p c) (hp : p.sb = .connected) (hl : c.state ≠ .disconnected) :
    c.state = .connected := by
  rcases h.f.st with a | a
  · rw [a, hp]
  · exact absurd a hl

theorem InvF.congr {p p' : Par} {st ps rp rw} (h : InvF p st ps rp rw) (e1 : p'.sb = p.sb)
    (e2 : p'.pb = p.pb) (e3 : p.rb = true → p'.rb = true) (e4 : p.rpb = true → p'.rpb = true) :
    InvF p' st ps rp rw :=
  ⟨by rw [e1]; exact h.st, by rw [e2]; exact h.ps, fun a => e3 (h.rw a), fun a => e4 (h.rpB a), h.rp, h.rd⟩

/-- side conditions for installing a negotiation handler of kind `s` -/
structure CanAdd (p : Par) (c : Conn) (s : SysH) : Prop where
  nil : PendNil p.x c
  nn : c.g.notifiedConnect = false
  ph : Phase c.g c.secured c.sm.enabled c.sm.resume c.state s
  rpb : p.rpb = false
  pb : p.pb ≠ .fresh
  sb : p.sb ≠ .connecting
  rb : p.rb = false

theorem Inv.addHandler (h : Inv jid U NR p c) (fn : HFun) (ud : Nat) (ns name type : Option Bytes)
    (usr : Bool) (hu : fn = .userAll ↔ usr = true)
    (hneg : ∀ s, fn = .sys s → s ≠ .error → CanAdd p c s) :
    Inv jid U NR p (addHandler c fn ud ns name type usr) := by
  unfold Conn.addHandler; split
  · exact h
  · refine ⟨h.cfg, h.q, h.e, h.gg, ?_, h.f, h.ts⟩
    simp only [List.map_append, List.map_cons, List.map_nil, hkey]
    refine h.h.addH fn usr hu ?_
    intro s hs hs'; have a := hneg s hs hs'
    refine ⟨a.nil, a.nn, a.ph, h.rp_false a.rpb, ?_, h.not_connecting a.sb, fun _ => h.raw_false a.rb⟩
    rw [h.f.ps]; exact a.pb

theorem Inv.addIdHandler (h : Inv jid U NR p c) (s : SysH) (id : Bytes)
    (hk3 : s = .bind ∨ s = .session ∨ s = .legacy) (a : CanAdd p c s) :
    Inv jid U NR p (addIdHandler c (.sys s) id false) := by
  unfold Conn.addIdHandler; split
  · exact h
  · refine ⟨h.cfg, h.q, h.e, h.gg, ?_, h.f, h.ts⟩
    simp only [List.map_append, List.map_cons, List.map_nil, hkey]
    refine h.h.addI (.sys s) false (by rcases hk3 with e | e | e <;> simp [e]) (by simp) ?_
    intro s' hs hs'; cases hs
    refine ⟨a.nil, a.nn, a.ph, h.rp_false a.rpb, ?_, h.not_connecting a.sb, fun _ => h.raw_false a.rb⟩
    rw [h.f.ps]; exact a.pb

/-- the application registers its callback as an id handler -/
theorem Inv.addIdHandlerUser (h : Inv jid U NR p c) (id : Bytes) :
    Inv jid U NR p (Conn.addIdHandler c .userAll id true) := by
  unfold Conn.addIdHandler; split
  · exact h
  · refine ⟨h.cfg, h.q, h.e, h.gg, ?_, h.f, h.ts⟩
    simp only [List.map_append, List.map_cons, List.map_nil, hkey]
    exact h.h.addI .userAll true (Or.inr (Or.inr (Or.inr rfl))) (by simp) (fun s e _ => by cases e)

theorem Inv.addTimed (h : Inv jid U NR p c) (fn : TFun) (period : Nat) (usr : Bool)
    (hu : fn = .userTimed ↔ usr = true)
    (hmf : fn = .missingFeatures → c.g.authOk = false ∧
      ∃ k' ∈ c.handlers.map hkey ++ c.idHandlers.map hkey, k'.2.1 = .sys .features ∧ p.x ≠ some k'.1) :
    Inv jid U NR p (addTimed c fn period usr) := by
  unfold Conn.addTimed; split
  · exact h
  · rename_i hany
    refine ⟨h.cfg, h.q, h.e, h.gg, ?_, h.f, h.ts⟩
    simp only [List.map_cons, tkey]
    refine h.h.addT fn usr hu ?_ hmf
    intro k a e
    obtain ⟨t, ht, rfl⟩ := List.mem_map.1 a
    exact hany (List.any_eq_true.2 ⟨t, ht, by simpa [tkey] using e⟩)

theorem Inv.delTimed (h : Inv jid U NR p c) (fn : TFun) : Inv jid U NR p (delTimed c fn) := by
  unfold Conn.delTimed
  refine ⟨h.cfg, h.q, h.e, h.gg, ?_, h.f, h.ts⟩
  refine h.h.subT ?_
  intro k a; simp only [List.mem_map, List.mem_filter] at a ⊢
  obtain ⟨t, ⟨ht, _⟩, rfl⟩ := a; exact ⟨t, ht, rfl⟩

theorem delTimed_none (c : Conn) (fn : TFun) :
    ∀ k ∈ (delTimed c fn).timed.map tkey, k.2.1 ≠ fn := by
  intro k a; simp only [delTimed, List.mem_map, List.mem_filter] at a
  obtain ⟨t, ⟨_, ht⟩, rfl⟩ := a; simpa [tkey] using ht

theorem Inv.resetTimed (h : Inv jid U NR p c) : Inv jid U NR p (resetTimed c) := by
  unfold Conn.resetTimed
  refine ⟨h.cfg, h.q, h.e, h.gg, ?_, h.f, h.ts⟩
  have : (c.timed.map fun t => ({ t with lastStamp := c.now } : Timed)).map tkey = c.timed.map tkey := by
    rw [List.map_map]; rfl
  simp only [this]; exact h.h

/-! ### queueing -/

theorem InvH.mono {x y xs mb st sec smE smR pst rp oh raw hk ik tk n g} (n' : Nat)
    (h : InvH x y xs mb st sec smE smR pst rp oh raw hk ik tk n g) (hn : n ≤ n') :
    InvH x y xs mb st sec smE smR pst rp oh raw hk ik tk n' g :=
  { h with uidH := fun k a => Nat.lt_of_lt_of_le (h.uidH k a) hn,
           uidT := fun k a => Nat.lt_of_lt_of_le (h.uidT k a) hn,
           uidX := fun u a => Nat.lt_of_lt_of_le (h.uidX u a) hn,
           uidY := fun u a => Nat.lt_of_lt_of_le (h.uidY u a) hn,
           mbN := Nat.le_trans h.mbN hn }

theorem eok_req (s : Snap) : EOk jid U NR .req .smStrophe s :=
  ⟨fun e => (by cases e), fun _ => trivial⟩

theorem InvQ.push {w st ht nt q smq tx} (h : InvQ jid U NR w st ht nt q smq tx) (e : QElem)
    (hc : st = .connected) (hok : EOk jid U NR e.item e.owner e.snap)
    (hht : e.owner ≠ .user → isHdrFrom e.item → ht = true)
    (hn : e.owner = .user → w = false → NR → nt = true) :
    InvQ jid U NR w st ht nt (q ++ [e]) smq tx := by
  refine { h with q_ok := ?_, q_ht := ?_, q_n := ?_, q_cg := ?_ }
  · intro e' a; rcases List.mem_append.1 a with a | a
    · exact h.q_ok e' a
    · rw [List.mem_singleton.1 a]; exact hok
  · intro hs e' a; rcases List.mem_append.1 a with a | a
    · exact h.q_ht hs e' a
    · rw [List.mem_singleton.1 a]; exact hht
  · intro hw hnr hs e' a; rcases List.mem_append.1 a with a | a
    · exact h.q_n hw hnr hs e' a
    · rw [List.mem_singleton.1 a]; exact fun o => hn o hw hnr
  · intro hs; rw [hc] at hs; cases hs

/-- `pushRawWith` after the owner has been decided -/
def pushOwned (c : Conn) (it : Item) (owner : Owner) (snap : Snap) : Conn :=
  let c1 := { c with queue := c.queue ++ [{ item := it, owner := owner, uid := c.nextUid, snap := snap }], nextUid := c.nextUid + 1 }
  if !owner.smBit && c1.sm.enabled && !c1.sm.rSent then
    let c2 := { c1 with sm := { c1.sm with rSent := true } }
    if c2.state = .connected then
      { c2 with queue := c2.queue ++ [{ item := .req, owner := .smStrophe, linked := true, uid := c2.nextUid, snap := snap }], nextUid := c2.nextUid + 1 }
    else c2
  else c1

theorem pushRawWith_eq (c : Conn) (it : Item) (o : Owner) (s : Snap) :
    pushRawWith c it o s = pushOwned c it (if o = .strophe && !c.sm.enabled then Owner.smStrophe else o) s := rfl

theorem Inv.pushOwned (h : Inv jid U NR p c) (it : Item) (o : Owner) (s : Snap)
    (hc : c.state = .connected) (hok : EOk jid U NR it o s)
    (hht : o ≠ .user → isHdrFrom it → c.hasTls = true)
    (hn : o = .user → p.w = false → NR → c.g.notifiedConnect = true) :
    Inv jid U NR p (pushOwned c it o s) := by
  have hq1 : InvQ jid U NR p.w c.state c.hasTls c.g.notifiedConnect
      (c.queue ++ [{ item := it, owner := o, uid := c.nextUid, snap := s }]) c.sm.queue c.tx :=
    h.q.push _ hc hok hht hn
  unfold ConnC03.pushOwned; dsimp only
  split
  · try rw [if_pos hc]
    refine ⟨h.cfg, ?_, h.e, h.gg, h.h.mono _ (Nat.le_trans (Nat.le_succ _) (Nat.le_succ _)), h.f, h.ts⟩
    exact hq1.push _ hc (eok_req s) (fun _ hh => by obtain ⟨_, _, _, e⟩ := hh; cases e) (fun e => by cases e)
  · exact ⟨h.cfg, hq1, h.e, h.gg, h.h.mono _ (Nat.le_succ _), h.f, h.ts⟩

theorem Inv.pushRawWith (h : Inv jid U NR p c) (it : Item) (o : Owner) (s : Snap)
    (hc : c.state = .connected)
    (hok : ∀ o', (o' = o ∨ (o = .strophe ∧ o' = .smStrophe)) → EOk jid U NR it o' s)
    (hht : o ≠ .user → isHdrFrom it → c.hasTls = true)
    (hn : o = .user → p.w = false → NR → c.g.notifiedConnect = true) :
    Inv jid U NR p (pushRawWith c it o s) := by
  rw [pushRawWith_eq]
  by_cases hh : (o = .strophe && !c.sm.enabled) = true
  · rw [if_pos hh]; simp only [Bool.and_eq_true, decide_eq_true_eq] at hh
    exact h.pushOwned it _ s hc (hok _ (Or.inr ⟨hh.1, rfl⟩)) (fun _ => hht (by rw [hh.1]; simp))
      (fun e => by cases e)
  · rw [if_neg hh]; exact h.pushOwned it o s hc (hok _ (Or.inl rfl)) hht hn

theorem Inv.pushLib (h : Inv jid U NR p c) (it : Item) (o : Owner) (ho : o ≠ .user)
    (hc : c.state = .connected)
    (hl : ∀ o', o' = o ∨ o' = .smStrophe → LibOk jid it o' (curSnap c))
    (hht : isHdrFrom it → c.hasTls = true) :
    Inv jid U NR p (pushRaw c it o) := by
  unfold Conn.pushRaw
  refine h.pushRawWith it o _ hc ?_ (fun _ => hht) (fun e => absurd e ho)
  intro o' ho'
  have ho'' : o' ≠ .user := by
    rcases ho' with e | ⟨_, e⟩
    · rw [e]; exact ho
    · rw [e]; simp
  refine ⟨fun e => absurd e ho'', fun _ => hl o' ?_⟩
  rcases ho' with e | ⟨_, e⟩
  · exact Or.inl e
  · exact Or.inr e

theorem Inv.sendStanzaLib (h : Inv jid U NR p c) (it : Item) (o : Owner) (ho : o ≠ .user)
    (hl : c.state = .connected → ∀ o', o' = o ∨ o' = .smStrophe → LibOk jid it o' (curSnap c))
    (hht : c.state = .connected → isHdrFrom it → c.hasTls = true) :
    Inv jid U NR p (sendStanza c it o) := by
  unfold Conn.sendStanza Conn.isConnectedFor
  split
  · rename_i hh; simp only [Bool.and_eq_true, decide_eq_true_eq] at hh
    exact h.pushLib it o ho hh.1 (hl hh.1) (hht hh.1)
  · exact h

theorem Inv.sendRawLib (h : Inv jid U NR p c) (it : Item) (o : Owner) (ho : o ≠ .user)
    (hl : c.state = .connected → ∀ o', o' = o ∨ o' = .smStrophe → LibOk jid it o' (curSnap c))
    (hht : c.state = .connected → isHdrFrom it → c.hasTls = true) :
    Inv jid U NR p (sendRaw c it o) := by
  unfold Conn.sendRaw
  split
  · rename_i hh; exact h.pushLib it o ho hh (hl hh) (hht hh)
  · exact h

theorem Inv.sendRawString (h : Inv jid U NR p c) (it : Item)
    (hl : c.state = .connected → LibOk jid it .smStrophe (curSnap c))
    (hht : c.state = .connected → isHdrFrom it → c.hasTls = true) :
    Inv jid U NR p (sendRawString c it) := by
  unfold Conn.sendRawString
  split
  · rename_i hh
    refine h.pushLib it .smStrophe (by simp) hh ?_ (hht hh)
    intro o' ho'; rcases ho' with e | e <;> (rw [e]; exact hl hh)
  · exact h

/-- user data through the gated entry points -/
theorem Inv.pushUser (h : Inv jid U NR p c) (it : Item) (hu : UOk U it)
    (hg : isConnectedFor c .user = true) : Inv jid U NR p (pushRaw c it .user) := by
  unfold Conn.isConnectedFor at hg
  simp only [ne_eq, not_true_eq_false, decide_false, Bool.false_or, Bool.and_eq_true,
    decide_eq_true_eq] at hg
  unfold Conn.pushRaw
  refine h.pushRawWith it .user _ hg.1 ?_ (fun e => absurd rfl e) (fun _ _ _ => h.gg.nn1 hg.2)
  intro o' ho'
  have : o' = .user := by
    rcases ho' with e | ⟨e, _⟩
    · exact e
    · cases e
  rw [this]
  exact ⟨fun _ => ⟨hu, fun _ => hg.2⟩, fun e => absurd rfl e⟩

/-- `xmpp_send_raw`: only in histories for which `NR` is false -/
theorem Inv.sendRawUser (h : Inv jid U NR p c) (it : Item) (hu : U it) (hnr : ¬ NR) :
    Inv jid U NR p (sendRaw c it .user) := by
  unfold Conn.sendRaw
  split
  · rename_i hh
    unfold Conn.pushRaw
    refine h.pushRawWith it .user _ hh ?_ (fun e => absurd rfl e) (fun _ _ n => absurd n hnr)
    intro o' ho'
    have : o' = .user := by
      rcases ho' with e | ⟨e, _⟩
      · exact e
      · cases e
    rw [this]
    exact ⟨fun _ => ⟨Or.inl hu, fun n => absurd n hnr⟩, fun e => absurd rfl e⟩
  · exact h

/-! ### changing the fields `InvH` / `InvG` / `InvE` depend on -/

theorem Phase.mono {g g' : Ghost} {sec smE smR smE' smR' : Bool} {st st' : CState} {s : SysH}
    (h : Phase g sec smE smR st s) (ha : g'.authOk = g.authOk)
    (hb : g.bound = true → g'.bound = true) (hr : g.resumed = true → g'.resumed = true)
    (he : smE' = true → smE = true)
    (hsm : st' ≠ .disconnected → st ≠ .disconnected ∧ (smR' = false → smR = false)) :
    Phase g' sec smE' smR' st' s := by
  have he' : smE = false → smE' = false := by
    intro e; cases h' : smE' with
    | false => rfl
    | true => rw [he h'] at e; cases e
  cases s <;> simp only [Phase, ha] at h ⊢ <;> try exact h
  · exact ⟨h.1, he' h.2⟩
  · exact ⟨h.1, he' h.2⟩
  · refine ⟨h.1, fun a b => ?_⟩
    rcases h.2 (hsm a).1 ((hsm a).2 b) with c | c
    · exact Or.inl (hb c)
    · exact Or.inr (hr c)
  · exact ⟨h.1, he' h.2⟩
  · exact ⟨h.1, he' h.2⟩
  · exact ⟨h.1, hb h.2.1, he' h.2.2⟩

/-- phase-compatible change of the machine fields (no handler is touched) -/
theorem InvH.weaken {x y xs mb st sec smE smR pst rp oh raw hk ik tk n g}
    (h : InvH x y xs mb st sec smE smR pst rp oh raw hk ik tk n g)
    {st' : CState} {smE' smR' raw' : Bool} {g' : Ghost}
    (ha : g'.authOk = g.authOk) (hn : g'.notifiedConnect = g.notifiedConnect)
    (hb : g.bound = true → g'.bound = true) (hr : g.resumed = true → g'.resumed = true)
    (he : smE' = true → smE = true)
    (hsm : st' ≠ .disconnected → st ≠ .disconnected ∧ (smR' = false → smR = false))
    (hcg : st' = .connecting → st = .connecting) (hrw : raw' = true → raw = true)
    (hlv : st' = .disconnected → st = .disconnected ∨
      ∀ k ∈ hk ++ ik, negK k → x ≠ some k.1 → mb ≤ k.1) :
    InvH x y xs mb st' sec smE' smR' pst rp oh raw' hk ik tk n g' := by
  have he' : smE = false → smE' = false := by
    intro e; cases h' : smE' with
    | false => rfl
    | true => rw [he h'] at e; cases e
  refine { h with phase := ?_, ohOk := ?_, fr := ?_, t1 := ?_, cgH := ?_, raw := ?_, lv := ?_ }
  rotate_right
  · intro hd; rcases hlv hd with a | a
    · exact h.lv a
    · exact a
  · intro k a s hs hs' e; have := h.phase k a s hs hs' e
    exact ⟨by rw [hn]; exact this.1, this.2.mono ha hb hr he hsm⟩
  · rw [ha]; exact h.ohOk
  · intro hf; refine ⟨(h.fr hf).1, fun o => ?_⟩
    rw [hn]; exact ⟨((h.fr hf).2 o).1, he' ((h.fr hf).2 o).2⟩
  · intro k a b c; rw [ha]; exact h.t1 k a b c
  · intro hc; exact h.cgH (hcg hc)
  · intro hd hr'; exact h.raw (hsm hd).1 (hrw hr')

/-- arbitrary change of the machine fields while no negotiation handler (besides the running one)
    and no `missingFeatures` timer is pending -/
theorem InvH.change {x y xs mb st sec smE smR pst rp oh raw hk ik tk n g}
    (h : InvH x y xs mb st sec smE smR pst rp oh raw hk ik tk n g)
    (hnil : ∀ k ∈ hk ++ ik, negK k → x = some k.1)
    (hnt : ∀ k ∈ tk, k.2.1 = .missingFeatures → y = some k.1)
    {st' : CState} {sec' smE' smR' : Bool} {pst' : PSt} {rp' : Bool} {oh' : OpenH} {raw' : Bool} {g' : Ghost}
    (hoh : (oh' = .open_ ∨ oh' = .openTls → g'.authOk = false) ∧
      (oh' = .openSasl ∨ oh' = .openCompress → g'.authOk = true))
    (hfr : rp' = true ∨ pst' = .fresh → oh' ≠ .stub → g'.notifiedConnect = false ∧ smE' = false)
    (hcg : st' = .connecting → ∀ k ∈ hk ++ ik, ¬ negK k)
    (hraw : st' ≠ .disconnected → raw' = true → oh' = .stub ∧ ∀ k ∈ hk ++ ik, ¬ negK k) :
    InvH x y xs mb st' sec' smE' smR' pst' rp' oh' raw' hk ik tk n g' := by
  refine { h with one := ?_, phase := ?_, ohOk := hoh, fr := ?_, t1 := ?_, cgH := hcg, raw := hraw,
                  lv := fun _ k a nk e => absurd (hnil k a nk) e }
  · intro k1 a1 _ _ n1 _ e1 _; exact absurd (hnil k1 a1 n1) e1
  · intro k a s hs hs' e; exact absurd (hnil k a ⟨s, hs, hs'⟩) e
  · intro hf; exact ⟨hnil, hfr hf⟩
  · intro k a b c; exact absurd (hnt k a b) c

/-- the ghost record only grows: offers are added, confirmations are added -/
structure GhostGrow (g g' : Ghost) : Prop where
  att : g'.attempt = g.attempt
  tls : g.offeredTls = true → g'.offeredTls = true
  mechs : ∀ i, g.offeredMechs.testBit i = true → g'.offeredMechs.testBit i = true
  bind : g.offeredBind = true → g'.offeredBind = true
  sess : g.offeredSession = true → g'.offeredSession = true
  sm : g.offeredSm = true → g'.offeredSm = true
  comp : g.offeredComp = true → g'.offeredComp = true
  auth : g.authOk = true → g'.authOk = true
  bound : g.bound = true → g'.bound = true
  resumed : g.resumed = true → g'.resumed = true
  nc : g'.notifiedConnect = g.notifiedConnect

theorem GhostGrow.refl (g : Ghost) : GhostGrow g g :=
  ⟨rfl, id, fun _ => id, id, id, id, id, id, id, id, rfl⟩

theorem InvG.grow {st ng sec ht ss cs br sr smS smB smE smR g g'}
    (h : InvG st ng sec ht ss cs br sr smS smB smE smR g) (gr : GhostGrow g g')
    (hcg : st = .connecting → g'.authOk = false) :
    InvG st ng sec ht ss cs br sr smS smB smE smR g' := by
  refine { h with sasl := ?_, comp := ?_, bindR := ?_, sessR := ?_, smS := ?_, smB := ?_, cg := ?_,
                  nn1 := ?_, nn2 := ?_, smE := ?_ }
  · intro i a; exact gr.mechs i (h.sasl i a)
  · intro a; exact gr.comp (h.comp a)
  · intro a; exact gr.bind (h.bindR a)
  · intro a; exact gr.sess (h.sessR a)
  · intro a; exact gr.sm (h.smS a)
  · intro a; exact gr.bind (h.smB a)
  · intro a; rw [gr.nc]; exact ⟨(h.cg a).1, hcg a, (h.cg a).2.2⟩
  · intro a; rw [gr.nc]; exact h.nn1 a
  · intro a; rw [gr.nc]; exact h.nn2 a
  · intro a; refine ⟨gr.auth (h.smE a).1, ?_⟩
    rcases (h.smE a).2 with b | b
    · exact Or.inl (gr.bound b)
    · exact Or.inr (gr.resumed b)

theorem InvE.grow {g g' evs} (h : InvE g evs) (gr : GhostGrow g g') : InvE g' evs := by
  refine { h with att := ?_, zero := ?_ }
  · intro q a; rw [gr.att]; exact h.att q a
  · intro a; rw [gr.att]; rw [gr.nc] at a; exact h.zero a

/-! ### notifications -/

theorem cnt_append (evs : List (Ghost × Ev)) (q : Ghost × Ev) (a : Nat) :
    cnt (evs ++ [q]) a = cnt evs a + (if (q.1.attempt = a && isConnEv q.2) = true then 1 else 0) := by
  simp only [cnt, List.filter_append, List.length_append]
  congr 1
  by_cases hq : (decide (q.1.attempt = a) && isConnEv q.2) = true
  · simp [List.filter, hq]
  · simp [List.filter, hq]

theorem InvE.push_other {g evs} (h : InvE g evs) (e : Ev) (hne : isConnEv e = false)
    (hu : ((∃ n i, e = .userStanza n i) ∨ e = .userTimed) → g.notifiedConnect = true) :
    InvE g (evs ++ [(g, e)]) := by
  have hc : ∀ a, cnt (evs ++ [(g, e)]) a = cnt evs a := by
    intro a; rw [cnt_append]; simp [hne]
  constructor
  · intro q a; rcases List.mem_append.1 a with a | a
    · exact h.att q a
    · rw [List.mem_singleton.1 a]; exact Nat.le_refl _
  · intro a; rw [hc]; exact h.once a
  · intro a; rw [hc]; exact h.zero a
  · intro q a; rcases List.mem_append.1 a with a | a
    · exact h.ucb q a
    · rw [List.mem_singleton.1 a]; exact hu
  · intro q a; rcases List.mem_append.1 a with a | a
    · exact h.neg q a
    · rw [List.mem_singleton.1 a]; intro e'; change e = .connect at e'; rw [e'] at hne; cases hne

theorem InvE.push_conn {g evs} (h : InvE g evs) (e : Ev) (hc : isConnEv e = true)
    (hn : g.notifiedConnect = false) (hneg : e = .connect → NegOk g) :
    InvE { g with notifiedConnect := true } (evs ++ [(g, e)]) := by
  constructor
  · intro q a; rcases List.mem_append.1 a with a | a
    · exact h.att q a
    · rw [List.mem_singleton.1 a]; exact Nat.le_refl _
  · intro a; rw [cnt_append]; dsimp only
    by_cases ha : g.attempt = a
    · subst ha; rw [h.zero hn]; simp [hc]
    · simp only [ha, decide_false, Bool.false_and]; exact h.once a
  · intro a; cases a
  · intro q a; rcases List.mem_append.1 a with a | a
    · exact h.ucb q a
    · rw [List.mem_singleton.1 a]; dsimp only
      rintro (⟨n, i, e'⟩ | e') <;> (rw [e'] at hc; cases hc)
  · intro q a; rcases List.mem_append.1 a with a | a
    · exact h.neg q a
    · rw [List.mem_singleton.1 a]; exact hneg

theorem resetSm_spec (c : Conn) : ∃ S B, resetSmForReconnect c = { c with sm := S, boundJid := B } ∧
    S.enabled = false ∧ S.support = false ∧ S.resume = false ∧ S.bind = false ∧ S.queue = c.sm.queue := by
  unfold resetSmForReconnect
  dsimp only
  split <;> exact ⟨_, _, rfl, rfl, rfl, rfl, rfl, rfl⟩

theorem Inv.connDisconnect (h : Inv jid U NR p c)
    (hd : ∀ k ∈ c.handlers.map hkey ++ c.idHandlers.map hkey, negK k → p.x ≠ some k.1 → p.mb ≤ k.1) :
    Inv jid U NR p (connDisconnect c) := by
  unfold Conn.connDisconnect
  split
  · exact h
  · dsimp only
    obtain ⟨S, B, e, h1, h2, h3, h4, h5⟩ := resetSm_spec
      { c with state := .disconnected, negotiated := false, hasTls := false, isRaw := false }
    rw [e]; unfold notify; dsimp only
    have gr : GhostGrow c.g { c.g with notifiedDisconnect := c.g.notifiedDisconnect + 1 } :=
      ⟨rfl, id, fun _ => id, id, id, id, id, id, id, id, rfl⟩
    refine ⟨⟨h.cfg.jidEq, fun a => absurd rfl a, fun a => absurd rfl a⟩, ?_, ?_, ?_, ?_, ?_, h.ts⟩
    · rw [h5]
      exact { h.q with q_ht := (fun a => nomatch a), q_n := (fun _ _ a => nomatch a),
                       q_cg := (fun a => nomatch a) }
    · exact (h.e.push_other _ rfl (by rintro (⟨_, _, e'⟩ | e') <;> cases e')).grow gr
    · rw [h1, h2, h3, h4]
      exact { tls_sec := (fun a => nomatch a), sasl := h.gg.sasl, comp := h.gg.comp, bindR := h.gg.bindR,
              sessR := h.gg.sessR, smS := (fun a => nomatch a), smB := (fun a => nomatch a),
              nc := fun _ => ⟨rfl, rfl, rfl, rfl, rfl, rfl⟩, cg := (fun a => nomatch a),
              nn1 := (fun a => nomatch a), nn2 := fun a => absurd rfl a, smE := (fun a => nomatch a) }
    · rw [h1, h3]
      exact h.h.weaken rfl rfl id id (fun a => nomatch a) (fun a => absurd rfl a) (fun a => nomatch a)
        (fun a => nomatch a) (fun _ => Or.inr hd)
    · exact ⟨Or.inr rfl, h.f.ps, (fun a => nomatch a), h.f.rpB, (fun _ a => nomatch a), fun _ => rfl⟩

/-! ### composite primitives -/

theorem libok_close (o : Owner) (s : Snap) : LibOk jid .close o s := trivial

theorem not_hdr_of {it : Item} (hi : ∀ to f comp, it ≠ .hdr to (some f) comp) : ¬ isHdrFrom it := by
  rintro ⟨to, f, comp, e⟩; exact hi to f comp e

theorem Inv.xmppDisconnect (h : Inv jid U NR p c) : Inv jid U NR p (xmppDisconnect c) := by
  unfold Conn.xmppDisconnect
  split
  · exact h
  · refine (h.sendRawString .close (fun _ => trivial) (fun _ hh => ?_)).addTimed _ _ _ (by simp) (by simp)
    obtain ⟨_, _, _, e⟩ := hh; cases e

/-- with no pending handler there is no live `missingFeatures` timer -/
theorem Inv.nil_nt (h : Inv jid U NR p c) (hnil : PendNil p.x c) :
    ∀ k ∈ c.timed.map tkey, k.2.1 = .missingFeatures → p.y = some k.1 := by
  intro k a b
  cases hy : decide (p.y = some k.1) with
  | true => exact of_decide_eq_true hy
  | false =>
    obtain ⟨_, k', h2, h3, h4⟩ := h.h.t1 k a b (of_decide_eq_false hy)
    exact absurd (hnil k' h2 ⟨_, h3, by simp⟩) h4

theorem Inv.negNotify (h : Inv jid U NR p c) (hnil : PendNil p.x c)
    (hc : c.state = .connected) (hn : c.g.notifiedConnect = false) (hneg : NegOk c.g)
    (hrp : p.rpb = false) (hpb : p.pb ≠ .fresh) :
    Inv jid U NR { p with w := false } (Conn.notify { c with negotiated := true } .connect) := by
  unfold Conn.notify; dsimp only
  refine ⟨h.cfg, ?_, h.e.push_conn _ rfl hn (fun _ => hneg), ?_, ?_, h.f.congr rfl rfl id id, h.ts⟩
  · exact { h.q with q_n := fun _ _ _ _ _ _ => rfl }
  · exact { h.gg with nc := fun a => absurd hc a, cg := fun a => (by rw [hc] at a; cases a),
                      nn1 := fun _ => rfl, nn2 := fun _ _ => rfl }
  · refine h.h.change hnil (h.nil_nt hnil) h.h.ohOk ?_ (fun a => by rw [hc] at a; cases a) h.h.raw
    intro hf; rcases hf with hf | hf
    · rw [h.rp_false hrp] at hf; cases hf
    · rw [h.f.ps] at hf; exact absurd hf hpb

/-- `_stream_negotiation_success`: CONNECT is delivered; the application's connection handler may
    send a stanza at once -/
theorem Inv.negotiationSuccess (h : Inv jid U NR p c) (hnil : PendNil p.x c)
    (hc : c.state = .connected) (hn : c.g.notifiedConnect = false) (hneg : NegOk c.g)
    (hrp : p.rpb = false) (hpb : p.pb ≠ .fresh) :
    Inv jid U NR { p with w := false } (Conn.negotiationSuccess c) := by
  have h1 := h.negNotify hnil hc hn hneg hrp hpb
  unfold Conn.negotiationSuccess; dsimp only
  split
  · unfold Conn.sendStanza
    have hg : isConnectedFor (Conn.notify { c with negotiated := true } .connect) .user = true := by
      unfold Conn.isConnectedFor Conn.notify; simp [hc]
    rw [if_pos hg]
    exact h1.pushUser _ (Or.inr ⟨_, _, rfl⟩) hg
  · exact h1

theorem Inv.connOpenStream (h : Inv jid U NR p c) : Inv jid U NR p (connOpenStream c) := by
  unfold Conn.connOpenStream
  refine h.sendRawString _ ?_ ?_
  · intro hc
    obtain ⟨j, hj, hd⟩ := h.cfg.dom (by rw [hc]; simp)
    refine ⟨rfl, ⟨j, hj, ?_⟩, ?_⟩
    · rw [hd]; simp only [Option.getD_some]
      by_cases hct : c.ctype = .component <;> simp [hct]
    · intro f hf
      rw [h.cfg.jidEq, hj] at hf; dsimp only at hf
      split at hf
      · rename_i hh; simp only [Bool.and_eq_true] at hh
        refine ⟨j, hj, (Option.some.inj hf).symm, ?_⟩
        exact List.contains_iff_mem.1 hh.2
      · cases hf
  · intro _ hh; obtain ⟨to, f, comp, e⟩ := hh
    injection e with _ e2 _
    split at e2
    · rename_i j _; split at e2
      · rename_i hh; simp only [Bool.and_eq_true] at hh; exact hh.1
      · cases e2
    · cases e2

end Strophe.Lemmas.ConnC03