/-
C07 — helper lemmas, part 6: whole-function statements for DIGEST-MD5 and the robustness of the
challenge handlers.
-/
import Strophe.Lemmas.SaslDigest
import Strophe.Lemmas.SaslFinal
open Strophe Strophe.Hash Strophe.Sasl
open Strophe.Spec.Rfc2831

namespace Strophe.Lemmas.Sasl

theorem decodeStr_encode (text : Bytes) (h0 : (0 : UInt8) ∉ text) :
    Base64.decodeStr (Base64.encode text) = some text := by
  by_cases hne : text = []
  · subst hne; rfl
  have hd := Lemmas.Base64.decode_encode text hne
  have he := Lemmas.Base64.decode_exact (Base64.encode text)
  rw [hd, if_neg (encode_ne_nil text hne)] at he
  have hspec : Spec.Rfc4648.decode (Base64.encode text) = some text := by
    cases hs : Spec.Rfc4648.decode (Base64.encode text) with
    | none => rw [hs] at he; simp at he
    | some v => rw [hs] at he; simp at he; rw [he.1]
  rw [Lemmas.Base64.decode_str_exact, if_neg (encode_ne_nil text hne), hspec]
  simp [h0]

/-- `sasl_digest_md5` on a well-formed RFC 2831 challenge -/
theorem digestMd5_eq_spec (ds : List Directive) (jid pw rnd node nonce : Bytes)
    (hds : ∀ d ∈ ds, DirOk d) (hnul : (0 : UInt8) ∉ renderChallenge ds)
    (hnode : Jid.node jid = some node) (hnonce : lastValue ds kNonce = some nonce)
    (h1 : node.length < 2 ^ 32) (h2 : (Jid.domain jid).length < 2 ^ 31) (h3 : pw.length < 2 ^ 32)
    (h4 : nonce.length < 2 ^ 32) (h6 : ∀ r, lastValue ds kRealm = some r → r.length < 2 ^ 32) :
    digestMd5 (some (Base64.encode (renderChallenge ds))) jid pw rnd =
      .ok (some (Base64.encode
        (digestResponse node (chosenRealm (lastValue ds kRealm) (Jid.domain jid)) nonce (digestCnonce rnd)
          specNc specQop (digestUri specServ (Jid.domain jid))
          (responseValue node (chosenRealm (lastValue ds kRealm) (Jid.domain jid)) pw nonce (digestCnonce rnd)
            specNc specQop (digestUri specServ (Jid.domain jid)))
          (lastValue ds kCharset)))) := by
  unfold digestMd5
  simp only [decodeStr_encode _ hnul, parseChallenge_render ds hds]
  have hget : ∀ k, (ds.foldl (fun (t : Table) d => t.add d.key d.value) []).get k = lastValue ds k := by
    intro k
    rw [get_foldl_add]
    cases lastValue ds k <;> simp [Table.get]
  rw [hget kNonce, hnonce]
  simp only [Option.isNone_some, Bool.false_eq_true, if_false, hnode, randNonce_digest, Option.getD_some]
  rw [digestReply_eq_spec _ node (Jid.domain jid) pw (digestCnonce rnd) nonce (by rw [hget, hnonce]) h1 h2 h3 h4
    (by simp [digestCnonce, hexUpper_length, randBytes_length]) (by intro r hr; rw [hget] at hr; exact h6 r hr)]
  rw [hget kRealm, hget kCharset]

/-! ### robustness -/

theorem digestReply_safe (T : Table) (node domain pw cnonce : Bytes) (hn : (T.get kNonce).isSome) :
    (digestReply T node domain pw cnonce).safe = true := by
  obtain ⟨nonce, hn⟩ := Option.isSome_iff_exists.mp hn
  have hne : ∀ k, k ≠ kRealm → (withRealm T domain).get k = T.get k := by
    intro k hk
    unfold withRealm
    cases hr : T.get kRealm with
    | none => simp [Table.get_add_ne _ _ _ _ hk]
    | some r =>
      by_cases he : r.isEmpty
      · simp [he, Table.get_add_ne _ _ _ _ hk]
      · simp [he]
  have hN : (withRealm T domain).get kNonce = some nonce := by rw [hne _ (by decide)]; exact hn
  unfold digestReply
  simp (config := { decide := true }) only [Table.get_add, if_true, if_false, hN]
  rfl

/-- `digest_parse_no_crash`: whatever the server sends (no text, undecodable text, any directive
    soup), `sasl_digest_md5` neither dereferences NULL nor aborts — for a JID with a node -/
theorem digestMd5_safe (challenge : Option Bytes) (jid pw rnd node : Bytes) (hnode : Jid.node jid = some node) :
    (digestMd5 challenge jid pw rnd).safe = true := by
  unfold digestMd5
  cases challenge with
  | none => rfl
  | some msg =>
    simp only
    cases Base64.decodeStr msg with
    | none => rfl
    | some text =>
      simp only [hnode]
      by_cases hn : ((parseChallenge text).get kNonce).isNone
      · simp [hn, Res.safe]
      · simp only [hn, Bool.false_eq_true, if_false]
        exact digestReply_safe _ _ _ _ _ (by
          cases h : (parseChallenge text).get kNonce with
          | none => simp [h] at hn
          | some v => rfl)

theorem ofDigest_safe (w : String) (d : Option Bytes) : (ofDigest w d).safe = true := by
  cases d <;> rfl

theorem bind_safe {α β : Type} (r : Res α) (f : α → Res β) (hr : r.safe = true) (hf : ∀ a, (f a).safe = true) :
    (r.bind f).safe = true := by
  cases r with
  | ok a => exact hf a
  | crash s => simp [Res.safe] at hr
  | abort s => simp [Res.safe] at hr
  | undef s => rfl

theorem handleDigest_safe (text : Option Bytes) (jid pw rnd node : Bytes) (hnode : Jid.node jid = some node) :
    (handleDigestChallenge text jid pw rnd).safe = true := by
  unfold handleDigestChallenge
  exact bind_safe _ _ (digestMd5_safe _ jid pw rnd node hnode) (fun r => by cases r <;> rfl)

theorem hi_safe (alg : Alg) (h : alg.digestSize ≤ Gen.Sasl.hiTmpSize) (text salt : Bytes) (i : Nat) :
    (hi alg text salt i).safe = true := by
  unfold hi
  rw [if_neg (by omega)]
  split
  · rfl
  · exact ofDigest_safe _ _

theorem clientKey_safe (alg : Alg) (h : alg.digestSize ≤ Gen.Sasl.hiTmpSize) (pw salt : Bytes) (i : Nat) :
    (clientKey alg pw salt i).safe = true :=
  bind_safe _ _ (hi_safe alg h pw salt i) (fun _ => ofDigest_safe _ _)

/-- `scram_parse_no_crash`: `sasl_scram` never dereferences NULL nor aborts, whatever the
    server-first-message (missing r/s/i, bad base64, any salt length, any iteration string) -/
theorem scramFinal_safe (alg : Alg) (h : alg.digestSize ≤ Gen.Sasl.hiTmpSize) (cb ch fb pw : Bytes) :
    (scramFinal alg cb ch fb pw).safe = true := by
  unfold scramFinal
  simp only
  split
  · split
    · rfl
    · split
      · rfl
      · split
        · rfl
        · apply bind_safe _ _ (clientKey_safe alg h _ _ _)
          intro key
          apply bind_safe _ _ (by unfold clientSignature; exact ofDigest_safe _ _)
          intro sign
          split <;> rfl
  · rfl

theorem handleScram_safe (alg : Alg) (h : alg.digestSize ≤ Gen.Sasl.hiTmpSize) (init : ScramInit)
    (text : Option Bytes) (pw : Bytes) : (handleScramChallenge alg init text pw).safe = true := by
  unfold handleScramChallenge
  simp only
  split
  · rfl
  · split
    · rfl
    · apply bind_safe _ _ (scramFinal_safe alg h _ _ _ _)
      intro r; cases r <;> rfl

end Strophe.Lemmas.Sasl
