/-
The invariant behind C02 (new model: parser protocol, retransmissions keep their snapshot).
-/
import Strophe.Lemmas.ConnC02Base

namespace Strophe.Lemmas.ConnC02
open Strophe Strophe.Conn

/-! ### handler classes -/

def isF : HFun → Bool
  | .sys .features => true
  | _ => false
def isT : HFun → Bool
  | .sys .proceedTls => true
  | _ => false
/-- handlers waiting for the answer to a SASL `<auth/>` -/
def isS : HFun → Bool
  | .sys (.saslResult _) => true
  | .sys .digestChallenge => true
  | .sys .digestRspauth => true
  | .sys (.scramChallenge _ _) => true
  | _ => false
/-- handlers that only exist after `<success/>` -/
def isLate : HFun → Bool
  | .sys .featuresSasl => true
  | .sys .featuresCompress => true
  | .sys .compressResult => true
  | .sys .sm => true
  | .sys .bind => true
  | .sys .session => true
  | _ => false
/-- handlers installed past the MANDATORY_TLS check -/
def gatedFn (f : HFun) : Bool := isS f || isLate f
/-- what an id handler can be -/
def idFnOk : HFun → Bool
  | .sys .bind => true
  | .sys .session => true
  | .sys .legacy => true
  | .userAll => true
  | _ => false

/-- elements of the negotiation that the properties speak about -/
def negItem : Item → Bool
  | .starttls => true
  | .auth _ _ => true
  | .response _ => true
  | .legacy _ _ _ => true
  | _ => false

theorem isT_of_isF {f : HFun} (h : isF f = true) : isT f = false := by
  cases f with
  | userAll => rfl
  | sys k => cases k <;> simp_all [isF, isT]
theorem isS_of_isF {f : HFun} (h : isF f = true) : isS f = false := by
  cases f with
  | userAll => rfl
  | sys k => cases k <;> simp_all [isF, isS]
theorem isS_of_isT {f : HFun} (h : isT f = true) : isS f = false := by
  cases f with
  | userAll => rfl
  | sys k => cases k <;> simp_all [isT, isS]

theorem authBearing_neg {it : Item} (h : it.authBearing = true) : negItem it = true := by
  cases it <;> simp_all [Item.authBearing, negItem]

/-- no handler of class `p`, except the one that is being run (`u`) -/
def NoH (u : Option Nat) (p : HFun → Bool) (c : Conn) : Prop :=
  ∀ h ∈ c.handlers, p h.fn = true → some h.uid = u
/-- no `missingFeatures` timer, except the one being run -/
def NoTM (ut : Option Nat) (c : Conn) : Prop :=
  ∀ t ∈ c.timed, t.fn = .missingFeatures → some t.uid = ut

def Gate (c : Conn) : Prop := c.tlsMandatory = true → c.hasTls = true ∧ c.secured = true
def Safe (c : Conn) : Prop := c.state = .disconnected ∨ (c.state = .connected ∧ Gate c)
def NotGated (c : Conn) : Prop :=
  (∀ h ∈ c.handlers, gatedFn h.fn = false) ∧ (∀ h ∈ c.idHandlers, gatedFn h.fn = false) ∧
  c.openHandler ≠ .openSasl ∧ c.openHandler ≠ .openCompress

/-- a parser reset is pending or has just happened: the next thing the server can send is a stream open -/
def Fr (c : Conn) : Prop := c.resetParser = true ∨ c.pst = .fresh
/-- authentication is over -/
def LateC (c : Conn) : Prop :=
  (∃ h ∈ c.handlers, isLate h.fn = true) ∨ (∃ h ∈ c.idHandlers, isLate h.fn = true) ∨
  c.openHandler = .openSasl ∨ c.openHandler = .openCompress ∨ c.sm.enabled = true
def OpenPre (c : Conn) : Prop := c.openHandler = .open_ ∨ c.openHandler = .openTls

/-! ### mechanisms -/

/-- the single-bit masks of the mechanisms that beat PLAIN for this connection -/
def wList (cert : Bool) : List Nat :=
  [Gen.saslMaskScramsha512Plus, Gen.saslMaskScramsha256Plus, Gen.saslMaskScramsha1Plus,
   Gen.saslMaskScramsha512, Gen.saslMaskScramsha256, Gen.saslMaskScramsha1, Gen.saslMaskDigestmd5] ++
  (if cert then [Gen.saslMaskExternal] else [])

/-- "nothing tried yet": every better mechanism the server offered is still in `saslSupport` -/
def NT (c : Conn) : Prop := ∀ m ∈ wList c.cert, c.g.offeredMechs &&& m ≠ 0 → c.saslSupport &&& m ≠ 0
/-- `_handle_features` drops PLAIN when anything else (but ANONYMOUS) is supported -/
def KMask (c : Conn) : Prop :=
  c.saslSupport &&& ((Gen.saslMaskPlain ||| Gen.saslMaskAnonymous) ^^^ 0xFFFF) ≠ 0 → c.saslSupport &&& Gen.saslMaskPlain = 0

/-! ### elements -/

def strongerMask' : Nat := scramMaskAll ||| Gen.saslMaskDigestmd5

/-- what the snapshot of a negotiation element says -/
def ItemOk (it : Item) (s : Snap) : Prop :=
  (it = .starttls → s.tlsDisabled = false) ∧
  (∀ u r p, it = .legacy u r p → s.authLegacy = true ∧ s.isClient = true) ∧
  (∀ t, it = .auth (b "PLAIN") t → s.g.offeredMechs &&& strongerMask' = 0 ∧
    (s.cert = true → s.g.offeredMechs &&& Gen.saslMaskExternal = 0))

/-- the snapshot shows the flags as they are now -/
def FlagsNow (c : Conn) (s : Snap) : Prop :=
  s.mandatory = c.tlsMandatory ∧ s.tlsDisabled = c.tlsDisabled ∧ s.authLegacy = c.authLegacy

/-- the C02 properties of one record -/
def RecOk (r : TxRec) : Prop :=
  ((r.mandatoryW = true ∨ r.snap.mandatory = true) → r.item.authBearing = true → r.sec = true) ∧
  (r.item = .starttls → r.snap.tlsDisabled = false ∧ r.tlsDisabledW = false) ∧
  (∀ u res p, r.item = .legacy u res p → r.snap.authLegacy = true ∧ r.snap.isClient = true ∧ r.legacyW = true) ∧
  (∀ t, r.item = .auth (b "PLAIN") t → r.snap.g.offeredMechs &&& strongerMask' = 0 ∧
    (r.snap.cert = true → r.snap.g.offeredMechs &&& Gen.saslMaskExternal = 0))

/-! ### the invariant -/

/-- TLS gate -/
structure G (u : Option Nat) (c : Conn) : Prop where
  nc : c.state ≠ .connecting
  userH : ∀ h ∈ c.handlers, h.user = true → h.fn = .userAll
  userI : ∀ h ∈ c.idHandlers, h.user = true → h.fn = .userAll
  ud0 : ∀ h ∈ c.handlers, (isF h.fn || isT h.fn) = true → h.ud = 0
  uniq : ∀ h1 ∈ c.handlers, ∀ h2 ∈ c.handlers, (isF h1.fn || isT h1.fn) = true → h1.fn = h2.fn → h1.uid = h2.uid
  q1 : c.state = .connected → c.tlsMandatory = true → ∀ e ∈ c.queue, e.item.authBearing = true →
    c.hasTls = true ∧ c.secured = true
  noT : c.secured = true → NoH u isT c
  gated : NotGated c ∨ Safe c

/-- phases of the negotiation -/
structure Ph (u ut : Option Nat) (c : Conn) : Prop where
  idFn : ∀ h ∈ c.idHandlers, idFnOk h.fn = true
  uniqS : ∀ h1 ∈ c.handlers, ∀ h2 ∈ c.handlers, isS h1.fn = true → isS h2.fn = true →
    some h1.uid ≠ u → some h2.uid ≠ u → h1.uid = h2.uid
  uniqTM : ∀ t1 ∈ c.timed, ∀ t2 ∈ c.timed, t1.fn = .missingFeatures → t2.fn = .missingFeatures → t1.uid = t2.uid
  /-- at most one of: waiting for features, waiting for `<proceed/>`, waiting for a SASL answer -/
  excl : (NoH u isT c ∧ NoH u isS c) ∨ ((NoH u isF c ∧ NoTM ut c) ∧ NoH u isS c) ∨
    ((NoH u isF c ∧ NoTM ut c) ∧ NoH u isT c)
  e5 : Fr c → NoH u isF c ∧ NoTM ut c ∧ NoH u isT c ∧ NoH u isS c
  e6 : LateC c → NoH u isF c ∧ NoTM ut c ∧ NoH u isT c ∧ NoH u isS c ∧ ¬OpenPre c
  e7 : c.state = .disconnected → c.sm.enabled = false
  frp : c.state = .connected → c.pst = .fresh → c.resetParser = false
  userT : ∀ t ∈ c.timed, t.user = true → t.fn ≠ .missingFeatures

/-- mechanism bookkeeping -/
structure Me (u ut : Option Nat) (c : Conn) : Prop where
  i1 : c.state ≠ .disconnected → NT c ∨ (NoH u isF c ∧ NoTM ut c ∧ NoH u isT c ∧ (Fr c → ¬OpenPre c))
  i2 : c.state ≠ .disconnected → NoH u isS c ∨ (c.saslSupport &&& Gen.saslMaskPlain ≠ 0 → NT c)
  k : KMask c

/-- queued and transmitted elements -/
structure El (c : Conn) : Prop where
  txN : ∀ r ∈ c.tx, RecOk r
  qN : ∀ e ∈ c.queue, negItem e.item = true →
    e.owner = .smStrophe ∧ ItemOk e.item e.snap ∧ (c.state = .connected → FlagsNow c e.snap)
  smN : ∀ e ∈ c.sm.queue, negItem e.2.item = false

structure Inv (u ut : Option Nat) (c : Conn) : Prop where
  g : G u c
  ph : Ph u ut c
  me : Me u ut c
  el : El c

/-! ### monotonicity: handlers / timers removed or re-stamped, everything else the same -/

structure Mono (c c' : Conn) : Prop where
  hs : ∀ h' ∈ c'.handlers, ∃ h ∈ c.handlers, h'.fn = h.fn ∧ h'.uid = h.uid ∧ h'.ud = h.ud ∧ h'.user = h.user
  ids : ∀ h' ∈ c'.idHandlers, ∃ h ∈ c.idHandlers, h'.fn = h.fn ∧ h'.user = h.user
  tm : ∀ t' ∈ c'.timed, ∃ t ∈ c.timed, t'.fn = t.fn ∧ t'.uid = t.uid ∧ t'.user = t.user
  smq : ∀ e ∈ c'.sm.queue, e ∈ c.sm.queue
  cfg : same_cfg[c, c']
  tls : same_tls[c, c']
  oh : c'.openHandler = c.openHandler
  p : same_p[c, c']
  en : c'.sm.enabled = c.sm.enabled

theorem NoH.mono {u : Option Nat} {p : HFun → Bool} {c c' : Conn} (h : NoH u p c)
    (hs : ∀ h' ∈ c'.handlers, ∃ h ∈ c.handlers, h'.fn = h.fn ∧ h'.uid = h.uid ∧ h'.ud = h.ud ∧ h'.user = h.user) :
    NoH u p c' := by
  intro h' hm hp
  obtain ⟨x, hx, e1, e2, _, _⟩ := hs h' hm
  rw [e2]; exact h x hx (by rw [← e1]; exact hp)

theorem NoTM.mono {ut : Option Nat} {c c' : Conn} (h : NoTM ut c)
    (tm : ∀ t' ∈ c'.timed, ∃ t ∈ c.timed, t'.fn = t.fn ∧ t'.uid = t.uid ∧ t'.user = t.user) : NoTM ut c' := by
  intro t' hm hp
  obtain ⟨x, hx, e1, e2, _⟩ := tm t' hm
  rw [e2]; exact h x hx (by rw [← e1]; exact hp)

theorem LateC.mono {c c' : Conn} (m : Mono c c') (h : LateC c') : LateC c := by
  rcases h with ⟨x, hx, hp⟩ | ⟨x, hx, hp⟩ | h | h | h
  · obtain ⟨y, hy, e, _⟩ := m.hs x hx; exact .inl ⟨y, hy, by rw [← e]; exact hp⟩
  · obtain ⟨y, hy, e, _⟩ := m.ids x hx; exact .inr (.inl ⟨y, hy, by rw [← e]; exact hp⟩)
  · exact .inr (.inr (.inl (by rw [← m.oh]; exact h)))
  · exact .inr (.inr (.inr (.inl (by rw [← m.oh]; exact h))))
  · exact .inr (.inr (.inr (.inr (by rw [← m.en]; exact h))))

theorem Fr.mono {c c' : Conn} (m : Mono c c') (h : Fr c') : Fr c := by
  unfold Fr at *; rw [← m.p.1, ← m.p.2]; exact h

theorem NT.congr {c c' : Conn} (h : NT c) (e1 : c'.cert = c.cert) (e2 : c'.g.offeredMechs = c.g.offeredMechs)
    (e3 : c'.saslSupport = c.saslSupport) : NT c' := by
  unfold NT at *; rw [e1, e2, e3]; exact h

theorem Safe.same {c c' : Conn} (s : Safe c) (e1 : c'.state = c.state) (e2 : c'.tlsMandatory = c.tlsMandatory)
    (e3 : c'.hasTls = c.hasTls) (e4 : c'.secured = c.secured) : Safe c' := by
  unfold Safe Gate at *; rw [e1, e2, e3, e4]; exact s

theorem G.mono {u : Option Nat} {c c' : Conn} (m : Mono c c') (io : c'.queue = c.queue) (h : G u c) : G u c' := by
  obtain ⟨⟨m1, m2, m3, m4, m5⟩, ⟨t1, t2, t3, t4⟩, i1⟩ := (⟨m.cfg, m.tls, io⟩ : _ ∧ _ ∧ _)
  refine ⟨by rw [t1]; exact h.nc, ?_, ?_, ?_, ?_, ?_, ?_, ?_⟩
  · intro x hx hu
    obtain ⟨y, hy, e1, _, _, e4⟩ := m.hs x hx
    rw [e1]; exact h.userH y hy (by rw [← e4]; exact hu)
  · intro x hx hu
    obtain ⟨y, hy, e1, e4⟩ := m.ids x hx
    rw [e1]; exact h.userI y hy (by rw [← e4]; exact hu)
  · intro x hx hp
    obtain ⟨y, hy, e1, _, e3, _⟩ := m.hs x hx
    rw [e3]; exact h.ud0 y hy (by rw [← e1]; exact hp)
  · intro x hx x2 hx2 hp he
    obtain ⟨y, hy, e1, e2, _, _⟩ := m.hs x hx
    obtain ⟨y2, hy2, f1, f2, _, _⟩ := m.hs x2 hx2
    rw [e2, f2]; exact h.uniq y hy y2 hy2 (by rw [← e1]; exact hp) (by rw [← e1, ← f1]; exact he)
  · rw [t1, m1, i1, t2, t3]; exact h.q1
  · rw [t3]; exact fun hs => (h.noT hs).mono m.hs
  · rcases h.gated with ⟨n1, n2, n3, n4⟩ | s
    · refine .inl ⟨?_, ?_, by rw [m.oh]; exact n3, by rw [m.oh]; exact n4⟩
      · intro x hx
        obtain ⟨y, hy, e1, _⟩ := m.hs x hx
        rw [e1]; exact n1 y hy
      · intro x hx
        obtain ⟨y, hy, e1, _⟩ := m.ids x hx
        rw [e1]; exact n2 y hy
    · exact .inr (s.same t1 m1 t2 t3)

theorem Ph.mono {u ut : Option Nat} {c c' : Conn} (m : Mono c c') (h : Ph u ut c) : Ph u ut c' := by
  refine ⟨?_, ?_, ?_, ?_, ?_, ?_, ?_, ?_, ?_⟩
  · intro x hx
    obtain ⟨y, hy, e1, _⟩ := m.ids x hx
    rw [e1]; exact h.idFn y hy
  · intro x hx x2 hx2 p1 p2 n1 n2
    obtain ⟨y, hy, e1, e2, _, _⟩ := m.hs x hx
    obtain ⟨y2, hy2, f1, f2, _, _⟩ := m.hs x2 hx2
    rw [e2, f2]
    exact h.uniqS y hy y2 hy2 (by rw [← e1]; exact p1) (by rw [← f1]; exact p2) (by rw [← e2]; exact n1)
      (by rw [← f2]; exact n2)
  · intro x hx x2 hx2 p1 p2
    obtain ⟨y, hy, e1, e2, _⟩ := m.tm x hx
    obtain ⟨y2, hy2, f1, f2, _⟩ := m.tm x2 hx2
    rw [e2, f2]; exact h.uniqTM y hy y2 hy2 (by rw [← e1]; exact p1) (by rw [← f1]; exact p2)
  · rcases h.excl with ⟨a, b⟩ | ⟨⟨a, a'⟩, b⟩ | ⟨⟨a, a'⟩, b⟩
    · exact .inl ⟨a.mono m.hs, b.mono m.hs⟩
    · exact .inr (.inl ⟨⟨a.mono m.hs, a'.mono m.tm⟩, b.mono m.hs⟩)
    · exact .inr (.inr ⟨⟨a.mono m.hs, a'.mono m.tm⟩, b.mono m.hs⟩)
  · intro f
    obtain ⟨a, b, d, e⟩ := h.e5 (f.mono m)
    exact ⟨a.mono m.hs, b.mono m.tm, d.mono m.hs, e.mono m.hs⟩
  · intro f
    obtain ⟨a, b, d, e, o⟩ := h.e6 (f.mono m)
    exact ⟨a.mono m.hs, b.mono m.tm, d.mono m.hs, e.mono m.hs, by unfold OpenPre at *; rw [m.oh]; exact o⟩
  · rw [m.tls.1, m.en]; exact h.e7
  · rw [m.tls.1, m.p.1, m.p.2]; exact h.frp
  · intro x hx hu
    obtain ⟨y, hy, e1, _, e3⟩ := m.tm x hx
    rw [e1]; exact h.userT y hy (by rw [← e3]; exact hu)

theorem Me.mono {u ut : Option Nat} {c c' : Conn} (m : Mono c c') (sasl : c'.saslSupport = c.saslSupport)
    (off : c'.g.offeredMechs = c.g.offeredMechs) (h : Me u ut c) : Me u ut c' := by
  have nt : NT c → NT c' := fun n => n.congr m.cfg.2.2.2.2 off sasl
  refine ⟨?_, ?_, ?_⟩
  · rw [m.tls.1]; intro hl
    rcases h.i1 hl with n | ⟨a, b, d, e⟩
    · exact .inl (nt n)
    · exact .inr ⟨a.mono m.hs, b.mono m.tm, d.mono m.hs, fun f => by
        have := e (f.mono m); unfold OpenPre at *; rw [m.oh]; exact this⟩
  · rw [m.tls.1, sasl]; intro hl
    rcases h.i2 hl with a | n
    · exact .inl (a.mono m.hs)
    · exact .inr fun x => nt (n x)
  · unfold KMask; rw [sasl]; exact h.k

theorem El.mono {c c' : Conn} (m : Mono c c') (io : same_io[c, c']) (h : El c) : El c' := by
  obtain ⟨m1, m2, m3, _, _⟩ := m.cfg
  refine ⟨by rw [io.2]; exact h.txN, ?_, fun e he => h.smN e (m.smq e he)⟩
  rw [io.1, m.tls.1]; unfold FlagsNow; rw [m1, m2, m3]; exact h.qN

theorem Inv.mono {u ut : Option Nat} {c c' : Conn} (h : Inv u ut c) (m : Mono c c') (io : same_io[c, c'])
    (sasl : c'.saslSupport = c.saslSupport := by simp) (off : c'.g.offeredMechs = c.g.offeredMechs := by simp) :
    Inv u ut c' :=
  ⟨h.g.mono m io.1, h.ph.mono m, h.me.mono m sasl off, h.el.mono m io⟩

/-- only the mechanism bookkeeping changed -/
theorem Inv.setMe {u ut : Option Nat} {c c' : Conn} (h : Inv u ut c) (m : Mono c c') (io : same_io[c, c'])
    (me : Me u ut c') : Inv u ut c' :=
  ⟨h.g.mono m io.1, h.ph.mono m, me, h.el.mono m io⟩

/-- everything the invariant reads is unchanged -/
def SameAll (c c' : Conn) : Prop :=
  c'.handlers = c.handlers ∧ c'.idHandlers = c.idHandlers ∧ c'.timed = c.timed ∧ c'.sm.queue = c.sm.queue ∧
  same_cfg[c, c'] ∧ same_tls[c, c'] ∧ same_io[c, c'] ∧ c'.openHandler = c.openHandler ∧ same_p[c, c'] ∧
  c'.sm.enabled = c.sm.enabled ∧ c'.saslSupport = c.saslSupport ∧ c'.g.offeredMechs = c.g.offeredMechs

theorem Mono.of_same {c c' : Conn} (s : SameAll c c') : Mono c c' := by
  obtain ⟨a1, a2, a3, a4, a5, a6, a7, a8, a9, a10, a11, a12⟩ := s
  exact ⟨fun h hm => ⟨h, a1 ▸ hm, rfl, rfl, rfl, rfl⟩, fun h hm => ⟨h, a2 ▸ hm, rfl, rfl⟩,
    fun t hm => ⟨t, a3 ▸ hm, rfl, rfl, rfl⟩, fun e he => a4 ▸ he, a5, a6, a8, a9, a10⟩

theorem Inv.same {u ut : Option Nat} {c c' : Conn} (h : Inv u ut c) (s : SameAll c c') : Inv u ut c' :=
  h.mono (Mono.of_same s) s.2.2.2.2.2.2.1 s.2.2.2.2.2.2.2.2.2.2.1 s.2.2.2.2.2.2.2.2.2.2.2

theorem NoH_addHandler {u : Option Nat} {p : HFun → Bool} {c : Conn} {fn : HFun} {ud : Nat}
    {ns name type : Option Bytes} {user : Bool} (h : NoH u p c) (hp : p fn = false) :
    NoH u p (addHandler c fn ud ns name type user) := by
  intro x hx hpx
  rcases mem_addHandler hx with hx | ⟨hx, _⟩
  · exact h x hx hpx
  · subst hx; simp [hp] at hpx

theorem NoH_of_addHandler {u : Option Nat} {p : HFun → Bool} {c : Conn} {fn : HFun} {ud : Nat}
    {ns name type : Option Bytes} {user : Bool} (h : NoH u p (addHandler c fn ud ns name type user)) :
    NoH u p c := by
  intro x hx hpx
  refine h x ?_ hpx
  rw [addHandler_handlers]; split <;> simp [hx]

theorem NoTM_same {ut : Option Nat} {c c' : Conn} (e : c'.timed = c.timed) (h : NoTM ut c) : NoTM ut c' := by
  unfold NoTM; rw [e]; exact h

theorem Inv_addHandler {u ut : Option Nat} {c : Conn} (h : Inv u ut c) (fn : HFun) (ud : Nat)
    (ns name type : Option Bytes) (user : Bool)
    (hF : isF fn = true → ud = 0 ∧ NoH u isT c ∧ NoH u isS c ∧ ¬Fr c ∧ ¬LateC c ∧ (c.state ≠ .disconnected → NT c))
    (hT : isT fn = true → ud = 0 ∧ c.secured = false ∧ NoH u isF c ∧ NoTM ut c ∧ NoH u isS c ∧ ¬Fr c ∧ ¬LateC c ∧
      (c.state ≠ .disconnected → NT c))
    (hS : isS fn = true → Safe c ∧ NoH u isF c ∧ NoTM ut c ∧ NoH u isT c ∧ NoH u isS c ∧ ¬Fr c ∧ ¬LateC c ∧
      (c.state ≠ .disconnected → c.saslSupport &&& Gen.saslMaskPlain ≠ 0 → NT c))
    (hL : isLate fn = true → Safe c ∧ LateC c)
    (hu : user = true → fn = .userAll) : Inv u ut (addHandler c fn ud ns name type user) := by
  have hs : Safe c → Safe (addHandler c fn ud ns name type user) := fun s => s.same (by simp) (by simp) (by simp) (by simp)
  have hfr : Fr (addHandler c fn ud ns name type user) → Fr c := by unfold Fr; simp
  have hnt : NT c → NT (addHandler c fn ud ns name type user) := fun n => n.congr (by simp) (by simp) (by simp)
  have hntm : NoTM ut c → NoTM ut (addHandler c fn ud ns name type user) := NoTM_same (by simp)
  have hop : OpenPre (addHandler c fn ud ns name type user) ↔ OpenPre c := by unfold OpenPre; simp
  have hlate : LateC (addHandler c fn ud ns name type user) → LateC c := by
    rintro (⟨x, hx, hp⟩ | ⟨x, hx, hp⟩ | h | h | h)
    · rcases mem_addHandler hx with hx | ⟨hx, _⟩
      · exact .inl ⟨x, hx, hp⟩
      · subst hx; exact (hL (by simpa using hp)).2
    · exact .inr (.inl ⟨x, by simpa using hx, hp⟩)
    · exact .inr (.inr (.inl (by simpa using h)))
    · exact .inr (.inr (.inr (.inl (by simpa using h))))
    · exact .inr (.inr (.inr (.inr (by simpa using h))))
  -- the new handler changes `NoH u p` only for its own class
  have tr : ∀ p : HFun → Bool, p fn = false → NoH u p c → NoH u p (addHandler c fn ud ns name type user) :=
    fun p hp n => NoH_addHandler n hp
  refine ⟨⟨by simpa using h.g.nc, ?_, by simpa using h.g.userI, ?_, ?_, by simpa using h.g.q1, ?_, ?_⟩,
    ⟨by simpa using h.ph.idFn, ?_, by simpa using h.ph.uniqTM, ?_, ?_, ?_, by simpa using h.ph.e7,
      by simpa using h.ph.frp, by simpa using h.ph.userT⟩, ⟨?_, ?_, by simpa [KMask] using h.me.k⟩,
    ⟨by simpa using h.el.txN, by simpa [FlagsNow] using h.el.qN, by simpa using h.el.smN⟩⟩
  · intro x hx hxu
    rcases mem_addHandler hx with hx | ⟨hx, _⟩
    · exact h.g.userH x hx hxu
    · subst hx; simpa using hu (by simpa using hxu)
  · intro x hx hp
    rcases mem_addHandler hx with hx | ⟨hx, _⟩
    · exact h.g.ud0 x hx hp
    · subst hx
      simp only [newHandler_proj, Bool.or_eq_true] at hp ⊢
      rcases hp with hp | hp
      · exact (hF hp).1
      · exact (hT hp).1
  · intro x hx y hy hp he
    have key : ∀ z ∈ c.handlers, (isF fn || isT fn) = true → z.fn = fn →
        c.handlers.any (fun h => h.fn = fn ∧ h.ud = ud) = false → False := by
      intro z hz hp he hn
      rw [List.any_eq_false] at hn
      refine hn z hz ?_
      have hud : ud = 0 := by
        simp only [Bool.or_eq_true] at hp
        rcases hp with hp | hp
        · exact (hF hp).1
        · exact (hT hp).1
      simp [he, hud, h.g.ud0 z hz (by rw [he]; exact hp)]
    rcases mem_addHandler hx with hx | ⟨hx, hn⟩ <;> rcases mem_addHandler hy with hy | ⟨hy, hn'⟩
    · exact h.g.uniq x hx y hy hp he
    · subst hy
      have he' : x.fn = fn := by simpa using he
      exact (key x hx (by rw [← he']; exact hp) he' hn').elim
    · subst hx
      exact (key y hy (by simpa using hp) (by simpa using he.symm) hn).elim
    · rw [hx, hy]
  · intro hsec x hx hp
    rcases mem_addHandler hx with hx | ⟨hx, _⟩
    · exact h.g.noT (by simpa using hsec) x hx hp
    · subst hx
      have := (hT (by simpa using hp)).2.1
      simp [this] at hsec
  · by_cases hg : gatedFn fn = true
    · refine .inr (hs ?_)
      simp only [gatedFn, Bool.or_eq_true] at hg
      rcases hg with hg | hg
      · exact (hS hg).1
      · exact (hL hg).1
    · rcases h.g.gated with ⟨n1, n2, n3, n4⟩ | s
      · refine .inl ⟨?_, by simpa using n2, by simpa using n3, by simpa using n4⟩
        intro x hx
        rcases mem_addHandler hx with hx | ⟨hx, _⟩
        · exact n1 x hx
        · subst hx; simpa using hg
      · exact .inr (hs s)
  · intro x hx y hy px py nx ny
    rcases mem_addHandler hx with hx | ⟨hx, _⟩ <;> rcases mem_addHandler hy with hy | ⟨hy, _⟩
    · exact h.ph.uniqS x hx y hy px py nx ny
    · subst hy
      exact absurd ((hS (by simpa using py)).2.2.2.2.1 x hx px) nx
    · subst hx
      exact absurd ((hS (by simpa using px)).2.2.2.2.1 y hy py) ny
    · rw [hx, hy]
  · -- excl
    cases hf : isF fn
    · cases ht : isT fn
      · cases hsf : isS fn
        · rcases h.ph.excl with ⟨a, b⟩ | ⟨⟨a, a'⟩, b⟩ | ⟨⟨a, a'⟩, b⟩
          · exact .inl ⟨tr _ ht a, tr _ hsf b⟩
          · exact .inr (.inl ⟨⟨tr _ hf a, hntm a'⟩, tr _ hsf b⟩)
          · exact .inr (.inr ⟨⟨tr _ hf a, hntm a'⟩, tr _ ht b⟩)
        · obtain ⟨_, a, a', b, _⟩ := hS hsf
          exact .inr (.inr ⟨⟨tr _ hf a, hntm a'⟩, tr _ ht b⟩)
      · obtain ⟨_, _, a, a', b, _⟩ := hT ht
        have hsf : isS fn = false := isS_of_isT ht
        exact .inr (.inl ⟨⟨tr _ hf a, hntm a'⟩, tr _ hsf b⟩)
    · obtain ⟨_, a, b, _⟩ := hF hf
      have ht : isT fn = false := isT_of_isF hf
      have hsf : isS fn = false := isS_of_isF hf
      exact .inl ⟨tr _ ht a, tr _ hsf b⟩
  · -- e5
    intro f
    have f' := hfr f
    have hf : isF fn = false := by cases hf : isF fn; rfl; exact absurd f' (hF hf).2.2.2.1
    have ht : isT fn = false := by cases ht : isT fn; rfl; exact absurd f' (hT ht).2.2.2.2.2.1
    have hsf : isS fn = false := by cases hsf : isS fn; rfl; exact absurd f' (hS hsf).2.2.2.2.2.1
    obtain ⟨a, b, d, e⟩ := h.ph.e5 f'
    exact ⟨tr _ hf a, hntm b, tr _ ht d, tr _ hsf e⟩
  · -- e6
    intro l
    have l' := hlate l
    have hf : isF fn = false := by cases hf : isF fn; rfl; exact absurd l' (hF hf).2.2.2.2.1
    have ht : isT fn = false := by cases ht : isT fn; rfl; exact absurd l' (hT ht).2.2.2.2.2.2.1
    have hsf : isS fn = false := by cases hsf : isS fn; rfl; exact absurd l' (hS hsf).2.2.2.2.2.2.1
    obtain ⟨a, b, d, e, o⟩ := h.ph.e6 l'
    exact ⟨tr _ hf a, hntm b, tr _ ht d, tr _ hsf e, fun x => o (hop.1 x)⟩
  · -- i1
    intro hl
    have hl' : c.state ≠ .disconnected := by simpa using hl
    cases hf : isF fn
    · cases ht : isT fn
      · rcases h.me.i1 hl' with n | ⟨a, b, d, e⟩
        · exact .inl (hnt n)
        · exact .inr ⟨tr _ hf a, hntm b, tr _ ht d, fun f => fun x => e (hfr f) (hop.1 x)⟩
      · exact .inl (hnt ((hT ht).2.2.2.2.2.2.2 hl'))
    · exact .inl (hnt ((hF hf).2.2.2.2.2 hl'))
  · -- i2
    intro hl
    have hl' : c.state ≠ .disconnected := by simpa using hl
    cases hsf : isS fn
    · rcases h.me.i2 hl' with a | n
      · exact .inl (tr _ hsf a)
      · exact .inr (by simpa using fun x => hnt (n x))
    · exact .inr (by simpa using fun x => hnt ((hS hsf).2.2.2.2.2.2.2 hl' x))

theorem Inv_addIdHandler {u ut : Option Nat} {c : Conn} (h : Inv u ut c) (fn : HFun) (id : Bytes) (user : Bool)
    (hok : idFnOk fn = true) (hL : isLate fn = true → Safe c ∧ LateC c) (hu : user = true → fn = .userAll) :
    Inv u ut (addIdHandler c fn id user) := by
  have hs : Safe c → Safe (addIdHandler c fn id user) := fun s => s.same (by simp) (by simp) (by simp) (by simp)
  have hS : isS fn = false := by
    cases fn with
    | userAll => rfl
    | sys k => cases k <;> simp_all [idFnOk, isS]
  have nh : ∀ p, NoH u p c → NoH u p (addIdHandler c fn id user) := fun p n => by unfold NoH at *; simpa using n
  have ntm : NoTM ut c → NoTM ut (addIdHandler c fn id user) := NoTM_same (by simp)
  have hlate : LateC (addIdHandler c fn id user) → LateC c := by
    rintro (⟨x, hx, hp⟩ | ⟨x, hx, hp⟩ | h | h | h)
    · exact .inl ⟨x, by simpa using hx, hp⟩
    · rcases mem_addIdHandler hx with hx | ⟨hx, _⟩
      · exact .inr (.inl ⟨x, hx, hp⟩)
      · exact (hL (by rw [← hx]; exact hp)).2
    · exact .inr (.inr (.inl (by simpa using h)))
    · exact .inr (.inr (.inr (.inl (by simpa using h))))
    · exact .inr (.inr (.inr (.inr (by simpa using h))))
  have hnt : NT c → NT (addIdHandler c fn id user) := fun n => n.congr (by simp) (by simp) (by simp)
  refine ⟨⟨by simpa using h.g.nc, by simpa using h.g.userH, ?_, by simpa using h.g.ud0, by simpa using h.g.uniq,
      by simpa using h.g.q1, fun hsec => nh _ (h.g.noT (by simpa using hsec)), ?_⟩,
    ⟨?_, by simpa using h.ph.uniqS, by simpa using h.ph.uniqTM, ?_, ?_, ?_, by simpa using h.ph.e7,
      by simpa using h.ph.frp, by simpa using h.ph.userT⟩, ⟨?_, ?_, by simpa [KMask] using h.me.k⟩,
    ⟨by simpa using h.el.txN, by simpa [FlagsNow] using h.el.qN, by simpa using h.el.smN⟩⟩
  · intro x hx hxu
    rcases mem_addIdHandler hx with hx | ⟨hx, hx2⟩
    · exact h.g.userI x hx hxu
    · rw [hx]; exact hu (by rw [← hx2]; exact hxu)
  · by_cases hg : isLate fn = true
    · exact .inr (hs (hL hg).1)
    · rcases h.g.gated with ⟨n1, n2, n3, n4⟩ | s
      · refine .inl ⟨by simpa using n1, ?_, by simpa using n3, by simpa using n4⟩
        intro x hx
        rcases mem_addIdHandler hx with hx | ⟨hx, _⟩
        · exact n2 x hx
        · rw [hx]; simp [gatedFn, hS, hg]
      · exact .inr (hs s)
  · intro x hx
    rcases mem_addIdHandler hx with hx | ⟨hx, _⟩
    · exact h.ph.idFn x hx
    · rw [hx]; exact hok
  · rcases h.ph.excl with ⟨a, b⟩ | ⟨⟨a, a'⟩, b⟩ | ⟨⟨a, a'⟩, b⟩
    · exact .inl ⟨nh _ a, nh _ b⟩
    · exact .inr (.inl ⟨⟨nh _ a, ntm a'⟩, nh _ b⟩)
    · exact .inr (.inr ⟨⟨nh _ a, ntm a'⟩, nh _ b⟩)
  · intro f
    obtain ⟨a, b, d, e⟩ := h.ph.e5 (by unfold Fr at *; simpa using f)
    exact ⟨nh _ a, ntm b, nh _ d, nh _ e⟩
  · intro l
    obtain ⟨a, b, d, e, o⟩ := h.ph.e6 (hlate l)
    exact ⟨nh _ a, ntm b, nh _ d, nh _ e, by unfold OpenPre at *; simpa using o⟩
  · intro hl
    rcases h.me.i1 (by simpa using hl) with n | ⟨a, b, d, e⟩
    · exact .inl (hnt n)
    · exact .inr ⟨nh _ a, ntm b, nh _ d, by unfold Fr OpenPre at *; simpa using e⟩
  · intro hl
    rcases h.me.i2 (by simpa using hl) with a | n
    · exact .inl (nh _ a)
    · exact .inr (by simpa using fun x => hnt (n x))

theorem Inv_addTimed {u ut : Option Nat} {c : Conn} (h : Inv u ut c) (fn : TFun) (p : Nat) (us : Bool)
    (hTM : fn = .missingFeatures → us = false ∧ NoH u isT c ∧ NoH u isS c ∧ ¬Fr c ∧ ¬LateC c ∧ (c.state ≠ .disconnected → NT c)) :
    Inv u ut (addTimed c fn p us) := by
  have nh : ∀ p', NoH u p' c → NoH u p' (addTimed c fn p us) := fun p' n => by unfold NoH at *; simpa using n
  have ntm : fn ≠ .missingFeatures → NoTM ut c → NoTM ut (addTimed c fn p us) := by
    intro hne n t ht hf
    rcases mem_addTimed ht with ht | ⟨ht, _⟩
    · exact n t ht hf
    · exact absurd (ht ▸ hf) hne
  have hlate : LateC (addTimed c fn p us) → LateC c := by unfold LateC; simp
  have hfr : Fr (addTimed c fn p us) → Fr c := by unfold Fr; simp
  have hnt : NT c → NT (addTimed c fn p us) := fun n => n.congr (by simp) (by simp) (by simp)
  refine ⟨⟨by simpa using h.g.nc, by simpa using h.g.userH, by simpa using h.g.userI, by simpa using h.g.ud0,
      by simpa using h.g.uniq, by simpa using h.g.q1, fun hsec => nh _ (h.g.noT (by simpa using hsec)), ?_⟩,
    ⟨by simpa using h.ph.idFn, by simpa using h.ph.uniqS, ?_, ?_, ?_, ?_, by simpa using h.ph.e7,
      by simpa using h.ph.frp, ?_⟩, ⟨?_, ?_, by simpa [KMask] using h.me.k⟩,
    ⟨by simpa using h.el.txN, by simpa [FlagsNow] using h.el.qN, by simpa using h.el.smN⟩⟩
  · rcases h.g.gated with n | s
    · exact .inl (by unfold NotGated at *; simpa using n)
    · exact .inr (s.same (by simp) (by simp) (by simp) (by simp))
  · intro t1 h1 t2 h2 f1 f2
    rcases mem_addTimed h1 with h1 | ⟨h1, u1, _, hn⟩ <;> rcases mem_addTimed h2 with h2 | ⟨h2, u2, _, hn'⟩
    · exact h.ph.uniqTM t1 h1 t2 h2 f1 f2
    · rw [List.any_eq_false] at hn'
      exact absurd (by simp [f1, ← h2, f2]) (hn' t1 h1)
    · rw [List.any_eq_false] at hn
      exact absurd (by simp [f2, ← h1, f1]) (hn t2 h2)
    · rw [u1, u2]
  · by_cases hf : fn = .missingFeatures
    · obtain ⟨_, a, b, _⟩ := hTM hf
      exact .inl ⟨nh _ a, nh _ b⟩
    · rcases h.ph.excl with ⟨a, b⟩ | ⟨⟨a, a'⟩, b⟩ | ⟨⟨a, a'⟩, b⟩
      · exact .inl ⟨nh _ a, nh _ b⟩
      · exact .inr (.inl ⟨⟨nh _ a, ntm hf a'⟩, nh _ b⟩)
      · exact .inr (.inr ⟨⟨nh _ a, ntm hf a'⟩, nh _ b⟩)
  · intro f
    have f' := hfr f
    have hf : fn ≠ .missingFeatures := fun e => (hTM e).2.2.2.1 f'
    obtain ⟨a, b, d, e⟩ := h.ph.e5 f'
    exact ⟨nh _ a, ntm hf b, nh _ d, nh _ e⟩
  · intro l
    have l' := hlate l
    have hf : fn ≠ .missingFeatures := fun e => (hTM e).2.2.2.2.1 l'
    obtain ⟨a, b, d, e, o⟩ := h.ph.e6 l'
    exact ⟨nh _ a, ntm hf b, nh _ d, nh _ e, by unfold OpenPre at *; simpa using o⟩
  · intro t ht hu hf
    rcases mem_addTimed ht with ht | ⟨e1, _, e3, _⟩
    · exact h.ph.userT t ht hu hf
    · have := (hTM (e1 ▸ hf)).1
      rw [e3, this] at hu; cases hu
  · intro hl
    have hl' : c.state ≠ .disconnected := by simpa using hl
    by_cases hf : fn = .missingFeatures
    · exact .inl (hnt ((hTM hf).2.2.2.2.2 hl'))
    · rcases h.me.i1 hl' with n | ⟨a, b, d, e⟩
      · exact .inl (hnt n)
      · exact .inr ⟨nh _ a, ntm hf b, nh _ d, by unfold Fr OpenPre at *; simpa using e⟩
  · intro hl
    rcases h.me.i2 (by simpa using hl) with a | n
    · exact .inl (nh _ a)
    · exact .inr (by simpa using fun x => hnt (n x))

theorem Inv_delTimed {u ut : Option Nat} {c : Conn} (h : Inv u ut c) (fn : TFun) : Inv u ut (delTimed c fn) := by
  refine h.mono ⟨fun x hx => ⟨x, by simpa using hx, rfl, rfl, rfl, rfl⟩, fun x hx => ⟨x, by simpa using hx, rfl, rfl⟩,
    ?_, by simp, by simp, by simp, by simp, by simp, by simp⟩ (by simp)
  intro t ht
  simp only [delTimed_frame, List.mem_filter] at ht
  exact ⟨t, ht.1, rfl, rfl, rfl⟩

theorem Inv_resetTimed {u ut : Option Nat} {c : Conn} (h : Inv u ut c) : Inv u ut (resetTimed c) := by
  refine h.mono ⟨fun x hx => ⟨x, by simpa using hx, rfl, rfl, rfl, rfl⟩, fun x hx => ⟨x, by simpa using hx, rfl, rfl⟩,
    ?_, by simp, by simp, by simp, by simp, by simp, by simp⟩ (by simp)
  intro t ht
  simp only [resetTimed_frame, List.mem_map] at ht
  obtain ⟨t0, h0, rfl⟩ := ht
  exact ⟨t0, h0, rfl, rfl, rfl⟩

theorem Inv_notify {u ut : Option Nat} {c : Conn} (h : Inv u ut c) (e : Ev) : Inv u ut (notify c e) :=
  h.same (by simp [SameAll])

/-- removing handlers (the dispatch loops) -/
theorem Inv_filterHandlers {u ut : Option Nat} {c : Conn} (h : Inv u ut c) (p : Handler → Bool) :
    Inv u ut { c with handlers := c.handlers.filter p } := by
  refine h.mono ⟨?_, fun x hx => ⟨x, hx, rfl, rfl⟩, fun x hx => ⟨x, hx, rfl, rfl, rfl⟩, fun e he => he,
    by simp, by simp, by simp, by simp, by simp⟩ (by simp)
  intro x hx
  exact ⟨x, (List.mem_filter.1 hx).1, rfl, rfl, rfl, rfl⟩

theorem Inv_filterIdHandlers {u ut : Option Nat} {c : Conn} (h : Inv u ut c) (p : Handler → Bool) :
    Inv u ut { c with idHandlers := c.idHandlers.filter p } := by
  refine h.mono ⟨fun x hx => ⟨x, hx, rfl, rfl, rfl, rfl⟩, ?_, fun x hx => ⟨x, hx, rfl, rfl, rfl⟩, fun e he => he,
    by simp, by simp, by simp, by simp, by simp⟩ (by simp)
  intro x hx
  exact ⟨x, (List.mem_filter.1 hx).1, rfl, rfl⟩

theorem Inv_filterTimed {u ut : Option Nat} {c : Conn} (h : Inv u ut c) (p : Timed → Bool) :
    Inv u ut { c with timed := c.timed.filter p } := by
  refine h.mono ⟨fun x hx => ⟨x, hx, rfl, rfl, rfl, rfl⟩, fun x hx => ⟨x, hx, rfl, rfl⟩, ?_, fun e he => he,
    by simp, by simp, by simp, by simp, by simp⟩ (by simp)
  intro x hx
  exact ⟨x, (List.mem_filter.1 hx).1, rfl, rfl, rfl⟩

/-! ### sending -/

theorem Inv_pushRawWith {u ut : Option Nat} {c : Conn} (h : Inv u ut c) (it : Item) (o : Owner) (s : Snap)
    (h1 : it.authBearing = true → c.state = .connected → c.tlsMandatory = true → c.hasTls = true ∧ c.secured = true)
    (hN : negItem it = true → ownerOf c o = .smStrophe ∧ ItemOk it s ∧ (c.state = .connected → FlagsNow c s)) :
    Inv u ut (pushRawWith c it o s) := by
  have m : Mono c (pushRawWith c it o s) :=
    ⟨fun x hx => ⟨x, by simpa using hx, rfl, rfl, rfl, rfl⟩, fun x hx => ⟨x, by simpa using hx, rfl, rfl⟩,
      fun x hx => ⟨x, by simpa using hx, rfl, rfl, rfl⟩, fun e he => by simpa using he,
      by simp, by simp, by simp, by simp, by simp⟩
  have g0 : G u { pushRawWith c it o s with queue := c.queue } := h.g.mono
    ⟨m.hs, m.ids, m.tm, m.smq, m.cfg, m.tls, m.oh, m.p, m.en⟩ rfl
  refine ⟨⟨g0.nc, g0.userH, g0.userI, g0.ud0, g0.uniq, ?_, g0.noT, g0.gated⟩, h.ph.mono m, h.me.mono m (by simp) (by simp),
    ⟨by simpa using h.el.txN, ?_, by simpa using h.el.smN⟩⟩
  · intro hc hm e he hb
    simp only [pushRawWith_frame] at hc hm ⊢
    rcases mem_pushRawWith he with he | ⟨_, ⟨hi, _⟩ | ⟨hi, _⟩⟩
    · exact h.g.q1 hc hm e he hb
    · rw [hi] at hb; exact h1 hb hc hm
    · rw [hi] at hb; simp [Item.authBearing] at hb
  · intro e he hn
    have hfl : FlagsNow (pushRawWith c it o s) e.snap ↔ FlagsNow c e.snap := by unfold FlagsNow; simp
    simp only [pushRawWith_frame, hfl]
    rcases mem_pushRawWith he with he | ⟨hsn, ⟨hi, ho⟩ | ⟨hi, _⟩⟩
    · exact h.el.qN e he hn
    · rw [hi] at hn ⊢; rw [ho, hsn]; exact hN hn
    · rw [hi] at hn; simp [negItem] at hn

theorem Inv_pushRaw {u ut : Option Nat} {c : Conn} (h : Inv u ut c) (it : Item) (o : Owner)
    (h1 : it.authBearing = true → c.state = .connected → c.tlsMandatory = true → c.hasTls = true ∧ c.secured = true)
    (hN : negItem it = true → ownerOf c o = .smStrophe ∧ ItemOk it (curSnap c)) :
    Inv u ut (pushRaw c it o) :=
  Inv_pushRawWith h it o _ h1 fun n => ⟨(hN n).1, (hN n).2, fun _ => ⟨rfl, rfl, rfl⟩⟩

/-- pushes of elements that are not part of the authentication -/
theorem Inv_pushRaw' {u ut : Option Nat} {c : Conn} (h : Inv u ut c) (it : Item) (o : Owner)
    (hn : negItem it = false) : Inv u ut (pushRaw c it o) :=
  Inv_pushRaw h it o (fun hb => by rw [authBearing_neg hb] at hn; cases hn) (fun n => by rw [n] at hn; cases hn)

theorem Inv_sendStanza' {u ut : Option Nat} {c : Conn} (h : Inv u ut c) (it : Item) (o : Owner)
    (hn : negItem it = false) : Inv u ut (sendStanza c it o) := by
  rw [sendStanza_eq]; split
  · exact Inv_pushRaw' h it o hn
  · exact h

theorem Inv_sendRaw' {u ut : Option Nat} {c : Conn} (h : Inv u ut c) (it : Item) (o : Owner)
    (hn : negItem it = false) : Inv u ut (sendRaw c it o) := by
  rw [sendRaw_eq]; split
  · exact Inv_pushRaw' h it o hn
  · exact h

theorem Inv_sendRawString' {u ut : Option Nat} {c : Conn} (h : Inv u ut c) (it : Item)
    (hn : negItem it = false) : Inv u ut (sendRawString c it) := by
  rw [sendRawString_eq]; split
  · exact Inv_pushRaw' h it _ hn
  · exact h

/-- the SASL / STARTTLS / legacy requests: past the TLS check, stream management off -/
theorem Inv_sendStanza_neg {u ut : Option Nat} {c : Conn} (h : Inv u ut c) (it : Item)
    (h1 : it.authBearing = true → c.state = .connected → c.tlsMandatory = true → c.hasTls = true ∧ c.secured = true)
    (he : c.sm.enabled = false) (hi : c.state = .connected → ItemOk it (curSnap c)) :
    Inv u ut (sendStanza c it .strophe) := by
  rw [sendStanza_eq]; split
  · rename_i hc
    have hc' : c.state = .connected := by
      unfold isConnectedFor at hc
      simp only [Bool.and_eq_true, decide_eq_true_eq] at hc
      exact hc.1
    exact Inv_pushRaw h it _ h1 fun _ => ⟨by simp [ownerOf, he], hi hc'⟩
  · exact h

theorem Inv_connOpenStream {u ut : Option Nat} {c : Conn} (h : Inv u ut c) : Inv u ut (connOpenStream c) := by
  unfold connOpenStream; exact Inv_sendRawString' h _ rfl

theorem Inv_negotiationSuccess {u ut : Option Nat} {c : Conn} (h : Inv u ut c) : Inv u ut (negotiationSuccess c) := by
  rw [negotiationSuccess_eq]
  have h1 : Inv u ut (notify { c with negotiated := true } .connect) := h.same (by simp [SameAll])
  split
  · exact Inv_sendStanza' h1 _ _ rfl
  · exact h1

@[simp] theorem xmppDisconnect_frame (c : Conn) :
    same_core[c, xmppDisconnect c] ∧ same_h[c, xmppDisconnect c] := by
  unfold xmppDisconnect; split <;> simp

theorem Inv_xmppDisconnect {u ut : Option Nat} {c : Conn} (h : Inv u ut c) : Inv u ut (xmppDisconnect c) := by
  unfold xmppDisconnect; split
  · exact h
  · exact Inv_addTimed (Inv_sendRawString' h .close rfl) _ _ _ (by simp)

/-! ### parser reset, disconnect, TLS -/

theorem Inv_prepareReset {u ut : Option Nat} {c : Conn} (h : Inv u ut c) (oh : OpenH)
    (hk : NoH u isF c ∧ NoTM ut c ∧ NoH u isT c ∧ NoH u isS c)
    (hp : c.state = .connected → c.pst ≠ .fresh)
    (hcase : (oh = .openTls ∧ ¬LateC c ∧ (c.state ≠ .disconnected → NT c)) ∨
      ((oh = .openSasl ∨ oh = .openCompress) ∧ Safe c)) : Inv u ut (prepareReset c oh) := by
  have nh : ∀ p, NoH u p c → NoH u p (prepareReset c oh) := fun p n => by unfold NoH at *; simpa using n
  have ntm : NoTM ut c → NoTM ut (prepareReset c oh) := NoTM_same (by simp)
  have hs : Safe c → Safe (prepareReset c oh) := fun s => s.same (by simp) (by simp) (by simp) (by simp)
  have hnt : NT c → NT (prepareReset c oh) := fun n => n.congr (by simp) (by simp) (by simp)
  obtain ⟨k1, k2, k3, k4⟩ := hk
  refine ⟨⟨by simpa using h.g.nc, by simpa using h.g.userH, by simpa using h.g.userI, by simpa using h.g.ud0,
      by simpa using h.g.uniq, by simpa using h.g.q1, fun hsec => nh _ (h.g.noT (by simpa using hsec)), ?_⟩,
    ⟨by simpa using h.ph.idFn, by simpa using h.ph.uniqS, by simpa using h.ph.uniqTM,
      .inl ⟨nh _ k3, nh _ k4⟩, fun _ => ⟨nh _ k1, ntm k2, nh _ k3, nh _ k4⟩, ?_, by simpa using h.ph.e7, ?_,
      by simpa using h.ph.userT⟩,
    ⟨?_, ?_, by simpa [KMask] using h.me.k⟩,
    ⟨by simpa using h.el.txN, by simpa [FlagsNow] using h.el.qN, by simpa using h.el.smN⟩⟩
  · rcases hcase with ⟨ho, _, _⟩ | ⟨_, s⟩
    · rcases h.g.gated with ⟨n1, n2, _, _⟩ | s
      · exact .inl ⟨by simpa using n1, by simpa using n2, by simp [ho], by simp [ho]⟩
      · exact .inr (hs s)
    · exact .inr (hs s)
  · intro l
    refine ⟨nh _ k1, ntm k2, nh _ k3, nh _ k4, ?_⟩
    rcases hcase with ⟨ho, nl, _⟩ | ⟨ho, _⟩
    · exfalso
      apply nl
      rcases l with l | l | l | l | l
      · exact .inl (by simpa using l)
      · exact .inr (.inl (by simpa using l))
      · simp [ho] at l
      · simp [ho] at l
      · exact .inr (.inr (.inr (.inr (by simpa using l))))
    · rcases ho with ho | ho <;> simp [OpenPre, ho]
  · intro hc hf
    exact absurd (by simpa using hf) (hp (by simpa using hc))
  · intro hl
    rcases hcase with ⟨_, _, n⟩ | ⟨ho, _⟩
    · exact .inl (hnt (n (by simpa using hl)))
    · refine .inr ⟨nh _ k1, ntm k2, nh _ k3, fun _ => ?_⟩
      rcases ho with ho | ho <;> simp [OpenPre, ho]
  · intro hl
    rcases h.me.i2 (by simpa using hl) with a | n
    · exact .inl (nh _ a)
    · exact .inr (by simpa using fun x => hnt (n x))

theorem Inv_connDisconnect {u ut : Option Nat} {c : Conn} (h : Inv u ut c) : Inv u ut (connDisconnect c) := by
  by_cases hd : c.state = .disconnected
  · rw [connDisconnect_of_disconnected hd]; exact h
  have nh : ∀ p, NoH u p c → NoH u p (connDisconnect c) := fun p n => by unfold NoH at *; simpa using n
  have ntm : NoTM ut c → NoTM ut (connDisconnect c) := NoTM_same (by simp)
  have hen := connDisconnect_enabled hd
  have hlate : LateC (connDisconnect c) → LateC c := by
    rintro (l | l | l | l | l)
    · exact .inl (by simpa using l)
    · exact .inr (.inl (by simpa using l))
    · exact .inr (.inr (.inl (by simpa using l)))
    · exact .inr (.inr (.inr (.inl (by simpa using l))))
    · rw [hen] at l; cases l
  refine ⟨⟨by simp, by simpa using h.g.userH, by simpa using h.g.userI, by simpa using h.g.ud0,
      by simpa using h.g.uniq, by simp, fun hsec => nh _ (h.g.noT (by simpa using hsec)), .inr (.inl (by simp))⟩,
    ⟨by simpa using h.ph.idFn, by simpa using h.ph.uniqS, by simpa using h.ph.uniqTM, ?_, ?_, ?_, fun _ => hen,
      by simp, by simpa using h.ph.userT⟩, ⟨by simp, by simp, by simpa [KMask] using h.me.k⟩,
    ⟨by simpa using h.el.txN, ?_, by simpa using h.el.smN⟩⟩
  · rcases h.ph.excl with ⟨a, b⟩ | ⟨⟨a, a'⟩, b⟩ | ⟨⟨a, a'⟩, b⟩
    · exact .inl ⟨nh _ a, nh _ b⟩
    · exact .inr (.inl ⟨⟨nh _ a, ntm a'⟩, nh _ b⟩)
    · exact .inr (.inr ⟨⟨nh _ a, ntm a'⟩, nh _ b⟩)
  · intro f
    obtain ⟨a, b, d, e⟩ := h.ph.e5 (by unfold Fr at *; simpa using f)
    exact ⟨nh _ a, ntm b, nh _ d, nh _ e⟩
  · intro l
    obtain ⟨a, b, d, e, o⟩ := h.ph.e6 (hlate l)
    exact ⟨nh _ a, ntm b, nh _ d, nh _ e, by unfold OpenPre at *; simpa using o⟩
  · intro e he hn
    obtain ⟨a, b, _⟩ := h.el.qN e (by simpa using he) hn
    exact ⟨a, b, by simp⟩

theorem Inv_connTlsStart {u ut : Option Nat} {c : Conn} (h : Inv u ut c) (hs : c.secured = false)
    (hn : NoH u isT c) : Inv u ut (connTlsStart c).1 := by
  have key : ∀ (ht sec tf : Bool) (er : Int), (ht = true → sec = true) → (sec = true ∨ sec = c.secured) →
      Inv u ut { c with hasTls := ht, secured := sec, tlsFailed := tf, error := er } := by
    intro ht sec tf er h1 h2
    refine ⟨⟨h.g.nc, h.g.userH, h.g.userI, h.g.ud0, h.g.uniq, ?_, fun _ => hn, ?_⟩, ?_, ?_, ?_⟩
    · intro hc hm e he hb
      have := (h.g.q1 hc hm e he hb).2
      rw [hs] at this; cases this
    · rcases h.g.gated with n | s
      · exact .inl n
      · refine .inr ?_
        rcases s with s | ⟨s, g⟩
        · exact .inl s
        · refine .inr ⟨s, fun hm => ?_⟩
          have := (g hm).2
          rw [hs] at this; cases this
    · exact ⟨h.ph.idFn, h.ph.uniqS, h.ph.uniqTM, h.ph.excl, h.ph.e5, h.ph.e6, h.ph.e7, h.ph.frp, h.ph.userT⟩
    · exact ⟨h.me.i1, h.me.i2, h.me.k⟩
    · exact ⟨h.el.txN, h.el.qN, h.el.smN⟩
  unfold connTlsStart
  split
  · exact key false c.secured c.tlsFailed c.error (by simp) (.inr rfl)
  · split
    · exact key false c.secured c.tlsFailed c.error (by simp) (.inr rfl)
    · split
      · exact key false c.secured true 71 (by simp) (.inr rfl)
      · exact key true true c.tlsFailed c.error (by simp) (.inl rfl)

/-! ### exemptions -/

theorem NoH.weaken {u : Option Nat} {p : HFun → Bool} {c : Conn} (h : NoH none p c) : NoH u p c :=
  fun x hx hp => absurd (h x hx hp) (by simp)
theorem NoTM.weaken {ut : Option Nat} {c : Conn} (h : NoTM none c) : NoTM ut c :=
  fun x hx hp => absurd (h x hx hp) (by simp)

theorem Inv.weaken {u ut : Option Nat} {c : Conn} (h : Inv none none c) : Inv u ut c := by
  refine ⟨⟨h.g.nc, h.g.userH, h.g.userI, h.g.ud0, h.g.uniq, h.g.q1, fun hs => (h.g.noT hs).weaken, h.g.gated⟩,
    ⟨h.ph.idFn, fun x hx y hy px py _ _ => h.ph.uniqS x hx y hy px py (by simp) (by simp), h.ph.uniqTM, ?_, ?_, ?_,
      h.ph.e7, h.ph.frp, h.ph.userT⟩, ⟨?_, ?_, h.me.k⟩, h.el⟩
  · rcases h.ph.excl with ⟨a, b⟩ | ⟨⟨a, a'⟩, b⟩ | ⟨⟨a, a'⟩, b⟩
    · exact .inl ⟨a.weaken, b.weaken⟩
    · exact .inr (.inl ⟨⟨a.weaken, a'.weaken⟩, b.weaken⟩)
    · exact .inr (.inr ⟨⟨a.weaken, a'.weaken⟩, b.weaken⟩)
  · intro f
    obtain ⟨a, b, d, e⟩ := h.ph.e5 f
    exact ⟨a.weaken, b.weaken, d.weaken, e.weaken⟩
  · intro l
    obtain ⟨a, b, d, e, o⟩ := h.ph.e6 l
    exact ⟨a.weaken, b.weaken, d.weaken, e.weaken, o⟩
  · intro hl
    rcases h.me.i1 hl with n | ⟨a, b, d, e⟩
    · exact .inl n
    · exact .inr ⟨a.weaken, b.weaken, d.weaken, e⟩
  · intro hl
    rcases h.me.i2 hl with a | n
    · exact .inl a.weaken
    · exact .inr n

/-- the handler that was running is gone: no exemption any more -/
theorem Inv.unexempt {ut : Option Nat} {c : Conn} (uid : Nat) (h : Inv (some uid) ut c) :
    Inv none ut { c with handlers := c.handlers.filter (·.uid ≠ uid) } := by
  have h' := Inv_filterHandlers h (·.uid ≠ uid)
  have cl : ∀ p, NoH (some uid) p { c with handlers := c.handlers.filter (·.uid ≠ uid) } →
      NoH none p { c with handlers := c.handlers.filter (·.uid ≠ uid) } := by
    intro p n x hx hp
    have := n x hx hp
    have hne := (List.mem_filter.1 hx).2
    simp at this hne
    exact absurd this hne
  refine ⟨⟨h'.g.nc, h'.g.userH, h'.g.userI, h'.g.ud0, h'.g.uniq, h'.g.q1, fun hs => cl _ (h'.g.noT hs), h'.g.gated⟩,
    ⟨h'.ph.idFn, ?_, h'.ph.uniqTM, ?_, ?_, ?_, h'.ph.e7, h'.ph.frp, h'.ph.userT⟩, ⟨?_, ?_, h'.me.k⟩, h'.el⟩
  · intro x hx y hy px py _ _
    have nx := (List.mem_filter.1 hx).2
    have ny := (List.mem_filter.1 hy).2
    exact h'.ph.uniqS x hx y hy px py (by simpa using nx) (by simpa using ny)
  · rcases h'.ph.excl with ⟨a, b⟩ | ⟨⟨a, a'⟩, b⟩ | ⟨⟨a, a'⟩, b⟩
    · exact .inl ⟨cl _ a, cl _ b⟩
    · exact .inr (.inl ⟨⟨cl _ a, a'⟩, cl _ b⟩)
    · exact .inr (.inr ⟨⟨cl _ a, a'⟩, cl _ b⟩)
  · intro f
    obtain ⟨a, b, d, e⟩ := h'.ph.e5 f
    exact ⟨cl _ a, b, cl _ d, cl _ e⟩
  · intro l
    obtain ⟨a, b, d, e, o⟩ := h'.ph.e6 l
    exact ⟨cl _ a, b, cl _ d, cl _ e, o⟩
  · intro hl
    rcases h'.me.i1 hl with n | ⟨a, b, d, e⟩
    · exact .inl n
    · exact .inr ⟨cl _ a, b, cl _ d, e⟩
  · intro hl
    rcases h'.me.i2 hl with a | n
    · exact .inl (cl _ a)
    · exact .inr n

/-- same for the timer that was running -/
theorem Inv.unexemptT {u : Option Nat} {c : Conn} (uid : Nat) (h : Inv u (some uid) c) :
    Inv u none { c with timed := c.timed.filter (·.uid ≠ uid) } := by
  have h' := Inv_filterTimed h (·.uid ≠ uid)
  have cl : NoTM (some uid) { c with timed := c.timed.filter (·.uid ≠ uid) } →
      NoTM none { c with timed := c.timed.filter (·.uid ≠ uid) } := by
    intro n x hx hp
    have := n x hx hp
    have hne := (List.mem_filter.1 hx).2
    simp at this hne
    exact absurd this hne
  refine ⟨h'.g, ⟨h'.ph.idFn, h'.ph.uniqS, h'.ph.uniqTM, ?_, ?_, ?_, h'.ph.e7, h'.ph.frp, h'.ph.userT⟩, ⟨?_, h'.me.i2, h'.me.k⟩, h'.el⟩
  · rcases h'.ph.excl with ⟨a, b⟩ | ⟨⟨a, a'⟩, b⟩ | ⟨⟨a, a'⟩, b⟩
    · exact .inl ⟨a, b⟩
    · exact .inr (.inl ⟨⟨a, cl a'⟩, b⟩)
    · exact .inr (.inr ⟨⟨a, cl a'⟩, b⟩)
  · intro f
    obtain ⟨a, b, d, e⟩ := h'.ph.e5 f
    exact ⟨a, cl b, d, e⟩
  · intro l
    obtain ⟨a, b, d, e, o⟩ := h'.ph.e6 l
    exact ⟨a, cl b, d, e, o⟩
  · intro hl
    rcases h'.me.i1 hl with n | ⟨a, b, d, e⟩
    · exact .inl n
    · exact .inr ⟨a, cl b, d, e⟩

/-! ### updates of the stream-management record and of the ghost -/

theorem Inv_smUpdate {u ut : Option Nat} {c : Conn} (h : Inv u ut c) (s' : SmState)
    (hq : ∀ e ∈ s'.queue, e ∈ c.sm.queue)
    (he : s'.enabled = true → c.sm.enabled = true ∨ (LateC c ∧ c.state ≠ .disconnected)) :
    Inv u ut { c with sm := s' } := by
  have hlate : LateC { c with sm := s' } → LateC c := by
    rintro (l | l | l | l | l)
    · exact .inl l
    · exact .inr (.inl l)
    · exact .inr (.inr (.inl l))
    · exact .inr (.inr (.inr (.inl l)))
    · rcases he l with e | ⟨e, _⟩
      · exact .inr (.inr (.inr (.inr e)))
      · exact e
  refine ⟨⟨h.g.nc, h.g.userH, h.g.userI, h.g.ud0, h.g.uniq, h.g.q1, h.g.noT, h.g.gated⟩,
    ⟨h.ph.idFn, h.ph.uniqS, h.ph.uniqTM, h.ph.excl, h.ph.e5, fun l => h.ph.e6 (hlate l), ?_, h.ph.frp, h.ph.userT⟩,
    ⟨h.me.i1, h.me.i2, h.me.k⟩, ⟨h.el.txN, h.el.qN, fun e he' => h.el.smN e (hq e he')⟩⟩
  intro hd
  cases hs : s'.enabled
  · rfl
  · rcases he hs with e | ⟨_, e⟩
    · rw [h.ph.e7 hd] at e; cases e
    · exact absurd hd e

/-- in the late phase the offers no longer matter -/
theorem Inv_ghost_late {u ut : Option Nat} {c : Conn} (h : Inv u ut c) (l : LateC c) (g' : Ghost) :
    Inv u ut { c with g := g' } := by
  obtain ⟨a, b, d, e, o⟩ := h.ph.e6 l
  exact ⟨⟨h.g.nc, h.g.userH, h.g.userI, h.g.ud0, h.g.uniq, h.g.q1, h.g.noT, h.g.gated⟩,
    ⟨h.ph.idFn, h.ph.uniqS, h.ph.uniqTM, h.ph.excl, h.ph.e5, h.ph.e6, h.ph.e7, h.ph.frp, h.ph.userT⟩,
    ⟨fun _ => .inr ⟨a, b, d, fun _ => o⟩, fun _ => .inl e, h.me.k⟩, ⟨h.el.txN, h.el.qN, h.el.smN⟩⟩

/-- ghost updates that leave the offers alone -/
theorem Inv_ghost_same {u ut : Option Nat} {c : Conn} (h : Inv u ut c) (g' : Ghost)
    (e : g'.offeredMechs = c.g.offeredMechs) : Inv u ut { c with g := g' } :=
  h.same (by simp [SameAll, e])

end Strophe.Lemmas.ConnC02
