/-
The invariant behind C02 and its preservation by the primitive transitions.
-/
import Strophe.Lemmas.ConnC02Base

namespace Strophe.Lemmas.ConnC02
open Strophe Strophe.Conn

/-- the STARTTLS `<proceed/>` handler -/
abbrev hT : HFun := .sys .proceedTls

/-- handlers that only exist after `_auth` went past the MANDATORY_TLS check -/
def postFn : HFun → Bool
  | .sys (.saslResult _) => true
  | .sys .digestChallenge => true
  | .sys .digestRspauth => true
  | .sys (.scramChallenge _ _) => true
  | .sys .featuresSasl => true
  | .sys .featuresCompress => true
  | .sys .sm => true
  | .sys .compressResult => true
  | .sys .bind => true
  | .sys .session => true
  | _ => false

def Gate (c : Conn) : Prop := c.tlsMandatory = true → c.hasTls = true ∧ c.secured = true
def Safe (c : Conn) : Prop := c.state = .disconnected ∨ (c.state = .connected ∧ Gate c)
def NotPost (c : Conn) : Prop :=
  (∀ h ∈ c.handlers, postFn h.fn = false) ∧ (∀ h ∈ c.idHandlers, postFn h.fn = false) ∧
  c.openHandler ≠ .openSasl ∧ c.openHandler ≠ .openCompress

/-- properties 2 and 4 for one element, as far as they hold: for what the library queued while
    stream management was off -/
def ElemOk (it : Item) (o : Owner) (s : Snap) : Prop :=
  o = .smStrophe → (it = .starttls → s.tlsDisabled = false) ∧
    (∀ u r p, it = .legacy u r p → s.authLegacy = true ∧ s.isClient = true)

/-- invariant of the handler world (the connection is not in state `connecting`).  `u`: uid of the
    `<proceed/>` handler that is being run right now (it is still in the list while TLS starts). -/
structure H (u : Option Nat) (c : Conn) : Prop where
  nc : c.state ≠ .connecting
  tx1 : ∀ r ∈ c.tx, r.snap.mandatory = true → r.item.authBearing = true → r.sec = true
  txE : ∀ r ∈ c.tx, ElemOk r.item r.owner r.snap
  q1 : c.state = .connected → ∀ e ∈ c.queue, e.snap.mandatory = true → e.item.authBearing = true →
    c.hasTls = true ∧ c.secured = true
  qE : ∀ e ∈ c.queue, ElemOk e.item e.owner e.snap
  smq : ∀ e ∈ c.sm.queue, e.2.owner ≠ .smStrophe
  noT : c.secured = true → ∀ h ∈ c.handlers, h.fn = hT → some h.uid = u
  tUd : ∀ h ∈ c.handlers, h.fn = hT → h.ud = 0
  tUniq : ∀ h1 ∈ c.handlers, ∀ h2 ∈ c.handlers, h1.fn = hT → h2.fn = hT → h1.uid = h2.uid
  userH : ∀ h ∈ c.handlers, h.user = true → h.fn = .userAll
  userI : ∀ h ∈ c.idHandlers, h.user = true → h.fn = .userAll
  post : NotPost c ∨ Safe c

/-- the fields the invariant reads -/
def SameH (c c' : Conn) : Prop :=
  c'.state = c.state ∧ c'.tlsMandatory = c.tlsMandatory ∧ c'.hasTls = c.hasTls ∧ c'.secured = c.secured ∧
  c'.tx = c.tx ∧ c'.queue = c.queue ∧ (∀ e ∈ c'.sm.queue, e ∈ c.sm.queue) ∧ c'.handlers = c.handlers ∧
  c'.idHandlers = c.idHandlers ∧ c'.openHandler = c.openHandler

theorem H.same {u : Option Nat} {c c' : Conn} (h : H u c) (s : SameH c c') : H u c' := by
  obtain ⟨e1, e2, e3, e4, e5, e6, e7, e8, e9, e10⟩ := s
  have h' := h
  obtain ⟨a1, a2, a3, a4, a5, a6, a7, a8, a9, a10, a11, a12⟩ := h'
  refine ⟨?_, ?_, ?_, ?_, ?_, ?_, ?_, ?_, ?_, ?_, ?_, ?_⟩
  · rw [e1]; exact a1
  · rw [e5]; exact a2
  · rw [e5]; exact a3
  · rw [e1, e6, e3, e4]; exact a4
  · rw [e6]; exact a5
  · exact fun e he => a6 e (e7 e he)
  · rw [e4, e8]; exact a7
  · rw [e8]; exact a8
  · rw [e8]; exact a9
  · rw [e8]; exact a10
  · rw [e9]; exact a11
  · unfold NotPost Safe Gate at *
    rw [e1, e2, e3, e4, e8, e9, e10]; exact a12

theorem Safe.same {c c' : Conn} (s : Safe c) (e1 : c'.state = c.state) (e2 : c'.tlsMandatory = c.tlsMandatory)
    (e3 : c'.hasTls = c.hasTls) (e4 : c'.secured = c.secured) : Safe c' := by
  unfold Safe Gate at *; rw [e1, e2, e3, e4]; exact s

/-- weakening: a state that is fine with no `<proceed/>` handler running is fine with one running -/
theorem H.weaken {u : Option Nat} {c : Conn} (h : H none c) : H u c :=
  { h with noT := fun hs x hx hf => absurd (h.noT hs x hx hf) (by simp) }

/-! ### primitives -/

theorem H_addHandler {u : Option Nat} {c : Conn} (h : H u c) (fn : HFun) (ud : Nat) (ns name type : Option Bytes)
    (user : Bool) (hTc : fn = hT → c.secured = false ∧ ud = 0) (hp : postFn fn = true → Safe c)
    (hu : user = true → fn = .userAll) : H u (addHandler c fn ud ns name type user) := by
  have hs : Safe c → Safe (addHandler c fn ud ns name type user) := fun s => s.same (by simp) (by simp) (by simp) (by simp)
  refine ⟨by simpa using h.nc, by simpa using h.tx1, by simpa using h.txE, by simpa using h.q1,
    by simpa using h.qE, by simpa using h.smq, ?_, ?_, ?_, ?_, by simpa using h.userI, ?_⟩
  · intro hsec x hx hf
    rcases mem_addHandler hx with hx | ⟨hx, _⟩
    · exact h.noT (by simpa using hsec) x hx hf
    · subst hx
      have := (hTc (by simpa using hf)).1
      simp [this] at hsec
  · intro x hx hf
    rcases mem_addHandler hx with hx | ⟨hx, _⟩
    · exact h.tUd x hx hf
    · subst hx; simpa using (hTc (by simpa using hf)).2
  · intro x hx y hy hfx hfy
    rcases mem_addHandler hx with hx | ⟨hx, hn⟩ <;> rcases mem_addHandler hy with hy | ⟨hy, hn'⟩
    · exact h.tUniq x hx y hy hfx hfy
    · exfalso
      subst hy
      have e : fn = hT := by simpa using hfy
      rw [List.any_eq_false] at hn'
      exact hn' x hx (by simp [e, hfx, h.tUd x hx hfx, (hTc e).2])
    · exfalso
      subst hx
      have e : fn = hT := by simpa using hfx
      rw [List.any_eq_false] at hn
      exact hn y hy (by simp [e, hfy, h.tUd y hy hfy, (hTc e).2])
    · rw [hx, hy]
  · intro x hx hxu
    rcases mem_addHandler hx with hx | ⟨hx, _⟩
    · exact h.userH x hx hxu
    · subst hx; simpa using hu (by simpa using hxu)
  · by_cases hpf : postFn fn = true
    · exact .inr (hs (hp hpf))
    · rcases h.post with ⟨n1, n2, n3, n4⟩ | s
      · refine .inl ⟨?_, by simpa using n2, by simpa using n3, by simpa using n4⟩
        intro x hx
        rcases mem_addHandler hx with hx | ⟨hx, _⟩
        · exact n1 x hx
        · subst hx; simpa using hpf
      · exact .inr (hs s)

theorem H_addIdHandler {u : Option Nat} {c : Conn} (h : H u c) (fn : HFun) (id : Bytes) (user : Bool)
    (hp : postFn fn = true → Safe c) (hu : user = true → fn = .userAll) : H u (addIdHandler c fn id user) := by
  have hs : Safe c → Safe (addIdHandler c fn id user) := fun s => s.same (by simp) (by simp) (by simp) (by simp)
  refine ⟨by simpa using h.nc, by simpa using h.tx1, by simpa using h.txE, by simpa using h.q1,
    by simpa using h.qE, by simpa using h.smq, by simpa using h.noT, by simpa using h.tUd,
    by simpa using h.tUniq, by simpa using h.userH, ?_, ?_⟩
  · intro x hx hxu
    rcases mem_addIdHandler hx with hx | ⟨hx, hx2⟩
    · exact h.userI x hx hxu
    · rw [hx]; exact hu (by rw [← hx2]; exact hxu)
  · by_cases hpf : postFn fn = true
    · exact .inr (hs (hp hpf))
    · rcases h.post with ⟨n1, n2, n3, n4⟩ | s
      · refine .inl ⟨by simpa using n1, ?_, by simpa using n3, by simpa using n4⟩
        intro x hx
        rcases mem_addIdHandler hx with hx | ⟨hx, _⟩
        · exact n2 x hx
        · rw [hx]; simpa using hpf
      · exact .inr (hs s)

theorem H_addTimed {u : Option Nat} {c : Conn} (h : H u c) (fn : TFun) (p : Nat) (us : Bool) :
    H u (addTimed c fn p us) := h.same (by simp [SameH])
theorem H_delTimed {u : Option Nat} {c : Conn} (h : H u c) (fn : TFun) : H u (delTimed c fn) :=
  h.same (by simp [SameH])
theorem H_resetTimed {u : Option Nat} {c : Conn} (h : H u c) : H u (resetTimed c) := h.same (by simp [SameH])
theorem H_notify {u : Option Nat} {c : Conn} (h : H u c) (e : Ev) : H u (notify c e) := h.same (by simp [SameH])

theorem H_prepareReset {u : Option Nat} {c : Conn} (h : H u c) (oh : OpenH)
    (hp : oh = .openSasl ∨ oh = .openCompress → Safe c) : H u (prepareReset c oh) := by
  have hs : Safe c → Safe (prepareReset c oh) := fun s => s.same (by simp) (by simp) (by simp) (by simp)
  refine ⟨by simpa using h.nc, by simpa using h.tx1, by simpa using h.txE, by simpa using h.q1,
    by simpa using h.qE, by simpa using h.smq, by simpa using h.noT, by simpa using h.tUd,
    by simpa using h.tUniq, by simpa using h.userH, by simpa using h.userI, ?_⟩
  by_cases ho : oh = .openSasl ∨ oh = .openCompress
  · exact .inr (hs (hp ho))
  · rcases h.post with ⟨n1, n2, _, _⟩ | s
    · exact .inl ⟨by simpa using n1, by simpa using n2, by simpa using fun e => ho (.inl e),
        by simpa using fun e => ho (.inr e)⟩
    · exact .inr (hs s)

theorem H_pushRaw {u : Option Nat} {c : Conn} (h : H u c) (it : Item) (o : Owner)
    (h1 : c.state = .connected → c.tlsMandatory = true → it.authBearing = true →
      c.hasTls = true ∧ c.secured = true)
    (hE : ElemOk it (ownerOf c o) (snapOf c)) : H u (pushRaw c it o) := by
  have hs : Safe c → Safe (pushRaw c it o) := fun s => s.same (by simp) (by simp) (by simp) (by simp)
  refine ⟨by simpa using h.nc, by simpa using h.tx1, by simpa using h.txE, ?_, ?_,
    by simpa using h.smq, by simpa using h.noT, by simpa using h.tUd,
    by simpa using h.tUniq, by simpa using h.userH, by simpa using h.userI, ?_⟩
  · intro hc e he hm hb
    simp only [pushRaw_frame] at hc ⊢
    rcases mem_pushRaw he with he | ⟨hsn, ⟨hi, _⟩ | ⟨hi, _⟩⟩
    · exact h.q1 hc e he hm hb
    · rw [hsn] at hm; rw [hi] at hb; exact h1 hc hm hb
    · rw [hi] at hb; simp [Item.authBearing] at hb
  · intro e he
    rcases mem_pushRaw he with he | ⟨hsn, ⟨hi, ho⟩ | ⟨hi, _⟩⟩
    · exact h.qE e he
    · rw [hsn, hi, ho]; exact hE
    · rw [hi]; intro _; simp
  · rcases h.post with ⟨n1, n2, n3, n4⟩ | s
    · exact .inl ⟨by simpa using n1, by simpa using n2, by simpa using n3, by simpa using n4⟩
    · exact .inr (hs s)

theorem H_connDisconnect {u : Option Nat} {c : Conn} (h : H u c) : H u (connDisconnect c) := by
  by_cases hd : c.state = .disconnected
  · rw [connDisconnect_of_disconnected hd]; exact h
  · refine ⟨by simp, by simpa using h.tx1, by simpa using h.txE, by simp, by simpa using h.qE,
      by simpa using h.smq, by simpa using h.noT, by simpa using h.tUd,
      by simpa using h.tUniq, by simpa using h.userH, by simpa using h.userI, .inr (.inl (by simp))⟩

/-- the MANDATORY_TLS check of `_auth`, as far as it matters for what is queued now -/
def GateC (c : Conn) : Prop :=
  c.state = .connected → c.tlsMandatory = true → c.hasTls = true ∧ c.secured = true

theorem Safe.gateC {c : Conn} (s : Safe c) : GateC c := by
  intro hc hm
  rcases s with s | ⟨_, g⟩
  · rw [hc] at s; cases s
  · exact g hm

theorem GateC.same {c c' : Conn} (s : GateC c) (e1 : c'.state = c.state) (e2 : c'.tlsMandatory = c.tlsMandatory)
    (e3 : c'.hasTls = c.hasTls) (e4 : c'.secured = c.secured) : GateC c' := by
  unfold GateC at *; rw [e1, e2, e3, e4]; exact s

/-! ### sending -/

theorem H_sendStanza {u : Option Nat} {c : Conn} (h : H u c) (it : Item) (o : Owner)
    (h1 : it.authBearing = true → GateC c) (hE : ElemOk it (ownerOf c o) (snapOf c)) :
    H u (sendStanza c it o) := by
  rw [sendStanza_eq]; split
  · exact H_pushRaw h it o (fun a b d => h1 d a b) hE
  · exact h

theorem H_sendRaw {u : Option Nat} {c : Conn} (h : H u c) (it : Item) (o : Owner)
    (h1 : it.authBearing = true → GateC c) (hE : ElemOk it (ownerOf c o) (snapOf c)) :
    H u (sendRaw c it o) := by
  rw [sendRaw_eq]; split
  · exact H_pushRaw h it o (fun a b d => h1 d a b) hE
  · exact h

theorem H_sendRawString {u : Option Nat} {c : Conn} (h : H u c) (it : Item)
    (h1 : it.authBearing = true → GateC c) (hE : ElemOk it .smStrophe (snapOf c)) :
    H u (sendRawString c it) := by
  rw [sendRawString_eq]; split
  · exact H_pushRaw h it .smStrophe (fun a b d => h1 d a b) (by simpa [ownerOf] using hE)
  · exact h

theorem H_xmppDisconnect {u : Option Nat} {c : Conn} (h : H u c) : H u (xmppDisconnect c) := by
  unfold xmppDisconnect; split
  · exact h
  · exact H_addTimed (H_sendRawString h .close (by simp [Item.authBearing]) (by simp [ElemOk])) _ _ _

theorem H_connOpenStream {u : Option Nat} {c : Conn} (h : H u c) : H u (connOpenStream c) := by
  unfold connOpenStream
  exact H_sendRawString h _ (by simp [Item.authBearing]) (by simp [ElemOk])

theorem H_negotiationSuccess {u : Option Nat} {c : Conn} (h : H u c) : H u (negotiationSuccess c) :=
  h.same (by simp [SameH])

/-! ### bind / session / stream management requests -/

@[simp] theorem doBind_frame (c : Conn) :
    same_cfg[c, doBind c] ∧ same_tls[c, doBind c] ∧ same_neg[c, doBind c] ∧ (doBind c).tx = c.tx := by
  simp [doBind]

theorem H_doBind {u : Option Nat} {c : Conn} (h : H u c) (s : Safe c) : H u (doBind c) := by
  unfold doBind
  exact H_sendStanza (H_addTimed (H_addIdHandler h _ _ _ (fun _ => s) (by simp)) _ _ _) _ _
    (by simp [Item.authBearing]) (by simp [ElemOk])

@[simp] theorem sessionStart_frame (c : Conn) :
    same_cfg[c, sessionStart c] ∧ same_tls[c, sessionStart c] ∧ same_neg[c, sessionStart c] ∧
    (sessionStart c).tx = c.tx := by
  simp [sessionStart]

theorem H_sessionStart {u : Option Nat} {c : Conn} (h : H u c) (s : Safe c) : H u (sessionStart c) := by
  unfold sessionStart
  exact H_sendStanza (H_addTimed (H_addIdHandler h _ _ _ (fun _ => s) (by simp)) _ _ _) _ _
    (by simp [Item.authBearing]) (by simp [ElemOk])

@[simp] theorem smEnable_frame (c : Conn) :
    same_cfg[c, smEnable c] ∧ same_tls[c, smEnable c] ∧ same_neg[c, smEnable c] ∧ (smEnable c).tx = c.tx := by
  simp [smEnable]

theorem H_smEnable {u : Option Nat} {c : Conn} (h : H u c) (s : Safe c) : H u (smEnable c) := by
  unfold smEnable
  have h2 := H_sendStanza (H_addHandler h (.sys .sm) 0 (some Gen.nsSm) none none false (by simp [hT])
    (fun _ => s) (by simp)) (.enable (!(addHandler c (.sys .sm) 0 (some Gen.nsSm) none none false).sm.dontRequestResume))
    .smStrophe (by simp [Item.authBearing]) (by simp [ElemOk])
  exact h2.same (by simp [SameH])

theorem smQueueResend_fold_frame (b : Conn) (l : List (UInt32 × QElem)) (c : Conn)
    (hb : same_cfg[b, c] ∧ same_tls[b, c] ∧ same_neg[b, c] ∧ same_h[b, c] ∧ c.sm.enabled = b.sm.enabled ∧ c.tx = b.tx) :
    let d := l.foldl (fun c e => sendRaw c e.2.item e.2.owner) c
    same_cfg[b, d] ∧ same_tls[b, d] ∧ same_neg[b, d] ∧ same_h[b, d] ∧ d.sm.enabled = b.sm.enabled ∧ d.tx = b.tx := by
  induction l generalizing c with
  | nil => simpa using hb
  | cons e l ih =>
    simp only [List.foldl_cons]
    exact ih (sendRaw c e.2.item e.2.owner) (by simpa using hb)

@[simp] theorem smQueueResend_frame (c : Conn) :
    same_cfg[c, smQueueResend c] ∧ same_tls[c, smQueueResend c] ∧ same_neg[c, smQueueResend c] ∧
    same_h[c, smQueueResend c] ∧ (smQueueResend c).sm.enabled = c.sm.enabled ∧ (smQueueResend c).tx = c.tx :=
  smQueueResend_fold_frame c c.sm.queue { c with sm := { c.sm with queue := [] } } (by simp)

theorem H_smQueueResend {u : Option Nat} {c : Conn} (h : H u c) (s : GateC c) (he : c.sm.enabled = true) :
    H u (smQueueResend c) := by
  unfold smQueueResend
  have key : ∀ (l : List (UInt32 × QElem)) (c : Conn), H u c → GateC c → c.sm.enabled = true →
      (∀ e ∈ l, e.2.owner ≠ .smStrophe) → H u (l.foldl (fun c e => sendRaw c e.2.item e.2.owner) c) := by
    intro l
    induction l with
    | nil => intro c h _ _ _; exact h
    | cons e l ih =>
      intro c h s he ho
      simp only [List.foldl_cons]
      refine ih _ (H_sendRaw h _ _ (fun _ => s) ?_) (s.same (by simp) (by simp) (by simp) (by simp))
        (by simpa using he) (fun e' he' => ho e' (List.mem_cons_of_mem _ he'))
      have := ho e (List.mem_cons_self ..)
      intro ho'
      simp [ownerOf, he] at ho'
      exact absurd ho' this
  exact key c.sm.queue _ (h.same (by simp [SameH])) (s.same rfl rfl rfl rfl) he h.smq

/-! ### `_auth` -/

@[simp] theorem authLegacyStep_frame (c : Conn) :
    same_cfg[c, authLegacyStep c] ∧ same_tls[c, authLegacyStep c] ∧ same_neg[c, authLegacyStep c] ∧
    (authLegacyStep c).tx = c.tx := by
  unfold authLegacyStep
  split
  · simp
  · split
    · simp
    · split <;> simp

theorem H_authLegacyStep {u : Option Nat} {c : Conn} (h : H u c) (s : Safe c) (ha : c.authLegacy = true)
    (hc : c.ctype = .client) : H u (authLegacyStep c) := by
  unfold authLegacyStep
  split
  · exact H_xmppDisconnect h
  · split
    · exact H_xmppDisconnect h
    · split
      · exact H_xmppDisconnect h
      · exact H_sendStanza (H_addTimed (H_addIdHandler h (.sys .legacy) _ false (by simp [postFn]) (by simp)) _ _ _)
          _ _ (fun _ => s.gateC.same (by simp) (by simp) (by simp) (by simp))
          (by simp [ElemOk, snapOf, ha, hc])

/-- one SASL attempt of `_auth`: install the result handler, send `<auth/>`, clear the mechanism bit -/
def mechStep (c : Conn) (fn : HFun) (ud : Nat) (it : Item) (mask : Nat) : Conn :=
  let c1 := addHandler c fn ud (some Gen.nsSasl) none none false
  let c2 := sendStanza c1 it .strophe
  { c2 with saslSupport := c2.saslSupport &&& (mask ^^^ 0xFFFF) }

@[simp] theorem mechStep_frame (c : Conn) (fn : HFun) (ud : Nat) (it : Item) (mask : Nat) :
    same_cfg[c, mechStep c fn ud it mask] ∧ same_tls[c, mechStep c fn ud it mask] ∧
    (mechStep c fn ud it mask).tlsSupport = c.tlsSupport ∧
    (mechStep c fn ud it mask).g.offeredMechs = c.g.offeredMechs ∧ (mechStep c fn ud it mask).tx = c.tx := by
  simp [mechStep]

theorem H_mechStep {u : Option Nat} {c : Conn} (h : H u c) (s : Safe c) (fn : HFun) (ud : Nat) (it : Item)
    (mask : Nat) (hf : fn ≠ hT) (hi : ∃ m t, it = .auth m t) : H u (mechStep c fn ud it mask) := by
  unfold mechStep
  obtain ⟨m, t, rfl⟩ := hi
  have h2 := H_sendStanza (H_addHandler h fn ud (some Gen.nsSasl) none none false (fun e => absurd e hf)
    (fun _ => s) (by simp)) (.auth m t) .strophe
    (fun _ => s.gateC.same (by simp) (by simp) (by simp) (by simp)) (by simp [ElemOk])
  exact h2.same (by simp [SameH])

theorem safe_of_gate {u : Option Nat} {c : Conn} (h : H u c)
    (hg : ¬((c.tlsMandatory && !isSecured c) = true)) : Safe c := by
  have g : Gate c := by
    intro hm
    rw [hm] at hg
    unfold isSecured at hg
    revert hg
    cases c.secured <;> cases c.tlsFailed <;> cases c.hasTls <;> decide
  have := h.nc
  cases hs : c.state
  · exact .inl hs
  · exact absurd hs this
  · exact .inr ⟨hs, g⟩

/-- the STARTTLS request of `_auth` -/
def startTlsStep (c : Conn) : Conn :=
  let c1 := addHandler c (.sys .proceedTls) 0 (some Gen.nsTls) none none false
  let c2 := sendStanza c1 .starttls .strophe
  { c2 with tlsSupport := false }

/-- the SCRAM attempt of `_auth` -/
def scramStep (c : Conn) : Conn :=
  match firstScram c.saslSupport with
  | none => c
  | some (ix, name, mask) =>
    if (mask &&& scramPlusMask ≠ 0) && !isSecured c then xmppDisconnect c
    else mechStep { c with nextUid := c.nextUid + 1 } (.sys (.scramChallenge c.nextUid ix)) (100 + c.nextUid)
      (.auth name true) mask

theorem auth_succ (c : Conn) (n : Nat) : auth c (n + 1) =
    if c.tlsSupport then
      if c.tlsNewFail then auth { c with tlsSupport := false } n else startTlsStep c
    else if c.tlsMandatory && !isSecured c then connDisconnect c
    else if anonJid c && c.saslSupport &&& Gen.saslMaskAnonymous ≠ 0 then
      mechStep c (.sys (.saslResult (b "ANONYMOUS"))) 1 (.auth (b "ANONYMOUS") false) Gen.saslMaskAnonymous
    else if c.saslSupport &&& Gen.saslMaskExternal ≠ 0 then
      mechStep c (.sys (.saslResult (b "EXTERNAL"))) 2 (.auth (b "EXTERNAL") true) Gen.saslMaskExternal
    else if anonJid c then xmppDisconnect c
    else if c.pass.isNone then xmppDisconnect c
    else if c.saslSupport &&& scramMaskAll ≠ 0 then scramStep c
    else if c.saslSupport &&& Gen.saslMaskDigestmd5 ≠ 0 then
      mechStep c (.sys .digestChallenge) 0 (.auth (b "DIGEST-MD5") false) Gen.saslMaskDigestmd5
    else if c.saslSupport &&& Gen.saslMaskPlain ≠ 0 then
      mechStep c (.sys (.saslResult (b "PLAIN"))) 3 (.auth (b "PLAIN") true) Gen.saslMaskPlain
    else if c.ctype = .client && c.authLegacy then authLegacyStep c
    else xmppDisconnect c := by
  rfl

theorem H_scramStep {u : Option Nat} {c : Conn} (h : H u c) (s : Safe c) : H u (scramStep c) := by
  unfold scramStep
  split
  · exact h
  · split
    · exact H_xmppDisconnect h
    · exact H_mechStep (c := { c with nextUid := c.nextUid + 1 }) (h.same (by simp [SameH]))
        (s.same rfl rfl rfl rfl) _ _ _ _ (by simp [hT]) ⟨_, _, rfl⟩

theorem H_auth {u : Option Nat} : ∀ (n : Nat) (c : Conn), H u c →
    (c.tlsSupport = true → c.secured = false ∧ c.tlsDisabled = false) → H u (auth c n)
  | 0, c, h, _ => h
  | n + 1, c, h, hs => by
    rw [auth_succ]
    split
    · rename_i ht
      split
      · exact H_auth n _ (h.same (by simp [SameH])) (by simp)
      · have h2 := H_sendStanza (H_addHandler h hT 0 (some Gen.nsTls) none none false
          (fun _ => ⟨(hs ht).1, rfl⟩) (by simp [postFn]) (by simp)) .starttls .strophe
          (by simp [Item.authBearing]) (by simp [ElemOk, snapOf, (hs ht).2])
        exact h2.same (by simp [SameH, startTlsStep])
    · split
      · exact H_connDisconnect h
      · rename_i hg
        have s := safe_of_gate h hg
        split
        · exact H_mechStep h s _ _ _ _ (by simp [hT]) ⟨_, _, rfl⟩
        · split
          · exact H_mechStep h s _ _ _ _ (by simp [hT]) ⟨_, _, rfl⟩
          · split
            · exact H_xmppDisconnect h
            · split
              · exact H_xmppDisconnect h
              · split
                · exact H_scramStep h s
                · split
                  · exact H_mechStep h s _ _ _ _ (by simp [hT]) ⟨_, _, rfl⟩
                  · split
                    · exact H_mechStep h s _ _ _ _ (by simp [hT]) ⟨_, _, rfl⟩
                    · split
                      · rename_i hl
                        simp at hl
                        exact H_authLegacyStep h s hl.2 hl.1
                      · exact H_xmppDisconnect h

@[simp] theorem scramStep_frame (c : Conn) :
    same_cfg[c, scramStep c] ∧ same_tls[c, scramStep c] ∧ (scramStep c).tlsSupport = c.tlsSupport ∧
    (scramStep c).g.offeredMechs = c.g.offeredMechs ∧ (scramStep c).tx = c.tx := by
  unfold scramStep
  split
  · simp
  · split <;> simp

theorem auth_sup_of_false : ∀ (n : Nat) (c : Conn), c.tlsSupport = false → (auth c n).tlsSupport = false
  | 0, c, h => h
  | n + 1, c, h => by
    rw [auth_succ]
    simp only [h, Bool.false_eq_true, if_false]
    repeat' split
    all_goals simp [h]

theorem auth_sup (n : Nat) (c : Conn) : (auth c (n + 1)).tlsSupport = false := by
  by_cases h : c.tlsSupport = true
  · rw [auth_succ]
    simp only [h, if_true]
    split
    · exact auth_sup_of_false n _ rfl
    · simp [startTlsStep]
  · exact auth_sup_of_false _ _ (by simpa using h)

end Strophe.Lemmas.ConnC02
