/-
Definitions and step-level facts behind Props/C04.lean (XEP-0198 outbound: numbering, retention,
release, retransmission).  No reachability is needed in this file.
-/
import Strophe.Model.ConnOps

namespace Strophe.Lemmas.ConnC04
open Strophe Strophe.Conn

/-- the retained numbers are consecutive (mod 2^32) and end just below the next number to assign -/
def Contig (s : SmState) : Prop :=
  ∀ i (h : i < s.queue.length), (s.queue[i]).1 + UInt32.ofNat (s.queue.length - i) = s.sentNr

/-- no wrap-around inside the retained window (numbers can then be compared as naturals) -/
def NoWrap (s : SmState) : Prop := s.queue.length ≤ s.sentNr.toNat

instance (s : SmState) : Decidable (NoWrap s) := by unfold NoWrap; infer_instance
instance (s : SmState) : Decidable (Contig s) := by unfold Contig; infer_instance

/-- the XEP-0198 handler is waiting for the answer to `<enable/>` / `<resume/>` -/
def smPending (c : Conn) : Bool := c.handlers.any fun h => h.fn = .sys .sm

/-- the `h` the model reads off an SM element (`strtoul`; unusable text counts as "everything") -/
def hOf (st : XTree) : Option Nat :=
  (st.attr (b "h")).map fun hs => let (v, bad) := stringToUl hs; if bad then 2 ^ 64 - 1 else v

/-- an SM element carrying `h = hv` is among the parser events of this loop iteration -/
def carriesH (op : Op) (hv : Nat) : Prop :=
  ∃ evs st, op = .run (.data evs) ∧ PEv.stanza st ∈ evs ∧ hOf st = some hv

/-- items of the send queue other than the ack requests the library interleaves -/
def payload (q : List QElem) : List Item := (q.map (·.item)).filter (· ≠ .req)

/-! ### consecutive numbers -/

/-- `Contig` on the two fields it speaks about -/
def ContigQ (q : List (UInt32 × QElem)) (n : UInt32) : Prop :=
  ∀ i (h : i < q.length), (q[i]).1 + UInt32.ofNat (q.length - i) = n

theorem contig_iff (s : SmState) : Contig s ↔ ContigQ s.queue s.sentNr := Iff.rfl

theorem ContigQ.nil (n : UInt32) : ContigQ [] n := by
  intro i h; cases h

theorem ContigQ.suffix {q q' : List (UInt32 × QElem)} {n : UInt32} (h : ContigQ q n) (hs : q' <:+ q) :
    ContigQ q' n := by
  obtain ⟨pre, rfl⟩ := hs
  intro i hi
  have hi' : pre.length + i < (pre ++ q').length := by rw [List.length_append]; omega
  have := h (pre.length + i) hi'
  rw [List.getElem_append_right (by omega)] at this
  simp only [Nat.add_sub_cancel_left, List.length_append] at this
  rw [show pre.length + q'.length - (pre.length + i) = q'.length - i by omega] at this
  exact this

theorem ContigQ.dropWhile {q : List (UInt32 × QElem)} {n : UInt32} (h : ContigQ q n)
    (p : UInt32 × QElem → Bool) : ContigQ (q.dropWhile p) n :=
  h.suffix (List.dropWhile_suffix p)

theorem ContigQ.snoc {q : List (UInt32 × QElem)} {n : UInt32} (h : ContigQ q n) (e : QElem) :
    ContigQ (q ++ [(n, e)]) (n + 1) := by
  intro i hi
  rw [List.length_append, List.length_singleton] at hi ⊢
  by_cases hlt : i < q.length
  · rw [List.getElem_append_left hlt]
    have := h i hlt
    rw [show q.length + 1 - i = (q.length - i) + 1 by omega, UInt32.ofNat_add, ← UInt32.add_assoc, this,
      UInt32.ofNat_one]
  · have hi2 : i = q.length := by omega
    subst hi2
    rw [List.getElem_append_right (Nat.le_refl _)]
    simp only [Nat.sub_self, List.getElem_cons_zero, Nat.add_sub_cancel_left, UInt32.ofNat_one]

/-- without wrap-around the numbers are `sentNr - len + i` as naturals -/
theorem ContigQ.toNat {q : List (UInt32 × QElem)} {n : UInt32} (h : ContigQ q n) (hw : q.length ≤ n.toNat)
    (i : Nat) (hi : i < q.length) : (q[i]).1.toNat + (q.length - i) = n.toNat := by
  have := congrArg UInt32.toNat (h i hi)
  rw [UInt32.toNat_add, UInt32.toNat_ofNat'] at this
  have hn := UInt32.toNat_lt n
  have hx := UInt32.toNat_lt (q[i]).1
  have hk : (q.length - i) % 2 ^ 32 = q.length - i := Nat.mod_eq_of_lt (by omega)
  rw [hk] at this
  -- (x + k) % 2^32 = n with k ≤ n: no wrap
  have hk2 : q.length - i ≤ n.toNat := by omega
  by_cases hlt : (q[i]).1.toNat + (q.length - i) < 2 ^ 32
  · rw [Nat.mod_eq_of_lt hlt] at this; exact this
  · exfalso
    have hge : 2 ^ 32 ≤ (q[i]).1.toNat + (q.length - i) := by omega
    have : ((q[i]).1.toNat + (q.length - i)) % 2 ^ 32 = (q[i]).1.toNat + (q.length - i) - 2 ^ 32 := by
      rw [Nat.mod_eq_sub_mod hge, Nat.mod_eq_of_lt (by omega)]
    omega

/-- consecutive numbers without wrap-around are increasing -/
theorem ContigQ.pairwise {q : List (UInt32 × QElem)} {n : UInt32} (h : ContigQ q n) (hw : q.length ≤ n.toNat) :
    q.Pairwise (fun a c => a.1.toNat < c.1.toNat) := by
  rw [List.pairwise_iff_getElem]
  intro i j hi hj hij
  have h1 := h.toNat hw i hi
  have h2 := h.toNat hw j hj
  omega

theorem dropWhile_eq_filter_of_pairwise (v : Nat) :
    ∀ (q : List (UInt32 × QElem)), q.Pairwise (fun a c => a.1.toNat < c.1.toNat) →
      q.dropWhile (fun e => e.1.toNat < v) = q.filter (fun e => v ≤ e.1.toNat)
  | [], _ => rfl
  | x :: q, hp => by
    have hp' := List.pairwise_cons.1 hp
    rw [List.dropWhile_cons, List.filter_cons]
    by_cases hx : x.1.toNat < v
    · have h1 : decide (x.1.toNat < v) = true := decide_eq_true hx
      have h2 : ¬ (decide (v ≤ x.1.toNat) = true) := by simp; omega
      rw [if_pos h1, if_neg h2]
      exact dropWhile_eq_filter_of_pairwise v q hp'.2
    · have h1 : ¬ (decide (x.1.toNat < v) = true) := by simp; omega
      have h2 : decide (v ≤ x.1.toNat) = true := decide_eq_true (by omega)
      rw [if_neg h1, if_pos h2]
      congr 1
      symm
      rw [List.filter_eq_self]
      intro y hy
      have := hp'.1 y hy
      exact decide_eq_true (by omega)

theorem cleanup_eq_filter {q : List (UInt32 × QElem)} {n : UInt32} (h : ContigQ q n) (hw : q.length ≤ n.toNat)
    (v : Nat) : smQueueCleanup q v = q.filter (fun e => v ≤ e.1.toNat) :=
  dropWhile_eq_filter_of_pairwise v q (h.pairwise hw)

end Strophe.Lemmas.ConnC04
