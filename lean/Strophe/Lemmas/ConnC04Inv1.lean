/-
Invariants of the connection machine behind Props/C04.lean that every function keeps
unconditionally: what is retained was written under that number (`Wr`).
-/
import Strophe.Lemmas.ConnC04Step

namespace Strophe.Lemmas.ConnC04
open Strophe Strophe.Conn

/-- every retained element was written to the server under exactly that number -/
def Wr (c : Conn) : Prop :=
  ∀ x ∈ c.sm.queue, ∃ r ∈ c.tx, r.smNum = some x.1 ∧ r.item = x.2.item

/-- the new retained queue only holds elements of the old one -/
def QSub (c : Conn) (s' : SmState) : Prop := ∀ x ∈ s'.queue, x ∈ c.sm.queue

variable {c : Conn}

theorem Wr_rec1 {s' : SmState} {bj : Option Bytes} {g' : Ghost} {hs : Bool} (h : Wr c) (hq : QSub c s') :
    Wr { c with sm := s', boundJid := bj, g := g', hasSm := hs } :=
  fun x hx => h x (hq x hx)

theorem Wr_pushRawWith {it o sn} (h : Wr c) : Wr (pushRawWith c it o sn) := by
  have hs := pushRawWith_same c it o sn
  intro x hx
  rw [hs.smq] at hx
  rw [hs.tx]
  exact h x hx

theorem Wr_retire {e} (h : Wr c) : Wr (retire c e) := by
  unfold retire triggerSmCallback
  dsimp only
  split
  · rename_i hb
    intro x hx
    rcases List.mem_append.1 hx with hx | hx
    · obtain ⟨r, hr, h1⟩ := h x hx
      exact ⟨r, List.mem_append_left _ hr, h1⟩
    · simp only [List.mem_singleton] at hx
      subst hx
      exact ⟨_, List.mem_append_right _ (List.mem_singleton.2 rfl), rfl, rfl⟩
  · intro x hx
    obtain ⟨r, hr, h1⟩ := h x hx
    exact ⟨r, List.mem_append_left _ hr, h1⟩

theorem Wr_resetSmForReconnect (h : Wr c) : Wr (resetSmForReconnect c) := by
  obtain ⟨h1, _, _, h4, _⟩ := resetSmForReconnect_same c
  intro x hx
  rw [h1] at hx
  rw [h4]
  exact h x hx

theorem Wr_triggerSmCallback (h : Wr c) : Wr (triggerSmCallback c) := h
theorem Wr_addHandler {fn ud ns name type user} (h : Wr c) : Wr (addHandler c fn ud ns name type user) := by
  c4auto addHandler
  all_goals (first | exact fun x h => h | (intro x hx; exact (List.dropWhile_sublist _).subset hx) | (intro x hx; cases hx))
theorem Wr_addIdHandler {fn id user} (h : Wr c) : Wr (addIdHandler c fn id user) := by
  c4auto addIdHandler
  all_goals (first | exact fun x h => h | (intro x hx; exact (List.dropWhile_sublist _).subset hx) | (intro x hx; cases hx))
theorem Wr_addTimed {fn period user} (h : Wr c) : Wr (addTimed c fn period user) := by
  c4auto addTimed
  all_goals (first | exact fun x h => h | (intro x hx; exact (List.dropWhile_sublist _).subset hx) | (intro x hx; cases hx))
theorem Wr_delTimed {fn} (h : Wr c) : Wr (delTimed c fn) := by
  c4auto delTimed
  all_goals (first | exact fun x h => h | (intro x hx; exact (List.dropWhile_sublist _).subset hx) | (intro x hx; cases hx))
theorem Wr_resetTimed (h : Wr c) : Wr (resetTimed c) := by
  c4auto resetTimed
  all_goals (first | exact fun x h => h | (intro x hx; exact (List.dropWhile_sublist _).subset hx) | (intro x hx; cases hx))
theorem Wr_systemDeleteAll (h : Wr c) : Wr (systemDeleteAll c) := by
  c4auto systemDeleteAll
  all_goals (first | exact fun x h => h | (intro x hx; exact (List.dropWhile_sublist _).subset hx) | (intro x hx; cases hx))
theorem Wr_notify {e} (h : Wr c) : Wr (notify c e) := by
  c4auto notify
  all_goals (first | exact fun x h => h | (intro x hx; exact (List.dropWhile_sublist _).subset hx) | (intro x hx; cases hx))
theorem Wr_connDisconnect (h : Wr c) : Wr (connDisconnect c) := by
  c4auto connDisconnect
  all_goals (first | exact fun x h => h | (intro x hx; exact (List.dropWhile_sublist _).subset hx) | (intro x hx; cases hx))
theorem Wr_pushRaw {it o} (h : Wr c) : Wr (pushRaw c it o) := by
  c4auto pushRaw
  all_goals (first | exact fun x h => h | (intro x hx; exact (List.dropWhile_sublist _).subset hx) | (intro x hx; cases hx))
theorem Wr_sendStanza {it o} (h : Wr c) : Wr (sendStanza c it o) := by
  c4auto sendStanza
  all_goals (first | exact fun x h => h | (intro x hx; exact (List.dropWhile_sublist _).subset hx) | (intro x hx; cases hx))
theorem Wr_sendRaw {it o} (h : Wr c) : Wr (sendRaw c it o) := by
  c4auto sendRaw
  all_goals (first | exact fun x h => h | (intro x hx; exact (List.dropWhile_sublist _).subset hx) | (intro x hx; cases hx))
theorem Wr_sendRawString {it} (h : Wr c) : Wr (sendRawString c it) := by
  c4auto sendRawString
  all_goals (first | exact fun x h => h | (intro x hx; exact (List.dropWhile_sublist _).subset hx) | (intro x hx; cases hx))
theorem Wr_xmppDisconnect (h : Wr c) : Wr (xmppDisconnect c) := by
  c4auto xmppDisconnect
  all_goals (first | exact fun x h => h | (intro x hx; exact (List.dropWhile_sublist _).subset hx) | (intro x hx; cases hx))
theorem Wr_connTlsStart (h : Wr c) : Wr ((connTlsStart c).1) := by
  c4auto connTlsStart
  all_goals (first | exact fun x h => h | (intro x hx; exact (List.dropWhile_sublist _).subset hx) | (intro x hx; cases hx))
theorem Wr_connOpenStream (h : Wr c) : Wr (connOpenStream c) := by
  c4auto connOpenStream
  all_goals (first | exact fun x h => h | (intro x hx; exact (List.dropWhile_sublist _).subset hx) | (intro x hx; cases hx))
theorem Wr_prepareReset {o} (h : Wr c) : Wr (prepareReset c o) := h
theorem Wr_negotiationSuccess (h : Wr c) : Wr (negotiationSuccess c) := by
  c4auto negotiationSuccess
  all_goals (first | exact fun x h => h | (intro x hx; exact (List.dropWhile_sublist _).subset hx) | (intro x hx; cases hx))
theorem Wr_authLegacyStep (h : Wr c) : Wr (authLegacyStep c) := by
  c4auto authLegacyStep
  all_goals (first | exact fun x h => h | (intro x hx; exact (List.dropWhile_sublist _).subset hx) | (intro x hx; cases hx))
theorem Wr_auth (n : Nat) : ∀ {c}, Wr c → Wr (auth c n) := by
  induction n with
  | zero => intro c h; exact h
  | succ n ih =>
    intro c h
    rw [auth]
    dsimp only
    c4trav
    all_goals first | (apply ih; c4trav) | skip
theorem Wr_authTop (h : Wr c) : Wr (authTop c) := Wr_auth _ h
theorem Wr_saslChild {t} (h : Wr c) : Wr (saslChild c t) := by
  c4auto saslChild
  all_goals (first | exact fun x h => h | (intro x hx; exact (List.dropWhile_sublist _).subset hx) | (intro x hx; cases hx))
theorem Wr_noteOffers {st} (h : Wr c) : Wr (noteOffers c st) := by
  c4auto noteOffers
  all_goals (first | exact fun x h => h | (intro x hx; exact (List.dropWhile_sublist _).subset hx) | (intro x hx; cases hx))
theorem Wr_handleFeatures {st} (h : Wr c) : Wr (handleFeatures c st) := by
  c4auto handleFeatures
  all_goals (first | exact fun x h => h | (intro x hx; exact (List.dropWhile_sublist _).subset hx) | (intro x hx; cases hx))
theorem Wr_doBind (h : Wr c) : Wr (doBind c) := by
  c4auto doBind
  all_goals (first | exact fun x h => h | (intro x hx; exact (List.dropWhile_sublist _).subset hx) | (intro x hx; cases hx))
theorem Wr_smEnable (h : Wr c) : Wr (smEnable c) := by
  c4auto smEnable
  all_goals (first | exact fun x h => h | (intro x hx; exact (List.dropWhile_sublist _).subset hx) | (intro x hx; cases hx))
theorem Wr_sessionStart (h : Wr c) : Wr (sessionStart c) := by
  c4auto sessionStart
  all_goals (first | exact fun x h => h | (intro x hx; exact (List.dropWhile_sublist _).subset hx) | (intro x hx; cases hx))
theorem Wr_handleFeaturesSasl {st} (h : Wr c) : Wr (handleFeaturesSasl c st) := by
  c4auto handleFeaturesSasl
  all_goals (first | exact fun x h => h | (intro x hx; exact (List.dropWhile_sublist _).subset hx) | (intro x hx; cases hx))
theorem Wr_compressionOffer {st} (h : Wr c) : Wr (compressionOffer c st) := by
  c4auto compressionOffer
  all_goals (first | exact fun x h => h | (intro x hx; exact (List.dropWhile_sublist _).subset hx) | (intro x hx; cases hx))
theorem Wr_handleFeaturesCompress {st} (h : Wr c) : Wr (handleFeaturesCompress c st) := by
  c4auto handleFeaturesCompress
  all_goals (first | exact fun x h => h | (intro x hx; exact (List.dropWhile_sublist _).subset hx) | (intro x hx; cases hx))
theorem Wr_handleSaslResult {st} (h : Wr c) : Wr (handleSaslResult c st) := by
  c4auto handleSaslResult
  all_goals (first | exact fun x h => h | (intro x hx; exact (List.dropWhile_sublist _).subset hx) | (intro x hx; cases hx))
theorem Wr_smQueueResend (h : Wr c) : Wr (smQueueResend c) := by
  c4auto smQueueResend
  all_goals (first | exact fun x h => h | (intro x hx; exact (List.dropWhile_sublist _).subset hx) | (intro x hx; cases hx))
theorem Wr_handleSm {st} (h : Wr c) : Wr (handleSm c st) := by
  c4auto handleSm
  all_goals (first | exact fun x h => h | (intro x hx; exact (List.dropWhile_sublist _).subset hx) | (intro x hx; cases hx))
theorem Wr_handleBind {st} (h : Wr c) : Wr (handleBind c st) := by
  c4auto handleBind
  all_goals (first | exact fun x h => h | (intro x hx; exact (List.dropWhile_sublist _).subset hx) | (intro x hx; cases hx))
theorem Wr_handleSession {st} (h : Wr c) : Wr (handleSession c st) := by
  c4auto handleSession
  all_goals (first | exact fun x h => h | (intro x hx; exact (List.dropWhile_sublist _).subset hx) | (intro x hx; cases hx))
theorem Wr_handleLegacy {st} (h : Wr c) : Wr (handleLegacy c st) := by
  c4auto handleLegacy
  all_goals (first | exact fun x h => h | (intro x hx; exact (List.dropWhile_sublist _).subset hx) | (intro x hx; cases hx))
theorem Wr_handleError {st} (h : Wr c) : Wr (handleError c st) := by
  c4auto handleError
  all_goals (first | exact fun x h => h | (intro x hx; exact (List.dropWhile_sublist _).subset hx) | (intro x hx; cases hx))
theorem Wr_runSys {k st} (h : Wr c) : Wr ((runSys c k st).1) := by
  c4auto runSys
  all_goals (first | exact fun x h => h | (intro x hx; exact (List.dropWhile_sublist _).subset hx) | (intro x hx; cases hx))
theorem Wr_runHandler {k st} (h : Wr c) : Wr ((runHandler c k st).1) := by
  c4auto runHandler
  all_goals (first | exact fun x h => h | (intro x hx; exact (List.dropWhile_sublist _).subset hx) | (intro x hx; cases hx))
theorem Wr_fireOne {st uid} (h : Wr c) : Wr (fireOne st c uid) := by
  c4auto fireOne
  all_goals (first | exact fun x h => h | (intro x hx; exact (List.dropWhile_sublist _).subset hx) | (intro x hx; cases hx))
theorem Wr_fireIdOne {st uid} (h : Wr c) : Wr (fireIdOne st c uid) := by
  c4auto fireIdOne
  all_goals (first | exact fun x h => h | (intro x hx; exact (List.dropWhile_sublist _).subset hx) | (intro x hx; cases hx))
theorem Wr_fireStanza {st} (h : Wr c) : Wr (fireStanza c st) := by
  c4auto fireStanza
  all_goals (first | exact fun x h => h | (intro x hx; exact (List.dropWhile_sublist _).subset hx) | (intro x hx; cases hx))
theorem Wr_smElement {st} (h : Wr c) : Wr (smHandleStanza.smElement c st) := by
  c4auto smHandleStanza.smElement
  all_goals (first | exact fun x h => h | (intro x hx; exact (List.dropWhile_sublist _).subset hx) | (intro x hx; cases hx))
theorem Wr_smHandleStanza {st} (h : Wr c) : Wr (smHandleStanza c st) := by
  c4auto smHandleStanza
  all_goals (first | exact fun x h => h | (intro x hx; exact (List.dropWhile_sublist _).subset hx) | (intro x hx; cases hx))
theorem Wr_handleStreamStanza {st} (h : Wr c) : Wr (handleStreamStanza c st) := by
  c4auto handleStreamStanza
  all_goals (first | exact fun x h => h | (intro x hx; exact (List.dropWhile_sublist _).subset hx) | (intro x hx; cases hx))
theorem Wr_componentOpen (h : Wr c) : Wr (componentOpen c) := by
  c4auto componentOpen
  all_goals (first | exact fun x h => h | (intro x hx; exact (List.dropWhile_sublist _).subset hx) | (intro x hx; cases hx))
theorem Wr_runOpenHandler (h : Wr c) : Wr (runOpenHandler c) := by
  c4auto runOpenHandler
  all_goals (first | exact fun x h => h | (intro x hx; exact (List.dropWhile_sublist _).subset hx) | (intro x hx; cases hx))
theorem Wr_handleStreamStart {n id} (h : Wr c) : Wr (handleStreamStart c n id) := by
  c4auto handleStreamStart
  all_goals (first | exact fun x h => h | (intro x hx; exact (List.dropWhile_sublist _).subset hx) | (intro x hx; cases hx))
theorem Wr_handleStreamEnd (h : Wr c) : Wr (handleStreamEnd c) := by
  c4auto handleStreamEnd
  all_goals (first | exact fun x h => h | (intro x hx; exact (List.dropWhile_sublist _).subset hx) | (intro x hx; cases hx))
theorem Wr_parserEvent {e} (h : Wr c) : Wr (parserEvent c e) := by
  c4auto parserEvent
  all_goals (first | exact fun x h => h | (intro x hx; exact (List.dropWhile_sublist _).subset hx) | (intro x hx; cases hx))
theorem Wr_runTimed {f} (h : Wr c) : Wr ((runTimed c f).1) := by
  c4auto runTimed
  all_goals (first | exact fun x h => h | (intro x hx; exact (List.dropWhile_sublist _).subset hx) | (intro x hx; cases hx))
theorem Wr_fireTimedOne {uid} (h : Wr c) : Wr (fireTimedOne c uid) := by
  c4auto fireTimedOne
  all_goals (first | exact fun x h => h | (intro x hx; exact (List.dropWhile_sublist _).subset hx) | (intro x hx; cases hx))
theorem Wr_fireTimed (h : Wr c) : Wr (fireTimed c) := by
  c4auto fireTimed
  all_goals (first | exact fun x h => h | (intro x hx; exact (List.dropWhile_sublist _).subset hx) | (intro x hx; cases hx))
theorem Wr_writeElems (l : List QElem) : ∀ {c}, Wr c → Wr (writeElems c l) := by
  induction l with
  | nil => intro c h; exact h
  | cons e q ih =>
    intro c h
    unfold writeElems
    c4trav
    all_goals first | (apply ih; c4trav) | skip
theorem Wr_writeLoop (h : Wr c) : Wr (writeLoop c) := Wr_writeElems _ h
theorem Wr_connEstablished (h : Wr c) : Wr (connEstablished c) := by
  c4auto connEstablished
  all_goals (first | exact fun x h => h | (intro x hx; exact (List.dropWhile_sublist _).subset hx) | (intro x hx; cases hx))
theorem Wr_runOnce {rx} (h : Wr c) : Wr (runOnce c rx) := by
  c4auto runOnce
  all_goals (first | exact fun x h => h | (intro x hx; exact (List.dropWhile_sublist _).subset hx) | (intro x hx; cases hx))
theorem Wr_xmppSend {it} (h : Wr c) : Wr (xmppSend c it) := by
  c4auto xmppSend
  all_goals (first | exact fun x h => h | (intro x hx; exact (List.dropWhile_sublist _).subset hx) | (intro x hx; cases hx))
theorem Wr_xmppSendRawString {it} (h : Wr c) : Wr (xmppSendRawString c it) := by
  c4auto xmppSendRawString
  all_goals (first | exact fun x h => h | (intro x hx; exact (List.dropWhile_sublist _).subset hx) | (intro x hx; cases hx))
theorem Wr_xmppSendRaw {it} (h : Wr c) : Wr (xmppSendRaw c it) := by
  c4auto xmppSendRaw
  all_goals (first | exact fun x h => h | (intro x hx; exact (List.dropWhile_sublist _).subset hx) | (intro x hx; cases hx))
theorem Wr_release (h : Wr c) : Wr (release c) := by
  c4auto release
  all_goals (first | exact fun x h => h | (intro x hx; exact (List.dropWhile_sublist _).subset hx) | (intro x hx; cases hx))
theorem Wr_connReset (h : Wr c) : Wr (connReset c) := by
  c4auto connReset
  all_goals (first | exact fun x h => h | (intro x hx; exact (List.dropWhile_sublist _).subset hx) | (intro x hx; cases hx))
theorem Wr_setFlags {f} (h : Wr c) : Wr ((setFlags c f).1) := by
  c4auto setFlags
  all_goals (first | exact fun x h => h | (intro x hx; exact (List.dropWhile_sublist _).subset hx) | (intro x hx; cases hx))
theorem Wr_connConnect {d t} (h : Wr c) : Wr ((connConnect c d t).1) := by
  c4auto connConnect
  all_goals (first | exact fun x h => h | (intro x hx; exact (List.dropWhile_sublist _).subset hx) | (intro x hx; cases hx))
theorem Wr_connectClient (h : Wr c) : Wr ((connectClient c).1) := by
  c4auto connectClient
  all_goals (first | exact fun x h => h | (intro x hx; exact (List.dropWhile_sublist _).subset hx) | (intro x hx; cases hx))
theorem Wr_connectComponent (h : Wr c) : Wr ((connectComponent c).1) := by
  c4auto connectComponent
  all_goals (first | exact fun x h => h | (intro x hx; exact (List.dropWhile_sublist _).subset hx) | (intro x hx; cases hx))
theorem Wr_connectRaw (h : Wr c) : Wr ((connectRaw c).1) := by
  c4auto connectRaw
  all_goals (first | exact fun x h => h | (intro x hx; exact (List.dropWhile_sublist _).subset hx) | (intro x hx; cases hx))

theorem Wr_step (op : Op) (h : Wr c) : Wr (step c op) := by
  cases op with
  | connect k =>
    cases k
    · exact Wr_connectClient h
    · exact Wr_connectComponent h
    · exact Wr_connectRaw h
  | run rx => exact Wr_runOnce h
  | setTcp f e => exact h
  | setTls sf nf => exact h
  | setSched l d => exact h
  | tick ms => exact h
  | setSmCallback => exact h
  | setSendOnConnect on => exact h
  | setFlags f => exact Wr_setFlags h
  | usend it => exact Wr_xmppSend h
  | uraw it => exact Wr_xmppSendRaw h
  | urawstr it => exact Wr_xmppSendRawString h
  | udisc => exact Wr_xmppDisconnect h
  | release => exact Wr_release h
  | addUserHandlers => exact Wr_addTimed (Wr_addIdHandler (Wr_addHandler h))

theorem Wr_exec (ops : List Op) : ∀ {c}, Wr c → Wr (exec c ops) := by
  induction ops with
  | nil => intro c h; exact h
  | cons op ops ih => intro c h; exact ih (Wr_step op h)

theorem Wr_fresh (jid pass : Option Bytes) (cert : Bool) (flags : Nat) : Wr (fresh jid pass cert flags) := by
  unfold fresh
  apply Wr_setFlags
  intro x hx
  cases hx

theorem Wr_reach (jid pass : Option Bytes) (cert : Bool) (flags : Nat) (ops : List Op) :
    Wr (exec (fresh jid pass cert flags) ops) :=
  Wr_exec ops (Wr_fresh jid pass cert flags)

end Strophe.Lemmas.ConnC04
