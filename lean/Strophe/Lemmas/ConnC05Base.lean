/-
C05 (XEP-0198 inbound count): the specification `countSince` and the step-level statements.
-/
import Strophe.Lemmas.ConnC13Tac

namespace Strophe.Lemmas.ConnC05
open Strophe Strophe.Conn Strophe.Lemmas.ConnC13

/-- SPECIFICATION of the inbound count, over the history of what was dispatched: it starts at 0
    when `<enabled/>` answers our `<enable/>`, goes up by one for every dispatched stanza that is not
    an XEP-0198 element while stream management is on, and is carried across connections -/
def countSince : List RxEv → Nat
  | [] => 0
  | l => l.foldl (fun n e => match e with
      | .stanza true => n + 1
      | .stanza false => n
      | .enabledAccepted => 0
      | .smReset => 0) 0

/-- one event of the history -/
def cntStep (n : Nat) : RxEv → Nat
  | .stanza true => n + 1
  | .stanza false => n
  | .enabledAccepted => 0
  | .smReset => 0

theorem countSince_eq (l : List RxEv) : countSince l = l.foldl cntStep 0 := by
  cases l with
  | nil => rfl
  | cons e l =>
    unfold countSince
    congr 1

theorem countSince_snoc (l : List RxEv) (e : RxEv) : countSince (l ++ [e]) = cntStep (countSince l) e := by
  rw [countSince_eq, countSince_eq, List.foldl_append]; rfl

theorem ofNat_succ (n : Nat) : UInt32.ofNat (n + 1) = UInt32.ofNat n + 1 := by
  apply UInt32.toNat_inj.1
  simp [UInt32.toNat_add, UInt32.toNat_ofNat']

/-- what the theorems say about a state: the counter against the history -/
def Agree (c : Conn) : Prop := c.sm.handledNr = UInt32.ofNat (countSince c.rxLog)

/-- a function that leaves counter, history and the "SM record exists" flag alone -/
def Same (c0 c : Conn) : Prop :=
  c.sm.handledNr = c0.sm.handledNr ∧ c.rxLog = c0.rxLog ∧ c.hasSm = c0.hasSm

theorem Same.refl (c : Conn) : Same c c := ⟨rfl, rfl, rfl⟩
theorem Same.trans {a b c : Conn} (h1 : Same a b) (h2 : Same b c) : Same a c :=
  ⟨h2.1.trans h1.1, h2.2.1.trans h1.2.1, h2.2.2.trans h1.2.2⟩
theorem Same.agree {c0 c : Conn} (h : Same c0 c) (a : Agree c0) : Agree c := by
  unfold Agree; rw [h.1, h.2.1]; exact a

theorem sm_elements_never_counted' (c0 : Conn) (st : XTree) (h : st.ns? = some Gen.nsSm) :
    countsInbound c0 st = false := by
  simp [countsInbound, h]

theorem every_r_one_a' (c : Conn) (st : XTree) (hns : st.ns? = some Gen.nsSm)
    (hname : st.name? = some (b "r")) (hstate : c.state = .connected) :
    ∃ e, (smHandleStanza c st).queue = c.queue ++ [e] ∧ e.item = .ack c.sm.handledNr ∧
      e.owner = .smStrophe ∧ (smHandleStanza c st).sm.handledNr = c.sm.handledNr := by
  refine ⟨{ item := .ack c.sm.handledNr, owner := .smStrophe, uid := c.nextUid, snap := curSnap c }, ?_⟩
  simp [smHandleStanza, hns, smHandleStanza.smElement, hname, triggerSmCallback, sendStanza,
    isConnectedFor, hstate, pushRaw, pushRawWith, Owner.smBit]

end Strophe.Lemmas.ConnC05
