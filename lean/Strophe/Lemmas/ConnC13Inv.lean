/-
The lifecycle invariant of the connection machine (behind Props/C13.lean and Props/C01.lean): every
function reachable from `step` preserves it.  Traversal by the tactic of ConnC13Tac.lean.
-/
import Strophe.Lemmas.ConnC13Tac

namespace Strophe.Lemmas.ConnC13
open Strophe Strophe.Conn

/-- (copy of `isDisconnectEv` of Lemmas/ConnC13.lean, which imports this file) -/
def isDisc : Ev → Bool
  | .disconnect .. => true
  | _ => false

def isConn : Ev → Bool
  | .connect => true
  | .rawConnect => true
  | _ => false

/-- number of disconnect notifications recorded for attempt `a` -/
def cnt (a : Nat) (l : List (Ghost × Ev)) : Nat :=
  (l.filter fun p => p.1.attempt = a && isDisc p.2).length

theorem cnt_append (a : Nat) (l : List (Ghost × Ev)) (g : Ghost) (e : Ev) :
    cnt a (l ++ [(g, e)]) = cnt a l + (if g.attempt = a ∧ isDisc e = true then 1 else 0) := by
  unfold cnt
  rw [List.filter_append, List.length_append]
  by_cases h : g.attempt = a ∧ isDisc e = true
  · simp [h]
  · rw [if_neg h]
    have : (decide (g.attempt = a) && isDisc e) = false := by
      cases hh : (decide (g.attempt = a) && isDisc e)
      · rfl
      · simp at hh; exact absurd hh h
    simp [List.filter, this]

/-- the invariant, on the fields it speaks about -/
structure JV (a : Nat) (crash : Option CrashSite) (att nd : Nat) (nc : Bool) (st : CState) (neg : Bool)
    (evs : List (Ghost × Ev)) (timed : List Timed) (nu : Nat) : Prop where
  hpos : 0 < a
  hatt : att = a
  hcrash : crash = none
  hnd : nd = if st = .disconnected then 1 else 0
  hev : ∀ p ∈ evs, 0 < p.1.attempt ∧ p.1.attempt ≤ a
  hcnt : ∀ a', cnt a' evs ≤ 1
  hcur : cnt a evs = nd
  hneg : neg = true → nc = true
  htn : (timed.map (·.uid)).Nodup
  htu : ∀ x ∈ timed, x.uid < nu

def J (a : Nat) (c : Conn) : Prop :=
  JV a c.crash c.g.attempt c.g.notifiedDisconnect c.g.notifiedConnect c.state c.negotiated c.evs c.timed c.nextUid

variable {a : Nat} {c : Conn}


theorem JV.mono_nu {a cr at' nd nc st ng ev tm nu nu'} (h : JV a cr at' nd nc st ng ev tm nu) (hle : nu ≤ nu') :
    JV a cr at' nd nc st ng ev tm nu' :=
  { h with htu := fun x hx => Nat.lt_of_lt_of_le (h.htu x hx) hle }

theorem J_nextUid {a : Nat} {c : Conn} {n : Nat} (h : J a c) (hn : c.nextUid ≤ n) : J a { c with nextUid := n } :=
  JV.mono_nu h hn

theorem J_timed_map {a : Nat} {c : Conn} (f : Timed → Timed) (hf : ∀ x, (f x).uid = x.uid) (h : J a c) :
    J a { c with timed := c.timed.map f } := by
  refine { h with htn := ?_, htu := ?_ }
  · have : (c.timed.map f).map (·.uid) = c.timed.map (·.uid) := by
      rw [List.map_map]; exact List.map_congr_left (fun x _ => hf x)
    show ((c.timed.map f).map (·.uid)).Nodup
    rw [this]; exact h.htn
  · intro x hx
    obtain ⟨y, hy, rfl⟩ := List.mem_map.1 hx
    rw [hf]; exact h.htu y hy

theorem J_timed_filter {a : Nat} {c : Conn} (p : Timed → Bool) (h : J a c) :
    J a { c with timed := c.timed.filter p } := by
  refine { h with htn := ?_, htu := ?_ }
  · exact List.Nodup.sublist (List.Sublist.map _ (List.filter_sublist)) h.htn
  · intro x hx; exact h.htu x (List.mem_filter.1 hx).1

theorem J_rec1 {a : Nat} {c : Conn} {n : Nat} (h : J a c) (hn : c.nextUid ≤ n) : J a { c with nextUid := n } :=
  JV.mono_nu h hn
theorem J_rec2 {a : Nat} {c : Conn} {p : Timed → Bool} (h : J a c) : J a { c with timed := c.timed.filter p } :=
  J_timed_filter p h
theorem J_rec3 {a : Nat} {c : Conn} {uid s : Nat} (h : J a c) :
    J a { c with timed := c.timed.map fun (x : Timed) => if x.uid = uid then { x with lastStamp := s } else x } :=
  J_timed_map _ (fun x => by split <;> rfl) h
theorem J_rec4 {a : Nat} {c : Conn} (h : J a c) :
    J a { c with timed := c.timed.map fun (t : Timed) => { t with enabled := true } } :=
  J_timed_map _ (fun _ => rfl) h

theorem J_addHandler {fn ud ns name type user} (h : J a c) : J a (addHandler c fn ud ns name type user) := by
  unfold addHandler; split
  · exact h
  · exact JV.mono_nu h (Nat.le_succ _)

theorem J_addIdHandler {fn id user} (h : J a c) : J a (addIdHandler c fn id user) := by
  unfold addIdHandler; split
  · exact h
  · exact JV.mono_nu h (Nat.le_succ _)

theorem J_addTimed {fn period user} (h : J a c) : J a (addTimed c fn period user) := by
  unfold addTimed; split
  · exact h
  · refine { h with htn := ?_, htu := ?_ }
    · simp only [List.map_cons, List.nodup_cons]
      refine ⟨?_, h.htn⟩
      intro hm
      obtain ⟨x, hx, hxe⟩ := List.mem_map.1 hm
      have := h.htu x hx
      omega
    · intro x hx
      simp only [List.mem_cons] at hx
      rcases hx with rfl | hx
      · exact Nat.lt_succ_self _
      · exact Nat.lt_succ_of_lt (h.htu x hx)

theorem J_delTimed {fn} (h : J a c) : J a (delTimed c fn) := by
  unfold delTimed
  refine { h with htn := ?_, htu := ?_ }
  · exact List.Nodup.sublist (List.Sublist.map _ (List.filter_sublist)) h.htn
  · intro x hx; exact h.htu x (List.mem_filter.1 hx).1

theorem J_resetTimed (h : J a c) : J a (resetTimed c) := by
  unfold resetTimed
  refine { h with htn := ?_, htu := ?_ }
  · have : (c.timed.map fun t => ({ t with lastStamp := c.now } : Timed)).map (·.uid) = c.timed.map (·.uid) := by
      rw [List.map_map]; rfl
    show ((c.timed.map fun t => ({ t with lastStamp := c.now } : Timed)).map (·.uid)).Nodup
    rw [this]; exact h.htn
  · intro x hx
    obtain ⟨y, hy, rfl⟩ := List.mem_map.1 hx
    exact h.htu y hy

theorem J_push {e} (h : J a c) (he : isDisc e = false) (g' : Ghost) (ng : Bool)
    (h1 : g'.attempt = c.g.attempt) (h2 : g'.notifiedDisconnect = c.g.notifiedDisconnect)
    (h3 : ng = true → g'.notifiedConnect = true) :
    J a { c with evs := c.evs ++ [(c.g, e)], g := g', negotiated := ng } := by
  refine { h with hatt := h1.trans h.hatt, hnd := h2.trans h.hnd, hev := ?_, hcnt := ?_, hcur := ?_, hneg := h3 }
  · intro p hp
    rcases List.mem_append.1 hp with hp | hp
    · exact h.hev p hp
    · simp only [List.mem_singleton] at hp
      subst hp
      have := h.hatt; have := h.hpos
      show 0 < c.g.attempt ∧ c.g.attempt ≤ a
      omega
  · intro a'; show cnt a' (c.evs ++ [(c.g, e)]) ≤ 1
    rw [cnt_append]; simp [he]; exact h.hcnt a'
  · show cnt a (c.evs ++ [(c.g, e)]) = g'.notifiedDisconnect
    rw [cnt_append, h2]; simp [he]; exact h.hcur

theorem J_notify {e} (h : J a c) (he : isDisc e = false) : J a (notify c e) := by
  unfold notify
  cases e with
  | disconnect => simp [isDisc] at he
  | connect => exact J_push h he _ _ rfl rfl (fun _ => rfl)
  | rawConnect => exact J_push h he _ _ rfl rfl (fun _ => rfl)
  | userStanza => exact J_push h he _ _ rfl rfl h.hneg
  | userTimed => exact J_push h he _ _ rfl rfl h.hneg

theorem J_notifyNeg {e} (h : J a c) (he : e = .connect ∨ e = .rawConnect) :
    J a (notify { c with negotiated := true } e) := by
  unfold notify
  rcases he with rfl | rfl
  · exact J_push h rfl _ _ rfl rfl (fun _ => rfl)
  · exact J_push h rfl _ _ rfl rfl (fun _ => rfl)

theorem J_connDisconnect (h : J a c) : J a (connDisconnect c) := by
  unfold connDisconnect
  split
  · exact h
  · rename_i hs
    have hnd0 : c.g.notifiedDisconnect = 0 := by have := h.hnd; rw [if_neg hs] at this; exact this
    unfold notify resetSmForReconnect
    have hatt : c.g.attempt = a := h.hatt
    refine { h with hatt := h.hatt, hnd := ?_, hev := ?_, hcnt := ?_, hcur := ?_, hneg := ?_ }
    · show c.g.notifiedDisconnect + 1 = _
      simp [hnd0]
    · intro p hp
      rcases List.mem_append.1 hp with hp | hp
      · exact h.hev p hp
      · simp only [List.mem_singleton] at hp
        subst hp
        have := h.hpos
        show 0 < c.g.attempt ∧ c.g.attempt ≤ a
        omega
    · intro a'
      show cnt a' (c.evs ++ [(c.g, _)]) ≤ 1
      rw [cnt_append]
      by_cases ha : c.g.attempt = a'
      · subst ha
        have := h.hcur; rw [hatt] at *
        simp [isDisc]; omega
      · simp [ha]; exact h.hcnt a'
    · show cnt a (c.evs ++ [(c.g, _)]) = c.g.notifiedDisconnect + 1
      rw [cnt_append]; simp [isDisc, hatt]; exact h.hcur
    · intro hn; simp at hn

theorem J_notify' (h : J a c) : J a (notify { c with negotiated := true } .rawConnect) :=
  J_notifyNeg h (.inr rfl)


theorem J_prepareReset {o} (h : J a c) : J a (prepareReset c o) := h

theorem J_triggerSmCallback (h : J a c) : J a (triggerSmCallback c) := h

theorem J_pushRawWith {it o sn} (h : J a c) : J a (pushRawWith c it o sn) := by
  cauto pushRawWith

theorem J_pushRaw {it o} (h : J a c) : J a (pushRaw c it o) := by
  cauto pushRaw


theorem J_sendStanza {it o} (h : J a c) : J a (sendStanza c it o) := by
  unfold sendStanza; ctrav
/-- `_stream_negotiation_success`: the CONNECT notification, then possibly one element sent by the
    application's connection handler -/
theorem J_negotiationSuccess (h : J a c) : J a (negotiationSuccess c) := by
  have h1 : J a (notify { c with negotiated := true } .connect) := J_notifyNeg h (.inl rfl)
  unfold negotiationSuccess
  dsimp only
  exact pred_ite (P := J a) (fun _ => J_sendStanza h1) (fun _ => h1)

theorem J_sendRaw {it o} (h : J a c) : J a (sendRaw c it o) := by
  unfold sendRaw; ctrav
theorem J_sendRawString {it} (h : J a c) : J a (sendRawString c it) := by
  unfold sendRawString; ctrav
theorem J_xmppDisconnect (h : J a c) : J a (xmppDisconnect c) := by
  unfold xmppDisconnect; ctrav
theorem J_connTlsStart (h : J a c) : J a (connTlsStart c).1 := by
  unfold connTlsStart; ctrav
theorem J_connOpenStream (h : J a c) : J a (connOpenStream c) := by
  unfold connOpenStream; ctrav
theorem J_authLegacyStep (h : J a c) : J a (authLegacyStep c) := by
  unfold authLegacyStep; ctrav

theorem J_auth (n : Nat) : ∀ {c}, J a c → J a (auth c n) := by
  induction n with
  | zero => intro c h; exact h
  | succ n ih =>
    intro c h
    rw [auth]
    dsimp only
    ctrav
    all_goals first | (apply ih; ctrav) | trace_state

theorem J_g {g' : Ghost} (h : J a c) (h1 : g'.attempt = c.g.attempt)
    (h2 : g'.notifiedDisconnect = c.g.notifiedDisconnect) (h3 : g'.notifiedConnect = c.g.notifiedConnect) :
    J a { c with g := g' } := by
  unfold J at h ⊢
  dsimp only
  rw [h1, h2, h3]; exact h

theorem noteOffers_g (c : Conn) (st : XTree) :
    (noteOffers c st).g.attempt = c.g.attempt ∧
    (noteOffers c st).g.notifiedDisconnect = c.g.notifiedDisconnect ∧
    (noteOffers c st).g.notifiedConnect = c.g.notifiedConnect := by
  unfold noteOffers
  dsimp only
  repeat' split
  all_goals exact ⟨rfl, rfl, rfl⟩

theorem J_authTop (h : J a c) : J a (authTop c) := by
  cauto authTop

theorem J_saslChild {t} (h : J a c) : J a (saslChild c t) := by
  cauto saslChild

theorem J_noteOffers {st} (h : J a c) : J a (noteOffers c st) := by
  obtain ⟨h1, h2, h3⟩ := noteOffers_g c st
  exact J_g h h1 h2 h3

theorem J_handleFeatures {st} (h : J a c) : J a (handleFeatures c st) := by
  cauto handleFeatures

theorem J_doBind (h : J a c) : J a (doBind c) := by
  cauto doBind

theorem J_smEnable (h : J a c) : J a (smEnable c) := by
  cauto smEnable

theorem J_sessionStart (h : J a c) : J a (sessionStart c) := by
  cauto sessionStart

theorem J_handleFeaturesSasl {st} (h : J a c) : J a (handleFeaturesSasl c st) := by
  cauto handleFeaturesSasl

theorem J_compressionOffer {st} (h : J a c) : J a (compressionOffer c st) := by
  cauto compressionOffer

theorem J_handleFeaturesCompress {st} (h : J a c) : J a (handleFeaturesCompress c st) := by
  cauto handleFeaturesCompress

theorem J_handleSaslResult {st} (h : J a c) : J a (handleSaslResult c st) := by
  cauto handleSaslResult

theorem J_smQueueResend (h : J a c) : J a (smQueueResend c) := by
  cauto smQueueResend

theorem J_handleSm {st} (h : J a c) : J a (handleSm c st) := by
  cauto handleSm

theorem J_handleBind {st} (h : J a c) : J a (handleBind c st) := by
  cauto handleBind

theorem J_handleSession {st} (h : J a c) : J a (handleSession c st) := by
  cauto handleSession

theorem J_handleLegacy {st} (h : J a c) : J a (handleLegacy c st) := by
  cauto handleLegacy

theorem J_handleError {st} (h : J a c) : J a (handleError c st) := by
  cauto handleError

theorem J_runSys {k st} (h : J a c) : J a (runSys c k st).1 := by
  unfold runSys
  ctrav

theorem J_runHandler {k st} (h : J a c) : J a (runHandler c k st).1 := by
  unfold runHandler
  ctrav

theorem J_fireOne {st uid} (h : J a c) : J a (fireOne st c uid) := by
  unfold fireOne
  ctrav

theorem J_fireIdOne {st uid} (h : J a c) : J a (fireIdOne st c uid) := by
  cauto fireIdOne

theorem J_fireStanza {st} (h : J a c) : J a (fireStanza c st) := by
  cauto fireStanza

theorem J_smElement {st} (h : J a c) : J a (smHandleStanza.smElement c st) := by
  cauto smHandleStanza.smElement

theorem J_smHandleStanza {st} (h : J a c) : J a (smHandleStanza c st) := by
  cauto smHandleStanza

theorem J_handleStreamStanza {st} (h : J a c) : J a (handleStreamStanza c st) := by
  cauto handleStreamStanza

theorem J_componentOpen (h : J a c) : J a (componentOpen c) := by
  cauto componentOpen

theorem J_runOpenHandler (h : J a c) : J a (runOpenHandler c) := by
  cauto runOpenHandler

theorem J_handleStreamStart {n id} (h : J a c) : J a (handleStreamStart c n id) := by
  cauto handleStreamStart

theorem J_handleStreamEnd (h : J a c) : J a (handleStreamEnd c) := by
  cauto handleStreamEnd

theorem J_parserEvent {e} (h : J a c) : J a (parserEvent c e) := by
  cauto parserEvent

theorem J_runTimed {f} (h : J a c) : J a (runTimed c f).1 := by
  cauto runTimed

theorem J_fireTimedOne {uid} (h : J a c) : J a (fireTimedOne c uid) := by
  cauto fireTimedOne

theorem J_fireTimed (h : J a c) : J a (fireTimed c) := by
  cauto fireTimed

theorem J_retire {e} (h : J a c) : J a (retire c e) := by
  cauto retire

theorem J_writeElems (l : List QElem) : ∀ {c}, J a c → J a (writeElems c l) := by
  induction l with
  | nil => intro c h; exact h
  | cons e q ih =>
    intro c h
    unfold writeElems
    ctrav
    all_goals first | (apply ih; ctrav) | skip

theorem J_writeLoop (h : J a c) : J a (writeLoop c) := J_writeElems _ h

theorem J_connEstablished (h : J a c) : J a (connEstablished c) := by
  cauto connEstablished

theorem J_xmppSend {it} (h : J a c) : J a (xmppSend c it) := by
  cauto xmppSend
theorem J_xmppSendRawString {it} (h : J a c) : J a (xmppSendRawString c it) := by
  cauto xmppSendRawString
theorem J_xmppSendRaw {it} (h : J a c) : J a (xmppSendRaw c it) := by
  cauto xmppSendRaw
theorem J_release (h : J a c) : J a (release c) := by
  cauto release

theorem J_rec5 (h : J a c) (hs : c.state = .connecting) : J a { c with state := .connected } := by
  have := h.hnd
  rw [if_neg (by simp [hs])] at this
  exact { h with hnd := this }

theorem J_runOnce {rx} (h : J a c) : J a (runOnce c rx) := by
  unfold runOnce
  ctrav

/-! ### before the first accepted connect, and accepted connects -/

structure I0V (att : Nat) (st : CState) (evs : List (Ghost × Ev)) (crash : Option CrashSite)
    (timed : List Timed) (nu : Nat) : Prop where
  hatt : att = 0
  hst : st = .disconnected
  hevs : evs = []
  hcrash : crash = none
  htn : (timed.map (·.uid)).Nodup
  htu : ∀ x ∈ timed, x.uid < nu

def I0 (c : Conn) : Prop := I0V c.g.attempt c.state c.evs c.crash c.timed c.nextUid

def Inv (c : Conn) : Prop := I0 c ∨ ∃ a, J a c

theorem cnt_zero {a : Nat} {l : List (Ghost × Ev)} (h : ∀ p ∈ l, p.1.attempt ≠ a) : cnt a l = 0 := by
  unfold cnt
  rw [List.length_eq_zero_iff, List.filter_eq_nil_iff]
  intro p hp
  simp [h p hp]

theorem J_negFalse (h : J a c) : J a { c with negotiated := false } :=
  { h with hneg := fun hn => by simp at hn }

theorem J_connReset (h : J a c) : J a (connReset c) := by
  unfold connReset systemDeleteAll
  split
  · exact h
  · exact J_timed_filter _ (J_negFalse h)

theorem I0_connReset (h : I0 c) : I0 (connReset c) := by
  unfold connReset systemDeleteAll
  split
  · exact h
  · exact { h with
      htn := List.Nodup.sublist (List.Sublist.map _ (List.filter_sublist)) h.htn
      htu := fun x hx => h.htu x (List.mem_filter.1 hx).1 }

/-- an accepted connect starts attempt `a + 1` -/
theorem J_accept {c c' : Conn} {a : Nat}
    (_hatt : c.g.attempt = a) (hcrash : c.crash = none)
    (hev : ∀ p ∈ c.evs, 0 < p.1.attempt ∧ p.1.attempt ≤ a) (hcnt : ∀ a', cnt a' c.evs ≤ 1)
    (htn : (c.timed.map (·.uid)).Nodup) (htu : ∀ x ∈ c.timed, x.uid < c.nextUid)
    (e1 : c'.g = { attempt := a + 1 }) (e2 : c'.state = .connecting) (e3 : c'.evs = c.evs)
    (e4 : c'.crash = c.crash) (e5 : c'.negotiated = false) (e6 : c'.timed = c.timed.filter (·.user))
    (e7 : c'.nextUid = c.nextUid) : J (a + 1) c' := by
  unfold J
  rw [e1, e2, e3, e4, e5, e6, e7]
  refine ⟨Nat.succ_pos _, rfl, hcrash, by simp, ?_, hcnt, ?_, by simp, ?_, ?_⟩
  · intro p hp
    have := hev p hp
    omega
  · show cnt (a + 1) c.evs = 0
    apply cnt_zero
    intro p hp
    have := hev p hp
    omega
  · exact List.Nodup.sublist (List.Sublist.map _ (List.filter_sublist)) htn
  · intro x hx; exact htu x (List.mem_filter.1 hx).1

theorem Inv_connConnect {d t} (h : Inv c) : Inv (connConnect c d t).1 := by
  unfold connConnect
  split
  · exact h
  · rename_i hs
    have hs : c.state = .disconnected := by simpa using hs
    dsimp only
    split
    · rcases h with h | h
      · exact .inl (I0_connReset h)
      · obtain ⟨a, h⟩ := h
        exact .inr ⟨a, J_connReset h⟩
    · right
      have hr : ¬ c.state ≠ .disconnected := by simp [hs]
      rcases h with h | ⟨a, h⟩
      · refine ⟨1, ?_⟩
        have h0 : c.g.attempt = 0 := h.hatt
        have hev : c.evs = [] := h.hevs
        refine J_accept (c := c) (a := 0) h0 h.hcrash (by simp [hev]) (by intro a'; simp [hev, cnt]) h.htn h.htu
          ?_ rfl ?_ ?_ ?_ ?_ ?_ <;> simp [connReset, systemDeleteAll, prepareReset, hr, h0]
      · refine ⟨a + 1, J_accept (c := c) (a := a) h.hatt h.hcrash h.hev h.hcnt h.htn h.htu
          ?_ rfl ?_ ?_ ?_ ?_ ?_⟩ <;> simp [connReset, systemDeleteAll, prepareReset, hr, h.hatt]

theorem Inv_setFlags {f} (h : Inv c) : Inv (setFlags c f).1 := by
  cauto setFlags

theorem Inv_connectClient (h : Inv c) : Inv (connectClient c).1 := by
  cauto connectClient

theorem Inv_connectComponent (h : Inv c) : Inv (connectComponent c).1 := by
  cauto connectComponent

theorem Inv_connectRaw (h : Inv c) : Inv (connectRaw c).1 := by
  cauto connectRaw

theorem I0_addHandler {fn ud ns name type user} (h : I0 c) : I0 (addHandler c fn ud ns name type user) := by
  unfold addHandler; split
  · exact h
  · exact { h with htu := fun x hx => Nat.lt_succ_of_lt (h.htu x hx) }

theorem I0_addIdHandler {fn id user} (h : I0 c) : I0 (addIdHandler c fn id user) := by
  unfold addIdHandler; split
  · exact h
  · exact { h with htu := fun x hx => Nat.lt_succ_of_lt (h.htu x hx) }

theorem I0_addTimed {fn period user} (h : I0 c) : I0 (addTimed c fn period user) := by
  unfold addTimed; split
  · exact h
  · refine { h with htn := ?_, htu := ?_ }
    · simp only [List.map_cons, List.nodup_cons]
      refine ⟨?_, h.htn⟩
      intro hm
      obtain ⟨x, hx, hxe⟩ := List.mem_map.1 hm
      have := h.htu x hx
      omega
    · intro x hx
      simp only [List.mem_cons] at hx
      rcases hx with rfl | hx
      · exact Nat.lt_succ_self _
      · exact Nat.lt_succ_of_lt (h.htu x hx)

/-- nothing happens in an iteration of the event loop on a disconnected connection -/
theorem runOnce_disc (c : Conn) (rx : Rx) (hs : c.state = .disconnected) :
    runOnce c rx = { c with resetParser := false, pst := if c.resetParser then .fresh else c.pst } := by
  unfold runOnce
  have h1 : ¬ c.state = .connected := by simp [hs]
  rw [if_neg h1]
  dsimp only
  have h2 : ∀ x : Conn, x.state = .disconnected → fireTimed x = x := by
    intro x hx; unfold fireTimed; rw [if_pos (by simp [hx])]
  rw [h2 { c with resetParser := false, pst := if c.resetParser then .fresh else c.pst } hs]
  dsimp only
  have h3 : ¬ c.state = .connecting := by simp [hs]
  rw [if_neg h3]
  dsimp only
  rw [if_pos hs]

theorem I0_runOnce {rx} (h : I0 c) : I0 (runOnce c rx) := by
  rw [runOnce_disc c rx h.hst]; exact h

theorem Inv_step (op : Op) (h : Inv c) : Inv (step c op) := by
  cases op with
  | connect k =>
    cases k
    · exact Inv_connectClient h
    · exact Inv_connectComponent h
    · exact Inv_connectRaw h
  | run rx =>
    rcases h with h | ⟨a, h⟩
    · exact .inl (I0_runOnce h)
    · exact .inr ⟨a, J_runOnce h⟩
  | setTcp f e => exact h
  | setTls sf nf => exact h
  | setSched l d => exact h
  | tick ms => exact h
  | setSmCallback => exact h
  | setSendOnConnect on => exact h
  | setFlags f => exact Inv_setFlags h
  | usend it =>
    rcases h with h | ⟨a, h⟩
    · have hs : c.state = .disconnected := h.hst
      have : step c (.usend it) = c := by simp [step, xmppSend, sendStanza, isConnectedFor, hs]
      rw [this]; exact .inl h
    · exact .inr ⟨a, J_xmppSend h⟩
  | uraw it =>
    rcases h with h | ⟨a, h⟩
    · have hs : c.state = .disconnected := h.hst
      have : step c (.uraw it) = c := by simp [step, xmppSendRaw, sendRaw, hs]
      rw [this]; exact .inl h
    · exact .inr ⟨a, J_xmppSendRaw h⟩
  | urawstr it =>
    rcases h with h | ⟨a, h⟩
    · have hs : c.state = .disconnected := h.hst
      have : step c (.urawstr it) = c := by simp [step, xmppSendRawString, isConnectedFor, hs]
      rw [this]; exact .inl h
    · exact .inr ⟨a, J_xmppSendRawString h⟩
  | udisc =>
    rcases h with h | ⟨a, h⟩
    · have hs : c.state = .disconnected := h.hst
      have : step c .udisc = c := by simp [step, xmppDisconnect, hs]
      rw [this]; exact .inl h
    · exact .inr ⟨a, J_xmppDisconnect h⟩
  | release =>
    rcases h with h | ⟨a, h⟩
    · have hs : c.state = .disconnected := h.hst
      have : step c .release = c := by simp [step, release, hs]
      rw [this]; exact .inl h
    · exact .inr ⟨a, J_release h⟩
  | addUserHandlers =>
    rcases h with h | ⟨a, h⟩
    · exact .inl (I0_addTimed (I0_addIdHandler (I0_addHandler h)))
    · exact .inr ⟨a, J_addTimed (J_addIdHandler (J_addHandler h))⟩

theorem Inv_fresh (jid pass : Option Bytes) (cert : Bool) (flags : Nat) : Inv (fresh jid pass cert flags) := by
  unfold fresh
  apply Inv_setFlags
  exact .inl ⟨rfl, rfl, rfl, rfl, List.nodup_nil, fun x hx => by cases hx⟩

theorem Inv_exec (ops : List Op) : ∀ {c}, Inv c → Inv (exec c ops) := by
  induction ops with
  | nil => intro c h; exact h
  | cons op ops ih => intro c h; exact ih (Inv_step op h)

theorem Inv_reach (jid pass : Option Bytes) (cert : Bool) (flags : Nat) (ops : List Op) :
    Inv (exec (fresh jid pass cert flags) ops) :=
  Inv_exec ops (Inv_fresh jid pass cert flags)

end Strophe.Lemmas.ConnC13
