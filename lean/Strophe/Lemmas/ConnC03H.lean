/-
C03, part H: the event loop (`xmpp_run_once`), connecting, the API calls, `step`.
-/
import Strophe.Lemmas.ConnC03G

namespace Strophe.Lemmas.ConnC03
open Strophe Strophe.Conn

variable {jid : Option Bytes} {U : Item → Prop} {NR : Prop} {p : Par} {c : Conn}

/-! ### the write loop -/

theorem smBit_false {o : Owner} (h : o.smBit = false) : o ≠ .smStrophe := by
  intro e; rw [e] at h; cases h

theorem InvQ.pushTx {w st ht nt q smq tx} (h : InvQ jid U NR w st ht nt q smq tx) (r : TxRec)
    (hr : EOk jid U NR r.item r.owner r.snap ∧ (r.owner ≠ .user → isHdrFrom r.item → r.sec = true) ∧
      (r.owner = .user → NR → r.notifiedW = true)) :
    InvQ jid U NR w st ht nt q smq (tx ++ [r]) := by
  refine { h with tx_ok := ?_ }
  intro r' a; rcases List.mem_append.1 a with a | a
  · exact h.tx_ok r' a
  · rw [List.mem_singleton.1 a]; exact hr

theorem InvQ.pushSmq {w st ht nt q smq tx} (h : InvQ jid U NR w st ht nt q smq tx) (n : UInt32) (e : QElem)
    (hr : EOk jid U NR e.item e.owner e.snap ∧ e.owner ≠ .smStrophe) :
    InvQ jid U NR w st ht nt q (smq ++ [(n, e)]) tx := by
  refine { h with smq_ok := ?_ }
  intro e' a; rcases List.mem_append.1 a with a | a
  · exact h.smq_ok e' a
  · rw [List.mem_singleton.1 a]; exact hr

theorem Inv.retire (h : Inv jid U NR p c) (e : QElem) (hok : EOk jid U NR e.item e.owner e.snap)
    (hht : e.owner ≠ .user → isHdrFrom e.item → c.hasTls = true)
    (hn : e.owner = .user → NR → c.g.notifiedConnect = true) :
    Inv jid U NR p (Conn.retire c e) := by
  unfold Conn.retire triggerSmCallback; dsimp only
  split
  · rename_i hs; simp only [Bool.and_eq_true, Bool.not_eq_true'] at hs
    exact ⟨h.cfg, (h.q.pushTx _ ⟨hok, hht, hn⟩).pushSmq _ _ ⟨hok, smBit_false hs.1⟩, h.e, h.gg, h.h, h.f, h.ts⟩
  · exact ⟨h.cfg, h.q.pushTx _ ⟨hok, hht, hn⟩, h.e, h.gg, h.h, h.f, h.ts⟩

theorem retire_frame (c : Conn) (e : QElem) :
    (retire c e).queue = c.queue ∧ (retire c e).state = c.state ∧ (retire c e).hasTls = c.hasTls ∧
    (retire c e).g = c.g := by
  unfold retire triggerSmCallback; dsimp only; split <;> exact ⟨rfl, rfl, rfl, rfl⟩

theorem Inv.writeElems (l : List QElem) (hw : p.w = false) (h : Inv jid U NR p c)
    (hc : c.state = .connected) (hl : c.queue = l) : Inv jid U NR p (Conn.writeElems c l) := by
  induction l generalizing c with
  | nil => unfold Conn.writeElems; rw [← hl]; exact ⟨h.cfg, h.q, h.e, h.gg, h.h, h.f, h.ts⟩
  | cons e q ih =>
    have he : e ∈ c.queue := by rw [hl]; exact List.mem_cons_self
    have hsub : ∀ e' ∈ q, e' ∈ c.queue := fun e' a => by rw [hl]; exact List.mem_cons_of_mem _ a
    have hq : InvQ jid U NR p.w c.state c.hasTls c.g.notifiedConnect q c.sm.queue c.tx :=
      { h.q with q_ok := fun e' a => h.q.q_ok e' (hsub e' a), q_ht := fun s e' a => h.q.q_ht s e' (hsub e' a),
                 q_n := fun a b' s e' a' => h.q.q_n a b' s e' (hsub e' a'),
                 q_cg := fun a => (by rw [hc] at a; cases a) }
    have hq' : InvQ jid U NR p.w c.state c.hasTls c.g.notifiedConnect ({ e with wip := true } :: q) c.sm.queue c.tx :=
      { hq with q_ok := fun e' a => (by
                  rcases List.mem_cons.1 a with a | a
                  · rw [a]; exact h.q.q_ok e he
                  · exact hq.q_ok e' a),
                q_ht := fun s e' a => (by
                  rcases List.mem_cons.1 a with a | a
                  · rw [a]; exact h.q.q_ht s e he
                  · exact hq.q_ht s e' a),
                q_n := fun a b' s e' a' => (by
                  rcases List.mem_cons.1 a' with a' | a'
                  · rw [a']; exact h.q.q_n a b' s e he
                  · exact hq.q_n a b' s e' a'),
                q_cg := fun a => (by rw [hc] at a; cases a) }
    unfold Conn.writeElems
    have key : ∀ s' d, Inv jid U NR p (Conn.writeElems (Conn.retire { c with queue := q, sched := s', schedDefault := d } e) q) := by
      intro s' d
      have h1 : Inv jid U NR p { c with queue := q, sched := s', schedDefault := d } := ⟨h.cfg, hq, h.e, h.gg, h.h, h.f, h.ts⟩
      have h2 := h1.retire e (h.q.q_ok e he) (h.q.q_ht hc e he) (fun a b' => h.q.q_n hw b' hc e he a)
      obtain ⟨f1, f2, _, _⟩ := retire_frame { c with queue := q, sched := s', schedDefault := d } e
      exact ih h2 (by rw [f2]; exact hc) f1
    cases hs : c.sched with
    | nil =>
      dsimp only
      cases c.schedDefault with
      | all => dsimp only; exact key [] .all
      | again => exact ⟨h.cfg, hq', h.e, h.gg, h.h, h.f, h.ts⟩
      | hard => exact ⟨h.cfg, hq', h.e, h.gg, h.h, h.f, h.ts⟩
    | cons a r =>
      dsimp only
      cases a with
      | all => dsimp only; exact key r c.schedDefault
      | again => exact ⟨h.cfg, hq', h.e, h.gg, h.h, h.f, h.ts⟩
      | hard => exact ⟨h.cfg, hq', h.e, h.gg, h.h, h.f, h.ts⟩

theorem Inv.writeLoop (h : Inv jid U NR p c) (hw : p.w = false) (hc : c.state = .connected) :
    Inv jid U NR p (Conn.writeLoop c) := by
  unfold Conn.writeLoop; exact Inv.writeElems c.queue hw h hc rfl

/-! ### the invariant between operations -/

structure Base (p : Par) : Prop where
  x : p.x = none
  y : p.y = none
  w : p.w = false
  mb : p.mb = 0
  rb : p.rb = true
  rpb : p.rpb = true

/-- the invariant as it holds between two operations -/
def Good (jid : Option Bytes) (U : Item → Prop) (NR : Prop) (c : Conn) : Prop :=
  ∃ p, Base p ∧ Inv jid U NR p c

theorem Inv.setSb (h : Inv jid U NR p c) (sb' : CState) (hst : c.state = sb' ∨ c.state = .disconnected) :
    Inv jid U NR { p with sb := sb' } c :=
  ⟨h.cfg, h.q, h.e, h.gg, h.h, ⟨hst, h.f.ps, h.f.rw, h.f.rpB, h.f.rp, h.f.rd⟩, h.ts⟩

theorem Base.setSb {p : Par} (b' : Base p) (s : CState) : Base { p with sb := s } :=
  ⟨b'.x, b'.y, b'.w, b'.mb, b'.rb, b'.rpb⟩
theorem Base.setPb {p : Par} (b' : Base p) (s : PSt) : Base { p with pb := s } :=
  ⟨b'.x, b'.y, b'.w, b'.mb, b'.rb, b'.rpb⟩
theorem Base.dp {p : Par} (b' : Base p) (hs : p.sb = .connected) : DP p :=
  ⟨b'.x, b'.w, hs, b'.rb, b'.rpb⟩

theorem Good.frame {c c' : Conn} (h : Good jid U NR c)
    (e : ∀ p, Inv jid U NR p c → Inv jid U NR p c') : Good jid U NR c' := by
  obtain ⟨p, b', hi⟩ := h; exact ⟨p, b', e p hi⟩

theorem Good.connDisconnect (h : Good jid U NR c) : Good jid U NR (Conn.connDisconnect c) := by
  obtain ⟨p, b', hi⟩ := h; exact ⟨p, b', hi.connDisconnect (hi.hd0 b'.mb)⟩

/-- `xmpp_run_once`, step 1: flush the send queue -/
theorem Good.write (h : Good jid U NR c) :
    Good jid U NR (if c.state = .connected then
      (if (Conn.writeLoop c).error ≠ 0 then Conn.connDisconnect { Conn.writeLoop c with error := eConnAborted } else Conn.writeLoop c)
      else c) := by
  split
  · rename_i hc
    obtain ⟨p, b', hi⟩ := h
    have hw := hi.writeLoop b'.w hc
    split
    · exact Good.connDisconnect ⟨p, b', ⟨hw.cfg, hw.q, hw.e, hw.gg, hw.h, hw.f, hw.ts⟩⟩
    · exact ⟨p, b', hw⟩
  · exact h

/-- step 2: perform the pending parser reset -/
theorem Good.reset (h : Good jid U NR c) :
    Good jid U NR { c with resetParser := false, pst := if c.resetParser then .fresh else c.pst } := by
  obtain ⟨p, b', hi⟩ := h
  refine ⟨{ p with pb := if c.resetParser then .fresh else c.pst }, b'.setPb _, ?_⟩
  refine ⟨hi.cfg, hi.q, hi.e, hi.gg, ?_, ?_, hi.ts⟩
  · refine { hi.h with fr := ?_ }
    intro hf; rcases hf with hf | hf
    · cases hf
    · by_cases hr : c.resetParser = true
      · exact hi.h.fr (Or.inl hr)
      · rw [if_neg hr] at hf; exact hi.h.fr (Or.inr hf)
  · exact ⟨hi.f.st, rfl, hi.f.rw, fun a => (by cases a), fun _ _ => rfl, hi.f.rd⟩

theorem Good.fireTimed (h : Good jid U NR c) : Good jid U NR (Conn.fireTimed c) := by
  by_cases hc : c.state = .connected
  · obtain ⟨p, b', hi⟩ := h
    have h1 := hi.setSb .connected (Or.inl hc)
    exact ⟨_, b'.setSb _, h1.fireTimed ((b'.setSb _).dp rfl) b'.mb b'.y⟩
  · unfold Conn.fireTimed; rw [if_pos hc]; exact h

/-! ### `conn_established` -/

theorem Inv.establish (h : Inv jid U NR p c) (hc : c.state = .connecting) (hrp : c.resetParser = false) :
    Inv jid U NR { p with sb := .connected } { c with state := .connected } := by
  have hnil : ∀ k ∈ c.handlers.map hkey ++ c.idHandlers.map hkey, ¬ negK k := h.h.cgH hc
  have hpn : PendNil p.x c := fun k a nk => absurd nk (hnil k a)
  obtain ⟨cg1, cg2, cg3⟩ := h.gg.cg hc
  obtain ⟨nc1, nc2, nc3, nc4, nc5, nc6⟩ := h.gg.nc (by rw [hc]; simp)
  refine ⟨⟨h.cfg.jidEq, fun _ => h.cfg.dom (by rw [hc]; simp), fun _ => h.cfg.hsm (by rw [hc]; simp)⟩, ?_, h.e, ?_, ?_, ?_, h.ts⟩
  · have hq : c.queue = [] := h.q.q_cg hc
    exact { h.q with q_ht := fun _ e a => (by rw [hq] at a; cases a),
                     q_n := fun _ _ _ e a => (by rw [hq] at a; cases a),
                     q_cg := fun a => (by cases a) }
  · exact { h.gg with nc := fun a => absurd rfl a, cg := fun a => (by cases a),
                      nn2 := fun _ a => (by rw [cg1] at a; cases a) }
  · exact h.h.change hpn (h.nil_nt hpn) h.h.ohOk (fun _ _ => ⟨cg1, nc3⟩) (fun a => (by cases a))
      (fun _ hr => h.h.raw (by rw [hc]; simp) hr)
  · exact ⟨Or.inl rfl, h.f.ps, h.f.rw, h.f.rpB, fun _ _ => hrp, fun a => (by cases a)⟩

theorem Inv.setSecured2 (h : Inv jid U NR p c) (hnil : PendNil p.x c) (hlive : c.state = .connected) :
    Inv jid U NR p { c with hasTls := true, secured := true } := by
  refine ⟨h.cfg, { h.q with q_ht := fun _ _ _ _ _ => rfl }, h.e, ?_, ?_, h.f, h.ts⟩
  · exact { h.gg with tls_sec := fun _ => rfl, nc := fun a => absurd hlive a,
                      cg := fun a => (by rw [hlive] at a; cases a) }
  · exact h.h.change hnil (h.nil_nt hnil) h.h.ohOk (fun hf => (h.h.fr hf).2)
      (fun a => by rw [hlive] at a; cases a) h.h.raw

theorem Inv.rawConnect (h : Inv jid U NR p c) (hnil : PendNil p.x c) (hlive : c.state = .connected)
    (hn : c.g.notifiedConnect = false) (hraw : c.isRaw = true) :
    Inv jid U NR p (Conn.notify { Conn.resetTimed c with negotiated := true } .rawConnect) := by
  have h0 := h.resetTimed
  have hnil0 : PendNil p.x (Conn.resetTimed c) := hnil
  unfold Conn.notify; dsimp only
  refine ⟨h0.cfg, { h0.q with q_n := fun _ _ _ _ _ _ => rfl }, h0.e.push_conn _ rfl hn (fun e => by cases e), ?_, ?_, h0.f, h0.ts⟩
  · exact { h0.gg with nc := fun a => absurd hlive a, cg := fun a => (by rw [show (Conn.resetTimed c).state = c.state from rfl, hlive] at a; cases a),
                       nn1 := fun _ => rfl, nn2 := fun _ _ => rfl }
  · have hst := (h.h.raw (by rw [hlive]; simp) hraw).1
    refine h0.h.change hnil0 (h0.nil_nt hnil0) h0.h.ohOk (fun _ ho => absurd hst ho)
      (fun a => by rw [show (Conn.resetTimed c).state = c.state from rfl, hlive] at a; cases a) h0.h.raw

theorem connEstablished_eq (c : Conn) :
    connEstablished c =
      (if c.tlsLegacySsl && !c.isRaw then
        (if !(connTlsStart c).2 then connDisconnect (connTlsStart c).1 else connOpenStream (connTlsStart c).1)
       else if c.isRaw then notify { (resetTimed c) with negotiated := true } .rawConnect
       else connOpenStream c) := rfl

theorem Good.connEstablished (h : Good jid U NR c) (hc : c.state = .connecting) (hrp : c.resetParser = false) :
    Good jid U NR (Conn.connEstablished { c with state := .connected }) := by
  obtain ⟨p, b', hi⟩ := h
  have hnil : ∀ k ∈ c.handlers.map hkey ++ c.idHandlers.map hkey, ¬ negK k := hi.h.cgH hc
  have hpn : PendNil p.x { c with state := .connected } := fun k a nk => absurd nk (hnil k a)
  obtain ⟨cg1, _, _⟩ := hi.gg.cg hc
  obtain ⟨nc1, _⟩ := hi.gg.nc (by rw [hc]; simp)
  have h1 := hi.establish hc hrp
  have bb : Base ({ p with sb := .connected } : Par) := b'.setSb _
  rw [connEstablished_eq]
  split
  · unfold Conn.connTlsStart
    split
    · exact Good.connDisconnect ⟨_, bb, h1.tlsFail nc1 c.tlsFailed c.error⟩
    · split
      · exact Good.connDisconnect ⟨_, bb, h1.tlsFail nc1 c.tlsFailed c.error⟩
      · split
        · exact Good.connDisconnect ⟨_, bb, h1.tlsFail nc1 true 71⟩
        · exact ⟨_, bb, (h1.setSecured2 hpn rfl).connOpenStream⟩
  · split
    · rename_i hr
      exact ⟨_, bb, h1.rawConnect hpn rfl cg1 hr⟩
    · exact ⟨_, bb, h1.connOpenStream⟩

/-! ### `xmpp_run_once` -/

/-- the invariant plus: while connecting, no parser reset is pending (after step 2) -/
def Good2 (jid : Option Bytes) (U : Item → Prop) (NR : Prop) (c : Conn) : Prop :=
  Good jid U NR c ∧ (c.state = .connecting → c.resetParser = false)

theorem Good2.fireTimed (h : Good2 jid U NR c) : Good2 jid U NR (Conn.fireTimed c) := by
  by_cases hc : c.state = .connected
  · obtain ⟨p, b', hi⟩ := h.1
    have h1 := (hi.setSb .connected (Or.inl hc)).fireTimed ((b'.setSb _).dp rfl) b'.mb b'.y
    refine ⟨⟨_, b'.setSb _, h1⟩, fun a => ?_⟩
    rcases h1.f.st with e | e <;> (rw [a] at e; cases e)
  · have : Conn.fireTimed c = c := by unfold Conn.fireTimed; rw [if_pos hc]
    rw [this]; exact h

def roT (c3 : Conn) : Conn :=
  if c3.state = .connecting then
    if c3.now - c3.timeoutStamp ≤ Gen.connectTimeout then c3
    else if c3.tcpFail then connDisconnect { c3 with error := eTimedOut }
    else { c3 with timeoutStamp := c3.now }
  else c3

theorem Good.error (h : Good jid U NR c) (e : Int) : Good jid U NR { c with error := e } :=
  h.frame (fun _ hi => ⟨hi.cfg, hi.q, hi.e, hi.gg, hi.h, hi.f, hi.ts⟩)

theorem Good.stamp (h : Good jid U NR c) (n : Nat) : Good jid U NR { c with timeoutStamp := n } :=
  h.frame (fun _ hi => ⟨hi.cfg, hi.q, hi.e, hi.gg, hi.h, hi.f, hi.ts⟩)

theorem disc_state (c : Conn) : (connDisconnect c).state = .disconnected := by
  unfold connDisconnect
  split
  · assumption
  · dsimp only
    obtain ⟨S, B, e, _⟩ := resetSm_spec { c with state := .disconnected, negotiated := false, hasTls := false, isRaw := false }
    rw [e]; rfl

theorem Good2.roT (h : Good2 jid U NR c) : Good2 jid U NR (ConnC03.roT c) := by
  unfold ConnC03.roT
  split
  · rename_i hc
    split
    · exact h
    · split
      · refine ⟨(h.1.error _).connDisconnect, fun a => ?_⟩
        rw [disc_state] at a; cases a
      · exact ⟨h.1.stamp _, fun a => h.2 a⟩
  · exact h

def roC5 (c4 : Conn) (rx : Rx) : Conn :=
  if c4.state = .connecting then
    if c4.tcpErr then
      if c4.tcpFail then connDisconnect { c4 with error := -1 }
      else { c4 with timeoutStamp := c4.now }
    else connEstablished { c4 with state := .connected }
  else if c4.state = .connected then
    match rx with
    | .none => c4
    | .data evs => evs.foldl parserEvent c4
    | .eof => connDisconnect { c4 with error := 0 }
    | .ioerr => connDisconnect { c4 with error := eConnReset }
  else c4

theorem Good2.roC5 (h : Good2 jid U NR c) (rx : Rx) : Good jid U NR (ConnC03.roC5 c rx) := by
  unfold ConnC03.roC5
  split
  · rename_i hc
    split
    · split
      · exact (h.1.error _).connDisconnect
      · exact h.1.stamp _
    · exact h.1.connEstablished hc (h.2 hc)
  · split
    · rename_i hc
      cases rx with
      | none => exact h.1
      | data evs =>
        dsimp only
        obtain ⟨p, b', hi⟩ := h.1
        obtain ⟨pb, h1⟩ := Inv.eventsFold evs ((b'.setSb .connected).dp rfl) b'.mb (hi.setSb .connected (Or.inl hc))
        exact ⟨_, (b'.setSb _).setPb _, h1⟩
      | eof => exact (h.1.error _).connDisconnect
      | ioerr => exact (h.1.error _).connDisconnect
    · exact h.1

def roW (c : Conn) : Conn :=
  if c.state = .connected then
    (if (writeLoop c).error ≠ 0 then connDisconnect { writeLoop c with error := eConnAborted } else writeLoop c)
  else c
def roR (c1 : Conn) : Conn := { c1 with resetParser := false, pst := if c1.resetParser then .fresh else c1.pst }
def roFinal (c4 : Conn) (rx : Rx) : Conn :=
  if c4.state = .disconnected then c4
  else
    let readable := match rx with | .none => false | _ => true
    let ready := c4.state = .connecting || readable || (c4.state = .connected && !c4.queue.isEmpty)
    if !ready then c4 else fireTimed (roC5 c4 rx)

theorem runOnce_eq (c : Conn) (rx : Rx) :
    runOnce c rx = roFinal (roT (fireTimed (roR (roW c)))) rx := rfl

theorem Good.runOnce (h : Good jid U NR c) (rx : Rx) : Good jid U NR (Conn.runOnce c rx) := by
  rw [runOnce_eq]
  have h2 : Good2 jid U NR (roR (roW c)) := ⟨h.write.reset, fun _ => rfl⟩
  have h4 := h2.fireTimed.roT
  generalize ConnC03.roT (Conn.fireTimed (roR (roW c))) = c4 at h4 ⊢
  unfold roFinal
  split
  · exact h4.1
  · dsimp only
    repeat' split
    all_goals first | exact h4.1 | exact (h4.roC5 _).fireTimed

end Strophe.Lemmas.ConnC03
