/-
C17 helper lemmas, part 7: the public xmpp_sha1_* API (hex rendering) and the bit counters.
-/
import Strophe.Lemmas.HashHmac

namespace Strophe.Hash
open Strophe Spec.Hash

/-! ### `digest_to_string` is lower-case hex -/

theorem hex_byte : ∀ n : Fin 256,
    Sha1.digestToString [UInt8.ofNat n.val] = hexLower [UInt8.ofNat n.val] := by decide +kernel

theorem digestToString_eq (d : Bytes) : Sha1.digestToString d = hexLower d := by
  induction d with
  | nil => rfl
  | cons b bs ih =>
    have hb := hex_byte ⟨b.toNat, b.toNat_lt⟩
    simp only [UInt8.ofNat_toNat] at hb
    have e1 : Sha1.digestToString (b :: bs) = Sha1.digestToString [b] ++ Sha1.digestToString bs := by
      simp [Sha1.digestToString]
    have e2 : hexLower (b :: bs) = hexLower [b] ++ hexLower bs := by
      simp [hexLower]
    rw [e1, e2, hb, ih]

theorem hexLower_length (d : Bytes) : (hexLower d).length = 2 * d.length := by
  induction d with
  | nil => rfl
  | cons b bs ih =>
    have e2 : hexLower (b :: bs) = hexLower [b] ++ hexLower bs := by simp [hexLower]
    rw [e2, List.length_append, ih]
    simp [hexLower]; omega

/-- every character of the rendering is one of `0-9a-f` -/
theorem hexLower_chars (d : Bytes) : ∀ c ∈ hexLower d, (48 ≤ c ∧ c ≤ 57) ∨ (97 ≤ c ∧ c ≤ 102) := by
  have key : ∀ n : Fin 256, ∀ c ∈ hexLower [UInt8.ofNat n.val],
      (48 ≤ c ∧ c ≤ 57) ∨ (97 ≤ c ∧ c ≤ 102) := by decide +kernel
  induction d with
  | nil => intro c hc; simp [hexLower] at hc
  | cons b bs ih =>
    have e2 : hexLower (b :: bs) = hexLower [b] ++ hexLower bs := by simp [hexLower]
    intro c hc
    rw [e2, List.mem_append] at hc
    rcases hc with hc | hc
    · have := key ⟨b.toNat, b.toNat_lt⟩ c
      simp only [UInt8.ofNat_toNat] at this
      exact this hc
    · exact ih c hc

theorem api_ctx (chunks : List Bytes) (s : Sha1.Api.T) :
    (chunks.foldl Sha1.Api.update s).ctx = chunks.foldl Sha1.update s.ctx := by
  induction chunks generalizing s with
  | nil => rfl
  | cons x xs ih => simp only [List.foldl_cons]; rw [ih]; rfl

theorem length_le_flatten {chunks : List Bytes} {c : Bytes} (h : c ∈ chunks) :
    c.length ≤ chunks.flatten.length := by
  induction chunks with
  | nil => cases h
  | cons x xs ih =>
    simp only [List.flatten_cons, List.length_append]
    rcases List.mem_cons.mp h with h | h
    · subst h; omega
    · have := ih h; omega

/-! ### bit counters -/

theorem sha1_bitcount (chunks : List Bytes) :
    (chunks.foldl Sha1.update Sha1.init).count1.toNat * 2 ^ 32
      + (chunks.foldl Sha1.update Sha1.init).count0.toNat = 8 * chunks.flatten.length % 2 ^ 64 :=
  (Sha1.stream_inv chunks).count.value

theorem sha1_buffered (chunks : List Bytes) :
    (((chunks.foldl Sha1.update Sha1.init).count0 >>> 3) &&& 63).toNat = chunks.flatten.length % 64 :=
  count_index (Sha1.stream_inv chunks).count

theorem md5_bitcount (chunks : List Bytes) (hc : ∀ c ∈ chunks, c.length < 2 ^ 32) :
    (chunks.foldl Md5.update Md5.init).bits1.toNat * 2 ^ 32
      + (chunks.foldl Md5.update Md5.init).bits0.toNat = 8 * chunks.flatten.length % 2 ^ 64 :=
  (Md5.stream_inv chunks hc).count.value

theorem md5_buffered (chunks : List Bytes) (hc : ∀ c ∈ chunks, c.length < 2 ^ 32) :
    (((chunks.foldl Md5.update Md5.init).bits0 >>> 3) &&& 0x3f).toNat = chunks.flatten.length % 64 :=
  count_index (Md5.stream_inv chunks hc).count

theorem ltc_bitcount {σ : Type} {bs : Nat} {md : Ltc.Ctx σ} {st : σ} {pend : Bytes} {n : Nat}
    (h : Ltc.Inv bs md st pend n) :
    (md.length + UInt64.ofNat (8 * md.curlen)).toNat = 8 * n % 2 ^ 64 := by
  rw [h.len, h.cur, ← UInt64.ofNat_add, UInt64.toNat_ofNat']
  have := h.le
  congr 1; omega

end Strophe.Hash
