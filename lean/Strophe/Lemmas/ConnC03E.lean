/-
C03, part E: the SASL result, stream management, bind / session / legacy results and the remaining
system handlers; `runSys`.
-/
import Strophe.Lemmas.ConnC03D

namespace Strophe.Lemmas.ConnC03
open Strophe Strophe.Conn

variable {jid : Option Bytes} {U : Item → Prop} {NR : Prop} {p : Par} {c : Conn}

/-! ### changing the parameters -/

theorem Inv.repar (h : Inv jid U NR p c) (p' : Par) (hx : p'.x = p.x) (hy : p'.y = p.y)
    (hxs : p'.xs = p.xs) (hmb : p'.mb = p.mb)
    (hw : p'.w = true ∨ p'.w = p.w) (hsb : p'.sb = p.sb) (hpb : p'.pb = p.pb)
    (hrb : c.isRaw = true → p'.rb = true) (hrpb : c.resetParser = true → p'.rpb = true) :
    Inv jid U NR p' c := by
  refine ⟨h.cfg, ?_, h.e, h.gg, ?_, ?_, h.ts⟩
  · rcases hw with hw | hw
    · exact { h.q with q_n := fun a => by rw [hw] at a; cases a }
    · rw [hw]; exact h.q
  · rw [hx, hy, hxs, hmb]; exact h.h
  · exact ⟨by rw [hsb]; exact h.f.st, by rw [hpb]; exact h.f.ps, hrb, hrpb, h.f.rp, h.f.rd⟩

theorem Inv.weakRpb (h : Inv jid U NR p c) : Inv jid U NR { p with rpb := true } c :=
  h.repar _ rfl rfl rfl rfl (Or.inr rfl) rfl rfl h.f.rw (fun _ => rfl)

/-! ### `_handle_sasl_result` -/

theorem smE_false_of_noauth (h : Inv jid U NR p c) (ha : c.g.authOk = false) : c.sm.enabled = false := by
  cases hs : c.sm.enabled with
  | false => rfl
  | true => have := (h.gg.smE hs).1; rw [ha] at this; cases this

/-- authentication succeeded: the stream is restarted -/
theorem Inv.saslSuccess (h : Inv jid U NR p c) (hc : HC p c) (ha : c.g.authOk = false) (oh : OpenH)
    (hoh : oh = .openSasl ∨ oh = .openCompress) :
    Inv jid U NR { p with rpb := true }
      (Conn.prepareReset { c with g := { c.g with authOk := true } } oh) := by
  unfold Conn.prepareReset
  have gr : GhostGrow c.g { c.g with authOk := true } :=
    ⟨rfl, id, fun _ => id, id, id, id, id, fun _ => rfl, id, id, rfl⟩
  have hnc := h.not_connecting (by rw [hc.sb]; simp)
  refine ⟨h.cfg, h.q, h.e.grow gr, h.gg.grow gr (fun a => absurd a hnc), ?_, ?_, h.ts⟩
  · refine h.h.change hc.nil (h.nil_nt hc.nil) ⟨?_, fun _ => rfl⟩ (fun _ _ => ⟨hc.nn, smE_false_of_noauth (c := c) h ha⟩)
      (fun a => absurd a hnc) (fun _ a => by rw [h.raw_false hc.rb] at a; cases a)
    rintro (e | e) <;> rcases hoh with e' | e' <;> (rw [e'] at e; cases e)
  · exact ⟨h.f.st, h.f.ps, h.f.rw, fun _ => rfl, (fun a => by rw [h.f.ps] at a; exact absurd a hc.pb), h.f.rd⟩

theorem Inv.handleSaslResult (h : Inv jid U NR p c) (hc : HC p c) (ha : c.g.authOk = false) (st : XTree) :
    Inv jid U NR { p with rpb := true } (Conn.handleSaslResult c st) := by
  unfold Conn.handleSaslResult; dsimp only
  split
  · exact (h.authTop hc ha).weakRpb
  · split
    · refine Inv.connOpenStream ?_
      exact h.saslSuccess hc ha _ (by split <;> simp)
    · exact h.xmppDisconnect.weakRpb

/-! ### stream management: `_sm_queue_resend`, `_handle_sm` -/

theorem libok_strophe_sm {it : Item} {s : Snap} (h : LibOk jid it .strophe s) : LibOk jid it .smStrophe s := by
  cases it <;> first | exact h | (exact absurd h.1 (by simp))

theorem resendFold_shape (l : List (UInt32 × QElem)) (c : Conn) :
    ∃ q n r, l.foldl (fun c e => if c.state = .connected then pushRawWith c e.2.item e.2.owner e.2.snap else c) c
      = { c with queue := q, nextUid := n, sm := { c.sm with rSent := r } } := by
  induction l generalizing c with
  | nil => exact ⟨c.queue, c.nextUid, c.sm.rSent, rfl⟩
  | cons e l ih =>
    rw [List.foldl_cons]
    by_cases hs : c.state = .connected
    · rw [if_pos hs]
      obtain ⟨q, n, r, e1⟩ := pushRawWith_shape c e.2.item e.2.owner e.2.snap
      rw [e1]
      obtain ⟨q2, n2, r2, e2⟩ := ih { c with queue := q, nextUid := n, sm := { c.sm with rSent := r } }
      rw [e2]; exact ⟨q2, n2, r2, rfl⟩
    · rw [if_neg hs]; exact ih c

theorem Inv.resendFold (l : List (UInt32 × QElem)) (hw : p.w = true) (h : Inv jid U NR p c)
    (hl : ∀ e ∈ l, EOk jid U NR e.2.item e.2.owner e.2.snap ∧ e.2.owner ≠ .smStrophe) :
    Inv jid U NR p
      (l.foldl (fun c e => if c.state = .connected then Conn.pushRawWith c e.2.item e.2.owner e.2.snap else c) c) := by
  induction l generalizing c with
  | nil => exact h
  | cons e l ih =>
    rw [List.foldl_cons]
    refine ih ?_ (fun e' a => hl e' (List.mem_cons_of_mem _ a))
    have he := hl e List.mem_cons_self
    by_cases hs : c.state = .connected
    · rw [if_pos hs]
      refine h.pushRawWith _ _ _ hs ?_ ?_ (fun _ a => by rw [hw] at a; cases a)
      · rintro o' (a | ⟨a1, a2⟩)
        · rw [a]; exact he.1
        · rw [a2]; refine ⟨fun x => (by cases x), fun _ => libok_strophe_sm ?_⟩
          have := he.1.2 (by rw [a1]; simp); rw [a1] at this; exact this
      · intro ho hh
        have hlib := he.1.2 ho
        obtain ⟨to, f, comp, e'⟩ := hh
        rw [e'] at hlib; exact absurd hlib.1 he.2
    · rw [if_neg hs]; exact h

theorem smQueueResend_shape (c : Conn) :
    ∃ q n r, smQueueResend c = { c with queue := q, nextUid := n, sm := { c.sm with rSent := r, queue := [] } } := by
  unfold smQueueResend; dsimp only
  obtain ⟨q, n, r, e⟩ := resendFold_shape c.sm.queue { c with sm := { c.sm with queue := [] } }
  rw [e]; exact ⟨q, n, r, rfl⟩

theorem Inv.smQueueResend (h : Inv jid U NR p c) (hw : p.w = true) :
    Inv jid U NR p (Conn.smQueueResend c) := by
  unfold Conn.smQueueResend; dsimp only
  refine Inv.resendFold _ hw ?_ h.q.smq_ok
  exact ⟨h.cfg, { h.q with smq_ok := fun _ a => nomatch a }, h.e, h.gg, h.h, h.f, h.ts⟩

/-- retransmission followed by the CONNECT notification -/
theorem Inv.resendSuccess (h : Inv jid U NR p c) (hc : HC p c) (hlive : c.state = .connected)
    (hneg : NegOk c.g) :
    Inv jid U NR { p with w := false } (Conn.negotiationSuccess (Conn.smQueueResend c)) := by
  have h1 := (h.repar { p with w := true } rfl rfl rfl rfl (Or.inl rfl) rfl rfl h.f.rw h.f.rpB).smQueueResend rfl
  obtain ⟨q, n, r, e⟩ := smQueueResend_shape c
  rw [e] at h1 ⊢
  exact h1.negotiationSuccess hc.nil hlive hc.nn hneg hc.rpb hc.pb

/-- an arbitrary update of the stream-management record that switches nothing on -/
theorem Inv.setSm (h : Inv jid U NR p c) (hc : HC p c) (hlive : c.state = .connected) (S : SmState)
    (hq : ∀ e ∈ S.queue, e ∈ c.sm.queue) (he : S.enabled = true → c.sm.enabled = true)
    (hs : S.support = true → c.sm.support = true) (hb : S.bind = true → c.sm.bind = true) :
    Inv jid U NR p { c with sm := S } := by
  refine ⟨h.cfg, { h.q with smq_ok := fun e a => h.q.smq_ok e (hq e a) }, h.e, ?_, ?_, h.f, h.ts⟩
  · exact { h.gg with smS := fun a => h.gg.smS (hs a), smB := fun a => h.gg.smB (hb a),
                      nc := fun a => absurd hlive a, smE := fun a => h.gg.smE (he a) }
  · refine h.h.change hc.nil (h.nil_nt hc.nil) h.h.ohOk ?_ (fun a => by rw [hlive] at a; cases a) h.h.raw
    intro hf; rcases hf with hf | hf
    · rw [h.rp_false hc.rpb] at hf; cases hf
    · rw [h.f.ps] at hf; exact absurd hf hc.pb

theorem HC.setSm (hc : HC p c) (S : SmState) : HC p { c with sm := S } :=
  ⟨hc.nil, hc.nn, hc.rpb, hc.pb, hc.sb, hc.rb⟩

theorem Inv.unW (h : Inv jid U NR { p with w := false } c) (hw : p.w = false) : Inv jid U NR p c :=
  h.repar p rfl rfl rfl rfl (Or.inr hw) rfl rfl h.f.rw h.f.rpB

def hsmC2 (c1 : Conn) (st : XTree) (cn : Bytes) : Conn :=
  if cn = b "item-not-found" then
    if c1.sm.resume then
      let h := (getH st).getD 0
      { c1 with sm := { c1.sm with queue := smQueueCleanup c1.sm.queue h } }
    else c1
  else if cn = b "feature-not-implemented" then
    { c1 with sm := { c1.sm with resume := false, canResume := false, dontRequestResume := true } }
  else c1

theorem hsmC2_spec (c1 : Conn) (st : XTree) (cn : Bytes) :
    ∃ S, hsmC2 c1 st cn = { c1 with sm := S } ∧ (∀ e ∈ S.queue, e ∈ c1.sm.queue) ∧
      S.enabled = c1.sm.enabled ∧ S.support = c1.sm.support ∧ S.bind = c1.sm.bind := by
  unfold hsmC2
  split
  · split
    · exact ⟨_, rfl, fun e a => (List.dropWhile_sublist _).subset a, rfl, rfl, rfl⟩
    · exact ⟨c1.sm, rfl, fun e a => a, rfl, rfl, rfl⟩
  · split
    · exact ⟨_, rfl, fun e a => a, rfl, rfl, rfl⟩
    · exact ⟨c1.sm, rfl, fun e a => a, rfl, rfl, rfl⟩

def hsmEnabled (c : Conn) (st : XTree) : Conn :=
    if !c.sm.enabled then { c with sm := { c.sm with enabled := false } } else
    let c1 := { c with sm := { c.sm with handledNr := 0 } }
    match st.attr (b "resume") with
    | some _ =>
      match st.attr (b "id") with
      | none => { c1 with sm := { c1.sm with enabled := false } }
      | some id =>
        let c2 := { c1 with sm := { c1.sm with canResume := true, id := some id } }
        triggerSmCallback (negotiationSuccess (smQueueResend c2))
    | none => triggerSmCallback (negotiationSuccess (smQueueResend c1))

def hsmResumed (c : Conn) (st : XTree) : Conn :=
    match c.sm.previd with
    | none => { c with sm := { c.sm with enabled := false } }
    | some ours =>
      if st.attr (b "previd") ≠ some ours then { c with sm := { c.sm with enabled := false } }
      else match getH st with
        | none => { c with sm := { c.sm with enabled := false } }
        | some h =>
          let q := smQueueCleanup c.sm.queue h
          let sent : UInt32 := match q with
            | e :: _ => e.1
            | [] => UInt32.ofNat h
          let c1 := { c with sm := { c.sm with enabled := true, id := c.sm.previd, previd := none, boundJid := none, sentNr := sent, queue := q }, boundJid := c.sm.boundJid, g := { c.g with resumed := true } }
          triggerSmCallback (negotiationSuccess (smQueueResend c1))

def hsmFailed (c : Conn) (st : XTree) : Conn :=
    let wasResume := c.sm.resume
    let c1 := { c with sm := { c.sm with enabled := false } }
    match st.childByNs Gen.nsStanzasIetf with
    | none => c1
    | some cause =>
      let cn := cause.name?.getD []
      let c2 := hsmC2 c1 st cn
      let hadBind := c2.sm.bind
      let c3 := { c2 with sm := resetSmState c2.sm }
      if hadBind then triggerSmCallback (doBind c3)
      else if wasResume then triggerSmCallback (xmppDisconnect c3)
      else if !c3.negotiated then triggerSmCallback (negotiationSuccess c3)
      else triggerSmCallback c3

theorem handleSm_eq (c : Conn) (st : XTree) :
    handleSm c st =
      (let name := st.name?.getD []
       if name = b "enabled" then hsmEnabled c st
       else if name = b "resumed" then hsmResumed c st
       else if name = b "failed" then hsmFailed c st
       else { c with sm := { c.sm with enabled := false } }) := rfl

section
variable (h : Inv jid U NR p c) (hc : HC p c) (hw : p.w = false) (hlive : c.state = .connected)
include h hc hlive

theorem Inv.smOff : Inv jid U NR p { c with sm := { c.sm with enabled := false } } :=
  h.setSm hc hlive _ (fun _ a => a) (fun a => by cases a) id id

include hw
theorem Inv.hsmEnabled (st : XTree) : Inv jid U NR p (ConnC03.hsmEnabled c st) := by
  unfold ConnC03.hsmEnabled triggerSmCallback; dsimp only
  split
  · exact h.smOff hc hlive
  · rename_i hen
    have hen : c.sm.enabled = true := by simpa using hen
    have hneg : NegOk c.g := Or.inl (h.gg.smE hen)
    split
    · split
      · exact h.setSm hc hlive _ (fun _ a => a) (fun a => by cases a) id id
      · refine Inv.unW (Inv.resendSuccess ?_ ?_ hlive hneg) hw
        · exact h.setSm hc hlive _ (fun _ a => a) id id id
        · exact hc.setSm _
    · refine Inv.unW (Inv.resendSuccess ?_ ?_ hlive hneg) hw
      · exact h.setSm hc hlive _ (fun _ a => a) id id id
      · exact hc.setSm _

theorem Inv.hsmResumed (ha : c.g.authOk = true) (st : XTree) : Inv jid U NR p (ConnC03.hsmResumed c st) := by
  unfold ConnC03.hsmResumed triggerSmCallback; dsimp only
  split
  · exact h.smOff hc hlive
  · split
    · exact h.smOff hc hlive
    · split
      · exact h.smOff hc hlive
      · refine Inv.unW ?_ hw
        refine Inv.resendSuccess ?_ ⟨hc.nil, hc.nn, hc.rpb, hc.pb, hc.sb, hc.rb⟩ hlive (Or.inl ⟨ha, Or.inr rfl⟩)
        have gr : GhostGrow c.g { c.g with resumed := true } :=
          ⟨rfl, id, fun _ => id, id, id, id, id, id, id, fun _ => rfl, rfl⟩
        refine ⟨h.cfg, ?_, h.e.grow gr, ?_, ?_, h.f, h.ts⟩
        · exact { h.q with smq_ok := fun e a => h.q.smq_ok e ((List.dropWhile_sublist _).subset a) }
        · exact { h.gg.grow gr (fun a => by rw [hlive] at a; cases a) with
                    nc := fun a => absurd hlive a, smE := fun _ => ⟨ha, Or.inr rfl⟩ }
        · refine h.h.change hc.nil (h.nil_nt hc.nil) h.h.ohOk ?_ (fun a => by rw [hlive] at a; cases a) h.h.raw
          intro hf; rcases hf with hf | hf
          · rw [h.rp_false hc.rpb] at hf; cases hf
          · rw [h.f.ps] at hf; exact absurd hf hc.pb

theorem Inv.hsmFailed (ha : c.g.authOk = true)
    (hph : c.sm.resume = false → c.g.bound = true ∨ c.g.resumed = true) (st : XTree) :
    Inv jid U NR p (ConnC03.hsmFailed c st) := by
  unfold ConnC03.hsmFailed triggerSmCallback; dsimp only
  split
  · exact h.smOff hc hlive
  · rename_i cause _
    obtain ⟨S, e2, hq, he, hs, hb⟩ := hsmC2_spec { c with sm := { c.sm with enabled := false } } st (cause.name?.getD [])
    rw [e2]
    have h3 : Inv jid U NR p { c with sm := resetSmState S } :=
      h.setSm hc hlive _ (fun e a => hq e a) (fun a => by rw [show (resetSmState S).enabled = S.enabled from rfl, he] at a; cases a)
        (fun a => by rw [show (resetSmState S).support = S.support from rfl, hs] at a; exact a)
        (fun a => by cases a)
    have hc3 : HC p { c with sm := resetSmState S } := hc.setSm _
    dsimp only
    split
    · rename_i hbd
      exact h3.doBind hc3 ha (by show S.enabled = false; rw [he]) (h.gg.smB (by rw [← hb]; exact hbd))
    · split
      · exact h3.xmppDisconnect
      · rename_i hnr
        split
        · refine Inv.unW ?_ hw
          refine h3.negotiationSuccess hc.nil hlive hc.nn (Or.inl ⟨ha, hph ?_⟩) hc.rpb hc.pb
          cases hr : c.sm.resume with
          | false => rfl
          | true => exact absurd hr hnr
        · exact h3

theorem Inv.handleSm (ha : c.g.authOk = true)
    (hph : c.sm.resume = false → c.g.bound = true ∨ c.g.resumed = true) (st : XTree) :
    Inv jid U NR p (Conn.handleSm c st) := by
  rw [handleSm_eq]; dsimp only
  split
  · exact h.hsmEnabled hc hw hlive st
  · split
    · exact h.hsmResumed hc hw hlive ha st
    · split
      · exact h.hsmFailed hc hw hlive ha hph st
      · exact h.smOff hc hlive
end

/-! ### bind / session / legacy results -/

def hbC1 (c0 : Conn) (st : XTree) : Conn :=
  let bj := match st.childByName (b "bind") with
    | some bnd => match bnd.childByName (b "jid") with
      | some j => j.getText
      | none => none
    | none => none
  let c0 := { c0 with g := { c0.g with bound := true } }
  match st.childByName (b "bind") with
    | some bnd => if (bnd.childByName (b "jid")).isSome then { c0 with boundJid := bj } else c0
    | none => c0

theorem hbC1_spec (c0 : Conn) (st : XTree) :
    ∃ bj, hbC1 c0 st = { c0 with g := { c0.g with bound := true }, boundJid := bj } := by
  unfold hbC1; dsimp only
  split
  · split
    · exact ⟨_, rfl⟩
    · exact ⟨c0.boundJid, rfl⟩
  · exact ⟨c0.boundJid, rfl⟩

def hbResult (c0 : Conn) (st : XTree) : Conn :=
  let c1 := hbC1 c0 st
  if c1.sessionRequired then sessionStart c1
  else if c1.sm.support && !c1.smDisable then smEnable c1
  else negotiationSuccess c1

theorem handleBind_eq (c : Conn) (st : XTree) :
    handleBind c st =
      (let c0 := delTimed c .missingBind
       match st.attr (b "type") with
       | some t =>
         if t = b "error" then xmppDisconnect c0
         else if t = b "result" then hbResult c0 st
         else xmppDisconnect c0
       | none => xmppDisconnect c0) := rfl

theorem Inv.setBound (h : Inv jid U NR p c) (hnc : c.state ≠ .connecting) (bj : Option Bytes) :
    Inv jid U NR p { c with g := { c.g with bound := true }, boundJid := bj } := by
  have gr : GhostGrow c.g { c.g with bound := true } :=
    ⟨rfl, id, fun _ => id, id, id, id, id, id, fun _ => rfl, id, rfl⟩
  exact ⟨h.cfg, h.q, h.e.grow gr, h.gg.grow gr (fun a => absurd a hnc),
    h.h.weaken rfl rfl (fun _ => rfl) id id (fun a => ⟨a, id⟩) id id (fun a => Or.inl a), h.f, h.ts⟩

theorem Inv.hbResult (h : Inv jid U NR p c) (hc : HC p c) (hw : p.w = false) (hlive : c.state = .connected)
    (ha : c.g.authOk = true) (hsm : c.sm.enabled = false) (st : XTree) :
    Inv jid U NR p (ConnC03.hbResult c st) := by
  unfold ConnC03.hbResult; dsimp only
  obtain ⟨bj, e⟩ := hbC1_spec c st
  rw [e]
  have h1 := h.setBound (by rw [hlive]; simp) bj
  have hc1 : HC p { c with g := { c.g with bound := true }, boundJid := bj } :=
    ⟨hc.nil, hc.nn, hc.rpb, hc.pb, hc.sb, hc.rb⟩
  split
  · rename_i hs; exact h1.sessionStart hc1 ha rfl hsm (h1.gg.sessR hs)
  · split
    · rename_i hs; simp only [Bool.and_eq_true] at hs
      exact h1.smEnable hc1 hlive ha (Or.inl rfl) (h1.gg.smS hs.1)
    · exact Inv.unW (h1.negotiationSuccess hc.nil hlive hc.nn (Or.inl ⟨ha, Or.inl rfl⟩) hc.rpb hc.pb) hw

theorem HC.delTimed (hc : HC p c) (fn : TFun) : HC p (Conn.delTimed c fn) :=
  ⟨hc.nil, hc.nn, hc.rpb, hc.pb, hc.sb, hc.rb⟩

theorem Inv.handleBind (h : Inv jid U NR p c) (hc : HC p c) (hw : p.w = false) (hlive : c.state = .connected)
    (ha : c.g.authOk = true) (hsm : c.sm.enabled = false) (st : XTree) :
    Inv jid U NR p (Conn.handleBind c st) := by
  rw [handleBind_eq]; dsimp only
  have h0 := h.delTimed .missingBind
  split
  · split
    · exact h0.xmppDisconnect
    · split
      · exact h0.hbResult (hc.delTimed _) hw hlive ha hsm st
      · exact h0.xmppDisconnect
  · exact h0.xmppDisconnect

theorem Inv.handleSession (h : Inv jid U NR p c) (hc : HC p c) (hw : p.w = false) (hlive : c.state = .connected)
    (ha : c.g.authOk = true) (hb : c.g.bound = true) (st : XTree) :
    Inv jid U NR p (Conn.handleSession c st) := by
  unfold Conn.handleSession; dsimp only
  have h0 := h.delTimed .missingSession
  have hc0 := hc.delTimed .missingSession
  split
  · split
    · exact h0.xmppDisconnect
    · split
      · split
        · rename_i hs; simp only [Bool.and_eq_true] at hs
          exact h0.smEnable hc0 hlive ha (Or.inl hb) (h0.gg.smS hs.1)
        · exact Inv.unW (h0.negotiationSuccess hc.nil hlive hc.nn (Or.inl ⟨ha, Or.inl hb⟩) hc.rpb hc.pb) hw
      · exact h0.xmppDisconnect
  · exact h0.xmppDisconnect

theorem Inv.setGhostFlag (h : Inv jid U NR p c) (hnc : c.state ≠ .connecting) (g' : Ghost)
    (gr : GhostGrow c.g g') (ha : g'.authOk = c.g.authOk) : Inv jid U NR p { c with g := g' } := by
  refine ⟨h.cfg, ?_, h.e.grow gr, h.gg.grow gr (fun a => absurd a hnc),
    h.h.weaken ha gr.nc gr.bound gr.resumed id (fun a => ⟨a, id⟩) id id (fun a => Or.inl a), h.f, h.ts⟩
  have := h.q; dsimp only; rw [gr.nc]; exact this

theorem Inv.handleLegacy (h : Inv jid U NR p c) (hc : HC p c) (hw : p.w = false) (hlive : c.state = .connected)
    (st : XTree) : Inv jid U NR p (Conn.handleLegacy c st) := by
  unfold Conn.handleLegacy; dsimp only
  have h0 := h.delTimed .missingLegacy
  split
  · exact h0.xmppDisconnect
  · split
    · exact h0.xmppDisconnect
    · split
      · exact h0.xmppDisconnect
      · split
        · refine Inv.unW ?_ hw
          refine Inv.negotiationSuccess ?_ hc.nil hlive hc.nn (Or.inr (Or.inr rfl)) hc.rpb hc.pb
          exact h0.setGhostFlag (by rw [show (Conn.delTimed c .missingLegacy).state = c.state from rfl, hlive]; simp) _
            ⟨rfl, id, fun _ => id, id, id, id, id, id, id, id, rfl⟩ rfl
        · exact h0.xmppDisconnect

/-! ### STARTTLS proceed, compression, component handshake -/

theorem Inv.tlsFail (h : Inv jid U NR p c) (hf : c.hasTls = false) (tf : Bool) (er : Int) :
    Inv jid U NR p { c with hasTls := false, tlsFailed := tf, error := er } := by
  have hq := h.q; have hg := h.gg; rw [hf] at hq hg
  exact ⟨h.cfg, hq, h.e, hg, h.h, h.f, h.ts⟩

/-- a parser reset requested from inside a handler -/
theorem Inv.prepReset (h : Inv jid U NR p c) (hc : HC p c) (oh : OpenH)
    (hoh : (oh = .open_ ∨ oh = .openTls → c.g.authOk = false) ∧
      (oh = .openSasl ∨ oh = .openCompress → c.g.authOk = true))
    (hsm : c.sm.enabled = false) (ca : Bool) :
    Inv jid U NR { p with rpb := true } { Conn.prepareReset c oh with compActive := ca } := by
  unfold Conn.prepareReset
  have hnc := h.not_connecting (by rw [hc.sb]; simp)
  refine ⟨h.cfg, h.q, h.e, h.gg, ?_, ?_, h.ts⟩
  · exact h.h.change hc.nil (h.nil_nt hc.nil) hoh (fun _ _ => ⟨hc.nn, hsm⟩)
      (fun a => absurd a hnc) (fun _ a => by rw [h.raw_false hc.rb] at a; cases a)
  · exact ⟨h.f.st, h.f.ps, h.f.rw, fun _ => rfl, (fun a => by rw [h.f.ps] at a; exact absurd a hc.pb), h.f.rd⟩

theorem Inv.setSecured (h : Inv jid U NR p c) (hc : HC p c) (hlive : c.state = .connected) :
    Inv jid U NR p { c with hasTls := true, secured := true } := by
  refine ⟨h.cfg, { h.q with q_ht := fun _ _ _ _ _ => rfl }, h.e, ?_, ?_, h.f, h.ts⟩
  · exact { h.gg with tls_sec := fun _ => rfl, nc := fun a => absurd hlive a,
                      cg := fun a => (by rw [hlive] at a; cases a) }
  · refine h.h.change hc.nil (h.nil_nt hc.nil) h.h.ohOk ?_ (fun a => by rw [hlive] at a; cases a) h.h.raw
    intro hf; rcases hf with hf | hf
    · rw [h.rp_false hc.rpb] at hf; cases hf
    · rw [h.f.ps] at hf; exact absurd hf hc.pb

theorem Inv.proceedTls (h : Inv jid U NR p c) (hc : HC p c) (hlive : c.state = .connected)
    (ha : c.g.authOk = false) (hsec : c.secured = false) :
    Inv jid U NR { p with rpb := true }
      (if (Conn.connTlsStart c).2 then Conn.connOpenStream (Conn.prepareReset (Conn.connTlsStart c).1 .openTls)
       else Conn.xmppDisconnect (Conn.connTlsStart c).1) := by
  have hht : c.hasTls = false := by
    cases hh : c.hasTls with
    | false => rfl
    | true => have := h.gg.tls_sec hh; rw [hsec] at this; cases this
  unfold Conn.connTlsStart
  split
  · exact (h.tlsFail hht c.tlsFailed c.error).xmppDisconnect.weakRpb
  · split
    · exact (h.tlsFail hht c.tlsFailed c.error).xmppDisconnect.weakRpb
    · split
      · exact (h.tlsFail hht true 71).xmppDisconnect.weakRpb
      · dsimp only
        have h1 := h.setSecured hc hlive
        have hc1 : HC p { c with hasTls := true, secured := true } := ⟨hc.nil, hc.nn, hc.rpb, hc.pb, hc.sb, hc.rb⟩
        have := h1.prepReset hc1 .openTls ⟨fun _ => ha, fun a => by rcases a with a | a <;> cases a⟩
          (smE_false_of_noauth (c := c) h ha) c.compActive
        exact Inv.connOpenStream this

/-! ### `runSys` -/

theorem runSys_proceed_eq (c : Conn) (st : XTree) :
    runSys c .proceedTls st =
      (if st.name? = some (b "proceed") then
        ((if (connTlsStart c).2 then connOpenStream (prepareReset (connTlsStart c).1 .openTls)
          else xmppDisconnect (connTlsStart c).1), false)
       else (c, false)) := by
  unfold runSys; dsimp only
  split
  · cases hh : (connTlsStart c).2 <;> simp
  · rfl

theorem not_hdr_response (t : Bool) : isHdrFrom (.response t) → False := by
  rintro ⟨_, _, _, e⟩; cases e

/-- a pending negotiation handler runs; `keep = false`: it is removed afterwards -/
theorem Inv.runSys (h : Inv jid U NR p c) (hx : p.x = none) (pc : PC p) (hw : p.w = false)
    (hlive : c.state = .connected) {u : Nat} {K : SysH} {usr : Bool}
    (hk : (u, HFun.sys K, usr) ∈ keys c) (hK : K ≠ .error) (xs : Bool)
    (hside : (xs = true → (u, HFun.sys K, usr) ∈ c.handlers.map hkey) ∧
      (xs = false → (u, HFun.sys K, usr) ∈ c.idHandlers.map hkey)) (st : XTree) :
    ((Conn.runSys c K st).2 = false → Inv jid U NR { p with x := some u, xs := xs, rpb := true } (Conn.runSys c K st).1) ∧
    ((Conn.runSys c K st).2 = true → Inv jid U NR { p with rpb := true } (Conn.runSys c K st).1) := by
  obtain ⟨hnn, hph⟩ := h.pend_phase hx hk hK
  have pc' : PC { p with x := some u, xs := xs } := pc.setX _ _
  have hw' : ({ p with x := some u, xs := xs } : Par).w = false := hw
  by_cases hKf : K = .features
  · subst hKf
    exact ⟨fun _ => (h.handleFeatures hx pc hk xs hside st).weakRpb, fun a => (by cases a)⟩
  obtain ⟨h1, hnil⟩ := h.enter hx hk hK (h.no_mf hx hk hK hKf) xs hside
  have hc : HC { p with x := some u, xs := xs } c := pc'.hc hnil hnn
  cases K with
  | error => exact absurd rfl hK
  | features => exact absurd rfl hKf
  | featuresSasl => exact ⟨fun _ => (h1.handleFeaturesSasl hc hlive hph.1 hph.2 st).weakRpb, fun a => (by cases a)⟩
  | featuresCompress => exact ⟨fun _ => (h1.handleFeaturesCompress hc hlive hph.1 hph.2 st).weakRpb, fun a => (by cases a)⟩
  | proceedTls =>
    rw [runSys_proceed_eq]
    split
    · exact ⟨fun _ => h1.proceedTls hc hlive hph.1 hph.2, fun a => (by cases a)⟩
    · exact ⟨fun _ => h1.weakRpb, fun a => (by cases a)⟩
  | saslResult m => exact ⟨fun _ => h1.handleSaslResult hc hph st, fun a => (by cases a)⟩
  | digestChallenge =>
    unfold Conn.runSys; dsimp only
    split
    · split
      · refine ⟨fun _ => ?_, fun a => (by cases a)⟩
        refine Inv.weakRpb (p := { p with x := some u, xs := xs }) ?_
        refine Inv.sendStanzaLib ?_ (.response true) .strophe (by simp) ?_ (fun _ hh => (not_hdr_response _ hh).elim)
        · exact h1.addHandler _ _ _ _ _ _ (by simp) (fun s hs _ => by cases hs; exact hc.canAdd hph)
        · intro _ _ _
          obtain ⟨l, n, e1, _⟩ := addHandler_shape c (.sys .digestRspauth) 0 (some Gen.nsSasl) none none false
          rw [e1]; exact hph
      · exact ⟨fun _ => h1.xmppDisconnect.weakRpb, fun a => (by cases a)⟩
    · exact ⟨fun _ => h1.handleSaslResult hc hph st, fun a => (by cases a)⟩
  | digestRspauth =>
    have hs : Inv jid U NR { p with rpb := true } (Conn.sendStanza c (.response false) .strophe) :=
      (h.sendStanzaLib (.response false) .strophe (by simp) (fun _ _ _ => hph) (fun _ hh => (not_hdr_response _ hh).elim)).weakRpb
    unfold Conn.runSys; dsimp only
    split
    · exact ⟨fun a => (by cases a), fun _ => hs⟩
    · exact ⟨fun _ => h1.handleSaslResult hc hph st, fun a => (by cases a)⟩
  | scramChallenge ctx alg =>
    have hs : Inv jid U NR { p with rpb := true } (Conn.sendStanza c (.response true) .strophe) :=
      (h.sendStanzaLib (.response true) .strophe (by simp) (fun _ _ _ => hph) (fun _ hh => (not_hdr_response _ hh).elim)).weakRpb
    unfold Conn.runSys; dsimp only
    repeat' split
    all_goals first
      | exact ⟨fun a => (by cases a), fun _ => hs⟩
      | exact ⟨fun _ => h1.xmppDisconnect.weakRpb, fun a => (by cases a)⟩
      | exact ⟨fun _ => h1.handleSaslResult hc hph st, fun a => (by cases a)⟩
  | sm =>
    unfold Conn.runSys; dsimp only
    split
    · exact ⟨fun a => (by cases a), fun _ => h.weakRpb⟩
    · exact ⟨fun _ => (h1.handleSm hc hw' hlive hph.1 (hph.2 (by rw [hlive]; simp)) st).weakRpb, fun a => (by cases a)⟩
  | compressResult =>
    unfold Conn.runSys; dsimp only
    split
    · refine ⟨fun _ => Inv.connOpenStream ?_, fun a => (by cases a)⟩
      exact h1.prepReset hc .openSasl ⟨fun a => (by rcases a with a | a <;> cases a), fun _ => hph.1⟩ hph.2 true
    · exact ⟨fun _ => h1.weakRpb, fun a => (by cases a)⟩
  | componentHs =>
    unfold Conn.runSys; dsimp only
    split
    · exact ⟨fun a => (by cases a), fun _ => (h.delTimed .missingHandshake).xmppDisconnect.weakRpb⟩
    · refine ⟨fun _ => Inv.weakRpb (Inv.unW ?_ hw'), fun a => (by cases a)⟩
      refine Inv.negotiationSuccess ?_ hnil hlive hnn (Or.inr (Or.inl rfl)) pc.rpb pc.pb
      exact (h1.delTimed .missingHandshake).setGhostFlag
        (by rw [show (Conn.delTimed c .missingHandshake).state = c.state from rfl, hlive]; simp) _
        ⟨rfl, id, fun _ => id, id, id, id, id, id, id, id, rfl⟩ rfl
  | bind => exact ⟨fun _ => (h1.handleBind hc hw' hlive hph.1 hph.2 st).weakRpb, fun a => (by cases a)⟩
  | session => exact ⟨fun _ => (h1.handleSession hc hw' hlive hph.1 hph.2.1 st).weakRpb, fun a => (by cases a)⟩
  | legacy => exact ⟨fun _ => (h1.handleLegacy hc hw' hlive st).weakRpb, fun a => (by cases a)⟩

end Strophe.Lemmas.ConnC03
