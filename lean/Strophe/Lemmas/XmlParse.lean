/-
`parse_render`: the independent reader of `Spec/Xml.lean` reads the rendering of every well-formed
stanza tree back as the canonical tree `canon` — induction over the tree with the usual "the reader
consumes exactly the rendering, whatever follows" strengthening (`parse_tree` / `parse_kids`).
Used by Props/C09.lean.
-/
import Strophe.Model.StanzaRead
import Strophe.Lemmas.StanzaRender
import Strophe.Lemmas.XmlChars
set_option linter.unusedSimpArgs false

namespace Strophe.Stanza
open Strophe.HashTab Strophe.Spec.Xml

/-! ### lexical lemmas -/

theorem dropWhile_isSpace_cons (b : UInt8) (r : Bytes) (h : isSpace b = false) :
    (b :: r).dropWhile isSpace = b :: r := by
  simp [List.dropWhile, h]

theorem isNameStart_isNameChar (b : UInt8) (h : isNameStart b = true) : isNameChar b = true := by
  simp [isNameChar, h]

/-- what may follow a name for `parseName` to stop exactly there -/
def stopsName (rest : Bytes) : Prop := ∀ c r, rest = c :: r → isNameChar c = false

theorem takeWhile_all {p : UInt8 → Bool} : ∀ (n rest : Bytes), n.all p = true → (∀ c r, rest = c :: r → p c = false) →
    (n ++ rest).takeWhile p = n ∧ (n ++ rest).dropWhile p = rest
  | [], rest, _, hs => by
    cases rest with
    | nil => simp
    | cons c r => simp [List.takeWhile, List.dropWhile, hs c r rfl]
  | b :: n, rest, hn, hs => by
    simp only [List.all_cons, Bool.and_eq_true] at hn
    have := takeWhile_all n rest hn.2 hs
    simp [List.takeWhile, List.dropWhile, hn.1, this.1, this.2]

theorem parseName_append (name rest : Bytes) (hn : isName name = true) (hs : stopsName rest) :
    parseName (name ++ rest) = some (name, rest) := by
  cases name with
  | nil => simp [isName] at hn
  | cons b r =>
    simp only [isName, Bool.and_eq_true] at hn
    have hall : (b :: r).all isNameChar = true := by
      simp only [List.all_cons, Bool.and_eq_true]; exact ⟨isNameStart_isNameChar b hn.1, hn.2⟩
    have := takeWhile_all (b :: r) rest hall hs
    simp only [parseName, List.cons_append, hn.1, if_true]
    simp only [List.cons_append] at this
    rw [this.1, this.2]

theorem isName_head (name : Bytes) (hn : isName name = true) : ∃ b r, name = b :: r ∧ isNameStart b = true := by
  cases name with
  | nil => simp [isName] at hn
  | cons b r => simp only [isName, Bool.and_eq_true] at hn; exact ⟨b, r, rfl, hn.1⟩

/-- an attribute value without TAB / LF / CR comes back from its escaped form -/
theorem parseAttValue_escape : ∀ (v acc rest : Bytes), (∀ b ∈ v, b ≠ 9 ∧ b ≠ 10 ∧ b ≠ 13) →
    parseAttValue (escapeXml v ++ 0x22 :: rest) acc = some (acc.reverse ++ v, rest)
  | [], acc, rest, _ => by simp [escapeXml_nil, parseAttValue]
  | b :: v, acc, rest, h => by
    have hb := h b (List.mem_cons_self ..)
    have hv : ∀ c ∈ v, c ≠ 9 ∧ c ≠ 10 ∧ c ≠ 13 := fun c hc => h c (List.mem_cons_of_mem _ hc)
    rw [escapeXml_cons, List.append_assoc]
    rcases escapeByte_cases b with ⟨hb', e⟩ | ⟨hb', e⟩ | ⟨hb', e⟩ | ⟨hb', e⟩ | ⟨h1, h2, h3, _, e⟩
    · rw [e]; simp only [List.cons_append, List.nil_append, parseAttValue]
      rw [parseAttValue_escape v _ rest hv]; simp [hb']
    · rw [e]; simp only [List.cons_append, List.nil_append, parseAttValue]
      rw [parseAttValue_escape v _ rest hv]; simp [hb']
    · rw [e]; simp only [List.cons_append, List.nil_append, parseAttValue]
      rw [parseAttValue_escape v _ rest hv]; simp [hb']
    · rw [e]; simp only [List.cons_append, List.nil_append, parseAttValue]
      rw [parseAttValue_escape v _ rest hv]; simp [hb']
    · rw [e]; simp only [List.cons_append, List.nil_append]
      rw [parseAttValue.eq_14 _ _ _ (by simpa using h1) (by simpa using h3) (by simpa using h2)
        (by intro r hb13; exact absurd hb13 hb.2.2) (by simpa using hb.2.2) (by simpa using hb.2.1) (by simpa using hb.1)]
      rw [parseAttValue_escape v _ rest hv]; simp


/-- an attribute the reader gets back unchanged -/
def attrOk (e : Entry) : Prop := isName e.1 = true ∧ ∀ b ∈ e.2, b ≠ 9 ∧ b ≠ 10 ∧ b ≠ 13

theorem renderAttr_length (e : Entry) : 1 ≤ (renderAttr e).length := by simp [renderAttr]

theorem flatMap_renderAttr_length : ∀ l : List Entry, l.length ≤ (l.flatMap renderAttr).length
  | [] => by simp
  | e :: l => by
    have := flatMap_renderAttr_length l
    have := renderAttr_length e
    simp only [List.flatMap_cons, List.length_append, List.length_cons]; omega

/-- how a start tag ends -/
def tagEnd (selfClose : Bool) : Bytes := if selfClose then [sl, gt] else [gt]

theorem parseAttrs_end (f : Nat) (acc : List Entry) (sc : Bool) (rest : Bytes) :
    parseAttrs (f + 1) (tagEnd sc ++ rest) acc = some (acc.reverse, sc, rest) := by
  cases sc with
  | true =>
    have : (tagEnd true ++ rest) = 0x2F :: 0x3E :: rest := rfl
    rw [this, parseAttrs]
    rw [dropWhile_isSpace_cons _ _ (by decide)]
    rfl
  | false =>
    have : (tagEnd false ++ rest) = 0x3E :: rest := rfl
    rw [this, parseAttrs]
    rw [dropWhile_isSpace_cons _ _ (by decide)]
    rfl

theorem isNameStart_not_space (b : UInt8) (h : isNameStart b = true) : isSpace b = false := by
  simp only [isNameStart, isSpace, Bool.or_eq_true, Bool.and_eq_true, decide_eq_true_eq, beq_iff_eq,
    UInt8.le_iff_toNat_le] at h ⊢
  simp only [Bool.or_eq_false_iff, beq_eq_false_iff_ne, ne_eq, ← UInt8.toNat_inj]
  have e1 : (0x41 : UInt8).toNat = 0x41 := rfl
  have e2 : (0x5A : UInt8).toNat = 0x5A := rfl
  have e3 : (0x61 : UInt8).toNat = 0x61 := rfl
  have e4 : (0x7A : UInt8).toNat = 0x7A := rfl
  have e5 : (0x5F : UInt8).toNat = 0x5F := rfl
  have e6 : (0x80 : UInt8).toNat = 0x80 := rfl
  have e7 : (0x20 : UInt8).toNat = 0x20 := rfl
  have e8 : (9 : UInt8).toNat = 9 := rfl
  have e9 : (10 : UInt8).toNat = 10 := rfl
  have e10 : (13 : UInt8).toNat = 13 := rfl
  simp only [← UInt8.toNat_inj, e1, e2, e3, e4, e5, e6, e7, e8, e9, e10] at h ⊢
  omega


theorem stopsName_cons (c : UInt8) (r : Bytes) (h : isNameChar c = false) : stopsName (c :: r) := by
  intro c' r' e; cases e; exact h

/-- `(S Attribute)*` followed by the end of the start tag: the attributes come back in order -/
theorem parseAttrs_render : ∀ (l : List Entry) (f : Nat) (acc : List Entry) (sc : Bool) (rest : Bytes),
    (∀ e ∈ l, attrOk e) → l.length < f →
    parseAttrs f (l.flatMap renderAttr ++ tagEnd sc ++ rest) acc = some (acc.reverse ++ l, sc, rest)
  | [], f, acc, sc, rest, _, hf => by
    obtain ⟨f', rfl⟩ : ∃ f', f = f' + 1 := ⟨f - 1, by simp at hf; omega⟩
    simp only [List.flatMap_nil, List.nil_append, List.append_nil]
    exact parseAttrs_end f' acc sc rest
  | (key, val) :: l, f, acc, sc, rest, hok, hf => by
    obtain ⟨f', rfl⟩ : ∃ f', f = f' + 1 := ⟨f - 1, by simp at hf; omega⟩
    have hk := hok (key, val) (List.mem_cons_self ..)
    have hl : ∀ e ∈ l, attrOk e := fun e he => hok e (List.mem_cons_of_mem _ he)
    obtain ⟨b, kr, rfl, hb⟩ := isName_head key hk.1
    have ih := parseAttrs_render l f' ((b :: kr, val) :: acc) sc rest hl (by simp at hf; omega)
    -- shape of the input
    have hin : ((b :: kr, val) :: l).flatMap renderAttr ++ tagEnd sc ++ rest =
        sp :: ((b :: kr) ++ (eq :: dq :: (escapeXml val ++ dq :: (l.flatMap renderAttr ++ tagEnd sc ++ rest)))) := by
      simp [renderAttr, List.append_assoc]
    rw [hin, parseAttrs]
    have hd : (sp :: ((b :: kr) ++ (eq :: dq :: (escapeXml val ++ dq :: (l.flatMap renderAttr ++ tagEnd sc ++ rest))))).dropWhile isSpace
        = (b :: kr) ++ (eq :: dq :: (escapeXml val ++ dq :: (l.flatMap renderAttr ++ tagEnd sc ++ rest))) := by
      rw [List.dropWhile_cons_of_pos (by decide), List.cons_append, dropWhile_isSpace_cons _ _ (isNameStart_not_space b hb)]
    rw [hd]
    have hne1 : b ≠ 0x2F := by intro h; rw [h] at hb; exact absurd hb (by decide)
    have hne2 : b ≠ 0x3E := by intro h; rw [h] at hb; exact absurd hb (by decide)
    have hpn := parseName_append (b :: kr) (eq :: dq :: (escapeXml val ++ dq :: (l.flatMap renderAttr ++ tagEnd sc ++ rest)))
      hk.1 (stopsName_cons _ _ (by decide))
    have hav := parseAttValue_escape val [] (l.flatMap renderAttr ++ tagEnd sc ++ rest) hk.2
    simp only [List.cons_append] at hpn ⊢
    split
    · rename_i h; simp only [List.cons.injEq] at h; exact absurd h.1 hne1
    · rename_i h; simp only [List.cons.injEq] at h; exact absurd h.1 hne2
    · rw [if_neg (by simp)]
      rw [hpn]
      simp only
      rw [dropWhile_isSpace_cons _ _ (by decide)]
      show (match eq :: dq :: (escapeXml val ++ dq :: (l.flatMap renderAttr ++ tagEnd sc ++ rest)) with
        | 0x3D :: r2 => _
        | _ => none) = _
      simp only [eq]
      simp only [dq]
      have hav' : parseAttValue (escapeXml val ++ 34 :: (l.flatMap renderAttr ++ tagEnd sc ++ rest)) [] =
          some (val, l.flatMap renderAttr ++ tagEnd sc ++ rest) := by simpa using hav
      rw [hav']
      simp only
      rw [ih]
      simp


/-! ### single steps of the content loop -/

theorem parseNodes_text_step (f : Nat) (scope : Option Bytes) (b : UInt8) (r : Bytes) (acc : List XNode)
    (h1 : b ≠ 0x3C) (h2 : b ≠ 0x26) (h3 : b ≠ 0x3E) (h4 : b ≠ 0x0D) :
    parseNodes (f + 1) scope (b :: r) acc = parseNodes f scope r (.text [b] :: acc) :=
  parseNodes.eq_9 scope acc f b r (fun _ h _ => h1 h) h1 h2 h3 (fun _ h _ => h4 h) h4

theorem parseNodes_entity_step (f : Nat) (scope : Option Bytes) (r r' : Bytes) (c : UInt8) (acc : List XNode)
    (h : entity r = some (c, r')) :
    parseNodes (f + 1) scope (0x26 :: r) acc = parseNodes f scope r' (.text [c] :: acc) := by
  rw [parseNodes.eq_5, h]

theorem parseNodes_end_nil (f : Nat) (scope : Option Bytes) (acc : List XNode) :
    parseNodes (f + 1) scope [] acc = some (finish acc, []) := by
  rw [parseNodes]

theorem parseNodes_end_close (f : Nat) (scope : Option Bytes) (r : Bytes) (acc : List XNode) :
    parseNodes (f + 1) scope (0x3C :: 0x2F :: r) acc = some (finish acc, 0x3C :: 0x2F :: r) := by
  rw [parseNodes]

/-! ### what the content loop collects -/

def textPieces (d : Bytes) : List XNode := d.map fun b => XNode.text [b]

def pieces (par : Option (Option HashTab)) (inh : Option Bytes) : Tree → List XNode
  | .tag n a ks => [canonRawR par inh (.tag n a ks)]
  | .text d _ => textPieces d
  | .unknown _ => []

def piecesKids (par : Option (Option HashTab)) (inh : Option Bytes) : List Tree → List XNode
  | [] => []
  | k :: ks => pieces par inh k ++ piecesKids par inh ks

def cost : Tree → Nat
  | .tag _ _ _ => 1
  | .text d _ => d.length
  | .unknown _ => 0

def costKids : List Tree → Nat
  | [] => 0
  | k :: ks => cost k + costKids ks

/-- escaped character data is read back byte by byte -/
theorem parseNodes_text : ∀ (d : Bytes) (f : Nat) (scope : Option Bytes) (X : Bytes) (acc : List XNode),
    (∀ b ∈ d, b ≠ 13) → d.length ≤ f →
    parseNodes f scope (escapeXml d ++ X) acc = parseNodes (f - d.length) scope X ((textPieces d).reverse ++ acc)
  | [], f, scope, X, acc, _, _ => by simp [escapeXml_nil, textPieces]
  | b :: d, f, scope, X, acc, h, hf => by
    obtain ⟨f', rfl⟩ : ∃ f', f = f' + 1 := ⟨f - 1, by simp at hf; omega⟩
    have hb := h b (List.mem_cons_self ..)
    have hd : ∀ c ∈ d, c ≠ 13 := fun c hc => h c (List.mem_cons_of_mem _ hc)
    have ih := parseNodes_text d f' scope X (.text [b] :: acc) hd (by simp at hf; omega)
    have hr : f' + 1 - (b :: d).length = f' - d.length := by simp
    have hp : (textPieces (b :: d)).reverse ++ acc = (textPieces d).reverse ++ (XNode.text [b] :: acc) := by
      simp [textPieces]
    rw [hr, hp, ← ih, escapeXml_cons, List.append_assoc]
    rcases escapeByte_cases b with ⟨hb', e⟩ | ⟨hb', e⟩ | ⟨hb', e⟩ | ⟨hb', e⟩ | ⟨h1, h2, h3, h4, e⟩
    · rw [e, hb']; simp only [List.cons_append, List.nil_append]; rw [parseNodes_entity_step _ _ _ _ _ _ rfl]
    · rw [e, hb']; simp only [List.cons_append, List.nil_append]; rw [parseNodes_entity_step _ _ _ _ _ _ rfl]
    · rw [e, hb']; simp only [List.cons_append, List.nil_append]; rw [parseNodes_entity_step _ _ _ _ _ _ rfl]
    · rw [e, hb']; simp only [List.cons_append, List.nil_append]; rw [parseNodes_entity_step _ _ _ _ _ _ rfl]
    · rw [e]; simp only [List.cons_append, List.nil_append]
      exact parseNodes_text_step f' scope b _ acc h3 h2 h4 hb

/-! ### merging the collected pieces -/

theorem consText_consText_singleton (b : UInt8) (d : Bytes) (R : List XNode) :
    consText [b] (consText d R) = consText (b :: d) R := by
  unfold consText
  by_cases hd : d = []
  · subst hd; simp
  · simp only [hd, if_false, List.cons_ne_nil]
    cases R with
    | nil => simp
    | cons x R' =>
      cases x with
      | text s' => simp
      | elem ns n a k => simp

theorem foldr_textPieces (d : Bytes) (R : List XNode) : (textPieces d).foldr consNode R = consText d R := by
  induction d with
  | nil => simp [textPieces, consText]
  | cons b d ih =>
    simp only [textPieces, List.map_cons, List.foldr_cons] at ih ⊢
    rw [ih]
    simp only [consNode]
    exact consText_consText_singleton b d R

theorem finish_reverse (l : List XNode) : finish l.reverse = l.foldr consNode [] := by
  simp [finish, List.foldl_reverse]

theorem foldr_piecesKids (par : Option (Option HashTab)) (inh : Option Bytes) : ∀ ks : List Tree,
    (piecesKids par inh ks).foldr consNode [] = canonKidsRawR par inh ks
  | [] => by simp [piecesKids, canonKidsRawR]
  | k :: ks => by
    rw [piecesKids, List.foldr_append, foldr_piecesKids par inh ks, canonKidsRawR]
    cases k with
    | tag n a kk => simp [pieces]
    | text d kk => simp [pieces, foldr_textPieces, canonRawR, consNode]
    | unknown kk => simp [pieces, canonRawR, consNode, consText]


/-- the namespace in scope where the tree is read agrees with an `xmlns` the renderer leaves out -/
def Ctx (par : Option (Option HashTab)) (scope : Option Bytes) : Tree → Prop
  | .tag _ attrs _ => ∀ tab v, attrs = some tab → tab.get xmlnsKey = some v → elideNs par v = true → scope = nsOfDecl v
  | _ => True

theorem ctx_kid (attrs : Option HashTab) (scope : Option Bytes) (k : Tree) : Ctx (some attrs) (effNs scope attrs) k := by
  cases k with
  | tag n a kk =>
    intro tab v _ _ he
    cases attrs with
    | none => simp [elideNs] at he
    | some ptab =>
      simp only [elideNs] at he
      cases hp : ptab.get xmlnsKey with
      | none => simp [hp] at he
      | some pv =>
        simp only [hp, decide_eq_true_eq] at he
        simp [effNs, hp, he]
  | text d kk => trivial
  | unknown kk => trivial

theorem escapeByte_length (b : UInt8) : 1 ≤ (escapeByte b).length := by
  rcases escapeByte_cases b with ⟨_, e⟩ | ⟨_, e⟩ | ⟨_, e⟩ | ⟨_, e⟩ | ⟨_, _, _, _, e⟩ <;> rw [e] <;> simp

theorem escapeXml_length : ∀ d : Bytes, d.length ≤ (escapeXml d).length
  | [] => by simp [escapeXml_nil]
  | b :: d => by
    have := escapeXml_length d
    have := escapeByte_length b
    rw [escapeXml_cons]; simp only [List.length_append, List.length_cons]; omega

theorem cost_le (par : Option (Option HashTab)) : ∀ t : Tree, WfTree t → cost t ≤ (render par t).length
  | .tag n a ks, _ => by rw [render_tag]; simp [cost]
  | .text d _, _ => by simp only [cost, render]; exact escapeXml_length d
  | .unknown _, h => by simp [WfTree] at h

theorem costKids_le (par : Option (Option HashTab)) : ∀ ks : List Tree, WfKids ks → costKids ks ≤ (renderKids par ks).length
  | [], _ => by simp [costKids]
  | k :: ks, h => by
    simp only [WfKids] at h
    have := cost_le par k h.1
    have := costKids_le par ks h.2
    simp only [costKids, renderKids, List.length_append]; omega

/-! ### attribute lists with distinct keys -/

theorem hasDup_false_of_nodup : ∀ l : List Bytes, l.Nodup → hasDup l = false
  | [], _ => rfl
  | k :: ks, h => by
    simp only [List.nodup_cons] at h
    simp [hasDup, h.1, hasDup_false_of_nodup ks h.2]

theorem lookup_of_mem (k v : Bytes) : ∀ l : List Entry, (l.map Prod.fst).Nodup → (k, v) ∈ l → l.lookup k = some v
  | [], _, h => by simp at h
  | (k', v') :: l, hn, h => by
    simp only [List.map_cons, List.nodup_cons] at hn
    by_cases e : k = k'
    · subst e
      rcases List.mem_cons.1 h with h | h
      · simp at h; simp [List.lookup, h]
      · exact absurd (List.mem_map_of_mem (f := Prod.fst) h) hn.1
    · rcases List.mem_cons.1 h with h | h
      · simp at h; exact absurd h.1 e
      · have : (k == k') = false := by simp [e]
        simp only [List.lookup, this]
        exact lookup_of_mem k v l hn.2 h

theorem lookup_none_of_not_mem (k : Bytes) : ∀ l : List Entry, k ∉ l.map Prod.fst → l.lookup k = none
  | [], _ => rfl
  | (k', v') :: l, h => by
    simp only [List.map_cons, List.mem_cons, not_or] at h
    have : (k == k') = false := by simp [h.1]
    simp only [List.lookup, this]
    exact lookup_none_of_not_mem k l h.2

theorem xmlnsName_eq : xmlnsName = xmlnsKey := rfl

theorem shown_sublist (par : Option (Option HashTab)) (tab : HashTab) :
    (shownAttrs par (some tab)).Sublist tab.toList := List.filter_sublist

theorem plain_of_shown (par : Option (Option HashTab)) (attrs : Option HashTab) :
    (shownAttrs par attrs).filter (fun a => decide (a.1 ≠ xmlnsName)) = plainAttrs attrs := by
  cases attrs with
  | none => rfl
  | some tab =>
    simp only [shownAttrs, plainAttrs, List.filter_filter, xmlnsName_eq]
    apply List.filter_congr
    intro e _
    by_cases h : e.1 = xmlnsKey <;> simp [h]

theorem scope_of_shown (par : Option (Option HashTab)) (scope : Option Bytes) (n : Bytes) (attrs : Option HashTab)
    (ks : List Tree) (hw : ∀ tab, attrs = some tab → HashTab.WF tab) (hc : Ctx par scope (.tag n attrs ks)) :
    scopeOf scope (shownAttrs par attrs) = effNs scope attrs := by
  cases attrs with
  | none => rfl
  | some tab =>
    have hwf := hw tab rfl
    have hnd : ((shownAttrs par (some tab)).map Prod.fst).Nodup :=
      ((shown_sublist par tab).map Prod.fst).nodup (HashTab.keys_nodup hwf)
    simp only [scopeOf, effNs, xmlnsName_eq]
    cases hg : tab.get xmlnsKey with
    | none =>
      have : xmlnsKey ∉ (shownAttrs par (some tab)).map Prod.fst := fun hm =>
        (HashTab.get_none_iff hwf _).1 hg (((shown_sublist par tab).map Prod.fst).subset hm)
      rw [lookup_none_of_not_mem _ _ this]
    | some v =>
      have hm := HashTab.mem_toList_of_get hwf hg
      by_cases he : elideNs par v = true
      · have : xmlnsKey ∉ (shownAttrs par (some tab)).map Prod.fst := by
          intro hmem
          obtain ⟨⟨k', v'⟩, hin, hk⟩ := List.mem_map.1 hmem
          simp only at hk; subst hk
          simp only [shownAttrs, List.mem_filter] at hin
          have hv : tab.get xmlnsKey = some v' := HashTab.get_of_mem_toList hwf hin.1
          rw [hg] at hv; cases hv
          simp [he] at hin
        rw [lookup_none_of_not_mem _ _ this]
        exact hc tab v rfl hg he
      · have : (xmlnsKey, v) ∈ shownAttrs par (some tab) := by
          simp only [shownAttrs, List.mem_filter]
          exact ⟨hm, by simp [he]⟩
        rw [lookup_of_mem _ _ _ hnd this]


theorem stops_after_name (A : List Entry) (sc : Bool) (rest : Bytes) :
    stopsName (A.flatMap renderAttr ++ tagEnd sc ++ rest) := by
  cases A with
  | nil =>
    cases sc
    · exact stopsName_cons _ _ (by decide)
    · exact stopsName_cons _ _ (by decide)
  | cons e A' =>
    simp only [List.flatMap_cons, renderAttr, List.cons_append]
    exact stopsName_cons _ _ (by decide)

theorem elem_step (f : Nat) (scope : Option Bytes) (acc : List XNode) (name : Bytes) (A : List Entry) (sc : Bool)
    (rest : Bytes) (hname : isName name = true) (hA : ∀ e ∈ A, attrOk e) (hlen : A.length < f)
    (hdup : hasDup (A.map Prod.fst) = false) :
    parseNodes (f + 1) scope (0x3C :: (name ++ (A.flatMap renderAttr ++ tagEnd sc ++ rest))) acc =
      if sc = true then
        parseNodes f scope rest (.elem (scopeOf scope A) name (A.filter fun a => decide (a.1 ≠ xmlnsName)) [] :: acc)
      else
        match parseNodes f (scopeOf scope A) rest [] with
        | none => none
        | some (kids, r3) =>
          match r3 with
          | 0x3C :: 0x2F :: r4 =>
            match parseName r4 with
            | none => none
            | some (name2, r5) =>
              if name2 ≠ name then none
              else
                match r5.dropWhile isSpace with
                | 0x3E :: r6 =>
                  parseNodes f scope r6
                    (.elem (scopeOf scope A) name (A.filter fun a => decide (a.1 ≠ xmlnsName)) kids :: acc)
                | _ => none
          | _ => none := by
  obtain ⟨b, nr, rfl, hb⟩ := isName_head name hname
  have hne : b ≠ 0x2F := by intro h; rw [h] at hb; exact absurd hb (by decide)
  rw [parseNodes.eq_4 _ _ _ _ (by intro tail h; simp only [List.cons_append, List.cons.injEq] at h; exact hne h.1)]
  rw [parseName_append _ _ hname (stops_after_name A sc rest)]
  simp only
  rw [parseAttrs_render A f [] sc rest hA hlen]
  simp only [List.reverse_nil, List.nil_append, hdup, Bool.false_eq_true, if_false]
  cases sc <;> rfl


theorem shown_ok (par : Option (Option HashTab)) (attrs : Option HashTab)
    (h : ∀ tab, attrs = some tab → HashTab.WF tab ∧
        ∀ e ∈ tab.toList, isName e.1 = true ∧ legalChars e.1 = true ∧ legalChars e.2 = true ∧ valueOk e.2) :
    (∀ e ∈ shownAttrs par attrs, attrOk e) ∧ hasDup ((shownAttrs par attrs).map Prod.fst) = false := by
  cases attrs with
  | none => simp [shownAttrs, hasDup]
  | some tab =>
    obtain ⟨hwf, hall⟩ := h tab rfl
    constructor
    · intro e he
      have := hall e ((shown_sublist par tab).subset he)
      exact ⟨this.1, this.2.2.2⟩
    · exact hasDup_false_of_nodup _ (((shown_sublist par tab).map Prod.fst).nodup (HashTab.keys_nodup hwf))

mutual
/-- the content loop reads the rendering of one node and goes on behind it -/
theorem parse_tree : ∀ (t : Tree) (par : Option (Option HashTab)) (scope : Option Bytes) (f : Nat)
    (acc : List XNode) (X : Bytes), WfTree t → (render par t ++ X).length < f →
    parseNodes f scope (render par t ++ X) acc =
      parseNodes (f - cost t) scope X ((pieces par scope t).reverse ++ acc)
  | .unknown _, _, _, _, _, _, hw, _ => by simp [WfTree] at hw
  | .text d kk, par, scope, f, acc, X, hw, hf => by
    simp only [WfTree] at hw
    simp only [render, cost, pieces]
    have := escapeXml_length d
    simp only [render, List.length_append] at hf
    exact parseNodes_text d f scope X acc hw.2.1 (by omega)
  | .tag name attrs ks, par, scope, f, acc, X, hw, hf => by
    simp only [WfTree] at hw
    obtain ⟨hname, _, hattrs, hkids⟩ := hw
    obtain ⟨hAok, hdup⟩ := shown_ok par attrs hattrs
    have hplain := plain_of_shown par attrs
    have hAlen := flatMap_renderAttr_length (shownAttrs par attrs)
    obtain ⟨b0, nr0, hn0, _⟩ := isName_head name hname
    have hnlen : 1 ≤ name.length := by rw [hn0]; simp
    rw [render_tag] at hf ⊢
    cases ks with
    | nil =>
      have hin : lt :: name ++ (shownAttrs par attrs).flatMap renderAttr ++
            tagBody name ([] : List Tree).isEmpty (renderKids (some attrs) []) ++ X =
          0x3C :: (name ++ ((shownAttrs par attrs).flatMap renderAttr ++ tagEnd true ++ X)) := by
        simp [tagBody, tagEnd, lt, List.append_assoc]
      rw [hin] at hf ⊢
      obtain ⟨f', rfl⟩ : ∃ f', f = f' + 1 := ⟨f - 1, by simp at hf; omega⟩
      rw [elem_step f' scope acc name _ true X hname hAok
        (by simp only [List.length_cons, List.length_append] at hf; omega) hdup]
      simp only [if_true, hplain, cost, pieces, canonRawR, canonKidsRawR, List.reverse_cons, List.reverse_nil,
        List.nil_append, List.cons_append, Nat.add_sub_cancel]
    | cons k ks' =>
      have hin : lt :: name ++ (shownAttrs par attrs).flatMap renderAttr ++
            tagBody name (k :: ks').isEmpty (renderKids (some attrs) (k :: ks')) ++ X =
          0x3C :: (name ++ ((shownAttrs par attrs).flatMap renderAttr ++ tagEnd false ++
            (renderKids (some attrs) (k :: ks') ++ (0x3C :: 0x2F :: (name ++ 0x3E :: X))))) := by
        simp [tagBody, tagEnd, lt, sl, gt, List.append_assoc]
      rw [hin] at hf ⊢
      obtain ⟨f', rfl⟩ : ∃ f', f = f' + 1 := ⟨f - 1, by simp at hf; omega⟩
      have hlen : (renderKids (some attrs) (k :: ks') ++ (0x3C :: 0x2F :: (name ++ 0x3E :: X))).length < f' := by
        simp only [List.length_cons, List.length_append] at hf ⊢; omega
      have hck := costKids_le (some attrs) (k :: ks') hkids
      rw [elem_step f' scope acc name _ false _ hname hAok
        (by simp only [List.length_cons, List.length_append] at hf; omega) hdup]
      simp only [Bool.false_eq_true, if_false, hplain]
      rw [parse_kids (k :: ks') (some attrs) (scopeOf scope (shownAttrs par attrs)) f' [] _ hkids hlen]
      obtain ⟨f'', hf''⟩ : ∃ f'', f' - costKids (k :: ks') = f'' + 1 :=
        ⟨f' - costKids (k :: ks') - 1, by simp only [List.length_append] at hlen; omega⟩
      rw [hf'', parseNodes_end_close]
      simp only
      rw [parseName_append name (0x3E :: X) hname (stopsName_cons _ _ (by decide))]
      simp only [ne_eq, not_true_eq_false, if_false]
      rw [dropWhile_isSpace_cons _ _ (by decide)]
      simp only [List.append_nil, finish_reverse, foldr_piecesKids, cost, pieces, canonRawR, List.reverse_cons,
        List.reverse_nil, List.nil_append, List.cons_append, Nat.add_sub_cancel]
/-- … and the renderings of a list of siblings -/
theorem parse_kids : ∀ (ks : List Tree) (par : Option (Option HashTab)) (scope : Option Bytes) (f : Nat)
    (acc : List XNode) (X : Bytes), WfKids ks → (renderKids par ks ++ X).length < f →
    parseNodes f scope (renderKids par ks ++ X) acc =
      parseNodes (f - costKids ks) scope X ((piecesKids par scope ks).reverse ++ acc)
  | [], _, _, _, _, _, _, _ => by simp [renderKids, costKids, piecesKids]
  | k :: ks, par, scope, f, acc, X, hw, hf => by
    simp only [WfKids] at hw
    have hcl := cost_le par k hw.1
    simp only [renderKids, List.append_assoc, List.length_append] at hf
    rw [renderKids, List.append_assoc,
      parse_tree k par scope f acc _ hw.1 (by simp only [List.length_append]; omega),
      parse_kids ks par scope (f - cost k) _ X hw.2 (by simp only [List.length_append]; omega)]
    simp [costKids, piecesKids, Nat.sub_sub, List.reverse_append, List.append_assoc]
end


/-! ### the rendering is a sequence of XML characters -/

theorem legal_lit (b : UInt8) (rest : Bytes) (h1 : b < 128) (h2 : legalAscii b = true) :
    legalChars (b :: rest) = legalChars rest := by
  rw [legalChars_cons_lt _ _ h1, h2]; rfl

theorem legalChars_renderAttr (e : Entry) (h1 : legalChars e.1 = true) (h2 : legalChars e.2 = true) :
    legalChars (renderAttr e) = true := by
  unfold renderAttr
  simp only [List.cons_append, List.append_assoc]
  rw [legal_lit _ _ (by decide) (by decide), legalChars_append _ _ h1,
    legal_lit _ _ (by decide) (by decide), legal_lit _ _ (by decide) (by decide),
    legalChars_append _ _ (legalChars_escapeXml _ h2)]
  decide

theorem legalChars_flatMap_renderAttr : ∀ l : List Entry,
    (∀ e ∈ l, legalChars e.1 = true ∧ legalChars e.2 = true) → legalChars (l.flatMap renderAttr) = true
  | [], _ => legalChars_nil
  | e :: l, h => by
    rw [List.flatMap_cons]
    have he := h e (List.mem_cons_self ..)
    exact legalChars_append_true _ _ (legalChars_renderAttr e he.1 he.2)
      (legalChars_flatMap_renderAttr l fun e' h' => h e' (List.mem_cons_of_mem _ h'))

mutual
theorem legalChars_render : ∀ (t : Tree) (par : Option (Option HashTab)), WfTree t → legalChars (render par t) = true
  | .unknown _, _, hw => by simp [WfTree] at hw
  | .text d _, _, hw => by simp only [WfTree] at hw; simp only [render]; exact legalChars_escapeXml d hw.1
  | .tag name attrs ks, par, hw => by
    simp only [WfTree] at hw
    obtain ⟨_, hname, hattrs, hkids⟩ := hw
    have hA : legalChars ((shownAttrs par attrs).flatMap renderAttr) = true := by
      apply legalChars_flatMap_renderAttr
      intro e he
      cases attrs with
      | none => simp [shownAttrs] at he
      | some tab =>
        have := (hattrs tab rfl).2 e ((shown_sublist par tab).subset he)
        exact ⟨this.2.1, this.2.2.1⟩
    have hK := legalChars_renderKids ks (some attrs) hkids
    rw [render_tag]
    simp only [List.cons_append, List.append_assoc]
    rw [legal_lit _ _ (by decide) (by decide), legalChars_append _ _ hname, legalChars_append _ _ hA]
    unfold tagBody
    cases ks with
    | nil => simp only [List.isEmpty_nil, if_true]; decide
    | cons k ks' =>
      simp only [List.isEmpty_cons, Bool.false_eq_true, if_false, List.cons_append, List.append_assoc]
      rw [legal_lit _ _ (by decide) (by decide), legalChars_append _ _ hK,
        legal_lit _ _ (by decide) (by decide), legal_lit _ _ (by decide) (by decide),
        legalChars_append _ _ hname]
      decide
theorem legalChars_renderKids : ∀ (ks : List Tree) (par : Option (Option HashTab)), WfKids ks →
    legalChars (renderKids par ks) = true
  | [], _, _ => by simp only [renderKids]; exact legalChars_nil
  | k :: ks, par, hw => by
    simp only [WfKids] at hw
    simp only [renderKids]
    exact legalChars_append_true _ _ (legalChars_render k par hw.1) (legalChars_renderKids ks par hw.2)
end

/-! ### the document level -/

/-- the reader of `Spec/Xml.lean`, placed where the default namespace is `scope`, reads the rendering of a
    well-formed element back as the tree that rendering denotes (attributes still in iteration order) — no
    hypothesis on `scope` -/
theorem parseNodes_render (name : Bytes) (attrs : Option HashTab) (ks : List Tree) (par : Option (Option HashTab))
    (scope : Option Bytes) (hw : WfTree (.tag name attrs ks)) :
    parseNodes ((render par (.tag name attrs ks)).length + 1) scope (render par (.tag name attrs ks)) [] =
      some ([canonRawR par scope (.tag name attrs ks)], []) := by
  have h := parse_tree (.tag name attrs ks) par scope ((render par (.tag name attrs ks)).length + 1) [] [] hw
    (by simp)
  simp only [List.append_nil, cost, pieces, List.reverse_cons, List.reverse_nil, List.nil_append,
    Nat.add_sub_cancel] at h
  rw [h]
  have hpos : 1 ≤ (render par (.tag name attrs ks)).length := by rw [render_tag]; simp
  obtain ⟨n, hn⟩ : ∃ n, (render par (.tag name attrs ks)).length = n + 1 := ⟨_, (Nat.sub_add_cancel hpos).symm⟩
  rw [hn, parseNodes_end_nil]
  simp [finish, consNode, canonRawR]

theorem parseRaw_render_R (name : Bytes) (attrs : Option HashTab) (ks : List Tree) (par : Option (Option HashTab))
    (scope : Option Bytes) (hw : WfTree (.tag name attrs ks)) :
    parseRaw scope (render par (.tag name attrs ks)) = some (canonRawR par scope (.tag name attrs ks)) := by
  unfold parseRaw
  rw [legalChars_render _ par hw, if_pos rfl, parseNodes_render name attrs ks par scope hw]
  simp [canonRawR]

mutual
/-- where the reader's scope agrees with the declarations the renderer leaves out, the rendering denotes the
    canonical tree of the stanza tree itself -/
theorem canonRawR_eq : ∀ (t : Tree) (par : Option (Option HashTab)) (scope : Option Bytes),
    TabsWF t → Ctx par scope t → canonRawR par scope t = canonRaw scope t
  | .unknown _, _, _, _, _ => by simp [canonRawR, canonRaw]
  | .text d _, _, _, _, _ => by simp [canonRawR, canonRaw]
  | .tag name attrs ks, par, scope, hw, hc => by
    simp only [TabsWF] at hw
    have hns := scope_of_shown par scope name attrs ks hw.1 hc
    simp only [canonRawR, canonRaw, hns]
    rw [canonKidsRawR_eq ks attrs scope hw.2]
theorem canonKidsRawR_eq : ∀ (ks : List Tree) (attrs : Option HashTab) (scope : Option Bytes), TabsWFKids ks →
    canonKidsRawR (some attrs) (effNs scope attrs) ks = canonKidsRaw (effNs scope attrs) ks
  | [], _, _, _ => by simp [canonKidsRawR, canonKidsRaw]
  | k :: ks, attrs, scope, hw => by
    simp only [TabsWFKids] at hw
    simp only [canonKidsRawR, canonKidsRaw]
    rw [canonRawR_eq k (some attrs) (effNs scope attrs) hw.1 (ctx_kid attrs scope k),
      canonKidsRawR_eq ks attrs scope hw.2]
end

mutual
theorem wfTree_tabsWF : ∀ t : Tree, WfTree t → TabsWF t
  | .unknown _, h => by simp [WfTree] at h
  | .text d kk, h => by simp only [WfTree] at h; simp only [TabsWF]; exact h.2.2
  | .tag name attrs ks, h => by
    simp only [WfTree] at h
    simp only [TabsWF]
    exact ⟨fun tab e => (h.2.2.1 tab e).1, wfKids_tabsWF ks h.2.2.2⟩
theorem wfKids_tabsWF : ∀ ks : List Tree, WfKids ks → TabsWFKids ks
  | [], _ => by simp [TabsWFKids]
  | k :: ks, h => by
    simp only [WfKids] at h
    simp only [TabsWFKids]
    exact ⟨wfTree_tabsWF k h.1, wfKids_tabsWF ks h.2⟩
end

theorem parseRaw_render (name : Bytes) (attrs : Option HashTab) (ks : List Tree) (par : Option (Option HashTab))
    (scope : Option Bytes) (hw : WfTree (.tag name attrs ks)) (hc : Ctx par scope (.tag name attrs ks)) :
    parseRaw scope (render par (.tag name attrs ks)) = some (canonRaw scope (.tag name attrs ks)) := by
  rw [parseRaw_render_R name attrs ks par scope hw, canonRawR_eq _ par scope (wfTree_tabsWF _ hw) hc]

end Strophe.Stanza
