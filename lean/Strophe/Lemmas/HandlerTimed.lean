/-
C11 helper lemmas, part 5: `handler_fire_timed` (per-connection pass, context-wide pass), generic
invariant preservation of the loops, completeness of a pass ("due ⇒ fired unless deleted").
-/
import Strophe.Lemmas.HandlerFire

namespace Strophe.Lemmas.Handler
open Strophe Strophe.Handler Strophe.HandlerSpec

/-! ### invariants the callbacks cannot break are kept by every loop -/

theorem gloop_preserves (beh : Beh) (L : Cfg) (P : St → Prop)
    (hlog : ∀ st cnt log, P st → P (withLog st cnt log))
    (hact : ∀ st a, P st → P (applyAct st a))
    (hpre : ∀ st it, P st → P (L.pre st it))
    (hrem : ∀ st u, P st → P (L.set st (removeUid (L.get st) u))) :
    ∀ (fuel : Nat) (st : St) (suffix : List Item) (st' : St),
      P st → gloop beh L fuel st suffix = .ok st' → P st' := by
  have hacts : ∀ (acts : List Act) (st : St), P st → P (applyActs st acts) := by
    intro acts
    induction acts with
    | nil => intro st h; exact h
    | cons a r ih => intro st h; exact ih _ (hact st a h)
  intro fuel
  induction fuel with
  | zero =>
    intro st suffix st' hp h
    unfold gloop at h
    cases hf : suffix.find? (L.pred st.now) with
    | none => rw [hf] at h; injection h with h; exact h ▸ hp
    | some it => rw [hf] at h; cases h
  | succ fuel ih =>
    intro st suffix st' hp h
    unfold gloop at h
    cases hf : suffix.find? (L.pred st.now) with
    | none => rw [hf] at h; injection h with h; exact h ▸ hp
    | some it =>
      rw [hf] at h
      simp only [] at h
      have h1 : P (invoke beh (L.pre st it) L.cls L.conn it L.name).1 := by
        rw [invoke_eq]
        exact hacts _ _ (hlog _ _ _ (hpre _ _ hp))
      cases ha : after (L.get (invoke beh (L.pre st it) L.cls L.conn it L.name).1) it.uid with
      | none => rw [ha] at h; cases h
      | some rest =>
        rw [ha] at h
        simp only [] at h
        refine ih _ rest st' ?_ h
        split
        · exact h1
        · exact hrem _ _ h1

/-! ### a pass is complete -/

/-- an item of the snapshot whose test holds from now on is invoked, unless a callback invoked
    before its turn deleted its callback function -/
theorem gwalk_complete (beh : Beh) (L : Cfg) :
    ∀ (cands : List Item) (cnt : Key → Nat) (now : Nat) (D : List Nat) (x : Item),
      x ∈ cands → x.fn ∉ D → (∀ t, now ≤ t → L.pred t x = true) →
      (∃ f ∈ gwalk beh L cnt now D cands, f.item = x) ∨
      (∃ f ∈ gwalk beh L cnt now D cands, x.fn ∈ L.delsOf f.step.acts) := by
  intro cands
  induction cands with
  | nil => intro cnt now D x hx; cases hx
  | cons it rest ih =>
    intro cnt now D x hx hD hp
    by_cases hc : it.fn ∈ D ∨ L.pred now it = false
    · rw [gwalk_skip _ _ _ _ _ _ _ hc]
      rcases List.mem_cons.mp hx with rfl | hx
      · rcases hc with hc | hc
        · exact absurd hc hD
        · rw [hp now (Nat.le_refl _)] at hc; cases hc
      · exact ih cnt now D x hx hD hp
    · have h1 : it.fn ∉ D := fun h' => hc (Or.inl h')
      have h2 : L.pred now it = true := by
        cases hq : L.pred now it with
        | true => rfl
        | false => exact absurd (Or.inr hq) hc
      rw [gwalk_fire _ _ _ _ _ _ _ h1 h2]
      rcases List.mem_cons.mp hx with rfl | hx
      · exact Or.inl ⟨_, List.mem_cons_self, rfl⟩
      · by_cases hd : x.fn ∈ L.delsOf (beh it.key (cnt it.key)).acts
        · exact Or.inr ⟨_, List.mem_cons_self, hd⟩
        · have hD' : x.fn ∉ D ++ L.delsOf (beh it.key (cnt it.key)).acts := by
            simp [hD, hd]
          rcases ih _ _ _ x hx hD' (fun t ht => hp t (Nat.le_trans (Nat.le_add_right _ _) ht)) with
            ⟨f, hf, e⟩ | ⟨f, hf, e⟩
          · exact Or.inl ⟨f, List.mem_cons_of_mem _ hf, e⟩
          · exact Or.inr ⟨f, List.mem_cons_of_mem _ hf, e⟩

/-! ### one connection's pass -/

def stEnT (st : St) (c : Nat) : St := updConn st c fun cn => { cn with timed := enableAll cn.timed }

theorem stEnT_wf {st : St} (w : WF st) (c : Nat) : WF (stEnT st c) := by
  unfold stEnT
  apply WF.updc' w c
  · exact w.h c
  · intro id; exact w.i c id
  · exact (w.t c).of_maps (enableAll_uid _) (enableAll_key _)

/-- the pass over the timed handlers of connection `c` as they are when its turn comes -/
def walkT (beh : Beh) (st : St) (c : Nat) : List Fired :=
  gwalk beh (cfgT c (st.conns c).negotiated) st.cnt st.now [] (enableAll (st.conns c).timed)

theorem fireTimedConn_disconnected (beh : Beh) (st : St) (c : Nat) (h : (st.conns c).connected = false) :
    fireTimedConn beh st c = .ok st := by
  simp [fireTimedConn, h]

theorem fireTimedConn_connected (beh : Beh) (st : St) (c : Nat) (h : (st.conns c).connected = true) :
    fireTimedConn beh st c =
      timedLoop beh c ((stEnT st c).conns c).timed.length (stEnT st c) ((stEnT st c).conns c).timed := by
  simp [fireTimedConn, h, stEnT]

theorem fireTimedConn_spec (beh : Beh) (st : St) (c : Nat) (w : WF st) (h : (st.conns c).connected = true) :
    Post (cfgT c (st.conns c).negotiated) (stEnT st c) (walkT beh st c) (fireTimedConn beh st c) := by
  generalize hneg : (st.conns c).negotiated = neg
  have wA := stEnT_wf w c
  have hnegA : ((stEnT st c).conns c).negotiated = neg := by simp [stEnT, hneg]
  have hT : ((stEnT st c).conns c).timed = enableAll (st.conns c).timed := by simp [stEnT]
  rw [fireTimedConn_connected _ _ _ h, timedLoop_eq beh c neg _ _ _ hnegA, hT]
  have sp := gloop_spec beh (cfgT_ok c neg) (enableAll (st.conns c).timed) (enableAll (st.conns c).timed).length
    (stEnT st c) [] [] [] wA hnegA (List.length_filter_le _ _)
    (by show ((stEnT st c).conns c).timed = _; rw [hT, filter_nil_dels]; simp) (by simp)
  simp only [filter_nil_dels, List.append_nil] at sp
  have hW : walkT beh st c = gwalk beh (cfgT c neg) (stEnT st c).cnt (stEnT st c).now [] (enableAll (st.conns c).timed) := by
    simp [walkT, hneg, stEnT]
  rw [hW]; exact sp

/-! ### the context-wide pass -/

def walkG (beh : Beh) (st : St) : List Fired := gwalk beh cfgG st.cnt st.now [] st.gtimed

theorem globalLoop_spec (beh : Beh) (st : St) (w : WF st) :
    Post cfgG st (walkG beh st) (globalLoop beh st.gtimed.length st st.gtimed) := by
  rw [globalLoop_eq]
  have sp := gloop_spec beh cfgG_ok st.gtimed st.gtimed.length st [] [] [] w trivial (List.length_filter_le _ _)
    (by show st.gtimed = _; rw [filter_nil_dels]; simp) (by simp)
  simp only [filter_nil_dels, List.append_nil] at sp
  exact sp

end Strophe.Lemmas.Handler
