/-
C11 helper lemmas, part 5: `handler_fire_timed` (per-connection pass, context-wide pass), generic
invariant preservation of the loops, completeness of a pass ("due ⇒ fired unless deleted").
-/
import Strophe.Lemmas.HandlerFire

namespace Strophe.Lemmas.Handler
open Strophe Strophe.Handler Strophe.HandlerSpec

/-! ### invariants the callbacks cannot break are kept by every loop -/

theorem gloop_preserves (beh : Beh) (L : Cfg) (P : St → Prop)
    (hlog : ∀ st cnt log, P st → P (withLog st cnt log))
    (hact : ∀ st a, P st → P (applyAct st a))
    (hpre : ∀ st it, P st → P (L.pre st it))
    (hrem : ∀ st u, P st → P (L.set st (removeUid (L.get st) u))) :
    ∀ (fuel : Nat) (st : St) (suffix : List Item) (st' : St),
      P st → gloop beh L fuel st suffix = .ok st' → P st' := by
  have hacts : ∀ (acts : List Act) (st : St), P st → P (applyActs st acts) := by
    intro acts
    induction acts with
    | nil => intro st h; exact h
    | cons a r ih => intro st h; exact ih _ (hact st a h)
  intro fuel
  induction fuel with
  | zero =>
    intro st suffix st' hp h
    unfold gloop at h
    cases hf : suffix.find? (L.pred st.now) with
    | none => rw [hf] at h; injection h with h; exact h ▸ hp
    | some it => rw [hf] at h; cases h
  | succ fuel ih =>
    intro st suffix st' hp h
    unfold gloop at h
    cases hf : suffix.find? (L.pred st.now) with
    | none => rw [hf] at h; injection h with h; exact h ▸ hp
    | some it =>
      rw [hf] at h
      simp only [] at h
      have h1 : P (invoke beh (L.pre st it) L.cls L.conn it L.name).1 := by
        rw [invoke_eq]
        exact hacts _ _ (hlog _ _ _ (hpre _ _ hp))
      cases ha : after (L.get (invoke beh (L.pre st it) L.cls L.conn it L.name).1) it.uid with
      | none => rw [ha] at h; cases h
      | some rest =>
        rw [ha] at h
        simp only [] at h
        refine ih _ rest st' ?_ h
        split
        · exact h1
        · exact hrem _ _ h1

/-! ### a pass is complete -/

/-- an item of the snapshot whose test holds from now on is invoked, unless a callback invoked
    before its turn deleted its callback function -/
theorem gwalk_complete (beh : Beh) (L : Cfg) :
    ∀ (cands : List Item) (cnt : Key → Nat) (now : Nat) (D : List Nat) (x : Item),
      x ∈ cands → x.fn ∉ D → (∀ t, now ≤ t → L.pred t x = true) →
      (∃ f ∈ gwalk beh L cnt now D cands, f.item = x) ∨
      (∃ f ∈ gwalk beh L cnt now D cands, x.fn ∈ L.delsOf f.step.acts) := by
  intro cands
  induction cands with
  | nil => intro cnt now D x hx; cases hx
  | cons it rest ih =>
    intro cnt now D x hx hD hp
    by_cases hc : it.fn ∈ D ∨ L.pred now it = false
    · rw [gwalk_skip _ _ _ _ _ _ _ hc]
      rcases List.mem_cons.mp hx with rfl | hx
      · rcases hc with hc | hc
        · exact absurd hc hD
        · rw [hp now (Nat.le_refl _)] at hc; cases hc
      · exact ih cnt now D x hx hD hp
    · have h1 : it.fn ∉ D := fun h' => hc (Or.inl h')
      have h2 : L.pred now it = true := by
        cases hq : L.pred now it with
        | true => rfl
        | false => exact absurd (Or.inr hq) hc
      rw [gwalk_fire _ _ _ _ _ _ _ h1 h2]
      rcases List.mem_cons.mp hx with rfl | hx
      · exact Or.inl ⟨_, List.mem_cons_self, rfl⟩
      · by_cases hd : x.fn ∈ L.delsOf (beh it.key (cnt it.key)).acts
        · exact Or.inr ⟨_, List.mem_cons_self, hd⟩
        · have hD' : x.fn ∉ D ++ L.delsOf (beh it.key (cnt it.key)).acts := by
            simp [hD, hd]
          rcases ih _ _ _ x hx hD' (fun t ht => hp t (Nat.le_trans (Nat.le_add_right _ _) ht)) with
            ⟨f, hf, e⟩ | ⟨f, hf, e⟩
          · exact Or.inl ⟨f, List.mem_cons_of_mem _ hf, e⟩
          · exact Or.inr ⟨f, List.mem_cons_of_mem _ hf, e⟩

/-! ### one connection's pass -/

def stEnT (st : St) (c : Nat) : St := updConn st c fun cn => { cn with timed := enableAll cn.timed }

theorem stEnT_wf {st : St} (w : WF st) (c : Nat) : WF (stEnT st c) := by
  unfold stEnT
  apply WF.updc' w c
  · exact w.h c
  · intro id; exact w.i c id
  · exact (w.t c).of_maps (enableAll_uid _) (enableAll_key _)

/-- the pass over the timed handlers of connection `c` as they are when its turn comes -/
def walkT (beh : Beh) (st : St) (c : Nat) : List Fired :=
  gwalk beh (cfgT c (st.conns c).negotiated) st.cnt st.now [] (enableAll (st.conns c).timed)

theorem fireTimedConn_disconnected (beh : Beh) (st : St) (c : Nat) (h : (st.conns c).connected = false) :
    fireTimedConn beh st c = .ok st := by
  simp [fireTimedConn, h]

theorem fireTimedConn_connected (beh : Beh) (st : St) (c : Nat) (h : (st.conns c).connected = true) :
    fireTimedConn beh st c =
      timedLoop beh c ((stEnT st c).conns c).timed.length (stEnT st c) ((stEnT st c).conns c).timed := by
  simp [fireTimedConn, h, stEnT]

theorem fireTimedConn_spec (beh : Beh) (st : St) (c : Nat) (w : WF st) (h : (st.conns c).connected = true) :
    Post (cfgT c (st.conns c).negotiated) (stEnT st c) (walkT beh st c) (fireTimedConn beh st c) := by
  generalize hneg : (st.conns c).negotiated = neg
  have wA := stEnT_wf w c
  have hnegA : ((stEnT st c).conns c).negotiated = neg := by simp [stEnT, hneg]
  have hT : ((stEnT st c).conns c).timed = enableAll (st.conns c).timed := by simp [stEnT]
  rw [fireTimedConn_connected _ _ _ h, timedLoop_eq beh c neg _ _ _ hnegA, hT]
  have sp := gloop_spec beh (cfgT_ok c neg) (enableAll (st.conns c).timed) (enableAll (st.conns c).timed).length
    (stEnT st c) [] [] [] wA hnegA (List.length_filter_le _ _)
    (by show ((stEnT st c).conns c).timed = _; rw [hT, filter_nil_dels]; simp) (by simp)
  simp only [filter_nil_dels, List.append_nil] at sp
  have hW : walkT beh st c = gwalk beh (cfgT c neg) (stEnT st c).cnt (stEnT st c).now [] (enableAll (st.conns c).timed) := by
    simp [walkT, hneg, stEnT]
  rw [hW]; exact sp

/-! ### the context-wide pass -/

def walkG (beh : Beh) (st : St) : List Fired := gwalk beh cfgG st.cnt st.now [] st.gtimed

theorem globalLoop_spec (beh : Beh) (st : St) (w : WF st) :
    Post cfgG st (walkG beh st) (globalLoop beh st.gtimed.length st st.gtimed) := by
  rw [globalLoop_eq]
  have sp := gloop_spec beh cfgG_ok st.gtimed st.gtimed.length st [] [] [] w trivial (List.length_filter_le _ _)
    (by show st.gtimed = _; rw [filter_nil_dels]; simp) (by simp)
  simp only [filter_nil_dels, List.append_nil] at sp
  exact sp

/-! ### due ⇒ fired -/

theorem delsT_exact {c fn : Nat} {a : Act} (h : fn ∈ delsT c a) : a = .delTimed c fn := by
  cases a <;> simp only [delsT] at h <;> try (cases h)
  split at h
  · simp at h; subst h; rename_i hc; subst hc; rfl
  · cases h

theorem delsG_exact {fn : Nat} {a : Act} (h : fn ∈ delsG a) : a = .delGlobal fn := by
  cases a <;> simp_all [delsG]

theorem due_mono {now t : Nat} {it : Item} (h : due now it = true) (ht : now ≤ t) : due t it = true := by
  simp only [due, decide_eq_true_eq] at *
  exact Nat.le_trans h (Nat.sub_le_sub_right ht _)

theorem mem_delsOf' {L : Cfg} {fn : Nat} {acts : List Act} (h : fn ∈ L.delsOf acts) : ∃ a ∈ acts, fn ∈ L.dels a := by
  simpa [Cfg.delsOf] using h

/-- a connection's timed handler that is due when the connection's turn comes (connected; user
    handlers: negotiated) is invoked in this pass, unless a callback invoked earlier in the pass
    deleted its callback function -/
theorem timed_due_fires (beh : Beh) (st : St) (c : Nat) (w : WF st) (it : Item)
    (hit : it ∈ (st.conns c).timed) (hc : (st.conns c).connected = true)
    (hg : it.user = true → (st.conns c).negotiated = true) (hd : st.now - it.last ≥ it.period)
    (st' : St) (h : fireTimedConn beh st c = .ok st') :
    ∃ L, st'.log = st.log ++ L ∧
      ((∃ v ∈ L, v.uid = it.uid ∧ v.cls = .timed ∧ v.conn = c ∧ st.now ≤ v.time) ∨
       (∃ v ∈ L, ∃ n, Act.delTimed c it.fn ∈ (beh ⟨v.fn, v.ud⟩ n).acts)) := by
  have sp := fireTimedConn_spec beh st c w hc
  rw [h] at sp
  obtain ⟨hlog, _⟩ := sp
  refine ⟨_, hlog, ?_⟩
  have hx : ({ it with enabled := true } : Item) ∈ enableAll (st.conns c).timed :=
    List.mem_map.mpr ⟨it, hit, rfl⟩
  have hp : ∀ t, st.now ≤ t → (cfgT c (st.conns c).negotiated).pred t { it with enabled := true } = true := by
    intro t ht
    show (gateOpen _ { it with enabled := true } && due t { it with enabled := true }) = true
    rw [Bool.and_eq_true]
    refine ⟨(gateOpen_enabled_iff _ it).mpr hg, due_mono ?_ ht⟩
    simpa [due] using hd
  rcases gwalk_complete beh (cfgT c (st.conns c).negotiated) _ st.cnt st.now [] _ hx (by simp) hp with
    ⟨f, hf, e⟩ | ⟨f, hf, e⟩
  · left
    obtain ⟨_, _, _, ht⟩ := gwalk_mem _ _ _ _ _ _ _ hf
    exact ⟨_, List.mem_map.mpr ⟨f, hf, rfl⟩, by simp [Cfg.toInv, e], rfl, rfl, ht⟩
  · right
    obtain ⟨_, ⟨n, hn⟩, _, _⟩ := gwalk_mem _ _ _ _ _ _ _ hf
    obtain ⟨a, ha, hfa⟩ := mem_delsOf' e
    have := delsT_exact hfa
    subst this
    exact ⟨_, List.mem_map.mpr ⟨f, hf, rfl⟩, n, by rw [hn] at ha; exact ha⟩

/-- a context-wide timed handler that is due when the context-wide pass starts is invoked in it,
    whatever the state of any connection, unless a callback invoked earlier in the pass deleted its
    callback function -/
theorem global_due_fires (beh : Beh) (st : St) (w : WF st) (it : Item)
    (hit : it ∈ st.gtimed) (hd : st.now - it.last ≥ it.period)
    (st' : St) (h : globalLoop beh st.gtimed.length st st.gtimed = .ok st') :
    ∃ L, st'.log = st.log ++ L ∧
      ((∃ v ∈ L, v.uid = it.uid ∧ v.cls = .global ∧ st.now ≤ v.time) ∨
       (∃ v ∈ L, ∃ n, Act.delGlobal it.fn ∈ (beh ⟨v.fn, v.ud⟩ n).acts)) := by
  have sp := globalLoop_spec beh st w
  rw [h] at sp
  obtain ⟨hlog, _⟩ := sp
  refine ⟨_, hlog, ?_⟩
  have hp : ∀ t, st.now ≤ t → cfgG.pred t it = true := by
    intro t ht
    show due t it = true
    exact due_mono (by simpa [due] using hd) ht
  rcases gwalk_complete beh cfgG _ st.cnt st.now [] _ hit (by simp) hp with ⟨f, hf, e⟩ | ⟨f, hf, e⟩
  · left
    obtain ⟨_, _, _, ht⟩ := gwalk_mem _ _ _ _ _ _ _ hf
    exact ⟨_, List.mem_map.mpr ⟨f, hf, rfl⟩, by simp [Cfg.toInv, e], rfl, ht⟩
  · right
    obtain ⟨_, ⟨n, hn⟩, _, _⟩ := gwalk_mem _ _ _ _ _ _ _ hf
    obtain ⟨a, ha, hfa⟩ := mem_delsOf' e
    have := delsG_exact hfa
    subst this
    exact ⟨_, List.mem_map.mpr ⟨f, hf, rfl⟩, n, by rw [hn] at ha; exact ha⟩

end Strophe.Lemmas.Handler
