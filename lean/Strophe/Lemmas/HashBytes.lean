/-
C17 helper lemmas, part 2: machine words vs. the specification's arithmetic byte encodings,
and the two-word bit counter of SHA-1 / MD5.
-/
import Strophe.Lemmas.HashCommon

namespace Strophe.Hash
open Strophe Spec.Hash

theorem u8_eq {a : UInt8} {n : Nat} (h : a.toNat = n % 256) : a = UInt8.ofNat n := by
  apply UInt8.toNat_inj.mp
  rw [h, UInt8.toNat_ofNat']

theorem byte32 (x : UInt32) (s : UInt32) (k : Nat) (hs : s.toNat = 8 * k) (hk : k < 4) :
    (x >>> s).toUInt8 = UInt8.ofNat (x.toNat / 256 ^ k % 256) := by
  apply u8_eq
  rw [UInt32.toNat_toUInt8, UInt32.toNat_shiftRight, hs, Nat.shiftRight_eq_div_pow,
    Nat.mod_eq_of_lt (by omega : 8 * k < 32), Nat.pow_mul]
  simp

theorem byte64 (x : UInt64) (s : UInt64) (k : Nat) (hs : s.toNat = 8 * k) (hk : k < 8) :
    (x >>> s).toUInt8 = UInt8.ofNat (x.toNat / 256 ^ k % 256) := by
  apply u8_eq
  rw [UInt64.toNat_toUInt8, UInt64.toNat_shiftRight, hs, Nat.shiftRight_eq_div_pow,
    Nat.mod_eq_of_lt (by omega : 8 * k < 64), Nat.pow_mul]
  simp

/-- the `& 255` of sha1.c before the conversion to a byte is redundant -/
theorem mask255 (y : UInt32) : (y &&& 255).toUInt8 = y.toUInt8 := by
  apply UInt8.toNat_inj.mp
  rw [UInt32.toNat_toUInt8, UInt32.toNat_toUInt8, UInt32.toNat_and]
  have : (255 : UInt32).toNat = 2 ^ 8 - 1 := by decide
  rw [this, Nat.and_two_pow_sub_one_eq_mod, Nat.mod_mod]

theorem byte32_0 (x : UInt32) : x.toUInt8 = UInt8.ofNat (x.toNat / 256 ^ 0 % 256) := by
  apply u8_eq; simp

theorem byte64_0 (x : UInt64) : x.toUInt8 = UInt8.ofNat (x.toNat / 256 ^ 0 % 256) := by
  apply u8_eq; simp

theorem store32H_eq (x : UInt32) : store32H x = beBytes 4 x.toNat := by
  simp only [store32H, beBytes]
  rw [byte32 x 24 3 (by decide) (by decide), byte32 x 16 2 (by decide) (by decide),
    byte32 x 8 1 (by decide) (by decide), byte32_0 x]

theorem store64H_eq (x : UInt64) : store64H x = beBytes 8 x.toNat := by
  simp only [store64H, beBytes]
  rw [byte64 x 56 7 (by decide) (by decide), byte64 x 48 6 (by decide) (by decide),
    byte64 x 40 5 (by decide) (by decide), byte64 x 32 4 (by decide) (by decide),
    byte64 x 24 3 (by decide) (by decide), byte64 x 16 2 (by decide) (by decide),
    byte64 x 8 1 (by decide) (by decide), byte64_0 x]

theorem ofNat_congr {a b : Nat} (h : a % 256 = b % 256) : UInt8.ofNat a = UInt8.ofNat b := by
  apply UInt8.toNat_inj.mp; simp [UInt8.toNat_ofNat', h]

theorem store32L_eq (x : UInt32) : store32L x = leBytes 4 x.toNat := by
  simp only [store32L, leBytes]
  rw [byte32 x 24 3 (by decide) (by decide), byte32 x 16 2 (by decide) (by decide),
    byte32 x 8 1 (by decide) (by decide), byte32_0 x]
  have e0 : UInt8.ofNat (x.toNat / 256 ^ 0 % 256) = UInt8.ofNat (x.toNat % 256) :=
    ofNat_congr (by omega)
  have e1 : UInt8.ofNat (x.toNat / 256 ^ 1 % 256) = UInt8.ofNat (x.toNat / 256 % 256) :=
    ofNat_congr (by omega)
  have e2 : UInt8.ofNat (x.toNat / 256 ^ 2 % 256) = UInt8.ofNat (x.toNat / 256 / 256 % 256) :=
    ofNat_congr (by omega)
  have e3 : UInt8.ofNat (x.toNat / 256 ^ 3 % 256) = UInt8.ofNat (x.toNat / 256 / 256 / 256 % 256) :=
    ofNat_congr (by omega)
  rw [e0, e1, e2, e3]

theorem beBytes_length (w v : Nat) : (beBytes w v).length = w := by
  induction w with
  | zero => rfl
  | succ w ih => simp [beBytes, ih]

theorem leBytes_length (w v : Nat) : (leBytes w v).length = w := by
  induction w generalizing v with
  | zero => rfl
  | succ w ih => simp [leBytes, ih]

/-- a 64-bit big-endian field is the two 32-bit halves, high word first -/
theorem beBytes8_split (v : Nat) :
    beBytes 8 v = beBytes 4 (v / 2 ^ 32 % 2 ^ 32) ++ beBytes 4 (v % 2 ^ 32) := by
  simp only [beBytes, List.cons_append, List.nil_append]
  congr 1; · apply ofNat_congr; omega
  congr 1; · apply ofNat_congr; omega
  congr 1; · apply ofNat_congr; omega
  congr 1; · apply ofNat_congr; omega
  congr 1; · apply ofNat_congr; omega
  congr 1; · apply ofNat_congr; omega
  congr 1; · apply ofNat_congr; omega
  congr 1; · apply ofNat_congr; omega

theorem leBytes8_split (v : Nat) :
    leBytes 8 v = leBytes 4 (v % 2 ^ 32) ++ leBytes 4 (v / 2 ^ 32 % 2 ^ 32) := by
  simp only [leBytes, List.cons_append, List.nil_append]
  congr 1; · apply ofNat_congr; omega
  congr 1; · apply ofNat_congr; omega
  congr 1; · apply ofNat_congr; omega
  congr 1; · apply ofNat_congr; omega
  congr 1; · apply ofNat_congr; omega
  congr 1; · apply ofNat_congr; omega
  congr 1; · apply ofNat_congr; omega
  congr 1; · apply ofNat_congr; omega

/-- FIPS 180-4 §5.1.2: a 128-bit length field whose value fits 64 bits -/
theorem beBytes16_of_lt (v : Nat) (h : v < 2 ^ 64) : beBytes 16 v = Spec.Hash.zeros 8 ++ beBytes 8 v := by
  have z : ∀ k, 8 ≤ k → k < 16 → UInt8.ofNat (v / 256 ^ k % 256) = 0 := by
    intro k h1 h2
    have : v / 256 ^ k = 0 := by
      apply Nat.div_eq_of_lt
      calc v < 2 ^ 64 := h
        _ = 256 ^ 8 := by decide
        _ ≤ 256 ^ k := Nat.pow_le_pow_right (by decide) h1
    simp [this]
  simp only [beBytes, Spec.Hash.zeros, List.replicate, List.cons_append, List.nil_append]
  rw [z 15 (by decide) (by decide), z 14 (by decide) (by decide), z 13 (by decide) (by decide),
    z 12 (by decide) (by decide), z 11 (by decide) (by decide), z 10 (by decide) (by decide),
    z 9 (by decide) (by decide), z 8 (by decide) (by decide)]

/-! ### the bit counter `count[1]:count[0]` (SHA-1) / `bits[1]:bits[0]` (MD5) -/

/-- the pair of 32-bit words holds `8 * n mod 2^64`, low word first -/
def Count32 (c0 c1 : UInt32) (n : Nat) : Prop :=
  c0.toNat = 8 * n % 2 ^ 32 ∧ c1.toNat = 8 * n / 2 ^ 32 % 2 ^ 32

theorem Count32.value {c0 c1 : UInt32} {n : Nat} (h : Count32 c0 c1 n) :
    c1.toNat * 2 ^ 32 + c0.toNat = 8 * n % 2 ^ 64 := by
  obtain ⟨h0, h1⟩ := h; omega

theorem count32_zero : Count32 0 0 0 := by constructor <;> decide

theorem shl3_toNat (len : Nat) : (UInt32.ofNat len <<< 3).toNat = 8 * len % 2 ^ 32 := by
  rw [UInt32.toNat_shiftLeft, UInt32.toNat_ofNat', Nat.shiftLeft_eq]
  have : (3 : UInt32).toNat % 32 = 3 := by decide
  rw [this]; omega

/-- `j = (count[0] >> 3) & 63` is the number of buffered bytes -/
theorem count_index {c0 c1 : UInt32} {n : Nat} (h : Count32 c0 c1 n) :
    ((c0 >>> 3) &&& 63).toNat = n % 64 := by
  rw [UInt32.toNat_and, UInt32.toNat_shiftRight, h.1]
  have e1 : (3 : UInt32).toNat % 32 = 3 := by decide
  have e2 : (63 : UInt32).toNat = 2 ^ 6 - 1 := by decide
  rw [e1, e2, Nat.and_two_pow_sub_one_eq_mod, Nat.shiftRight_eq_div_pow]
  omega

/-- SHA-1: `if ((count[0] += (uint32_t)len << 3) < ((uint32_t)len << 3)) count[1]++;
    count[1] += (uint32_t)(len >> 29);` -/
theorem count32_step_sha1 {c0 c1 : UInt32} {n : Nat} (h : Count32 c0 c1 n) (len : Nat) :
    Count32 (c0 + (UInt32.ofNat len <<< 3))
      ((if c0 + (UInt32.ofNat len <<< 3) < (UInt32.ofNat len <<< 3) then c1 + 1 else c1)
        + UInt32.ofNat (len >>> 29)) (n + len) := by
  obtain ⟨h0, h1⟩ := h
  have hl := shl3_toNat len
  have hc0 : (c0 + (UInt32.ofNat len <<< 3)).toNat = 8 * (n + len) % 2 ^ 32 := by
    rw [UInt32.toNat_add, hl, h0]; omega
  refine ⟨hc0, ?_⟩
  rw [UInt32.toNat_add, UInt32.toNat_ofNat', Nat.shiftRight_eq_div_pow]
  split
  · rename_i hlt
    rw [UInt32.lt_iff_toNat_lt, hc0, hl] at hlt
    rw [UInt32.toNat_add, h1]
    have : (1 : UInt32).toNat = 1 := by decide
    rw [this]; omega
  · rename_i hlt
    rw [UInt32.lt_iff_toNat_lt, hc0, hl] at hlt
    rw [h1]; omega

/-- MD5: `t = bits[0]; if ((bits[0] = (t + ((uint32_t)len << 3)) & 0xffffffff) < t) bits[1]++;
    bits[1] += len >> 29;` with `len` a `uint32_t` -/
theorem count32_step_md5 {c0 c1 : UInt32} {n : Nat} (h : Count32 c0 c1 n) (len : Nat)
    (hlen : len < 2 ^ 32) :
    Count32 ((c0 + (UInt32.ofNat len <<< 3)) &&& 0xffffffff)
      ((if (c0 + (UInt32.ofNat len <<< 3)) &&& 0xffffffff < c0 then c1 + 1 else c1)
        + (UInt32.ofNat len >>> 29)) (n + len) := by
  obtain ⟨h0, h1⟩ := h
  have hl := shl3_toNat len
  have hm : ∀ x : UInt32, x &&& 0xffffffff = x := by
    intro x; apply UInt32.toNat_inj.mp
    rw [UInt32.toNat_and]
    have : (0xffffffff : UInt32).toNat = 2 ^ 32 - 1 := by decide
    rw [this, Nat.and_two_pow_sub_one_eq_mod]
    exact Nat.mod_eq_of_lt x.toNat_lt
  rw [hm]
  have hc0 : (c0 + (UInt32.ofNat len <<< 3)).toNat = 8 * (n + len) % 2 ^ 32 := by
    rw [UInt32.toNat_add, hl, h0]; omega
  refine ⟨hc0, ?_⟩
  have hs : (UInt32.ofNat len >>> 29).toNat = len / 2 ^ 29 := by
    rw [UInt32.toNat_shiftRight, UInt32.toNat_ofNat', Nat.shiftRight_eq_div_pow,
      Nat.mod_eq_of_lt hlen]
    have : (29 : UInt32).toNat % 32 = 29 := by decide
    rw [this]
  rw [UInt32.toNat_add, hs]
  split
  · rename_i hlt
    rw [UInt32.lt_iff_toNat_lt, hc0, h0] at hlt
    rw [UInt32.toNat_add, h1]
    have : (1 : UInt32).toNat = 1 := by decide
    rw [this]; omega
  · rename_i hlt
    rw [UInt32.lt_iff_toNat_lt, hc0, h0] at hlt
    rw [h1]; omega

end Strophe.Hash
