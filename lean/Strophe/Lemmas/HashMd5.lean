/-
C17 helper lemmas, part 5: src/md5.c.  `MD5Update` refines the generic block fold, the bit
counter is exact, `MD5Final` writes the RFC 1321 padding in place.
-/
import Strophe.Lemmas.HashBytes

namespace Strophe.Hash.Md5
open Strophe Strophe.Hash Spec.Hash

/-- the context represents "state `st`, pending bytes `pend`, `n` bytes absorbed so far" -/
structure Inv (ctx : Ctx) (st : State) (pend : Bytes) (n : Nat) : Prop where
  state : ctx.buf = st
  buf : HasPrefix 64 ctx.inp pend
  plen : pend.length = n % 64
  count : Count32 ctx.bits0 ctx.bits1 n

theorem init_inv : Inv init iv [] 0 :=
  ⟨rfl, HasPrefix.nil (by simp [init, zeros]), rfl, count32_zero⟩

/-- the `while (len >= 64)` loop, which copies each block into `ctx->in` first, computes
    the same states as transforming the blocks in place; `ctx->in` stays a 64-byte array -/
theorem foldBlocks_loopBody (k : Nat) (st : State) (inp0 d : Bytes) (h0 : inp0.length = 64)
    (hk : k * 64 ≤ d.length) :
    (foldBlocks 64 loopBody k (st, inp0) d).1.1 = (foldBlocks 64 transform k st d).1 ∧
    (foldBlocks 64 loopBody k (st, inp0) d).2 = (foldBlocks 64 transform k st d).2 ∧
    (foldBlocks 64 loopBody k (st, inp0) d).1.2.length = 64 := by
  induction k generalizing st inp0 d with
  | zero => exact ⟨rfl, rfl, h0⟩
  | succ k ih =>
    have hb : (d.take 64).length = 64 := by simp [List.length_take]; omega
    have hm : memcpy inp0 0 (d.take 64) = d.take 64 :=
      HasPrefix.full (HasPrefix.memcpy0 _ h0 (by omega)) hb
    simp only [foldBlocks, loopBody, hm]
    exact ih _ _ _ hb (by simp [List.length_drop]; omega)

/-- `MD5Update` = absorb `pend ++ data` with the generic block fold -/
theorem update_inv {ctx : Ctx} {st : State} {pend : Bytes} {n : Nat} (h : Inv ctx st pend n)
    (data : Bytes) (hlen : data.length < 2 ^ 32) :
    Inv (update ctx data) (blocksFold 64 transform st (pend ++ data)).1
      (blocksFold 64 transform st (pend ++ data)).2 (n + data.length) := by
  obtain ⟨hst, hbuf, hpl, hcnt⟩ := h
  subst hst
  have hj : ((ctx.bits0 >>> 3) &&& 0x3f).toNat = pend.length := by rw [count_index hcnt, hpl]
  have hp64 : pend.length < 64 := by rw [hpl]; exact Nat.mod_lt _ (by decide)
  have hcnt' := count32_step_md5 hcnt data.length hlen
  have hlen' : (blocksFold 64 transform ctx.buf (pend ++ data)).2.length = (n + data.length) % 64 := by
    rw [blocksFold_snd_length (by decide), List.length_append, hpl]; omega
  unfold update
  simp only [hj]
  by_cases h1 : pend.length ≠ 0 ∧ data.length < 64 - pend.length
  · rw [if_pos h1]
    rw [blocksFold_lt transform ctx.buf (d := pend ++ data) (by simp; omega)] at hlen' ⊢
    exact ⟨rfl, hbuf.memcpy data (by omega), hlen', hcnt'⟩
  · rw [if_neg h1]
    by_cases ht : pend.length ≠ 0
    · have hge : 64 ≤ pend.length + data.length := by omega
      simp only [ht, ne_eq, not_false_eq_true, if_true]
      have hfull : memcpy ctx.inp pend.length (data.take (64 - pend.length))
          = pend ++ data.take (64 - pend.length) := by
        apply HasPrefix.full (hbuf.memcpy _ (by simp [List.length_take]; omega))
        simp [List.length_take]; omega
      rw [hfull]
      have hl := foldBlocks_loopBody ((data.length - (64 - pend.length)) / 64)
        (transform ctx.buf (pend ++ data.take (64 - pend.length)))
        (pend ++ data.take (64 - pend.length)) (data.drop (64 - pend.length))
        (by simp [List.length_take]; omega)
        (by simp only [List.length_drop]; exact Nat.div_mul_le_self _ _)
      rw [foldBlocks_eq_blocksFold 64 transform _ _ _ (by simp [List.length_drop])] at hl
      obtain ⟨hl1, hl2, hl3⟩ := hl
      rw [hl1, hl2, blocksFold_pend (by decide) transform ctx.buf pend data (by omega) (by omega)]
      refine ⟨rfl, ?_, ?_, hcnt'⟩
      · exact HasPrefix.memcpy0 _ hl3 (Nat.le_of_lt (blocksFold_snd_lt (bs := 64) (by decide) _ _ _))
      · rw [← blocksFold_pend (by decide) transform ctx.buf pend data (by omega) (by omega)]
        exact hlen'
    · have hp0 : pend = [] := List.eq_nil_of_length_eq_zero (by omega)
      subst hp0
      simp only [List.length_nil, ne_eq, not_true_eq_false, if_false, List.nil_append] at hlen' ⊢
      have hl := foldBlocks_loopBody (data.length / 64) ctx.buf ctx.inp data hbuf.1
        (Nat.div_mul_le_self _ _)
      rw [foldBlocks_eq_blocksFold 64 transform _ _ _ rfl] at hl
      obtain ⟨hl1, hl2, hl3⟩ := hl
      rw [hl1, hl2]
      refine ⟨rfl, ?_, hlen', hcnt'⟩
      exact HasPrefix.memcpy0 _ hl3 (Nat.le_of_lt (blocksFold_snd_lt (bs := 64) (by decide) _ _ _))

theorem foldl_update_inv (chunks : List Bytes) (hc : ∀ c ∈ chunks, c.length < 2 ^ 32)
    {ctx : Ctx} {msg : Bytes}
    (h : Inv ctx (blocksFold 64 transform iv msg).1 (blocksFold 64 transform iv msg).2 msg.length) :
    Inv (chunks.foldl update ctx) (blocksFold 64 transform iv (msg ++ chunks.flatten)).1
      (blocksFold 64 transform iv (msg ++ chunks.flatten)).2 (msg ++ chunks.flatten).length := by
  induction chunks generalizing ctx msg with
  | nil => simpa using h
  | cons x xs ih =>
    simp only [List.foldl_cons, List.flatten_cons, ← List.append_assoc]
    apply ih (fun c hc' => hc c (List.mem_cons_of_mem _ hc'))
    have := update_inv h x (hc x (List.mem_cons_self ..))
    rw [blocksFold_append (by decide)] at this
    simpa using this

theorem stream_inv (chunks : List Bytes) (hc : ∀ c ∈ chunks, c.length < 2 ^ 32) :
    Inv (chunks.foldl update init) (blocksFold 64 transform iv chunks.flatten).1
      (blocksFold 64 transform iv chunks.flatten).2 chunks.flatten.length := by
  have := foldl_update_inv chunks hc (ctx := init) (msg := []) (by
    rw [blocksFold_lt _ _ (by decide)]; exact init_inv)
  simpa using this

/-! ### `MD5Final` -/

theorem store32L_length (x : UInt32) : (store32L x).length = 4 := rfl

theorem encode_eq (s : State) :
    store32L s.a ++ store32L s.b ++ store32L s.c ++ store32L s.d = md5MD.encode s := by
  simp [md5MD, store32L_eq]

theorem zeros_add (a b : Nat) : zeros (a + b) = zeros a ++ zeros b := by
  simp [zeros, List.replicate_append_replicate]

/-- `MD5Final` = absorb the RFC 1321 padding and encode the state -/
theorem final_eq {ctx : Ctx} {st : State} {pend : Bytes} {n : Nat} (h : Inv ctx st pend n) :
    final ctx = md5MD.encode (blocksFold 64 transform st (pend ++ md5MD.pad n)).1 := by
  obtain ⟨hst, hbuf, hpl, hcnt⟩ := h
  have hj : ((ctx.bits0 >>> 3) &&& 0x3f).toNat = pend.length := by rw [count_index hcnt, hpl]
  have hp64 : pend.length < 64 := by rw [hpl]; exact Nat.mod_lt _ (by decide)
  have hlenf : store32L ctx.bits0 ++ store32L ctx.bits1 = leBytes 8 (8 * n) := by
    rw [leBytes8_split, store32L_eq, store32L_eq, hcnt.1, hcnt.2]
  have hb1 : HasPrefix 64 (memcpy ctx.inp pend.length [0x80]) (pend ++ [0x80]) :=
    hbuf.memcpy _ (by simp; omega)
  -- the specification's padding, split at the length field
  have hpad : ∀ z, z = padZeros 64 8 n →
      md5MD.pad n = [0x80] ++ zeros z ++ (store32L ctx.bits0 ++ store32L ctx.bits1) := by
    intro z hz
    simp [MD.pad, md5MD, hlenf, hz, Spec.Hash.zeros, zeros]
  unfold final
  simp only [hj, encode_eq]
  by_cases hc : 64 - 1 - pend.length < 8
  · simp only [hc, if_true]
    have hb2 : memcpy (memcpy ctx.inp pend.length [0x80]) (pend.length + 1)
        (zeros (64 - 1 - pend.length)) = pend ++ [0x80] ++ zeros (64 - 1 - pend.length) := by
      apply HasPrefix.full (hb1.memcpy' _ _ (by simp) (by simp [zeros_length]; omega))
      simp [zeros_length]; omega
    rw [hb2]
    have hb3 : HasPrefix 64 (memcpy (pend ++ [0x80] ++ zeros (64 - 1 - pend.length)) 0 (zeros 56))
        (zeros 56) := by
      apply HasPrefix.memcpy0
      · simp [zeros_length]; omega
      · simp [zeros_length]
    have hb4 := hb3.memcpy' (store32L ctx.bits0) 56 (by simp [zeros_length])
      (by simp [zeros_length, store32L_length])
    have hb5 : memcpy (memcpy (memcpy (pend ++ [0x80] ++ zeros (64 - 1 - pend.length)) 0 (zeros 56))
          56 (store32L ctx.bits0)) 60 (store32L ctx.bits1)
        = zeros 56 ++ store32L ctx.bits0 ++ store32L ctx.bits1 := by
      apply HasPrefix.full (hb4.memcpy' _ _ (by simp [zeros_length, store32L_length])
        (by simp [zeros_length, store32L_length]))
      simp [zeros_length, store32L_length]
    rw [hb5, hpad ((64 - 1 - pend.length) + 56) (by simp only [padZeros]; omega), zeros_add, hst]
    have e : pend ++ ([0x80] ++ (zeros (64 - 1 - pend.length) ++ zeros 56)
          ++ (store32L ctx.bits0 ++ store32L ctx.bits1))
        = (pend ++ [0x80] ++ zeros (64 - 1 - pend.length))
          ++ (zeros 56 ++ store32L ctx.bits0 ++ store32L ctx.bits1) := by simp
    rw [e, blocksFold_two (by decide) transform st _ _ (by simp [zeros_length]; omega)
      (by simp [zeros_length, store32L_length])]
  · simp only [hc, if_false]
    have hb3 := hb1.memcpy' (zeros (64 - 1 - pend.length - 8)) (pend.length + 1) (by simp)
      (by simp [zeros_length]; omega)
    have hb4 := hb3.memcpy' (store32L ctx.bits0) 56 (by simp [zeros_length]; omega)
      (by simp [zeros_length, store32L_length]; omega)
    have hb5 : memcpy (memcpy (memcpy (memcpy ctx.inp pend.length [0x80]) (pend.length + 1)
          (zeros (64 - 1 - pend.length - 8))) 56 (store32L ctx.bits0)) 60 (store32L ctx.bits1)
        = pend ++ [0x80] ++ zeros (64 - 1 - pend.length - 8) ++ store32L ctx.bits0
          ++ store32L ctx.bits1 := by
      apply HasPrefix.full (hb4.memcpy' _ _ (by simp [zeros_length, store32L_length]; omega)
        (by simp [zeros_length, store32L_length]; omega))
      simp [zeros_length, store32L_length]; omega
    rw [hb5, hpad (64 - 1 - pend.length - 8) (by simp only [padZeros]; omega), hst]
    have e : pend ++ ([0x80] ++ zeros (64 - 1 - pend.length - 8)
          ++ (store32L ctx.bits0 ++ store32L ctx.bits1))
        = pend ++ [0x80] ++ zeros (64 - 1 - pend.length - 8) ++ store32L ctx.bits0
          ++ store32L ctx.bits1 := by simp
    rw [e, blocksFold_one (by decide) transform st _ (by
      simp [zeros_length, store32L_length]; omega)]

end Strophe.Hash.Md5
