/-
C11 helper lemmas, part 6: whole operations and traces.  `step_post` / `run_post`: from a well-formed
state every operation (any behaviour) ends well-formed, never runs out of fuel, and touches a freed
item only if some callback deletes its own callback function.
-/
import Strophe.Lemmas.HandlerTimed

namespace Strophe.Lemmas.Handler
open Strophe Strophe.Handler Strophe.HandlerSpec

/-! ### self-deleting behaviours -/

/-- the API call deletes registrations of callback function `fn` (from some list) -/
def deletesFn (fn : Nat) : Act → Bool
  | .del _ f => f == fn
  | .delId _ f _ => f == fn
  | .delTimed _ f => f == fn
  | .delGlobal f => f == fn
  | _ => false

/-- some invocation of some handler deletes the handler's own callback function -/
def SelfDeleting (beh : Beh) : Prop := ∃ k n, ∃ a ∈ (beh k n).acts, deletesFn k.fn a = true

theorem mem_delsOf {L : Cfg} {fn : Nat} {acts : List Act} (h : fn ∈ L.delsOf acts) : ∃ a ∈ acts, fn ∈ L.dels a := by
  simpa [Cfg.delsOf] using h

theorem delsH_sound {c fn : Nat} {a : Act} (h : fn ∈ delsH c a) : deletesFn fn a = true := by
  cases a <;> simp only [delsH] at h <;> try (cases h)
  split at h
  · simp at h; simp [deletesFn, h]
  · cases h

theorem delsI_sound {c fn : Nat} {id : Str} {a : Act} (h : fn ∈ delsI c id a) : deletesFn fn a = true := by
  cases a <;> simp only [delsI] at h <;> try (cases h)
  split at h
  · simp at h; simp [deletesFn, h]
  · cases h

theorem delsT_sound {c fn : Nat} {a : Act} (h : fn ∈ delsT c a) : deletesFn fn a = true := by
  cases a <;> simp only [delsT] at h <;> try (cases h)
  split at h
  · simp at h; simp [deletesFn, h]
  · cases h

theorem delsG_sound {fn : Nat} {a : Act} (h : fn ∈ delsG a) : deletesFn fn a = true := by
  cases a <;> simp_all [delsG, deletesFn]

theorem selfDeleting_of (beh : Beh) (L : Cfg) (hs : ∀ fn a, fn ∈ L.dels a → deletesFn fn a = true)
    (cands : List Item) (cnt : Key → Nat) (now : Nat) (D : List Nat)
    (h : SelfDelete L (gwalk beh L cnt now D cands)) : SelfDeleting beh := by
  obtain ⟨f, hf, hd⟩ := h
  obtain ⟨_, ⟨n, hn⟩, _, _⟩ := gwalk_mem _ _ _ _ _ _ _ hf
  obtain ⟨a, ha, hfa⟩ := mem_delsOf hd
  exact ⟨f.item.key, n, a, hn ▸ ha, hs _ _ hfa⟩

/-! ### the stanza dispatch as an operation -/

/-- the log grows by `L` -/
def Extends (st st' : St) (L : List Inv) : Prop := st'.log = st.log ++ L

def StanzaPost (beh : Beh) (st : St) (c : Nat) : Except Err St → Prop
  | .ok st' => WF st' ∧ st.nextUid ≤ st'.nextUid ∧
      ∃ L, Extends st st' L ∧ ∀ v ∈ L, v.cls = .stanza ∧ v.conn = c ∧ v.uid < st.nextUid
  | .error .stale => SelfDeleting beh
  | .error .fuel => False

theorem fireStanza_post (beh : Beh) (st : St) (c : Nat) (s : Stanza) (w : WF st) :
    StanzaPost beh st c (fireStanza beh st c s) := by
  have sp := fireStanza_spec beh st c s w
  have hold := walk_items_old beh st c s w
  revert sp
  generalize fireStanza beh st c s = res
  intro sp
  cases res with
  | ok st' =>
    obtain ⟨hlog, hw, hnu, _⟩ := sp
    refine ⟨hw, hnu, _, hlog, ?_⟩
    intro v hv
    obtain ⟨f, hf, rfl⟩ := List.mem_map.mp hv
    exact ⟨rfl, rfl, hold f hf⟩
  | error e =>
    cases e with
    | fuel => exact sp
    | stale =>
      rcases sp with sp | sp
      · unfold selfDelI at sp
        cases hs : s.id with
        | none => rw [hs] at sp; exact sp.elim
        | some id =>
          rw [hs] at sp
          unfold walkI at sp; rw [hs] at sp
          exact selfDeleting_of beh _ (fun _ _ h => delsI_sound h) _ _ _ _ sp
      · exact selfDeleting_of beh _ (fun _ _ h => delsH_sound h) _ _ _ _ sp

/-! ### `handler_fire_timed` as an operation -/

/-- a timed invocation is legitimate: a full period since the stamp the loop read, and (connection
    handlers) the connection is connected -/
def TimedInvOk (st : St) (v : Inv) : Prop :=
  v.time - v.last ≥ v.period ∧ st.now ≤ v.time ∧
  ((v.cls = .timed ∧ (st.conns v.conn).connected = true) ∨ v.cls = .global)

def TimedPost (beh : Beh) (st : St) : Except Err St → Prop
  | .ok st' => WF st' ∧ st.nextUid ≤ st'.nextUid ∧ st.now ≤ st'.now ∧
      (∀ c, (st'.conns c).connected = (st.conns c).connected) ∧ st'.nconns = st.nconns ∧
      ∃ L, Extends st st' L ∧ ∀ v ∈ L, TimedInvOk st v
  | .error .stale => SelfDeleting beh
  | .error .fuel => False

theorem TimedPost.refl (beh : Beh) (st : St) (w : WF st) : TimedPost beh st (.ok st) :=
  ⟨w, Nat.le_refl _, Nat.le_refl _, fun _ => rfl, rfl, [], by simp [Extends], by simp⟩

theorem TimedPost.bind (beh : Beh) (st : St) (r : Except Err St) (k : St → Except Err St)
    (h1 : TimedPost beh st r) (h2 : ∀ st1, r = .ok st1 → TimedPost beh st1 (k st1)) :
    TimedPost beh st (r.bind k) := by
  cases r with
  | error e => exact h1
  | ok st1 =>
    show TimedPost beh st (k st1)
    obtain ⟨_, n1, t1, c1, k1, L1, e1, o1⟩ := h1
    have h2' := h2 st1 rfl
    revert h2'
    generalize k st1 = r2
    intro h2'
    cases r2 with
    | error e =>
      cases e with
      | stale => exact h2'
      | fuel => exact h2'
    | ok st2 =>
      obtain ⟨w2, n2, t2, c2, k2, L2, e2, o2⟩ := h2'
      refine ⟨w2, Nat.le_trans n1 n2, Nat.le_trans t1 t2, fun c => (c2 c).trans (c1 c), k2.trans k1,
        L1 ++ L2, ?_, ?_⟩
      · unfold Extends at *; rw [e2, e1, List.append_assoc]
      · intro v hv
        rcases List.mem_append.mp hv with hv | hv
        · exact o1 v hv
        · obtain ⟨a, b, d⟩ := o2 v hv
          refine ⟨a, Nat.le_trans t1 b, ?_⟩
          rcases d with ⟨d1, d2⟩ | d
          · exact Or.inl ⟨d1, by rw [← c1]; exact d2⟩
          · exact Or.inr d

theorem connected_preserved_T (beh : Beh) (c neg) (c0 : Nat) (b : Bool) (fuel : Nat) (st : St) (suffix : List Item)
    (st' : St) (h0 : (st.conns c0).connected = b)
    (h : gloop beh (cfgT c neg) fuel st suffix = .ok st') : (st'.conns c0).connected = b := by
  refine gloop_preserves beh (cfgT c neg) (fun s => (s.conns c0).connected = b) ?_ ?_ ?_ ?_ fuel st suffix st' h0 h
  · intro s _ _ hs; exact hs
  · intro s a hs; rw [applyAct_connected]; exact hs
  · intro s it hs
    rw [pre_stamp _ rfl, cfgT_set]
    by_cases hc : c0 = c
    · subst hc; simpa using hs
    · rw [updConn_conns_other _ _ _ _ hc]; exact hs
  · intro s u hs
    rw [cfgT_set]
    by_cases hc : c0 = c
    · subst hc; simpa using hs
    · rw [updConn_conns_other _ _ _ _ hc]; exact hs

theorem connected_preserved_G (beh : Beh) (c0 : Nat) (b : Bool) (fuel : Nat) (st : St) (suffix : List Item)
    (st' : St) (h0 : (st.conns c0).connected = b)
    (h : gloop beh cfgG fuel st suffix = .ok st') : (st'.conns c0).connected = b := by
  refine gloop_preserves beh cfgG (fun s => (s.conns c0).connected = b) ?_ ?_ ?_ ?_ fuel st suffix st' h0 h
  · intro s _ _ hs; exact hs
  · intro s a hs; rw [applyAct_connected]; exact hs
  · intro s it hs; rw [pre_stamp _ rfl]; exact hs
  · intro s u hs; exact hs

theorem nconns_preserved (beh : Beh) (L : Cfg) (hset : ∀ st l, (L.set st l).nconns = st.nconns) (n : Nat)
    (fuel : Nat) (st : St) (suffix : List Item) (st' : St) (h0 : st.nconns = n)
    (h : gloop beh L fuel st suffix = .ok st') : st'.nconns = n := by
  refine gloop_preserves beh L (fun s => s.nconns = n) ?_ ?_ ?_ ?_ fuel st suffix st' h0 h
  · intro s _ _ hs; exact hs
  · intro s a hs; rw [applyAct_nconns]; exact hs
  · intro s it hs
    unfold Cfg.pre; split
    · rw [hset]; exact hs
    · exact hs
  · intro s u hs; rw [hset]; exact hs

theorem due_literal {now : Nat} {it : Item} (h : due now it = true) : now - it.last ≥ it.period := by
  simpa [due] using h

theorem fireTimedConn_post (beh : Beh) (st : St) (c : Nat) (w : WF st) :
    TimedPost beh st (fireTimedConn beh st c) := by
  cases hc : (st.conns c).connected with
  | false => rw [fireTimedConn_disconnected _ _ _ hc]; exact TimedPost.refl beh st w
  | true =>
    have sp := fireTimedConn_spec beh st c w hc
    have hconn : ∀ st', fireTimedConn beh st c = .ok st' →
        (∀ c0, (st'.conns c0).connected = (st.conns c0).connected) ∧ st'.nconns = st.nconns := by
      intro st' h
      rw [fireTimedConn_connected _ _ _ hc, timedLoop_eq beh c (st.conns c).negotiated _ _ _ (by simp [stEnT])] at h
      refine ⟨fun c0 => ?_, ?_⟩
      · refine connected_preserved_T beh c _ c0 _ _ _ _ st' ?_ h
        by_cases h0 : c0 = c
        · subst h0; simp [stEnT]
        · simp [stEnT, updConn_conns_other _ _ _ _ h0]
      · exact nconns_preserved beh _ (fun _ _ => rfl) st.nconns _ (stEnT st c) _ st' rfl h
    revert sp hconn
    generalize fireTimedConn beh st c = res
    intro sp hconn
    cases res with
    | ok st' =>
      obtain ⟨hlog, _, hnow, hw, _, hnu, _, _⟩ := sp
      obtain ⟨hcn, hnc⟩ := hconn st' rfl
      refine ⟨hw, hnu, ?_, hcn, hnc, _, hlog, ?_⟩
      · rw [hnow]; exact le_nowAfter _ _
      · intro v hv
        obtain ⟨f, hf, rfl⟩ := List.mem_map.mp hv
        obtain ⟨_, _, hp, ht⟩ := gwalk_mem _ _ _ _ _ _ _ hf
        have hd : due f.time f.item = true := by
          have : (gateOpen (st.conns c).negotiated f.item && due f.time f.item) = true := hp
          rw [Bool.and_eq_true] at this; exact this.2
        exact ⟨due_literal hd, ht, Or.inl ⟨rfl, hc⟩⟩
    | error e =>
      cases e with
      | fuel => exact sp
      | stale => exact selfDeleting_of beh _ (fun _ _ h => delsT_sound h) _ _ _ _ sp

theorem fireTimedConns_post (beh : Beh) : ∀ (cs : List Nat) (st : St), WF st →
    TimedPost beh st (fireTimedConns beh cs st) := by
  intro cs
  induction cs with
  | nil => intro st w; exact TimedPost.refl beh st w
  | cons c cs ih =>
    intro st w
    show TimedPost beh st ((fireTimedConn beh st c).bind fun st1 => fireTimedConns beh cs st1)
    apply TimedPost.bind _ _ _ _ (fireTimedConn_post beh st c w)
    intro st1 h1
    have := fireTimedConn_post beh st c w
    rw [h1] at this
    exact ih st1 this.1

theorem globalLoop_post (beh : Beh) (st : St) (w : WF st) :
    TimedPost beh st (globalLoop beh st.gtimed.length st st.gtimed) := by
  have sp := globalLoop_spec beh st w
  have hconn : ∀ st', globalLoop beh st.gtimed.length st st.gtimed = .ok st' →
      (∀ c0, (st'.conns c0).connected = (st.conns c0).connected) ∧ st'.nconns = st.nconns := by
    intro st' h
    rw [globalLoop_eq] at h
    exact ⟨fun c0 => connected_preserved_G beh c0 _ _ _ _ st' rfl h,
      nconns_preserved beh _ (fun _ _ => rfl) _ _ _ _ st' rfl h⟩
  revert sp hconn
  generalize globalLoop beh st.gtimed.length st st.gtimed = res
  intro sp hconn
  cases res with
  | ok st' =>
    obtain ⟨hlog, _, hnow, hw, _, hnu, _, _⟩ := sp
    obtain ⟨hcn, hnc⟩ := hconn st' rfl
    refine ⟨hw, hnu, ?_, hcn, hnc, _, hlog, ?_⟩
    · rw [hnow]; exact le_nowAfter _ _
    · intro v hv
      obtain ⟨f, hf, rfl⟩ := List.mem_map.mp hv
      obtain ⟨_, _, hp, ht⟩ := gwalk_mem _ _ _ _ _ _ _ hf
      exact ⟨due_literal hp, ht, Or.inr rfl⟩
  | error e =>
    cases e with
    | fuel => exact sp
    | stale => exact selfDeleting_of beh _ (fun _ _ h => delsG_sound h) _ _ _ _ sp

theorem fireTimed_post (beh : Beh) (st : St) (w : WF st) : TimedPost beh st (fireTimed beh st) := by
  show TimedPost beh st ((fireTimedConns beh (List.range st.nconns) st).bind fun st1 =>
    globalLoop beh st1.gtimed.length st1 st1.gtimed)
  apply TimedPost.bind _ _ _ _ (fireTimedConns_post beh _ st w)
  intro st1 h1
  have := fireTimedConns_post beh (List.range st.nconns) st w
  rw [h1] at this
  exact globalLoop_post beh st1 this.1

/-! ### every operation, every trace -/

def OpPost (beh : Beh) (st : St) : Except Err St → Prop
  | .ok st' => WF st' ∧ st.nextUid ≤ st'.nextUid ∧ ∃ L, Extends st st' L
  | .error .stale => SelfDeleting beh
  | .error .fuel => False

theorem OpPost.of_wf (beh : Beh) (st st' : St) (w : WF st') (hn : st.nextUid ≤ st'.nextUid) (hl : st'.log = st.log) :
    OpPost beh st (.ok st') := ⟨w, hn, [], by simp [Extends, hl]⟩

theorem resetTimed_wf {st : St} (w : WF st) (c : Nat) (u : Bool) : WF (resetTimed st c u) := by
  unfold resetTimed
  apply WF.updc' w c
  · exact w.h c
  · intro id; exact w.i c id
  · refine (w.t c).of_maps ?_ ?_
    · rw [List.map_map]; apply List.map_congr_left; intro x _; simp only [Function.comp]; split <;> rfl
    · rw [List.map_map]; apply List.map_congr_left; intro x _; simp only [Function.comp]; split <;> rfl

theorem systemDeleteAll_wf {st : St} (w : WF st) (c : Nat) : WF (systemDeleteAll st c) := by
  unfold systemDeleteAll
  apply WF.updc' w c
  · exact (w.h c).filter _
  · intro id; exact (w.i c id).filter _
  · exact (w.t c).filter _

theorem clearAll_wf {st : St} (w : WF st) : WF (clearAll st) :=
  ⟨fun _ => ListOk.nil _, fun _ _ => ListOk.nil _, fun _ => ListOk.nil _, w.g⟩

theorem step_post (beh : Beh) (st : St) (w : WF st) (op : Op) : OpPost beh st (step beh st op) := by
  cases op with
  | add c fn ud flt user =>
    refine OpPost.of_wf _ _ _ (handlerAdd_wf st w c fn ud flt user) ?_ ?_
    · unfold handlerAdd; split <;> simp
    · unfold handlerAdd; split <;> rfl
  | addId c fn ud id user =>
    refine OpPost.of_wf _ _ _ (idHandlerAdd_wf st w c fn ud id user) ?_ ?_
    · unfold idHandlerAdd; split <;> simp
    · unfold idHandlerAdd; split <;> rfl
  | addTimed c fn ud p user =>
    refine OpPost.of_wf _ _ _ (timedAdd_wf st w c fn ud p user) ?_ ?_
    · unfold timedAdd; split <;> simp
    · unfold timedAdd; split <;> rfl
  | addGlobal fn ud p =>
    refine OpPost.of_wf _ _ _ (globalTimedAdd_wf st w fn ud p) ?_ ?_
    · unfold globalTimedAdd; split <;> simp
    · unfold globalTimedAdd; split <;> rfl
  | del c fn => exact OpPost.of_wf _ _ _ (applyAct_wf st w (.del c fn)) (Nat.le_refl _) rfl
  | delId c fn id => exact OpPost.of_wf _ _ _ (applyAct_wf st w (.delId c fn id)) (Nat.le_refl _) rfl
  | delTimed c fn => exact OpPost.of_wf _ _ _ (applyAct_wf st w (.delTimed c fn)) (Nat.le_refl _) rfl
  | delGlobal fn => exact OpPost.of_wf _ _ _ (applyAct_wf st w (.delGlobal fn)) (Nat.le_refl _) rfl
  | fire c s =>
    have sp := fireStanza_post beh st c s w
    show OpPost beh st (fireStanza beh st c s)
    revert sp
    generalize fireStanza beh st c s = res
    intro sp
    cases res with
    | ok st' => exact ⟨sp.1, sp.2.1, sp.2.2.choose, sp.2.2.choose_spec.1⟩
    | error e => cases e <;> exact sp
  | fireTimed =>
    have sp := fireTimed_post beh st w
    show OpPost beh st (Handler.fireTimed beh st)
    revert sp
    generalize Handler.fireTimed beh st = res
    intro sp
    cases res with
    | ok st' =>
      obtain ⟨a, b, _, _, _, L, e, _⟩ := sp
      exact ⟨a, b, L, e⟩
    | error e => cases e <;> exact sp
  | tick n => exact OpPost.of_wf _ _ _ ⟨w.h, w.i, w.t, w.g⟩ (Nat.le_refl _) rfl
  | setConnected c b =>
    refine OpPost.of_wf _ _ _ ?_ (Nat.le_refl _) rfl
    exact WF.updc' w c _ (w.h c) (fun id => w.i c id) (w.t c)
  | setNegotiated c b =>
    refine OpPost.of_wf _ _ _ ?_ (Nat.le_refl _) rfl
    exact WF.updc' w c _ (w.h c) (fun id => w.i c id) (w.t c)
  | reset c u => exact OpPost.of_wf _ _ _ (resetTimed_wf w c u) (Nat.le_refl _) rfl
  | sysDel c => exact OpPost.of_wf _ _ _ (systemDeleteAll_wf w c) (Nat.le_refl _) rfl
  | clear => exact OpPost.of_wf _ _ _ (clearAll_wf w) (Nat.le_refl _) rfl

theorem run_post (beh : Beh) : ∀ (ops : List Op) (st : St), WF st → OpPost beh st (run beh st ops) := by
  intro ops
  induction ops with
  | nil => intro st w; exact OpPost.of_wf _ _ _ w (Nat.le_refl _) rfl
  | cons op ops ih =>
    intro st w
    show OpPost beh st ((step beh st op).bind fun st1 => run beh st1 ops)
    have h1 := step_post beh st w op
    revert h1
    generalize step beh st op = r
    intro h1
    cases r with
    | error e => exact h1
    | ok st1 =>
      show OpPost beh st (run beh st1 ops)
      have h2 := ih st1 h1.1
      revert h2
      generalize run beh st1 ops = r2
      intro h2
      cases r2 with
      | error e => cases e <;> exact h2
      | ok st2 =>
        obtain ⟨_, n1, L1, e1⟩ := h1
        obtain ⟨w2, n2, L2, e2⟩ := h2
        exact ⟨w2, Nat.le_trans n1 n2, L1 ++ L2, by unfold Extends at *; rw [e2, e1, List.append_assoc]⟩

/-! ### what the log can contain -/

/-- a logged invocation is either a stanza callback or a timed one that was due -/
def LogOk (v : Inv) : Prop := v.cls = .stanza ∨ v.time - v.last ≥ v.period

theorem step_log_ok (beh : Beh) (st st' : St) (op : Op) (w : WF st) (h : step beh st op = .ok st')
    (hl : ∀ v ∈ st.log, LogOk v) : ∀ v ∈ st'.log, LogOk v := by
  cases op with
  | fire c s =>
    have sp := fireStanza_post beh st c s w
    have h' : fireStanza beh st c s = .ok st' := h
    rw [h'] at sp
    obtain ⟨_, _, L, e, hL⟩ := sp
    intro v hv
    rw [e] at hv
    rcases List.mem_append.mp hv with hv | hv
    · exact hl v hv
    · exact Or.inl (hL v hv).1
  | fireTimed =>
    have sp := fireTimed_post beh st w
    have h' : Handler.fireTimed beh st = .ok st' := h
    rw [h'] at sp
    obtain ⟨_, _, _, _, _, L, e, hL⟩ := sp
    intro v hv
    rw [e] at hv
    rcases List.mem_append.mp hv with hv | hv
    · exact hl v hv
    · exact Or.inr (hL v hv).1
  | add c fn ud flt user =>
    injection h with h; subst h
    have : (handlerAdd st c fn ud flt user).log = st.log := by unfold handlerAdd; split <;> rfl
    rw [this]; exact hl
  | addId c fn ud id user =>
    injection h with h; subst h
    have : (idHandlerAdd st c fn ud id user).log = st.log := by unfold idHandlerAdd; split <;> rfl
    rw [this]; exact hl
  | addTimed c fn ud p user =>
    injection h with h; subst h
    have : (timedAdd st c fn ud p user).log = st.log := by unfold timedAdd; split <;> rfl
    rw [this]; exact hl
  | addGlobal fn ud p =>
    injection h with h; subst h
    have : (globalTimedAdd st fn ud p).log = st.log := by unfold globalTimedAdd; split <;> rfl
    rw [this]; exact hl
  | del c fn => injection h with h; subst h; exact hl
  | delId c fn id => injection h with h; subst h; exact hl
  | delTimed c fn => injection h with h; subst h; exact hl
  | delGlobal fn => injection h with h; subst h; exact hl
  | tick n => injection h with h; subst h; exact hl
  | setConnected c b => injection h with h; subst h; exact hl
  | setNegotiated c b => injection h with h; subst h; exact hl
  | reset c u => injection h with h; subst h; exact hl
  | sysDel c => injection h with h; subst h; exact hl
  | clear => injection h with h; subst h; exact hl

theorem run_log_ok (beh : Beh) : ∀ (ops : List Op) (st st' : St), WF st → run beh st ops = .ok st' →
    (∀ v ∈ st.log, LogOk v) → ∀ v ∈ st'.log, LogOk v := by
  intro ops
  induction ops with
  | nil => intro st st' _ h hl; injection h with h; subst h; exact hl
  | cons op ops ih =>
    intro st st' w h hl
    have h' : (step beh st op).bind (fun st1 => run beh st1 ops) = .ok st' := h
    cases h1 : step beh st op with
    | error e => rw [h1] at h'; cases h'
    | ok st1 =>
      rw [h1] at h'
      have w1 : WF st1 := by
        have := step_post beh st w op
        rw [h1] at this; exact this.1
      exact ih st1 st' w1 h' (step_log_ok beh st st1 op w h1 hl)

end Strophe.Lemmas.Handler
