/-
C17 helper lemmas, part 1: buffer algebra (`memcpy`, `HasPrefix`), the block fold and its
streaming lemma (DESIGN.md Appendix F.3), and the link to `Spec.Hash.split`.
-/
import Strophe.Spec.Hash

namespace Strophe.Hash
open Strophe

variable {σ : Type}

/-! ### memcpy on a fixed-size buffer whose meaningful part is a prefix -/

/-- `buf` is a `bs`-byte array whose first `p.length` bytes are `p` (the rest is stale) -/
def HasPrefix (bs : Nat) (buf p : Bytes) : Prop := buf.length = bs ∧ buf.take p.length = p

theorem zeros_length (n : Nat) : (zeros n).length = n := by simp [zeros]

theorem HasPrefix.nil {bs : Nat} {buf : Bytes} (h : buf.length = bs) : HasPrefix bs buf [] :=
  ⟨h, by simp⟩

theorem HasPrefix.le {bs : Nat} {buf p : Bytes} (h : HasPrefix bs buf p) : p.length ≤ bs := by
  have h2 := congrArg List.length h.2
  have h1 := h.1
  simp [List.length_take] at h2
  omega

theorem HasPrefix.full {bs : Nat} {buf p : Bytes} (h : HasPrefix bs buf p) (hp : p.length = bs) :
    buf = p := by
  have := h.2
  rw [hp, ← h.1, List.take_length] at this
  exact this

theorem memcpy_length {buf s : Bytes} {off : Nat} (h : off + s.length ≤ buf.length) :
    (memcpy buf off s).length = buf.length := by
  simp [memcpy, List.length_take, List.length_drop]; omega

theorem HasPrefix.memcpy {bs : Nat} {buf p : Bytes} (s : Bytes) (h : HasPrefix bs buf p)
    (hl : p.length + s.length ≤ bs) : HasPrefix bs (memcpy buf p.length s) (p ++ s) := by
  obtain ⟨h1, h2⟩ := h
  refine ⟨by rw [memcpy_length (by omega), h1], ?_⟩
  unfold Hash.memcpy
  rw [h2]
  exact List.take_left' (by simp)

theorem HasPrefix.memcpy' {bs : Nat} {buf p : Bytes} (s : Bytes) (off : Nat) (h : HasPrefix bs buf p)
    (ho : off = p.length) (hl : p.length + s.length ≤ bs) :
    HasPrefix bs (Hash.memcpy buf off s) (p ++ s) := by
  subst ho; exact h.memcpy s hl

theorem HasPrefix.memcpy0 {bs : Nat} {buf : Bytes} (s : Bytes) (h : buf.length = bs)
    (hl : s.length ≤ bs) : HasPrefix bs (Hash.memcpy buf 0 s) s := by
  have := (HasPrefix.nil h).memcpy s (by simpa using hl)
  simpa using this

/-! ### the block fold -/

theorem blocksFold_lt {bs : Nat} (f : σ → Bytes → σ) (st : σ) {d : Bytes} (h : d.length < bs) :
    blocksFold bs f st d = (st, d) := by
  simp [blocksFold, Nat.div_eq_of_lt h, foldBlocks]

theorem blocksFold_ge {bs : Nat} (hbs : 0 < bs) (f : σ → Bytes → σ) (st : σ) {d : Bytes}
    (h : bs ≤ d.length) :
    blocksFold bs f st d = blocksFold bs f (f st (d.take bs)) (d.drop bs) := by
  unfold blocksFold
  have : d.length / bs = (d.drop bs).length / bs + 1 := by
    rw [List.length_drop, Nat.div_eq d.length bs]; simp [hbs, h]
  rw [this, foldBlocks]

theorem blocksFold_snd_length {bs : Nat} (hbs : 0 < bs) (f : σ → Bytes → σ) (st : σ) (d : Bytes) :
    (blocksFold bs f st d).2.length = d.length % bs := by
  induction d using (measure (fun (d : Bytes) => d.length)).wf.induction generalizing st with
  | _ d ih =>
    by_cases h : d.length < bs
    · rw [blocksFold_lt f st h, Nat.mod_eq_of_lt h]
    · have h' : bs ≤ d.length := Nat.le_of_not_lt h
      rw [blocksFold_ge hbs f st h', ih (d.drop bs) (by
        simp [InvImage, WellFoundedRelation.rel, List.length_drop]; omega), List.length_drop]
      exact (Nat.mod_eq_sub_mod h').symm

theorem blocksFold_snd_lt {bs : Nat} (hbs : 0 < bs) (f : σ → Bytes → σ) (st : σ) (d : Bytes) :
    (blocksFold bs f st d).2.length < bs := by
  rw [blocksFold_snd_length hbs]; exact Nat.mod_lt _ hbs

/-- DESIGN.md F.3: absorbing `a` and then `rest ++ b` is absorbing `a ++ b` -/
theorem blocksFold_append {bs : Nat} (hbs : 0 < bs) (f : σ → Bytes → σ) (st : σ) (a b : Bytes) :
    blocksFold bs f (blocksFold bs f st a).1 ((blocksFold bs f st a).2 ++ b)
      = blocksFold bs f st (a ++ b) := by
  induction a using (measure (fun (d : Bytes) => d.length)).wf.induction generalizing st with
  | _ a ih =>
    by_cases h : a.length < bs
    · rw [blocksFold_lt f st h]
    · have ha : bs ≤ a.length := Nat.le_of_not_lt h
      rw [blocksFold_ge hbs f st ha,
        ih (a.drop bs) (by simp [InvImage, WellFoundedRelation.rel, List.length_drop]; omega),
        blocksFold_ge hbs f st (d := a ++ b) (by simp; omega),
        List.take_append_of_le_length ha, List.drop_append_of_le_length ha]

/-- one full block made of the pending bytes and the head of the new data -/
theorem blocksFold_pend {bs : Nat} (hbs : 0 < bs) (f : σ → Bytes → σ) (st : σ) (pend data : Bytes)
    (hp : pend.length ≤ bs) (h : bs ≤ pend.length + data.length) :
    blocksFold bs f st (pend ++ data) =
      blocksFold bs f (f st (pend ++ data.take (bs - pend.length))) (data.drop (bs - pend.length)) := by
  rw [blocksFold_ge hbs f st (by simp; omega), List.take_append, List.drop_append]
  have : pend.take bs = pend := List.take_of_length_le hp
  have h2 : pend.drop bs = [] := List.drop_eq_nil_of_le hp
  rw [this, h2, List.nil_append]

theorem foldBlocks_eq_blocksFold (bs : Nat) (f : σ → Bytes → σ) (st : σ) (d : Bytes) (k : Nat)
    (hk : k = d.length / bs) : foldBlocks bs f k st d = blocksFold bs f st d := by
  subst hk; rfl

/-! ### link to the specification's block parsing -/

theorem foldBlocks_fst_eq_foldl (bs : Nat) (f : σ → Bytes → σ) (k : Nat) (st : σ) (d : Bytes) :
    (foldBlocks bs f k st d).1 = (Spec.Hash.blocks bs k d).foldl f st := by
  induction k generalizing st d with
  | zero => rfl
  | succ k ih => simp [foldBlocks, Spec.Hash.blocks, ih]

theorem blocksFold_fst_eq_foldl (bs : Nat) (f : σ → Bytes → σ) (st : σ) (d : Bytes) :
    (blocksFold bs f st d).1 = (Spec.Hash.split bs d).foldl f st :=
  foldBlocks_fst_eq_foldl bs f _ st d

/-- the specification's hash in terms of the state and pending bytes after absorbing `msg` -/
theorem spec_hash_eq (A : Spec.Hash.MD σ) (hbs : 0 < A.bs) (msg : Bytes) :
    A.hash msg = A.encode
      (blocksFold A.bs A.compress (blocksFold A.bs A.compress A.iv msg).1
        ((blocksFold A.bs A.compress A.iv msg).2 ++ A.pad msg.length)).1 := by
  rw [blocksFold_append hbs, blocksFold_fst_eq_foldl]; rfl

/-- exactly one block -/
theorem blocksFold_one {bs : Nat} (hbs : 0 < bs) (f : σ → Bytes → σ) (st : σ) (d : Bytes)
    (h : d.length = bs) : (blocksFold bs f st d).1 = f st d := by
  rw [blocksFold_ge hbs f st (by omega), blocksFold_lt _ _ (by simp [List.length_drop]; omega)]
  simp [← h]

/-- exactly two blocks -/
theorem blocksFold_two {bs : Nat} (hbs : 0 < bs) (f : σ → Bytes → σ) (st : σ) (d1 d2 : Bytes)
    (h1 : d1.length = bs) (h2 : d2.length = bs) :
    (blocksFold bs f st (d1 ++ d2)).1 = f (f st d1) d2 := by
  rw [blocksFold_ge hbs f st (by simp; omega), List.take_append_of_le_length (by omega),
    List.drop_append_of_le_length (by omega)]
  have : d1.drop bs = [] := List.drop_eq_nil_of_le (by omega)
  rw [this, List.nil_append, blocksFold_one hbs _ _ _ h2, ← h1, List.take_length]

end Strophe.Hash
