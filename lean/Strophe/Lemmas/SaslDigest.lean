/-
C07 — helper lemmas, part 5: `sasl_digest_md5` computes the RFC 2831 digest-response.
-/
import Strophe.Lemmas.SaslDigestParse
import Strophe.Lemmas.SaslInit
import Strophe.Lemmas.HashHmac
import Strophe.Lemmas.HashApi
import Strophe.Lemmas.Base64
open Strophe Strophe.Hash Strophe.Sasl
open Strophe.Spec.Rfc2831

namespace Strophe.Lemmas.Sasl

theorem digestToHex_byte : ∀ n : Fin 256,
    digestToHex [UInt8.ofNat n.val] = Spec.Hash.hexLower [UInt8.ofNat n.val] := by decide +kernel

theorem digestToHex_eq (d : Bytes) : digestToHex d = Spec.Hash.hexLower d := by
  induction d with
  | nil => rfl
  | cons b bs ih =>
    have hb := digestToHex_byte ⟨b.toNat, b.toNat_lt⟩
    simp only [UInt8.ofNat_toNat] at hb
    have e1 : digestToHex (b :: bs) = digestToHex [b] ++ digestToHex bs := by simp [digestToHex]
    have e2 : Spec.Hash.hexLower (b :: bs) = Spec.Hash.hexLower [b] ++ Spec.Hash.hexLower bs := by
      simp [Spec.Hash.hexLower]
    rw [e1, e2, hb, ih]

theorem makeQuoted_eq (v : Bytes) : makeQuoted v = quotedString v := by
  unfold makeQuoted quotedString
  have : (fun (c : UInt8) => if (c == dquote || c == backslash) = true then [backslash, c] else [c]) =
      (fun (c : UInt8) => if c = 34 ∨ c = 92 then [92, c] else [c]) := by
    funext c
    by_cases h : c = 34 ∨ c = 92
    · rcases h with rfl | rfl <;> simp [dquote, backslash]
    · have : (c == dquote || c == backslash) = false := by
        simp only [not_or] at h
        simp [dquote, backslash, h.1, h.2]
      simp [this, h]
  rw [this]; rfl

/-- the MD5 of the chunks fed one by one is the RFC 1321 MD5 of their concatenation -/
theorem md5Of_eq (chunks : List Bytes) (hc : ∀ c ∈ chunks, c.length < 2 ^ 32) :
    md5Of chunks = Spec.Hash.md5 chunks.flatten := md5_stream chunks hc

/-- the realm the client answers with: the challenge's (last) non-empty realm, else the domain -/
def chosenRealm (challengeRealm : Option Bytes) (domain : Bytes) : Bytes :=
  match challengeRealm with
  | some r => if r.isEmpty then domain else r
  | none => domain

def specNc : Bytes := asc ['0', '0', '0', '0', '0', '0', '0', '1']
def specQop : Bytes := asc ['a', 'u', 't', 'h']
def specServ : Bytes := asc ['x', 'm', 'p', 'p']

theorem replyKeys_eq : Gen.Sasl.digestReplyKeys =
    [(kUsername, true), (kRealm, true), (kNonce, true), (kCnonce, true), (kNc, false), (kQop, false),
     (kDigestUri, true), (kResponse, false), (kCharset, false)] := by decide

/-- the nine `_add_key` calls on a table whose entries are known -/
theorem reply_eq (T : Table) (u r n cn nc q uri resp : Bytes) (chs : Option Bytes)
    (g1 : T.get kUsername = some u) (g2 : T.get kRealm = some r) (g3 : T.get kNonce = some n)
    (g4 : T.get kCnonce = some cn) (g5 : T.get kNc = some nc) (g6 : T.get kQop = some q)
    (g7 : T.get kDigestUri = some uri) (g8 : T.get kResponse = some resp) (g9 : T.get kCharset = chs) :
    Gen.Sasl.digestReplyKeys.foldl (fun buf kq =>
      if kq.1 == kCharset && chs.isNone then buf else addKey T kq.1 buf kq.2) [] =
    digestResponse u r n cn nc q uri resp chs := by
  rw [replyKeys_eq]
  have b1 : (kUsername == kCharset) = false := by decide
  have b2 : (kRealm == kCharset) = false := by decide
  have b3 : (kNonce == kCharset) = false := by decide
  have b4 : (kCnonce == kCharset) = false := by decide
  have b5 : (kNc == kCharset) = false := by decide
  have b6 : (kQop == kCharset) = false := by decide
  have b7 : (kDigestUri == kCharset) = false := by decide
  have b8 : (kResponse == kCharset) = false := by decide
  have b9 : (kCharset == kCharset) = true := by decide
  simp only [List.foldl_cons, List.foldl_nil, b1, b2, b3, b4, b5, b6, b7, b8, b9, Bool.false_and, Bool.true_and,
    Bool.false_eq_true, if_false, addKey, g1, g2, g3, g4, g5, g6, g7, g8, g9, Option.getD_some, makeQuoted_eq,
    if_true]
  cases chs with
  | none =>
    simp [digestResponse, asc, kUsername, kRealm, kNonce, kCnonce, kNc, kQop, kDigestUri, kResponse, cs, comma, eq_]
  | some v =>
    simp [digestResponse, asc, kUsername, kRealm, kNonce, kCnonce, kNc, kQop, kDigestUri, kResponse, kCharset, cs,
      comma, eq_]

/-- `sasl_digest_md5` after parsing: the RFC 2831 digest-response for the table's nonce, realm and
    charset -/
theorem digestReply_eq_spec (T : Table) (node domain pw cnonce nonce : Bytes)
    (hn : T.get kNonce = some nonce)
    (h1 : node.length < 2 ^ 32) (h2 : domain.length < 2 ^ 31) (h3 : pw.length < 2 ^ 32)
    (h4 : nonce.length < 2 ^ 32) (h5 : cnonce.length < 2 ^ 32)
    (h6 : ∀ r, T.get kRealm = some r → r.length < 2 ^ 32) :
    digestReply T node domain pw cnonce =
      .ok (some (Base64.encode
        (digestResponse node (chosenRealm (T.get kRealm) domain) nonce cnonce specNc specQop
          (digestUri specServ domain)
          (responseValue node (chosenRealm (T.get kRealm) domain) pw nonce cnonce specNc specQop
            (digestUri specServ domain))
          (T.get kCharset)))) := by
  have hR : (withRealm T domain).get kRealm = some (chosenRealm (T.get kRealm) domain) := by
    unfold withRealm chosenRealm
    cases hr : T.get kRealm with
    | none => simp [Table.get_add_self]
    | some r =>
      by_cases he : r.isEmpty
      · simp [he, Table.get_add_self]
      · simp [he, hr]
  have hne : ∀ k, k ≠ kRealm → (withRealm T domain).get k = T.get k := by
    intro k hk
    unfold withRealm
    cases hr : T.get kRealm with
    | none => simp [Table.get_add_ne _ _ _ _ hk]
    | some r =>
      by_cases he : r.isEmpty
      · simp [he, Table.get_add_ne _ _ _ _ hk]
      · simp [he]
  have hN : (withRealm T domain).get kNonce = some nonce := by rw [hne _ (by decide)]; exact hn
  have hC : (withRealm T domain).get kCharset = T.get kCharset := hne _ (by decide)
  have hrl : (chosenRealm (T.get kRealm) domain).length < 2 ^ 32 := by
    unfold chosenRealm
    cases hr : T.get kRealm with
    | none => simp; omega
    | some r =>
      by_cases he : r.isEmpty
      · simp [he]; omega
      · simp [he]; exact h6 r hr
  unfold digestReply
  simp (config := { decide := true }) only [Table.get_add, if_true, if_false, hR, hN, hC, Option.getD_some]
  -- the four digests
  have hqop : (Gen.Sasl.digestQopDefault != Gen.Sasl.digestQopAuth) = false := by decide
  simp only [hqop, Bool.false_eq_true, if_false, List.append_nil]
  have lc : ([colon] : Bytes).length < 2 ^ 32 := by decide
  rw [md5Of_eq [node, [colon], chosenRealm (T.get kRealm) domain, [colon], pw] (by
        intro c hc; simp only [List.mem_cons, List.not_mem_nil, or_false] at hc
        rcases hc with rfl | rfl | rfl | rfl | rfl <;> first | assumption | exact lc)]
  rw [md5Of_eq [Spec.Hash.md5 _, [colon], nonce, [colon], cnonce] (by
        intro c hc; simp only [List.mem_cons, List.not_mem_nil, or_false] at hc
        rcases hc with rfl | rfl | rfl | rfl | rfl <;>
          first | assumption | exact lc | (rw [md5_length]; decide))]
  rw [md5Of_eq [Gen.Sasl.digestA2Prefix, Gen.Sasl.digestUriPrefix ++ domain] (by
        intro c hc; simp only [List.mem_cons, List.not_mem_nil, or_false] at hc
        rcases hc with rfl | rfl
        · decide
        · simp [Gen.Sasl.digestUriPrefix]; omega)]
  rw [md5Of_eq [digestToHex _, [colon], nonce, [colon], Gen.Sasl.digestNc, [colon], cnonce, [colon],
        Gen.Sasl.digestQopDefault, [colon], digestToHex _] (by
        intro c hc; simp only [List.mem_cons, List.not_mem_nil, or_false] at hc
        rcases hc with rfl | rfl | rfl | rfl | rfl | rfl | rfl | rfl | rfl | rfl | rfl <;>
          first | assumption | exact lc | decide |
            (rw [digestToHex_eq, hexLower_length, md5_length]; decide))]
  -- the reply string
  rw [reply_eq _ node (chosenRealm (T.get kRealm) domain) nonce cnonce Gen.Sasl.digestNc Gen.Sasl.digestQopDefault
    (Gen.Sasl.digestUriPrefix ++ domain) _ (T.get kCharset)
    (by simp (config := { decide := true }) only [Table.get_add, if_true, if_false])
    (by simp (config := { decide := true }) only [Table.get_add, if_true, if_false, hR])
    (by simp (config := { decide := true }) only [Table.get_add, if_true, if_false, hN])
    (by simp (config := { decide := true }) only [Table.get_add, if_true, if_false])
    (by simp (config := { decide := true }) only [Table.get_add, if_true, if_false])
    (by simp (config := { decide := true }) only [Table.get_add, if_true, if_false])
    (by simp (config := { decide := true }) only [Table.get_add, if_true, if_false])
    (Table.get_add_self _ _ _)
    (by simp (config := { decide := true }) only [Table.get_add, if_true, if_false, hC])]
  simp [digestToHex_eq, responseValue, HEX, H, KD, A1, A2, digestUri, specNc, specQop, specServ, asc, colon,
    Gen.Sasl.digestNc, Gen.Sasl.digestQopDefault, Gen.Sasl.digestUriPrefix, Gen.Sasl.digestA2Prefix]

end Strophe.Lemmas.Sasl
