/-
xmpp_stanza_release keeps the ownership invariant: the cascade frees exactly the stanzas nobody else
refers to, detaches the survivors completely, and never touches a freed block.
-/
import Strophe.Lemmas.StoreInv

namespace Strophe.Store
open Strophe Strophe.Stanza

/-- `pend` with the listed stanzas set to `v` -/
def pset (pend : Nat → Nat) (l : List Nat) (v : Nat) : Nat → Nat := fun x => if x ∈ l then v else pend x

theorem Desc.mono {G G' : Ghost} (hsub : ∀ p y, y ∈ G'.kids p → y ∈ G.kids p) {a x : Nat} (h : Desc G' a x) :
    Desc G a x := by
  induction h with
  | refl => exact Desc.refl
  | step _ hx ih => exact Desc.step ih (hsub _ _ hx)

/-- what a release of `s` may have changed -/
structure RelPost (m m' : Mem) (G G' : Ghost) (s : Nat) : Prop where
  size : m'.size = m.size
  rank : G'.rank = G.rank
  frame : ∀ x, ¬ Desc G s x → m'.get x = m.get x
  gframe : ∀ x, ¬ Desc G s x → G'.kids x = G.kids x
  sub : ∀ p y, y ∈ G'.kids p → y ∈ G.kids p

theorem brank_congr {G G' : Ghost} (h : G'.rank = G.rank) (n x : Nat) : brank G' n x = brank G n x := by
  simp [brank, h]

/-- the branch `ref > 1` -/
theorem release_keep {m : Mem} {G : Ghost} {hold pend : Nat → Nat} {Z : List Nat} {s : Nat}
    (h : InvP m G hold pend Z) (hl : (m.get s).live = true) (hz : s ∉ Z) (hnp : ¬ HasPar G s)
    (hps : pend s = 1) (hlinks : (m.get s).next = none ∧ (m.get s).parent = none) (hh : 0 < hold s) :
    InvP (m.put s { m.get s with ref := (m.get s).ref - 1 }) G hold (pset pend [s] 0) Z := by
  have hs := Mem.live_lt hl
  have hg : ∀ x, (m.put s { m.get s with ref := (m.get s).ref - 1 }).get x =
      if x = s then { m.get s with ref := (m.get s).ref - 1 } else m.get x := by
    intro x; rw [Mem.get_put]; by_cases hx : x = s <;> simp [hx, hs]
  have hlive : ∀ x, ((m.put s { m.get s with ref := (m.get s).ref - 1 }).get x).live = (m.get x).live := by
    intro x; rw [hg]; split <;> simp_all
  constructor
  · intro p hlp hzp
    rw [hlive] at hlp
    have hc : ((m.put s { m.get s with ref := (m.get s).ref - 1 }).get p).children = (m.get p).children := by
      rw [hg]; split <;> simp_all
    rw [hc]
    apply Chain.congr (h.chain p hlp hzp)
    intro a _
    refine ⟨hlive a, ?_⟩
    rw [hg]; split <;> simp_all
  · intro p hp; rw [hlive] at hp; exact h.nokids p hp
  · intro p c hc
    have := h.kid p c hc
    rw [hlive]
    refine ⟨this.1, this.2.1, ?_⟩
    rw [hg]; split <;> simp_all
  · exact h.nodup
  · exact h.uniq
  · exact h.rank
  · intro x hlx hzx
    rw [hlive] at hlx
    have := h.ref x hlx hzx
    rw [hg]
    simp only [pset]
    split
    · next hx =>
      subst hx
      rw [hpN_not hnp, hps] at this
      simp; rw [hpN_not hnp]; omega
    · next hx => simp [hx]; exact this
  · intro x hlx hzx hp hpe
    rw [hlive] at hlx
    rw [hg]
    split
    · next hx => subst hx; exact hlinks
    · next hx =>
      simp only [pset, List.mem_singleton, hx, if_false] at hpe
      exact h.root x hlx hzx hp hpe
  · intro x hx
    rw [hlive]
    by_cases hxs : x = s
    · subst hxs; exact ⟨hl, hz⟩
    · simp only [pset, List.mem_singleton, hxs, if_false] at hx
      exact h.held x hx
  · intro x hx
    by_cases hxs : x = s
    · subst hxs; exact hnp
    · simp only [pset, List.mem_singleton, hxs, if_false] at hx
      exact h.pendRoot x hx

/-- the ghost step at the point of no return: `s` becomes a zombie, its children pending roots -/
theorem release_zombify {m : Mem} {G : Ghost} {hold pend : Nat → Nat} {Z : List Nat} {s : Nat}
    (h : InvP m G hold pend Z) (hl : (m.get s).live = true) (hz : s ∉ Z) (hnp : ¬ HasPar G s)
    (hps : pend s = 1) (hh : hold s = 0) :
    InvP m ⟨fun q => if q = s then [] else G.kids q, G.rank⟩ hold
      (fun x => if x = s then 0 else if x ∈ G.kids s then 1 else pend x) (s :: Z) := by
  have hsub : ∀ q y, y ∈ (if q = s then [] else G.kids q) → y ∈ G.kids q ∧ q ≠ s := by
    intro q y hy; by_cases hq : q = s <;> simp_all
  have hhp : ∀ x, x ∉ G.kids s →
      (HasPar ⟨fun q => if q = s then [] else G.kids q, G.rank⟩ x ↔ HasPar G x) := by
    intro x hx
    constructor
    · rintro ⟨q, hq⟩; exact ⟨q, (hsub q x hq).1⟩
    · rintro ⟨q, hq⟩
      refine ⟨q, ?_⟩
      have : q ≠ s := fun e => hx (e ▸ hq)
      simp [this, hq]
  have hnhp : ∀ x, x ∈ G.kids s → ¬ HasPar ⟨fun q => if q = s then [] else G.kids q, G.rank⟩ x := by
    rintro x hx ⟨q, hq⟩
    have := hsub q x hq
    exact this.2 (h.uniq q s x this.1 hx)
  have hkid_ne : ∀ x, x ∈ G.kids s → x ≠ s := fun x hx e => hnp ⟨s, e ▸ hx⟩
  constructor
  · intro p hlp hzp
    have hps' : p ≠ s := fun e => hzp (by simp [e])
    have hzp' : p ∉ Z := fun e => hzp (by simp [e])
    simp only [hps', if_false]
    exact h.chain p hlp hzp'
  · intro p hp
    by_cases hps' : p = s
    · simp [hps']
    · simp only [hps', if_false]
      apply h.nokids p
      rcases hp with hp | hp
      · exact Or.inl hp
      · right; simpa [hps'] using hp
  · intro p c hc
    have := hsub p c hc
    have hk := h.kid p c this.1
    refine ⟨hk.1, ?_, hk.2.2⟩
    intro hcz
    simp only [List.mem_cons] at hcz
    rcases hcz with e | e
    · exact hnp ⟨p, e ▸ this.1⟩
    · exact hk.2.1 e
  · intro p; by_cases hp : p = s <;> simp [hp, h.nodup p]
  · intro p q c hp hq; exact h.uniq p q c (hsub p c hp).1 (hsub q c hq).1
  · intro p c hc; exact h.rank p c (hsub p c hc).1
  · intro x hlx hzx
    have hxs : x ≠ s := fun e => hzx (by simp [e])
    have hzx' : x ∉ Z := fun e => hzx (by simp [e])
    have hr := h.ref x hlx hzx'
    simp only [hxs, if_false]
    by_cases hxk : x ∈ G.kids s
    · have hp0 : pend x = 0 := by
        apply Classical.byContradiction
        intro hne
        exact h.pendRoot x (by omega) ⟨s, hxk⟩
      simp only [hxk, if_true]
      rw [hpN_not (hnhp x hxk)]
      rw [hpN_of ⟨s, hxk⟩, hp0] at hr
      omega
    · simp only [hxk, if_false]
      have : hpN ⟨fun q => if q = s then [] else G.kids q, G.rank⟩ x = hpN G x := by
        by_cases hh' : HasPar G x
        · rw [hpN_of hh', hpN_of ((hhp x hxk).mpr hh')]
        · rw [hpN_not hh', hpN_not (fun e => hh' ((hhp x hxk).mp e))]
      rw [this]; exact hr
  · intro x hlx hzx hp hpe
    have hxs : x ≠ s := fun e => hzx (by simp [e])
    have hzx' : x ∉ Z := fun e => hzx (by simp [e])
    simp only [hxs, if_false] at hpe
    by_cases hxk : x ∈ G.kids s
    · simp [hxk] at hpe
    · simp only [hxk, if_false] at hpe
      exact h.root x hlx hzx' (fun e => hp ((hhp x hxk).mpr e)) hpe
  · intro x hx
    by_cases hxs : x = s
    · subst hxs; simp [hh] at hx
    · simp only [hxs, if_false] at hx
      by_cases hxk : x ∈ G.kids s
      · have hk := h.kid s x hxk
        exact ⟨hk.1, by simp [hxs, hk.2.1]⟩
      · simp only [hxk, if_false] at hx
        have := h.held x hx
        exact ⟨this.1, by simp [hxs, this.2]⟩
  · intro x hx
    by_cases hxs : x = s
    · subst hxs; simp at hx
    · simp only [hxs, if_false] at hx
      by_cases hxk : x ∈ G.kids s
      · exact hnhp x hxk
      · simp only [hxk, if_false] at hx
        exact fun e => h.pendRoot x hx ((hhp x hxk).mp e)

/-- the zombie is returned to the allocator -/
theorem release_bury {m : Mem} {G : Ghost} {hold pend : Nat → Nat} {Z : List Nat} {s : Nat}
    (h : InvP m G hold pend (s :: Z)) (hl : (m.get s).live = true) (hh : hold s + pend s = 0) :
    InvP (freeNode m s (m.get s)) G hold pend Z := by
  have hs := Mem.live_lt hl
  have hg : ∀ x, (freeNode m s (m.get s)).get x = if x = s then { m.get s with live := false } else m.get x := by
    intro x
    show (m.put s { m.get s with live := false }).get x = _
    rw [Mem.get_put]; by_cases hx : x = s <;> simp [hx, hs]
  have hks : G.kids s = [] := h.nokids s (Or.inr (by simp))
  have hnk : ∀ p c, c ∈ G.kids p → c ≠ s ∧ p ≠ s := by
    intro p c hc
    constructor
    · intro e; exact (h.kid p c hc).2.1 (by simp [e])
    · intro e; rw [e, hks] at hc; simp at hc
  constructor
  · intro p hlp hzp
    rw [hg] at hlp
    by_cases hps : p = s
    · simp [hps] at hlp
    · simp only [hps, if_false] at hlp
      rw [hg]; simp only [hps, if_false]
      apply Chain.congr (h.chain p hlp (by simp [hps, hzp]))
      intro a ha
      have := (hnk p a ha).1
      rw [hg]; simp [this]
  · intro p hp
    by_cases hps : p = s
    · rw [hps]; exact hks
    · apply h.nokids p
      rcases hp with hp | hp
      · left; rw [hg] at hp; simpa [hps] using hp
      · right; simp [hp]
  · intro p c hc
    have hk := h.kid p c hc
    have := (hnk p c hc).1
    rw [hg]; simp only [this, if_false]
    exact ⟨hk.1, fun e => hk.2.1 (by simp [e]), hk.2.2⟩
  · exact h.nodup
  · exact h.uniq
  · exact h.rank
  · intro x hlx hzx
    rw [hg] at hlx ⊢
    by_cases hxs : x = s
    · simp [hxs] at hlx
    · simp only [hxs, if_false] at hlx ⊢
      exact h.ref x hlx (by simp [hxs, hzx])
  · intro x hlx hzx hp hpe
    rw [hg] at hlx ⊢
    by_cases hxs : x = s
    · simp [hxs] at hlx
    · simp only [hxs, if_false] at hlx ⊢
      exact h.root x hlx (by simp [hxs, hzx]) hp hpe
  · intro x hx
    by_cases hxs : x = s
    · subst hxs; omega
    · have := h.held x hx
      rw [hg]; simp only [hxs, if_false]
      exact ⟨this.1, fun e => this.2 (by simp [e])⟩
  · exact h.pendRoot

/-- detaching a pending root (`next`, `prev`, `parent` cleared) does not disturb anybody -/
theorem release_detach {m : Mem} {G : Ghost} {hold pend : Nat → Nat} {Z : List Nat} {c : Nat}
    (h : InvP m G hold pend Z) (hl : (m.get c).live = true) (hnp : ¬ HasPar G c) (hpc : 0 < pend c) :
    InvP (m.put c { m.get c with next := none, prev := none, parent := none }) G hold pend Z := by
  have hs := Mem.live_lt hl
  have hg : ∀ x, (m.put c { m.get c with next := none, prev := none, parent := none }).get x =
      if x = c then { m.get c with next := none, prev := none, parent := none } else m.get x := by
    intro x; rw [Mem.get_put]; by_cases hx : x = c <;> simp [hx, hs]
  have hlive : ∀ x, ((m.put c { m.get c with next := none, prev := none, parent := none }).get x).live = (m.get x).live := by
    intro x; rw [hg]; split <;> simp_all
  have hck : ∀ q, c ∉ G.kids q := fun q hq => hnp ⟨q, hq⟩
  constructor
  · intro p hlp hzp
    rw [hlive] at hlp
    have hc : ((m.put c { m.get c with next := none, prev := none, parent := none }).get p).children = (m.get p).children := by
      rw [hg]; split <;> simp_all
    rw [hc]
    apply Chain.congr (h.chain p hlp hzp)
    intro a ha
    have : a ≠ c := fun e => hck p (e ▸ ha)
    rw [hg]; simp [this]
  · intro p hp; rw [hlive] at hp; exact h.nokids p hp
  · intro p x hx
    have := h.kid p x hx
    have hxc : x ≠ c := fun e => hck p (e ▸ hx)
    rw [hg]; simp only [hxc, if_false]; exact this
  · exact h.nodup
  · exact h.uniq
  · exact h.rank
  · intro x hlx hzx
    rw [hlive] at hlx
    have := h.ref x hlx hzx
    rw [hg]
    by_cases hx : x = c
    · subst hx; simpa using this
    · simp only [hx, if_false]; exact this
  · intro x hlx hzx hp hpe
    rw [hlive] at hlx
    rw [hg]
    split
    · next hx => subst hx; omega
    · exact h.root x hlx hzx hp hpe
  · intro x hx; rw [hlive]; exact h.held x hx
  · exact h.pendRoot


theorem pset_nil (pend : Nat → Nat) (v : Nat) : pset pend [] v = pend := by
  funext x; simp [pset]

def RelP (f : Nat) : Prop :=
  ∀ (m : Mem) (G : Ghost) (hold pend : Nat → Nat) (Z : List Nat) (s : Nat),
    InvP m G hold pend Z → (m.get s).live = true → s ∉ Z → ¬ HasPar G s → pend s = 1 →
    ((m.get s).next = none ∧ (m.get s).parent = none) →
    (brank G m.size s + 1) * (m.size + 2) ≤ f →
    ∃ m' G' b, release f m s = .ok (m', b) ∧ InvP m' G' hold (pset pend [s] 0) Z ∧ RelPost m m' G G' s ∧
      (b = true ↔ hold s = 0)

def RelQ (f : Nat) : Prop :=
  ∀ (m : Mem) (G : Ghost) (hold pend : Nat → Nat) (Z : List Nat) (cs : List Nat) (ptr : Option Nat) (r : Nat),
    InvP m G hold pend Z → Chain m ptr cs → cs.Nodup →
    (∀ c ∈ cs, c ∉ Z ∧ ¬ HasPar G c ∧ pend c = 1 ∧ brank G m.size c < r) →
    r * (m.size + 2) + cs.length + 1 ≤ f →
    ∃ m' G', releaseKids f m ptr = .ok m' ∧ InvP m' G' hold (pset pend cs 0) Z ∧
      m'.size = m.size ∧ G'.rank = G.rank ∧
      (∀ x, (∀ c ∈ cs, ¬ Desc G c x) → m'.get x = m.get x ∧ G'.kids x = G.kids x) ∧
      (∀ p y, y ∈ G'.kids p → y ∈ G.kids p)

theorem relP_step {f : Nat} (ihQ : RelQ f) : RelP (f + 1) := by
  intro m G hold pend Z s h hl hz hnp hps hlinks hf
  have hr := h.ref s hl hz
  rw [hpN_not hnp, hps] at hr
  have hs := Mem.live_lt hl
  by_cases hgt : (m.get s).ref > 1
  · refine ⟨m.put s { m.get s with ref := (m.get s).ref - 1 }, G, false, ?_,
      release_keep h hl hz hnp hps hlinks (by omega), ?_, ?_⟩
    · simp [release, Mem.deref_of_live hl, bind, Except.bind, hgt, pure, Except.pure]
    · refine ⟨by simp, rfl, ?_, fun _ _ => rfl, fun _ _ hy => hy⟩
      intro x hx
      have : x ≠ s := fun e => hx (e ▸ Desc.refl)
      exact Mem.get_put_ne _ this
    · simp; omega
  · have hh0 : hold s = 0 := by omega
    have hz1 := release_zombify h hl hz hnp hps hh0
    have hchain := h.chain s hl hz
    have hkid_ne : ∀ x, x ∈ G.kids s → x ≠ s := fun x hx e => hnp ⟨s, e ▸ hx⟩
    have hG1sub : ∀ q y, y ∈ (if q = s then [] else G.kids q) → y ∈ G.kids q := by
      intro q y hy; by_cases hq : q = s <;> simp_all
    -- the loop over the children
    obtain ⟨m2, G2, he2, hi2, hsz2, hrk2, hfr2, hsub2⟩ :=
      ihQ m ⟨fun q => if q = s then [] else G.kids q, G.rank⟩ hold
        (fun x => if x = s then 0 else if x ∈ G.kids s then 1 else pend x) (s :: Z) (G.kids s)
        (m.get s).children (brank G m.size s) hz1 hchain (h.nodup s)
        (by
          intro c hc
          have hk := h.kid s c hc
          have hcs := hkid_ne c hc
          refine ⟨?_, ?_, ?_, ?_⟩
          · simp [hcs, hk.2.1]
          · rintro ⟨q, hq⟩
            have hq' := hG1sub q c hq
            have : q = s := h.uniq q s c hq' hc
            subst this
            simp at hq
          · simp [hcs, hc]
          · exact brank_lt (Mem.live_lt hk.1) (h.rank s c hc))
        (by
          have hlen := h.kids_length_le s
          have : (brank G m.size s + 1) * (m.size + 2) = brank G m.size s * (m.size + 2) + (m.size + 2) := by
            rw [Nat.add_mul]; simp
          omega)
    -- `s` itself was not touched
    have hsnd : ∀ c ∈ G.kids s, ¬ Desc ⟨fun q => if q = s then [] else G.kids q, G.rank⟩ c s := by
      intro c hc hd
      have hne : s ≠ c := fun e => hkid_ne c hc e.symm
      obtain ⟨q, hq⟩ := hd.hasPar_of_ne hne
      exact hnp ⟨q, hG1sub q s hq⟩
    have hs2 := hfr2 s hsnd
    have hl2 : (m2.get s).live = true := by rw [hs2.1]; exact hl
    have hk2s : G2.kids s = [] := by rw [hs2.2]; simp
    have hpend2 : (pset (fun x => if x = s then 0 else if x ∈ G.kids s then 1 else pend x) (G.kids s) 0) =
        pset pend [s] 0 := by
      funext x
      simp only [pset, List.mem_singleton]
      by_cases hxk : x ∈ G.kids s
      · have hp0 : pend x = 0 := by
          apply Classical.byContradiction
          intro hne
          exact h.pendRoot x (by omega) ⟨s, hxk⟩
        have := hkid_ne x hxk
        simp [hxk, this, hp0]
      · by_cases hxs : x = s <;> simp [hxk, hxs]
    rw [hpend2] at hi2
    have hi3 := release_bury hi2 hl2 (by simp [hh0, pset])
    refine ⟨freeNode m2 s (m2.get s), G2, true, ?_, hi3, ?_, by simp [hh0]⟩
    · simp [release, Mem.deref_of_live hl, bind, Except.bind, hgt, he2, Mem.deref_of_live hl2, pure, Except.pure]
    · have hdesc : ∀ x, ¬ Desc G s x → x ≠ s ∧
          ∀ c ∈ G.kids s, ¬ Desc ⟨fun q => if q = s then [] else G.kids q, G.rank⟩ c x := by
        intro x hx
        refine ⟨fun e => hx (e ▸ Desc.refl), ?_⟩
        intro c hc hd
        exact hx (Desc.cons hc (Desc.mono hG1sub hd))
      refine ⟨?_, hrk2, ?_, ?_, ?_⟩
      · rw [freeNode_size, hsz2]
      · intro x hx
        obtain ⟨hxs, hxd⟩ := hdesc x hx
        rw [freeNode_get]; simp only [hxs, false_and, if_false]
        exact (hfr2 x hxd).1
      · intro x hx
        obtain ⟨hxs, hxd⟩ := hdesc x hx
        rw [(hfr2 x hxd).2]; simp [hxs]
      · intro p y hy
        exact hG1sub p y (hsub2 p y hy)


theorem relQ_nil (f : Nat) {m : Mem} {G : Ghost} {hold pend : Nat → Nat} {Z : List Nat} {ptr : Option Nat}
    (h : InvP m G hold pend Z) (hc : Chain m ptr []) :
    ∃ m' G', releaseKids f m ptr = .ok m' ∧ InvP m' G' hold (pset pend [] 0) Z ∧
      m'.size = m.size ∧ G'.rank = G.rank ∧
      (∀ x, (∀ c ∈ ([] : List Nat), ¬ Desc G c x) → m'.get x = m.get x ∧ G'.kids x = G.kids x) ∧
      (∀ p y, y ∈ G'.kids p → y ∈ G.kids p) := by
  have : ptr = none := hc
  subst this
  refine ⟨m, G, ?_, by rw [pset_nil]; exact h, rfl, rfl, fun _ _ => ⟨rfl, rfl⟩, fun _ _ hy => hy⟩
  cases f <;> simp [releaseKids, pure, Except.pure]

theorem relQ_step {f : Nat} (ihP : RelP f) (ihQ : RelQ f) : RelQ (f + 1) := by
  intro m G hold pend Z cs ptr r h hch hnd hcs hf
  cases cs with
  | nil => exact relQ_nil _ h hch
  | cons c cs' =>
    obtain ⟨hptr, hlc, hch'⟩ := hch
    subst hptr
    have hcc := hcs c (by simp)
    have hcs_lt := Mem.live_lt hlc
    have hnd' := List.nodup_cons.mp hnd
    -- tchild->next = NULL; tchild->prev = NULL; tchild->parent = NULL
    have h1 := release_detach h hlc hcc.2.1 (by omega : 0 < pend c)
    have hg1 : ∀ x, (m.put c { m.get c with next := none, prev := none, parent := none }).get x =
        if x = c then { m.get c with next := none, prev := none, parent := none } else m.get x := by
      intro x; rw [Mem.get_put]; by_cases hx : x = c <;> simp [hx, hcs_lt]
    have hl1 : ((m.put c { m.get c with next := none, prev := none, parent := none }).get c).live = true := by
      rw [hg1]; simpa using hlc
    have hlen : 1 ≤ (c :: cs').length := by simp
    have hB : (brank G m.size c + 1) * (m.size + 2) ≤ brank G m.size c * (m.size + 2) + (m.size + 2) := by
      rw [Nat.add_mul]; simp
    have hmul : (brank G m.size c + 1) * (m.size + 2) ≤ r * (m.size + 2) :=
      Nat.mul_le_mul_right _ (by have := hcc.2.2.2; omega)
    -- xmpp_stanza_release(tchild)
    obtain ⟨m2, G2, b, he2, hi2, hpost, _⟩ :=
      ihP (m.put c { m.get c with next := none, prev := none, parent := none }) G hold pend Z c h1 hl1 hcc.1 hcc.2.1
        hcc.2.2.1 (by rw [hg1]; simp)
        (by simp only [Mem.size_put]; simp only [List.length_cons] at hf; omega)
    -- the remaining siblings were not touched
    have hrest : ∀ a ∈ cs', ¬ Desc G c a := by
      intro a ha hd
      have hne : a ≠ c := fun e => hnd'.1 (e ▸ ha)
      exact (hcs a (by simp [ha])).2.1 (hd.hasPar_of_ne hne)
    have hget2 : ∀ a ∈ cs', m2.get a = m.get a := by
      intro a ha
      rw [hpost.frame a (hrest a ha), hg1]
      have hne : a ≠ c := fun e => hnd'.1 (e ▸ ha)
      simp [hne]
    have hch2 : Chain m2 (m.get c).next cs' := by
      apply Chain.congr hch'
      intro a ha
      rw [hget2 a ha]; exact ⟨rfl, rfl⟩
    have hsz2 : m2.size = m.size := by rw [hpost.size]; simp
    obtain ⟨m3, G3, he3, hi3, hsz3, hrk3, hfr3, hsub3⟩ :=
      ihQ m2 G2 hold (pset pend [c] 0) Z cs' (m.get c).next r hi2 hch2 hnd'.2
        (by
          intro a ha
          have hca := hcs a (by simp [ha])
          have hne : a ≠ c := fun e => hnd'.1 (e ▸ ha)
          refine ⟨hca.1, ?_, ?_, ?_⟩
          · rintro ⟨q, hq⟩; exact hca.2.1 ⟨q, hpost.sub q a hq⟩
          · simp [pset, hne, hca.2.2.1]
          · rw [hsz2, brank_congr hpost.rank]; exact hca.2.2.2)
        (by rw [hsz2]; simp only [List.length_cons] at hf; omega)
    refine ⟨m3, G3, ?_, ?_, by rw [hsz3, hsz2], by rw [hrk3, hpost.rank], ?_, ?_⟩
    · simp [releaseKids, Mem.deref_of_live hlc, bind, Except.bind, he2, he3]
    · have : pset (pset pend [c] 0) cs' 0 = pset pend (c :: cs') 0 := by
        funext x
        simp only [pset, List.mem_singleton, List.mem_cons]
        by_cases hx : x = c <;> by_cases hx' : x ∈ cs' <;> simp [hx, hx']
      rw [this] at hi3
      exact hi3
    · intro x hx
      have hxc : ¬ Desc G c x := hx c (by simp)
      have hxne : x ≠ c := fun e => hxc (e ▸ Desc.refl)
      have h3 := hfr3 x (by
        intro a ha hd
        exact hx a (by simp [ha]) (Desc.mono hpost.sub hd))
      constructor
      · rw [h3.1, hpost.frame x hxc, hg1]; simp [hxne]
      · rw [h3.2, hpost.gframe x hxc]
    · intro p y hy
      exact hpost.sub p y (hsub3 p y hy)

theorem release_spec : ∀ f : Nat, RelP f ∧ RelQ f := by
  intro f
  induction f with
  | zero =>
    constructor
    · intro m G hold pend Z s _ _ _ _ _ _ hf
      have : 0 < (brank G m.size s + 1) * (m.size + 2) := Nat.mul_pos (by omega) (by omega)
      omega
    · intro m G hold pend Z cs ptr r _ _ _ _ hf
      omega
  | succ f ih => exact ⟨relP_step ih.2, relQ_step ih.1 ih.2⟩

/-- `xmpp_stanza_release` of a reference the caller holds to a stanza that is a ROOT -/
theorem release_root {m : Mem} {G : Ghost} {hold : Nat → Nat} {s : Nat} (h : Inv m G hold) (hh : 0 < hold s)
    (hnp : ¬ HasPar G s) :
    ∃ m' G' b, release m.fuel m s = .ok (m', b) ∧ Inv m' G' (unbump hold s) ∧ m'.size = m.size ∧
      (b = true ↔ hold s = 1) := by
  have hl : (m.get s).live = true := (h.held s (by simpa using hh)).1
  have hroot := h.root s hl (by simp) hnp rfl
  -- the reference being released moves from `hold` to `pend`
  have h0 : InvP m G (unbump hold s) (pset (fun _ => 0) [s] 1) [] := by
    constructor
    · exact h.chain
    · exact h.nokids
    · exact h.kid
    · exact h.nodup
    · exact h.uniq
    · exact h.rank
    · intro x hlx hzx
      have := h.ref x hlx hzx
      simp only [unbump, pset, List.mem_singleton]
      by_cases hx : x = s
      · subst hx; simp; omega
      · simp [hx]; simpa using this
    · intro x hlx hzx hp hpe
      exact h.root x hlx hzx hp rfl
    · intro x hx
      by_cases hxs : x = s
      · subst hxs; exact ⟨hl, by simp⟩
      · simp only [unbump, pset, List.mem_singleton, hxs, if_false] at hx
        exact h.held x (by simpa using hx)
    · intro x hx
      by_cases hxs : x = s
      · subst hxs; exact hnp
      · simp [pset, hxs] at hx
  obtain ⟨m', G', b, he, hi, hpost, hb⟩ :=
    (release_spec m.fuel).1 m G (unbump hold s) (pset (fun _ => 0) [s] 1) [] s h0 hl (by simp) hnp
      (by simp [pset]) hroot
      (by
        have := brank_le G m.size s
        unfold Mem.fuel
        exact Nat.mul_le_mul_right _ (by omega))
  refine ⟨m', G', b, he, ?_, hpost.size, ?_⟩
  · have : pset (pset (fun _ => 0) [s] 1) [s] 0 = fun _ => 0 := by
      funext x; simp only [pset, List.mem_singleton]; split <;> rfl
    rw [this] at hi
    exact hi
  · rw [hb]; simp [unbump]; omega

end Strophe.Store
