/-
xmpp_stanza_release keeps the ownership invariant: the cascade frees exactly the stanzas nobody else
refers to, detaches the survivors completely, and never touches a freed block.
-/
import Strophe.Lemmas.StoreInv

namespace Strophe.Store
open Strophe Strophe.Stanza

/-- `pend` with the listed stanzas set to `v` -/
def pset (pend : Nat → Nat) (l : List Nat) (v : Nat) : Nat → Nat := fun x => if x ∈ l then v else pend x

theorem Desc.mono {G G' : Ghost} (hsub : ∀ p y, y ∈ G'.kids p → y ∈ G.kids p) {a x : Nat} (h : Desc G' a x) :
    Desc G a x := by
  induction h with
  | refl => exact Desc.refl
  | step _ hx ih => exact Desc.step ih (hsub _ _ hx)

/-- what a release of `s` may have changed -/
structure RelPost (m m' : Mem) (G G' : Ghost) (s : Nat) : Prop where
  size : m'.size = m.size
  rank : G'.rank = G.rank
  frame : ∀ x, ¬ Desc G s x → m'.get x = m.get x
  gframe : ∀ x, ¬ Desc G s x → G'.kids x = G.kids x
  sub : ∀ p y, y ∈ G'.kids p → y ∈ G.kids p

theorem brank_congr {G G' : Ghost} (h : G'.rank = G.rank) (n x : Nat) : brank G' n x = brank G n x := by
  simp [brank, h]

/-- the branch `ref > 1` -/
theorem release_keep {m : Mem} {G : Ghost} {hold pend : Nat → Nat} {Z : List Nat} {s : Nat}
    (h : InvP m G hold pend Z) (hl : (m.get s).live = true) (hz : s ∉ Z) (hnp : ¬ HasPar G s)
    (hps : pend s = 1) (hlinks : (m.get s).next = none ∧ (m.get s).parent = none) (hh : 0 < hold s) :
    InvP (m.put s { m.get s with ref := (m.get s).ref - 1 }) G hold (pset pend [s] 0) Z := by
  have hs := Mem.live_lt hl
  have hg : ∀ x, (m.put s { m.get s with ref := (m.get s).ref - 1 }).get x =
      if x = s then { m.get s with ref := (m.get s).ref - 1 } else m.get x := by
    intro x; rw [Mem.get_put]; by_cases hx : x = s <;> simp [hx, hs]
  have hlive : ∀ x, ((m.put s { m.get s with ref := (m.get s).ref - 1 }).get x).live = (m.get x).live := by
    intro x; rw [hg]; split <;> simp_all
  constructor
  · intro p hlp hzp
    rw [hlive] at hlp
    have hc : ((m.put s { m.get s with ref := (m.get s).ref - 1 }).get p).children = (m.get p).children := by
      rw [hg]; split <;> simp_all
    rw [hc]
    apply Chain.congr (h.chain p hlp hzp)
    intro a _
    refine ⟨hlive a, ?_⟩
    rw [hg]; split <;> simp_all
  · intro p hp; rw [hlive] at hp; exact h.nokids p hp
  · intro p c hc
    have := h.kid p c hc
    rw [hlive]
    refine ⟨this.1, this.2.1, ?_⟩
    rw [hg]; split <;> simp_all
  · exact h.nodup
  · exact h.uniq
  · exact h.rank
  · intro x hlx hzx
    rw [hlive] at hlx
    have := h.ref x hlx hzx
    rw [hg]
    simp only [pset]
    split
    · next hx =>
      subst hx
      rw [hpN_not hnp, hps] at this
      simp; rw [hpN_not hnp]; omega
    · next hx => simp [hx]; exact this
  · intro x hlx hzx hp hpe
    rw [hlive] at hlx
    rw [hg]
    split
    · next hx => subst hx; exact hlinks
    · next hx =>
      simp only [pset, List.mem_singleton, hx, if_false] at hpe
      exact h.root x hlx hzx hp hpe
  · intro x hx
    rw [hlive]
    by_cases hxs : x = s
    · subst hxs; exact ⟨hl, hz⟩
    · simp only [pset, List.mem_singleton, hxs, if_false] at hx
      exact h.held x hx
  · intro x hx
    by_cases hxs : x = s
    · subst hxs; exact hnp
    · simp only [pset, List.mem_singleton, hxs, if_false] at hx
      exact h.pendRoot x hx

/-- the ghost step at the point of no return: `s` becomes a zombie, its children pending roots -/
theorem release_zombify {m : Mem} {G : Ghost} {hold pend : Nat → Nat} {Z : List Nat} {s : Nat}
    (h : InvP m G hold pend Z) (hl : (m.get s).live = true) (hz : s ∉ Z) (hnp : ¬ HasPar G s)
    (hps : pend s = 1) (hh : hold s = 0) :
    InvP m ⟨fun q => if q = s then [] else G.kids q, G.rank⟩ hold
      (fun x => if x = s then 0 else if x ∈ G.kids s then 1 else pend x) (s :: Z) := by
  have hsub : ∀ q y, y ∈ (if q = s then [] else G.kids q) → y ∈ G.kids q ∧ q ≠ s := by
    intro q y hy; by_cases hq : q = s <;> simp_all
  have hhp : ∀ x, x ∉ G.kids s →
      (HasPar ⟨fun q => if q = s then [] else G.kids q, G.rank⟩ x ↔ HasPar G x) := by
    intro x hx
    constructor
    · rintro ⟨q, hq⟩; exact ⟨q, (hsub q x hq).1⟩
    · rintro ⟨q, hq⟩
      refine ⟨q, ?_⟩
      have : q ≠ s := fun e => hx (e ▸ hq)
      simp [this, hq]
  have hnhp : ∀ x, x ∈ G.kids s → ¬ HasPar ⟨fun q => if q = s then [] else G.kids q, G.rank⟩ x := by
    rintro x hx ⟨q, hq⟩
    have := hsub q x hq
    exact this.2 (h.uniq q s x this.1 hx)
  have hkid_ne : ∀ x, x ∈ G.kids s → x ≠ s := fun x hx e => hnp ⟨s, e ▸ hx⟩
  constructor
  · intro p hlp hzp
    have hps' : p ≠ s := fun e => hzp (by simp [e])
    have hzp' : p ∉ Z := fun e => hzp (by simp [e])
    simp only [hps', if_false]
    exact h.chain p hlp hzp'
  · intro p hp
    by_cases hps' : p = s
    · simp [hps']
    · simp only [hps', if_false]
      apply h.nokids p
      rcases hp with hp | hp
      · exact Or.inl hp
      · right; simpa [hps'] using hp
  · intro p c hc
    have := hsub p c hc
    have hk := h.kid p c this.1
    refine ⟨hk.1, ?_, hk.2.2⟩
    intro hcz
    simp only [List.mem_cons] at hcz
    rcases hcz with e | e
    · exact hnp ⟨p, e ▸ this.1⟩
    · exact hk.2.1 e
  · intro p; by_cases hp : p = s <;> simp [hp, h.nodup p]
  · intro p q c hp hq; exact h.uniq p q c (hsub p c hp).1 (hsub q c hq).1
  · intro p c hc; exact h.rank p c (hsub p c hc).1
  · intro x hlx hzx
    have hxs : x ≠ s := fun e => hzx (by simp [e])
    have hzx' : x ∉ Z := fun e => hzx (by simp [e])
    have hr := h.ref x hlx hzx'
    simp only [hxs, if_false]
    by_cases hxk : x ∈ G.kids s
    · have hp0 : pend x = 0 := by
        apply Classical.byContradiction
        intro hne
        exact h.pendRoot x (by omega) ⟨s, hxk⟩
      simp only [hxk, if_true]
      rw [hpN_not (hnhp x hxk)]
      rw [hpN_of ⟨s, hxk⟩, hp0] at hr
      omega
    · simp only [hxk, if_false]
      have : hpN ⟨fun q => if q = s then [] else G.kids q, G.rank⟩ x = hpN G x := by
        by_cases hh' : HasPar G x
        · rw [hpN_of hh', hpN_of ((hhp x hxk).mpr hh')]
        · rw [hpN_not hh', hpN_not (fun e => hh' ((hhp x hxk).mp e))]
      rw [this]; exact hr
  · intro x hlx hzx hp hpe
    have hxs : x ≠ s := fun e => hzx (by simp [e])
    have hzx' : x ∉ Z := fun e => hzx (by simp [e])
    simp only [hxs, if_false] at hpe
    by_cases hxk : x ∈ G.kids s
    · simp [hxk] at hpe
    · simp only [hxk, if_false] at hpe
      exact h.root x hlx hzx' (fun e => hp ((hhp x hxk).mpr e)) hpe
  · intro x hx
    by_cases hxs : x = s
    · subst hxs; simp [hh] at hx
    · simp only [hxs, if_false] at hx
      by_cases hxk : x ∈ G.kids s
      · have hk := h.kid s x hxk
        exact ⟨hk.1, by simp [hxs, hk.2.1]⟩
      · simp only [hxk, if_false] at hx
        have := h.held x hx
        exact ⟨this.1, by simp [hxs, this.2]⟩
  · intro x hx
    by_cases hxs : x = s
    · subst hxs; simp at hx
    · simp only [hxs, if_false] at hx
      by_cases hxk : x ∈ G.kids s
      · exact hnhp x hxk
      · simp only [hxk, if_false] at hx
        exact fun e => h.pendRoot x hx ((hhp x hxk).mp e)

/-- the zombie is returned to the allocator -/
theorem release_bury {m : Mem} {G : Ghost} {hold pend : Nat → Nat} {Z : List Nat} {s : Nat}
    (h : InvP m G hold pend (s :: Z)) (hl : (m.get s).live = true) (hh : hold s + pend s = 0) :
    InvP (freeNode m s (m.get s)) G hold pend Z := by
  have hs := Mem.live_lt hl
  have hg : ∀ x, (freeNode m s (m.get s)).get x = if x = s then { m.get s with live := false } else m.get x := by
    intro x
    show (m.put s { m.get s with live := false }).get x = _
    rw [Mem.get_put]; by_cases hx : x = s <;> simp [hx, hs]
  have hks : G.kids s = [] := h.nokids s (Or.inr (by simp))
  have hnk : ∀ p c, c ∈ G.kids p → c ≠ s ∧ p ≠ s := by
    intro p c hc
    constructor
    · intro e; exact (h.kid p c hc).2.1 (by simp [e])
    · intro e; rw [e, hks] at hc; simp at hc
  constructor
  · intro p hlp hzp
    rw [hg] at hlp
    by_cases hps : p = s
    · simp [hps] at hlp
    · simp only [hps, if_false] at hlp
      rw [hg]; simp only [hps, if_false]
      apply Chain.congr (h.chain p hlp (by simp [hps, hzp]))
      intro a ha
      have := (hnk p a ha).1
      rw [hg]; simp [this]
  · intro p hp
    by_cases hps : p = s
    · rw [hps]; exact hks
    · apply h.nokids p
      rcases hp with hp | hp
      · left; rw [hg] at hp; simpa [hps] using hp
      · right; simp [hp]
  · intro p c hc
    have hk := h.kid p c hc
    have := (hnk p c hc).1
    rw [hg]; simp only [this, if_false]
    exact ⟨hk.1, fun e => hk.2.1 (by simp [e]), hk.2.2⟩
  · exact h.nodup
  · exact h.uniq
  · exact h.rank
  · intro x hlx hzx
    rw [hg] at hlx ⊢
    by_cases hxs : x = s
    · simp [hxs] at hlx
    · simp only [hxs, if_false] at hlx ⊢
      exact h.ref x hlx (by simp [hxs, hzx])
  · intro x hlx hzx hp hpe
    rw [hg] at hlx ⊢
    by_cases hxs : x = s
    · simp [hxs] at hlx
    · simp only [hxs, if_false] at hlx ⊢
      exact h.root x hlx (by simp [hxs, hzx]) hp hpe
  · intro x hx
    by_cases hxs : x = s
    · subst hxs; omega
    · have := h.held x hx
      rw [hg]; simp only [hxs, if_false]
      exact ⟨this.1, fun e => this.2 (by simp [e])⟩
  · exact h.pendRoot

/-- detaching a pending root (`next`, `prev`, `parent` cleared) does not disturb anybody -/
theorem release_detach {m : Mem} {G : Ghost} {hold pend : Nat → Nat} {Z : List Nat} {c : Nat}
    (h : InvP m G hold pend Z) (hl : (m.get c).live = true) (hnp : ¬ HasPar G c) (hpc : 0 < pend c) :
    InvP (m.put c { m.get c with next := none, prev := none, parent := none }) G hold pend Z := by
  have hs := Mem.live_lt hl
  have hg : ∀ x, (m.put c { m.get c with next := none, prev := none, parent := none }).get x =
      if x = c then { m.get c with next := none, prev := none, parent := none } else m.get x := by
    intro x; rw [Mem.get_put]; by_cases hx : x = c <;> simp [hx, hs]
  have hlive : ∀ x, ((m.put c { m.get c with next := none, prev := none, parent := none }).get x).live = (m.get x).live := by
    intro x; rw [hg]; split <;> simp_all
  have hck : ∀ q, c ∉ G.kids q := fun q hq => hnp ⟨q, hq⟩
  constructor
  · intro p hlp hzp
    rw [hlive] at hlp
    have hc : ((m.put c { m.get c with next := none, prev := none, parent := none }).get p).children = (m.get p).children := by
      rw [hg]; split <;> simp_all
    rw [hc]
    apply Chain.congr (h.chain p hlp hzp)
    intro a ha
    have : a ≠ c := fun e => hck p (e ▸ ha)
    rw [hg]; simp [this]
  · intro p hp; rw [hlive] at hp; exact h.nokids p hp
  · intro p x hx
    have := h.kid p x hx
    have hxc : x ≠ c := fun e => hck p (e ▸ hx)
    rw [hg]; simp only [hxc, if_false]; exact this
  · exact h.nodup
  · exact h.uniq
  · exact h.rank
  · intro x hlx hzx
    rw [hlive] at hlx
    have := h.ref x hlx hzx
    rw [hg]; split <;> simp_all
  · intro x hlx hzx hp hpe
    rw [hlive] at hlx
    rw [hg]
    split
    · next hx => subst hx; omega
    · exact h.root x hlx hzx hp hpe
  · intro x hx; rw [hlive]; exact h.held x hx
  · exact h.pendRoot

end Strophe.Store
