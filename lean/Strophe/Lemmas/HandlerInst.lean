/-
C11 helper lemmas, part 3: the four loops of the model are instances of `gloop`
(`cfgH` stanza handlers, `cfgI` id handlers of one id, `cfgT` timed handlers of one connection,
`cfgG` context-wide timed handlers).
-/
import Strophe.Lemmas.HandlerLoop

namespace Strophe.Lemmas.Handler
open Strophe Strophe.Handler

/-! ### building blocks for `Evo` -/

theorem filter_nil_dels (l : List Item) : l.filter (fun x => decide (x.fn ∉ ([] : List Nat))) = l :=
  List.filter_eq_self.mpr (by simp)

theorem Evo.del (front : Bool) (live : Item → Bool) (n fn : Nat) (l : List Item) :
    Evo front live n [fn] l (delFn l fn) := by
  refine ⟨[], [], ?_, by simp, by simp, by simp⟩
  simp [delFn_eq_filter]

theorem Evo.app (live : Item → Bool) (n : Nat) (l : List Item) (it : Item) (hl : live it = false)
    (hn : n ≤ it.uid) : Evo false live n [] l (l ++ [it]) := by
  refine ⟨[], [it], ?_, by simpa using hn, by simp, by simpa using hl⟩
  rw [filter_nil_dels]; simp

theorem Evo.cons (live : Item → Bool) (n : Nat) (l : List Item) (it : Item) (hn : n ≤ it.uid) :
    Evo true live n [] l (it :: l) := by
  refine ⟨[it], [], ?_, by simpa using hn, by simp, by simp⟩
  rw [filter_nil_dels]; simp

/-! ### the lenses -/

def delsH (c : Nat) : Act → List Nat
  | .del c' fn => if c' = c then [fn] else []
  | _ => []

def delsI (c : Nat) (id : Str) : Act → List Nat
  | .delId c' fn id' => if c' = c ∧ id' = id then [fn] else []
  | _ => []

def delsT (c : Nat) : Act → List Nat
  | .delTimed c' fn => if c' = c then [fn] else []
  | _ => []

def delsG : Act → List Nat
  | .delGlobal fn => [fn]
  | _ => []

def cfgH (c : Nat) (s : Stanza) (neg : Bool) : Cfg where
  get st := (st.conns c).handlers
  set st l := updConn st c fun cn => { cn with handlers := l }
  pred _ it := gateOpen neg it && matchesC it.flt s
  live it := it.enabled
  front := false
  cls := .stanza
  conn := c
  name := s.name
  dels := delsH c
  stamp := false
  inv st := (st.conns c).negotiated = neg

def cfgI (c : Nat) (s : Stanza) (id : Str) (neg : Bool) : Cfg where
  get st := (st.conns c).idTab id
  set st l := updConn st c fun cn => { cn with idTab := tabSet cn.idTab id l }
  pred _ it := gateOpen neg it
  live it := it.enabled
  front := false
  cls := .stanza
  conn := c
  name := s.name
  dels := delsI c id
  stamp := false
  inv st := (st.conns c).negotiated = neg

def cfgT (c : Nat) (neg : Bool) : Cfg where
  get st := (st.conns c).timed
  set st l := updConn st c fun cn => { cn with timed := l }
  pred now it := gateOpen neg it && due now it
  live it := it.enabled
  front := true
  cls := .timed
  conn := c
  name := none
  dels := delsT c
  stamp := true
  inv st := (st.conns c).negotiated = neg

def cfgG : Cfg where
  get st := st.gtimed
  set st l := { st with gtimed := l }
  pred now it := due now it
  live _ := true
  front := true
  cls := .global
  conn := 0
  name := none
  dels := delsG
  stamp := true
  inv _ := True

theorem gateOpen_enabled {neg : Bool} {it : Item} (h : gateOpen neg it = true) : it.enabled = true := by
  unfold gateOpen at h
  simp only [Bool.and_eq_true] at h
  exact h.1

/-! ### how one API call changes each list -/

theorem handlers_applyAct (st : St) (a : Act) (c : Nat) :
    Evo false (·.enabled) st.nextUid (delsH c a) (st.conns c).handlers ((applyAct st a).conns c).handlers := by
  cases a with
  | add c' fn ud flt =>
    simp only [applyAct, handlerAdd, delsH]
    split
    · exact Evo.refl _ _ _ _
    · by_cases h : c = c'
      · subst h; simp only [updConn_conns_same]
        exact Evo.app _ _ _ _ rfl (Nat.le_refl _)
      · simp only [updConn_conns_other _ _ _ _ h]; exact Evo.refl _ _ _ _
  | addId c' fn ud id =>
    simp only [applyAct, idHandlerAdd, delsH]
    split
    · exact Evo.refl _ _ _ _
    · by_cases h : c = c'
      · subst h; simp only [updConn_conns_same]; exact Evo.refl _ _ _ _
      · simp only [updConn_conns_other _ _ _ _ h]; exact Evo.refl _ _ _ _
  | addTimed c' fn ud p =>
    simp only [applyAct, timedAdd, delsH]
    split
    · exact Evo.refl _ _ _ _
    · by_cases h : c = c'
      · subst h; simp only [updConn_conns_same]; exact Evo.refl _ _ _ _
      · simp only [updConn_conns_other _ _ _ _ h]; exact Evo.refl _ _ _ _
  | addGlobal fn ud p =>
    simp only [applyAct, globalTimedAdd, delsH]
    split <;> exact Evo.refl _ _ _ _
  | del c' fn =>
    simp only [applyAct, handlerDelete, delsH]
    by_cases h : c' = c
    · subst h; simp only [updConn_conns_same, if_true]; exact Evo.del _ _ _ _ _
    · simp only [h, if_false]
      rw [updConn_conns_other _ _ _ _ (Ne.symm h)]; exact Evo.refl _ _ _ _
  | delId c' fn id =>
    simp only [applyAct, idHandlerDelete, delsH]
    by_cases h : c = c'
    · subst h; simp only [updConn_conns_same]; exact Evo.refl _ _ _ _
    · rw [updConn_conns_other _ _ _ _ h]; exact Evo.refl _ _ _ _
  | delTimed c' fn =>
    simp only [applyAct, timedDelete, delsH]
    by_cases h : c = c'
    · subst h; simp only [updConn_conns_same]; exact Evo.refl _ _ _ _
    · rw [updConn_conns_other _ _ _ _ h]; exact Evo.refl _ _ _ _
  | delGlobal fn => exact Evo.refl _ _ _ _
  | send c' =>
    simp only [applyAct, send, delsH]
    by_cases h : c = c'
    · subst h; simp only [updConn_conns_same]
      split <;> exact Evo.refl _ _ _ _
    · rw [updConn_conns_other _ _ _ _ h]; exact Evo.refl _ _ _ _
  | tick n => exact Evo.refl _ _ _ _

theorem idTab_applyAct (st : St) (a : Act) (c : Nat) (id : Str) :
    Evo false (·.enabled) st.nextUid (delsI c id a) ((st.conns c).idTab id) (((applyAct st a).conns c).idTab id) := by
  cases a with
  | add c' fn ud flt =>
    simp only [applyAct, handlerAdd, delsI]
    split
    · exact Evo.refl _ _ _ _
    · by_cases h : c = c'
      · subst h; simp only [updConn_conns_same]; exact Evo.refl _ _ _ _
      · simp only [updConn_conns_other _ _ _ _ h]; exact Evo.refl _ _ _ _
  | addId c' fn ud id' =>
    simp only [applyAct, idHandlerAdd, delsI]
    split
    · exact Evo.refl _ _ _ _
    · by_cases h : c = c'
      · subst h; simp only [updConn_conns_same]
        by_cases hi : id = id'
        · subst hi; simp only [tabSet_same]
          exact Evo.app _ _ _ _ rfl (Nat.le_refl _)
        · simp only [tabSet_other _ _ _ _ hi]; exact Evo.refl _ _ _ _
      · simp only [updConn_conns_other _ _ _ _ h]; exact Evo.refl _ _ _ _
  | addTimed c' fn ud p =>
    simp only [applyAct, timedAdd, delsI]
    split
    · exact Evo.refl _ _ _ _
    · by_cases h : c = c'
      · subst h; simp only [updConn_conns_same]; exact Evo.refl _ _ _ _
      · simp only [updConn_conns_other _ _ _ _ h]; exact Evo.refl _ _ _ _
  | addGlobal fn ud p =>
    simp only [applyAct, globalTimedAdd, delsI]
    split <;> exact Evo.refl _ _ _ _
  | del c' fn =>
    simp only [applyAct, handlerDelete, delsI]
    by_cases h : c = c'
    · subst h; simp only [updConn_conns_same]; exact Evo.refl _ _ _ _
    · rw [updConn_conns_other _ _ _ _ h]; exact Evo.refl _ _ _ _
  | delId c' fn id' =>
    simp only [applyAct, idHandlerDelete, delsI]
    by_cases h : c' = c
    · subst h; simp only [updConn_conns_same, true_and]
      by_cases hi : id' = id
      · subst hi; simp only [tabSet_same, if_true]; exact Evo.del _ _ _ _ _
      · simp only [hi, if_false, tabSet_other _ _ _ _ (Ne.symm hi)]; exact Evo.refl _ _ _ _
    · simp only [h, false_and, if_false]
      rw [updConn_conns_other _ _ _ _ (Ne.symm h)]; exact Evo.refl _ _ _ _
  | delTimed c' fn =>
    simp only [applyAct, timedDelete, delsI]
    by_cases h : c = c'
    · subst h; simp only [updConn_conns_same]; exact Evo.refl _ _ _ _
    · rw [updConn_conns_other _ _ _ _ h]; exact Evo.refl _ _ _ _
  | delGlobal fn => exact Evo.refl _ _ _ _
  | send c' =>
    simp only [applyAct, send, delsI]
    by_cases h : c = c'
    · subst h; simp only [updConn_conns_same]
      split <;> exact Evo.refl _ _ _ _
    · rw [updConn_conns_other _ _ _ _ h]; exact Evo.refl _ _ _ _
  | tick n => exact Evo.refl _ _ _ _

theorem timedAddList_evo {l l' : List Item} {n now fn ud p : Nat} {user : Bool} (live : Item → Bool)
    (e : timedAddList l n now fn ud p user = some l') : Evo true live n [] l l' := by
  unfold timedAddList at e
  split at e
  · cases e
  · injection e with e; subst e
    exact Evo.cons _ _ _ _ (Nat.le_refl _)

theorem timed_applyAct (st : St) (a : Act) (c : Nat) :
    Evo true (·.enabled) st.nextUid (delsT c a) (st.conns c).timed ((applyAct st a).conns c).timed := by
  cases a with
  | add c' fn ud flt =>
    simp only [applyAct, handlerAdd, delsT]
    split
    · exact Evo.refl _ _ _ _
    · by_cases h : c = c'
      · subst h; simp only [updConn_conns_same]; exact Evo.refl _ _ _ _
      · simp only [updConn_conns_other _ _ _ _ h]; exact Evo.refl _ _ _ _
  | addId c' fn ud id =>
    simp only [applyAct, idHandlerAdd, delsT]
    split
    · exact Evo.refl _ _ _ _
    · by_cases h : c = c'
      · subst h; simp only [updConn_conns_same]; exact Evo.refl _ _ _ _
      · simp only [updConn_conns_other _ _ _ _ h]; exact Evo.refl _ _ _ _
  | addTimed c' fn ud p =>
    simp only [applyAct, timedAdd, delsT]
    split
    · exact Evo.refl _ _ _ _
    · rename_i l e
      by_cases h : c = c'
      · subst h; simp only [updConn_conns_same]
        exact timedAddList_evo _ e
      · simp only [updConn_conns_other _ _ _ _ h]; exact Evo.refl _ _ _ _
  | addGlobal fn ud p =>
    simp only [applyAct, globalTimedAdd, delsT]
    split <;> exact Evo.refl _ _ _ _
  | del c' fn =>
    simp only [applyAct, handlerDelete, delsT]
    by_cases h : c = c'
    · subst h; simp only [updConn_conns_same]; exact Evo.refl _ _ _ _
    · rw [updConn_conns_other _ _ _ _ h]; exact Evo.refl _ _ _ _
  | delId c' fn id =>
    simp only [applyAct, idHandlerDelete, delsT]
    by_cases h : c = c'
    · subst h; simp only [updConn_conns_same]; exact Evo.refl _ _ _ _
    · rw [updConn_conns_other _ _ _ _ h]; exact Evo.refl _ _ _ _
  | delTimed c' fn =>
    simp only [applyAct, timedDelete, delsT]
    by_cases h : c' = c
    · subst h; simp only [updConn_conns_same, if_true]; exact Evo.del _ _ _ _ _
    · simp only [h, if_false]
      rw [updConn_conns_other _ _ _ _ (Ne.symm h)]; exact Evo.refl _ _ _ _
  | delGlobal fn => exact Evo.refl _ _ _ _
  | send c' =>
    simp only [applyAct, send, delsT]
    by_cases h : c = c'
    · subst h; simp only [updConn_conns_same]
      split <;> exact Evo.refl _ _ _ _
    · rw [updConn_conns_other _ _ _ _ h]; exact Evo.refl _ _ _ _
  | tick n => exact Evo.refl _ _ _ _

theorem gtimed_applyAct (st : St) (a : Act) :
    Evo true (fun _ => true) st.nextUid (delsG a) st.gtimed (applyAct st a).gtimed := by
  cases a with
  | add c' fn ud flt =>
    simp only [applyAct, handlerAdd, delsG]
    split <;> exact Evo.refl _ _ _ _
  | addId c' fn ud id =>
    simp only [applyAct, idHandlerAdd, delsG]
    split <;> exact Evo.refl _ _ _ _
  | addTimed c' fn ud p =>
    simp only [applyAct, timedAdd, delsG]
    split <;> exact Evo.refl _ _ _ _
  | addGlobal fn ud p =>
    simp only [applyAct, globalTimedAdd, delsG]
    split
    · exact Evo.refl _ _ _ _
    · rename_i l e
      exact timedAddList_evo _ e
  | del c' fn => exact Evo.refl _ _ _ _
  | delId c' fn id => exact Evo.refl _ _ _ _
  | delTimed c' fn => exact Evo.refl _ _ _ _
  | delGlobal fn => exact Evo.del _ _ _ _ _
  | send c' => exact Evo.refl _ _ _ _
  | tick n => exact Evo.refl _ _ _ _

/-! ### the lenses are lawful -/

theorem cfgH_ok (c : Nat) (s : Stanza) (neg : Bool) : (cfgH c s neg).Ok where
  get_set st l := by simp [cfgH]
  set_cnt st l := rfl
  set_log st l := rfl
  set_now st l := rfl
  set_nextUid st l := rfl
  get_withLog st cnt log := rfl
  inv_withLog st cnt log h := h
  inv_set st l h := by simpa [cfgH] using h
  inv_act st a h := by
    show ((applyAct st a).conns c).negotiated = neg
    rw [applyAct_negotiated]; exact h
  evo_act st a := handlers_applyAct st a c
  pred_live now it h := by
    simp only [cfgH, Bool.and_eq_true] at h
    exact gateOpen_enabled h.1
  wf_get st w := w.h c
  wf_set_filter st p w := by
    simp only [cfgH, cfgI, cfgT]
    apply WF.updc' w c
    · exact (w.h c).filter p
    · intro id; exact w.i c id
    · exact w.t c
  wf_set_last st u t w := by
    simp only [cfgH, cfgI, cfgT]
    apply WF.updc' w c
    · exact (w.h c).of_maps (setLast_uid _ _ _) (setLast_key _ _ _)
    · intro id; exact w.i c id
    · exact w.t c

theorem cfgI_ok (c : Nat) (s : Stanza) (id : Str) (neg : Bool) : (cfgI c s id neg).Ok where
  get_set st l := by simp [cfgI]
  set_cnt st l := rfl
  set_log st l := rfl
  set_now st l := rfl
  set_nextUid st l := rfl
  get_withLog st cnt log := rfl
  inv_withLog st cnt log h := h
  inv_set st l h := by simpa [cfgI] using h
  inv_act st a h := by
    show ((applyAct st a).conns c).negotiated = neg
    rw [applyAct_negotiated]; exact h
  evo_act st a := idTab_applyAct st a c id
  pred_live now it h := gateOpen_enabled h
  wf_get st w := w.i c id
  wf_set_filter st p w := by
    simp only [cfgH, cfgI, cfgT]
    apply WF.updc' w c (hh := w.h c) (ht := w.t c)
    intro id'
    by_cases h : id' = id
    · subst h; simp only [tabSet_same]; exact (w.i c id').filter p
    · simp only [tabSet_other _ _ _ _ h]; exact w.i c id'
  wf_set_last st u t w := by
    simp only [cfgH, cfgI, cfgT]
    apply WF.updc' w c (hh := w.h c) (ht := w.t c)
    intro id'
    by_cases h : id' = id
    · subst h; simp only [tabSet_same]
      exact (w.i c id').of_maps (setLast_uid _ _ _) (setLast_key _ _ _)
    · simp only [tabSet_other _ _ _ _ h]; exact w.i c id'

theorem cfgT_ok (c : Nat) (neg : Bool) : (cfgT c neg).Ok where
  get_set st l := by simp [cfgT]
  set_cnt st l := rfl
  set_log st l := rfl
  set_now st l := rfl
  set_nextUid st l := rfl
  get_withLog st cnt log := rfl
  inv_withLog st cnt log h := h
  inv_set st l h := by simpa [cfgT] using h
  inv_act st a h := by
    show ((applyAct st a).conns c).negotiated = neg
    rw [applyAct_negotiated]; exact h
  evo_act st a := timed_applyAct st a c
  pred_live now it h := by
    simp only [cfgT, Bool.and_eq_true] at h
    exact gateOpen_enabled h.1
  wf_get st w := w.t c
  wf_set_filter st p w := by
    simp only [cfgH, cfgI, cfgT]
    apply WF.updc' w c
    · exact w.h c
    · intro id; exact w.i c id
    · exact (w.t c).filter p
  wf_set_last st u t w := by
    simp only [cfgH, cfgI, cfgT]
    apply WF.updc' w c
    · exact w.h c
    · intro id; exact w.i c id
    · exact (w.t c).of_maps (setLast_uid _ _ _) (setLast_key _ _ _)

theorem cfgG_ok : cfgG.Ok where
  get_set st l := rfl
  set_cnt st l := rfl
  set_log st l := rfl
  set_now st l := rfl
  set_nextUid st l := rfl
  get_withLog st cnt log := rfl
  inv_withLog st cnt log h := h
  inv_set st l h := trivial
  inv_act st a h := trivial
  evo_act st a := gtimed_applyAct st a
  pred_live now it h := rfl
  wf_get st w := w.g
  wf_set_filter st p w := ⟨w.h, w.i, w.t, w.g.filter p⟩
  wf_set_last st u t w := ⟨w.h, w.i, w.t, w.g.of_maps (setLast_uid _ _ _) (setLast_key _ _ _)⟩


/-! ### the model's loops are `gloop` -/

theorem cfgH_set (c : Nat) (s : Stanza) (neg : Bool) (st : St) (l : List Item) :
    (cfgH c s neg).set st l = updConn st c (fun cn => { cn with handlers := l }) := rfl
theorem cfgH_get (c : Nat) (s : Stanza) (neg : Bool) (st : St) :
    (cfgH c s neg).get st = (st.conns c).handlers := rfl
theorem cfgI_set (c : Nat) (s : Stanza) (id : Str) (neg : Bool) (st : St) (l : List Item) :
    (cfgI c s id neg).set st l = updConn st c (fun cn => { cn with idTab := tabSet cn.idTab id l }) := rfl
theorem cfgI_get (c : Nat) (s : Stanza) (id : Str) (neg : Bool) (st : St) :
    (cfgI c s id neg).get st = (st.conns c).idTab id := rfl
theorem cfgT_set (c : Nat) (neg : Bool) (st : St) (l : List Item) :
    (cfgT c neg).set st l = updConn st c (fun cn => { cn with timed := l }) := rfl
theorem cfgT_get (c : Nat) (neg : Bool) (st : St) : (cfgT c neg).get st = (st.conns c).timed := rfl

theorem updConn_congr (st : St) (c : Nat) (f g : Conn → Conn) (h : f (st.conns c) = g (st.conns c)) :
    updConn st c f = updConn st c g := by
  unfold updConn
  congr 1
  funext i
  by_cases hi : i = c
  · subst hi; simp [h]
  · simp [hi]

theorem pre_nostamp (L : Cfg) (h : L.stamp = false) (st : St) (it : Item) : L.pre st it = st := by
  simp [Cfg.pre, h]

theorem pre_stamp (L : Cfg) (h : L.stamp = true) (st : St) (it : Item) :
    L.pre st it = L.set st (setLast (L.get st) it.uid st.now) := by
  simp [Cfg.pre, h]

theorem invoke_inv {L : Cfg} (hL : L.Ok) (beh : Beh) (st : St) (cls : Cls) (c : Nat) (it : Item)
    (name : Option Str) (h : L.inv st) : L.inv (invoke beh st cls c it name).1 := by
  rw [invoke_eq]
  exact applyActs_inv hL _ _ (hL.inv_withLog _ _ _ h)

theorem stanzaLoop_eq (beh : Beh) (c : Nat) (s : Stanza) (neg : Bool) :
    ∀ (fuel : Nat) (st : St) (suffix : List Item), (st.conns c).negotiated = neg →
      stanzaLoop beh c s fuel st suffix = gloop beh (cfgH c s neg) fuel st suffix := by
  intro fuel
  induction fuel with
  | zero =>
    intro st suffix h
    unfold stanzaLoop gloop
    rw [h]
    rfl
  | succ fuel ih =>
    intro st suffix h
    unfold stanzaLoop gloop
    rw [h]
    show (match suffix.find? (fun it => gateOpen neg it && matchesC it.flt s) with
          | none => _ | some it => _) =
         (match suffix.find? (fun it => gateOpen neg it && matchesC it.flt s) with
          | none => _ | some it => _)
    cases suffix.find? (fun it => gateOpen neg it && matchesC it.flt s) with
    | none => rfl
    | some it =>
      simp only []
      rw [pre_nostamp _ rfl]
      show (match after ((invoke beh st Cls.stanza c it s.name).1.conns c).handlers it.uid with
            | none => _ | some rest => _) =
           (match after ((invoke beh st Cls.stanza c it s.name).1.conns c).handlers it.uid with
            | none => _ | some rest => _)
      cases after ((invoke beh st Cls.stanza c it s.name).1.conns c).handlers it.uid with
      | none => rfl
      | some rest =>
        simp only []
        have e : (updConn (invoke beh st Cls.stanza c it s.name).1 c fun cn =>
            { cn with handlers := removeUid cn.handlers it.uid }) =
            (cfgH c s neg).set (invoke beh st Cls.stanza c it s.name).1
              (removeUid ((cfgH c s neg).get (invoke beh st Cls.stanza c it s.name).1) it.uid) := by
          rw [cfgH_set, cfgH_get]
          apply updConn_congr
          rfl
        rw [e]
        refine ih _ rest ?_
        have hn := invoke_inv (cfgH_ok c s neg) beh st Cls.stanza c it s.name h
        split
        · exact hn
        · exact (cfgH_ok c s neg).inv_set _ _ hn

theorem idLoop_eq (beh : Beh) (c : Nat) (s : Stanza) (id : Str) (neg : Bool) :
    ∀ (fuel : Nat) (st : St) (suffix : List Item), (st.conns c).negotiated = neg →
      idLoop beh c s id fuel st suffix = gloop beh (cfgI c s id neg) fuel st suffix := by
  intro fuel
  induction fuel with
  | zero =>
    intro st suffix h
    unfold idLoop gloop
    rw [h]
    rfl
  | succ fuel ih =>
    intro st suffix h
    unfold idLoop gloop
    rw [h]
    show (match suffix.find? (gateOpen neg) with
          | none => _ | some it => _) =
         (match suffix.find? (gateOpen neg) with
          | none => _ | some it => _)
    cases suffix.find? (gateOpen neg) with
    | none => rfl
    | some it =>
      simp only []
      rw [pre_nostamp _ rfl]
      show (match after (((invoke beh st Cls.stanza c it s.name).1.conns c).idTab id) it.uid with
            | none => _ | some rest => _) =
           (match after (((invoke beh st Cls.stanza c it s.name).1.conns c).idTab id) it.uid with
            | none => _ | some rest => _)
      cases after (((invoke beh st Cls.stanza c it s.name).1.conns c).idTab id) it.uid with
      | none => rfl
      | some rest =>
        simp only []
        have e : (updConn (invoke beh st Cls.stanza c it s.name).1 c fun cn =>
            { cn with idTab := tabSet cn.idTab id (removeUid (cn.idTab id) it.uid) }) =
            (cfgI c s id neg).set (invoke beh st Cls.stanza c it s.name).1
              (removeUid ((cfgI c s id neg).get (invoke beh st Cls.stanza c it s.name).1) it.uid) := by
          rw [cfgI_set, cfgI_get]
          apply updConn_congr
          rfl
        rw [e]
        refine ih _ rest ?_
        have hn := invoke_inv (cfgI_ok c s id neg) beh st Cls.stanza c it s.name h
        split
        · exact hn
        · exact (cfgI_ok c s id neg).inv_set _ _ hn

theorem timedLoop_eq (beh : Beh) (c : Nat) (neg : Bool) :
    ∀ (fuel : Nat) (st : St) (suffix : List Item), (st.conns c).negotiated = neg →
      timedLoop beh c fuel st suffix = gloop beh (cfgT c neg) fuel st suffix := by
  intro fuel
  induction fuel with
  | zero =>
    intro st suffix h
    unfold timedLoop gloop
    rw [h]
    rfl
  | succ fuel ih =>
    intro st suffix h
    unfold timedLoop gloop
    rw [h]
    show (match suffix.find? (fun it => gateOpen neg it && due st.now it) with
          | none => _ | some it => _) =
         (match suffix.find? (fun it => gateOpen neg it && due st.now it) with
          | none => _ | some it => _)
    cases suffix.find? (fun it => gateOpen neg it && due st.now it) with
    | none => rfl
    | some it =>
      simp only []
      have e0 : (updConn st c fun cn => { cn with timed := setLast cn.timed it.uid st.now }) =
          (cfgT c neg).pre st it := by
        rw [pre_stamp _ rfl, cfgT_set, cfgT_get]
        apply updConn_congr
        rfl
      rw [e0]
      generalize hst0 : (cfgT c neg).pre st it = st0
      have h0 : (st0.conns c).negotiated = neg := by
        rw [← hst0, pre_stamp _ rfl]; exact (cfgT_ok c neg).inv_set _ _ h
      show (match after ((invoke beh st0 Cls.timed c it none).1.conns c).timed it.uid with
            | none => _ | some rest => _) =
           (match after ((invoke beh st0 Cls.timed c it none).1.conns c).timed it.uid with
            | none => _ | some rest => _)
      cases after ((invoke beh st0 Cls.timed c it none).1.conns c).timed it.uid with
      | none => rfl
      | some rest =>
        simp only []
        have e : (updConn (invoke beh st0 Cls.timed c it none).1 c fun cn =>
            { cn with timed := removeUid cn.timed it.uid }) =
            (cfgT c neg).set (invoke beh st0 Cls.timed c it none).1
              (removeUid ((cfgT c neg).get (invoke beh st0 Cls.timed c it none).1) it.uid) := by
          rw [cfgT_set, cfgT_get]
          apply updConn_congr
          rfl
        rw [e]
        refine ih _ rest ?_
        have hn := invoke_inv (cfgT_ok c neg) beh st0 Cls.timed c it none h0
        split
        · exact hn
        · exact (cfgT_ok c neg).inv_set _ _ hn

theorem globalLoop_eq (beh : Beh) :
    ∀ (fuel : Nat) (st : St) (suffix : List Item),
      globalLoop beh fuel st suffix = gloop beh cfgG fuel st suffix := by
  intro fuel
  induction fuel with
  | zero =>
    intro st suffix
    unfold globalLoop gloop
    rfl
  | succ fuel ih =>
    intro st suffix
    unfold globalLoop gloop
    show (match suffix.find? (due st.now) with
          | none => _ | some it => _) =
         (match suffix.find? (due st.now) with
          | none => _ | some it => _)
    cases suffix.find? (due st.now) with
    | none => rfl
    | some it =>
      simp only []
      have e0 : ({ st with gtimed := setLast st.gtimed it.uid st.now } : St) = cfgG.pre st it := by
        rw [pre_stamp _ rfl]; rfl
      rw [e0]
      generalize cfgG.pre st it = st0
      show (match after (invoke beh st0 Cls.global 0 it none).1.gtimed it.uid with
            | none => _ | some rest => _) =
           (match after (invoke beh st0 Cls.global 0 it none).1.gtimed it.uid with
            | none => _ | some rest => _)
      cases after (invoke beh st0 Cls.global 0 it none).1.gtimed it.uid with
      | none => rfl
      | some rest =>
        simp only []
        exact ih _ rest

end Strophe.Lemmas.Handler
