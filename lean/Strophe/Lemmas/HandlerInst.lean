/-
C11 helper lemmas, part 3: the four loops of the model are instances of `gloop`
(`cfgH` stanza handlers, `cfgI` id handlers of one id, `cfgT` timed handlers of one connection,
`cfgG` context-wide timed handlers).
-/
import Strophe.Lemmas.HandlerLoop

namespace Strophe.Lemmas.Handler
open Strophe Strophe.Handler

/-! ### building blocks for `Evo` -/

theorem filter_nil_dels (l : List Item) : l.filter (fun x => decide (x.fn ∉ ([] : List Nat))) = l :=
  List.filter_eq_self.mpr (by simp)

theorem Evo.del (front : Bool) (live : Item → Bool) (n fn : Nat) (l : List Item) :
    Evo front live n [fn] l (delFn l fn) := by
  refine ⟨[], [], ?_, by simp, by simp, by simp⟩
  simp [delFn_eq_filter]

theorem Evo.app (live : Item → Bool) (n : Nat) (l : List Item) (it : Item) (hl : live it = false)
    (hn : n ≤ it.uid) : Evo false live n [] l (l ++ [it]) := by
  refine ⟨[], [it], ?_, by simpa using hn, by simp, by simpa using hl⟩
  rw [filter_nil_dels]; simp

theorem Evo.cons (live : Item → Bool) (n : Nat) (l : List Item) (it : Item) (hn : n ≤ it.uid) :
    Evo true live n [] l (it :: l) := by
  refine ⟨[it], [], ?_, by simpa using hn, by simp, by simp⟩
  rw [filter_nil_dels]; simp

/-! ### the lenses -/

def delsH (c : Nat) : Act → List Nat
  | .del c' fn => if c' = c then [fn] else []
  | _ => []

def delsI (c : Nat) (id : Str) : Act → List Nat
  | .delId c' fn id' => if c' = c ∧ id' = id then [fn] else []
  | _ => []

def delsT (c : Nat) : Act → List Nat
  | .delTimed c' fn => if c' = c then [fn] else []
  | _ => []

def delsG : Act → List Nat
  | .delGlobal fn => [fn]
  | _ => []

def cfgH (c : Nat) (s : Stanza) (neg : Bool) : Cfg where
  get st := (st.conns c).handlers
  set st l := updConn st c fun cn => { cn with handlers := l }
  pred _ it := gateOpen neg it && matchesC it.flt s
  live it := it.enabled
  front := false
  cls := .stanza
  conn := c
  name := s.name
  dels := delsH c
  stamp := false
  inv st := (st.conns c).negotiated = neg

def cfgI (c : Nat) (s : Stanza) (id : Str) (neg : Bool) : Cfg where
  get st := (st.conns c).idTab id
  set st l := updConn st c fun cn => { cn with idTab := tabSet cn.idTab id l }
  pred _ it := gateOpen neg it
  live it := it.enabled
  front := false
  cls := .stanza
  conn := c
  name := s.name
  dels := delsI c id
  stamp := false
  inv st := (st.conns c).negotiated = neg

def cfgT (c : Nat) (neg : Bool) : Cfg where
  get st := (st.conns c).timed
  set st l := updConn st c fun cn => { cn with timed := l }
  pred now it := gateOpen neg it && due now it
  live it := it.enabled
  front := true
  cls := .timed
  conn := c
  name := none
  dels := delsT c
  stamp := true
  inv st := (st.conns c).negotiated = neg

def cfgG : Cfg where
  get st := st.gtimed
  set st l := { st with gtimed := l }
  pred now it := due now it
  live _ := true
  front := true
  cls := .global
  conn := 0
  name := none
  dels := delsG
  stamp := true
  inv _ := True

theorem gateOpen_enabled {neg : Bool} {it : Item} (h : gateOpen neg it = true) : it.enabled = true := by
  unfold gateOpen at h
  simp only [Bool.and_eq_true] at h
  exact h.1

/-! ### how one API call changes each list -/

theorem handlers_applyAct (st : St) (a : Act) (c : Nat) :
    Evo false (·.enabled) st.nextUid (delsH c a) (st.conns c).handlers ((applyAct st a).conns c).handlers := by
  cases a with
  | add c' fn ud flt =>
    simp only [applyAct, handlerAdd, delsH]
    split
    · exact Evo.refl _ _ _ _
    · by_cases h : c = c'
      · subst h; simp only [updConn_conns_same]
        exact Evo.app _ _ _ _ rfl (Nat.le_refl _)
      · simp only [updConn_conns_other _ _ _ _ h]; exact Evo.refl _ _ _ _
  | addId c' fn ud id =>
    simp only [applyAct, idHandlerAdd, delsH]
    split
    · exact Evo.refl _ _ _ _
    · by_cases h : c = c'
      · subst h; simp only [updConn_conns_same]; exact Evo.refl _ _ _ _
      · simp only [updConn_conns_other _ _ _ _ h]; exact Evo.refl _ _ _ _
  | addTimed c' fn ud p =>
    simp only [applyAct, timedAdd, delsH]
    split
    · exact Evo.refl _ _ _ _
    · by_cases h : c = c'
      · subst h; simp only [updConn_conns_same]; exact Evo.refl _ _ _ _
      · simp only [updConn_conns_other _ _ _ _ h]; exact Evo.refl _ _ _ _
  | addGlobal fn ud p =>
    simp only [applyAct, globalTimedAdd, delsH]
    split <;> exact Evo.refl _ _ _ _
  | del c' fn =>
    simp only [applyAct, handlerDelete, delsH]
    by_cases h : c' = c
    · subst h; simp only [updConn_conns_same, if_true]; exact Evo.del _ _ _ _ _
    · simp only [h, if_false]
      rw [updConn_conns_other _ _ _ _ (Ne.symm h)]; exact Evo.refl _ _ _ _
  | delId c' fn id =>
    simp only [applyAct, idHandlerDelete, delsH]
    by_cases h : c = c'
    · subst h; simp only [updConn_conns_same]; exact Evo.refl _ _ _ _
    · rw [updConn_conns_other _ _ _ _ h]; exact Evo.refl _ _ _ _
  | delTimed c' fn =>
    simp only [applyAct, timedDelete, delsH]
    by_cases h : c = c'
    · subst h; simp only [updConn_conns_same]; exact Evo.refl _ _ _ _
    · rw [updConn_conns_other _ _ _ _ h]; exact Evo.refl _ _ _ _
  | delGlobal fn => exact Evo.refl _ _ _ _
  | send c' =>
    simp only [applyAct, send, delsH]
    by_cases h : c = c'
    · subst h; simp only [updConn_conns_same]
      split <;> exact Evo.refl _ _ _ _
    · rw [updConn_conns_other _ _ _ _ h]; exact Evo.refl _ _ _ _
  | tick n => exact Evo.refl _ _ _ _

theorem idTab_applyAct (st : St) (a : Act) (c : Nat) (id : Str) :
    Evo false (·.enabled) st.nextUid (delsI c id a) ((st.conns c).idTab id) (((applyAct st a).conns c).idTab id) := by
  cases a with
  | add c' fn ud flt =>
    simp only [applyAct, handlerAdd, delsI]
    split
    · exact Evo.refl _ _ _ _
    · by_cases h : c = c'
      · subst h; simp only [updConn_conns_same]; exact Evo.refl _ _ _ _
      · simp only [updConn_conns_other _ _ _ _ h]; exact Evo.refl _ _ _ _
  | addId c' fn ud id' =>
    simp only [applyAct, idHandlerAdd, delsI]
    split
    · exact Evo.refl _ _ _ _
    · by_cases h : c = c'
      · subst h; simp only [updConn_conns_same]
        by_cases hi : id = id'
        · subst hi; simp only [tabSet_same]
          exact Evo.app _ _ _ _ rfl (Nat.le_refl _)
        · simp only [tabSet_other _ _ _ _ hi]; exact Evo.refl _ _ _ _
      · simp only [updConn_conns_other _ _ _ _ h]; exact Evo.refl _ _ _ _
  | addTimed c' fn ud p =>
    simp only [applyAct, timedAdd, delsI]
    split
    · exact Evo.refl _ _ _ _
    · by_cases h : c = c'
      · subst h; simp only [updConn_conns_same]; exact Evo.refl _ _ _ _
      · simp only [updConn_conns_other _ _ _ _ h]; exact Evo.refl _ _ _ _
  | addGlobal fn ud p =>
    simp only [applyAct, globalTimedAdd, delsI]
    split <;> exact Evo.refl _ _ _ _
  | del c' fn =>
    simp only [applyAct, handlerDelete, delsI]
    by_cases h : c = c'
    · subst h; simp only [updConn_conns_same]; exact Evo.refl _ _ _ _
    · rw [updConn_conns_other _ _ _ _ h]; exact Evo.refl _ _ _ _
  | delId c' fn id' =>
    simp only [applyAct, idHandlerDelete, delsI]
    by_cases h : c' = c
    · subst h; simp only [updConn_conns_same, true_and]
      by_cases hi : id' = id
      · subst hi; simp only [tabSet_same, if_true]; exact Evo.del _ _ _ _ _
      · simp only [hi, if_false, tabSet_other _ _ _ _ (Ne.symm hi)]; exact Evo.refl _ _ _ _
    · simp only [h, false_and, if_false]
      rw [updConn_conns_other _ _ _ _ (Ne.symm h)]; exact Evo.refl _ _ _ _
  | delTimed c' fn =>
    simp only [applyAct, timedDelete, delsI]
    by_cases h : c = c'
    · subst h; simp only [updConn_conns_same]; exact Evo.refl _ _ _ _
    · rw [updConn_conns_other _ _ _ _ h]; exact Evo.refl _ _ _ _
  | delGlobal fn => exact Evo.refl _ _ _ _
  | send c' =>
    simp only [applyAct, send, delsI]
    by_cases h : c = c'
    · subst h; simp only [updConn_conns_same]
      split <;> exact Evo.refl _ _ _ _
    · rw [updConn_conns_other _ _ _ _ h]; exact Evo.refl _ _ _ _
  | tick n => exact Evo.refl _ _ _ _

theorem timedAddList_evo {l l' : List Item} {n now fn ud p : Nat} {user : Bool} (live : Item → Bool)
    (e : timedAddList l n now fn ud p user = some l') : Evo true live n [] l l' := by
  unfold timedAddList at e
  split at e
  · cases e
  · injection e with e; subst e
    exact Evo.cons _ _ _ _ (Nat.le_refl _)

theorem timed_applyAct (st : St) (a : Act) (c : Nat) :
    Evo true (·.enabled) st.nextUid (delsT c a) (st.conns c).timed ((applyAct st a).conns c).timed := by
  cases a with
  | add c' fn ud flt =>
    simp only [applyAct, handlerAdd, delsT]
    split
    · exact Evo.refl _ _ _ _
    · by_cases h : c = c'
      · subst h; simp only [updConn_conns_same]; exact Evo.refl _ _ _ _
      · simp only [updConn_conns_other _ _ _ _ h]; exact Evo.refl _ _ _ _
  | addId c' fn ud id =>
    simp only [applyAct, idHandlerAdd, delsT]
    split
    · exact Evo.refl _ _ _ _
    · by_cases h : c = c'
      · subst h; simp only [updConn_conns_same]; exact Evo.refl _ _ _ _
      · simp only [updConn_conns_other _ _ _ _ h]; exact Evo.refl _ _ _ _
  | addTimed c' fn ud p =>
    simp only [applyAct, timedAdd, delsT]
    split
    · exact Evo.refl _ _ _ _
    · rename_i l e
      by_cases h : c = c'
      · subst h; simp only [updConn_conns_same]
        exact timedAddList_evo _ e
      · simp only [updConn_conns_other _ _ _ _ h]; exact Evo.refl _ _ _ _
  | addGlobal fn ud p =>
    simp only [applyAct, globalTimedAdd, delsT]
    split <;> exact Evo.refl _ _ _ _
  | del c' fn =>
    simp only [applyAct, handlerDelete, delsT]
    by_cases h : c = c'
    · subst h; simp only [updConn_conns_same]; exact Evo.refl _ _ _ _
    · rw [updConn_conns_other _ _ _ _ h]; exact Evo.refl _ _ _ _
  | delId c' fn id =>
    simp only [applyAct, idHandlerDelete, delsT]
    by_cases h : c = c'
    · subst h; simp only [updConn_conns_same]; exact Evo.refl _ _ _ _
    · rw [updConn_conns_other _ _ _ _ h]; exact Evo.refl _ _ _ _
  | delTimed c' fn =>
    simp only [applyAct, timedDelete, delsT]
    by_cases h : c' = c
    · subst h; simp only [updConn_conns_same, if_true]; exact Evo.del _ _ _ _ _
    · simp only [h, if_false]
      rw [updConn_conns_other _ _ _ _ (Ne.symm h)]; exact Evo.refl _ _ _ _
  | delGlobal fn => exact Evo.refl _ _ _ _
  | send c' =>
    simp only [applyAct, send, delsT]
    by_cases h : c = c'
    · subst h; simp only [updConn_conns_same]
      split <;> exact Evo.refl _ _ _ _
    · rw [updConn_conns_other _ _ _ _ h]; exact Evo.refl _ _ _ _
  | tick n => exact Evo.refl _ _ _ _

theorem gtimed_applyAct (st : St) (a : Act) :
    Evo true (fun _ => true) st.nextUid (delsG a) st.gtimed (applyAct st a).gtimed := by
  cases a with
  | add c' fn ud flt =>
    simp only [applyAct, handlerAdd, delsG]
    split <;> exact Evo.refl _ _ _ _
  | addId c' fn ud id =>
    simp only [applyAct, idHandlerAdd, delsG]
    split <;> exact Evo.refl _ _ _ _
  | addTimed c' fn ud p =>
    simp only [applyAct, timedAdd, delsG]
    split <;> exact Evo.refl _ _ _ _
  | addGlobal fn ud p =>
    simp only [applyAct, globalTimedAdd, delsG]
    split
    · exact Evo.refl _ _ _ _
    · rename_i l e
      exact timedAddList_evo _ e
  | del c' fn => exact Evo.refl _ _ _ _
  | delId c' fn id => exact Evo.refl _ _ _ _
  | delTimed c' fn => exact Evo.refl _ _ _ _
  | delGlobal fn => exact Evo.del _ _ _ _ _
  | send c' => exact Evo.refl _ _ _ _
  | tick n => exact Evo.refl _ _ _ _

/-! ### the lenses are lawful -/

theorem cfgH_ok (c : Nat) (s : Stanza) (neg : Bool) : (cfgH c s neg).Ok where
  get_set st l := by simp [cfgH]
  set_cnt st l := rfl
  set_log st l := rfl
  set_now st l := rfl
  set_nextUid st l := rfl
  get_withLog st cnt log := rfl
  inv_withLog st cnt log h := h
  inv_set st l h := by simpa [cfgH] using h
  inv_act st a h := by
    show ((applyAct st a).conns c).negotiated = neg
    rw [applyAct_negotiated]; exact h
  evo_act st a := handlers_applyAct st a c
  pred_live now it h := by
    simp only [cfgH, Bool.and_eq_true] at h
    exact gateOpen_enabled h.1
  wf_get st w := w.h c
  wf_set_filter st p w := WF.updc' w c _ ((w.h c).filter p) (fun id => w.i c id) (w.t c)
  wf_set_last st u t w :=
    WF.updc' w c _ ((w.h c).of_maps (setLast_uid _ _ _) (setLast_key _ _ _)) (fun id => w.i c id) (w.t c)

theorem cfgI_ok (c : Nat) (s : Stanza) (id : Str) (neg : Bool) : (cfgI c s id neg).Ok where
  get_set st l := by simp [cfgI]
  set_cnt st l := rfl
  set_log st l := rfl
  set_now st l := rfl
  set_nextUid st l := rfl
  get_withLog st cnt log := rfl
  inv_withLog st cnt log h := h
  inv_set st l h := by simpa [cfgI] using h
  inv_act st a h := by
    show ((applyAct st a).conns c).negotiated = neg
    rw [applyAct_negotiated]; exact h
  evo_act st a := idTab_applyAct st a c id
  pred_live now it h := gateOpen_enabled h
  wf_get st w := w.i c id
  wf_set_filter st p w := by
    refine WF.updc' w c _ (w.h c) ?_ (w.t c)
    intro id'
    by_cases h : id' = id
    · subst h; simp only [tabSet_same]; exact (w.i c id').filter p
    · simp only [tabSet_other _ _ _ _ h]; exact w.i c id'
  wf_set_last st u t w := by
    refine WF.updc' w c _ (w.h c) ?_ (w.t c)
    intro id'
    by_cases h : id' = id
    · subst h; simp only [tabSet_same]
      exact (w.i c id').of_maps (setLast_uid _ _ _) (setLast_key _ _ _)
    · simp only [tabSet_other _ _ _ _ h]; exact w.i c id'

theorem cfgT_ok (c : Nat) (neg : Bool) : (cfgT c neg).Ok where
  get_set st l := by simp [cfgT]
  set_cnt st l := rfl
  set_log st l := rfl
  set_now st l := rfl
  set_nextUid st l := rfl
  get_withLog st cnt log := rfl
  inv_withLog st cnt log h := h
  inv_set st l h := by simpa [cfgT] using h
  inv_act st a h := by
    show ((applyAct st a).conns c).negotiated = neg
    rw [applyAct_negotiated]; exact h
  evo_act st a := timed_applyAct st a c
  pred_live now it h := by
    simp only [cfgT, Bool.and_eq_true] at h
    exact gateOpen_enabled h.1
  wf_get st w := w.t c
  wf_set_filter st p w := WF.updc' w c _ (w.h c) (fun id => w.i c id) ((w.t c).filter p)
  wf_set_last st u t w :=
    WF.updc' w c _ (w.h c) (fun id => w.i c id) ((w.t c).of_maps (setLast_uid _ _ _) (setLast_key _ _ _))

theorem cfgG_ok : cfgG.Ok where
  get_set st l := rfl
  set_cnt st l := rfl
  set_log st l := rfl
  set_now st l := rfl
  set_nextUid st l := rfl
  get_withLog st cnt log := rfl
  inv_withLog st cnt log h := h
  inv_set st l h := trivial
  inv_act st a h := trivial
  evo_act st a := gtimed_applyAct st a
  pred_live now it h := rfl
  wf_get st w := w.g
  wf_set_filter st p w := ⟨w.h, w.i, w.t, w.g.filter p⟩
  wf_set_last st u t w := ⟨w.h, w.i, w.t, w.g.of_maps (setLast_uid _ _ _) (setLast_key _ _ _)⟩

/-! ### the model's loops are `gloop` -/

theorem stanzaLoop_eq (beh : Beh) (c : Nat) (s : Stanza) (neg : Bool) :
    ∀ (fuel : Nat) (st : St) (suffix : List Item), (st.conns c).negotiated = neg →
      stanzaLoop beh c s fuel st suffix = gloop beh (cfgH c s neg) fuel st suffix := by
  intro fuel
  induction fuel with
  | zero =>
    intro st suffix h
    unfold stanzaLoop gloop
    simp only [h, cfgH]
  | succ fuel ih =>
    intro st suffix h
    unfold stanzaLoop gloop
    simp only [h]
    show (match suffix.find? (fun it => gateOpen neg it && matchesC it.flt s) with
          | none => _ | some it => _) = _
    cases hf : suffix.find? (fun it => gateOpen neg it && matchesC it.flt s) with
    | none => simp only [cfgH, hf]
    | some it =>
      simp only [cfgH, hf, Cfg.pre]
      cases ha : after ((invoke beh st Cls.stanza c it s.name).1.conns c).handlers it.uid with
      | none => simp only [ha]
      | some rest =>
        simp only [ha]
        apply ih
        have hn : ((invoke beh st Cls.stanza c it s.name).1.conns c).negotiated = neg := by
          rw [invoke_eq]
          exact applyActs_inv (cfgH_ok c s neg) _ _ h
        split
        · exact hn
        · simpa using hn

end Strophe.Lemmas.Handler
