/-
Programs: every op of a caller that respects the ownership rules runs without a fault and keeps the
invariant, with `hold` = the number of handle slots referring to a stanza.
-/
import Strophe.Lemmas.StoreComp
import Strophe.Lemmas.StoreBal

namespace Strophe.Store
open Strophe Strophe.Stanza

/-- the state of the engine is good: ownership invariant w.r.t. the handle slots -/
def GoodSt (st : St) : Prop := (∃ G, Inv st.mem G st.holds) ∧ st.slots.length = nslots

theorem holds_def (st : St) (x : Nat) : st.holds x = st.slots.count (some x) := rfl

theorem slot_mem {st : St} {i id : Nat} (h : st.slot i = some id) : some id ∈ st.slots := by
  unfold St.slot at h
  rw [List.getD_eq_getElem?_getD] at h
  cases hg : st.slots[i]? with
  | none => rw [hg] at h; simp at h
  | some v => rw [hg] at h; simp at h; subst h; exact List.mem_of_getElem? hg

theorem slot_held {st : St} {i id : Nat} (h : st.slot i = some id) : 0 < st.holds id := by
  rw [holds_def, List.count_pos_iff]
  exact slot_mem h

theorem slot_getElem {st : St} {i : Nat} (hi : i < st.slots.length) : st.slots[i] = st.slot i := by
  unfold St.slot
  rw [List.getD_eq_getElem?_getD, List.getElem?_eq_getElem hi]
  rfl

theorem holds_set_new (st : St) (m : Mem) {w id : Nat} (hw : w < st.slots.length) (he : st.slot w = none) :
    ({ mem := m, slots := st.slots.set w (some id) } : St).holds = bump st.holds id := by
  funext x
  simp only [holds_def, bump]
  rw [List.count_set hw, slot_getElem hw, he]
  by_cases hx : x = id
  · subst hx; simp
  · have : ¬ (id = x) := fun e => hx e.symm
    simp [hx, this]

theorem holds_set_none (st : St) (m : Mem) {v s : Nat} (hv : v < st.slots.length) (he : st.slot v = some s) :
    ({ mem := m, slots := st.slots.set v none } : St).holds = unbump st.holds s := by
  funext x
  simp only [holds_def, unbump]
  rw [List.count_set hv, slot_getElem hv, he]
  by_cases hx : x = s
  · subst hx; simp
  · have : ¬ (s = x) := fun e => hx e.symm
    simp [hx, this]

theorem holds_mem (st : St) (m : Mem) : ({ st with mem := m } : St).holds = st.holds := rfl

theorem destOk_none {st : St} {w : Nat} (h : destOk st w = none) : w < nslots ∧ st.slot w = none := by
  unfold destOk at h
  split at h
  · cases h
  · split at h
    · cases h
    · next h1 h2 =>
      refine ⟨by omega, ?_⟩
      cases hs : st.slot w with
      | none => rfl
      | some v => rw [hs] at h2; simp at h2

/-! ### the preconditions of `add` in terms of the ghost structure -/

theorem brank_mono {G : Ghost} {n a b : Nat} (h : G.rank a ≤ G.rank b) : brank G n a ≤ brank G n b := by
  unfold brank
  generalize List.range n = l
  induction l with
  | nil => simp
  | cons x l ih =>
    simp only [List.filter_cons]
    by_cases h1 : G.rank x < G.rank a
    · have h2 : G.rank x < G.rank b := by omega
      simp [h1, h2]; exact ih
    · by_cases h2 : G.rank x < G.rank b
      · simp [h1, h2]; omega
      · simp [h1, h2]; exact ih

theorem desc_mem_ancestors {m : Mem} {G : Ghost} {hold : Nat → Nat} (h : Inv m G hold) {c p : Nat}
    (hd : Desc G c p) : ∀ f, brank G m.size c ≤ f + brank G m.size p → c ∈ ancestors f m p := by
  induction hd with
  | refl => intro f _; cases f <;> simp [ancestors]
  | @step q x hd hx ih =>
    intro f hf
    have hk := h.kid q x hx
    have hlt := brank_lt (G := G) (Mem.live_lt hk.1) (h.rank q x hx)
    have hle : brank G m.size q ≤ brank G m.size c := brank_mono (h.desc_rank hd)
    cases f with
    | zero => omega
    | succ f =>
      simp only [ancestors, hk.2.2, hk.1, if_true]
      right
      exact ih f (by omega)

theorem noCycle_desc {m : Mem} {G : Ghost} {hold : Nat → Nat} (h : Inv m G hold) {c p : Nat}
    (hn : NoCycle m c p) : ¬ Desc G c p := by
  intro hd
  apply hn
  apply desc_mem_ancestors h hd
  have := brank_le G m.size c
  have := size_le_fuel m
  omega

theorem detached_root {m : Mem} {G : Ghost} {hold : Nat → Nat} (h : Inv m G hold) {c : Nat}
    (hd : Detached m c) : ¬ HasPar G c := by
  rintro ⟨q, hq⟩
  have := (h.kid q c hq).2.2
  rw [hd] at this
  cases this

/-! ### giving up a reference -/

theorem release_held {m : Mem} {G : Ghost} {hold : Nat → Nat} {s : Nat} (h : Inv m G hold) (hh : 0 < hold s) :
    ∃ m' G' b, release m.fuel m s = .ok (m', b) ∧ Inv m' G' (unbump hold s) := by
  by_cases hp : HasPar G s
  · obtain ⟨m', he, hi, _⟩ := release_child_inv h hh hp
    exact ⟨m', G, false, he, hi⟩
  · obtain ⟨m', G', b, he, hi, _⟩ := release_root h hh hp
    exact ⟨m', G', b, he, hi⟩

theorem releaseAll_inv : ∀ (l : List (Option Nat)) (m : Mem) (G : Ghost) (hold : Nat → Nat), Inv m G hold →
    (∀ x, hold x = l.count (some x)) →
    ∃ m' G', releaseAll l m = .ok m' ∧ Inv m' G' (fun _ => 0)
  | [], m, G, hold, h, hc => by
    have : hold = fun _ => 0 := by funext x; rw [hc]; simp
    rw [this] at h
    exact ⟨m, G, rfl, h⟩
  | none :: rest, m, G, hold, h, hc => by
    obtain ⟨m', G', he, hi⟩ := releaseAll_inv rest m G hold h (by intro x; rw [hc]; simp)
    exact ⟨m', G', by simpa [releaseAll] using he, hi⟩
  | some s :: rest, m, G, hold, h, hc => by
    obtain ⟨m1, G1, b, he1, hi1⟩ := release_held h (s := s) (by rw [hc]; simp)
    obtain ⟨m', G', he, hi⟩ := releaseAll_inv rest m1 G1 (unbump hold s) hi1 (by
      intro x
      simp only [unbump]
      rw [hc]
      by_cases hx : x = s
      · subst hx; simp
      · have : ¬ (s = x) := fun e => hx e.symm
        simp [hx, this])
    exact ⟨m', G', by simp [releaseAll, he1, bind, Except.bind, he], hi⟩

/-! ### resolving a target -/

theorem resolve_spec {st : St} (hg : GoodSt st) (t : Tgt) :
    ∃ r, resolve st t = .ok r ∧ ∀ id, r = .ok id → (st.mem.get id).live = true := by
  obtain ⟨⟨G, hi⟩, _⟩ := hg
  unfold resolve
  split
  · exact ⟨_, rfl, by intro id h; cases h⟩
  · cases hs : st.slot t.slot with
    | none => exact ⟨_, rfl, by intro id h; cases h⟩
    | some s =>
      have hl := held_live hi (slot_held hs)
      obtain ⟨r, hr, hp⟩ := resolvePath_spec hi t.path s hl
      simp only [bind, Except.bind, hr]
      cases r with
      | none => exact ⟨_, rfl, by intro id h; cases h⟩
      | some id => exact ⟨_, rfl, by intro id' h; cases h; exact (hp id rfl).1⟩


/-! ### one op -/

theorem putNew_good {st : St} {w : Nat} {m' : Mem} {r : Option Nat} {G' : Ghost} (hlen : st.slots.length = nslots)
    (hd : destOk st w = none) (hi : Inv m' G' (holdNew st.holds r)) : GoodSt (putNew st w m' r).1 := by
  obtain ⟨hw, he⟩ := destOk_none hd
  cases r with
  | none => exact ⟨⟨G', hi⟩, hlen⟩
  | some id =>
    refine ⟨⟨G', ?_⟩, by simp [putNew, hlen]⟩
    simp only [putNew]
    rw [holds_set_new st m' (by omega) he]
    exact hi

theorem step_good {st : St} (hg : GoodSt st) (op : Op) (hpre : Pre st op) :
    ∃ st' out, step st op = .ok (st', out) ∧ GoodSt st' := by
  obtain ⟨⟨G, hi⟩, hlen⟩ := hg
  have hg : GoodSt st := ⟨⟨G, hi⟩, hlen⟩
  cases op with
  | new w =>
    cases hd : destOk st w with
    | some why => exact ⟨st, _, by simp [step, hd, pure, Except.pure] <;> rfl, hg⟩
    | none =>
      obtain ⟨hi1, _⟩ := fresh_facts hi
      exact ⟨_, _, by simp only [step, hd, stanzaNew_eq, pure, Except.pure] <;> rfl,
        putNew_good (r := some st.mem.size) hlen hd hi1⟩
  | clone t w =>
    obtain ⟨r, hr, hl⟩ := resolve_spec hg t
    cases r with
    | refused why => exact ⟨st, _, by simp [step, hr, bind, Except.bind, pure, Except.pure] <;> rfl, hg⟩
    | ok s =>
      cases hd : destOk st w with
      | some why => exact ⟨st, _, by simp [step, hr, hd, bind, Except.bind, pure, Except.pure] <;> rfl, hg⟩
      | none =>
        obtain ⟨m', he, hi1, _⟩ := clone_inv hi (hl s rfl)
        exact ⟨_, _, by simp only [step, hr, hd, he, bind, Except.bind, pure, Except.pure] <;> rfl,
          putNew_good (r := some s) hlen hd hi1⟩
  | copy t w =>
    obtain ⟨r, hr, hl⟩ := resolve_spec hg t
    cases r with
    | refused why => exact ⟨st, _, by simp [step, hr, bind, Except.bind, pure, Except.pure] <;> rfl, hg⟩
    | ok s =>
      cases hd : destOk st w with
      | some why => exact ⟨st, _, by simp [step, hr, hd, bind, Except.bind, pure, Except.pure] <;> rfl, hg⟩
      | none =>
        obtain ⟨m', r', G', he, hi1⟩ := copy_inv hi (hl s rfl)
        exact ⟨_, _, by simp only [step, hr, hd, he, bind, Except.bind, pure, Except.pure] <;> rfl,
          putNew_good hlen hd hi1⟩
  | rel v =>
    by_cases hv : v ≥ nslots
    · exact ⟨st, _, by simp [step, hv, pure, Except.pure] <;> rfl, hg⟩
    · cases hs : st.slot v with
      | none => exact ⟨st, _, by simp [step, hv, hs, pure, Except.pure] <;> rfl, hg⟩
      | some s =>
        obtain ⟨m', G', b, he, hi1⟩ := release_held hi (slot_held hs)
        refine ⟨_, _, by simp only [step, hv, if_false, hs, he, bind, Except.bind, pure, Except.pure] <;> rfl, ?_⟩
        refine ⟨⟨G', ?_⟩, by simp [hlen]⟩
        rw [holds_set_none st m' (by omega) hs]
        exact hi1
  | relkeep v => exact absurd hpre (by simp [Pre])
  | add t c =>
    by_cases hc : c ≥ nslots
    · exact ⟨st, _, by simp [step, hc, pure, Except.pure] <;> rfl, hg⟩
    · obtain ⟨r, hr, hl⟩ := resolve_spec hg t
      cases r with
      | refused why => exact ⟨st, _, by simp [step, hc, hr, bind, Except.bind, pure, Except.pure] <;> rfl, hg⟩
      | ok p =>
        cases hs : st.slot c with
        | none => exact ⟨st, _, by simp [step, hc, hr, hs, bind, Except.bind, pure, Except.pure] <;> rfl, hg⟩
        | some cid =>
          simp only [Pre, hr, hs] at hpre
          obtain ⟨m', he, hi1, _⟩ := addChildEx_inv true hi (hl p rfl) (slot_held hs)
            (detached_root hi hpre.1) (noCycle_desc hi hpre.2)
          simp only [if_true] at hi1
          exact ⟨{ st with mem := m' }, _, by simp only [step, hc, if_false, hr, hs, he, bind, Except.bind, pure, Except.pure] <;> rfl,
            ⟨⟨_, hi1⟩, hlen⟩⟩
  | addx t c =>
    by_cases hc : c ≥ nslots
    · exact ⟨st, _, by simp [step, hc, pure, Except.pure] <;> rfl, hg⟩
    · obtain ⟨r, hr, hl⟩ := resolve_spec hg t
      cases r with
      | refused why => exact ⟨st, _, by simp [step, hc, hr, bind, Except.bind, pure, Except.pure] <;> rfl, hg⟩
      | ok p =>
        cases hs : st.slot c with
        | none => exact ⟨st, _, by simp [step, hc, hr, hs, bind, Except.bind, pure, Except.pure] <;> rfl, hg⟩
        | some cid =>
          simp only [Pre, hr, hs] at hpre
          obtain ⟨m', he, hi1, _⟩ := addChildEx_inv false hi (hl p rfl) (slot_held hs)
            (detached_root hi hpre.1) (noCycle_desc hi hpre.2)
          simp only [Bool.false_eq_true, if_false] at hi1
          refine ⟨_, _, by simp only [step, hc, if_false, hr, hs, he, bind, Except.bind, pure, Except.pure] <;> rfl, ?_⟩
          refine ⟨⟨attachG G p cid, ?_⟩, by simp [hlen]⟩
          rw [holds_set_none st m' (by omega) hs]
          exact hi1
  | name t b =>
    obtain ⟨r, hr, hl⟩ := resolve_spec hg t
    cases r with
    | refused why => exact ⟨st, _, by simp [step, hr, bind, Except.bind, pure, Except.pure] <;> rfl, hg⟩
    | ok s =>
      obtain ⟨m', rc, he, hi1, _⟩ := setName_good b hi (hl s rfl)
      exact ⟨{ st with mem := m' }, _, by simp only [step, hr, he, bind, Except.bind, pure, Except.pure] <;> rfl, ⟨⟨G, hi1⟩, hlen⟩⟩
  | text t b =>
    obtain ⟨r, hr, hl⟩ := resolve_spec hg t
    cases r with
    | refused why => exact ⟨st, _, by simp [step, hr, bind, Except.bind, pure, Except.pure] <;> rfl, hg⟩
    | ok s =>
      obtain ⟨m', rc, he, hi1, _⟩ := setText_good b hi (hl s rfl)
      exact ⟨{ st with mem := m' }, _, by simp only [step, hr, he, bind, Except.bind, pure, Except.pure] <;> rfl, ⟨⟨G, hi1⟩, hlen⟩⟩
  | attr t k v =>
    obtain ⟨r, hr, hl⟩ := resolve_spec hg t
    cases r with
    | refused why => exact ⟨st, _, by simp [step, hr, bind, Except.bind, pure, Except.pure] <;> rfl, hg⟩
    | ok s =>
      obtain ⟨m', rc, he, hi1, _⟩ := setAttribute_good k v hi (hl s rfl)
      exact ⟨{ st with mem := m' }, _, by simp only [step, hr, he, bind, Except.bind, pure, Except.pure] <;> rfl, ⟨⟨G, hi1⟩, hlen⟩⟩
  | delattr t k =>
    obtain ⟨r, hr, hl⟩ := resolve_spec hg t
    cases r with
    | refused why => exact ⟨st, _, by simp [step, hr, bind, Except.bind, pure, Except.pure] <;> rfl, hg⟩
    | ok s =>
      obtain ⟨m', rc, he, hi1, _⟩ := delAttribute_good k hi (hl s rfl)
      exact ⟨{ st with mem := m' }, _, by simp only [step, hr, he, bind, Except.bind, pure, Except.pure] <;> rfl, ⟨⟨G, hi1⟩, hlen⟩⟩
  | reply t w =>
    obtain ⟨r, hr, hl⟩ := resolve_spec hg t
    cases r with
    | refused why => exact ⟨st, _, by simp [step, hr, bind, Except.bind, pure, Except.pure] <;> rfl, hg⟩
    | ok s =>
      cases hd : destOk st w with
      | some why => exact ⟨st, _, by simp [step, hr, hd, bind, Except.bind, pure, Except.pure] <;> rfl, hg⟩
      | none =>
        obtain ⟨m', r', G', he, hi1, _⟩ := reply_inv hi (hl s rfl)
        exact ⟨_, _, by simp only [step, hr, hd, he, bind, Except.bind, pure, Except.pure] <;> rfl,
          putNew_good hlen hd hi1⟩
  | replyerr t w et cond tx =>
    obtain ⟨r, hr, hl⟩ := resolve_spec hg t
    cases r with
    | refused why => exact ⟨st, _, by simp [step, hr, bind, Except.bind, pure, Except.pure] <;> rfl, hg⟩
    | ok s =>
      cases hd : destOk st w with
      | some why => exact ⟨st, _, by simp [step, hr, hd, bind, Except.bind, pure, Except.pure] <;> rfl, hg⟩
      | none =>
        obtain ⟨m', r', G', he, hi1⟩ := replyError_inv et cond tx hi (hl s rfl)
        exact ⟨_, _, by simp only [step, hr, hd, he, bind, Except.bind, pure, Except.pure] <;> rfl,
          putNew_good hlen hd hi1⟩
  | errnew ty tx w =>
    cases hd : destOk st w with
    | some why => exact ⟨st, _, by simp [step, hd, pure, Except.pure] <;> rfl, hg⟩
    | none =>
      obtain ⟨m', G', he, hi1⟩ := errorNew_inv ty tx hi
      exact ⟨_, _, by simp only [step, hd, he, bind, Except.bind, pure, Except.pure] <;> rfl,
        putNew_good (r := some st.mem.size) hlen hd hi1⟩
  | parse b w =>
    cases hd : destOk st w with
    | some why => exact ⟨st, _, by simp [step, hd, pure, Except.pure] <;> rfl, hg⟩
    | none =>
      obtain ⟨m', r', G', he, hi1⟩ := fromString_inv b hi
      exact ⟨_, _, by simp only [step, hd, he, bind, Except.bind, pure, Except.pure] <;> rfl,
        putNew_good hlen hd hi1⟩
  | getattr t k =>
    obtain ⟨r, hr, hl⟩ := resolve_spec hg t
    cases r with
    | refused why => exact ⟨st, _, by simp [step, hr, bind, Except.bind, pure, Except.pure] <;> rfl, hg⟩
    | ok s =>
      obtain ⟨v, he⟩ := getAttribute_ok k (hl s rfl)
      exact ⟨st, _, by simp only [step, hr, he, bind, Except.bind, pure, Except.pure] <;> rfl, hg⟩
  | gettext t =>
    obtain ⟨r, hr, hl⟩ := resolve_spec hg t
    cases r with
    | refused why => exact ⟨st, _, by simp [step, hr, bind, Except.bind, pure, Except.pure] <;> rfl, hg⟩
    | ok s =>
      obtain ⟨v, he⟩ := getText_ok hi (hl s rfl)
      exact ⟨st, _, by simp only [step, hr, he, bind, Except.bind, pure, Except.pure] <;> rfl, hg⟩
  | render t =>
    obtain ⟨r, hr, hl⟩ := resolve_spec hg t
    cases r with
    | refused why => exact ⟨st, _, by simp [step, hr, bind, Except.bind, pure, Except.pure] <;> rfl, hg⟩
    | ok s =>
      obtain ⟨v, he⟩ := toText_ok hi (hl s rfl)
      exact ⟨st, _, by simp only [step, hr, he, bind, Except.bind, pure, Except.pure] <;> rfl, hg⟩
  | look t =>
    obtain ⟨r, hr, hl⟩ := resolve_spec hg t
    cases r with
    | refused why => exact ⟨st, _, by simp [step, hr, bind, Except.bind, pure, Except.pure] <;> rfl, hg⟩
    | ok s =>
      obtain ⟨v, he⟩ := exportTree_ok hi (hl s rfl)
      exact ⟨st, _, by simp only [step, hr, he, bind, Except.bind, pure, Except.pure] <;> rfl, hg⟩
  | endAll =>
    obtain ⟨m', G', he, hi1⟩ := releaseAll_inv st.slots st.mem G st.holds hi (fun _ => rfl)
    refine ⟨_, _, by simp only [step, he, bind, Except.bind, pure, Except.pure] <;> rfl, ⟨⟨G', ?_⟩, by simp⟩⟩
    have : ({ mem := m', slots := List.replicate nslots none } : St).holds = fun _ => 0 := by
      funext x; simp [holds_def, List.count_replicate]
    rw [this]
    exact hi1

end Strophe.Store
