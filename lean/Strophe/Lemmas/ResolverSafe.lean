/-
Memory-safety lemmas for Model/Resolver: no run of the decoder ends in `oobRead`/`oobWrite`,
and `cursorWrap` needs a buffer of (almost) 4 GiB.
-/
import Strophe.Model.Resolver
import Strophe.Lemmas.ResolverSort

namespace Strophe.Resolver
open Strophe.Gen

/-- `Safe big P x`: `x` is a normal result satisfying `P`, or the only error is a cursor wrap and
    then the buffer is huge (`big`). -/
def Safe {α} (big : Prop) (P : α → Prop) : Except Err α → Prop
  | .ok a => P a
  | .error e => e = .cursorWrap ∧ big

theorem Safe.bind {α β} {big : Prop} {P : α → Prop} {Q : β → Prop} {x : Except Err α}
    {f : α → Except Err β} (hx : Safe big P x) (hf : ∀ a, P a → Safe big Q (f a)) :
    Safe big Q (x >>= f) := by
  cases x with
  | error e => exact hx
  | ok a => exact hf a hx

theorem Safe.mono {α} {big : Prop} {P Q : α → Prop} {x : Except Err α} (hx : Safe big P x)
    (h : ∀ a, P a → Q a) : Safe big Q x := by
  cases x with
  | error e => exact hx
  | ok a => exact h a hx

theorem rd_ok (b : Buf) (i : Nat) (h : i < b.size) : rd b i = .ok b[i] := by simp [rd, h]

theorem wr_ok (t : Buf) (i : Nat) (v : UInt8) (h : i < t.size) : wr t i v = .ok (t.set i v h) := by
  simp [wr, h]

theorem u32_safe (big : Prop) (n : Nat) (h : uintRange ≤ n → big) :
    Safe big (fun m => m = n) (u32 n) := by
  unfold u32
  split
  · rfl
  · exact ⟨rfl, h (by omega)⟩

theorem ntohs_ok (buf : Buf) (p : Nat) (h : p + 1 < buf.size) :
    ntohs buf p = .ok (buf[p].toNat * 256 + buf[p + 1].toNat) := by
  have h0 : p < buf.size := by omega
  have hb := buf[p].toNat_lt
  have hb' := buf[p+1].toNat_lt
  simp only [ntohs, rd_ok _ _ h0, rd_ok _ _ h]
  congr 1
  apply Nat.mod_eq_of_lt
  omega

theorem ntohs_safe (big : Prop) (buf : Buf) (p : Nat) (h : p + 1 < buf.size) :
    Safe big (fun v => v < 65536) (ntohs buf p) := by
  rw [ntohs_ok buf p h]
  have hb := buf[p].toNat_lt
  have hb' := buf[p+1].toNat_lt
  show _ < _
  omega

theorem memcpyFrom_ok (tail : Nat → Except Err UInt8) (tgt : Buf) (dst : Nat) (k n : Nat)
    (ht : ∀ j, k ≤ j → j < k + n → ∃ v, tail j = .ok v) (hd : dst + k + n ≤ tgt.size) :
    ∃ t, memcpyFrom tail tgt dst k n = .ok t ∧ t.size = tgt.size := by
  induction n generalizing k tgt with
  | zero => exact ⟨tgt, rfl, rfl⟩
  | succ n ih =>
    obtain ⟨v, hv⟩ := ht k (Nat.le_refl _) (by omega)
    have hw : dst + k < tgt.size := by omega
    simp only [memcpyFrom, hv, wr_ok _ _ _ hw]
    obtain ⟨t, h1, h2⟩ := ih (tgt.set (dst + k) v hw) (k + 1)
      (fun j h1 h2 => ht j (by omega) (by omega)) (by simp; omega)
    exact ⟨t, h1, by simpa using h2⟩

theorem appendSafe_ok (tgt : Buf) (base nameLen nameMax : Nat) (tail : Nat → Except Err UInt8)
    (tailLen : Nat) (ht : ∀ j, j < tailLen → ∃ v, tail j = .ok v) (hb : base + nameMax ≤ tgt.size) :
    ∃ t, appendSafe tgt base nameLen nameMax tail tailLen = .ok (nameLen + tailLen, t) ∧
      t.size = tgt.size := by
  unfold appendSafe
  dsimp only
  by_cases hlt : nameMax > nameLen
  · rw [if_pos hlt]
    by_cases hc : min tailLen (nameMax - nameLen) > 0
    · rw [if_pos hc]
      obtain ⟨t, h1, h2⟩ := memcpyFrom_ok tail tgt (base + nameLen) 0
        (min tailLen (nameMax - nameLen)) (fun j _ h2 => ht j (by omega)) (by omega)
      rw [h1]
      exact ⟨t, rfl, h2⟩
    · rw [if_neg hc]
      exact ⟨tgt, rfl, rfl⟩
  · rw [if_neg hlt, if_neg (by omega)]
    exact ⟨tgt, rfl, rfl⟩

theorem dotLit_ok : ∀ j, j < 1 → ∃ v, dotLit j = .ok v := by
  intro j hj
  have : j = 0 := by omega
  subst this
  exact ⟨46, rfl⟩

/-- what the name decoder needs to know about its `name`/`name_max` arguments -/
def NameOk (name : Option Nat) (nameMax : Nat) (tgt : Buf) : Prop :=
  ∀ base, name = some base → 0 < nameMax ∧ base + nameMax ≤ tgt.size

theorem appendLabel_ok (buf : Buf) (i labelLen : Nat) (name : Option Nat) (nameLen nameMax : Nat)
    (tgt : Buf) (hin : i + labelLen ≤ buf.size) (hn : NameOk name nameMax tgt) :
    ∃ nl t, appendLabel buf i labelLen name nameLen nameMax tgt = .ok (nl, t) ∧
      t.size = tgt.size ∧ (name = none → t = tgt) := by
  unfold appendLabel
  cases name with
  | none => exact ⟨_, _, rfl, rfl, fun _ => rfl⟩
  | some base =>
    obtain ⟨_, hb⟩ := hn base rfl
    dsimp only
    obtain ⟨t, h1, h2⟩ := appendSafe_ok tgt base nameLen nameMax (fun k => rd buf (i + k)) labelLen
      (fun j hj => ⟨_, rd_ok buf (i + j) (by omega)⟩) hb
    rw [h1]
    dsimp only
    obtain ⟨t', h3, h4⟩ := appendSafe_ok t base (nameLen + labelLen) nameMax dotLit 1 dotLit_ok
      (by omega)
    rw [h3]
    exact ⟨_, _, rfl, by omega, fun h => by simp at h⟩

/-- a NUL somewhere in the field -/
def HasNul (t : Buf) : Prop := ∃ k, ∃ h : k < t.size, t[k] = 0

theorem finishRoot_ok (name : Option Nat) (nameLen nameMax : Nat) (tgt : Buf)
    (hn : NameOk name nameMax tgt) :
    ∃ t, finishRoot name nameLen nameMax tgt = .ok t ∧ t.size = tgt.size ∧
      (name = none → t = tgt) ∧ (name.isSome → HasNul t) := by
  unfold finishRoot
  cases name with
  | none => exact ⟨_, rfl, rfl, fun _ => rfl, fun h => by simp at h⟩
  | some base =>
    obtain ⟨hp, hb⟩ := hn base rfl
    dsimp only
    rw [if_pos hp]
    have hw : base + (min (if nameLen = 0 then 1 else nameLen) nameMax - 1) < tgt.size := by
      split <;> omega
    rw [wr_ok _ _ _ hw]
    exact ⟨_, rfl, by simp, fun h => by simp at h, fun _ => ⟨_, by simpa using hw, by simp⟩⟩

theorem dropFilled_ok (name : Option Nat) (nameLen nameMax : Nat) (tgt : Buf)
    (hn : NameOk name nameMax tgt) :
    ∃ name' nameMax' t, dropFilled name nameLen nameMax tgt = .ok (name', nameMax', t) ∧
      t.size = tgt.size ∧ (name = none → t = tgt ∧ name' = none) ∧
      (name' = none → name.isSome → HasNul t) ∧
      (∀ b, name' = some b → name = some b ∧ nameMax' = nameMax ∧ nameLen < nameMax ∧ t = tgt) := by
  unfold dropFilled
  cases name with
  | none => exact ⟨_, _, _, rfl, rfl, fun _ => ⟨rfl, rfl⟩, fun _ h => by simp at h, fun b h => by simp at h⟩
  | some base =>
    obtain ⟨hp, hb⟩ := hn base rfl
    dsimp only
    split
    · have hw : base + (nameMax - 1) < tgt.size := by omega
      rw [wr_ok _ _ _ hw]
      exact ⟨_, _, _, rfl, by simp, fun h => by simp at h,
        fun _ _ => ⟨_, by simpa using hw, by simp⟩, fun b h => by simp at h⟩
    · next hc =>
      refine ⟨_, _, _, rfl, rfl, fun h => by simp at h, fun h => by simp at h, ?_⟩
      intro b h
      injection h with h
      subst h
      exact ⟨rfl, rfl, by omega, rfl⟩


/-- postcondition of `message_name_get` -/
def NameP (buf : Buf) (off : Nat) (name : Option Nat) (tgt : Buf) (r : Nat × Buf) : Prop :=
  r.2.size = tgt.size ∧ (r.1 ≠ 0 → r.1 + off ≤ buf.size) ∧ (name = none → r.2 = tgt) ∧
    (r.1 ≠ 0 → name.isSome → HasNul r.2)

theorem subName_ok (name : Option Nat) (nameLen : Nat) (t : Buf)
    (h : ∀ b, name = some b → b + nameLen ≤ t.size) :
    subName name nameLen t = .ok (name.map (· + nameLen)) := by
  cases name with
  | none => rfl
  | some b => simp [subName, h b rfl]

/-- the arguments handed to the recursive call on a compression pointer are fine again -/
theorem ptr_prep (name : Option Nat) (nameLen nameMax : Nat) (tgt : Buf) (hn : NameOk name nameMax tgt)
    (name' : Option Nat) (nameMax' : Nat) (t1 : Buf)
    (hd : dropFilled name nameLen nameMax tgt = .ok (name', nameMax', t1)) :
    subName name' nameLen t1 = .ok (name'.map (· + nameLen)) ∧
    NameOk (name'.map (· + nameLen)) (if nameMax' > nameLen then nameMax' - nameLen else 0) t1 ∧
    t1.size = tgt.size ∧ (name = none → t1 = tgt ∧ name' = none) ∧
    (name' = none → name.isSome → HasNul t1) ∧ (name'.isSome → name.isSome) := by
  obtain ⟨n2, m2, t2, h1, h2, h3, h4, h5⟩ := dropFilled_ok name nameLen nameMax tgt hn
  rw [hd] at h1
  injection h1 with h1
  injection h1 with ha hb
  injection hb with hb hc
  subst ha hb hc
  have hsub : ∀ b, name' = some b → b + nameLen ≤ t1.size := by
    intro b hb
    obtain ⟨e1, e2, e3, e4⟩ := h5 b hb
    have := (hn b e1).2
    omega
  refine ⟨subName_ok _ _ _ hsub, ?_, h2, h3, h4, ?_⟩
  · intro b hb
    cases hn' : name' with
    | none => rw [hn'] at hb; simp at hb
    | some b' =>
      rw [hn'] at hb
      simp only [Option.map_some, Option.some.injEq] at hb
      obtain ⟨e1, e2, e3, e4⟩ := h5 b' hn'
      have := (hn b' e1).2
      subst e2
      rw [if_pos (by omega)]
      omega
  · intro h
    cases hn' : name' with
    | none => rw [hn'] at h; simp at h
    | some b' => rw [(h5 b' hn').1]; rfl

theorem label_lt (x : UInt8) (h : x &&& 0xc0 = 0) : x.toNat < 64 := by
  have f : ∀ n : Fin 256, (UInt8.ofNat n.val) &&& 0xc0 = 0 → n.val < 64 := by decide +kernel
  have := f ⟨x.toNat, x.toNat_lt⟩
  simp only [UInt8.ofNat_toNat] at this
  exact this h

theorem nameLoop_safe (buf : Buf) (off i nameLen : Nat) (name : Option Nat) (nameMax : Nat)
    (tgt : Buf) (hoi : off ≤ i) (hn : NameOk name nameMax tgt) :
    Safe (uintRange ≤ buf.size + 64) (NameP buf off name tgt)
      (nameLoop buf off i nameLen name nameMax tgt) := by
  fun_induction nameLoop buf off i nameLen name nameMax tgt with
  | case1 off i nameLen name nameMax tgt h =>
    exact ⟨rfl, fun h => absurd rfl h, fun _ => rfl, fun h => absurd rfl h⟩
  | case2 off i nameLen name nameMax tgt h e hr =>
    rw [rd_ok _ _ (by omega)] at hr; cases hr
  | case3 off i nameLen name nameMax tgt h lo hr hw =>
    exact ⟨rfl, by omega⟩
  | case4 off i nameLen name nameMax tgt h hw e hf hr =>
    obtain ⟨t, h1, _⟩ := finishRoot_ok name nameLen nameMax tgt hn
    rw [h1] at hf; cases hf
  | case5 off i nameLen name nameMax tgt h hw t hf hr =>
    obtain ⟨t', h1, h2, h3, h4⟩ := finishRoot_ok name nameLen nameMax tgt hn
    rw [h1] at hf; cases hf
    exact ⟨h2, fun _ => by simp only; omega, h3, fun _ => h4⟩
  | case6 off i nameLen name nameMax tgt h lo hr hw hz hl hw2 =>
    have := label_lt lo hl
    exact ⟨rfl, by omega⟩
  | case7 off i nameLen name nameMax tgt h lo hr hw hz hl hw2 hb =>
    exact ⟨rfl, fun h => absurd rfl h, fun _ => rfl, fun h => absurd rfl h⟩
  | case8 off i nameLen name nameMax tgt h lo hr hw hz hl hw2 hb e ha =>
    obtain ⟨nl, t, h1, _⟩ := appendLabel_ok buf (i + 1) lo.toNat name nameLen nameMax tgt
      (by omega) hn
    rw [h1] at ha; cases ha
  | case9 off i nameLen name nameMax tgt h lo hr hw hz hl hw2 hb nl t ha ih =>
    obtain ⟨nl', t', h1, h2, h3⟩ := appendLabel_ok buf (i + 1) lo.toNat name nameLen nameMax tgt
      (by omega) hn
    rw [h1] at ha; cases ha
    have hn' : NameOk name nameMax t := by
      intro b hb'; have := hn b hb'; omega
    refine (ih (by omega) hn').mono ?_
    rintro ⟨rc, t2⟩ ⟨p1, p2, p3, p4⟩
    exact ⟨by simp only at p1 ⊢; omega, p2, fun hnone => by rw [p3 hnone, h3 hnone], p4⟩
  | case10 off i nameLen name nameMax tgt h lo hr hw hz hl hp hb =>
    exact ⟨rfl, fun h => absurd rfl h, fun _ => rfl, fun h => absurd rfl h⟩
  | case11 off i nameLen name nameMax tgt h lo hr hw hz hl hp hb e hr2 =>
    rw [rd_ok _ _ (by omega)] at hr2; cases hr2
  | case12 off i nameLen name nameMax tgt h lo hr hw hz hl hp hb lo2 hr2 hw2 =>
    exact ⟨rfl, by omega⟩
  | case13 off i nameLen name nameMax tgt h lo hr hw hz hl hp hb lo2 hr2 hw2 hge =>
    exact ⟨rfl, fun h => absurd rfl h, fun _ => rfl, fun h => absurd rfl h⟩
  | case14 off i nameLen name nameMax tgt h lo hr hw hz hl hp hb lo2 hr2 hw2 hge e hd =>
    obtain ⟨n2, m2, t2, h1, _⟩ := dropFilled_ok name nameLen nameMax tgt hn
    rw [h1] at hd; cases hd
  | case15 off i nameLen name nameMax tgt h lo hr hw hz hl hp hb lo2 hr2 hw2 hge name' nameMax' t1
      hd e hs =>
    rw [(ptr_prep name nameLen nameMax tgt hn name' nameMax' t1 hd).1] at hs; cases hs
  | case16 off i nameLen name nameMax tgt h lo hr hw hz hl hp hb lo2 hr2 hw2 hge name' nameMax' t1
      hd sub hs e hrec ih =>
    obtain ⟨q1, q2, q3, q4, q5, q6⟩ := ptr_prep name nameLen nameMax tgt hn name' nameMax' t1 hd
    rw [q1] at hs; cases hs
    have key := ih (Nat.le_refl _) (by simpa using q2)
    rw [hrec] at key
    exact key
  | case17 off i nameLen name nameMax tgt h lo hr hw hz hl hp hb lo2 hr2 hw2 hge name' nameMax' t1
      hd sub hs t hrec ih =>
    obtain ⟨q1, q2, q3, q4, q5, q6⟩ := ptr_prep name nameLen nameMax tgt hn name' nameMax' t1 hd
    rw [q1] at hs; cases hs
    have key := ih (Nat.le_refl _) (by simpa using q2)
    rw [hrec] at key
    obtain ⟨p1, p2, p3, p4⟩ := key
    refine ⟨by simp only at p1 ⊢; omega, fun h => absurd rfl h, ?_, fun h => absurd rfl h⟩
    intro hnone
    obtain ⟨e1, e2⟩ := q4 hnone
    rw [p3 (by simp [e2]), e1]
  | case18 off i nameLen name nameMax tgt h lo hr hw hz hl hp hb lo2 hr2 hw2 hge name' nameMax' t1
      hd sub hs rc t hrec hrc ih =>
    obtain ⟨q1, q2, q3, q4, q5, q6⟩ := ptr_prep name nameLen nameMax tgt hn name' nameMax' t1 hd
    rw [q1] at hs; cases hs
    have key := ih (Nat.le_refl _) (by simpa using q2)
    rw [hrec] at key
    obtain ⟨p1, p2, p3, p4⟩ := key
    refine ⟨by simp only at p1 ⊢; omega, fun _ => by simp only; omega, ?_, ?_⟩
    · intro hnone
      obtain ⟨e1, e2⟩ := q4 hnone
      rw [p3 (by simp [e2]), e1]
    · intro _ hsome
      cases hn' : name' with
      | none =>
        have : t = t1 := p3 (by simp [hn'])
        rw [this]
        exact q5 hn' hsome
      | some b => exact p4 hrc (by simp [hn'])
  | case19 off i nameLen name nameMax tgt h lo hr hw hz hl hnp =>
    exact ⟨rfl, fun h => absurd rfl h, fun _ => rfl, fun h => absurd rfl h⟩


/-! ### the record loops -/

/-- a cursor can only wrap in a buffer of almost 4 GiB -/
def Big (buf : Buf) : Prop := uintRange ≤ buf.size + 131072

theorem Safe.pure {α} {big : Prop} {P : α → Prop} {a : α} (h : P a) :
    Safe big P (Pure.pure a : Except Err α) := h

theorem Safe.weaken {α} {big big' : Prop} {P : α → Prop} {x : Except Err α} (hx : Safe big P x)
    (h : big → big') : Safe big' P x := by
  cases x with
  | error e => exact ⟨hx.1, h hx.2⟩
  | ok a => exact hx

theorem u32_safe' (buf : Buf) (n : Nat) (h : n < buf.size + 131072) :
    Safe (Big buf) (fun m => m = n) (u32 n) :=
  u32_safe _ n (fun h' => by unfold Big; omega)

theorem messageNameLen_safe (buf : Buf) (off : Nat) :
    Safe (Big buf) (fun nl => nl ≠ 0 → nl + off ≤ buf.size) (messageNameLen buf off) := by
  have h := nameLoop_safe buf off off 0 none sizeMax #[] (Nat.le_refl _)
    (fun b hb => by simp at hb)
  unfold messageNameLen nameGet
  cases hx : nameLoop buf off off 0 none sizeMax #[] with
  | error e => rw [hx] at h; exact ⟨h.1, by have := h.2; unfold Big; omega⟩
  | ok r => rw [hx] at h; exact h.2.1

/-- every record of the list has a 256-byte target field containing a NUL -/
def GoodList (l : List (Rr Buf)) : Prop := ∀ r ∈ l, r.target.size = maxDomainLen ∧ HasNul r.target

theorem srvRecord_safe (buf : Buf) (j : Nat) (list : List (Rr Buf)) (hj : j ≤ buf.size)
    (hl : GoodList list) :
    Safe (Big buf) (fun o => ∀ l, o = some l → GoodList l) (srvRecord buf j list) := by
  unfold srvRecord
  refine (u32_safe' buf (j + 6) (by omega)).bind ?_
  rintro j6 rfl
  split
  · exact Safe.pure (fun l h => by cases h)
  · next hlt =>
    refine (ntohs_safe _ buf j (by omega)).bind ?_
    intro prio _
    refine (u32_safe' buf (j + 2) (by omega)).bind ?_
    rintro j2 rfl
    refine (ntohs_safe _ buf (j + 2) (by omega)).bind ?_
    intro weight _
    refine (u32_safe' buf (j + 4) (by omega)).bind ?_
    rintro j4 rfl
    refine (ntohs_safe _ buf (j + 4) (by omega)).bind ?_
    intro port _
    have hn : NameOk (some 0) maxDomainLen newTarget := by
      intro b hb; cases hb
      simp [newTarget, maxDomainLen]
    have h := (nameLoop_safe buf (j + 6) (j + 6) 0 (some 0) maxDomainLen newTarget
      (Nat.le_refl _) hn).weaken (big' := Big buf) (by unfold Big; omega)
    refine Safe.bind (x := nameGet buf (j + 6) (some 0) maxDomainLen newTarget) h ?_
    rintro ⟨rc, tgt⟩ ⟨p1, p2, p3, p4⟩
    dsimp only
    split
    · next hrc =>
      refine Safe.pure ?_
      intro l hl'; cases hl'
      intro r hr
      rcases List.mem_cons.mp hr with rfl | hr
      · exact ⟨by simpa [newTarget] using p1, p4 (by omega) rfl⟩
      · exact hl r hr
    · exact Safe.pure (fun l hl' => by cases hl'; exact hl)

/-- postcondition of `resolver_raw_srv_lookup_buf` -/
def RawP (r : Bool × List (Rr Buf)) : Prop := GoodList r.2 ∧ (r.1 = true → r.2 ≠ [])

theorem goodList_nil : GoodList [] := fun r h => by cases h

theorem answers_safe (buf : Buf) (n j : Nat) (list : List (Rr Buf)) (hl : GoodList list) :
    Safe (Big buf) RawP (answers buf n j list) := by
  induction n generalizing j list with
  | zero =>
    unfold answers
    refine Safe.pure ⟨hl, ?_⟩
    cases list <;> simp
  | succ n ih =>
    unfold answers
    split
    · exact Safe.pure ⟨goodList_nil, by simp⟩
    · next hj =>
      refine (messageNameLen_safe buf j).bind ?_
      intro nl hnl
      split
      · exact Safe.pure ⟨hl, by simp⟩
      · next hnz =>
        have hnl := hnl hnz
        refine (u32_safe' buf (j + nl) (by omega)).bind ?_
        rintro j1 rfl
        refine (u32_safe' buf (j + nl + 9) (by omega)).bind ?_
        rintro j9 rfl
        split
        · exact Safe.pure ⟨goodList_nil, by simp⟩
        · next h9 =>
          refine (ntohs_safe _ buf (j + nl) (by omega)).bind ?_
          intro type _
          refine (u32_safe' buf (j + nl + 2) (by omega)).bind ?_
          rintro j2 rfl
          refine (ntohs_safe _ buf (j + nl + 2) (by omega)).bind ?_
          intro cls _
          refine (u32_safe' buf (j + nl + 8) (by omega)).bind ?_
          rintro j8 rfl
          refine (ntohs_safe _ buf (j + nl + 8) (by omega)).bind ?_
          intro rdlength hrd
          refine (u32_safe' buf (j + nl + 10) (by omega)).bind ?_
          rintro j10 rfl
          split
          · refine (srvRecord_safe buf (j + nl + 10) list (by omega) hl).bind ?_
            intro o ho
            cases o with
            | none => exact Safe.pure ⟨goodList_nil, by simp⟩
            | some l' =>
              dsimp only
              refine (u32_safe' buf (j + nl + 10 + rdlength) (by omega)).bind ?_
              rintro j' rfl
              exact ih _ _ (ho l' rfl)
          · refine (u32_safe' buf (j + nl + 10 + rdlength) (by omega)).bind ?_
            rintro j' rfl
            exact ih _ _ hl

theorem questions_safe (buf : Buf) (an n j : Nat) :
    Safe (Big buf) RawP (questions buf an n j) := by
  induction n generalizing j with
  | zero => exact answers_safe buf an j [] goodList_nil
  | succ n ih =>
    unfold questions
    split
    · exact Safe.pure ⟨goodList_nil, by simp⟩
    · next hj =>
      refine (messageNameLen_safe buf j).bind ?_
      intro nl hnl
      split
      · exact Safe.pure ⟨goodList_nil, by simp⟩
      · next hnz =>
        have hnl := hnl hnz
        refine (u32_safe' buf (j + (nl + 4)) (by omega)).bind ?_
        rintro j1 rfl
        exact ih _

theorem rd_safe (big : Prop) (buf : Buf) (i : Nat) (h : i < buf.size) :
    Safe big (fun _ => True) (rd buf i) := by
  rw [rd_ok _ _ h]; trivial

theorem rawLookup_safe (buf : Buf) : Safe (Big buf) RawP (rawLookup buf) := by
  unfold rawLookup
  split
  · exact Safe.pure ⟨goodList_nil, by simp⟩
  · next h =>
    have h12 : 12 ≤ buf.size := by simp [messageHeaderLen] at h; exact h
    refine (ntohs_safe _ buf 0 (by omega)).bind ?_; intro _ _
    refine (rd_safe _ buf 2 (by omega)).bind ?_; intro o2 _
    refine (rd_safe _ buf 3 (by omega)).bind ?_; intro o3 _
    refine (ntohs_safe _ buf 4 (by omega)).bind ?_; intro qd _
    refine (ntohs_safe _ buf 6 (by omega)).bind ?_; intro an _
    refine (ntohs_safe _ buf 8 (by omega)).bind ?_; intro _ _
    refine (ntohs_safe _ buf 10 (by omega)).bind ?_; intro _ _
    split
    · exact Safe.pure ⟨goodList_nil, by simp⟩
    · exact questions_safe buf an qd _


/-! ### `resolver_srv_lookup_buf` and the caller's view -/

theorem goodList_perm {l l' : List (Rr Buf)} (h : l'.Perm l) (hl : GoodList l) : GoodList l' :=
  fun r hr => hl r (h.mem_iff.mp hr)

/-- postcondition of `resolver_srv_lookup_buf`: FOUND iff the list is non-empty -/
def ListP (r : Bool × List (Rr Buf)) : Prop := GoodList r.2 ∧ (r.1 = true ↔ r.2 ≠ [])

theorem lookupList_safe (buf : Buf) : Safe (Big buf) ListP (lookupList buf) := by
  have h := rawLookup_safe buf
  unfold lookupList
  cases hx : rawLookup buf with
  | error e => rw [hx] at h; exact h
  | ok r =>
    rw [hx] at h
    obtain ⟨set, list⟩ := r
    obtain ⟨h1, h2⟩ := h
    dsimp only at h1 h2 ⊢
    show ListP _
    cases set with
    | true =>
      have hne := h2 rfl
      simp only [Bool.true_eq_false, false_and, if_false]
      refine ⟨goodList_perm (sort_perm _) h1, ?_⟩
      simp [sort_eq_nil, hne]
    | false =>
      by_cases hl : list = []
      · subst hl; simp [sort, ListP, goodList_nil]
      · simp [hl, sort, ListP, goodList_nil]

/-- the C string held by a target field -/
def cStr (fld : Buf) : Bytes := fld.toList.takeWhile (· ≠ 0)

theorem drop_toList (fld : Buf) (k : Nat) (hk : k < fld.size) :
    fld.toList.drop k = fld[k] :: fld.toList.drop (k + 1) := by
  rw [List.drop_eq_getElem_cons (by simpa using hk)]
  simp

theorem cString_ok (fld : Buf) (j k : Nat) (hkj : k ≤ j) (hj : j < fld.size) (hz : fld[j] = 0) :
    cString fld k = .ok ((fld.toList.drop k).takeWhile (· ≠ 0)) := by
  induction hd : j - k generalizing k with
  | zero =>
    have : k = j := by omega
    subst this
    rw [cString, dif_pos hj, if_pos hz, drop_toList fld k hj]
    simp [hz]
  | succ d ih =>
    have hk : k < fld.size := by omega
    rw [cString, dif_pos hk, drop_toList fld k hk]
    split
    · next h0 => simp [h0]
    · next h0 =>
      rw [ih (k + 1) (by omega) (by omega)]
      simp [h0]

theorem cStr_props (fld : Buf) (h : HasNul fld) : (cStr fld).length < fld.size ∧ 0 ∉ cStr fld := by
  obtain ⟨k, hk, hz⟩ := h
  constructor
  · unfold cStr
    have hsplit : fld.toList = fld.toList.take k ++ fld[k] :: fld.toList.drop (k + 1) := by
      rw [← drop_toList fld k hk, List.take_append_drop]
    have hlen : (fld.toList.takeWhile (· ≠ 0)).length ≤ k := by
      rw [hsplit, List.takeWhile_append]
      split
      · simp [hz]; omega
      · exact Nat.le_trans (List.takeWhile_sublist _).length_le (by simp; omega)
    omega
  · intro hm
    have h1 : (List.takeWhile (· ≠ 0) fld.toList).all (· ≠ 0) = true := List.all_takeWhile
    have := List.all_eq_true.mp h1 0 hm
    simp at this

def cOf (r : Rr Buf) : Rr Bytes := r.mapTarget cStr

theorem cRecord_ok (r : Rr Buf) (h : HasNul r.target) : cRecord r = .ok (cOf r) := by
  obtain ⟨k, hk, hz⟩ := h
  unfold cRecord
  rw [cString_ok r.target k 0 (Nat.zero_le _) hk hz]
  rfl

theorem mapM_cRecord_ok (l : List (Rr Buf)) (h : GoodList l) : l.mapM cRecord = .ok (l.map cOf) := by
  induction l with
  | nil => rfl
  | cons r rest ih =>
    rw [List.mapM_cons, cRecord_ok r (h r (by simp)).2, ih (fun x hx => h x (by simp [hx]))]
    rfl

/-- everything `lookupArr` can do -/
theorem lookupArr_cases (buf : Buf) :
    (lookupArr buf = .error .cursorWrap ∧ Big buf) ∨
    (lookupArr buf = .notFound ∧ lookupList buf = .ok (false, [])) ∨
    (∃ l, lookupList buf = .ok (true, l) ∧ l ≠ [] ∧ GoodList l ∧ lookupArr buf = .found (l.map cOf)) := by
  have h := lookupList_safe buf
  unfold lookupArr
  cases hx : lookupList buf with
  | error e =>
    rw [hx] at h
    obtain ⟨rfl, hb⟩ := h
    exact .inl ⟨rfl, hb⟩
  | ok r =>
    rw [hx] at h
    obtain ⟨set, l⟩ := r
    obtain ⟨h1, h2⟩ := h
    dsimp only at h1 h2
    cases set with
    | false =>
      have : l = [] := by
        by_cases hl : l = []
        · exact hl
        · exact absurd (h2.mpr hl) (by simp)
      subst this
      exact .inr (.inl ⟨rfl, rfl⟩)
    | true =>
      refine .inr (.inr ⟨l, rfl, h2.mp rfl, h1, ?_⟩)
      simp only [mapM_cRecord_ok l h1]

end Strophe.Resolver
