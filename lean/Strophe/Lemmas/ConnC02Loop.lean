/-
The C02 invariant through parser events, timers, the write loop and the event loop.
-/
import Strophe.Lemmas.ConnC02Run

namespace Strophe.Lemmas.ConnC02
open Strophe Strophe.Conn

/-- what holds between parser events / timer runs -/
def PE (c : Conn) : Prop := Inv none none c ∧ c.tlsSupport = false

theorem Inv_setPst {u ut : Option Nat} {c : Conn} (h : Inv u ut c) (p' : PSt) (hp : p' = .fresh → c.pst = .fresh)
    (v : Nat) : Inv u ut { c with pst := p', protoViol := v } := by
  have hfr : Fr { c with pst := p', protoViol := v } → Fr c := by
    rintro (f | f)
    · exact .inl f
    · exact .inr (hp f)
  refine ⟨⟨h.g.nc, h.g.userH, h.g.userI, h.g.ud0, h.g.uniq, h.g.q1, h.g.noT, h.g.gated⟩,
    ⟨h.ph.idFn, h.ph.uniqS, h.ph.uniqTM, h.ph.excl, fun f => h.ph.e5 (hfr f), h.ph.e6, h.ph.e7, ?_, h.ph.userT⟩,
    ⟨?_, h.me.i2, h.me.k⟩, ⟨h.el.txN, h.el.qN, h.el.smN⟩⟩
  · intro hc hf
    exact h.ph.frp hc (hp hf)
  · intro hl
    rcases h.me.i1 hl with n | ⟨a, b, d, e⟩
    · exact .inl n
    · exact .inr ⟨a, b, d, fun f => e (hfr f)⟩

/-! ### stanzas -/

theorem Inv_smHandleStanza {c : Conn} (h : Inv none none c) (st : XTree) : Inv none none (smHandleStanza c st) := by
  have k : Inv none none (smHandleStanza.smElement c st) := by
    unfold smHandleStanza.smElement
    split
    · exact h
    · split
      · exact Inv_sendStanza' h _ _ rfl
      · split
        · split
          · exact h
          · exact Inv_smUpdate h _ (fun e he => (List.dropWhile_sublist _).subset he) (fun e => .inl e)
        · exact h
  unfold smHandleStanza
  split
  · split
    · exact Inv_smUpdate h _ (fun _ he => he) (fun e => .inl e)
    · exact k
  · exact k

theorem smHandleStanza_sup (c : Conn) (st : XTree) : (smHandleStanza c st).tlsSupport = c.tlsSupport := by
  unfold smHandleStanza smHandleStanza.smElement
  repeat' split
  all_goals simp

/-- the ghost log of the inbound count is not looked at by the invariant -/
theorem Inv_rxLog {u ut : Option Nat} {c : Conn} (h : Inv u ut c) (l : List RxEv) :
    Inv u ut { c with rxLog := l } :=
  h.same (by simp [SameAll])

theorem PE_handleStreamStanza {c : Conn} (h : PE c) (hp : c.pst = .opened) (st : XTree) :
    PE (handleStreamStanza c st) := by
  unfold handleStreamStanza
  split
  · exact h
  · rename_i hd
    have d : Disp (fireStanza c st) :=
      Disp_fireStanza ⟨h.1, ⟨h.2, fun e => absurd e hd, by rw [hp]; simp⟩⟩ st
    simp only
    split
    · exact ⟨Inv_smHandleStanza (Inv_rxLog d.1 _) st, by rw [smHandleStanza_sup]; exact d.2.sup⟩
    · exact ⟨Inv_rxLog d.1 _, d.2.sup⟩

theorem not_Fr_same {c c' : Conn} (n : ¬Fr c) (e : same_p[c, c']) : ¬Fr c' := by
  unfold Fr at *; rw [e.1, e.2]; exact n

/-! ### stream open / end -/

/-- what `runOpenHandler` relies on: the stream has just been (re)started -/
structure Opening (c : Conn) : Prop where
  nF : NoH none isF c
  nTM : NoTM none c
  nT : NoH none isT c
  nS : NoH none isS c
  nFr : ¬Fr c
  pre : OpenPre c → ¬LateC c ∧ (c.state ≠ .disconnected → NT c)

theorem Opening.same {c c' : Conn} (o : Opening c) (e1 : c'.handlers = c.handlers) (e2 : c'.idHandlers = c.idHandlers)
    (e3 : ∀ t ∈ c'.timed, ∃ t0 ∈ c.timed, t.fn = t0.fn ∧ t.uid = t0.uid) (e4 : c'.openHandler = c.openHandler)
    (e5 : same_p[c, c']) (e6 : c'.sm.enabled = c.sm.enabled) (e7 : c'.state = c.state) (e8 : c'.cert = c.cert)
    (e9 : c'.saslSupport = c.saslSupport) (e10 : c'.g.offeredMechs = c.g.offeredMechs) : Opening c' := by
  refine ⟨o.nF.ofEq e1, ?_, o.nT.ofEq e1, o.nS.ofEq e1, ?_, ?_⟩
  · intro t ht hf
    obtain ⟨t0, h0, f1, f2⟩ := e3 t ht
    rw [f2]; exact o.nTM t0 h0 (f1 ▸ hf)
  · unfold Fr; rw [e5.1, e5.2]; exact o.nFr
  · unfold OpenPre LateC; rw [e1, e2, e4, e6, e7]
    exact fun x => ⟨(o.pre x).1, fun hl => ((o.pre x).2 hl).congr e8 e10 e9⟩

theorem Inv_componentOpen {c : Conn} (h : Inv none none c) : Inv none none (componentOpen c) := by
  unfold componentOpen
  have h2 := Inv_addHandler (Inv_resetTimed h) (.sys .error) 0 (some Gen.nsStreams) (some (b "error")) none false
    (by simp [isF]) (by simp [isT]) (by simp [isS]) (by simp [isLate]) (by simp)
  simp only
  split
  · exact Inv_xmppDisconnect h2
  · exact Inv_addTimed (Inv_addHandler (Inv_sendRawString' h2 .handshake rfl) (.sys .componentHs) 0 none
      (some (b "handshake")) none false (by simp [isF]) (by simp [isT]) (by simp [isS]) (by simp [isLate]) (by simp))
      _ _ _ (by simp)

theorem componentOpen_sup (c : Conn) : (componentOpen c).tlsSupport = c.tlsSupport := by
  unfold componentOpen; simp only; split <;> simp

theorem Inv_runOpenHandler {c : Conn} (h : Inv none none c) (o : Opening c) : Inv none none (runOpenHandler c) := by
  unfold runOpenHandler
  split
  · rename_i ho
    obtain ⟨nl, nt⟩ := o.pre (.inl ho)
    have h2 := Inv_addHandler (Inv_resetTimed h) (.sys .error) 0 (some Gen.nsStreams) (some (b "error")) none false
      (by simp [isF]) (by simp [isT]) (by simp [isS]) (by simp [isLate]) (by simp)
    have o2 : Opening (addHandler (resetTimed c) (.sys .error) 0 (some Gen.nsStreams) (some (b "error")) none false) := by
      refine ⟨NoH_addHandler (o.nF.ofEq (by simp)) rfl, ?_, NoH_addHandler (o.nT.ofEq (by simp)) rfl,
        NoH_addHandler (o.nS.ofEq (by simp)) rfl, not_Fr_same o.nFr (by simp), fun _ => ⟨?_, ?_⟩⟩
      · intro t ht hf
        simp only [addHandler_frame, resetTimed_frame, List.mem_map] at ht
        obtain ⟨t0, h0, rfl⟩ := ht
        exact o.nTM t0 h0 hf
      · intro l; apply nl
        rcases l with ⟨x, hx, hp⟩ | l | l | l | l
        · rcases mem_addHandler hx with hx | ⟨hx, _⟩
          · exact .inl ⟨x, by simpa using hx, hp⟩
          · subst hx; simp [isLate] at hp
        · exact .inr (.inl (by simpa using l))
        · exact .inr (.inr (.inl (by simpa using l)))
        · exact .inr (.inr (.inr (.inl (by simpa using l))))
        · exact .inr (.inr (.inr (.inr (by simpa using l))))
      · intro hl; exact (nt (by simpa using hl)).congr (by simp) (by simp) (by simp)
    obtain ⟨nl2, nt2⟩ := o2.pre (by unfold OpenPre; simp [ho])
    have h3 := Inv_addHandler h2 (.sys .features) 0 (some Gen.nsStreams) (some (b "features")) none false
      (fun _ => ⟨rfl, o2.nT, o2.nS, o2.nFr, nl2, nt2⟩) (by simp [isT]) (by simp [isS]) (by simp [isLate]) (by simp)
    refine Inv_addTimed h3 _ _ _ (fun _ => ⟨rfl, NoH_addHandler o2.nT rfl, NoH_addHandler o2.nS rfl,
      not_Fr_same o2.nFr (by simp), ?_, fun hl => (nt2 (by simpa using hl)).congr (by simp) (by simp) (by simp)⟩)
    intro l; apply nl2
    rcases l with ⟨x, hx, hp⟩ | l | l | l | l
    · rcases mem_addHandler hx with hx | ⟨hx, _⟩
      · exact .inl ⟨x, hx, hp⟩
      · subst hx; simp [isLate] at hp
    · exact .inr (.inl (by simpa using l))
    · exact .inr (.inr (.inl (by simpa using l)))
    · exact .inr (.inr (.inr (.inl (by simpa using l))))
    · exact .inr (.inr (.inr (.inr (by simpa using l))))
  · rename_i ho
    obtain ⟨nl, nt⟩ := o.pre (.inr ho)
    have h3 := Inv_addHandler h (.sys .features) 0 (some Gen.nsStreams) (some (b "features")) none false
      (fun _ => ⟨rfl, o.nT, o.nS, o.nFr, nl, nt⟩) (by simp [isT]) (by simp [isS]) (by simp [isLate]) (by simp)
    refine Inv_addTimed h3 _ _ _ (fun _ => ⟨rfl, NoH_addHandler o.nT rfl, NoH_addHandler o.nS rfl,
      not_Fr_same o.nFr (by simp), ?_, fun hl => (nt (by simpa using hl)).congr (by simp) (by simp) (by simp)⟩)
    intro l; apply nl
    rcases l with ⟨x, hx, hp⟩ | l | l | l | l
    · rcases mem_addHandler hx with hx | ⟨hx, _⟩
      · exact .inl ⟨x, hx, hp⟩
      · subst hx; simp [isLate] at hp
    · exact .inr (.inl (by simpa using l))
    · exact .inr (.inr (.inl (by simpa using l)))
    · exact .inr (.inr (.inr (.inl (by simpa using l))))
    · exact .inr (.inr (.inr (.inr (by simpa using l))))
  · rename_i ho
    have l : LateC c := .inr (.inr (.inl ho))
    have s : Safe c := by
      rcases h.g.gated with ⟨_, _, n3, _⟩ | s
      · exact absurd ho n3
      · exact s
    exact Inv_addTimed (Inv_addHandler h (.sys .featuresSasl) 0 (some Gen.nsStreams) (some (b "features")) none false
      (by simp [isF]) (by simp [isT]) (by simp [isS]) (fun _ => ⟨s, l⟩) (by simp)) _ _ _ (by simp)
  · rename_i ho
    have l : LateC c := .inr (.inr (.inr (.inl ho)))
    have s : Safe c := by
      rcases h.g.gated with ⟨_, _, _, n4⟩ | s
      · exact absurd ho n4
      · exact s
    exact Inv_addTimed (Inv_addHandler h (.sys .featuresCompress) 0 (some Gen.nsStreams) (some (b "features")) none false
      (by simp [isF]) (by simp [isT]) (by simp [isS]) (fun _ => ⟨s, l⟩) (by simp)) _ _ _ (by simp)
  · exact Inv_componentOpen h
  · exact h

theorem runOpenHandler_sup (c : Conn) : (runOpenHandler c).tlsSupport = c.tlsSupport := by
  unfold runOpenHandler; split
  all_goals first | simp | exact componentOpen_sup c

theorem PE_handleStreamStart {c : Conn} (h : PE c) (hf : c.pst = .fresh) (n : Bytes) (id : Option Bytes) :
    PE (handleStreamStart { c with pst := .opened } n id) := by
  have h1 : Inv none none { c with pst := .opened } := Inv_setPst h.1 .opened (by simp) c.protoViol
  unfold handleStreamStart
  split
  · exact ⟨h1, h.2⟩
  · rename_i hd
    have hc : c.state = .connected := by
      have := h.1.g.nc
      cases hs : c.state
      · exact absurd hs hd
      · exact absurd hs this
      · rfl
    simp only
    split
    · obtain ⟨a, b, d, e⟩ := h.1.ph.e5 (.inr hf)
      have hrp := h.1.ph.frp hc hf
      have o : Opening { c with pst := .opened, streamId := id } := by
        refine ⟨a, b, d, e, ?_, fun op => ⟨fun l => (h.1.ph.e6 l).2.2.2.2 op, fun hl => ?_⟩⟩
        · rintro (f | f)
          · rw [hrp] at f; cases f
          · cases f
        · rcases h.1.me.i1 hl with n | ⟨_, _, _, x⟩
          · exact n
          · exact absurd op (x (.inr hf))
      have h2 : Inv none none { c with pst := .opened, streamId := id } := h1.same (by simp [SameAll])
      exact ⟨Inv_runOpenHandler h2 o, by rw [runOpenHandler_sup]; exact h.2⟩
    · exact ⟨Inv_connDisconnect (h1.same (by simp [SameAll])), by simpa using h.2⟩

theorem Inv_handleStreamEnd {c : Conn} (h : Inv none none c) : Inv none none (handleStreamEnd c) := by
  unfold handleStreamEnd
  split
  · exact h
  · simp only [triggerSmCallback_eq]
    have h2 := Inv_smUpdate h { c.sm with canResume := false } (fun _ he => he) (fun e => .inl e)
    exact Inv_connDisconnect (Inv_delTimed h2 _)

theorem handleStreamEnd_sup (c : Conn) : (handleStreamEnd c).tlsSupport = c.tlsSupport := by
  unfold handleStreamEnd; split <;> simp

theorem PE_handleStreamEnd {c : Conn} (h : PE c) : PE (handleStreamEnd { c with pst := .closed }) :=
  ⟨Inv_handleStreamEnd (Inv_setPst h.1 .closed (by simp) c.protoViol), by rw [handleStreamEnd_sup]; exact h.2⟩

theorem PE_parserEvent {c : Conn} (h : PE c) (ev : PEv) : PE (parserEvent c ev) := by
  cases ev with
  | open_ n id =>
    simp only [parserEvent]
    split
    · exact ⟨Inv_setPst h.1 c.pst (fun e => e) _, h.2⟩
    · rename_i hp
      exact PE_handleStreamStart h (by simpa using hp) n id
  | stanza t =>
    simp only [parserEvent]
    split
    · exact ⟨Inv_setPst h.1 c.pst (fun e => e) _, h.2⟩
    · rename_i hp
      exact PE_handleStreamStanza h (by simpa using hp) t
  | end_ =>
    simp only [parserEvent]
    split
    · exact ⟨Inv_setPst h.1 c.pst (fun e => e) _, h.2⟩
    · exact PE_handleStreamEnd h
  | error =>
    simp only [parserEvent]
    exact ⟨Inv_sendStanza' (Inv_setPst h.1 .closed (by simp) c.protoViol) _ _ rfl, by simpa using h.2⟩

/-! ### timed handlers -/

theorem not_NoTM_none {c : Conn} {t : Timed} (ht : t ∈ c.timed) (hf : t.fn = .missingFeatures) (n : NoTM none c) :
    False := by
  have := n t ht hf; simp at this

/-- what the invariant says when the `missingFeatures` timer is about to run (the `features` handler has been
    deleted) -/
theorem entry_TM {c : Conn} (h : Inv none none c) {t : Timed} (ht : t ∈ c.timed) (hf : t.fn = .missingFeatures)
    (nF : NoH none isF c) : Clear none (some t.uid) c ∧ (c.state ≠ .disconnected → NT c) := by
  have k : NoH none isT c ∧ NoH none isS c := by
    rcases h.ph.excl with ⟨a, b⟩ | ⟨⟨_, a'⟩, _⟩ | ⟨⟨_, a'⟩, _⟩
    · exact ⟨a, b⟩
    · exact (not_NoTM_none ht hf a').elim
    · exact (not_NoTM_none ht hf a').elim
  refine ⟨⟨nF, ?_, k.1, k.2, fun f => not_NoTM_none ht hf (h.ph.e5 f).2.1,
    fun l => not_NoTM_none ht hf (h.ph.e6 l).2.1⟩, ?_⟩
  · intro t' ht' hf'
    rw [h.ph.uniqTM t ht t' ht' hf hf']
  · intro hl
    rcases h.me.i1 hl with n | ⟨_, b, _⟩
    · exact n
    · exact (not_NoTM_none ht hf b).elim

theorem PE_runTimed {c : Conn} (h : PE c) {t : Timed} (ht : t ∈ c.timed) :
    PE (if (runTimed c t.fn).2 then (runTimed c t.fn).1
        else { (runTimed c t.fn).1 with timed := (runTimed c t.fn).1.timed.filter (·.uid ≠ t.uid) }) := by
  cases hfn : t.fn with
  | missingFeatures =>
    simp only [runTimed]
    have h1 := Inv_filterHandlers h.1 (fun h => h.fn ≠ .sys .features)
    have nF : NoH none isF { c with handlers := c.handlers.filter (fun h => h.fn ≠ .sys .features) } := by
      intro x hx hp
      have := (List.mem_filter.1 hx).2
      rw [isF_eq hp] at this; simp at this
    obtain ⟨cl, nt⟩ := entry_TM (t := t) h1 ht hfn nF
    have h2 := Inv_auth 3 _ (h1.weaken (u := none) (ut := some t.uid)) cl (by simp [h.2]) (fun hl _ => nt hl)
    exact ⟨h2.unexemptT t.uid, by simpa [authTop] using auth_sup 2 _⟩
  | missingFeaturesSasl | missingBind | missingSession | missingLegacy | missingHandshake =>
    simp only [runTimed]
    exact ⟨Inv_filterTimed (Inv_xmppDisconnect h.1) _, by simpa using h.2⟩
  | disconnectCleanup =>
    simp only [runTimed]
    exact ⟨Inv_filterTimed (Inv_connDisconnect h.1) _, by simpa using h.2⟩
  | userTimed =>
    simp only [runTimed]
    exact ⟨Inv_notify h.1 _, by simpa using h.2⟩

theorem PE_mapTimed {c : Conn} (h : PE c) (f : Timed → Timed)
    (hf : ∀ t, (f t).fn = t.fn ∧ (f t).uid = t.uid ∧ (f t).user = t.user) :
    PE { c with timed := c.timed.map f } := by
  refine ⟨h.1.mono ⟨fun x hx => ⟨x, hx, rfl, rfl, rfl, rfl⟩, fun x hx => ⟨x, hx, rfl, rfl⟩, ?_, fun _ he => he,
    by simp, by simp, by simp, by simp, by simp⟩ (by simp), h.2⟩
  intro x hx
  obtain ⟨y, hy, rfl⟩ := List.mem_map.1 hx
  exact ⟨y, hy, (hf y).1, (hf y).2.1, (hf y).2.2⟩

theorem PE_fireTimedOne {c : Conn} (h : PE c) (uid : Nat) : PE (fireTimedOne c uid) := by
  unfold fireTimedOne
  split
  · exact h
  · rename_i t hfind
    have ht := List.mem_of_find?_eq_some hfind
    have hu : t.uid = uid := by simpa using List.find?_some hfind
    split
    · exact h
    · split
      · have h0 := PE_mapTimed h (fun (x : Timed) => if x.uid = uid then { x with lastStamp := c.now } else x)
          (fun t => by split <;> simp)
        have ht0 : ({ t with lastStamp := c.now } : Timed) ∈
            (c.timed.map fun (x : Timed) => if x.uid = uid then { x with lastStamp := c.now } else x) := by
          refine List.mem_map.2 ⟨t, ht, ?_⟩
          simp [hu]
        have := PE_runTimed h0 (t := { t with lastStamp := c.now }) ht0
        simp only [hu] at this
        simp only
        split
        · rename_i hk; simpa [hk] using this
        · rename_i hk; simpa [hk] using this
      · exact h

theorem PE_fireTimed {c : Conn} (h : PE c) : PE (fireTimed c) := by
  unfold fireTimed
  split
  · exact h
  · simp only
    exact foldl_pres (P := PE) fireTimedOne (fun c a h => PE_fireTimedOne h a) _ _
      (PE_mapTimed h (fun (t : Timed) => { t with enabled := true }) (fun t => ⟨rfl, rfl, rfl⟩))

end Strophe.Lemmas.ConnC02
