/-
The negotiation token, part 4: stream headers, timers, the event loop, connect; reachable states.
-/
import Strophe.Lemmas.ConnC04Inv8

namespace Strophe.Lemmas.ConnC04
open Strophe Strophe.Conn

variable {c : Conn} {u ut : Option Nat} {n : Nat}

/-! ### RP0: no parser reset is requested -/

def RP0 (c : Conn) : Prop := c.resetParser = false

theorem RP0_pushRawWith {it o sn} (h : RP0 c) : RP0 (pushRawWith c it o sn) :=
  (pushRawWith_same c it o sn).resetParser.trans h
theorem RP0_resetSmForReconnect (h : RP0 c) : RP0 (resetSmForReconnect c) := by
  unfold resetSmForReconnect; exact h
theorem RP0_rec1 {p : PSt} : RP0 { c with resetParser := false, pst := p } := rfl
theorem RP0_triggerSmCallback (h : RP0 c) : RP0 (triggerSmCallback c) := h
theorem RP0_addHandler {fn ud ns name type user} (h : RP0 c) : RP0 (addHandler c fn ud ns name type user) := by
  c4auto addHandler
theorem RP0_addIdHandler {fn id user} (h : RP0 c) : RP0 (addIdHandler c fn id user) := by
  c4auto addIdHandler
theorem RP0_addTimed {fn period user} (h : RP0 c) : RP0 (addTimed c fn period user) := by
  c4auto addTimed
theorem RP0_delTimed {fn} (h : RP0 c) : RP0 (delTimed c fn) := by
  c4auto delTimed
theorem RP0_resetTimed (h : RP0 c) : RP0 (resetTimed c) := by
  c4auto resetTimed
theorem RP0_notify {e} (h : RP0 c) : RP0 (notify c e) := by
  c4auto notify
theorem RP0_connDisconnect (h : RP0 c) : RP0 (connDisconnect c) := by
  c4auto connDisconnect
theorem RP0_pushRaw {it o} (h : RP0 c) : RP0 (pushRaw c it o) := by
  c4auto pushRaw
theorem RP0_sendStanza {it o} (h : RP0 c) : RP0 (sendStanza c it o) := by
  c4auto sendStanza
theorem RP0_sendRaw {it o} (h : RP0 c) : RP0 (sendRaw c it o) := by
  c4auto sendRaw
theorem RP0_sendRawString {it} (h : RP0 c) : RP0 (sendRawString c it) := by
  c4auto sendRawString
theorem RP0_xmppDisconnect (h : RP0 c) : RP0 (xmppDisconnect c) := by
  c4auto xmppDisconnect
theorem RP0_authLegacyStep (h : RP0 c) : RP0 (authLegacyStep c) := by
  c4auto authLegacyStep
theorem RP0_auth (n : Nat) : ∀ {c}, RP0 c → RP0 (auth c n) := by
  induction n with
  | zero => intro c h; exact h
  | succ n ih =>
    intro c h
    rw [auth]
    dsimp only
    c4trav
    all_goals first | (apply ih; c4trav) | skip
theorem RP0_authTop (h : RP0 c) : RP0 (authTop c) := RP0_auth _ h
theorem RP0_runTimed {f} (h : RP0 c) : RP0 ((runTimed c f).1) := by
  c4auto runTimed
theorem RP0_fireTimedOne {uid} (h : RP0 c) : RP0 (fireTimedOne c uid) := by
  c4auto fireTimedOne
theorem RP0_fireTimed (h : RP0 c) : RP0 (fireTimed c) := by
  c4auto fireTimed

/-! ### parser state -/

theorem frN_closed_le (rp : Bool) (p : PSt) : frN rp .closed ≤ frN rp p := by
  unfold frN; cases rp <;> cases p <;> simp

/-- the stream is over (or broken) -/
theorem Tk_pstClosed (h : Tk u ut n c) : Tk u ut n { c with pst := .closed } := by
  have e := frN_closed_le c.resetParser c.pst
  refine ⟨?_, fun he => ?_, h.mt, fun _ hp => (by cases hp), fun hi => ?_⟩
  · show cnt u c.handlers + cnt u c.idHandlers + frN c.resetParser .closed ≤ n
    have := h.le; omega
  · obtain ⟨a1, a2, a3⟩ := h.en he
    exact ⟨by show frN c.resetParser .closed = 0; omega, a2, a3⟩
  · obtain ⟨a1, a2⟩ := h.c1 hi
    refine ⟨a1, ?_⟩
    show cnt u c.handlers + cnt u c.idHandlers + frN c.resetParser .closed = 0
    omega

theorem Tk_handleStreamEnd (h : Tk u ut n c) : Tk u ut n (handleStreamEnd c) := by
  c4auto handleStreamEnd
theorem Tk_connEstablished (h : Tk u ut n c) : Tk u ut n (connEstablished c) := by
  c4auto connEstablished
theorem Tk_xmppSend {it} (h : Tk u ut n c) : Tk u ut n (xmppSend c it) := by
  c4auto xmppSend
theorem Tk_xmppSendRawString {it} (h : Tk u ut n c) : Tk u ut n (xmppSendRawString c it) := by
  c4auto xmppSendRawString
theorem Tk_xmppSendRaw {it} (h : Tk u ut n c) : Tk u ut n (xmppSendRaw c it) := by
  c4auto xmppSendRaw
theorem Tk_release (h : Tk u ut n c) : Tk u ut n (release c) := by
  c4auto release
theorem Tk_setFlags {f} (h : Tk u ut n c) : Tk u ut n ((setFlags c f).1) := by
  c4auto setFlags

/-! ### stream header -/

theorem addHandler_has (c : Conn) (fn : HFun) (ns name type : Option Bytes) (user : Bool) :
    ∃ x ∈ (addHandler c fn 0 ns name type user).handlers, x.fn = fn := by
  unfold addHandler
  split
  · rename_i h
    rw [List.any_eq_true] at h
    obtain ⟨x, hx, hp⟩ := h
    exact ⟨x, hx, by simp at hp; exact hp.1⟩
  · exact ⟨_, List.mem_append_right _ (List.mem_singleton.2 rfl), rfl⟩

/-- the timer that waits for the stream features is started next to the features handler -/
theorem Tk_addTimed_M {period user} (h : Tk none ut n c) (hF : ∃ x ∈ c.handlers, x.fn = .sys .features) :
    Tk none ut n (addTimed c .missingFeatures period user) := by
  unfold addTimed; split
  · exact h
  · refine { h with mt := ?_ }
    intro t ht hf hu
    obtain ⟨x, hx, hfx⟩ := hF
    exact ⟨x, hx, hfx, by simp⟩

theorem Tk_runOpenHandler (h : Tk none ut 0 c) (ho : Off c) : Tk none ut 1 (runOpenHandler c) := by
  have h1 : Tk none ut 1 c := h.mono (Nat.zero_le _)
  unfold runOpenHandler
  split
  · dsimp only
    apply Tk_addTimed_M
    · c4trav
    · exact addHandler_has _ _ _ _ _ _
  · dsimp only
    apply Tk_addTimed_M
    · c4trav
    · exact addHandler_has _ _ _ _ _ _
  · c4trav
  · c4trav
  · exact Tk_componentOpen h1
  · exact h1

/-- the stream header arrives: the pending parser reset is over -/
theorem Tk_streamStart {nm id} (h : Tk none ut 1 c) (hp : c.pst = .fresh) (hnc : NC c) :
    Tk none ut 1 (handleStreamStart { c with pst := .opened } nm id) := by
  have hfr : frN c.resetParser c.pst = 1 := by unfold frN; rw [if_pos (.inr hp)]
  have hle := h.le
  have h1 : cnt none c.handlers = 0 := by omega
  have h2 : cnt none c.idHandlers = 0 := by omega
  have hen : c.sm.enabled = false := by
    cases he : c.sm.enabled with
    | false => rfl
    | true => have := (h.en he).1; omega
  have hid : c.sm.id = none := by
    cases hi : c.sm.id with
    | none => rfl
    | some i => have := (h.c1 (by rw [hi]; rfl)).2; omega
  have hle' : frN c.resetParser .opened ≤ 1 := by unfold frN; split <;> omega
  -- after the header: what was pending is used up
  have base : ∀ (sid : Option Bytes), Tk none ut 1 { c with pst := .opened, streamId := sid } := by
    intro sid
    refine ⟨?_, fun he => ?_, h.mt, fun _ hp' => (by cases hp'), fun hi => ?_⟩
    · show cnt none c.handlers + cnt none c.idHandlers + frN c.resetParser .opened ≤ 1
      omega
    · have : c.sm.enabled = true := he
      rw [hen] at this; cases this
    · have : c.sm.id.isSome = true := hi
      rw [hid] at this; cases this
  unfold handleStreamStart
  refine pred_ite (P := Tk none ut 1) (fun _ => base _) (fun hs => ?_)
  have hs : c.state ≠ .disconnected := hs
  have hc : c.state = .connected := by
    unfold NC at hnc
    cases hst : c.state <;> simp_all
  have hrp : c.resetParser = false := h.frp hc hp
  have hz : frN c.resetParser .opened = 0 := by unfold frN; rw [hrp]; simp
  have base0 : ∀ (sid : Option Bytes), Tk none ut 0 { c with pst := .opened, streamId := sid } := by
    intro sid
    refine ⟨?_, fun he => ?_, h.mt, fun _ hp' => (by cases hp'), fun hi => ?_⟩
    · show cnt none c.handlers + cnt none c.idHandlers + frN c.resetParser .opened ≤ 0
      omega
    · have : c.sm.enabled = true := he
      rw [hen] at this; cases this
    · have : c.sm.id.isSome = true := hi
      rw [hid] at this; cases this
  dsimp only
  refine pred_ite (P := Tk none ut 1) (fun _ => ?_) (fun _ => ?_)
  · exact Tk_runOpenHandler (c := { c with pst := .opened, streamId := id }) (base0 _) ⟨hen, hid⟩
  · exact Tk_connDisconnect (c := { c with pst := .opened, streamId := none }) (base _)

/-! ### parser events -/

/-- between parser events -/
def TP (c : Conn) : Prop := TH none c ∧ NC c

theorem TP_parserEvent {e} (h : TP c) : TP (parserEvent c e) := by
  cases e with
  | stanza st =>
    unfold parserEvent
    refine pred_ite (P := TP) (fun _ => h) (fun _ => ⟨TH_handleStreamStanza h.1, NC_handleStreamStanza h.2⟩)
  | open_ nm id =>
    unfold parserEvent
    refine pred_ite (P := TP) (fun _ => h) (fun hp => ?_)
    have hp : c.pst = .fresh := by
      cases hq : c.pst <;> simp_all
    exact ⟨⟨Tk_streamStart h.1.1 hp h.2, HW_handleStreamStart (c := { c with pst := .opened }) h.1.2⟩,
      NC_handleStreamStart (c := { c with pst := .opened }) h.2⟩
  | end_ =>
    unfold parserEvent
    refine pred_ite (P := TP) (fun _ => h) (fun _ => ?_)
    exact ⟨⟨Tk_handleStreamEnd (c := { c with pst := .closed }) (Tk_pstClosed h.1.1),
      HW_handleStreamEnd (c := { c with pst := .closed }) h.1.2⟩,
      NC_handleStreamEnd (c := { c with pst := .closed }) h.2⟩
  | error =>
    unfold parserEvent
    exact ⟨⟨Tk_sendStanza (c := { c with pst := .closed }) (Tk_pstClosed h.1.1),
      HW_sendStanza (c := { c with pst := .closed }) h.1.2⟩,
      NC_sendStanza (c := { c with pst := .closed }) h.2⟩

/-! ### timers -/

theorem cnt_filter_lt {u : Option Nat} {l : List Handler} {p : Handler → Bool} {x : Handler} (hx : x ∈ l)
    (ht : tokP u x = true) (hp : p x = false) : cnt u (l.filter p) + 1 ≤ cnt u l := by
  induction l with
  | nil => cases hx
  | cons a l ih =>
    have e1 : cnt u (a :: l) = cnt u [a] + cnt u l := cnt_append u [a] l
    rw [List.filter_cons]
    rcases List.mem_cons.1 hx with rfl | hx
    · rw [hp, e1, cnt_single, ht]
      have := cnt_filter_le u p l
      simp; omega
    · have := ih hx
      by_cases hpa : p a = true
      · rw [if_pos hpa]
        have e2 : cnt u (a :: l.filter p) = cnt u [a] + cnt u (l.filter p) := cnt_append u [a] (l.filter p)
        rw [e1, e2]; omega
      · rw [if_neg hpa, e1]; omega

/-- the timer that waited for the stream features fires: the features handler is withdrawn -/
theorem Tk_timedM {t : Timed} (h : Tk none none 1 c) (hw : HW c) (ht : t ∈ c.timed) (hf : t.fn = .missingFeatures) :
    Tk none (some t.uid) 0 { c with handlers := c.handlers.filter (fun h => h.fn ≠ .sys .features) } ∧
    Off { c with handlers := c.handlers.filter (fun h => h.fn ≠ .sys .features) } := by
  obtain ⟨x, hx, hfx, _⟩ := h.mt t ht hf (by simp)
  have htx : tokP none x = true := by rw [tokP_none_iff, hfx]; rfl
  have hpx : (fun (h : Handler) => decide (h.fn ≠ .sys .features)) x = false := by simp [hfx]
  have e := cnt_filter_lt hx htx hpx
  have hle := h.le
  have hen : c.sm.enabled = false := by
    cases he : c.sm.enabled with
    | false => rfl
    | true =>
      have := (h.en he).2.1 x hx htx
      rw [hfx] at this; cases this
  have hid : c.sm.id = none := by
    cases hi : c.sm.id with
    | none => rfl
    | some i => have := (h.c1 (by rw [hi]; rfl)).2; omega
  refine ⟨⟨?_, fun he => ?_, ?_, h.frp, fun hi => ?_⟩, hen, hid⟩
  · show cnt none (c.handlers.filter _) + cnt none c.idHandlers + frN c.resetParser c.pst ≤ 0
    omega
  · have : c.sm.enabled = true := he
    rw [hen] at this; cases this
  · intro t' ht' hf' hu
    exact absurd (congrArg some (hw.mu t' ht' t ht hf' hf)) hu
  · have : c.sm.id.isSome = true := hi
    rw [hid] at this; cases this

/-- the timer that has fired is removed -/
theorem Tk_leaveT {tuid : Nat} (h : Tk u (some tuid) n c) : Tk u none n { c with timed := c.timed.filter (·.uid ≠ tuid) } := by
  refine { h with mt := ?_ }
  intro t ht hf _
  obtain ⟨ht1, ht2⟩ := List.mem_filter.1 ht
  have hne : t.uid ≠ tuid := by simpa using ht2
  exact h.mt t ht1 hf (fun e => hne (Option.some.inj e))

theorem Tk_ut_none (h : Tk u none n c) {ut : Option Nat} : Tk u ut n c :=
  { h with mt := fun t ht hf _ => h.mt t ht hf (by simp) }

theorem TH_fireTimedOne {uid} (h : TH none c) : TH none (fireTimedOne c uid) := by
  unfold fireTimedOne
  split
  · exact h
  · rename_i t hf
    have hmem := List.mem_of_find?_eq_some hf
    have huid : t.uid = uid := by simpa using List.find?_some hf
    refine pred_ite (P := TH none) (fun _ => h) (fun _ => ?_)
    refine pred_ite (P := TH none) (fun _ => ?_) (fun _ => h)
    dsimp only
    have h0 : TH none { c with timed := c.timed.map fun (x : Timed) => if x.uid = uid then { x with lastStamp := c.now } else x } :=
      ⟨Tk_rec3 h.1, HW_rec8 h.2⟩
    generalize ({ c with timed := c.timed.map fun (x : Timed) => if x.uid = uid then { x with lastStamp := c.now } else x } : Conn) = c0 at h0
    have hw1 : HW (runTimed c0 t.fn).1 := HW_runTimed h0.2
    cases hfn : t.fn
    case missingFeatures =>
      sorry
    all_goals
      rw [hfn] at hw1
      unfold runTimed at hw1 ⊢
      dsimp only at hw1 ⊢
    case userTimed => exact ⟨Tk_notify h0.1, hw1⟩
    case disconnectCleanup => rw [if_neg (by simp)]; exact ⟨Tk_rec1 (Tk_connDisconnect h0.1), HW_rec4 hw1⟩
    all_goals
      rw [if_neg (by simp)]; exact ⟨Tk_rec1 (Tk_xmppDisconnect h0.1), HW_rec4 hw1⟩

end Strophe.Lemmas.ConnC04
