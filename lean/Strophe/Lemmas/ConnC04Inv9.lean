/-
The negotiation token, part 4: stream headers, timers, the event loop, connect; reachable states.
-/
import Strophe.Lemmas.ConnC04Inv8

namespace Strophe.Lemmas.ConnC04
open Strophe Strophe.Conn

variable {c : Conn} {u ut : Option Nat} {n : Nat}

/-! ### RP0: no parser reset is requested -/

def RP0 (c : Conn) : Prop := c.resetParser = false

theorem RP0_pushRawWith {it o sn} (h : RP0 c) : RP0 (pushRawWith c it o sn) :=
  (pushRawWith_same c it o sn).resetParser.trans h
theorem RP0_resetSmForReconnect (h : RP0 c) : RP0 (resetSmForReconnect c) := by
  unfold resetSmForReconnect; exact h
theorem RP0_rec1 {p : PSt} : RP0 { c with resetParser := false, pst := p } := rfl
theorem RP0_triggerSmCallback (h : RP0 c) : RP0 (triggerSmCallback c) := h
theorem RP0_addHandler {fn ud ns name type user} (h : RP0 c) : RP0 (addHandler c fn ud ns name type user) := by
  c4auto addHandler
theorem RP0_addIdHandler {fn id user} (h : RP0 c) : RP0 (addIdHandler c fn id user) := by
  c4auto addIdHandler
theorem RP0_addTimed {fn period user} (h : RP0 c) : RP0 (addTimed c fn period user) := by
  c4auto addTimed
theorem RP0_delTimed {fn} (h : RP0 c) : RP0 (delTimed c fn) := by
  c4auto delTimed
theorem RP0_resetTimed (h : RP0 c) : RP0 (resetTimed c) := by
  c4auto resetTimed
theorem RP0_notify {e} (h : RP0 c) : RP0 (notify c e) := by
  c4auto notify
theorem RP0_connDisconnect (h : RP0 c) : RP0 (connDisconnect c) := by
  c4auto connDisconnect
theorem RP0_pushRaw {it o} (h : RP0 c) : RP0 (pushRaw c it o) := by
  c4auto pushRaw
theorem RP0_sendStanza {it o} (h : RP0 c) : RP0 (sendStanza c it o) := by
  c4auto sendStanza
theorem RP0_sendRaw {it o} (h : RP0 c) : RP0 (sendRaw c it o) := by
  c4auto sendRaw
theorem RP0_sendRawString {it} (h : RP0 c) : RP0 (sendRawString c it) := by
  c4auto sendRawString
theorem RP0_xmppDisconnect (h : RP0 c) : RP0 (xmppDisconnect c) := by
  c4auto xmppDisconnect
theorem RP0_authLegacyStep (h : RP0 c) : RP0 (authLegacyStep c) := by
  c4auto authLegacyStep
theorem RP0_auth (n : Nat) : ∀ {c}, RP0 c → RP0 (auth c n) := by
  induction n with
  | zero => intro c h; exact h
  | succ n ih =>
    intro c h
    rw [auth]
    dsimp only
    c4trav
    all_goals first | (apply ih; c4trav) | skip
theorem RP0_authTop (h : RP0 c) : RP0 (authTop c) := RP0_auth _ h
theorem RP0_runTimed {f} (h : RP0 c) : RP0 ((runTimed c f).1) := by
  c4auto runTimed
theorem RP0_fireTimedOne {uid} (h : RP0 c) : RP0 (fireTimedOne c uid) := by
  c4auto fireTimedOne
theorem RP0_fireTimed (h : RP0 c) : RP0 (fireTimed c) := by
  c4auto fireTimed

/-! ### parser state -/

theorem frN_closed_le (rp : Bool) (p : PSt) : frN rp .closed ≤ frN rp p := by
  unfold frN; cases rp <;> cases p <;> simp

/-- the stream is over (or broken) -/
theorem Tk_pstClosed (h : Tk u ut n c) : Tk u ut n { c with pst := .closed } := by
  have e := frN_closed_le c.resetParser c.pst
  refine ⟨?_, fun he => ?_, h.mt, fun _ hp => (by cases hp), fun hi => ?_⟩
  · show cnt u c.handlers + cnt u c.idHandlers + frN c.resetParser .closed ≤ n
    have := h.le; omega
  · obtain ⟨a1, a2, a3⟩ := h.en he
    exact ⟨by show frN c.resetParser .closed = 0; omega, a2, a3⟩
  · obtain ⟨a1, a2⟩ := h.c1 hi
    refine ⟨a1, ?_⟩
    show cnt u c.handlers + cnt u c.idHandlers + frN c.resetParser .closed = 0
    omega

theorem Tk_handleStreamEnd (h : Tk u ut n c) : Tk u ut n (handleStreamEnd c) := by
  c4auto handleStreamEnd
theorem Tk_connEstablished (h : Tk u ut n c) : Tk u ut n (connEstablished c) := by
  c4auto connEstablished
theorem Tk_xmppSend {it} (h : Tk u ut n c) : Tk u ut n (xmppSend c it) := by
  c4auto xmppSend
theorem Tk_xmppSendRawString {it} (h : Tk u ut n c) : Tk u ut n (xmppSendRawString c it) := by
  c4auto xmppSendRawString
theorem Tk_xmppSendRaw {it} (h : Tk u ut n c) : Tk u ut n (xmppSendRaw c it) := by
  c4auto xmppSendRaw
theorem Tk_release (h : Tk u ut n c) : Tk u ut n (release c) := by
  c4auto release
theorem Tk_setFlags {f} (h : Tk u ut n c) : Tk u ut n ((setFlags c f).1) := by
  c4auto setFlags

/-! ### stream header -/

theorem addHandler_has (c : Conn) (fn : HFun) (ns name type : Option Bytes) (user : Bool) :
    ∃ x ∈ (addHandler c fn 0 ns name type user).handlers, x.fn = fn := by
  unfold addHandler
  split
  · rename_i h
    rw [List.any_eq_true] at h
    obtain ⟨x, hx, hp⟩ := h
    exact ⟨x, hx, by simp at hp; exact hp.1⟩
  · exact ⟨_, List.mem_append_right _ (List.mem_singleton.2 rfl), rfl⟩

/-- the timer that waits for the stream features is started next to the features handler -/
theorem Tk_addTimed_M {period user} (h : Tk none ut n c) (hF : ∃ x ∈ c.handlers, x.fn = .sys .features) :
    Tk none ut n (addTimed c .missingFeatures period user) := by
  unfold addTimed; split
  · exact h
  · refine { h with mt := ?_ }
    intro t ht hf hu
    obtain ⟨x, hx, hfx⟩ := hF
    exact ⟨x, hx, hfx, by simp⟩

theorem Tk_runOpenHandler (h : Tk none ut 0 c) (ho : Off c) : Tk none ut 1 (runOpenHandler c) := by
  have h1 : Tk none ut 1 c := h.mono (Nat.zero_le _)
  unfold runOpenHandler
  split
  · dsimp only
    apply Tk_addTimed_M
    · c4trav
    · exact addHandler_has _ _ _ _ _ _
  · dsimp only
    apply Tk_addTimed_M
    · c4trav
    · exact addHandler_has _ _ _ _ _ _
  · c4trav
  · c4trav
  · exact Tk_componentOpen h1
  · exact h1

/-- the stream header arrives: the pending parser reset is over -/
theorem Tk_streamStart {nm id} (h : Tk none ut 1 c) (hp : c.pst = .fresh) (hnc : NC c) :
    Tk none ut 1 (handleStreamStart { c with pst := .opened } nm id) := by
  have hfr : frN c.resetParser c.pst = 1 := by unfold frN; rw [if_pos (.inr hp)]
  have hle := h.le
  have h1 : cnt none c.handlers = 0 := by omega
  have h2 : cnt none c.idHandlers = 0 := by omega
  have hen : c.sm.enabled = false := by
    cases he : c.sm.enabled with
    | false => rfl
    | true => have := (h.en he).1; omega
  have hid : c.sm.id = none := by
    cases hi : c.sm.id with
    | none => rfl
    | some i => have := (h.c1 (by rw [hi]; rfl)).2; omega
  have hle' : frN c.resetParser .opened ≤ 1 := by unfold frN; split <;> omega
  -- after the header: what was pending is used up
  have base : ∀ (sid : Option Bytes), Tk none ut 1 { c with pst := .opened, streamId := sid } := by
    intro sid
    refine ⟨?_, fun he => ?_, h.mt, fun _ hp' => (by cases hp'), fun hi => ?_⟩
    · show cnt none c.handlers + cnt none c.idHandlers + frN c.resetParser .opened ≤ 1
      omega
    · have : c.sm.enabled = true := he
      rw [hen] at this; cases this
    · have : c.sm.id.isSome = true := hi
      rw [hid] at this; cases this
  unfold handleStreamStart
  refine pred_ite (P := Tk none ut 1) (fun _ => base _) (fun hs => ?_)
  have hs : c.state ≠ .disconnected := hs
  have hc : c.state = .connected := by
    unfold NC at hnc
    cases hst : c.state <;> simp_all
  have hrp : c.resetParser = false := h.frp hc hp
  have hz : frN c.resetParser .opened = 0 := by unfold frN; rw [hrp]; simp
  have base0 : ∀ (sid : Option Bytes), Tk none ut 0 { c with pst := .opened, streamId := sid } := by
    intro sid
    refine ⟨?_, fun he => ?_, h.mt, fun _ hp' => (by cases hp'), fun hi => ?_⟩
    · show cnt none c.handlers + cnt none c.idHandlers + frN c.resetParser .opened ≤ 0
      omega
    · have : c.sm.enabled = true := he
      rw [hen] at this; cases this
    · have : c.sm.id.isSome = true := hi
      rw [hid] at this; cases this
  dsimp only
  refine pred_ite (P := Tk none ut 1) (fun _ => ?_) (fun _ => ?_)
  · exact Tk_runOpenHandler (c := { c with pst := .opened, streamId := id }) (base0 _) ⟨hen, hid⟩
  · exact Tk_connDisconnect (c := { c with pst := .opened, streamId := none }) (base _)

/-! ### parser events -/

/-- between parser events -/
def TP (c : Conn) : Prop := TH none c ∧ NC c

theorem TP_parserEvent {e} (h : TP c) : TP (parserEvent c e) := by
  cases e with
  | stanza st =>
    unfold parserEvent
    refine pred_ite (P := TP) (fun _ => h) (fun _ => ⟨TH_handleStreamStanza h.1, NC_handleStreamStanza h.2⟩)
  | open_ nm id =>
    unfold parserEvent
    refine pred_ite (P := TP) (fun _ => h) (fun hp => ?_)
    have hp : c.pst = .fresh := by
      cases hq : c.pst <;> simp_all
    exact ⟨⟨Tk_streamStart h.1.1 hp h.2, HW_handleStreamStart (c := { c with pst := .opened }) h.1.2⟩,
      NC_handleStreamStart (c := { c with pst := .opened }) h.2⟩
  | end_ =>
    unfold parserEvent
    refine pred_ite (P := TP) (fun _ => h) (fun _ => ?_)
    exact ⟨⟨Tk_handleStreamEnd (c := { c with pst := .closed }) (Tk_pstClosed h.1.1),
      HW_handleStreamEnd (c := { c with pst := .closed }) h.1.2⟩,
      NC_handleStreamEnd (c := { c with pst := .closed }) h.2⟩
  | error =>
    unfold parserEvent
    exact ⟨⟨Tk_sendStanza (c := { c with pst := .closed }) (Tk_pstClosed h.1.1),
      HW_sendStanza (c := { c with pst := .closed }) h.1.2⟩,
      NC_sendStanza (c := { c with pst := .closed }) h.2⟩

/-! ### timers -/

theorem cnt_filter_lt {u : Option Nat} {l : List Handler} {p : Handler → Bool} {x : Handler} (hx : x ∈ l)
    (ht : tokP u x = true) (hp : p x = false) : cnt u (l.filter p) + 1 ≤ cnt u l := by
  induction l with
  | nil => cases hx
  | cons a l ih =>
    have e1 : cnt u (a :: l) = cnt u [a] + cnt u l := cnt_append u [a] l
    rw [List.filter_cons]
    rcases List.mem_cons.1 hx with rfl | hx
    · rw [hp, e1, cnt_single, ht]
      have := cnt_filter_le u p l
      simp; omega
    · have := ih hx
      by_cases hpa : p a = true
      · rw [if_pos hpa]
        have e2 : cnt u (a :: l.filter p) = cnt u [a] + cnt u (l.filter p) := cnt_append u [a] (l.filter p)
        rw [e1, e2]; omega
      · rw [if_neg hpa, e1]; omega

/-- the timer that waited for the stream features fires: the features handler is withdrawn -/
theorem Tk_timedM {t : Timed} (h : Tk none none 1 c) (hw : HW c) (ht : t ∈ c.timed) (hf : t.fn = .missingFeatures) :
    Tk none (some t.uid) 0 { c with handlers := c.handlers.filter (fun h => h.fn ≠ .sys .features) } ∧
    Off { c with handlers := c.handlers.filter (fun h => h.fn ≠ .sys .features) } := by
  obtain ⟨x, hx, hfx, _⟩ := h.mt t ht hf (by simp)
  have htx : tokP none x = true := by rw [tokP_none_iff, hfx]; rfl
  have hpx : (fun (h : Handler) => decide (h.fn ≠ .sys .features)) x = false := by simp [hfx]
  have e := cnt_filter_lt (p := fun (h : Handler) => decide (h.fn ≠ .sys .features)) hx htx hpx
  have hle := h.le
  have hen : c.sm.enabled = false := by
    cases he : c.sm.enabled with
    | false => rfl
    | true =>
      have := (h.en he).2.1 x hx htx
      rw [hfx] at this; cases this
  have hid : c.sm.id = none := by
    cases hi : c.sm.id with
    | none => rfl
    | some i => have := (h.c1 (by rw [hi]; rfl)).2; omega
  refine ⟨⟨?_, fun he => ?_, ?_, h.frp, fun hi => ?_⟩, hen, hid⟩
  · show cnt none (c.handlers.filter _) + cnt none c.idHandlers + frN c.resetParser c.pst ≤ 0
    omega
  · have : c.sm.enabled = true := he
    rw [hen] at this; cases this
  · intro t' ht' hf' hu
    exact absurd (congrArg some (hw.mu t' ht' t ht hf' hf)) hu
  · have : c.sm.id.isSome = true := hi
    rw [hid] at this; cases this

/-- the timer that has fired is removed -/
theorem Tk_leaveT {tuid : Nat} (h : Tk u (some tuid) n c) : Tk u none n { c with timed := c.timed.filter (·.uid ≠ tuid) } := by
  refine { h with mt := ?_ }
  intro t ht hf _
  obtain ⟨ht1, ht2⟩ := List.mem_filter.1 ht
  have hne : t.uid ≠ tuid := by simpa using ht2
  exact h.mt t ht1 hf (fun e => hne (Option.some.inj e))

theorem Tk_ut_none (h : Tk u none n c) {ut : Option Nat} : Tk u ut n c :=
  { h with mt := fun t ht hf _ => h.mt t ht hf (by simp) }

theorem TH_fireTimedOne {uid} (h : TH none c) : TH none (fireTimedOne c uid) := by
  unfold fireTimedOne
  split
  · exact h
  · rename_i t hf
    have hmem := List.mem_of_find?_eq_some hf
    have huid : t.uid = uid := by simpa using List.find?_some hf
    refine pred_ite (P := TH none) (fun _ => h) (fun _ => ?_)
    refine pred_ite (P := TH none) (fun _ => ?_) (fun _ => h)
    dsimp only
    have h0 : TH none { c with timed := c.timed.map fun (x : Timed) => if x.uid = uid then { x with lastStamp := c.now } else x } :=
      ⟨Tk_rec3 h.1, HW_rec8 h.2⟩
    have ht0 : ∃ t0 ∈ ({ c with timed := c.timed.map fun (x : Timed) => if x.uid = uid then { x with lastStamp := c.now } else x } : Conn).timed,
        t0.fn = t.fn ∧ t0.uid = uid := by
      refine ⟨_, List.mem_map.2 ⟨t, hmem, rfl⟩, ?_, ?_⟩
      · split <;> rfl
      · split <;> exact huid
    generalize ({ c with timed := c.timed.map fun (x : Timed) => if x.uid = uid then { x with lastStamp := c.now } else x } : Conn) = c0 at h0 ht0
    have hw1 : HW (runTimed c0 t.fn).1 := HW_runTimed h0.2
    cases hfn : t.fn
    case missingFeatures =>
      obtain ⟨t0, hm0, hf0, hu0⟩ := ht0
      rw [hfn] at hf0 hw1
      obtain ⟨a0, ao⟩ := Tk_timedM h0.1 h0.2 hm0 hf0
      have a1 := Tk_authTop a0 ao
      unfold runTimed at hw1 ⊢
      dsimp only at hw1 ⊢
      rw [if_neg (by simp)]
      rw [hu0] at a1
      exact ⟨Tk_leaveT a1, HW_rec4 hw1⟩
    all_goals
      rw [hfn] at hw1
      unfold runTimed at hw1 ⊢
      dsimp only at hw1 ⊢
    case userTimed => exact ⟨Tk_notify h0.1, hw1⟩
    case disconnectCleanup => rw [if_neg (by simp)]; exact ⟨Tk_rec1 (Tk_connDisconnect h0.1), HW_rec4 hw1⟩
    all_goals
      rw [if_neg (by simp)]; exact ⟨Tk_rec1 (Tk_xmppDisconnect h0.1), HW_rec4 hw1⟩

theorem TH_fireTimed (h : TH none c) : TH none (fireTimed c) := by
  unfold fireTimed
  refine pred_ite (P := TH none) (fun _ => h) (fun _ => ?_)
  dsimp only
  refine pred_foldl (P := TH none) (fun c x hc => TH_fireTimedOne (uid := x) hc) _ ?_
  exact ⟨Tk_rec2 h.1, HW_rec7 h.2⟩

/-! ### one iteration of the event loop -/

theorem TH_writeLoop (h : TH ut c) : TH ut (writeLoop c) := ⟨Tk_writeLoop h.1, HW_writeLoop h.2⟩
theorem TH_connDisconnect (h : TH ut c) : TH ut (connDisconnect c) := ⟨Tk_connDisconnect h.1, HW_connDisconnect h.2⟩
theorem TH_connEstablished (h : TH ut c) : TH ut (connEstablished c) :=
  ⟨Tk_connEstablished h.1, HW_connEstablished h.2⟩
theorem TH_rec1 (h : TH ut c) :
    TH ut { c with resetParser := false, pst := if c.resetParser = true then PSt.fresh else c.pst } :=
  ⟨Tk_rec7 h.1, h.2⟩
theorem TH_rec2 (h : TH ut c) (_hs : c.state = .connecting) (hr : RP0 c) : TH ut { c with state := .connected } :=
  ⟨{ h.1 with frp := fun _ _ => hr }, h.2⟩

theorem TH_evFold {evs : List PEv} (h : TH none c) (hc : c.state = .connected) : TH none (evFold c evs) := by
  have : TP c := ⟨h, by unfold NC; rw [hc]; simp⟩
  exact (pred_foldl (P := TP) (fun c e hc => TP_parserEvent (e := e) hc) evs this).1

theorem TH_runOnce {rx} (h : TH none c) : TH none (runOnce c rx) := by
  unfold runOnce
  cases rx with
  | data evs =>
    dsimp only
    have e : ∀ c4, List.foldl parserEvent c4 evs = evFold c4 evs := fun _ => rfl
    simp only [e]
    c4trav
  | none => dsimp only; c4trav
  | eof => dsimp only; c4trav
  | ioerr => dsimp only; c4trav

/-! ### connect -/

/-- with stream management off and no session id, the record does not matter -/
theorem Tk_smOff {s' : SmState} {hs : Bool} (h : Tk u ut n c) (h1 : s'.enabled = false) (h2 : s'.id = none) :
    Tk u ut n { c with hasSm := hs, sm := s' } :=
  ⟨h.le, fun he => (by rw [h1] at he; cases he), h.mt, h.frp, fun hi => (by rw [h2] at hi; cases hi)⟩

/-- `_conn_connect` on a disconnected connection: all system handlers go, a parser reset is requested -/
theorem Tk_connConnect {d t} (h : Tk none none 1 c) (hw : HW c) (hd : c.state = .disconnected → c.sm.enabled = false) :
    Tk none none 1 (connConnect c d t).1 := by
  unfold connConnect
  refine pred_ite_fst (P := Tk none none 1) (fun _ => h) (fun hs => ?_)
  have hs : c.state = .disconnected := by simpa using hs
  have hen := hd hs
  have hid : c.sm.id = none := by
    cases hi : c.sm.id with
    | none => rfl
    | some i =>
      have := (h.c1 (by rw [hi]; rfl)).1
      rw [hen] at this; cases this
  have er : connReset c = systemDeleteAll
      { c with compActive := false, queue := [], streamError := none, domain := none, boundJid := none, streamId := none, negotiated := false, secured := false, tlsFailed := false, error := 0, tlsSupport := false, saslSupport := 0, compSupported := false, bindRequired := false, sessionRequired := false } := by
    unfold connReset; rw [if_neg (by simp [hs])]
  have c1h : cnt none (connReset c).handlers = 0 := by
    rw [er, cnt_eq_zero]
    intro x hx
    have hx : x ∈ c.handlers.filter (·.user) := hx
    obtain ⟨hx1, hx2⟩ := List.mem_filter.1 hx
    rw [tokP_none_iff, hw.ufh x hx1 hx2]; rfl
  have c1i : cnt none (connReset c).idHandlers = 0 := by
    rw [er, cnt_eq_zero]
    intro x hx
    have hx : x ∈ c.idHandlers.filter (·.user) := hx
    obtain ⟨hx1, hx2⟩ := List.mem_filter.1 hx
    rw [tokP_none_iff, hw.ufi x hx1 hx2]; rfl
  have c1t : ∀ t ∈ (connReset c).timed, t.fn ≠ .missingFeatures := by
    rw [er]
    intro x hx
    have hx : x ∈ c.timed.filter (·.user) := hx
    obtain ⟨hx1, hx2⟩ := List.mem_filter.1 hx
    rw [hw.uft x hx1 hx2]; simp
  have c1e : (connReset c).sm = c.sm := by rw [er]; rfl
  have c1s : (connReset c).state = .disconnected := by rw [er]; exact hs
  have frle : ∀ rp p, frN rp p ≤ 1 := by intro rp p; unfold frN; split <;> omega
  dsimp only
  refine pred_ite_fst (P := Tk none none 1) (fun _ => ?_) (fun _ => ?_)
  · refine ⟨?_, fun he => ?_, fun t ht hf => absurd hf (c1t t ht), fun hc => ?_, fun hi => ?_⟩
    · show cnt none (connReset c).handlers + cnt none (connReset c).idHandlers + _ ≤ 1
      rw [c1h, c1i]; simpa using frle _ _
    · have : (connReset c).sm.enabled = true := he
      rw [c1e, hen] at this; cases this
    · have : (connReset c).state = .connected := hc
      rw [c1s] at this; cases this
    · have : (connReset c).sm.id.isSome = true := hi
      rw [c1e, hid] at this; cases this
  · refine ⟨?_, fun he => ?_, fun t ht hf => absurd hf (c1t t ht), fun hc => (by cases hc), fun hi => ?_⟩
    · show cnt none (connReset c).handlers + cnt none (connReset c).idHandlers + _ ≤ 1
      rw [c1h, c1i]; simpa using frle _ _
    · have : (connReset c).sm.enabled = true := he
      rw [c1e, hen] at this; cases this
    · have : (connReset c).sm.id.isSome = true := hi
      rw [c1e, hid] at this; cases this

/-- what connect needs to know: the invariants of ConnC04Inv4.lean and the token -/
def TI (c : Conn) : Prop := K c ∧ Tk none none 1 c

theorem Tk_connectClient (h : TI c) : Tk none none 1 (connectClient c).1 := by
  unfold connectClient
  split
  · exact h.2
  · refine pred_ite_fst (P := Tk none none 1) (fun _ => h.2) (fun _ => ?_)
    dsimp only
    by_cases hs : c.hasSm = true
    · rw [if_pos hs]; exact Tk_connConnect h.2 h.1.1 h.1.2.dd
    · rw [if_neg hs]
      exact Tk_connConnect (c := { c with hasSm := true, sm := {} }) (Tk_smOff h.2 rfl rfl) h.1.1 (fun _ => rfl)

theorem Tk_connectComponent (h : TI c) : Tk none none 1 (connectComponent c).1 := by
  unfold connectComponent
  refine pred_ite_fst (P := Tk none none 1) (fun _ => h.2) (fun _ => ?_)
  have h1 : Tk none none 1 (setFlags c (getFlags c ||| Gen.flagDisableTls)).1 := Tk_setFlags h.2
  have h2 : HW (setFlags c (getFlags c ||| Gen.flagDisableTls)).1 := HW_setFlags h.1.1
  have h3 : B (setFlags c (getFlags c ||| Gen.flagDisableTls)).1 := B_setFlags h.1.2
  generalize (setFlags c (getFlags c ||| Gen.flagDisableTls)) = p at h1 h2 h3 ⊢
  obtain ⟨c1, rc⟩ := p
  dsimp only at h1 h2 h3 ⊢
  refine pred_ite_fst (P := Tk none none 1) (fun _ => h1) (fun _ => ?_)
  by_cases hs : c1.hasSm = true
  · rw [if_pos hs]; exact Tk_connConnect h1 h2 h3.dd
  · rw [if_neg hs]
    exact Tk_connConnect (c := { c1 with hasSm := true, sm := {} }) (Tk_smOff h1 rfl rfl) h2 (fun _ => rfl)

theorem Tk_connectRaw (h : TI c) : Tk none none 1 (connectRaw c).1 := by
  unfold connectRaw
  refine pred_ite_fst (P := Tk none none 1) (fun _ => h.2) (fun _ => ?_)
  have h1 : Tk none none 1 (connectClient { c with isRaw := true }).1 :=
    Tk_connectClient (c := { c with isRaw := true }) h
  generalize (connectClient { c with isRaw := true }) = p at h1 ⊢
  obtain ⟨c1, rc⟩ := p
  dsimp only at h1 ⊢
  exact pred_ite_fst (P := Tk none none 1) (fun _ => h1) (fun _ => h1)

theorem TI_step (op : Op) (h : TI c) : TI (step c op) := by
  refine ⟨K_step op h.1, ?_⟩
  cases op with
  | connect k =>
    cases k
    · exact Tk_connectClient h
    · exact Tk_connectComponent h
    · exact Tk_connectRaw h
  | run rx => exact (TH_runOnce ⟨h.2, h.1.1⟩).1
  | setTcp f e => exact h.2
  | setTls sf nf => exact h.2
  | setSched l d => exact h.2
  | tick ms => exact h.2
  | setSmCallback => exact h.2
  | setSendOnConnect on => exact h.2
  | setFlags f => exact Tk_setFlags h.2
  | usend it => exact Tk_xmppSend h.2
  | uraw it => exact Tk_xmppSendRaw h.2
  | urawstr it => exact Tk_xmppSendRawString h.2
  | udisc => exact Tk_xmppDisconnect h.2
  | release => exact Tk_release h.2
  | addUserHandlers => exact Tk_addTimed' rfl (Tk_addIdHandler' rfl (Tk_addHandler' rfl h.2))

theorem TI_exec (ops : List Op) : ∀ {c}, TI c → TI (exec c ops) := by
  induction ops with
  | nil => intro c h; exact h
  | cons op ops ih => intro c h; exact ih (TI_step op h)

theorem Tk_fresh (jid pass : Option Bytes) (cert : Bool) (flags : Nat) :
    Tk none none 1 (fresh jid pass cert flags) := by
  unfold fresh
  apply Tk_setFlags
  refine ⟨by simp [cnt, frN], fun he => (by cases he), fun t ht => (by cases ht), fun hs => (by cases hs), fun hi => (by cases hi)⟩

theorem TI_reach (jid pass : Option Bytes) (cert : Bool) (flags : Nat) (ops : List Op) :
    TI (exec (fresh jid pass cert flags) ops) :=
  TI_exec ops ⟨⟨HW_fresh jid pass cert flags, B_fresh jid pass cert flags⟩, Tk_fresh jid pass cert flags⟩

end Strophe.Lemmas.ConnC04
