/-
Helper lemmas for Props/C18.lean.
-/
import Strophe.Model.Base64
import Strophe.Spec.Rfc4648

namespace Strophe.Lemmas.Base64
open Strophe Strophe.Base64
open Strophe.Spec.Rfc4648 (value padChar alphabet)

private theorem forall_u8 {P : UInt8 → Prop} (h : ∀ n, n < 256 → P (UInt8.ofNat n)) (c : UInt8) : P c := by
  have := h c.toNat (UInt8.toNat_lt c)
  simpa using this

private theorem cls_tab : ∀ n, n < 256 →
   (inv (UInt8.ofNat n) < 64 ∧ value (UInt8.ofNat n) = some (inv (UInt8.ofNat n)) ∧ UInt8.ofNat n ≠ padChar) ∨
   (inv (UInt8.ofNat n) = 64 ∧ value (UInt8.ofNat n) = none ∧ UInt8.ofNat n = padChar) ∨
   (inv (UInt8.ofNat n) = 65 ∧ value (UInt8.ofNat n) = none ∧ UInt8.ofNat n ≠ padChar) := by decide +kernel

private theorem cls (c : UInt8) :
   (inv c < 64 ∧ value c = some (inv c) ∧ c ≠ padChar) ∨
   (inv c = 64 ∧ value c = none ∧ c = padChar) ∨
   (inv c = 65 ∧ value c = none ∧ c ≠ padChar) :=
  forall_u8 (P := fun c => (inv c < 64 ∧ value c = some (inv c) ∧ c ≠ padChar) ∨
   (inv c = 64 ∧ value c = none ∧ c = padChar) ∨
   (inv c = 65 ∧ value c = none ∧ c ≠ padChar)) cls_tab c

theorem charmap_is_rfc : ∀ v, v < 64 → chr v = Spec.Rfc4648.alphabet v := by
  decide +kernel

theorem pad_is_rfc : pad = Spec.Rfc4648.padChar := by
  decide

theorem invcharmap_is_rfc (c : UInt8) :
    inv c = match Spec.Rfc4648.value c with
            | some v => v
            | none => if c = Spec.Rfc4648.padChar then 64 else 65 := by
  rcases cls c with ⟨_, h, _⟩ | ⟨h1, h2, h3⟩ | ⟨h1, h2, h3⟩
  · rw [h]
  · rw [h2, h1]; simp [h3]
  · rw [h2, h1]; simp [h3]

private theorem inv_chr_tab : ∀ v, v < 64 → inv (chr v) = v := by decide +kernel
private theorem chr_inv_tab : ∀ n, n < 256 → inv (UInt8.ofNat n) < 64 → chr (inv (UInt8.ofNat n)) = UInt8.ofNat n := by
  decide +kernel

theorem tables_inverse : (∀ v, v < 64 → inv (chr v) = v) ∧ (∀ c, inv c < 64 → chr (inv c) = c) :=
  ⟨inv_chr_tab, fun c => forall_u8 (P := fun c => inv c < 64 → chr (inv c) = c) chr_inv_tab c⟩

theorem encode_eq_rfc4648 (bs : Bytes) : encode bs = Spec.Rfc4648.encode bs := by
  fun_induction encode bs with
  | case1 a b c rest w ih =>
    have ha := a.toNat_lt; have hb := b.toNat_lt; have hc := c.toNat_lt
    simp only [Spec.Rfc4648.encode, ih]
    rw [charmap_is_rfc _ (Nat.mod_lt _ (by decide)), charmap_is_rfc _ (Nat.mod_lt _ (by decide)),
      charmap_is_rfc _ (Nat.mod_lt _ (by decide)), charmap_is_rfc _ (Nat.mod_lt _ (by decide))]
    have : w / 262144 % 64 = w / 262144 := by omega
    rw [this]
  | case2 a =>
    have ha := a.toNat_lt
    simp only [Spec.Rfc4648.encode, pad_is_rfc]
    rw [charmap_is_rfc _ (by omega), charmap_is_rfc _ (by omega)]
    have h1 : a.toNat * 65536 / 262144 = a.toNat / 4 := by omega
    have h2 : a.toNat * 65536 / 4096 % 64 = a.toNat % 4 * 16 := by omega
    rw [h1, h2]
  | case3 a b =>
    have ha := a.toNat_lt; have hb := b.toNat_lt
    simp only [Spec.Rfc4648.encode, pad_is_rfc]
    rw [charmap_is_rfc _ (by omega), charmap_is_rfc _ (by omega), charmap_is_rfc _ (by omega)]
    have h1 : (a.toNat * 65536 + b.toNat * 256) / 262144 = a.toNat / 4 := by omega
    have h2 : (a.toNat * 65536 + b.toNat * 256) / 4096 % 64 = a.toNat % 4 * 16 + b.toNat / 16 := by omega
    have h3 : (a.toNat * 65536 + b.toNat * 256) / 64 % 64 = b.toNat % 16 * 4 := by omega
    rw [h1, h2, h3]
  | case4 => rfl

theorem encode_length (bs : Bytes) : (encode bs).length = 4 * ((bs.length + 2) / 3) := by
  fun_induction encode bs with
  | case1 a b c rest w ih => simp only [List.length_cons, ih]; omega
  | case2 a => simp
  | case3 a b => simp
  | case4 => rfl

/-! ### decoder -/

private theorem inv_padChar : inv padChar = 64 := by decide
private theorem value_padChar : value padChar = none := by decide

private theorem quad_ind {P : Bytes → Prop} (nil : P [])
    (step : ∀ a b c d r, r.length % 4 = 0 → P r → P (a :: b :: c :: d :: r)) :
    ∀ s : Bytes, s.length % 4 = 0 → P s
  | [], _ => nil
  | [_], h => by simp at h
  | [_, _], h => by simp at h
  | [_, _, _], h => by simp at h
  | a :: b :: c :: d :: r, h =>
    have h' : r.length % 4 = 0 := by simp at h; omega
    step a b c d r h' (quad_ind nil step r h')

/-- the RFC decoder on a non-final quartet, in terms of the C table -/
private theorem decodeQ_cons (c0 c1 c2 c3 : UInt8) (rest : Bytes) (hr : rest ≠ []) :
    Spec.Rfc4648.decodeQ (c0 :: c1 :: c2 :: c3 :: rest) =
      if inv c0 < 64 ∧ inv c1 < 64 ∧ inv c2 < 64 ∧ inv c3 < 64 then
        (Spec.Rfc4648.decodeQ rest).map fun t =>
          byte ((inv c0 * 262144 + inv c1 * 4096 + inv c2 * 64 + inv c3) / 65536) ::
          byte ((inv c0 * 262144 + inv c1 * 4096 + inv c2 * 64 + inv c3) / 256) ::
          byte (inv c0 * 262144 + inv c1 * 4096 + inv c2 * 64 + inv c3) :: t
      else none := by
  rw [Spec.Rfc4648.decodeQ.eq_2 _ _ _ _ _ (by simpa using hr)]
  rcases cls c0 with ⟨h0, v0, _⟩ | ⟨h0, v0, _⟩ | ⟨h0, v0, _⟩ <;>
  rcases cls c1 with ⟨h1, v1, _⟩ | ⟨h1, v1, _⟩ | ⟨h1, v1, _⟩ <;>
  rcases cls c2 with ⟨h2, v2, _⟩ | ⟨h2, v2, _⟩ | ⟨h2, v2, _⟩ <;>
  rcases cls c3 with ⟨h3, v3, _⟩ | ⟨h3, v3, _⟩ | ⟨h3, v3, _⟩ <;>
  simp [v0, v1, v2, v3, h0, h1, h2, h3, byte, Spec.Rfc4648.b]

/-- the RFC decoder on the final quartet, in terms of the C table -/
private theorem decodeQ_last (c0 c1 c2 c3 : UInt8) :
    Spec.Rfc4648.decodeQ [c0, c1, c2, c3] =
      if inv c0 < 64 ∧ inv c1 < 64 then
        if inv c2 < 64 then
          if inv c3 < 64 then
            some [byte ((inv c0 * 262144 + inv c1 * 4096 + inv c2 * 64 + inv c3) / 65536),
                  byte ((inv c0 * 262144 + inv c1 * 4096 + inv c2 * 64 + inv c3) / 256),
                  byte (inv c0 * 262144 + inv c1 * 4096 + inv c2 * 64 + inv c3)]
          else if inv c3 = 64 then
            some [byte ((inv c0 * 262144 + inv c1 * 4096 + inv c2 * 64) / 65536),
                  byte ((inv c0 * 262144 + inv c1 * 4096 + inv c2 * 64) / 256)]
          else none
        else if inv c2 = 64 ∧ inv c3 = 64 then
          some [byte ((inv c0 * 262144 + inv c1 * 4096) / 65536)]
        else none
      else none := by
  rw [Spec.Rfc4648.decodeQ.eq_1]
  rcases cls c0 with ⟨h0, v0, p0⟩ | ⟨h0, v0, p0⟩ | ⟨h0, v0, p0⟩ <;>
  rcases cls c1 with ⟨h1, v1, p1⟩ | ⟨h1, v1, p1⟩ | ⟨h1, v1, p1⟩ <;>
  rcases cls c2 with ⟨h2, v2, p2⟩ | ⟨h2, v2, p2⟩ | ⟨h2, v2, p2⟩ <;>
  rcases cls c3 with ⟨h3, v3, p3⟩ | ⟨h3, v3, p3⟩ | ⟨h3, v3, p3⟩ <;>
  simp [v0, v1, v2, v3, h0, h1, h2, h3, p2, p3, byte, Spec.Rfc4648.b, inv_padChar, value_padChar] <;> omega

/-- bytes of a run of all-valid quartets; `none` if it contains a character with `inv ≥ 64` -/
private def fullOpt : Bytes → Option Bytes
  | c0 :: c1 :: c2 :: c3 :: rest =>
    if inv c0 < 64 ∧ inv c1 < 64 ∧ inv c2 < 64 ∧ inv c3 < 64 then
      (fullOpt rest).map fun t =>
        byte ((inv c0 * 262144 + inv c1 * 4096 + inv c2 * 64 + inv c3) / 65536) ::
        byte ((inv c0 * 262144 + inv c1 * 4096 + inv c2 * 64 + inv c3) / 256) ::
        byte (inv c0 * 262144 + inv c1 * 4096 + inv c2 * 64 + inv c3) :: t
    else none
  | _ => some []

private theorem fullOpt_length : ∀ p : Bytes, p.length % 4 = 0 →
    ∀ v, fullOpt p = some v → v.length = 3 * (p.length / 4) := by
  apply quad_ind
  · intro v h; simp [fullOpt] at h; subst h; rfl
  · intro a b c d r hr ih v h
    simp only [fullOpt] at h
    split at h
    · cases hf : fullOpt r with
      | none => simp [hf] at h
      | some t =>
        simp [hf] at h; subst h
        have := ih t hf
        simp only [List.length_cons, this]; omega
    · simp at h

private theorem decodeQ_prefix (q0 q1 q2 q3 : UInt8) : ∀ p : Bytes, p.length % 4 = 0 →
    Spec.Rfc4648.decodeQ (p ++ [q0, q1, q2, q3]) =
      (fullOpt p).bind fun v => (Spec.Rfc4648.decodeQ [q0, q1, q2, q3]).map (v ++ ·) := by
  apply quad_ind
  · simp [fullOpt]
  · intro a b c d r hr ih
    simp only [List.cons_append]
    rw [decodeQ_cons _ _ _ _ _ (by simp), ih]
    simp only [fullOpt]
    split
    · cases fullOpt r <;> simp
      cases Spec.Rfc4648.decodeQ [q0, q1, q2, q3] <;> simp
    · rfl

private theorem quartets_prefix (q : Bytes) (hq : q.length = 4) : ∀ p : Bytes, p.length % 4 = 0 →
    ∀ acc h,
      (∀ v, fullOpt p = some v → ∃ h', quartets (p ++ q) acc h = quartets q (acc ++ v) h') ∧
      (fullOpt p = none → 64 < (quartets (p ++ q) acc h).hextet ∨
        8 ≤ (quartets (p ++ q) acc h).rest.length) := by
  apply quad_ind
  · intro acc h
    simp [fullOpt]
    exact ⟨h, rfl⟩
  · intro a b c d r hr ih acc h
    simp only [List.cons_append, fullOpt, quartets]
    by_cases hc : inv a < 64 ∧ inv b < 64 ∧ inv c < 64 ∧ inv d < 64
    · obtain ⟨ha, hb, hc', hd⟩ := hc
      have na : ¬ inv a ≥ 64 := by omega
      have nb : ¬ inv b ≥ 64 := by omega
      have nc : ¬ inv c ≥ 64 := by omega
      have nd : ¬ inv d ≥ 64 := by omega
      simp only [ha, hb, hc', hd, and_self, if_true, na, nb, nc, nd, if_false]
      have ih' := ih (acc ++ [byte ((inv a * 262144 + inv b * 4096 + inv c * 64 + inv d) / 65536),
        byte ((inv a * 262144 + inv b * 4096 + inv c * 64 + inv d) / 256),
        byte (inv a * 262144 + inv b * 4096 + inv c * 64 + inv d)]) (inv d)
      constructor
      · intro v hv
        cases hf : fullOpt r with
        | none => simp [hf] at hv
        | some t =>
          simp [hf] at hv; subst hv
          obtain ⟨h', e⟩ := ih'.1 t hf
          exact ⟨h', by rw [e]; simp⟩
      · intro hn
        cases hf : fullOpt r with
        | none => exact ih'.2 hf
        | some t => simp [hf] at hn
    · rw [if_neg hc]
      refine ⟨by simp, fun _ => ?_⟩
      right
      split
      · simp [hq]
      · split
        · simp [hq]
        · split
          · simp [hq]
          · split
            · simp [hq]
            · omega

private theorem nudgeScan_ge : ∀ (l : Bytes) (n m : Nat), nudgeScan l n = some m → n ≤ m := by
  intro l
  induction l with
  | nil => intro n m h; simp [nudgeScan] at h; omega
  | cons c rest ih =>
    intro n m h
    simp only [nudgeScan] at h
    split at h
    · simp at h; omega
    · split at h
      · have := ih _ _ h; omega
      · simp at h

/-- the part of `base64_decoded_len` after the `len < 4` test -/
private def dlenOf (r : Bytes) (K : Nat) : Nat :=
  match nudgeScan r 0 with
  | none => 0
  | some n => if n > 2 then 0 else K - n

private theorem dlenOf_last (r : Bytes) (c0 c1 c2 c3 : UInt8) (K : Nat) :
    dlenOf (c3 :: c2 :: c1 :: c0 :: r) K =
      if inv c3 < 64 then K
      else if inv c3 = 64 then
        if inv c2 < 64 then K - 1
        else if inv c2 = 64 then
          if inv c1 < 64 then K - 2 else 0
        else 0
      else 0 := by
  unfold dlenOf
  by_cases h3 : inv c3 < 64
  · rw [nudgeScan, if_pos h3, if_pos h3]; simp
  · by_cases h3' : inv c3 = 64
    · rw [nudgeScan, if_neg h3, if_pos h3', if_neg h3, if_pos h3']
      by_cases h2 : inv c2 < 64
      · rw [nudgeScan, if_pos h2, if_pos h2]; simp
      · by_cases h2' : inv c2 = 64
        · rw [nudgeScan, if_neg h2, if_pos h2', if_neg h2, if_pos h2']
          by_cases h1 : inv c1 < 64
          · rw [nudgeScan, if_pos h1, if_pos h1]; simp
          · rw [if_neg h1, nudgeScan, if_neg h1]
            by_cases h1' : inv c1 = 64
            · rw [if_pos h1']
              cases hn : nudgeScan (c0 :: r) (0 + 1 + 1 + 1) with
              | none => rfl
              | some m =>
                have := nudgeScan_ge _ _ _ hn
                have : m > 2 := by omega
                simp [this]
            · rw [if_neg h1']
        · rw [nudgeScan, if_neg h2, if_neg h2', if_neg h2, if_neg h2']
    · rw [nudgeScan, if_neg h3, if_neg h3', if_neg h3, if_neg h3']

private theorem tri (c : UInt8) :
    (inv c < 64 ∧ ¬ 64 ≤ inv c ∧ inv c ≠ 64 ∧ ¬ 64 < inv c) ∨ inv c = 64 ∨ inv c = 65 := by
  rcases cls c with ⟨h, _, _⟩ | ⟨h, _, _⟩ | ⟨h, _, _⟩
  · left; omega
  · right; left; exact h
  · right; right; exact h

private theorem lastQ (c0 c1 c2 c3 : UInt8) (acc : Bytes) (h k dlen : Nat)
    (hd : dlen =
      if inv c3 < 64 then 3 * k + 3
      else if inv c3 = 64 then
        if inv c2 < 64 then 3 * k + 3 - 1
        else if inv c2 = 64 then
          if inv c1 < 64 then 3 * k + 3 - 2 else 0
        else 0
      else 0) :
    (if dlen = 0 then none
     else if (quartets [c0, c1, c2, c3] acc h).hextet > 64 then none
     else if (quartets [c0, c1, c2, c3] acc h).rest ≠ [] ∧
        ((quartets [c0, c1, c2, c3] acc h).rest.length ≠ 4 ∨ dlen % 3 = 0) then none
     else match tail [c0, c1, c2, c3] (dlen % 3) with
       | none => none
       | some t => some ((quartets [c0, c1, c2, c3] acc h).written ++ t, dlen)) =
    (Spec.Rfc4648.decodeQ [c0, c1, c2, c3]).map fun v => (acc ++ v, 3 * k + v.length) := by
  rw [decodeQ_last]
  rcases tri c3 with ⟨h3, h3a, h3b, h3c⟩ | h3 | h3 <;>
  rcases tri c2 with ⟨h2, h2a, h2b, h2c⟩ | h2 | h2 <;>
  rcases tri c1 with ⟨h1, h1a, h1b, h1c⟩ | h1 | h1 <;>
  rcases tri c0 with ⟨h0, h0a, h0b, h0c⟩ | h0 | h0 <;>
  simp [*] at hd <;> subst hd <;> simp [quartets, tail, *] <;>
  first
    | exact ⟨congrArg byte (by omega), congrArg byte (by omega)⟩
    | exact congrArg byte (by omega)

private theorem decodeQ_len : ∀ (s v : Bytes), Spec.Rfc4648.decodeQ s = some v → s.length % 4 = 0
  | [], _, h => by simp
  | [_], _, h => by simp [Spec.Rfc4648.decodeQ] at h
  | [_, _], _, h => by simp [Spec.Rfc4648.decodeQ] at h
  | [_, _, _], _, h => by simp [Spec.Rfc4648.decodeQ] at h
  | [_, _, _, _], _, h => by simp
  | a :: b :: c :: d :: e :: r, v, h => by
    rw [decodeQ_cons _ _ _ _ _ (by simp)] at h
    split at h
    · cases hr : Spec.Rfc4648.decodeQ (e :: r) with
      | none => simp [hr] at h
      | some t =>
        have := decodeQ_len (e :: r) t hr
        simp only [List.length_cons] at this ⊢; omega
    · simp at h

private theorem split_last4 : ∀ s : Bytes, s.length % 4 = 0 → s ≠ [] →
    ∃ p c0 c1 c2 c3, s = p ++ [c0, c1, c2, c3] ∧ p.length % 4 = 0 := by
  apply quad_ind
  · intro h; exact absurd rfl h
  · intro a b c d r hr ih _
    by_cases hn : r = []
    · subst hn; exact ⟨[], a, b, c, d, rfl, rfl⟩
    · obtain ⟨p, c0, c1, c2, c3, e, hp⟩ := ih hn
      refine ⟨a :: b :: c :: d :: p, c0, c1, c2, c3, by rw [e]; rfl, ?_⟩
      simp only [List.length_cons]; omega

theorem decode_exact (s : Bytes) :
    decodeBin s = if s = [] then none
                  else (Spec.Rfc4648.decode s).map fun v => (v, v.length) := by
  by_cases hs : s = []
  · subst hs; rfl
  rw [if_neg hs]
  unfold decodeBin Spec.Rfc4648.decode
  by_cases hm : s.length % 4 = 0
  · obtain ⟨p, c0, c1, c2, c3, rfl, hp⟩ := split_last4 s hm hs
    have hlen : (p ++ [c0, c1, c2, c3]).length = p.length + 4 := by simp
    have hdl : decodedLen (p ++ [c0, c1, c2, c3]) =
        dlenOf (c3 :: c2 :: c1 :: c0 :: p.reverse) (3 * (p.length / 4) + 3) := by
      unfold decodedLen
      rw [if_neg (by omega)]
      have : 3 * ((p ++ [c0, c1, c2, c3]).length / 4) = 3 * (p.length / 4) + 3 := by omega
      have hrev : (p ++ [c0, c1, c2, c3]).reverse = c3 :: c2 :: c1 :: c0 :: p.reverse := by simp
      rw [this, hrev]
      rfl
    have hdrop : (p ++ [c0, c1, c2, c3]).drop ((p ++ [c0, c1, c2, c3]).length - 4) =
        [c0, c1, c2, c3] := by
      have : (p ++ [c0, c1, c2, c3]).length - 4 = p.length := by omega
      rw [this]; exact List.drop_left
    unfold decode
    rw [if_neg (by omega)]
    simp only [hdrop]
    rw [decodeQ_prefix _ _ _ _ p hp]
    have hq := quartets_prefix [c0, c1, c2, c3] rfl p hp [] 0
    cases hf : fullOpt p with
    | none =>
      have hbad := hq.2 hf
      simp only [Option.bind_none, Option.map_none]
      split
      · rfl
      · split
        · rfl
        · split
          · rfl
          · rename_i h1 h2 h3
            exfalso
            rcases hbad with hb | hb
            · exact h2 hb
            · apply h3
              constructor
              · intro he; rw [he] at hb; simp at hb
              · left; omega
    | some v =>
      obtain ⟨h', he⟩ := hq.1 v hf
      rw [he]
      have := lastQ c0 c1 c2 c3 ([] ++ v) h' (p.length / 4) _
        ((hdl.trans (dlenOf_last _ _ _ _ _ _)))
      refine this.trans ?_
      simp only [Option.bind_some, Option.map_map]
      have hv := fullOpt_length p hp v hf
      cases Spec.Rfc4648.decodeQ [c0, c1, c2, c3] with
      | none => rfl
      | some t => simp [hv]
  · have : Spec.Rfc4648.decodeQ s = none := by
      cases h : Spec.Rfc4648.decodeQ s with
      | none => rfl
      | some v => exact absurd (decodeQ_len s v h) hm
    rw [this]
    simp [decode, hm]

private theorem inv_alphabet : ∀ v, v < 64 → inv (alphabet v) = v := by decide +kernel

private theorem byte_eq (n : Nat) (x : UInt8) (h : n % 256 = x.toNat) : byte n = x := by
  unfold byte; rw [h]; simp

private theorem spec_encode_ne_nil (bs : Bytes) (h : bs ≠ []) : Spec.Rfc4648.encode bs ≠ [] := by
  intro he
  have := encode_length bs
  rw [encode_eq_rfc4648, he] at this
  cases bs with
  | nil => exact h rfl
  | cons a r => simp at this; omega

private theorem decodeQ_encode : ∀ bs : Bytes, bs ≠ [] →
    Spec.Rfc4648.decodeQ (Spec.Rfc4648.encode bs) = some bs
  | [], h => absurd rfl h
  | [x], _ => by
    have hx := x.toNat_lt
    rw [Spec.Rfc4648.encode, decodeQ_last]
    simp only [inv_alphabet (x.toNat * 65536 / 262144) (by omega),
      inv_alphabet (x.toNat * 65536 / 4096 % 64) (by omega), inv_padChar]
    simp
    refine ⟨by omega, byte_eq _ _ ?_⟩
    omega
  | [x, y], _ => by
    have hx := x.toNat_lt; have hy := y.toNat_lt
    rw [Spec.Rfc4648.encode, decodeQ_last]
    simp only [inv_alphabet ((x.toNat * 65536 + y.toNat * 256) / 262144) (by omega),
      inv_alphabet ((x.toNat * 65536 + y.toNat * 256) / 4096 % 64) (by omega),
      inv_alphabet ((x.toNat * 65536 + y.toNat * 256) / 64 % 64) (by omega), inv_padChar]
    have h1 : (x.toNat * 65536 + y.toNat * 256) / 262144 < 64 := by omega
    have h2 : (x.toNat * 65536 + y.toNat * 256) / 4096 % 64 < 64 := by omega
    have h3 : (x.toNat * 65536 + y.toNat * 256) / 64 % 64 < 64 := by omega
    simp [h1, h2, h3]
    refine ⟨byte_eq _ _ ?_, byte_eq _ _ ?_⟩ <;> omega
  | [x, y, z], _ => by
    have hx := x.toNat_lt; have hy := y.toNat_lt; have hz := z.toNat_lt
    rw [Spec.Rfc4648.encode, Spec.Rfc4648.encode, decodeQ_last]
    simp only [inv_alphabet ((x.toNat * 65536 + y.toNat * 256 + z.toNat) / 262144) (by omega),
      inv_alphabet ((x.toNat * 65536 + y.toNat * 256 + z.toNat) / 4096 % 64) (by omega),
      inv_alphabet ((x.toNat * 65536 + y.toNat * 256 + z.toNat) / 64 % 64) (by omega),
      inv_alphabet ((x.toNat * 65536 + y.toNat * 256 + z.toNat) % 64) (by omega)]
    have h1 : (x.toNat * 65536 + y.toNat * 256 + z.toNat) / 262144 < 64 := by omega
    have h2 : (x.toNat * 65536 + y.toNat * 256 + z.toNat) / 4096 % 64 < 64 := by omega
    have h3 : (x.toNat * 65536 + y.toNat * 256 + z.toNat) / 64 % 64 < 64 := by omega
    have h4 : (x.toNat * 65536 + y.toNat * 256 + z.toNat) % 64 < 64 := by omega
    simp [h1, h2, h3, h4]
    refine ⟨byte_eq _ _ ?_, byte_eq _ _ ?_, byte_eq _ _ ?_⟩ <;> omega
  | x :: y :: z :: w :: r, _ => by
    have hx := x.toNat_lt; have hy := y.toNat_lt; have hz := z.toNat_lt
    have ih := decodeQ_encode (w :: r) (by simp)
    rw [Spec.Rfc4648.encode, decodeQ_cons _ _ _ _ _ (spec_encode_ne_nil _ (by simp)), ih]
    simp only [inv_alphabet ((x.toNat * 65536 + y.toNat * 256 + z.toNat) / 262144) (by omega),
      inv_alphabet ((x.toNat * 65536 + y.toNat * 256 + z.toNat) / 4096 % 64) (by omega),
      inv_alphabet ((x.toNat * 65536 + y.toNat * 256 + z.toNat) / 64 % 64) (by omega),
      inv_alphabet ((x.toNat * 65536 + y.toNat * 256 + z.toNat) % 64) (by omega)]
    have h1 : (x.toNat * 65536 + y.toNat * 256 + z.toNat) / 262144 < 64 := by omega
    have h2 : (x.toNat * 65536 + y.toNat * 256 + z.toNat) / 4096 % 64 < 64 := by omega
    have h3 : (x.toNat * 65536 + y.toNat * 256 + z.toNat) / 64 % 64 < 64 := by omega
    have h4 : (x.toNat * 65536 + y.toNat * 256 + z.toNat) % 64 < 64 := by omega
    simp [h1, h2, h3, h4]
    refine ⟨byte_eq _ _ ?_, byte_eq _ _ ?_, byte_eq _ _ ?_⟩ <;> omega

theorem decode_encode (bs : Bytes) (h : bs ≠ []) :
    decodeBin (encode bs) = some (bs, bs.length) := by
  rw [decode_exact, encode_eq_rfc4648, if_neg (spec_encode_ne_nil bs h)]
  unfold Spec.Rfc4648.decode
  rw [decodeQ_encode bs h]; rfl

private theorem takeWhile_length (p : UInt8 → Bool) (l : Bytes) :
    l.length = (l.takeWhile p).length ↔ ∀ x ∈ l, p x = true := by
  induction l with
  | nil => simp
  | cons a r ih =>
    rw [List.takeWhile_cons]
    cases hp : p a <;> simp [hp, ih]

private theorem cStrlen_eq (v : Bytes) : v.length = cStrlen v ↔ (0 : UInt8) ∉ v := by
  unfold cStrlen
  rw [takeWhile_length]
  constructor
  · intro h h0; simpa using h 0 h0
  · intro h x hx
    have : x ≠ 0 := fun e => h (e ▸ hx)
    simpa using this

theorem decode_str_exact (s : Bytes) :
    decodeStr s = if s = [] then some []
                  else match Spec.Rfc4648.decode s with
                    | none => none
                    | some v => if (0 : UInt8) ∈ v then none else some v := by
  unfold decodeStr
  by_cases hs : s = []
  · subst hs; rfl
  have hl : s.length ≠ 0 := by simpa using hs
  rw [if_neg hs, if_neg hl]
  have := decode_exact s
  unfold decodeBin at this
  rw [this, if_neg hs]
  cases Spec.Rfc4648.decode s with
  | none => rfl
  | some v =>
    simp only [Option.map_some]
    by_cases h0 : (0 : UInt8) ∈ v
    · rw [if_pos h0, if_pos]; rw [Ne, cStrlen_eq]; exact fun h => h h0
    · rw [if_neg h0, if_neg]; rw [Ne, cStrlen_eq]; exact fun h => h h0

end Strophe.Lemmas.Base64
