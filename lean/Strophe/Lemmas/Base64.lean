/-
Helper lemmas for Props/C18.lean.
-/
import Strophe.Model.Base64
import Strophe.Spec.Rfc4648

namespace Strophe.Lemmas.Base64
open Strophe Strophe.Base64

theorem charmap_is_rfc : ∀ v, v < 64 → chr v = Spec.Rfc4648.alphabet v := by
  sorry

theorem pad_is_rfc : pad = Spec.Rfc4648.padChar := by
  sorry

theorem invcharmap_is_rfc (c : UInt8) :
    inv c = match Spec.Rfc4648.value c with
            | some v => v
            | none => if c = Spec.Rfc4648.padChar then 64 else 65 := by
  sorry

theorem tables_inverse : (∀ v, v < 64 → inv (chr v) = v) ∧ (∀ c, inv c < 64 → chr (inv c) = c) := by
  sorry

theorem encode_eq_rfc4648 (bs : Bytes) : encode bs = Spec.Rfc4648.encode bs := by
  sorry

theorem encode_length (bs : Bytes) : (encode bs).length = 4 * ((bs.length + 2) / 3) := by
  sorry

theorem decode_exact (s : Bytes) :
    decodeBin s = if s = [] then none
                  else (Spec.Rfc4648.decode s).map fun v => (v, v.length) := by
  sorry

theorem decode_encode (bs : Bytes) (h : bs ≠ []) :
    decodeBin (encode bs) = some (bs, bs.length) := by
  sorry

theorem decode_str_exact (s : Bytes) :
    decodeStr s = if s = [] then some []
                  else match Spec.Rfc4648.decode s with
                    | none => none
                    | some v => if (0 : UInt8) ∈ v then none else some v := by
  sorry

end Strophe.Lemmas.Base64
