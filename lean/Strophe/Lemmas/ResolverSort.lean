/-
Lemmas about the bubble sort of Model/Resolver (`resolver_srv_list_sort`).
-/
import Strophe.Model.Resolver

namespace Strophe.Resolver

/-- the order the C comparison implements: priority ascending, then weight descending -/
def SrvLe {τ} (a b : Rr τ) : Prop := a.prio < b.prio ∨ (a.prio = b.prio ∧ b.weight ≤ a.weight)

theorem not_gt_iff {τ} (a b : Rr τ) : gt a b = false ↔ SrvLe a b := by
  simp only [gt, SrvLe, Bool.or_eq_false_iff, decide_eq_false_iff_not, Bool.and_eq_false_imp,
    beq_iff_eq]
  omega

theorem SrvLe.trans {τ} {a b c : Rr τ} (h1 : SrvLe a b) (h2 : SrvLe b c) : SrvLe a c := by
  unfold SrvLe at *; omega

theorem pass_ne_nil {τ} (cur : Rr τ) (l : List (Rr τ)) : (pass cur l).1 ≠ [] := by
  cases l with
  | nil => simp [pass]
  | cons n r => unfold pass; split <;> simp

/-- a pass without a swap leaves the list alone, and the list was in order -/
theorem pass_noswap {τ} (cur : Rr τ) (l : List (Rr τ)) (h : (pass cur l).2 = false) :
    (pass cur l).1 = cur :: l ∧ (cur :: l).Pairwise SrvLe := by
  induction l generalizing cur with
  | nil => simp [pass]
  | cons nxt rest ih =>
    unfold pass at h ⊢
    split at h
    · simp at h
    · next hg =>
      rw [if_neg hg]
      dsimp only at h ⊢
      have ⟨e, p⟩ := ih nxt h
      refine ⟨by rw [e], ?_⟩
      have hle : SrvLe cur nxt := (not_gt_iff _ _).mp (by simpa using hg)
      rw [List.pairwise_cons] at p ⊢
      refine ⟨?_, List.pairwise_cons.mpr p⟩
      intro y hy
      rcases List.mem_cons.mp hy with rfl | hy
      · exact hle
      · exact hle.trans (p.1 y hy)

/-- a pass never reorders two records with the same (priority, weight) -/
theorem pass_filter {τ} (cur : Rr τ) (l : List (Rr τ)) (p w : Nat) :
    (pass cur l).1.filter (fun r => r.prio == p && r.weight == w) =
      (cur :: l).filter (fun r => r.prio == p && r.weight == w) := by
  induction l generalizing cur with
  | nil => simp [pass]
  | cons nxt rest ih =>
    unfold pass
    split
    · next hg =>
      dsimp only
      rw [List.filter_cons, ih cur]
      simp only [gt, Bool.or_eq_true, decide_eq_true_eq, Bool.and_eq_true, beq_iff_eq] at hg
      by_cases h1 : (nxt.prio == p && nxt.weight == w) = true
      · have h2 : (cur.prio == p && cur.weight == w) = false := by
          simp only [Bool.and_eq_true, beq_iff_eq] at h1
          simp only [Bool.and_eq_false_imp, beq_iff_eq, beq_eq_false_iff_ne]
          omega
        simp [h1, h2]
      · simp [List.filter_cons, h1]
    · dsimp only
      rw [List.filter_cons, ih nxt, List.filter_cons (x := cur)]

theorem bubble_perm {τ} (hd : Rr τ) (tl : List (Rr τ)) : (bubble hd tl).Perm (hd :: tl) := by
  fun_induction bubble hd tl with
  | case1 hd tl x xs h ih =>
    have := pass_perm hd tl
    rw [h] at this
    exact ih.trans this
  | case2 hd tl l b hne h =>
    have := pass_perm hd tl
    rw [h] at this
    exact this

theorem bubble_sorted {τ} (hd : Rr τ) (tl : List (Rr τ)) : (bubble hd tl).Pairwise SrvLe := by
  fun_induction bubble hd tl with
  | case1 hd tl x xs h ih => exact ih
  | case2 hd tl l b hne h =>
    have hb : b = false := by
      cases b with
      | false => rfl
      | true =>
        cases l with
        | nil => exact absurd (by rw [h]) (pass_ne_nil hd tl)
        | cons x xs => exact (hne x xs rfl rfl).elim
    subst hb
    have := pass_noswap hd tl (by rw [h])
    rw [h] at this
    have e : l = hd :: tl := this.1
    rw [e]; exact this.2

theorem bubble_filter {τ} (hd : Rr τ) (tl : List (Rr τ)) (p w : Nat) :
    (bubble hd tl).filter (fun r => r.prio == p && r.weight == w) =
      (hd :: tl).filter (fun r => r.prio == p && r.weight == w) := by
  fun_induction bubble hd tl with
  | case1 hd tl x xs h ih =>
    have := pass_filter hd tl p w
    rw [h] at this
    exact ih.trans this
  | case2 hd tl l b hne h =>
    have := pass_filter hd tl p w
    rw [h] at this
    exact this

theorem sort_perm {τ} (l : List (Rr τ)) : (sort l).Perm l := by
  unfold sort
  split
  · exact .refl _
  · exact .refl _
  · exact bubble_perm _ _

theorem sort_sorted {τ} (l : List (Rr τ)) : (sort l).Pairwise SrvLe := by
  unfold sort
  split
  · exact .nil
  · simp
  · exact bubble_sorted _ _

/-- stability: records with equal keys keep their relative order -/
theorem sort_filter {τ} (l : List (Rr τ)) (p w : Nat) :
    (sort l).filter (fun r => r.prio == p && r.weight == w) =
      l.filter (fun r => r.prio == p && r.weight == w) := by
  unfold sort
  split
  · rfl
  · rfl
  · exact bubble_filter _ _ p w

theorem sort_eq_nil {τ} (l : List (Rr τ)) : sort l = [] ↔ l = [] := by
  constructor
  · intro h
    have := (sort_perm l).length_eq
    rw [h] at this
    exact List.length_eq_zero_iff.mp this.symm
  · rintro rfl; rfl

/-! the sort only looks at priority and weight, so it commutes with a change of the target
    representation -/
def Rr.mapTarget {τ σ} (f : τ → σ) (r : Rr τ) : Rr σ := ⟨r.prio, r.weight, r.port, f r.target⟩

theorem pass_map {τ σ} (f : τ → σ) (cur : Rr τ) (l : List (Rr τ)) :
    pass (cur.mapTarget f) (l.map (Rr.mapTarget f)) =
      ((pass cur l).1.map (Rr.mapTarget f), (pass cur l).2) := by
  induction l generalizing cur with
  | nil => simp [pass]
  | cons nxt rest ih =>
    have hg : gt (cur.mapTarget f) (nxt.mapTarget f) = gt cur nxt := rfl
    simp only [List.map_cons]
    unfold pass
    rw [hg]
    split
    · simp [ih]
    · simp [ih]

theorem bubble_map {τ σ} (f : τ → σ) (hd : Rr τ) (tl : List (Rr τ)) :
    bubble (hd.mapTarget f) (tl.map (Rr.mapTarget f)) = (bubble hd tl).map (Rr.mapTarget f) := by
  fun_induction bubble hd tl with
  | case1 hd tl x xs h ih =>
    rw [bubble]
    have := pass_map f hd tl
    rw [h] at this
    simp only [List.map_cons] at this
    split
    · next y ys h' =>
      rw [this] at h'
      injection h' with h1 h2
      injection h1 with h3 h4
      rw [← h3, ← h4]; exact ih
    · next l' b' hne' h' =>
      rw [this] at h'
      injection h' with h1 h2
      exact (hne' _ _ h1.symm h2.symm).elim
  | case2 hd tl l b hne h =>
    rw [bubble]
    have := pass_map f hd tl
    rw [h] at this
    split
    · next y ys h' =>
      rw [this] at h'
      injection h' with h1 h2
      subst h2
      cases l with
      | nil => simp at h1
      | cons x xs => exact (hne x xs rfl rfl).elim
    · next l' b' hne' h' =>
      rw [this] at h'
      injection h' with h1 h2
      exact h1.symm

theorem sort_map {τ σ} (f : τ → σ) (l : List (Rr τ)) :
    sort (l.map (Rr.mapTarget f)) = (sort l).map (Rr.mapTarget f) := by
  match l with
  | [] => rfl
  | [x] => rfl
  | x :: y :: r =>
    simp only [List.map_cons, sort]
    exact bubble_map f x (y :: r)

end Strophe.Resolver
