/-
Functional correctness of Model/Resolver against Spec/Dns: on a well-formed response the decoder
returns exactly the IN/SRV answers.
-/
import Strophe.Model.Resolver
import Strophe.Spec.Dns
import Strophe.Lemmas.ResolverSafe

namespace Strophe.Resolver
open Strophe.Gen Strophe.Dns

theorem rd_of_get (m : Buf) (i : Nat) (v : UInt8) (h : m[i]? = some v) : rd m i = .ok v := by
  obtain ⟨hi, rfl⟩ := Array.getElem?_eq_some_iff.mp h
  exact rd_ok m i hi

theorem lt_of_get (m : Buf) (i : Nat) (v : UInt8) (h : m[i]? = some v) : i < m.size :=
  (Array.getElem?_eq_some_iff.mp h).1

theorem label_bits (n : UInt8) (h1 : 1 ≤ n.toNat) (h2 : n.toNat ≤ 63) : n ≠ 0 ∧ n &&& 0xc0 = 0 := by
  have f : ∀ k : Fin 256, 1 ≤ k.val → k.val ≤ 63 →
      UInt8.ofNat k.val ≠ 0 ∧ UInt8.ofNat k.val &&& 0xc0 = 0 := by decide +kernel
  have := f ⟨n.toNat, n.toNat_lt⟩
  simp only [UInt8.ofNat_toNat] at this
  exact this h1 h2

theorem ptr_bits (n : UInt8) (h : 192 ≤ n.toNat) :
    n ≠ 0 ∧ n &&& 0xc0 ≠ 0 ∧ n &&& 0xc0 = 0xc0 ∧ (n &&& 0x3f).toNat = n.toNat - 192 := by
  have f : ∀ k : Fin 256, 192 ≤ k.val →
      UInt8.ofNat k.val ≠ 0 ∧ UInt8.ofNat k.val &&& 0xc0 ≠ 0 ∧ UInt8.ofNat k.val &&& 0xc0 = 0xc0 ∧
      (UInt8.ofNat k.val &&& 0x3f).toNat = k.val - 192 := by decide +kernel
  have := f ⟨n.toNat, n.toNat_lt⟩
  simp only [UInt8.ofNat_toNat] at this
  exact this h

/-! ### one iteration of `nameLoop` in the three well-formed situations -/

theorem nameLoop_root (m : Buf) (off i nameLen : Nat) (name : Option Nat) (nameMax : Nat) (tgt : Buf)
    (h0 : m[i]? = some 0) (hs : m.size + 64 ≤ uintRange) :
    nameLoop m off i nameLen name nameMax tgt =
      match finishRoot name nameLen nameMax tgt with
      | .error e => .error e
      | .ok t => .ok (i + 1 - off, t) := by
  have hi := lt_of_get _ _ _ h0
  rw [nameLoop]
  simp only [rd_of_get _ _ _ h0, ge_iff_le, Nat.not_le.mpr hi, dite_false, ite_true]
  rw [if_neg (show ¬ uintRange ≤ i + 1 by omega)]
  rfl

theorem nameLoop_label (m : Buf) (off i nameLen : Nat) (name : Option Nat) (nameMax : Nat) (tgt : Buf)
    (n : UInt8) (hn : m[i]? = some n) (h1 : 1 ≤ n.toNat) (h2 : n.toNat ≤ 63)
    (hin : i + 1 + n.toNat ≤ m.size) (hs : m.size + 64 ≤ uintRange) :
    nameLoop m off i nameLen name nameMax tgt =
      match appendLabel m (i + 1) n.toNat name nameLen nameMax tgt with
      | .error e => .error e
      | .ok (nl, t) => nameLoop m off (i + 1 + n.toNat) nl name nameMax t := by
  have hi := lt_of_get _ _ _ hn
  obtain ⟨b1, b2⟩ := label_bits n h1 h2
  rw [nameLoop]
  simp only [rd_of_get _ _ _ hn, ge_iff_le, Nat.not_le.mpr hi, dite_false, b1, b2, ite_false,
    ite_true]
  rw [if_neg (show ¬ uintRange ≤ i + 1 by omega), if_neg (show ¬ uintRange ≤ i + 1 + n.toNat by omega),
    if_neg (show ¬ m.size ≤ i + 1 + n.toNat - 1 by omega)]
  rfl

theorem nameLoop_ptr (m : Buf) (off i nameLen : Nat) (name : Option Nat) (nameMax : Nat) (tgt : Buf)
    (hi lo : UInt8) (hhi : m[i]? = some hi) (h192 : 192 ≤ hi.toNat) (hlo : m[i + 1]? = some lo)
    (hp : (hi.toNat - 192) * 256 + lo.toNat < off) (hs : m.size + 64 ≤ uintRange) :
    nameLoop m off i nameLen name nameMax tgt =
      match dropFilled name nameLen nameMax tgt with
      | .error e => .error e
      | .ok (name', nameMax', t) =>
        match subName name' nameLen t with
        | .error e => .error e
        | .ok sub =>
          match nameLoop m ((hi.toNat - 192) * 256 + lo.toNat) ((hi.toNat - 192) * 256 + lo.toNat)
              0 sub (if nameMax' > nameLen then nameMax' - nameLen else 0) t with
          | .error e => .error e
          | .ok (rc, t') => if rc = 0 then .ok (0, t') else .ok (i + 2 - off, t') := by
  have hi' := lt_of_get _ _ _ hhi
  have hi1 := lt_of_get _ _ _ hlo
  obtain ⟨b1, b2, b3, b4⟩ := ptr_bits hi h192
  rw [nameLoop]
  simp only [rd_of_get _ _ _ hhi, rd_of_get _ _ _ hlo, ge_iff_le, Nat.not_le.mpr hi', dite_false,
    b1, b2, b4, ite_false]
  rw [if_neg (show ¬ uintRange ≤ i + 1 by omega), if_pos b3, if_neg (show ¬ m.size ≤ i + 1 by omega),
    if_neg (show ¬ uintRange ≤ i + 2 by omega), dif_neg (by omega)]
  rfl

/-! ### skipping a name (`message_name_len`) -/

theorem nameFrom_bounds {m : Buf} {start i : Nat} {labels : List Bytes} {e : Nat}
    (h : NameFrom m start i labels e) : i < e ∧ e ≤ m.size := by
  induction h with
  | root h0 => have := lt_of_get _ _ _ h0; omega
  | label hn h1 h2 hl hb _ ih => omega
  | ptr hhi h192 hlo hp hlt _ _ ih => have := lt_of_get _ _ _ hlo; omega

theorem nameLoop_skip {m : Buf} {start i : Nat} {labels : List Bytes} {e : Nat}
    (h : NameFrom m start i labels e) (hs : m.size + 64 ≤ uintRange) (nameMax : Nat) (tgt : Buf) :
    nameLoop m start i 0 none nameMax tgt = .ok (e - start, tgt) := by
  induction h generalizing nameMax with
  | root h0 => rw [nameLoop_root _ _ _ _ _ _ _ h0 hs]; rfl
  | @label start i n lab rest next hn h1 h2 hl hb hrest ih =>
    have := nameFrom_bounds hrest
    rw [nameLoop_label _ _ _ _ _ _ _ n hn h1 h2 (by omega) hs]
    simp only [appendLabel]
    exact ih nameMax
  | @ptr start i hi lo p labels e hhi h192 hlo hp hlt hsub hroot ih =>
    subst hp
    rw [nameLoop_ptr _ _ _ _ _ _ _ hi lo hhi h192 hlo hlt hs]
    simp only [dropFilled, subName]
    rw [ih]
    have := (nameFrom_bounds hsub).1
    simp only
    rw [if_neg (by omega)]

theorem messageNameLen_correct {m : Buf} {off len : Nat} {labels : List Bytes}
    (h : NameAt m off labels len) (hs : m.size + 64 ≤ uintRange) :
    messageNameLen m off = .ok len ∧ 0 < len ∧ off + len ≤ m.size := by
  have hb := nameFrom_bounds h
  unfold messageNameLen nameGet
  rw [nameLoop_skip h hs]
  simp only
  exact ⟨by congr 1; omega, by omega, hb.2⟩


/-! ### decoding a name into the target field (`message_name_get` with a buffer) -/

/-- every label followed by a dot -/
def dots (ls : List Bytes) : Bytes := ls.flatMap (· ++ [46])

/-- field content: `s` (without its last byte if `cut`), NUL-padded to `total` bytes -/
def fin (s : Bytes) (total : Nat) (cut : Bool) : Bytes :=
  (if cut then s.dropLast else s) ++ List.replicate (total - (if cut then s.dropLast else s).length) 0

theorem memcpyFrom_list (tail : Nat → Except Err UInt8) (n : Nat) :
    ∀ (tgt : Buf) (dst k : Nat) (a b vs : Bytes), tgt.toList = a ++ b → a.length = dst + k →
    n ≤ b.length → vs.length = n → (∀ j, (h : j < vs.length) → tail (k + j) = .ok vs[j]) →
    ∃ t, memcpyFrom tail tgt dst k n = .ok t ∧ t.toList = a ++ vs ++ b.drop n := by
  induction n with
  | zero =>
    intro tgt dst k a b vs ht ha hb hvs hv
    have : vs = [] := List.length_eq_zero_iff.mp hvs
    subst this
    exact ⟨tgt, rfl, by simpa using ht⟩
  | succ n ih =>
    intro tgt dst k a b vs ht ha hb hvs hv
    match vs, hvs, hv with
    | v :: vs', hvs, hv =>
      have h0 := hv 0 (by simp)
      simp only [Nat.add_zero, List.getElem_cons_zero] at h0
      have hsz : tgt.size = a.length + b.length := by
        rw [← Array.length_toList, ht, List.length_append]
      have hw : dst + k < tgt.size := by omega
      match b, hb, ht, hsz with
      | b0 :: b', hb, ht, hsz =>
        simp only [memcpyFrom, h0, wr_ok _ _ _ hw]
        have ht' : (tgt.set (dst + k) v hw).toList = (a ++ [v]) ++ b' := by
          rw [Array.toList_set, ht, ← ha, List.set_append_right _ _ (Nat.le_refl _)]
          simp
        obtain ⟨t, h1, h2⟩ := ih (tgt.set (dst + k) v hw) dst (k + 1) (a ++ [v]) b' vs' ht'
          (by simp; omega) (by simpa using hb) (by simpa using hvs)
          (fun j hj => by
            have := hv (j + 1) (by simp; omega)
            simpa [Nat.add_assoc, Nat.add_comm 1 j] using this)
        exact ⟨t, h1, by rw [h2]; simp⟩

theorem appendSafe_list (tgt : Buf) (base nameLen nameMax : Nat) (tail : Nat → Except Err UInt8)
    (pre b vs : Bytes) (ht : tgt.toList = pre ++ b) (hpre : pre.length = base + nameLen)
    (hroom : nameLen + vs.length ≤ nameMax) (hb : vs.length ≤ b.length)
    (hv : ∀ j, (h : j < vs.length) → tail j = .ok vs[j]) :
    ∃ t, appendSafe tgt base nameLen nameMax tail vs.length = .ok (nameLen + vs.length, t) ∧
      t.toList = pre ++ vs ++ b.drop vs.length := by
  unfold appendSafe
  dsimp only
  by_cases hz : vs.length = 0
  · have : vs = [] := List.length_eq_zero_iff.mp hz
    subst this
    simp [ht]
  · have hlt : nameMax > nameLen := by omega
    rw [if_pos hlt, Nat.min_eq_left (by omega), if_pos (by omega)]
    obtain ⟨t, h1, h2⟩ := memcpyFrom_list tail vs.length tgt (base + nameLen) 0 pre b vs ht
      (by omega) hb rfl (fun j hj => by simpa using hv j hj)
    rw [h1]
    exact ⟨t, rfl, h2⟩

theorem appendLabel_list (m : Buf) (i : Nat) (lab : Bytes) (base nameLen nameMax : Nat) (tgt : Buf)
    (pre b : Bytes) (hlab : ∀ k, (h : k < lab.length) → m[i + k]? = some lab[k])
    (ht : tgt.toList = pre ++ b) (hpre : pre.length = base + nameLen)
    (hroom : nameLen + lab.length + 1 ≤ nameMax) (hb : lab.length + 1 ≤ b.length) :
    ∃ t, appendLabel m i lab.length (some base) nameLen nameMax tgt =
        .ok (nameLen + lab.length + 1, t) ∧
      t.toList = pre ++ lab ++ [46] ++ b.drop (lab.length + 1) := by
  unfold appendLabel
  dsimp only
  obtain ⟨t1, h1, h2⟩ := appendSafe_list tgt base nameLen nameMax (fun k => rd m (i + k)) pre b lab
    ht hpre (by omega) (by omega) (fun j hj => rd_of_get _ _ _ (hlab j hj))
  rw [h1]
  dsimp only
  obtain ⟨t2, h3, h4⟩ := appendSafe_list t1 base (nameLen + lab.length) nameMax dotLit
    (pre ++ lab) (b.drop lab.length) [46] (by rw [h2]) (by simp; omega) (by simp; omega)
    (by simp; omega) (fun j hj => by
      have : j = 0 := by simpa using hj
      subst this; rfl)
  simp only [List.length_singleton] at h3
  rw [h3]
  refine ⟨t2, rfl, ?_⟩
  rw [h4]
  simp

theorem dots_cons (l : Bytes) (rest : List Bytes) : dots (l :: rest) = l ++ [46] ++ dots rest := by
  simp [dots]

theorem dots_length_pos {ls : List Bytes} (h : ls ≠ []) : 0 < (dots ls).length := by
  cases ls with
  | nil => exact absurd rfl h
  | cons l r => rw [dots_cons]; simp; omega

theorem set_last_zero (pre : Bytes) (h : pre ≠ []) :
    pre.set (pre.length - 1) 0 = pre.dropLast ++ [0] := by
  induction pre with
  | nil => exact absurd rfl h
  | cons x xs ih =>
    cases xs with
    | nil => rfl
    | cons y ys =>
      have := ih (by simp)
      simp only [List.length_cons, Nat.add_sub_cancel] at this ⊢
      rw [List.set_cons_succ, this]
      rfl

theorem finishRoot_list (base nameLen nameMax : Nat) (tgt : Buf) (pre : Bytes) (z : Nat)
    (ht : tgt.toList = pre ++ List.replicate z 0) (hpre : pre.length = base + nameLen)
    (hroom : nameLen ≤ nameMax) (hmax : 1 ≤ nameMax) (hfit : base + nameMax ≤ tgt.size) :
    ∃ t, finishRoot (some base) nameLen nameMax tgt = .ok t ∧
      t.toList = fin pre tgt.size (decide (nameLen ≠ 0)) := by
  have hsz : tgt.size = pre.length + z := by
    rw [← Array.length_toList, ht]; simp
  unfold finishRoot
  dsimp only
  rw [if_pos (by omega)]
  by_cases h0 : nameLen = 0
  · subst h0
    have hw : base + (min 1 nameMax - 1) < tgt.size := by omega
    rw [if_pos rfl, wr_ok _ _ _ hw]
    refine ⟨_, rfl, ?_⟩
    have hidx : base + (min 1 nameMax - 1) = pre.length := by omega
    rw [Array.toList_set, ht, hidx, List.set_append_right _ _ (Nat.le_refl _)]
    have hz : 0 < z := by omega
    simp only [Nat.sub_self, fin, ne_eq, not_true_eq_false, decide_false, Bool.false_eq_true,
      if_false]
    congr 1
    · obtain ⟨z', rfl⟩ : ∃ z', z = z' + 1 := ⟨z - 1, by omega⟩
      rw [hsz]
      simp [List.replicate_succ]
  · have hw : base + (min nameLen nameMax - 1) < tgt.size := by omega
    rw [if_neg h0, wr_ok _ _ _ hw]
    refine ⟨_, rfl, ?_⟩
    have hidx : base + (min nameLen nameMax - 1) = pre.length - 1 := by omega
    have hne : pre ≠ [] := by
      intro h; rw [h] at hpre; simp at hpre; omega
    rw [Array.toList_set, ht, hidx, List.set_append_left _ _ (by omega), set_last_zero pre hne]
    simp only [fin, ne_eq, h0, not_false_eq_true, decide_true, if_true, List.length_dropLast]
    rw [hsz, List.append_assoc]
    congr 1
    have : pre.length + z - (pre.length - 1) = z + 1 := by omega
    rw [this, List.replicate_succ]
    rfl

/-- the in-place labels are copied, a pointer continues at `&name[name_len]`, and the final
    dot is replaced by the terminator: the field ends up holding the dotted name -/
theorem nameLoop_write {m : Buf} {start i : Nat} {labels : List Bytes} {e : Nat}
    (h : NameFrom m start i labels e) (hs : m.size + 64 ≤ uintRange) :
    ∀ (base nameLen nameMax : Nat) (tgt : Buf) (pre : Bytes) (z : Nat),
    tgt.toList = pre ++ List.replicate z 0 → pre.length = base + nameLen → start ≤ i →
    (i = start → nameLen = 0) → nameLen + (dots labels).length ≤ nameMax → 1 ≤ nameMax →
    base + nameMax ≤ tgt.size →
    ∃ t, nameLoop m start i nameLen (some base) nameMax tgt = .ok (e - start, t) ∧
      t.toList = fin (pre ++ dots labels) tgt.size (decide (nameLen + (dots labels).length ≠ 0)) := by
  induction h with
  | @root start i h0 =>
    intro base nameLen nameMax tgt pre z ht hpre hoi hst hroom hmax hfit
    rw [nameLoop_root _ _ _ _ _ _ _ h0 hs]
    simp only [dots, List.flatMap_nil, List.length_nil, Nat.add_zero, List.append_nil] at hroom ⊢
    obtain ⟨t, h1, h2⟩ := finishRoot_list base nameLen nameMax tgt pre z ht hpre hroom hmax hfit
    rw [h1]
    exact ⟨t, rfl, h2⟩
  | @label start i n lab rest next hn h1 h2 hl hb hrest ih =>
    intro base nameLen nameMax tgt pre z ht hpre hoi hst hroom hmax hfit
    have hbd := nameFrom_bounds hrest
    have hsz : tgt.size = pre.length + z := by
      rw [← Array.length_toList, ht]; simp
    rw [nameLoop_label _ _ _ _ _ _ _ n hn h1 h2 (by omega) hs]
    rw [dots_cons] at hroom ⊢
    simp only [List.length_append, List.length_singleton] at hroom
    obtain ⟨t1, a1, a2⟩ := appendLabel_list m (i + 1) lab base nameLen nameMax tgt pre
      (List.replicate z 0) hb ht hpre (by omega) (by simp; omega)
    rw [← hl, a1]
    dsimp only
    have a2' : t1.toList = (pre ++ lab ++ [46]) ++ List.replicate (z - (lab.length + 1)) 0 := by
      rw [a2]; simp
    have hsz1 : t1.size = tgt.size := by
      rw [← Array.length_toList, a2', hsz]; simp; omega
    obtain ⟨t, b1, b2⟩ := ih base (nameLen + lab.length + 1) nameMax t1 (pre ++ lab ++ [46])
      (z - (lab.length + 1)) a2' (by simp; omega) (by omega) (by omega) (by omega) hmax (by omega)
    rw [← hl] at b1
    refine ⟨t, b1, ?_⟩
    rw [b2, hsz1]
    have c1 : decide (nameLen + lab.length + 1 + (dots rest).length ≠ 0) = true := by
      simp
    have c2 : decide (nameLen + (lab ++ [46] ++ dots rest).length ≠ 0) = true := by
      simp
    rw [c1, c2]
    simp
  | @ptr start i hi lo p labels e hhi h192 hlo hp hlt hsub hroot ih =>
    intro base nameLen nameMax tgt pre z ht hpre hoi hst hroom hmax hfit
    subst hp
    have hbd := nameFrom_bounds hsub
    rw [nameLoop_ptr _ _ _ _ _ _ _ hi lo hhi h192 hlo hlt hs]
    have hlt' : nameLen < nameMax := by
      by_cases hl : labels = []
      · have := hst (hroot hl); omega
      · have := dots_length_pos hl; omega
    have hd : dropFilled (some base) nameLen nameMax tgt = .ok (some base, nameMax, tgt) := by
      unfold dropFilled
      dsimp only
      rw [if_neg (by omega)]
    rw [hd]
    dsimp only
    have hsn : subName (some base) nameLen tgt = .ok (some (base + nameLen)) := by
      unfold subName
      dsimp only
      rw [if_pos (by omega)]
    rw [hsn]
    dsimp only
    rw [if_pos hlt']
    obtain ⟨t, b1, b2⟩ := ih (base + nameLen) 0 (nameMax - nameLen) tgt pre z ht (by omega)
      (Nat.le_refl _) (fun _ => rfl) (by omega) (by omega) (by omega)
    rw [b1]
    dsimp only
    rw [if_neg (by omega)]
    refine ⟨t, rfl, ?_⟩
    rw [b2]
    congr 1
    by_cases hl : labels = []
    · have := hst (hroot hl); subst this; rfl
    · have := dots_length_pos hl
      have e1 : 0 + (dots labels).length ≠ 0 := by omega
      have e2 : nameLen + (dots labels).length ≠ 0 := by omega
      rw [decide_eq_true e1, decide_eq_true e2]


/-! ### records -/

theorem ok_bind {α β} (a : α) (f : α → Except Err β) : (Except.ok a >>= f) = f a := rfl

theorem u32_ok (n : Nat) (h : n < uintRange) : u32 n = .ok n := by simp [u32, h]

theorem ntohs_of_be16 (m : Buf) (i v : Nat) (h : be16 m i = some v) :
    ntohs m i = .ok v ∧ i + 1 < m.size := by
  unfold be16 at h
  split at h
  · next a b ha hb =>
    injection h with h
    have hb' := b.toNat_lt
    have ha' := a.toNat_lt
    refine ⟨?_, lt_of_get _ _ _ hb⟩
    simp only [ntohs, rd_of_get _ _ _ ha, rd_of_get _ _ _ hb]
    rw [Nat.mod_eq_of_lt (by omega), h]
  · cases h

/-- a spec-level name as the C string a caller reads -/
def cName (b : Bytes) : Bytes := b.takeWhile (· ≠ 0)

def toRr (s : Srv) : Rr Bytes := ⟨s.prio, s.weight, s.port, cName s.target⟩

theorem dots_eq {ls : List Bytes} (h : ls ≠ []) : dots ls = dotted ls ++ [46] := by
  match ls, h with
  | [l], _ => simp [dots, dotted]
  | l :: l' :: rest, _ =>
    have := dots_eq (ls := l' :: rest) (by simp)
    rw [dots_cons, this]
    simp [dotted]

theorem takeWhile_pad (a : Bytes) (k : Nat) :
    (a ++ List.replicate k 0).takeWhile (· ≠ 0) = a.takeWhile (· ≠ 0) := by
  induction a with
  | nil => cases k <;> simp [List.replicate_succ]
  | cons x xs ih =>
    by_cases hx : x = 0
    · simp [hx]
    · simp only [List.cons_append, List.takeWhile_cons, ne_eq, hx, not_false_eq_true, decide_true,
        if_true, ih]

theorem newTarget_list : newTarget.toList = [] ++ List.replicate maxDomainLen 0 := by
  simp [newTarget]

theorem target_correct {m : Buf} {off len : Nat} {labels : List Bytes}
    (h : NameAt m off labels len) (hlen : (dotted labels).length < nameLimit)
    (hs : m.size + 64 ≤ uintRange) :
    ∃ t, nameGet m off (some 0) maxDomainLen newTarget = .ok (len, t) ∧
      cStr t = cName (dotted labels) := by
  have hmax : maxDomainLen = 256 := rfl
  have hlim : nameLimit = 256 := rfl
  have hroom : 0 + (dots labels).length ≤ maxDomainLen := by
    by_cases hl : labels = []
    · subst hl; simp [dots]
    · rw [dots_eq hl]; simp; omega
  obtain ⟨t, h1, h2⟩ := nameLoop_write h hs 0 0 maxDomainLen newTarget [] maxDomainLen
    newTarget_list rfl (Nat.le_refl _) (fun _ => rfl) hroom (by omega) (by simp [newTarget])
  refine ⟨t, ?_, ?_⟩
  · unfold nameGet; rw [h1]; congr 2; omega
  · unfold cStr cName
    rw [h2]
    by_cases hl : labels = []
    · subst hl
      simp [dots, fin, dotted]
    · have hp := dots_length_pos hl
      have e1 : 0 + (dots labels).length ≠ 0 := by omega
      rw [decide_eq_true e1]
      simp only [fin, if_true, List.nil_append]
      rw [dots_eq hl, List.dropLast_concat, takeWhile_pad]


theorem srvRecord_correct {m : Buf} {rd rdlength : Nat} {s : SrvData} (h : SrvAt m rd rdlength s)
    (hin : rd + rdlength ≤ m.size) (hs : m.size + 131072 ≤ uintRange) (list : List (Rr Buf)) :
    ∃ rr, srvRecord m rd list = .ok (some (rr :: list)) ∧
      cOf rr = toRr ⟨s.prio, s.weight, s.port, dotted s.target⟩ := by
  obtain ⟨hp, hw, hpo, len, hname, hrl, hlim⟩ := h
  obtain ⟨t, h1, h2⟩ := target_correct hname hlim (by omega)
  have hb := nameFrom_bounds hname
  obtain ⟨n1, _⟩ := ntohs_of_be16 _ _ _ hp
  obtain ⟨n2, _⟩ := ntohs_of_be16 _ _ _ hw
  obtain ⟨n3, _⟩ := ntohs_of_be16 _ _ _ hpo
  refine ⟨⟨s.prio, s.weight, s.port, t⟩, ?_, ?_⟩
  · unfold srvRecord
    rw [u32_ok (rd + 6) (by omega), ok_bind, if_neg (by omega), n1, ok_bind,
      u32_ok (rd + 2) (by omega), ok_bind, n2, ok_bind, u32_ok (rd + 4) (by omega), ok_bind, n3,
      ok_bind, h1, ok_bind]
    dsimp only
    rw [if_pos (by omega)]
    rfl
  · simp only [cOf, Rr.mapTarget, toRr, h2]

/-- one iteration of the answer loop on a well-formed record header -/
theorem answers_step (m : Buf) (n j : Nat) (list : List (Rr Buf)) (nl type cls rdlength : Nat)
    (hnl : messageNameLen m j = .ok nl) (hpos : 0 < nl) (ht : ntohs m (j + nl) = .ok type)
    (hc : ntohs m (j + nl + 2) = .ok cls) (hr : ntohs m (j + nl + 8) = .ok rdlength)
    (hin : j + nl + 10 + rdlength ≤ m.size) (hs : m.size + 131072 ≤ uintRange) :
    answers m (n + 1) j list =
      if type = messageTSrv ∧ cls = messageCIn then
        srvRecord m (j + nl + 10) list >>= fun o =>
          match o with
          | none => pure (false, [])
          | some list' => answers m n (j + nl + 10 + rdlength) list'
      else answers m n (j + nl + 10 + rdlength) list := by
  rw [answers]
  rw [if_neg (by omega), hnl, ok_bind, if_neg (by omega), u32_ok (j + nl) (by omega), ok_bind,
    u32_ok (j + nl + 9) (by omega), ok_bind, if_neg (by omega), ht, ok_bind,
    u32_ok (j + nl + 2) (by omega), ok_bind, hc, ok_bind, u32_ok (j + nl + 8) (by omega), ok_bind,
    hr, ok_bind, u32_ok (j + nl + 10) (by omega), ok_bind]
  split
  · congr 1
    funext o
    cases o with
    | none => rfl
    | some l' =>
      dsimp only
      rw [u32_ok (j + nl + 10 + rdlength) (by omega), ok_bind]
  · rw [u32_ok (j + nl + 10 + rdlength) (by omega), ok_bind]

theorem pin_consts : messageTSrv = typeSrv ∧ messageCIn = classIn ∧ messageHeaderLen = headerLen ∧
    messageResponse = 1 ∧ maxDomainLen = nameLimit := by decide

theorem answers_correct {m : Buf} {off e : Nat} {as : List Answer} (h : AnswersAt m off as e)
    (hs : m.size + 131072 ≤ uintRange) :
    ∀ list : List (Rr Buf), ∃ L, answers m as.length off list = .ok (!L.isEmpty, L) ∧
      L.map cOf = ((as.filterMap answerSrv).map toRr).reverse ++ list.map cOf := by
  induction h with
  | nil => intro list; exact ⟨list, rfl, by simp⟩
  | @cons off len e a as hname hty hcl httl hrd hin hsrv hrest ih =>
    intro list
    obtain ⟨n0, npos, nin⟩ := messageNameLen_correct hname (by omega)
    obtain ⟨n1, _⟩ := ntohs_of_be16 _ _ _ hty
    obtain ⟨n2, _⟩ := ntohs_of_be16 _ _ _ hcl
    obtain ⟨n3, _⟩ := ntohs_of_be16 _ _ _ hrd
    rw [List.length_cons, answers_step m as.length off list len a.type a.cls a.rdlength n0 npos n1
      n2 n3 hin hs]
    rw [pin_consts.1, pin_consts.2.1]
    by_cases hc : a.type = typeSrv ∧ a.cls = classIn
    · rw [if_pos hc] at hsrv ⊢
      obtain ⟨s, hs1, hs2⟩ := hsrv
      obtain ⟨rr, r1, r2⟩ := srvRecord_correct hs2 (by omega) hs list
      rw [r1, ok_bind]
      dsimp only
      obtain ⟨L, l1, l2⟩ := ih (rr :: list)
      refine ⟨L, l1, ?_⟩
      rw [l2, List.filterMap_cons]
      simp only [answerSrv, if_pos hc, hs1, Option.map_some, List.map_cons, List.reverse_cons,
        List.append_assoc, List.singleton_append, r2]
    · rw [if_neg hc] at hsrv ⊢
      obtain ⟨L, l1, l2⟩ := ih list
      refine ⟨L, l1, ?_⟩
      rw [l2, List.filterMap_cons]
      simp only [answerSrv, if_neg hc]

theorem questions_correct {m : Buf} {off e : Nat} {qs : List Question} (h : QuestionsAt m off qs e)
    (hs : m.size + 131072 ≤ uintRange) (an : Nat) :
    questions m an qs.length off = answers m an e [] := by
  induction h with
  | nil => rfl
  | @cons off len e q qs hname hty hcl hrest ih =>
    obtain ⟨n0, npos, nin⟩ := messageNameLen_correct hname (by omega)
    rw [List.length_cons, questions, if_neg (by omega), n0, ok_bind, if_neg (by omega),
      u32_ok _ (by omega), ok_bind]
    rw [← Nat.add_assoc]
    exact ih


theorem qr_bits (o : UInt8) (h : 128 ≤ o.toNat) : ((o >>> 7) &&& 1).toNat = 1 := by
  have f : ∀ k : Fin 256, 128 ≤ k.val → ((UInt8.ofNat k.val >>> 7) &&& 1).toNat = 1 := by
    decide +kernel
  have := f ⟨o.toNat, o.toNat_lt⟩
  simp only [UInt8.ofNat_toNat] at this
  exact this h

theorem rcode_bits (o : UInt8) (h : o.toNat % 16 = 0) : o &&& 0x0f = 0 := by
  have f : ∀ k : Fin 256, k.val % 16 = 0 → UInt8.ofNat k.val &&& 0x0f = 0 := by decide +kernel
  have := f ⟨o.toNat, o.toNat_lt⟩
  simp only [UInt8.ofNat_toNat] at this
  exact this h

theorem rawLookup_correct {m : Buf} {msg : Message} (h : WfResponse m msg)
    (hs : m.size + 131072 ≤ uintRange) :
    ∃ L, rawLookup m = .ok (!L.isEmpty, L) ∧ L.map cOf = ((srvOf msg).map toRr).reverse := by
  obtain ⟨⟨o2, g2, q2⟩, ⟨o3, g3, q3⟩, hqd, han, hhdr, a, e, hq, ha⟩ := h
  have h12 : 12 ≤ m.size := hhdr
  obtain ⟨L, l1, l2⟩ := answers_correct ha hs []
  refine ⟨L, ?_, by simpa [srvOf] using l2⟩
  rw [← l1, ← questions_correct hq hs]
  unfold rawLookup
  rw [if_neg (by simp [messageHeaderLen]; omega), ntohs_ok m 0 (by omega), ok_bind,
    rd_of_get _ _ _ g2, ok_bind, rd_of_get _ _ _ g3, ok_bind, (ntohs_of_be16 _ _ _ hqd).1, ok_bind,
    (ntohs_of_be16 _ _ _ han).1, ok_bind, ntohs_ok m 8 (by omega), ok_bind,
    ntohs_ok m 10 (by omega), ok_bind, qr_bits o2 q2, rcode_bits o3 q3]
  rw [if_neg (by simp [messageResponse])]
  rfl

/-- the main result on arrays -/
theorem lookupArr_correct {m : Buf} {msg : Message} (h : WfResponse m msg)
    (hs : m.size + 131072 < uintRange) :
    lookupArr m =
      if srvOf msg = [] then .notFound else .found (sort ((srvOf msg).reverse.map toRr)) := by
  obtain ⟨L, l1, l2⟩ := rawLookup_correct h (Nat.le_of_lt hs)
  have hlist : lookupList m = .ok (!L.isEmpty, sort L) := by
    unfold lookupList
    rw [l1]
    dsimp only
    cases L with
    | nil => rfl
    | cons x xs => simp
  have hnil : srvOf msg = [] ↔ L = [] := by
    constructor
    · intro h0; rw [h0] at l2; simpa using l2
    · intro h0; rw [h0] at l2; simpa using l2.symm
  rcases lookupArr_cases m with ⟨_, hbig⟩ | ⟨c1, c2⟩ | ⟨l, c1, c2, c3, c4⟩
  · unfold Big at hbig; omega
  · rw [hlist] at c2
    injection c2 with c2
    injection c2 with c3 c4
    have : L = [] := (sort_eq_nil L).mp c4
    rw [c1, if_pos (hnil.mpr this)]
  · rw [hlist] at c1
    injection c1 with c1
    injection c1 with c5 c6
    have hne : L ≠ [] := fun h0 => c2 (by rw [← c6, h0]; rfl)
    rw [c4, if_neg (fun h0 => hne (hnil.mp h0)), ← c6]
    have : (sort L).map cOf = sort (L.map cOf) := (sort_map cStr L).symm
    rw [this, l2, List.map_reverse]

end Strophe.Resolver
