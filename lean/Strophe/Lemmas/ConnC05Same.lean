/-
C05: the functions of the connection machine that leave the inbound counter, its history and the
"SM record exists" flag alone (`Same`).  The only ones that do not: `handleSm` (through the
`.sys .sm` handler), `smHandleStanza`, `handleStreamStanza`, and the first connect call.
-/
import Strophe.Lemmas.ConnC05Base

namespace Strophe.Lemmas.ConnC05
open Strophe Strophe.Conn Strophe.Lemmas.ConnC13

variable {c0 c : Conn}

theorem Same_triggerSmCallback (h : Same c0 c) : Same c0 (triggerSmCallback c) := h
theorem Same_prepareReset {o} (h : Same c0 c) : Same c0 (prepareReset c o) := h
theorem Same_notify {e} (h : Same c0 c) : Same c0 (notify c e) := by cauto notify
theorem Same_addHandler {fn ud ns name type user} (h : Same c0 c) : Same c0 (addHandler c fn ud ns name type user) := by
  cauto addHandler
theorem Same_addIdHandler {fn id user} (h : Same c0 c) : Same c0 (addIdHandler c fn id user) := by cauto addIdHandler
theorem Same_addTimed {fn period user} (h : Same c0 c) : Same c0 (addTimed c fn period user) := by cauto addTimed
theorem Same_delTimed {fn} (h : Same c0 c) : Same c0 (delTimed c fn) := by cauto delTimed
theorem Same_resetTimed (h : Same c0 c) : Same c0 (resetTimed c) := by cauto resetTimed
theorem Same_systemDeleteAll (h : Same c0 c) : Same c0 (systemDeleteAll c) := by cauto systemDeleteAll
theorem Same_resetSmForReconnect (h : Same c0 c) : Same c0 (resetSmForReconnect c) := by
  unfold resetSmForReconnect; dsimp only; split <;> exact h
theorem Same_connDisconnect (h : Same c0 c) : Same c0 (connDisconnect c) := by cauto connDisconnect
theorem Same_pushRawWith {it o sn} (h : Same c0 c) : Same c0 (pushRawWith c it o sn) := by cauto pushRawWith
theorem Same_pushRaw {it o} (h : Same c0 c) : Same c0 (pushRaw c it o) := by cauto pushRaw
theorem Same_sendStanza {it o} (h : Same c0 c) : Same c0 (sendStanza c it o) := by cauto sendStanza
theorem Same_sendRaw {it o} (h : Same c0 c) : Same c0 (sendRaw c it o) := by cauto sendRaw
theorem Same_sendRawString {it} (h : Same c0 c) : Same c0 (sendRawString c it) := by cauto sendRawString
theorem Same_xmppDisconnect (h : Same c0 c) : Same c0 (xmppDisconnect c) := by cauto xmppDisconnect
theorem Same_connTlsStart (h : Same c0 c) : Same c0 (connTlsStart c).1 := by cauto connTlsStart
theorem Same_connOpenStream (h : Same c0 c) : Same c0 (connOpenStream c) := by cauto connOpenStream
theorem Same_negotiationSuccess (h : Same c0 c) : Same c0 (negotiationSuccess c) := by cauto negotiationSuccess
theorem Same_authLegacyStep (h : Same c0 c) : Same c0 (authLegacyStep c) := by cauto authLegacyStep

theorem Same_auth (n : Nat) : ∀ {c}, Same c0 c → Same c0 (auth c n) := by
  induction n with
  | zero => intro c h; exact h
  | succ n ih =>
    intro c h
    rw [auth]
    dsimp only
    ctrav
    all_goals first | (apply ih; ctrav) | skip

theorem Same_authTop (h : Same c0 c) : Same c0 (authTop c) := by cauto authTop
theorem Same_saslChild {t} (h : Same c0 c) : Same c0 (saslChild c t) := by cauto saslChild
theorem Same_noteOffers {st} (h : Same c0 c) : Same c0 (noteOffers c st) := h
theorem Same_handleFeatures {st} (h : Same c0 c) : Same c0 (handleFeatures c st) := by cauto handleFeatures
theorem Same_doBind (h : Same c0 c) : Same c0 (doBind c) := by cauto doBind
theorem Same_smEnable (h : Same c0 c) : Same c0 (smEnable c) := by cauto smEnable
theorem Same_sessionStart (h : Same c0 c) : Same c0 (sessionStart c) := by cauto sessionStart
theorem Same_handleFeaturesSasl {st} (h : Same c0 c) : Same c0 (handleFeaturesSasl c st) := by cauto handleFeaturesSasl
theorem Same_compressionOffer {st} (h : Same c0 c) : Same c0 (compressionOffer c st) := by cauto compressionOffer
theorem Same_handleFeaturesCompress {st} (h : Same c0 c) : Same c0 (handleFeaturesCompress c st) := by
  cauto handleFeaturesCompress
theorem Same_handleSaslResult {st} (h : Same c0 c) : Same c0 (handleSaslResult c st) := by cauto handleSaslResult
theorem Same_smQueueResend (h : Same c0 c) : Same c0 (smQueueResend c) := by cauto smQueueResend
theorem Same_handleBind {st} (h : Same c0 c) : Same c0 (handleBind c st) := by cauto handleBind
theorem Same_handleSession {st} (h : Same c0 c) : Same c0 (handleSession c st) := by cauto handleSession
theorem Same_handleLegacy {st} (h : Same c0 c) : Same c0 (handleLegacy c st) := by cauto handleLegacy
theorem Same_handleError {st} (h : Same c0 c) : Same c0 (handleError c st) := by cauto handleError

/-- every system handler but the XEP-0198 one -/
theorem Same_runSys {k st} (h : Same c0 c) (hk : k ≠ .sm) : Same c0 (runSys c k st).1 := by
  unfold runSys
  cases k <;> first | exact absurd rfl hk | (dsimp only; ctrav)

theorem Same_runHandler {hd : Handler} {st} (h : Same c0 c) (hk : hd.fn ≠ .sys .sm) :
    Same c0 (runHandler c hd st).1 := by
  unfold runHandler
  split
  · rename_i k hk'
    exact Same_runSys h (fun e => hk (by rw [hk', e]))
  · exact Same_notify h

theorem Same_componentOpen (h : Same c0 c) : Same c0 (componentOpen c) := by cauto componentOpen
theorem Same_runOpenHandler (h : Same c0 c) : Same c0 (runOpenHandler c) := by cauto runOpenHandler
theorem Same_handleStreamStart {n id} (h : Same c0 c) : Same c0 (handleStreamStart c n id) := by
  cauto handleStreamStart
theorem Same_handleStreamEnd (h : Same c0 c) : Same c0 (handleStreamEnd c) := by cauto handleStreamEnd
theorem Same_runTimed {f} (h : Same c0 c) : Same c0 (runTimed c f).1 := by cauto runTimed
theorem Same_fireTimedOne {uid} (h : Same c0 c) : Same c0 (fireTimedOne c uid) := by cauto fireTimedOne
theorem Same_fireTimed (h : Same c0 c) : Same c0 (fireTimed c) := by cauto fireTimed
theorem Same_retire {e} (h : Same c0 c) : Same c0 (retire c e) := by cauto retire

theorem Same_writeElems (l : List QElem) : ∀ {c}, Same c0 c → Same c0 (writeElems c l) := by
  induction l with
  | nil => intro c h; exact h
  | cons e q ih =>
    intro c h
    unfold writeElems
    ctrav
    all_goals first | (apply ih; ctrav) | skip

theorem Same_writeLoop (h : Same c0 c) : Same c0 (writeLoop c) := Same_writeElems _ h
theorem Same_connEstablished (h : Same c0 c) : Same c0 (connEstablished c) := by cauto connEstablished
theorem Same_connReset (h : Same c0 c) : Same c0 (connReset c) := by cauto connReset
theorem Same_setFlags {f} (h : Same c0 c) : Same c0 (setFlags c f).1 := by cauto setFlags
theorem Same_connConnect {d t} (h : Same c0 c) : Same c0 (connConnect c d t).1 := by cauto connConnect
theorem Same_release (h : Same c0 c) : Same c0 (release c) := by cauto release
theorem Same_xmppSend {it} (h : Same c0 c) : Same c0 (xmppSend c it) := by cauto xmppSend
theorem Same_xmppSendRaw {it} (h : Same c0 c) : Same c0 (xmppSendRaw c it) := by cauto xmppSendRaw
theorem Same_xmppSendRawString {it} (h : Same c0 c) : Same c0 (xmppSendRawString c it) := by
  cauto xmppSendRawString

/-! ### the stages of `xmpp_run_once` around the reading of events -/

theorem Same_roW (h : Same c0 c) :
    Same c0 (if c.state = .connected then
      (if (writeLoop c).error ≠ 0 then connDisconnect { writeLoop c with error := eConnAborted } else writeLoop c)
      else c) := by
  ctrav

/-! ### the connect calls once the SM record exists -/

theorem Same_connectClient (hsm : c.hasSm = true) : Same c (connectClient c).1 := by
  unfold connectClient
  split
  · exact Same.refl c
  · split
    · exact Same.refl c
    · dsimp only
      try rw [if_pos hsm]
      exact Same_connConnect (Same.refl c)

theorem Same_connectComponent (hsm : c.hasSm = true) : Same c (connectComponent c).1 := by
  unfold connectComponent
  split
  · exact Same.refl c
  · have h1 : Same c (setFlags c (getFlags c ||| Gen.flagDisableTls)).1 := Same_setFlags (Same.refl c)
    generalize setFlags c (getFlags c ||| Gen.flagDisableTls) = r at h1
    obtain ⟨c1, rc⟩ := r
    dsimp only at h1 ⊢
    split
    · exact h1
    · try rw [if_pos (h1.2.2.trans hsm)]
      exact Same_connConnect h1

theorem Same_connectRaw (hsm : c.hasSm = true) : Same c (connectRaw c).1 := by
  unfold connectRaw
  split
  · exact Same.refl c
  · have h1 : Same c (connectClient { c with isRaw := true }).1 :=
      (show Same c { c with isRaw := true } from ⟨rfl, rfl, rfl⟩).trans (Same_connectClient hsm)
    generalize connectClient { c with isRaw := true } = r at h1
    obtain ⟨c1, rc⟩ := r
    dsimp only at h1 ⊢
    split
    · exact h1
    · exact h1

theorem count_carried_across' (c : Conn) (k : ConnectKind) (hsm : c.hasSm = true) :
    (connDisconnect c).sm.handledNr = c.sm.handledNr ∧ (step c (.connect k)).sm.handledNr = c.sm.handledNr := by
  refine ⟨(Same_connDisconnect (Same.refl c)).1, ?_⟩
  cases k
  · exact (Same_connectClient hsm).1
  · exact (Same_connectComponent hsm).1
  · exact (Same_connectRaw hsm).1

end Strophe.Lemmas.ConnC05
