/-
A small traversal tactic for invariants of the connection machine (a copy of ConnC13Tac.lean with more `rec` lemmas, used by Lemmas/ConnC04*.lean).

A goal `P … x` (`x : Conn` the LAST argument of the predicate `P`) is reduced by looking at the head
symbol of `x`:
  * `f …`           → `apply P_f'` if that exists, applies, and its equational side conditions are
                      closed by `rfl`/`assumption`/`decide`; else `apply P_f` (lemmas named after
                      predicate and function)
  * `if … then … else …` → both branches (`pred_ite`, no `split`: `split` runs `simp` on the whole goal)
  * a `match`       → `split`
  * `{ y with … }`  → `change P … y` when the updated fields do not matter to `P` (checked by
                      definitional unfolding), otherwise the lemmas `P_rec1 … P_rec12` are tried
  * a variable      → `assumption`, or, when it was bound by `let (x, _) := f …`, continue with
                      `(f …).1`
Side goals: `∀`/`→` are introduced, equations are closed by `rfl`/`assumption`, `≤` by `omega`,
`<` by `omega`/`decide`.
-/
import Lean
import Strophe.Model.ConnOps

namespace Strophe.Lemmas.ConnC04
open Strophe Strophe.Conn

theorem pred_ite {P : Conn → Prop} {p : Prop} [Decidable p] {x y : Conn} (h1 : p → P x) (h2 : ¬p → P y) :
    P (if p then x else y) := by
  split
  · exact h1 ‹_›
  · exact h2 ‹_›

theorem pred_ite_fst {P : Conn → Prop} {β} {p : Prop} [Decidable p] {x y : Conn × β}
    (h1 : p → P x.1) (h2 : ¬p → P y.1) : P (if p then x else y).1 := by
  split
  · exact h1 ‹_›
  · exact h2 ‹_›

theorem pred_of_eq_fst {P : Conn → Prop} {β} {p : Conn × β} {c1 : Conn} {b : β} (heq : p = (c1, b))
    (h : P p.1) : P c1 := by
  subst heq; exact h

theorem pred_foldl {P : Conn → Prop} {β} {f : Conn → β → Conn} (hf : ∀ c x, P c → P (f c x)) (l : List β) :
    ∀ {c}, P c → P (l.foldl f c) := by
  induction l with
  | nil => intro c h; exact h
  | cons x l ih => intro c h; exact ih (hf c x h)

open Lean Elab Tactic Meta in
elab "c4step" : tactic => withMainContext do
  let g ← getMainGoal
  let t := (← instantiateMVars (← g.getType)).consumeMData
  if t.isForall then
    evalTactic (← `(tactic| intro _))
    return
  if t.isEq then
    evalTactic (← `(tactic| first | rfl | assumption))
    return
  if t.isAppOfArity ``LE.le 4 then
    evalTactic (← `(tactic| first | omega | (dsimp only; omega)))
    return
  if t.isAppOfArity ``LT.lt 4 then
    evalTactic (← `(tactic| first | omega | decide))
    return
  let .const pname _ := t.getAppFn | throwError "c4step: not a predicate goal"
  let .str pns pshort := pname | throwError "c4step: anonymous predicate"
  unless t.getAppNumArgs ≥ 1 do throwError "c4step: no argument"
  unless (← isDefEq (← inferType t.appArg!) (mkConst `Strophe.Conn.Conn)) do
    throwError "c4step: the last argument is not a connection"
  let x := t.appArg!.consumeMData
  if x.isLet || (x.isAppOfArity ``Prod.fst 3 && x.appArg!.consumeMData.isLet) then
    evalTactic (← `(tactic| dsimp only))
    return
  let isFst := x.isAppOfArity ``Prod.fst 3
  let x := if isFst then
      let y := x.appArg!.consumeMData
      if y.isAppOf ``Prod.mk then x else y
    else x
  let lemOf (s : String) : Name := Name.str pns (pshort ++ "_" ++ s)
  match x.getAppFn with
  | .const n _ =>
    if n == ``ite then
      if isFst then evalTactic (← `(tactic| refine pred_ite_fst (fun _ => ?_) (fun _ => ?_)))
      else evalTactic (← `(tactic| refine pred_ite (fun _ => ?_) (fun _ => ?_)))
    else if n == ``dite || (← isMatcher n) then
      evalTactic (← `(tactic| split))
    else if n == ``Prod.fst then
      evalTactic (← `(tactic| dsimp only))
    else if n == ``List.foldl then
      evalTactic (← `(tactic| refine pred_foldl ?_ _ ?_))
    else if n == `Strophe.Conn.Conn.mk then
      -- a record update `{ y with … }`
      let some cr := x.getAppArgs.find? (·.consumeMData.isAppOfArity `Strophe.Conn.Conn.tcpErr 1)
        | throwError "c4step: cannot find the source of the record update"
      let y := cr.consumeMData.appArg!
      try
        let g' ← g.change (mkApp t.appFn! y)
        replaceMainGoal [g']
      catch _ =>
        for i in [1, 2, 3, 4, 5, 6, 7, 8, 9, 10, 11, 12] do
          let lem := lemOf s!"rec{i}"
          if (← getEnv).contains lem then
            try
              evalTactic (← `(tactic| apply $(mkIdent lem)))
              return
            catch _ => pure ()
        throwError "c4step: record update of relevant fields"
    else
      let short := match n with
        | .str _ s => s
        | _ => ""
      let lem := lemOf short
      let lem' := lemOf (short ++ "'")
      if (← getEnv).contains lem' then
        -- the primed lemma applies when its equational side conditions can be decided at once
        let s ← saveState
        let ok ← try
            let others ← (do let gs ← getGoals; pure gs.tail!)
            evalTactic (← `(tactic| apply $(mkIdent lem')))
            let gs ← getGoals
            let news := gs.filter fun g => !others.contains g
            let mut good := true
            let mut rest : List MVarId := []
            for g' in news do
              let ty := (← instantiateMVars (← g'.getType)).consumeMData
              if ty.isEq then
                setGoals [g']
                try
                  evalTactic (← `(tactic| first | rfl | assumption | decide))
                catch _ => good := false
              else rest := rest ++ [g']
            if good then setGoals (rest ++ others)
            pure good
          catch _ => pure false
        if ok then return
        s.restore
      if (← getEnv).contains lem then
        evalTactic (← `(tactic| apply $(mkIdent lem)))
      else throwError "c4step: no lemma {lem}"
  | .fvar fv =>
    try
      evalTactic (← `(tactic| assumption))
    catch _ =>
      for d in ← getLCtx do
        if d.isImplementationDetail then continue
        let ty := (← instantiateMVars d.type).consumeMData
        if ty.isEq then
          let rhs := ty.appArg!.consumeMData
          if rhs.isAppOfArity ``Prod.mk 4 && rhs.appFn!.appArg!.consumeMData == .fvar fv then
            evalTactic (← `(tactic| refine pred_of_eq_fst $(mkIdent d.userName) ?_))
            return
      throwError "c4step: no hypothesis for the variable"
  | _ => throwError "c4step: stuck"

macro "c4trav" : tactic => `(tactic| repeat' c4step)
macro "c4auto " f:ident : tactic => `(tactic| (unfold $f; (try dsimp only); c4trav))

end Strophe.Lemmas.ConnC04
