/-
The negotiation token, part 2: the functions that take the negotiation one step further
(from "nothing pending, stream management off" to "at most one thing pending").
-/
import Strophe.Lemmas.ConnC04Inv6

namespace Strophe.Lemmas.ConnC04
open Strophe Strophe.Conn

variable {c : Conn} {u ut : Option Nat}

theorem Tk_auth (k : Nat) : ∀ {c}, Tk u ut 0 c → Off c → Tk u ut 1 (auth c k) := by
  induction k with
  | zero => intro c h _; exact h.mono (Nat.zero_le _)
  | succ k ih =>
    intro c h ho
    have h1 : Tk u ut 1 c := h.mono (Nat.zero_le _)
    rw [auth]
    dsimp only
    c4trav
    all_goals first | (apply ih <;> c4trav) | skip

theorem Tk_authTop (h : Tk u ut 0 c) (ho : Off c) : Tk u ut 1 (authTop c) := Tk_auth _ h ho

theorem Tk_doBind (h : Tk u ut 0 c) (ho : Off c) : Tk u ut 1 (doBind c) := by
  c4auto doBind

theorem Tk_sessionStart (h : Tk u ut 0 c) (ho : Off c) : Tk u ut 1 (sessionStart c) := by
  c4auto sessionStart

/-- the record changes while nothing is pending -/
theorem Tk_rec8 {s' : SmState} {bj : Option Bytes} {g' : Ghost} (h : Tk u ut 0 c)
    (hs : s'.id.isSome = true → s'.enabled = true) :
    Tk u ut 0 { c with sm := s', boundJid := bj, g := g' } := by
  have hz := Nat.le_zero.1 h.le
  have h1 : cnt u c.handlers = 0 := by omega
  have h2 : cnt u c.idHandlers = 0 := by omega
  have h3 : frN c.resetParser c.pst = 0 := by omega
  refine ⟨h.le, fun _ => ⟨h3, ?_, h2⟩, h.mt, h.frp, fun hi => ⟨hs hi, hz⟩⟩
  intro x hx hp
  have := cnt_eq_zero.1 h1 x hx
  rw [this] at hp; cases hp

theorem Tk_handleSaslResult {st} (h : Tk u ut 0 c) (ho : Off c) : Tk u ut 1 (handleSaslResult c st) := by
  have h1 : Tk u ut 1 c := h.mono (Nat.zero_le _)
  c4auto handleSaslResult

/-- `_sm_enable`: the XEP-0198 handler is registered, then stream management is switched on -/
theorem Tk_smEnable (h : Tk u ut 0 c) (ho : Off c) : Tk u ut 1 (smEnable c) := by
  unfold smEnable triggerSmCallback
  dsimp only
  have hz := Nat.le_zero.1 h.le
  have h1 : cnt u c.handlers = 0 := by omega
  have h2 : cnt u c.idHandlers = 0 := by omega
  have h3 : frN c.resetParser c.pst = 0 := by omega
  have ha : Tk u ut 1 (addHandler c (.sys .sm) 0 (some Gen.nsSm) none none false) := Tk_addHandler h ho
  have hoa : Off (addHandler c (.sys .sm) 0 (some Gen.nsSm) none none false) := Off_addHandler ho
  have hs := sendStanza_same (addHandler c (.sys .sm) 0 (some Gen.nsSm) none none false)
    (.enable (!(addHandler c (.sys .sm) 0 (some Gen.nsSm) none none false).sm.dontRequestResume)) .smStrophe
  -- what the handler list looks like
  have hh : ∀ x ∈ (addHandler c (.sys .sm) 0 (some Gen.nsSm) none none false).handlers, tokP u x = true →
      x.fn = .sys .sm := by
    unfold addHandler
    split
    · intro x hx hp
      have := cnt_eq_zero.1 h1 x hx
      rw [this] at hp; cases hp
    · intro x hx hp
      rcases List.mem_append.1 hx with hx | hx
      · have := cnt_eq_zero.1 h1 x hx
        rw [this] at hp; cases hp
      · simp only [List.mem_singleton] at hx; subst hx; rfl
  have e2 : (addHandler c (.sys .sm) 0 (some Gen.nsSm) none none false).idHandlers = c.idHandlers := by
    unfold addHandler; split <;> rfl
  have e3 : (addHandler c (.sys .sm) 0 (some Gen.nsSm) none none false).resetParser = c.resetParser := by
    unfold addHandler; split <;> rfl
  have e4 : (addHandler c (.sys .sm) 0 (some Gen.nsSm) none none false).pst = c.pst := by
    unfold addHandler; split <;> rfl
  have hsend : Tk u ut 1 (sendStanza (addHandler c (.sys .sm) 0 (some Gen.nsSm) none none false)
      (.enable (!(addHandler c (.sys .sm) 0 (some Gen.nsSm) none none false).sm.dontRequestResume)) .smStrophe) :=
    Tk_sendStanza ha
  have hoff := Off_sendStanza (it := .enable (!(addHandler c (.sys .sm) 0 (some Gen.nsSm) none none false).sm.dontRequestResume))
    (o := .smStrophe) hoa
  refine ⟨hsend.le, fun _ => ⟨?_, ?_, ?_⟩, hsend.mt, hsend.frp, fun hi => ?_⟩
  · show frN (sendStanza _ _ _).resetParser (sendStanza _ _ _).pst = 0
    rw [hs.resetParser, hs.pst, e3, e4]; exact h3
  · show ∀ x ∈ (sendStanza _ _ _).handlers, _
    rw [hs.handlers]; exact hh
  · show cnt u (sendStanza _ _ _).idHandlers = 0
    rw [hs.idHandlers, e2]; exact h2
  · have : (sendStanza (addHandler c (.sys .sm) 0 (some Gen.nsSm) none none false)
      (.enable (!(addHandler c (.sys .sm) 0 (some Gen.nsSm) none none false).sm.dontRequestResume)) .smStrophe).sm.id.isSome = true := hi
    rw [hoff.2] at this; cases this

theorem Tk_handleFeaturesSasl {st} (h : Tk u ut 0 c) (ho : Off c) : Tk u ut 1 (handleFeaturesSasl c st) := by
  have h1 : Tk u ut 1 c := h.mono (Nat.zero_le _)
  c4auto handleFeaturesSasl

theorem Tk_handleFeaturesCompress {st} (h : Tk u ut 0 c) (ho : Off c) : Tk u ut 1 (handleFeaturesCompress c st) := by
  have h1 : Tk u ut 1 c := h.mono (Nat.zero_le _)
  c4auto handleFeaturesCompress

/-- `_handle_features` after the `missingFeatures` timer was deleted -/
def hf2 (c0 : Conn) (st : XTree) : Conn :=
  let c1 :=
    if !c0.secured then
      if !c0.tlsDisabled then
        if (st.childByNameNs (b "starttls") Gen.nsTls).isSome then { c0 with tlsSupport := true } else c0
      else { c0 with tlsSupport := false }
    else c0
  let c2 := match st.childByNameNs (b "mechanisms") Gen.nsSasl with
    | some m => (childTexts m (b "mechanism")).foldl saslChild c1
    | none => c1
  let keep := Gen.saslMaskPlain ||| Gen.saslMaskAnonymous
  let c3 := if c2.saslSupport &&& (keep ^^^ 0xFFFF) ≠ 0
    then { c2 with saslSupport := c2.saslSupport &&& (Gen.saslMaskPlain ^^^ 0xFFFF) } else c2
  authTop c3

theorem handleFeatures_eq (c : Conn) (st : XTree) :
    handleFeatures c st = hf2 (delTimed (noteOffers c st) .missingFeatures) st := rfl

theorem Tk_hf2 {st} (h : Tk u ut 0 c) (ho : Off c) : Tk u ut 1 (hf2 c st) := by
  c4auto hf2

theorem Tk_hsmTail {hb wr} (h : Tk u ut 0 c) (ho : Off c) : Tk u ut 1 (hsmTail c hb wr) := by
  have h1 : Tk u ut 1 c := h.mono (Nat.zero_le _)
  c4auto hsmTail

/-- `_handle_sm`: run as the one pending thing, with no session id held -/
theorem Tk_handleSm {st} (h : Tk u ut 0 c) (hid : c.sm.id = none) : Tk u ut 1 (handleSm c st) := by
  refine handleSm_cases (Tk u ut 1) c st ?_ ?_ ?_ ?_
  · intro s' _ hk
    refine (Tk_rec8 (c := c) (s' := s') (bj := c.boundJid) (g' := c.g) h ?_).mono (Nat.zero_le _)
    intro hi; rw [hk.id, hid] at hi; cases hi
  · intro _ _ s' hk
    apply Tk_negotiationSuccess
    apply Tk_smQueueResend
    exact (Tk_rec8 (c := c) (s' := s') (bj := c.boundJid) (g' := c.g) h (fun _ => hk.enabled)).mono (Nat.zero_le _)
  · intro ours v _ _ _
    apply Tk_negotiationSuccess
    apply Tk_smQueueResend
    exact (Tk_rec8 (c := c) h (fun _ => rfl)).mono (Nat.zero_le _)
  · intro s' hk _ hb wr _
    refine Tk_hsmTail (c := { c with sm := s' }) (Tk_rec8 (c := c) (s' := s') (bj := c.boundJid) (g' := c.g) h ?_)
      ⟨hk.enabled, hk.id⟩
    intro hi; rw [hk.id] at hi; cases hi

theorem Tk_handleBind {st} (h : Tk u ut 0 c) (ho : Off c) : Tk u ut 1 (handleBind c st) := by
  have h1 : Tk u ut 1 c := h.mono (Nat.zero_le _)
  c4auto handleBind

theorem Tk_handleSession {st} (h : Tk u ut 0 c) (ho : Off c) : Tk u ut 1 (handleSession c st) := by
  have h1 : Tk u ut 1 c := h.mono (Nat.zero_le _)
  c4auto handleSession

end Strophe.Lemmas.ConnC04
