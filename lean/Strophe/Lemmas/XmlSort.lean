/-
`Spec/Xml.lean` treats attributes as a set by sorting them by name.  These lemmas show that this is a
canonical form: `bytesLt` is a strict total order, `sortAttrs` of a list with distinct names is strictly
sorted and has the same elements, and a strictly sorted list is determined by its elements
(`sortAttrs_congr`).  Used by Lemmas/StanzaRead.lean and Props/C09.lean.
-/
import Strophe.Spec.Xml
set_option linter.unusedSimpArgs false
namespace Strophe.Spec.Xml

/-! ### `bytesLt` is a strict total order -/

theorem bytesLt_irrefl : ∀ a : Bytes, bytesLt a a = false
  | [] => rfl
  | x :: a => by simp [bytesLt, bytesLt_irrefl a, UInt8.lt_irrefl]

theorem u8_lt_asymm {a b : UInt8} (h : a < b) : ¬ b < a := by
  rw [UInt8.lt_iff_toNat_lt] at *; omega

theorem u8_lt_trans {a b c : UInt8} (h1 : a < b) (h2 : b < c) : a < c := by
  rw [UInt8.lt_iff_toNat_lt] at *; omega

theorem u8_trichotomy (a b : UInt8) : a < b ∨ a = b ∨ b < a := by
  rw [UInt8.lt_iff_toNat_lt, UInt8.lt_iff_toNat_lt, ← UInt8.toNat_inj]; omega

theorem bytesLt_cons (x y : UInt8) (a b : Bytes) :
    bytesLt (x :: a) (y :: b) = true ↔ x < y ∨ (x = y ∧ bytesLt a b = true) := by
  simp [bytesLt]

theorem bytesLt_asymm : ∀ a b : Bytes, bytesLt a b = true → bytesLt b a = false
  | [], [], h => by simp [bytesLt] at h
  | [], _ :: _, _ => by simp [bytesLt]
  | _ :: _, [], h => by simp [bytesLt] at h
  | x :: a, y :: b, h => by
    rw [bytesLt_cons] at h
    rw [Bool.eq_false_iff]
    intro h2
    rw [bytesLt_cons] at h2
    rcases h with h | ⟨rfl, h⟩
    · rcases h2 with h2 | ⟨rfl, _⟩
      · exact u8_lt_asymm h h2
      · exact UInt8.lt_irrefl _ h
    · rcases h2 with h2 | ⟨_, h2⟩
      · exact UInt8.lt_irrefl _ h2
      · rw [bytesLt_asymm a b h] at h2; cases h2

theorem bytesLt_trans : ∀ a b c : Bytes, bytesLt a b = true → bytesLt b c = true → bytesLt a c = true
  | [], [], _, h, _ => by simp [bytesLt] at h
  | [], _ :: _, [], _, h => by simp [bytesLt] at h
  | [], _ :: _, _ :: _, _, _ => by simp [bytesLt]
  | _ :: _, [], _, h, _ => by simp [bytesLt] at h
  | _ :: _, _ :: _, [], _, h => by simp [bytesLt] at h
  | x :: a, y :: b, z :: c, h1, h2 => by
    rw [bytesLt_cons] at h1 h2 ⊢
    rcases h1 with h1 | ⟨rfl, h1⟩
    · rcases h2 with h2 | ⟨rfl, _⟩
      · exact Or.inl (u8_lt_trans h1 h2)
      · exact Or.inl h1
    · rcases h2 with h2 | ⟨rfl, h2⟩
      · exact Or.inl h2
      · exact Or.inr ⟨rfl, bytesLt_trans a b c h1 h2⟩

theorem bytesLt_total : ∀ a b : Bytes, bytesLt a b = true ∨ a = b ∨ bytesLt b a = true
  | [], [] => Or.inr (Or.inl rfl)
  | [], _ :: _ => Or.inl (by simp [bytesLt])
  | _ :: _, [] => Or.inr (Or.inr (by simp [bytesLt]))
  | x :: a, y :: b => by
    rcases u8_trichotomy x y with h | rfl | h
    · exact Or.inl ((bytesLt_cons ..).2 (Or.inl h))
    · rcases bytesLt_total a b with h | rfl | h
      · exact Or.inl ((bytesLt_cons ..).2 (Or.inr ⟨rfl, h⟩))
      · exact Or.inr (Or.inl rfl)
      · exact Or.inr (Or.inr ((bytesLt_cons ..).2 (Or.inr ⟨rfl, h⟩)))
    · exact Or.inr (Or.inr ((bytesLt_cons ..).2 (Or.inl h)))

/-! ### `sortAttrs` yields the strictly key-sorted arrangement of a list with distinct keys -/

abbrev Attr := Bytes × Bytes

/-- strictly increasing keys -/
def KeySorted (l : List Attr) : Prop := l.Pairwise fun a b => bytesLt a.1 b.1 = true

theorem mem_insertAttr (a x : Attr) : ∀ l : List Attr, x ∈ insertAttr a l ↔ x = a ∨ x ∈ l
  | [] => by simp [insertAttr]
  | b :: r => by
    by_cases h : bytesLt b.1 a.1 = true
    · simp only [insertAttr, h, if_true, List.mem_cons, mem_insertAttr a x r]
      constructor
      · rintro (h | h | h)
        · exact Or.inr (Or.inl h)
        · exact Or.inl h
        · exact Or.inr (Or.inr h)
      · rintro (h | h | h)
        · exact Or.inr (Or.inl h)
        · exact Or.inl h
        · exact Or.inr (Or.inr h)
    · simp [insertAttr, h]

theorem mem_sortAttrs (x : Attr) : ∀ l : List Attr, x ∈ sortAttrs l ↔ x ∈ l
  | [] => by simp [sortAttrs]
  | a :: l => by
    have ih := mem_sortAttrs x l
    simp only [sortAttrs, List.foldr_cons] at ih ⊢
    rw [mem_insertAttr, ih]; simp

theorem keySorted_insert (a : Attr) : ∀ l : List Attr, KeySorted l → (∀ b ∈ l, b.1 ≠ a.1) → KeySorted (insertAttr a l)
  | [], _, _ => by simp [insertAttr, KeySorted]
  | b :: r, hs, hne => by
    have hs' := hs
    simp only [KeySorted, List.pairwise_cons] at hs
    by_cases h : bytesLt b.1 a.1 = true
    · simp only [insertAttr, h, if_true, KeySorted, List.pairwise_cons]
      refine ⟨?_, keySorted_insert a r hs.2 (fun c hc => hne c (List.mem_cons_of_mem _ hc))⟩
      intro c hc
      rcases (mem_insertAttr a c r).1 hc with rfl | hc
      · exact h
      · exact hs.1 c hc
    · have hf : bytesLt b.1 a.1 = false := by simpa using h
      simp only [insertAttr, hf, Bool.false_eq_true, if_false, KeySorted, List.pairwise_cons]
      have hab : bytesLt a.1 b.1 = true := by
        rcases bytesLt_total a.1 b.1 with h' | h' | h'
        · exact h'
        · exact absurd h'.symm (hne b (List.mem_cons_self ..))
        · exact absurd h' h
      refine ⟨?_, hs⟩
      intro c hc
      rcases List.mem_cons.1 hc with rfl | hc
      · exact hab
      · exact bytesLt_trans _ _ _ hab (hs.1 c hc)

theorem keySorted_sortAttrs : ∀ l : List Attr, (l.map Prod.fst).Nodup → KeySorted (sortAttrs l)
  | [], _ => by simp [sortAttrs, KeySorted]
  | a :: l, h => by
    simp only [List.map_cons, List.nodup_cons] at h
    have ih := keySorted_sortAttrs l h.2
    simp only [sortAttrs, List.foldr_cons] at ih ⊢
    apply keySorted_insert a _ ih
    intro b hb e
    have : b ∈ l := (mem_sortAttrs b l).1 hb
    exact h.1 (e ▸ List.mem_map_of_mem (f := Prod.fst) this)

/-- a strictly key-sorted list is determined by its elements -/
theorem keySorted_ext : ∀ l1 l2 : List Attr, KeySorted l1 → KeySorted l2 → (∀ x, x ∈ l1 ↔ x ∈ l2) → l1 = l2
  | [], [], _, _, _ => rfl
  | [], b :: _, _, _, h => by have := (h b).2 (List.mem_cons_self ..); simp at this
  | a :: _, [], _, _, h => by have := (h a).1 (List.mem_cons_self ..); simp at this
  | a :: l1, b :: l2, h1, h2, h => by
    simp only [KeySorted, List.pairwise_cons] at h1 h2
    have hab : a = b := by
      rcases List.mem_cons.1 ((h a).1 (List.mem_cons_self ..)) with e | ha
      · exact e
      · rcases List.mem_cons.1 ((h b).2 (List.mem_cons_self ..)) with e | hb
        · exact e.symm
        · have x1 := h2.1 a ha
          have x2 := h1.1 b hb
          rw [bytesLt_asymm _ _ x1] at x2; cases x2
    subst hab
    congr 1
    apply keySorted_ext l1 l2 h1.2 h2.2
    intro x
    have hx1 : x ∈ l1 → x ≠ a := fun hx e => by
      have := h1.1 x hx; rw [e, bytesLt_irrefl] at this; cases this
    have hx2 : x ∈ l2 → x ≠ a := fun hx e => by
      have := h2.1 x hx; rw [e, bytesLt_irrefl] at this; cases this
    constructor
    · intro hx
      rcases List.mem_cons.1 ((h x).1 (List.mem_cons_of_mem _ hx)) with e | hx'
      · exact absurd e (hx1 hx)
      · exact hx'
    · intro hx
      rcases List.mem_cons.1 ((h x).2 (List.mem_cons_of_mem _ hx)) with e | hx'
      · exact absurd e (hx2 hx)
      · exact hx'

/-- attributes are a set: two lists with distinct names and the same (name, value) pairs sort to the same list -/
theorem sortAttrs_congr (l1 l2 : List Attr) (h1 : (l1.map Prod.fst).Nodup) (h2 : (l2.map Prod.fst).Nodup)
    (h : ∀ x, x ∈ l1 ↔ x ∈ l2) : sortAttrs l1 = sortAttrs l2 :=
  keySorted_ext _ _ (keySorted_sortAttrs l1 h1) (keySorted_sortAttrs l2 h2)
    (fun x => by rw [mem_sortAttrs, mem_sortAttrs, h x])

end Strophe.Spec.Xml
