/-
Frame lemmas for the connection machine (which fields the primitive transitions leave alone),
used by the C02 proofs.
-/
import Strophe.Model.ConnOps

namespace Strophe.Lemmas.ConnC02
open Strophe Strophe.Conn

@[simp] theorem triggerSmCallback_eq (c : Conn) : triggerSmCallback c = c := rfl

syntax "same_cfg[" term "," term "]" : term
syntax "same_tls[" term "," term "]" : term
syntax "same_neg[" term "," term "]" : term
syntax "same_io[" term "," term "]" : term
syntax "same_h[" term "," term "]" : term
syntax "same_sm[" term "," term "]" : term
syntax "same_p[" term "," term "]" : term
syntax "same_t[" term "," term "]" : term
macro_rules
  | `(same_t[$c, $d]) => `(($d).timed = ($c).timed)
  | `(same_p[$c, $d]) => `(($d).resetParser = ($c).resetParser ∧ ($d).pst = ($c).pst)
  | `(same_cfg[$c, $d]) => `(($d).tlsMandatory = ($c).tlsMandatory ∧ ($d).tlsDisabled = ($c).tlsDisabled ∧
      ($d).authLegacy = ($c).authLegacy ∧ ($d).ctype = ($c).ctype ∧ ($d).cert = ($c).cert)
  | `(same_tls[$c, $d]) => `(($d).state = ($c).state ∧ ($d).hasTls = ($c).hasTls ∧
      ($d).secured = ($c).secured ∧ ($d).tlsFailed = ($c).tlsFailed)
  | `(same_neg[$c, $d]) => `(($d).tlsSupport = ($c).tlsSupport ∧ ($d).saslSupport = ($c).saslSupport ∧
      ($d).g.offeredMechs = ($c).g.offeredMechs)
  | `(same_io[$c, $d]) => `(($d).queue = ($c).queue ∧ ($d).tx = ($c).tx)
  | `(same_h[$c, $d]) => `(($d).handlers = ($c).handlers ∧ ($d).idHandlers = ($c).idHandlers ∧
      ($d).openHandler = ($c).openHandler)
  | `(same_sm[$c, $d]) => `(($d).sm.enabled = ($c).sm.enabled ∧ ($d).sm.queue = ($c).sm.queue)

/-! ### handler bookkeeping -/

/-- every tracked field except the handler lists and the queue -/
syntax "same_core[" term "," term "]" : term
macro_rules
  | `(same_core[$c, $d]) => `(same_cfg[$c, $d] ∧ same_tls[$c, $d] ∧ same_neg[$c, $d] ∧ same_sm[$c, $d] ∧
      same_p[$c, $d] ∧ ($d).tx = ($c).tx)

@[simp] theorem addTimed_frame (c : Conn) (fn : TFun) (p : Nat) (u : Bool) :
    same_core[c, addTimed c fn p u] ∧ same_h[c, addTimed c fn p u] ∧ (addTimed c fn p u).queue = c.queue := by
  unfold addTimed; split <;> simp

theorem mem_addTimed {c : Conn} {fn : TFun} {p : Nat} {u : Bool} {t : Timed}
    (hm : t ∈ (addTimed c fn p u).timed) :
    t ∈ c.timed ∨ (t.fn = fn ∧ t.uid = c.nextUid ∧ t.user = u ∧ c.timed.any (fun t => t.fn = fn) = false) := by
  unfold addTimed at hm
  split at hm
  · exact .inl hm
  · rename_i hn
    simp only [List.mem_cons] at hm
    rcases hm with hm | hm
    · exact .inr (by subst hm; exact ⟨rfl, rfl, rfl, by simpa using hn⟩)
    · exact .inl hm

@[simp] theorem delTimed_frame (c : Conn) (fn : TFun) :
    same_core[c, delTimed c fn] ∧ same_h[c, delTimed c fn] ∧ (delTimed c fn).queue = c.queue ∧
    (delTimed c fn).timed = c.timed.filter (·.fn ≠ fn) := by
  simp [delTimed]

@[simp] theorem resetTimed_frame (c : Conn) :
    same_core[c, resetTimed c] ∧ same_h[c, resetTimed c] ∧ (resetTimed c).queue = c.queue ∧
    (resetTimed c).timed = c.timed.map (fun t => { t with lastStamp := c.now }) := by
  simp [resetTimed]

@[simp] theorem notify_frame (c : Conn) (e : Ev) :
    same_core[c, notify c e] ∧ same_h[c, notify c e] ∧ (notify c e).queue = c.queue ∧ same_t[c, notify c e] := by
  unfold notify; cases e <;> simp

@[simp] theorem prepareReset_frame (c : Conn) (oh : OpenH) :
    same_cfg[c, prepareReset c oh] ∧ same_tls[c, prepareReset c oh] ∧ same_neg[c, prepareReset c oh] ∧
    same_io[c, prepareReset c oh] ∧ same_sm[c, prepareReset c oh] ∧ same_t[c, prepareReset c oh] ∧
    (prepareReset c oh).handlers = c.handlers ∧ (prepareReset c oh).idHandlers = c.idHandlers ∧
    (prepareReset c oh).openHandler = oh ∧ (prepareReset c oh).resetParser = true ∧
    (prepareReset c oh).pst = c.pst := by
  simp [prepareReset]

/-- the handler `addHandler` appends when there is no duplicate -/
def newHandler (c : Conn) (fn : HFun) (ud : Nat) (ns name type : Option Bytes) (user : Bool) : Handler :=
  { uid := c.nextUid, fn := fn, ud := ud, ns := ns, name := name, type := type, user := user }

@[simp] theorem newHandler_proj (c : Conn) (fn : HFun) (ud : Nat) (ns name type : Option Bytes) (user : Bool) :
    (newHandler c fn ud ns name type user).fn = fn ∧ (newHandler c fn ud ns name type user).ud = ud ∧
    (newHandler c fn ud ns name type user).user = user := by
  simp [newHandler]

theorem addHandler_handlers (c : Conn) (fn : HFun) (ud : Nat) (ns name type : Option Bytes) (user : Bool) :
    (addHandler c fn ud ns name type user).handlers =
      if c.handlers.any (fun h => h.fn = fn ∧ h.ud = ud) then c.handlers
      else c.handlers ++ [newHandler c fn ud ns name type user] := by
  unfold addHandler newHandler; split <;> simp

@[simp] theorem addHandler_frame (c : Conn) (fn : HFun) (ud : Nat) (ns name type : Option Bytes) (user : Bool) :
    same_core[c, addHandler c fn ud ns name type user] ∧ same_t[c, addHandler c fn ud ns name type user] ∧
    (addHandler c fn ud ns name type user).queue = c.queue ∧
    (addHandler c fn ud ns name type user).idHandlers = c.idHandlers ∧
    (addHandler c fn ud ns name type user).openHandler = c.openHandler := by
  unfold addHandler; split <;> simp

theorem mem_addHandler {c : Conn} {fn : HFun} {ud : Nat} {ns name type : Option Bytes} {user : Bool}
    {h : Handler} (hm : h ∈ (addHandler c fn ud ns name type user).handlers) :
    h ∈ c.handlers ∨ (h = newHandler c fn ud ns name type user ∧
      c.handlers.any (fun h => h.fn = fn ∧ h.ud = ud) = false) := by
  rw [addHandler_handlers] at hm
  split at hm
  · exact .inl hm
  · rename_i hn
    simp only [List.mem_append, List.mem_singleton] at hm
    rcases hm with hm | hm
    · exact .inl hm
    · exact .inr ⟨hm, by simpa using hn⟩

@[simp] theorem addIdHandler_frame (c : Conn) (fn : HFun) (id : Bytes) (user : Bool) :
    same_core[c, addIdHandler c fn id user] ∧ same_t[c, addIdHandler c fn id user] ∧
    (addIdHandler c fn id user).queue = c.queue ∧
    (addIdHandler c fn id user).handlers = c.handlers ∧
    (addIdHandler c fn id user).openHandler = c.openHandler := by
  unfold addIdHandler; split <;> simp

theorem mem_addIdHandler {c : Conn} {fn : HFun} {id : Bytes} {user : Bool}
    {h : Handler} (hm : h ∈ (addIdHandler c fn id user).idHandlers) :
    h ∈ c.idHandlers ∨ (h.fn = fn ∧ h.user = user) := by
  unfold addIdHandler at hm
  split at hm
  · exact .inl hm
  · simp only [List.mem_append, List.mem_singleton] at hm
    rcases hm with hm | hm
    · exact .inl hm
    · exact .inr (by simp [hm])

/-! ### disconnect -/

@[simp] theorem resetSmForReconnect_frame (c : Conn) :
    same_cfg[c, resetSmForReconnect c] ∧ same_tls[c, resetSmForReconnect c] ∧
    same_neg[c, resetSmForReconnect c] ∧ same_io[c, resetSmForReconnect c] ∧
    same_h[c, resetSmForReconnect c] ∧ same_p[c, resetSmForReconnect c] ∧ same_t[c, resetSmForReconnect c] ∧
    (resetSmForReconnect c).sm.enabled = false ∧ (resetSmForReconnect c).sm.queue = c.sm.queue := by
  by_cases h : c.sm.canResume = true <;> simp [resetSmForReconnect, h]

theorem connDisconnect_eq (c : Conn) : connDisconnect c =
    if c.state = .disconnected then c else
      notify (resetSmForReconnect { c with state := .disconnected, negotiated := false, hasTls := false, isRaw := false })
        (.disconnect c.error (c.streamError.map (·.1)) (c.streamError.bind (·.2))) := by
  unfold connDisconnect
  split
  · rfl
  · rfl

@[simp] theorem connDisconnect_frame (c : Conn) :
    same_cfg[c, connDisconnect c] ∧ same_neg[c, connDisconnect c] ∧ same_io[c, connDisconnect c] ∧
    same_h[c, connDisconnect c] ∧ same_p[c, connDisconnect c] ∧ same_t[c, connDisconnect c] ∧
    (connDisconnect c).sm.queue = c.sm.queue ∧
    (connDisconnect c).secured = c.secured ∧ (connDisconnect c).tlsFailed = c.tlsFailed ∧
    (connDisconnect c).state = .disconnected := by
  rw [connDisconnect_eq]; split <;> simp [*]

theorem connDisconnect_of_disconnected {c : Conn} (h : c.state = .disconnected) : connDisconnect c = c := by
  simp [connDisconnect, h]

theorem connDisconnect_enabled {c : Conn} (h : c.state ≠ .disconnected) : (connDisconnect c).sm.enabled = false := by
  rw [connDisconnect_eq]; simp [h]

/-! ### sending -/

/-- the owner `pushRaw` records -/
def ownerOf (c : Conn) (o : Owner) : Owner := if o = .strophe && !c.sm.enabled then .smStrophe else o

def qelem (c : Conn) (it : Item) (o : Owner) (s : Snap) : QElem :=
  { item := it, owner := ownerOf c o, uid := c.nextUid, snap := s }

def reqElem (c : Conn) (s : Snap) : QElem :=
  { item := .req, owner := .smStrophe, linked := true, uid := c.nextUid + 1, snap := s }

theorem pushRawWith_eq (c : Conn) (it : Item) (o : Owner) (s : Snap) : pushRawWith c it o s =
    if !(ownerOf c o).smBit && c.sm.enabled && !c.sm.rSent then
      if c.state = .connected then
        { c with queue := (c.queue ++ [qelem c it o s]) ++ [reqElem c s], nextUid := c.nextUid + 1 + 1,
                 sm := { c.sm with rSent := true } }
      else { c with queue := c.queue ++ [qelem c it o s], nextUid := c.nextUid + 1, sm := { c.sm with rSent := true } }
    else { c with queue := c.queue ++ [qelem c it o s], nextUid := c.nextUid + 1 } := by
  rfl

@[simp] theorem pushRawWith_frame (c : Conn) (it : Item) (o : Owner) (s : Snap) :
    same_core[c, pushRawWith c it o s] ∧ same_h[c, pushRawWith c it o s] ∧ same_t[c, pushRawWith c it o s] := by
  rw [pushRawWith_eq]
  split
  · split <;> simp
  · simp

theorem mem_pushRawWith {c : Conn} {it : Item} {o : Owner} {s : Snap} {e : QElem}
    (hm : e ∈ (pushRawWith c it o s).queue) :
    e ∈ c.queue ∨ (e.snap = s ∧
      ((e.item = it ∧ e.owner = ownerOf c o) ∨ (e.item = .req ∧ e.owner = .smStrophe))) := by
  rw [pushRawWith_eq] at hm
  split at hm
  · split at hm
    · simp only [List.mem_append, List.mem_singleton] at hm
      rcases hm with (hm | hm) | hm
      · exact .inl hm
      · subst hm; exact .inr ⟨rfl, .inl ⟨rfl, rfl⟩⟩
      · subst hm; exact .inr ⟨rfl, .inr ⟨rfl, rfl⟩⟩
    · simp only [List.mem_append, List.mem_singleton] at hm
      rcases hm with hm | hm
      · exact .inl hm
      · subst hm; exact .inr ⟨rfl, .inl ⟨rfl, rfl⟩⟩
  · simp only [List.mem_append, List.mem_singleton] at hm
    rcases hm with hm | hm
    · exact .inl hm
    · subst hm; exact .inr ⟨rfl, .inl ⟨rfl, rfl⟩⟩

theorem pushRaw_eq (c : Conn) (it : Item) (o : Owner) : pushRaw c it o = pushRawWith c it o (curSnap c) := rfl

@[simp] theorem pushRaw_frame (c : Conn) (it : Item) (o : Owner) :
    same_core[c, pushRaw c it o] ∧ same_h[c, pushRaw c it o] ∧ same_t[c, pushRaw c it o] := by
  rw [pushRaw_eq]; exact pushRawWith_frame ..

theorem sendStanza_eq (c : Conn) (it : Item) (o : Owner) :
    sendStanza c it o = if isConnectedFor c o then pushRaw c it o else c := rfl
theorem sendRaw_eq (c : Conn) (it : Item) (o : Owner) :
    sendRaw c it o = if c.state = .connected then pushRaw c it o else c := rfl
theorem sendRawString_eq (c : Conn) (it : Item) :
    sendRawString c it = if c.state = .connected then pushRaw c it .smStrophe else c := rfl

@[simp] theorem sendStanza_frame (c : Conn) (it : Item) (o : Owner) :
    same_core[c, sendStanza c it o] ∧ same_h[c, sendStanza c it o] ∧ same_t[c, sendStanza c it o] := by
  rw [sendStanza_eq]; split <;> simp

@[simp] theorem sendRaw_frame (c : Conn) (it : Item) (o : Owner) :
    same_core[c, sendRaw c it o] ∧ same_h[c, sendRaw c it o] ∧ same_t[c, sendRaw c it o] := by
  rw [sendRaw_eq]; split <;> simp

@[simp] theorem sendRawString_frame (c : Conn) (it : Item) :
    same_core[c, sendRawString c it] ∧ same_h[c, sendRawString c it] ∧ same_t[c, sendRawString c it] := by
  rw [sendRawString_eq]; split <;> simp

@[simp] theorem connOpenStream_frame (c : Conn) :
    same_core[c, connOpenStream c] ∧ same_h[c, connOpenStream c] ∧ same_t[c, connOpenStream c] := by
  simp [connOpenStream]

theorem negotiationSuccess_eq (c : Conn) : negotiationSuccess c =
    if (notify { c with negotiated := true } .connect).sendOnConnect then
      sendStanza (notify { c with negotiated := true } .connect) (.user (b "presence") (some (b "oc"))) .user
    else notify { c with negotiated := true } .connect := rfl

@[simp] theorem negotiationSuccess_frame (c : Conn) :
    same_core[c, negotiationSuccess c] ∧ same_h[c, negotiationSuccess c] ∧ same_t[c, negotiationSuccess c] := by
  rw [negotiationSuccess_eq]; split <;> simp

end Strophe.Lemmas.ConnC02
