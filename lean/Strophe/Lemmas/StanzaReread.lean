/-
Lemmas about re-reading: the trees the reader of `Spec/Xml.lean` produces from renderings (`XWf`), what
parser_expat.c (model `ofXNode`) builds from them and what that denotes (`canon_ofXNode`),
`xmpp_stanza_new_from_string` on the library's own output (`fromString_render`, `reread_agrees`), and the
canonical tree of a copy (`copy_canon`).  Used by Props/C09.lean.
-/
import Strophe.Lemmas.XmlParse
import Strophe.Lemmas.XmlSort
import Strophe.Lemmas.StanzaOps
set_option linter.unusedSimpArgs false
namespace Strophe.Stanza
open Strophe.HashTab Strophe.Spec.Xml

/-! ### shape of the trees the reader produces -/

def notText : List XNode → Prop
  | .text _ :: _ => False
  | _ => True

/-- no empty text node, no two adjacent text nodes -/
def Merged : List XNode → Prop
  | [] => True
  | .text s :: r => s ≠ [] ∧ notText r ∧ Merged r
  | .elem _ _ _ _ :: r => Merged r

mutual
def XWf (scope : Option Bytes) : XNode → Prop
  | .elem ns _ attrs kids =>
    (attrs.map Prod.fst).Nodup ∧ xmlnsKey ∉ attrs.map Prod.fst ∧ ns ≠ some [] ∧ (ns = none → scope = none) ∧
      Merged kids ∧ XWfKids ns kids
  | .text _ => True
def XWfKids (scope : Option Bytes) : List XNode → Prop
  | [] => True
  | x :: xs => XWf scope x ∧ XWfKids scope xs
end

theorem merged_consNode (x : XNode) (r : List XNode) (h : Merged r) : Merged (consNode x r) := by
  cases x with
  | elem ns n a k => simpa [consNode, Merged] using h
  | text s =>
    simp only [consNode, consText]
    by_cases hs : s = []
    · simpa [hs] using h
    · simp only [hs, if_false]
      cases r with
      | nil => simp [Merged, notText, hs]
      | cons y r' =>
        cases y with
        | elem ns n a k => simp only [Merged, notText] at h ⊢; exact ⟨hs, trivial, h⟩
        | text s' =>
          simp only [Merged] at h ⊢
          exact ⟨by simp [hs], h.2.1, h.2.2⟩

theorem xwfKids_consNode (scope : Option Bytes) (x : XNode) (r : List XNode) (hx : XWf scope x)
    (h : XWfKids scope r) : XWfKids scope (consNode x r) := by
  cases x with
  | elem ns n a k => simp only [consNode, XWfKids]; exact ⟨hx, h⟩
  | text s =>
    simp only [consNode, consText]
    by_cases hs : s = []
    · simpa [hs] using h
    · simp only [hs, if_false]
      cases r with
      | nil => simp [XWfKids, XWf]
      | cons y r' =>
        cases y with
        | elem ns n a k => simp only [XWfKids, XWf] at h ⊢; exact ⟨trivial, h⟩
        | text s' => simp only [XWfKids, XWf] at h ⊢; exact ⟨trivial, h.2⟩

theorem nsOfDecl_ne (v : Bytes) : nsOfDecl v ≠ some [] := by
  unfold nsOfDecl
  by_cases h : v = [] <;> simp [h]

theorem scopeOf_ne (scope : Option Bytes) (A : List Entry) (h : scope ≠ some []) : scopeOf scope A ≠ some [] := by
  unfold scopeOf
  cases A.lookup xmlnsName with
  | none => exact h
  | some v => exact nsOfDecl_ne v

theorem plainAttrs_keys (attrs : Option HashTab) (hw : ∀ tab, attrs = some tab → HashTab.WF tab) :
    ((plainAttrs attrs).map Prod.fst).Nodup ∧ xmlnsKey ∉ (plainAttrs attrs).map Prod.fst := by
  cases attrs with
  | none => simp [plainAttrs]
  | some tab =>
    constructor
    · exact ((List.filter_sublist (l := tab.toList)).map Prod.fst).nodup (HashTab.keys_nodup (hw tab rfl))
    · intro hm
      obtain ⟨e, he, hk⟩ := List.mem_map.1 hm
      simp only [plainAttrs, List.mem_filter, decide_eq_true_eq] at he
      exact he.2 hk

mutual
theorem xwf_canonRawR : ∀ (t : Tree) (par : Option (Option HashTab)) (scope : Option Bytes),
    WfTree t → scope ≠ some [] → NoUndecl par scope t → XWf scope (canonRawR par scope t)
  | .unknown _, _, _, hw, _, _ => by simp [WfTree] at hw
  | .text d _, _, _, _, _, _ => by simp [canonRawR, XWf]
  | .tag name attrs ks, par, scope, hw, hs, hn => by
    simp only [WfTree] at hw
    simp only [NoUndecl] at hn
    have hk := plainAttrs_keys attrs (fun tab e => (hw.2.2.1 tab e).1)
    have hs' := scopeOf_ne scope (shownAttrs par attrs) hs
    have hkids := xwf_canonKidsRawR ks (some attrs) _ hw.2.2.2 hs' hn.2
    simp only [canonRawR, XWf]
    exact ⟨hk.1, hk.2, hs', hn.1, hkids.1, hkids.2⟩
theorem xwf_canonKidsRawR : ∀ (ks : List Tree) (par : Option (Option HashTab)) (scope : Option Bytes),
    WfKids ks → scope ≠ some [] → NoUndeclKids par scope ks →
    Merged (canonKidsRawR par scope ks) ∧ XWfKids scope (canonKidsRawR par scope ks)
  | [], _, _, _, _, _ => by simp [canonKidsRawR, Merged, XWfKids]
  | k :: ks, par, scope, hw, hs, hn => by
    simp only [WfKids] at hw
    simp only [NoUndeclKids] at hn
    have ih := xwf_canonKidsRawR ks par scope hw.2 hs hn.2
    simp only [canonKidsRawR]
    exact ⟨merged_consNode _ _ ih.1, xwfKids_consNode scope _ _ (xwf_canonRawR k par scope hw.1 hs hn.1) ih.2⟩
end

/-! ### the attribute table parser_expat.c fills -/

/-- `xmpp_stanza_set_attribute` for every pair, in order -/
def addAll (a : Option HashTab) (L : List Entry) : Option HashTab :=
  L.foldl (fun a e => some ((tabOf a).add e.1 e.2)) a

theorem foldl_setAttribute (name : Bytes) (ks : List Tree) : ∀ (L : List Entry) (a : Option HashTab),
    L.foldl (fun t e => (setAttribute t e.1 e.2).1) (.tag name a ks) = .tag name (addAll a L) ks
  | [], a => rfl
  | e :: L, a => by
    simp only [List.foldl_cons, setAttribute, addAll]
    exact foldl_setAttribute name ks L _

theorem mkTag_eq (name : Bytes) (L : List Entry) (ks : List Tree) : mkTag name L ks = .tag name (addAll none L) ks :=
  foldl_setAttribute name ks L none

theorem addAll_spec : ∀ (L : List Entry) (a : Option HashTab), (∀ tab, a = some tab → HashTab.WF tab) →
    (L.map Prod.fst).Nodup →
    (∀ tab, addAll a L = some tab → HashTab.WF tab) ∧
      ∀ k, getOpt (addAll a L) k = if k ∈ L.map Prod.fst then L.lookup k else getOpt a k
  | [], a, hw, _ => ⟨hw, by simp [addAll]⟩
  | e :: L, a, hw, hn => by
    simp only [List.map_cons, List.nodup_cons] at hn
    have hw' : ∀ tab, some ((tabOf a).add e.1 e.2) = some tab → HashTab.WF tab := by
      intro tab h; cases h; exact HashTab.wf_add (wf_tabOf a hw) _ _
    obtain ⟨h1, h2⟩ := addAll_spec L (some ((tabOf a).add e.1 e.2)) hw' hn.2
    refine ⟨h1, ?_⟩
    intro k
    have := h2 k
    simp only [addAll, List.foldl_cons] at this ⊢
    rw [this]
    simp only [getOpt, HashTab.get_add (wf_tabOf a hw), get_tabOf, List.map_cons, List.mem_cons, List.lookup]
    by_cases e1 : k ∈ L.map Prod.fst
    · have hne : k ≠ e.1 := fun h => hn.1 (h ▸ e1)
      have hb : (k == e.1) = false := by simp [hne]
      simp [e1, hne, hb]
    · by_cases e2 : k = e.1
      · have hb : (k == e.1) = true := by simp [e2]
        rw [if_neg e1, if_pos e2, if_pos (Or.inl e2), hb]
      · have hb : (k == e.1) = false := by simp [e2]
        rw [if_neg e1, if_neg e2, if_neg (by simp [e1, e2])]

theorem effNs_getOpt (inh : Option Bytes) (a : Option HashTab) :
    effNs inh a = match getOpt a xmlnsKey with | some v => nsOfDecl v | none => inh := by
  cases a <;> rfl

theorem mem_plainAttrs (a : Option HashTab) (hw : ∀ tab, a = some tab → HashTab.WF tab) (k v : Bytes) :
    (k, v) ∈ plainAttrs a ↔ k ≠ xmlnsKey ∧ getOpt a k = some v := by
  cases a with
  | none => simp [plainAttrs, getOpt]
  | some tab =>
    have hwf := hw tab rfl
    simp only [plainAttrs, List.mem_filter, decide_eq_true_eq, getOpt]
    constructor
    · rintro ⟨h1, h2⟩; exact ⟨h2, HashTab.get_of_mem_toList hwf h1⟩
    · rintro ⟨h1, h2⟩; exact ⟨HashTab.mem_toList_of_get hwf h2, h1⟩

theorem lookup_some_iff (k v : Bytes) (L : List Entry) (hn : (L.map Prod.fst).Nodup) :
    L.lookup k = some v ↔ (k, v) ∈ L := by
  constructor
  · intro h
    induction L with
    | nil => simp at h
    | cons e L ih =>
      simp only [List.map_cons, List.nodup_cons] at hn
      by_cases e1 : k = e.1
      · have : (k == e.1) = true := by simp [e1]
        simp only [List.lookup, this] at h
        cases h; rw [e1]; exact List.mem_cons_self ..
      · have : (k == e.1) = false := by simp [e1]
        simp only [List.lookup, this] at h
        exact List.mem_cons_of_mem _ (ih hn.2 h)
  · exact lookup_of_mem k v L hn


/-! ### what the accessors show of a re-read element is the element that was read -/

theorem notText_canonKids (scope : Option Bytes) : ∀ xs : List XNode, notText xs →
    notText (canonKidsRaw scope (ofXNodes xs))
  | [], _ => by simp [ofXNodes, canonKidsRaw, notText]
  | .text s :: xs, h => by simp [notText] at h
  | .elem ns n a k :: xs, _ => by
    simp only [ofXNodes, ofXNode, canonKidsRaw, mkTag_eq, canonRaw, consNode, notText]

theorem consText_notText (s : Bytes) (r : List XNode) (hs : s ≠ []) (hr : notText r) :
    consText s r = .text s :: r := by
  unfold consText
  rw [if_neg hs]
  cases r with
  | nil => rfl
  | cons y r' =>
    cases y with
    | text s' => simp [notText] at hr
    | elem ns n a k => rfl

theorem attrsWithNs_nodup (attrs : List Entry) (ns : Option Bytes) (h1 : (attrs.map Prod.fst).Nodup)
    (h2 : xmlnsKey ∉ attrs.map Prod.fst) : ((attrsWithNs attrs ns).map Prod.fst).Nodup := by
  cases ns with
  | none => simpa [attrsWithNs] using h1
  | some n =>
    simp only [attrsWithNs, List.map_append, List.map_cons, List.map_nil]
    rw [List.nodup_append]
    refine ⟨h1, by simp, ?_⟩
    intro a ha b hb
    simp at hb; subst hb
    intro e; subst e; exact h2 ha

mutual
theorem canon_ofXNode : ∀ (x : XNode) (scope : Option Bytes), XWf scope x →
    sortTree (canonRaw scope (ofXNode x)) = sortTree x
  | .text s, _, _ => by simp [ofXNode, canonRaw]
  | .elem ns name attrs kids, scope, h => by
    simp only [XWf] at h
    obtain ⟨hnd, hx, hne, hsc, hm, hk⟩ := h
    have hL := attrsWithNs_nodup attrs ns hnd hx
    obtain ⟨hwf, hget⟩ := addAll_spec (attrsWithNs attrs ns) none (by intro tab e; cases e) hL
    -- the namespace in scope below the rebuilt element is the element's namespace
    have hns : effNs scope (addAll none (attrsWithNs attrs ns)) = ns := by
      rw [effNs_getOpt, hget xmlnsKey]
      cases ns with
      | none =>
        have : xmlnsKey ∉ (attrsWithNs attrs none).map Prod.fst := by simpa [attrsWithNs] using hx
        simp [this, getOpt, hsc rfl]
      | some n =>
        have hin : (xmlnsKey, n) ∈ attrsWithNs attrs (some n) := by simp [attrsWithNs]
        have hk' : xmlnsKey ∈ (attrsWithNs attrs (some n)).map Prod.fst := List.mem_map_of_mem (f := Prod.fst) hin
        rw [if_pos hk', lookup_of_mem _ _ _ hL hin]
        have : n ≠ [] := fun e => hne (by rw [e])
        simp [nsOfDecl, this]
    -- its attributes proper are the attributes that were read
    have hattrs : sortAttrs (plainAttrs (addAll none (attrsWithNs attrs ns))) = sortAttrs attrs := by
      apply sortAttrs_congr _ _ (plainAttrs_keys _ hwf).1 hnd
      rintro ⟨k, v⟩
      rw [mem_plainAttrs _ hwf, hget k]
      constructor
      · rintro ⟨h1, h2⟩
        by_cases hk' : k ∈ (attrsWithNs attrs ns).map Prod.fst
        · rw [if_pos hk'] at h2
          have := (lookup_some_iff k v _ hL).1 h2
          cases ns with
          | none => simpa [attrsWithNs] using this
          | some n =>
            simp only [attrsWithNs, List.mem_append, List.mem_singleton, Prod.mk.injEq] at this
            rcases this with h | h
            · exact h
            · exact absurd h.1 h1
        · rw [if_neg hk'] at h2; simp [getOpt] at h2
      · intro hin
        have hkx : k ≠ xmlnsKey := fun e => hx (e ▸ List.mem_map_of_mem (f := Prod.fst) hin)
        have hin' : (k, v) ∈ attrsWithNs attrs ns := by simp [attrsWithNs, hin]
        have hk' : k ∈ (attrsWithNs attrs ns).map Prod.fst := List.mem_map_of_mem (f := Prod.fst) hin'
        exact ⟨hkx, by rw [if_pos hk']; exact lookup_of_mem _ _ _ hL hin'⟩
    have hkids := canon_ofXNodes kids ns hm hk
    have hof : ofXNode (.elem ns name attrs kids) = mkTag name (attrsWithNs attrs ns) (ofXNodes kids) := by
      rw [ofXNode]
    rw [hof, mkTag_eq]
    simp only [canonRaw, sortTree, hns, hattrs, hkids]
theorem canon_ofXNodes : ∀ (xs : List XNode) (scope : Option Bytes), Merged xs → XWfKids scope xs →
    sortTrees (canonKidsRaw scope (ofXNodes xs)) = sortTrees xs
  | [], _, _, _ => by simp [ofXNodes, canonKidsRaw]
  | .text s :: xs, scope, hm, hk => by
    simp only [Merged] at hm
    simp only [XWfKids] at hk
    have ih := canon_ofXNodes xs scope hm.2.2 hk.2
    simp only [ofXNodes, ofXNode, canonKidsRaw, canonRaw, consNode]
    rw [consText_notText s _ hm.1 (notText_canonKids scope xs hm.2.1)]
    simp only [sortTrees, sortTree, ih]
  | .elem ns n a k :: xs, scope, hm, hk => by
    simp only [Merged] at hm
    simp only [XWfKids] at hk
    have ih := canon_ofXNodes xs scope hm hk.2
    have ih1 := canon_ofXNode (.elem ns n a k) scope hk.1
    have hcons : ∀ r, consNode (canonRaw scope (ofXNode (.elem ns n a k))) r =
        canonRaw scope (ofXNode (.elem ns n a k)) :: r := by
      intro r; simp only [ofXNode, mkTag_eq, canonRaw, consNode]
    simp only [ofXNodes, canonKidsRaw, hcons, sortTrees, ih, ih1]
end

/-! ### `xmpp_stanza_new_from_string` on the library's own output -/

theorem fromString_render (name : Bytes) (attrs : Option HashTab) (ks : List Tree) (hw : WfTree (.tag name attrs ks)) :
    fromString (render none (.tag name attrs ks)) = some (ofXNode (canonRawR none none (.tag name attrs ks))) := by
  unfold fromString
  rw [legalChars_render _ none hw, if_pos rfl, parseNodes_render name attrs ks none none hw]
  simp [firstElem, canonRawR]

/-- The library's own reader and the independent reader agree on what a rendering denotes (both reading it, as
    `xmpp_stanza_new_from_string` does, with no default namespace in scope) — for every well-formed root whose
    rendering does not un-declare the default namespace. -/
theorem reread_agrees (name : Bytes) (attrs : Option HashTab) (ks : List Tree) (hw : WfTree (.tag name attrs ks))
    (hn : NoUndecl none none (.tag name attrs ks)) :
    ∃ t', fromString (render none (.tag name attrs ks)) = some t' ∧
      some (canon none t') = parse none (render none (.tag name attrs ks)) := by
  refine ⟨_, fromString_render name attrs ks hw, ?_⟩
  have hx := xwf_canonRawR (.tag name attrs ks) none none hw (by simp) hn
  simp only [parse, parseRaw_render_R name attrs ks none none hw, Option.map_some, canon]
  rw [canon_ofXNode _ none hx]


/-! ### a copy denotes the same canonical tree -/

theorem sortTrees_consNode (x : XNode) (r : List XNode) :
    sortTrees (consNode x r) = consNode (sortTree x) (sortTrees r) := by
  cases x with
  | elem ns n a k => simp [consNode, sortTree, sortTrees]
  | text s =>
    simp only [consNode, sortTree, consText]
    by_cases hs : s = []
    · simp [hs]
    · simp only [hs, if_false]
      cases r with
      | nil => simp [sortTrees, sortTree]
      | cons y r' =>
        cases y with
        | elem ns n a k => simp [sortTrees, sortTree]
        | text s' => simp [sortTrees, sortTree]

mutual
theorem canon_same : ∀ (t t' : Tree) (inh : Option Bytes), SameTree t t' → TabsWF t → TabsWF t' →
    sortTree (canonRaw inh t) = sortTree (canonRaw inh t')
  | .tag n a ks, .tag n' a' ks', inh, hs, hw, hw' => by
    simp only [SameTree] at hs
    simp only [TabsWF] at hw hw'
    obtain ⟨rfl, hg, hk⟩ := hs
    have hns : effNs inh a = effNs inh a' := by rw [effNs_getOpt, effNs_getOpt, hg xmlnsKey]
    have hattrs : sortAttrs (plainAttrs a) = sortAttrs (plainAttrs a') := by
      apply sortAttrs_congr _ _ (plainAttrs_keys a hw.1).1 (plainAttrs_keys a' hw'.1).1
      rintro ⟨k, v⟩
      rw [mem_plainAttrs a hw.1, mem_plainAttrs a' hw'.1, hg k]
    simp only [canonRaw, sortTree, hattrs, ← hns]
    rw [canonKids_same ks ks' (effNs inh a) hk hw.2 hw'.2]
  | .text d ks, .text d' ks', _, hs, _, _ => by
    simp only [SameTree] at hs; simp [canonRaw, hs.1]
  | .unknown ks, .unknown ks', _, _, _, _ => by simp [canonRaw]
  | .tag _ _ _, .text _ _, _, hs, _, _ => by simp [SameTree] at hs
  | .tag _ _ _, .unknown _, _, hs, _, _ => by simp [SameTree] at hs
  | .text _ _, .tag _ _ _, _, hs, _, _ => by simp [SameTree] at hs
  | .text _ _, .unknown _, _, hs, _, _ => by simp [SameTree] at hs
  | .unknown _, .tag _ _ _, _, hs, _, _ => by simp [SameTree] at hs
  | .unknown _, .text _ _, _, hs, _, _ => by simp [SameTree] at hs
theorem canonKids_same : ∀ (ks ks' : List Tree) (inh : Option Bytes), SameKids ks ks' → TabsWFKids ks → TabsWFKids ks' →
    sortTrees (canonKidsRaw inh ks) = sortTrees (canonKidsRaw inh ks')
  | [], [], _, _, _, _ => rfl
  | k :: ks, k' :: ks', inh, hs, hw, hw' => by
    simp only [SameKids] at hs
    simp only [TabsWFKids] at hw hw'
    simp only [canonKidsRaw, sortTrees_consNode]
    rw [canon_same k k' inh hs.1 hw.1 hw'.1, canonKids_same ks ks' inh hs.2 hw.2 hw'.2]
  | [], _ :: _, _, hs, _, _ => by simp [SameKids] at hs
  | _ :: _, [], _, hs, _, _ => by simp [SameKids] at hs
end

/-- `xmpp_stanza_copy` yields a tree that denotes the same canonical XML tree (wherever it is placed) -/
theorem copy_canon (t : Tree) (inh : Option Bytes) (hw : TabsWF t) :
    ∃ t', copy t = some t' ∧ canon inh t' = canon inh t := by
  obtain ⟨t', e, hs, hw'⟩ := copy_spec t hw
  exact ⟨t', e, (canon_same t t' inh hs hw hw').symm⟩

/-! ### helpers for concrete well-formed trees -/

theorem wfTree_one (name k v : Bytes) (ks : List Tree) (hn : isName name = true) (hl : legalChars name = true)
    (hk : isName k = true) (hkl : legalChars k = true) (hvl : legalChars v = true) (hvo : valueOk v)
    (hks : WfKids ks) : WfTree (mkTag name [(k, v)] ks) := by
  rw [mkTag_one]
  simp only [WfTree]
  refine ⟨hn, hl, ?_, hks⟩
  intro tab e
  cases e
  refine ⟨HashTab.wf_add wf_new8 k v, ?_⟩
  intro e he
  rw [toList_add_new] at he
  simp at he; subst he
  exact ⟨hk, hkl, hvl, hvo⟩

end Strophe.Stanza
