/-
C11 helper lemmas, part 2: the four dispatch loops of handler.c have one shape.  `gloop` is that
shape over a "lens" (`Cfg`: which list, which skip test, whether the item is stamped before the call);
`gwalk` is ONE pass over the list as it was when the loop started.  `gloop_spec`: whatever the
callbacks do, the loop invokes exactly the items `gwalk` names, never runs out of fuel, and reaches a
freed item only if a callback deleted its own callback function from this list.
-/
import Strophe.Lemmas.HandlerBase

namespace Strophe.Lemmas.Handler
open Strophe Strophe.Handler

/-- how a list changes under API calls: registrations of the callback functions `D` disappear,
    new items (allocated at `n` or later) are put in front (`front`) or behind (then they are not
    `live`: the loop's test skips them) -/
def Evo (front : Bool) (live : Item → Bool) (n : Nat) (D : List Nat) (l l' : List Item) : Prop :=
  ∃ pre post, l' = pre ++ l.filter (fun x => decide (x.fn ∉ D)) ++ post ∧
    (∀ x ∈ pre ++ post, n ≤ x.uid) ∧
    (front = true → post = []) ∧
    (front = false → pre = [] ∧ ∀ x ∈ post, live x = false)

theorem Evo.refl (front : Bool) (live : Item → Bool) (n : Nat) (l : List Item) : Evo front live n [] l l := by
  refine ⟨[], [], ?_, by simp, by simp, by simp⟩
  simp only [List.nil_append, List.append_nil]
  exact (List.filter_eq_self.mpr (by simp)).symm

theorem Evo.of_eq {front : Bool} {live : Item → Bool} {n : Nat} {l l' : List Item} (h : l' = l) :
    Evo front live n [] l l' := h ▸ Evo.refl front live n l

theorem Evo.trans {front : Bool} {live : Item → Bool} {n n' : Nat} {D1 D2 : List Nat} {l l' l'' : List Item}
    (h1 : Evo front live n D1 l l') (h2 : Evo front live n' D2 l' l'') (hn : n ≤ n') :
    Evo front live n (D1 ++ D2) l l'' := by
  obtain ⟨pre1, post1, e1, f1, a1, b1⟩ := h1
  obtain ⟨pre2, post2, e2, f2, a2, b2⟩ := h2
  refine ⟨pre2 ++ pre1.filter (fun x => decide (x.fn ∉ D2)), post1.filter (fun x => decide (x.fn ∉ D2)) ++ post2,
    ?_, ?_, ?_, ?_⟩
  · subst e1; subst e2
    simp only [List.filter_append, List.filter_filter, List.append_assoc, List.mem_append, not_or]
    congr 3
    apply List.filter_congr
    intro x _
    by_cases hx1 : x.fn ∈ D1 <;> by_cases hx2 : x.fn ∈ D2 <;> simp [hx1, hx2]
  · intro x hx
    simp only [List.mem_append, List.mem_filter] at hx
    rcases hx with (hx | hx) | (hx | hx)
    · exact Nat.le_trans hn (f2 x (by simp [hx]))
    · exact f1 x (by simp [hx.1])
    · exact f1 x (by simp [hx.1])
    · exact Nat.le_trans hn (f2 x (by simp [hx]))
  · intro hf
    simp [a1 hf, a2 hf]
  · intro hf
    obtain ⟨p1, q1⟩ := b1 hf
    obtain ⟨p2, q2⟩ := b2 hf
    refine ⟨by simp [p1, p2], ?_⟩
    intro x hx
    simp only [List.mem_append, List.mem_filter] at hx
    rcases hx with hx | hx
    · exact q1 x hx.1
    · exact q2 x hx

/-- the view of one handler list and of the loop that walks it -/
structure Cfg where
  get : St → List Item
  set : St → List Item → St
  /-- the loop's test "call this item now", as a function of the clock -/
  pred : Nat → Item → Bool
  /-- necessary for `pred` at any time -/
  live : Item → Bool
  /-- new items go to the front of this list -/
  front : Bool
  cls : Cls
  conn : Nat
  name : Option Str
  /-- callback functions whose registrations in this list an API call deletes -/
  dels : Act → List Nat
  /-- `item->u.last_stamp = timestamp` before the call -/
  stamp : Bool
  /-- what the model's own loop test reads from the state besides the clock -/
  inv : St → Prop

def Cfg.pre (L : Cfg) (st : St) (it : Item) : St :=
  if L.stamp then L.set st (setLast (L.get st) it.uid st.now) else st

def gloop (beh : Beh) (L : Cfg) : Nat → St → List Item → Except Err St
  | fuel, st, suffix =>
    match suffix.find? (L.pred st.now) with
    | none => .ok st
    | some it =>
      match fuel with
      | 0 => .error .fuel
      | fuel + 1 =>
        let (st1, ret) := invoke beh (L.pre st it) L.cls L.conn it L.name
        match after (L.get st1) it.uid with
        | none => .error .stale
        | some rest =>
          let st2 := if ret then st1 else L.set st1 (removeUid (L.get st1) it.uid)
          gloop beh L fuel st2 rest

/-- one invocation as the pass over the snapshot sees it -/
structure Fired where
  item : Item
  step : Step
  time : Nat
  deriving Repr

def Cfg.delsOf (L : Cfg) (acts : List Act) : List Nat := acts.flatMap L.dels

/-- ONE pass over the list as it was when the loop started: an item is invoked iff none of the
    callbacks invoked before it deleted its callback function and the loop's test holds at its turn -/
def gwalk (beh : Beh) (L : Cfg) : (Key → Nat) → Nat → List Nat → List Item → List Fired
  | _, _, _, [] => []
  | cnt, now, D, it :: rest =>
    if it.fn ∈ D ∨ L.pred now it = false then gwalk beh L cnt now D rest
    else
      let step := beh it.key (cnt it.key)
      ⟨it, step, now⟩ :: gwalk beh L (bump cnt it.key) (now + ticks step.acts) (D ++ L.delsOf step.acts) rest

def Cfg.toInv (L : Cfg) (f : Fired) : Inv :=
  { cls := L.cls, conn := L.conn, fn := f.item.fn, ud := f.item.ud, name := L.name, time := f.time,
    uid := f.item.uid, ret := f.step.keep, last := f.item.last, period := f.item.period }

def cntAfter (cnt : Key → Nat) (w : List Fired) : Key → Nat := w.foldl (fun c f => bump c f.item.key) cnt
def nowAfter (now : Nat) (w : List Fired) : Nat := w.foldl (fun n f => n + ticks f.step.acts) now
def actsOf (w : List Fired) : List Act := w.flatMap (·.step.acts)

/-- a callback deleted its own callback function from the list it was dispatched from -/
def SelfDelete (L : Cfg) (w : List Fired) : Prop := ∃ f ∈ w, f.item.fn ∈ L.delsOf f.step.acts

/-- what the generic proofs need to know about a lens -/
structure Cfg.Ok (L : Cfg) : Prop where
  get_set : ∀ st l, L.get (L.set st l) = l
  set_cnt : ∀ st l, (L.set st l).cnt = st.cnt
  set_log : ∀ st l, (L.set st l).log = st.log
  set_now : ∀ st l, (L.set st l).now = st.now
  set_nextUid : ∀ st l, (L.set st l).nextUid = st.nextUid
  get_withLog : ∀ st cnt log, L.get (withLog st cnt log) = L.get st
  inv_withLog : ∀ st cnt log, L.inv st → L.inv (withLog st cnt log)
  inv_set : ∀ st l, L.inv st → L.inv (L.set st l)
  inv_act : ∀ st a, L.inv st → L.inv (applyAct st a)
  evo_act : ∀ st a, Evo L.front L.live st.nextUid (L.dels a) (L.get st) (L.get (applyAct st a))
  pred_live : ∀ now it, L.pred now it = true → L.live it = true
  wf_get : ∀ st, WF st → ListOk st.nextUid (L.get st)
  wf_set_filter : ∀ st p, WF st → WF (L.set st ((L.get st).filter p))
  wf_set_last : ∀ st u t, WF st → WF (L.set st (setLast (L.get st) u t))

/-- lens `L2` does not see what the loop over `L` writes into its own list -/
def Indep (L L2 : Cfg) : Prop := ∀ st l, L2.get (L.set st l) = L2.get st

/-! ### effect of a callback's API calls -/

theorem applyActs_nil (st : St) : applyActs st [] = st := rfl
theorem applyActs_cons (st : St) (a : Act) (r : List Act) : applyActs st (a :: r) = applyActs (applyAct st a) r := rfl

theorem applyActs_cnt (st : St) (acts : List Act) : (applyActs st acts).cnt = st.cnt := by
  induction acts generalizing st with
  | nil => rfl
  | cons a r ih => rw [applyActs_cons, ih, applyAct_cnt]

theorem applyActs_log (st : St) (acts : List Act) : (applyActs st acts).log = st.log := by
  induction acts generalizing st with
  | nil => rfl
  | cons a r ih => rw [applyActs_cons, ih, applyAct_log]

theorem applyActs_now (st : St) (acts : List Act) : (applyActs st acts).now = st.now + ticks acts := by
  induction acts generalizing st with
  | nil => simp [applyActs_nil, ticks]
  | cons a r ih =>
    rw [applyActs_cons, ih, applyAct_now]
    simp [ticks, Nat.add_assoc]

theorem applyActs_nextUid_le (st : St) (acts : List Act) : st.nextUid ≤ (applyActs st acts).nextUid := by
  induction acts generalizing st with
  | nil => exact Nat.le_refl _
  | cons a r ih => rw [applyActs_cons]; exact Nat.le_trans (applyAct_nextUid_le st a) (ih _)

theorem applyActs_inv {L : Cfg} (hL : L.Ok) (st : St) (acts : List Act) (h : L.inv st) : L.inv (applyActs st acts) := by
  induction acts generalizing st with
  | nil => exact h
  | cons a r ih => rw [applyActs_cons]; exact ih _ (hL.inv_act st a h)

theorem applyActs_evo {L : Cfg} (hL : L.Ok) (st : St) (acts : List Act) :
    Evo L.front L.live st.nextUid (L.delsOf acts) (L.get st) (L.get (applyActs st acts)) := by
  induction acts generalizing st with
  | nil => exact Evo.refl _ _ _ _
  | cons a r ih =>
    rw [applyActs_cons]
    have h := Evo.trans (hL.evo_act st a) (ih (applyAct st a)) (applyAct_nextUid_le st a)
    simpa [Cfg.delsOf] using h

/-! ### the pass -/

theorem gwalk_nil (beh : Beh) (L : Cfg) (cnt : Key → Nat) (now : Nat) (D : List Nat) :
    gwalk beh L cnt now D [] = [] := rfl

theorem gwalk_skip (beh : Beh) (L : Cfg) (cnt : Key → Nat) (now : Nat) (D : List Nat) (it : Item) (rest : List Item)
    (h : it.fn ∈ D ∨ L.pred now it = false) :
    gwalk beh L cnt now D (it :: rest) = gwalk beh L cnt now D rest := by
  simp only [gwalk, h, if_true]

theorem gwalk_fire (beh : Beh) (L : Cfg) (cnt : Key → Nat) (now : Nat) (D : List Nat) (it : Item) (rest : List Item)
    (h1 : it.fn ∉ D) (h2 : L.pred now it = true) :
    gwalk beh L cnt now D (it :: rest) =
      ⟨it, beh it.key (cnt it.key), now⟩ ::
        gwalk beh L (bump cnt it.key) (now + ticks (beh it.key (cnt it.key)).acts)
          (D ++ L.delsOf (beh it.key (cnt it.key)).acts) rest := by
  have : ¬ (it.fn ∈ D ∨ L.pred now it = false) := by simp [h1, h2]
  simp only [gwalk, this, if_false]

theorem cntAfter_cons (cnt : Key → Nat) (f : Fired) (w : List Fired) :
    cntAfter cnt (f :: w) = cntAfter (bump cnt f.item.key) w := rfl
theorem nowAfter_cons (now : Nat) (f : Fired) (w : List Fired) :
    nowAfter now (f :: w) = nowAfter (now + ticks f.step.acts) w := rfl
theorem actsOf_cons (f : Fired) (w : List Fired) : actsOf (f :: w) = f.step.acts ++ actsOf w := by
  simp [actsOf]

theorem le_nowAfter (now : Nat) (w : List Fired) : now ≤ nowAfter now w := by
  induction w generalizing now with
  | nil => exact Nat.le_refl _
  | cons f w ih => rw [nowAfter_cons]; exact Nat.le_trans (Nat.le_add_right _ _) (ih _)

/-! ### loop unfolding -/

theorem gloop_none (beh : Beh) (L : Cfg) (fuel : Nat) (st : St) (suffix : List Item)
    (h : suffix.find? (L.pred st.now) = none) : gloop beh L fuel st suffix = .ok st := by
  cases fuel <;> simp [gloop, h]

theorem gloop_skip (beh : Beh) (L : Cfg) (fuel : Nat) (st : St) (it : Item) (suffix : List Item)
    (h : L.pred st.now it = false) : gloop beh L fuel st (it :: suffix) = gloop beh L fuel st suffix := by
  conv => lhs; unfold gloop
  conv => rhs; unfold gloop
  simp only [List.find?, h]

theorem gloop_zero (beh : Beh) (L : Cfg) (st : St) (it : Item) (suffix : List Item)
    (h : L.pred st.now it = true) : gloop beh L 0 st (it :: suffix) = .error .fuel := by
  simp [gloop, List.find?, h]

theorem gloop_succ (beh : Beh) (L : Cfg) (fuel : Nat) (st : St) (it : Item) (suffix : List Item)
    (h : L.pred st.now it = true) :
    gloop beh L (fuel + 1) st (it :: suffix) =
      (match after (L.get (invoke beh (L.pre st it) L.cls L.conn it L.name).1) it.uid with
       | none => .error .stale
       | some rest =>
         gloop beh L fuel
           (if (invoke beh (L.pre st it) L.cls L.conn it L.name).2 then (invoke beh (L.pre st it) L.cls L.conn it L.name).1
            else L.set (invoke beh (L.pre st it) L.cls L.conn it L.name).1
                   (removeUid (L.get (invoke beh (L.pre st it) L.cls L.conn it L.name).1) it.uid))
           rest) := by
  conv => lhs; unfold gloop
  simp only [List.find?, h]

/-! ### one iteration -/

def mkInv (cls : Cls) (c : Nat) (it : Item) (name : Option Str) (now : Nat) (ret : Bool) : Inv :=
  { cls, conn := c, fn := it.fn, ud := it.ud, name, time := now, uid := it.uid, ret, last := it.last,
    period := it.period }

theorem invoke_eq (beh : Beh) (st : St) (cls : Cls) (c : Nat) (it : Item) (name : Option Str) :
    invoke beh st cls c it name =
      (applyActs (withLog st (bump st.cnt it.key)
          (st.log ++ [mkInv cls c it name st.now (beh it.key (st.cnt it.key)).keep]))
        (beh it.key (st.cnt it.key)).acts, (beh it.key (st.cnt it.key)).keep) := rfl

/-- the state right before the callback: the item is (possibly stamped and) still where it was -/
theorem pre_facts {L : Cfg} (hL : L.Ok) (st : St) (w : WF st) (hinv : L.inv st) (A : List Item) (it : Item)
    (R : List Item) (hget : L.get st = A ++ it :: R) :
    ∃ it', L.get (L.pre st it) = A ++ it' :: R ∧ it'.uid = it.uid ∧ it'.fn = it.fn ∧
      WF (L.pre st it) ∧ L.inv (L.pre st it) ∧ (L.pre st it).cnt = st.cnt ∧ (L.pre st it).log = st.log ∧
      (L.pre st it).now = st.now ∧ (L.pre st it).nextUid = st.nextUid ∧
      (∀ L2 : Cfg, Indep L L2 → L2.get (L.pre st it) = L2.get st) := by
  unfold Cfg.pre
  by_cases hs : L.stamp = true
  · simp only [hs, if_true]
    have nd := (hL.wf_get st w).nd
    rw [hget, List.map_append, List.map_cons, List.nodup_append] at nd
    obtain ⟨_, ndR, hAR⟩ := nd
    rw [List.nodup_cons] at ndR
    have hA : ∀ x ∈ A, x.uid ≠ it.uid := fun x hx =>
      hAR x.uid (List.mem_map.mpr ⟨x, hx, rfl⟩) it.uid (by simp)
    have hR : ∀ x ∈ R, x.uid ≠ it.uid := fun x hx e =>
      ndR.1 (List.mem_map.mpr ⟨x, hx, e⟩)
    refine ⟨{ it with last := st.now }, ?_, rfl, rfl, hL.wf_set_last st _ _ w, hL.inv_set _ _ hinv,
      hL.set_cnt _ _, hL.set_log _ _, hL.set_now _ _, hL.set_nextUid _ _, fun L2 h2 => h2 _ _⟩
    rw [hL.get_set, hget, setLast_append, setLast_of_notMem A _ _ hA]
    simp only [setLast, List.map_cons, if_true]
    congr 2
    have := setLast_of_notMem R it.uid st.now hR
    simpa [setLast] using this
  · simp only [hs]
    exact ⟨it, hget, rfl, rfl, w, hinv, rfl, rfl, rfl, rfl, fun _ _ => rfl⟩

/-- what a loop run has to satisfy, given the pass `W` over the snapshot -/
def Post (L : Cfg) (st : St) (W : List Fired) : Except Err St → Prop
  | .ok st' =>
    st'.log = st.log ++ W.map L.toInv ∧ st'.cnt = cntAfter st.cnt W ∧ st'.now = nowAfter st.now W ∧
    WF st' ∧ L.inv st' ∧ st.nextUid ≤ st'.nextUid ∧ ¬ SelfDelete L W ∧
    (∀ L2 : Cfg, L2.Ok → Indep L L2 →
      Evo L2.front L2.live st.nextUid (L2.delsOf (actsOf W)) (L2.get st) (L2.get st'))
  | .error .stale => SelfDelete L W
  | .error .fuel => False

theorem filter_filter_dels (l : List Item) (D1 D2 : List Nat) :
    (l.filter (fun x => decide (x.fn ∉ D1))).filter (fun x => decide (x.fn ∉ D2)) =
      l.filter (fun x => decide (x.fn ∉ D1 ++ D2)) := by
  rw [List.filter_filter]
  apply List.filter_congr
  intro x _
  by_cases h1 : x.fn ∈ D1 <;> by_cases h2 : x.fn ∈ D2 <;> simp [h1, h2]

theorem gloop_spec (beh : Beh) {L : Cfg} (hL : L.Ok) :
    ∀ (cands : List Item) (fuel : Nat) (st : St) (A post : List Item) (D : List Nat),
      WF st → L.inv st → (cands.filter (fun x => decide (x.fn ∉ D))).length ≤ fuel →
      L.get st = A ++ (cands.filter (fun x => decide (x.fn ∉ D)) ++ post) →
      (∀ x ∈ post, L.live x = false) →
      Post L st (gwalk beh L st.cnt st.now D cands)
        (gloop beh L fuel st (cands.filter (fun x => decide (x.fn ∉ D)) ++ post)) := by
  intro cands
  induction cands with
  | nil =>
    intro fuel st A post D w hinv _ _ hpost
    have hnone : (([] : List Item).filter (fun x => decide (x.fn ∉ D)) ++ post).find? (L.pred st.now) = none := by
      simp only [List.filter_nil, List.nil_append, List.find?_eq_none]
      intro x hx hp
      have := hL.pred_live _ _ hp
      rw [hpost x hx] at this; cases this
    rw [gloop_none _ _ _ _ _ hnone, gwalk_nil]
    refine ⟨by simp, rfl, rfl, w, hinv, Nat.le_refl _, ?_, ?_⟩
    · rintro ⟨f, hf, _⟩; cases hf
    · intro L2 _ _; exact Evo.refl _ _ _ _
  | cons it rest ih =>
    intro fuel st A post D w hinv hfuel hget hpost
    by_cases hD : it.fn ∈ D
    · -- deleted before its turn
      have hf : (it :: rest).filter (fun x => decide (x.fn ∉ D)) = rest.filter (fun x => decide (x.fn ∉ D)) := by
        simp [List.filter_cons, hD]
      rw [hf, gwalk_skip _ _ _ _ _ _ _ (Or.inl hD)]
      rw [hf] at hget hfuel
      exact ih fuel st A post D w hinv hfuel hget hpost
    · have hf : (it :: rest).filter (fun x => decide (x.fn ∉ D)) = it :: rest.filter (fun x => decide (x.fn ∉ D)) := by
        simp [List.filter_cons, hD]
      rw [hf, List.cons_append]
      rw [hf, List.cons_append] at hget
      rw [hf, List.length_cons] at hfuel
      by_cases hp : L.pred st.now it = true
      · -- the callback is invoked
        rw [gwalk_fire _ _ _ _ _ _ _ hD hp]
        cases fuel with
        | zero => simp at hfuel
        | succ fuel =>
          rw [gloop_succ _ _ _ _ _ _ hp]
          obtain ⟨it', hget0, huid, hfn, w0, hinv0, hcnt0, hlog0, hnow0, hnu0, hind0⟩ :=
            pre_facts hL st w hinv A it _ hget
          rw [invoke_eq, hcnt0, hlog0, hnow0]
          generalize hstep : beh it.key (st.cnt it.key) = step
          simp only []
          generalize hinvr : mkInv L.cls L.conn it L.name st.now step.keep = invr
          generalize hstL : withLog (L.pre st it) (bump st.cnt it.key) (st.log ++ [invr]) = stL
          have wL : WF stL := hstL ▸ w0.withLog _ _
          have hinvL : L.inv stL := hstL ▸ hL.inv_withLog _ _ _ hinv0
          have hgetL : L.get stL = A ++ it' :: (rest.filter (fun x => decide (x.fn ∉ D)) ++ post) := by
            rw [← hstL, hL.get_withLog]; exact hget0
          have hnuL : stL.nextUid = st.nextUid := by rw [← hstL]; exact hnu0
          have hcntL : stL.cnt = bump st.cnt it.key := by rw [← hstL]; rfl
          have hlogL : stL.log = st.log ++ [invr] := by rw [← hstL]; rfl
          have hnowL : stL.now = st.now := by rw [← hstL]; exact hnow0
          generalize hst1 : applyActs stL step.acts = st1
          have w1 : WF st1 := hst1 ▸ applyActs_wf stL wL _
          have hinv1 : L.inv st1 := hst1 ▸ applyActs_inv hL stL _ hinvL
          have hcnt1 : st1.cnt = bump st.cnt it.key := by rw [← hst1, applyActs_cnt, hcntL]
          have hlog1 : st1.log = st.log ++ [invr] := by rw [← hst1, applyActs_log, hlogL]
          have hnow1 : st1.now = st.now + ticks step.acts := by rw [← hst1, applyActs_now, hnowL]
          have hnu1 : st.nextUid ≤ st1.nextUid := by
            rw [← hst1, ← hnuL]; exact applyActs_nextUid_le _ _
          have hevo := applyActs_evo hL stL step.acts
          rw [hst1, hgetL, hnuL] at hevo
          obtain ⟨pre, post1, hget1, hfresh, hfront, hback⟩ := hevo
          have hpost1 : ∀ x ∈ post1, L.live x = false := by
            intro x hx
            cases hfr : L.front with
            | true => rw [hfront hfr] at hx; cases hx
            | false => exact (hback hfr).2 x hx
          -- the old items are pairwise distinct allocations, all older than the new ones
          have okL := hL.wf_get stL wL
          rw [hgetL, hnuL] at okL
          have hitlt : it.uid < st.nextUid := by
            have := okL.lt it' (by simp); rw [huid] at this; exact this
          have ndL := okL.nd
          rw [List.map_append, List.map_cons, List.nodup_append] at ndL
          obtain ⟨_, ndR, hAR⟩ := ndL
          rw [List.nodup_cons] at ndR
          have hA : ∀ x ∈ A, x.uid ≠ it.uid := fun x hx => by
            have := hAR x.uid (List.mem_map.mpr ⟨x, hx, rfl⟩) it'.uid (by simp)
            rwa [huid] at this
          have hR : ∀ x ∈ rest.filter (fun x => decide (x.fn ∉ D)) ++ post, x.uid ≠ it.uid := fun x hx e =>
            ndR.1 (List.mem_map.mpr ⟨x, hx, by rw [e, huid]⟩)
          have hnew : ∀ x ∈ pre ++ post1, x.uid ≠ it.uid := fun x hx e => by
            have := hfresh x hx; omega
          by_cases hself : it.fn ∈ L.delsOf step.acts
          · -- the callback deleted its own callback function: the loop reads a freed item
            have hafter : after (L.get st1) it.uid = none := by
              apply after_eq_none
              intro x hx
              rw [hget1] at hx
              simp only [List.mem_append, List.mem_filter, List.mem_cons] at hx
              rcases hx with (hx | hx) | hx
              · exact hnew x (by simp [hx])
              · obtain ⟨hx, hk⟩ := hx
                rcases hx with hx | rfl | hx
                · exact hA x hx
                · rw [hfn] at hk; simp [hself] at hk
                · exact hR x (by simpa using hx)
              · exact hnew x (by simp [hx])
            rw [hafter]
            exact ⟨_, List.mem_cons_self, by simpa using hself⟩
          · have hkeep : decide (it'.fn ∉ L.delsOf step.acts) = true := by rw [hfn]; simpa using hself
            have hget1' : L.get st1 = (pre ++ A.filter (fun x => decide (x.fn ∉ L.delsOf step.acts))) ++
                it' :: ((rest.filter (fun x => decide (x.fn ∉ D ++ L.delsOf step.acts))) ++
                  (post.filter (fun x => decide (x.fn ∉ L.delsOf step.acts)) ++ post1)) := by
              rw [hget1, List.filter_append, List.filter_cons, hkeep, List.filter_append, filter_filter_dels]
              simp [List.append_assoc]
            have hX : ∀ x ∈ pre ++ A.filter (fun x => decide (x.fn ∉ L.delsOf step.acts)), x.uid ≠ it'.uid := by
              intro x hx
              rw [huid]
              rcases List.mem_append.mp hx with hx | hx
              · exact hnew x (by simp [hx])
              · exact hA x (List.mem_filter.mp hx).1
            have hafter : after (L.get st1) it.uid =
                some ((rest.filter (fun x => decide (x.fn ∉ D ++ L.delsOf step.acts))) ++
                  (post.filter (fun x => decide (x.fn ∉ L.delsOf step.acts)) ++ post1)) := by
              rw [hget1', ← huid, after_append_of_notMem _ _ _ hX, after_cons_self]
            rw [hafter]
            simp only []
            -- the state the next iteration starts from
            generalize hst2 : (if step.keep = true then st1 else L.set st1 (removeUid (L.get st1) it.uid)) = st2
            have ok1 := hL.wf_get st1 w1
            have nd1 := ok1.nd
            rw [hget1', List.map_append, List.map_cons, List.nodup_append] at nd1
            obtain ⟨_, ndR1, hXR1⟩ := nd1
            rw [List.nodup_cons] at ndR1
            have hR1 : ∀ x ∈ (rest.filter (fun x => decide (x.fn ∉ D ++ L.delsOf step.acts))) ++
                (post.filter (fun x => decide (x.fn ∉ L.delsOf step.acts)) ++ post1), x.uid ≠ it.uid :=
              fun x hx e => ndR1.1 (List.mem_map.mpr ⟨x, hx, by rw [e, huid]⟩)
            have hget2 : ∃ A2, L.get st2 = A2 ++ ((rest.filter (fun x => decide (x.fn ∉ D ++ L.delsOf step.acts))) ++
                (post.filter (fun x => decide (x.fn ∉ L.delsOf step.acts)) ++ post1)) := by
              rw [← hst2]
              by_cases hk : step.keep = true
              · rw [if_pos hk]
                exact ⟨(pre ++ A.filter (fun x => decide (x.fn ∉ L.delsOf step.acts))) ++ [it'], by
                  rw [hget1']; simp [List.append_assoc]⟩
              · rw [if_neg hk]
                refine ⟨pre ++ A.filter (fun x => decide (x.fn ∉ L.delsOf step.acts)), ?_⟩
                rw [hL.get_set, hget1', removeUid_append, ← huid, removeUid_cons_self, huid,
                  removeUid_eq_self _ _ hR1, removeUid_eq_self _ _ (by rw [← huid]; exact hX)]
            obtain ⟨A2, hget2⟩ := hget2
            have w2 : WF st2 := by
              rw [← hst2]
              by_cases hk : step.keep = true
              · rw [if_pos hk]; exact w1
              · rw [if_neg hk]; exact hL.wf_set_filter st1 _ w1
            have hinv2 : L.inv st2 := by
              rw [← hst2]; by_cases hk : step.keep = true
              · rw [if_pos hk]; exact hinv1
              · rw [if_neg hk]; exact hL.inv_set _ _ hinv1
            have hcnt2 : st2.cnt = bump st.cnt it.key := by
              rw [← hst2]; by_cases hk : step.keep = true
              · rw [if_pos hk]; exact hcnt1
              · rw [if_neg hk, hL.set_cnt]; exact hcnt1
            have hlog2 : st2.log = st.log ++ [invr] := by
              rw [← hst2]; by_cases hk : step.keep = true
              · rw [if_pos hk]; exact hlog1
              · rw [if_neg hk, hL.set_log]; exact hlog1
            have hnow2 : st2.now = st.now + ticks step.acts := by
              rw [← hst2]; by_cases hk : step.keep = true
              · rw [if_pos hk]; exact hnow1
              · rw [if_neg hk, hL.set_now]; exact hnow1
            have hnu2 : st2.nextUid = st1.nextUid := by
              rw [← hst2]; by_cases hk : step.keep = true
              · rw [if_pos hk]
              · rw [if_neg hk, hL.set_nextUid]
            have hget2o : ∀ L2 : Cfg, Indep L L2 → L2.get st2 = L2.get st1 := by
              intro L2 h2
              rw [← hst2]; by_cases hk : step.keep = true
              · rw [if_pos hk]
              · rw [if_neg hk]; exact h2 _ _
            have hpost2 : ∀ x ∈ post.filter (fun x => decide (x.fn ∉ L.delsOf step.acts)) ++ post1,
                L.live x = false := by
              intro x hx
              rcases List.mem_append.mp hx with hx | hx
              · exact hpost x (List.mem_filter.mp hx).1
              · exact hpost1 x hx
            have hfuel2 : (rest.filter (fun x => decide (x.fn ∉ D ++ L.delsOf step.acts))).length ≤ fuel := by
              rw [← filter_filter_dels]
              exact Nat.le_trans (List.length_filter_le _ _) (Nat.le_of_succ_le_succ hfuel)
            have hrec := ih fuel st2 A2 _ (D ++ L.delsOf step.acts) w2 hinv2 hfuel2 hget2 hpost2
            rw [hcnt2, hnow2] at hrec
            revert hrec
            generalize gloop beh L fuel st2 _ = res
            generalize hW : gwalk beh L (bump st.cnt it.key) (st.now + ticks step.acts)
              (D ++ L.delsOf step.acts) rest = W
            intro hrec
            cases res with
            | ok st' =>
              obtain ⟨rlog, rcnt, rnow, rw', rinv, rnu, rsd, rother⟩ := hrec
              refine ⟨?_, ?_, ?_, rw', rinv, ?_, ?_, ?_⟩
              · rw [rlog, hlog2, List.map_cons, ← hinvr]
                simp [Cfg.toInv, mkInv]
              · rw [rcnt, hcnt2, cntAfter_cons]
              · rw [rnow, hnow2, nowAfter_cons]
              · rw [hnu2] at rnu; exact Nat.le_trans hnu1 rnu
              · rintro ⟨f, hf, hfd⟩
                rcases List.mem_cons.mp hf with rfl | hf
                · exact hself hfd
                · exact rsd ⟨f, hf, hfd⟩
              · intro L2 hL2 h2
                have e1 : Evo L2.front L2.live st.nextUid (L2.delsOf step.acts) (L2.get st) (L2.get st2) := by
                  have := applyActs_evo hL2 stL step.acts
                  rw [hst1, hnuL, ← hstL, hL2.get_withLog, hind0 L2 h2] at this
                  rw [hget2o L2 h2]; exact this
                have e2 := rother L2 hL2 h2
                have := Evo.trans e1 e2 (by rw [hnu2]; exact hnu1)
                rw [actsOf_cons]
                simpa [Cfg.delsOf] using this
            | error e =>
              cases e with
              | stale =>
                obtain ⟨f, hf, hfd⟩ := hrec
                exact ⟨f, List.mem_cons_of_mem _ hf, hfd⟩
              | fuel => exact hrec
      · -- skipped by the loop's test
        have hp' : L.pred st.now it = false := by simpa using hp
        rw [gloop_skip _ _ _ _ _ _ hp', gwalk_skip _ _ _ _ _ _ _ (Or.inr hp')]
        have hget' : L.get st = (A ++ [it]) ++ (rest.filter (fun x => decide (x.fn ∉ D)) ++ post) := by
          rw [hget]; simp
        exact ih fuel st (A ++ [it]) post D w hinv (Nat.le_of_succ_le hfuel) hget' hpost

end Strophe.Lemmas.Handler
