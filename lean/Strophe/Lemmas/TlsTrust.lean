/-
Lemmas for C08 (Props/C08.lean): the verify-callback run, conn_tls_start, the scenario.
-/
import Strophe.Model.TlsTrust

namespace Strophe.Lemmas.TlsTrust
open Strophe Strophe.Spec.OpenSsl Strophe.TlsTrust

/-- the failures among verification events -/
def failures (l : List VCall) : List VCall := l.filter fun v => !v.ok

/-- the handler is installed and answers non-zero to each of the failures `fs`, the first of which
    is its `k`-th invocation -/
def AcceptedFrom (h : Option Handler) : Nat → List VCall → Prop
  | _, [] => True
  | k, v :: vs => (∃ f, h = some f ∧ f k v.depth v.err ≠ 0) ∧ AcceptedFrom h (k + 1) vs

theorem pin_ret : Gen.Tls.verifyRetPreverified = 1 ∧ Gen.Tls.verifyRetNoHandler = 0 := by decide

theorem failures_cons_ok (v : VCall) (vs : List VCall) (h : v.ok = true) :
    failures (v :: vs) = failures vs := by
  simp [failures, List.filter, h]

theorem failures_cons_fail (v : VCall) (vs : List VCall) (h : v.ok = false) :
    failures (v :: vs) = v :: failures vs := by
  simp [failures, List.filter, h]

/-- the run of `_tls_verify` over the events: nothing is answered 0 iff the handler accepted each
    failure -/
theorem accepted_run_iff (h : Option Handler) (l : List VCall) (k : Nat) :
    accepted (run (tlsVerify h) k l) = true ↔ AcceptedFrom h k (failures l) := by
  induction l generalizing k with
  | nil => simp [run, accepted, failures, AcceptedFrom]
  | cons v vs ih =>
    cases hv : v.ok with
    | true =>
      have hr : tlsVerify h k v = 1 := by simp [tlsVerify, hv, pin_ret.1]
      rw [failures_cons_ok v vs hv]
      simp only [run, hr, hv]
      simp [accepted] at ih ⊢
      exact ih k
    | false =>
      rw [failures_cons_fail v vs hv]
      cases h with
      | none =>
        have hr : tlsVerify none k v = 0 := by simp [tlsVerify, hv, pin_ret.2]
        simp [run, hr, accepted, AcceptedFrom]
      | some f =>
        have hr : tlsVerify (some f) k v = f k v.depth v.err := by simp [tlsVerify, hv]
        by_cases h0 : f k v.depth v.err = 0
        · simp [run, hr, h0, accepted, AcceptedFrom]
        · have := ih (k + 1)
          simp [run, hr, h0, hv, accepted, AcceptedFrom] at this ⊢
          exact this

end Strophe.Lemmas.TlsTrust
