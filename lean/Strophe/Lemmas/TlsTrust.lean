/-
Lemmas for C08 (Props/C08.lean): the verify-callback run, conn_tls_start, the scenario.
-/
import Strophe.Model.TlsTrust

set_option linter.unusedSimpArgs false

namespace Strophe.Lemmas.TlsTrust
open Strophe Strophe.Spec.OpenSsl Strophe.TlsTrust

/-- the failures among verification events -/
def failures (l : List VCall) : List VCall := l.filter fun v => !v.ok

/-- the handler is installed and answers non-zero to each of the failures `fs`, the first of which
    is its `k`-th invocation -/
def AcceptedFrom (h : Option Handler) : Nat → List VCall → Prop
  | _, [] => True
  | k, v :: vs => (∃ f, h = some f ∧ f k v.depth v.err ≠ 0) ∧ AcceptedFrom h (k + 1) vs

theorem pin_ret : Gen.Tls.verifyRetPreverified = 1 ∧ Gen.Tls.verifyRetNoHandler = 0 := by decide

theorem failures_cons_ok (v : VCall) (vs : List VCall) (h : v.ok = true) :
    failures (v :: vs) = failures vs := by
  simp [failures, List.filter, h]

theorem failures_cons_fail (v : VCall) (vs : List VCall) (h : v.ok = false) :
    failures (v :: vs) = v :: failures vs := by
  simp [failures, List.filter, h]

/-- the run of `_tls_verify` over the events: nothing is answered 0 iff the handler accepted each
    failure -/
theorem accepted_run_iff (h : Option Handler) (l : List VCall) (k : Nat) :
    accepted (run (tlsVerify h) k l) = true ↔ AcceptedFrom h k (failures l) := by
  induction l generalizing k with
  | nil => simp [run, accepted, failures, AcceptedFrom]
  | cons v vs ih =>
    cases hv : v.ok with
    | true =>
      have hr : tlsVerify h k v = 1 := by simp [tlsVerify, hv, pin_ret.1]
      rw [failures_cons_ok v vs hv]
      simp only [run, hr, hv]
      simp [accepted] at ih ⊢
      exact ih k
    | false =>
      rw [failures_cons_fail v vs hv]
      cases h with
      | none =>
        have hr : tlsVerify none k v = 0 := by simp [tlsVerify, hv, pin_ret.2]
        simp [run, hr, accepted, AcceptedFrom]
      | some f =>
        have hr : tlsVerify (some f) k v = f k v.depth v.err := by simp [tlsVerify, hv]
        by_cases h0 : f k v.depth v.err = 0
        · simp [run, hr, h0, accepted, AcceptedFrom]
        · have := ih (k + 1)
          simp [run, hr, h0, hv, accepted, AcceptedFrom] at this ⊢
          exact this

/-- index form of `AcceptedFrom` -/
theorem acceptedFrom_iff (h : Option Handler) (fs : List VCall) (k : Nat) :
    AcceptedFrom h k fs ↔ ∀ j v, fs[j]? = some v → ∃ f, h = some f ∧ f (k + j) v.depth v.err ≠ 0 := by
  induction fs generalizing k with
  | nil => simp [AcceptedFrom]
  | cons a as ih =>
    simp only [AcceptedFrom, ih]
    constructor
    · rintro ⟨h0, hr⟩ j v hj
      cases j with
      | zero => simp at hj; subst hj; simpa using h0
      | succ j =>
        simp at hj
        have := hr j v hj
        simpa [Nat.add_assoc, Nat.add_comm 1 j] using this
    · intro hall
      refine ⟨by simpa using hall 0 a (by simp), ?_⟩
      intro j v hj
      have := hall (j + 1) v (by simpa using hj)
      simpa [Nat.add_assoc, Nat.add_comm 1 j] using this

theorem acceptedFrom_nil (h : Option Handler) (k : Nat) : AcceptedFrom h k [] := trivial

theorem not_acceptedFrom_none (k : Nat) (v : VCall) (vs : List VCall) : ¬ AcceptedFrom none k (v :: vs) := by
  simp [AcceptedFrom]

/-! ### configuration -/

theorem pin_modes : Gen.Tls.verifyModeTrust = 0 ∧ Gen.Tls.verifyModeDefault = 1 ∧
    Gen.Tls.callbackTrustName = "NULL" ∧ Gen.Tls.callbackDefaultName = "_tls_verify" := by decide

theorem cfg_trust (p : Policy) (h : p.trust = true) :
    (sslCfg p).verifyMode = 0 ∧ (sslCfg p).hasCallback = false := by
  simp [sslCfg, h, pin_modes.1, pin_modes.2.2.1]

theorem cfg_notrust (p : Policy) (h : p.trust = false) :
    (sslCfg p).verifyMode = 1 ∧ (sslCfg p).hasCallback = true := by
  have : Gen.Tls.callbackDefaultName != "NULL" := by decide
  simp [sslCfg, h, pin_modes.2.1, this]

theorem verifyCb_trust (p : Policy) (h : p.trust = true) : verifyCb p = none := by
  simp [verifyCb, (cfg_trust p h).2]

theorem verifyCb_notrust (p : Policy) (h : p.trust = false) : verifyCb p = some (tlsVerify p.handler) := by
  simp [verifyCb, (cfg_notrust p h).2]

/-! ### tls_start under H-openssl -/

/-- the handshake succeeds iff the peer completes its side and (trust flag, or the handler accepted
    each failure OpenSSL reports for this peer under the configuration tls_new set up) -/
theorem tlsStart_ok_iff (E : Engine) (P : Peer) (H : HOpenSsl E P) (p : Policy) :
    (tlsStart E p).ok = true ↔
      P.completes = true ∧ (p.trust = true ∨ AcceptedFrom p.handler 0 (failures (P.facts (sslCfg p)))) := by
  unfold tlsStart
  rw [H.ok_iff]
  cases hc : P.completes with
  | false => simp
  | true =>
    cases ht : p.trust with
    | true => simp [(cfg_trust p ht).1]
    | false =>
      have hm := (cfg_notrust p ht).1
      rw [H.calls_eq _ _ hc, verifyCb_notrust p ht]
      simp only [hm, Option.getD_some]
      rw [show ((1 : Nat) == 0) = false from rfl]
      simp [accepted_run_iff]

theorem tlsStart_calls (E : Engine) (P : Peer) (H : HOpenSsl E P) (p : Policy) (hc : P.completes = true) :
    (tlsStart E p).calls =
      run (if p.trust then defaultCb else tlsVerify p.handler) 0 (P.facts (sslCfg p)) := by
  unfold tlsStart
  rw [H.calls_eq _ _ hc]
  cases ht : p.trust with
  | true => simp [verifyCb_trust p ht]
  | false => simp [verifyCb_notrust p ht]

/-! ### conn_tls_start -/

theorem pin_rc : Gen.Tls.rcDisabled = -2 ∧ Gen.Tls.rcNewFail = -1 ∧ Gen.Tls.rcStartFail = -3 := by decide

/-- return code 0 iff TLS enabled, tls_new succeeded and the handshake succeeded -/
theorem rc_zero_iff (E : Engine) (c : Conn) :
    (connTlsStart E c).2 = 0 ↔
      c.policy.disabled = false ∧ E.newOk = true ∧ (tlsStart E c.policy).ok = true := by
  unfold connTlsStart
  cases hd : c.policy.disabled <;> cases hn : E.newOk <;> cases ho : (tlsStart E c.policy).ok <;>
    simp [hd, hn, ho, pin_rc.1, pin_rc.2.1, pin_rc.2.2]

theorem secured_after (E : Engine) (c : Conn) :
    isSecured (connTlsStart E c).1 = true ↔
      c.policy.disabled = false ∧ E.newOk = true ∧ c.tlsFailed = false ∧ (tlsStart E c.policy).ok = true := by
  unfold connTlsStart isSecured
  cases hd : c.policy.disabled <;> cases hn : E.newOk <;> cases ho : (tlsStart E c.policy).ok <;>
    cases hf : c.tlsFailed <;> simp [hd, hn, ho, hf]

/-- what a failed conn_tls_start leaves behind -/
theorem failed_start (E : Engine) (c : Conn) (h : (connTlsStart E c).2 ≠ 0) :
    isSecured (connTlsStart E c).1 = false ∧ (connTlsStart E c).1.hasTls = false ∧
      (connTlsStart E c).1.intfTls = c.intfTls ∧ (connTlsStart E c).1.secured = c.secured ∧
      (connTlsStart E c).1.state = c.state := by
  have hz := rc_zero_iff E c
  unfold connTlsStart isSecured at *
  cases hd : c.policy.disabled <;> cases hn : E.newOk <;> cases ho : (tlsStart E c.policy).ok <;>
    simp_all

/-- a handshake that was run and failed marks the connection (`tls_failed`), stores the error class
    and answers XMPP_EINT -/
theorem failed_handshake (E : Engine) (c : Conn) (hd : c.policy.disabled = false) (hn : E.newOk = true)
    (ho : (tlsStart E c.policy).ok = false) :
    (connTlsStart E c).2 = Gen.Tls.rcStartFail ∧ (connTlsStart E c).1.tlsFailed = true ∧
      (connTlsStart E c).1.error = ((tlsStart E c.policy).err : Int) := by
  simp [connTlsStart, hd, hn, ho]

/-! ### the callers and the wire -/

theorem writePass_disconnected (s : Sess) (h : s.conn.state = .disconnected) : writePass s = s := by
  simp [writePass, h]

theorem send_disconnected (s : Sess) (i : Item) (h : s.conn.state = .disconnected) : send s i = s := by
  simp [send, h]

/-- once disconnected nothing is written any more, whatever the user sends -/
theorem probe_disconnected (s : Sess) (g : Bool) (h : s.conn.state = .disconnected) : probe s g = s := by
  unfold probe
  cases hg : (g && !s.negotiated) <;> simp [hg, send_disconnected _ _ h, writePass_disconnected _ h]

theorem tick_disconnected (s : Sess) (h : s.conn.state = .disconnected) : tick s = s :=
  writePass_disconnected s h

/-- STARTTLS, handshake failed: the only thing written after `<starttls/>` is the closing tag, in the
    same loop iteration the connection is torn down (ECONNABORTED), nothing goes through TLS -/
theorem starttls_failure (E : Engine) (p : Policy) (hd : p.disabled = false) (hn : E.newOk = true)
    (ho : (tlsStart E p).ok = false) (he : (tlsStart E p).err ≠ 0) :
    (start E p .starttls).clear = [.hdr, .starttls, .close] ∧ (start E p .starttls).enc = [] ∧
    (start E p .starttls).queue = [] ∧
    (start E p .starttls).conn.state = .disconnected ∧ isSecured (start E p .starttls).conn = false ∧
    (start E p .starttls).evs = [.disconnect Gen.Tls.teardownError] := by
  have he' : ((tlsStart E p).err : Int) ≠ 0 := by exact_mod_cast he
  simp [start, attempt, connTlsStart, writePass, send, xmppDisconnect, connDisconnect, isSecured,
    hd, hn, ho, he, he', pin_rc.2.2]

/-- legacy SSL, handshake failed: nothing is written at all, the connection is closed at once -/
theorem legacy_failure (E : Engine) (p : Policy) (hd : p.disabled = false) (hn : E.newOk = true)
    (ho : (tlsStart E p).ok = false) :
    (start E p .legacy).clear = [] ∧ (start E p .legacy).enc = [] ∧ (start E p .legacy).queue = [] ∧
    (start E p .legacy).conn.state = .disconnected ∧ isSecured (start E p .legacy).conn = false ∧
    (start E p .legacy).evs = [.disconnect ((tlsStart E p).err : Int)] := by
  simp [start, attempt, connTlsStart, connDisconnect, isSecured, hd, hn, ho, pin_rc.2.2]

/-- xmpp_conn_tls_start on a raw connection, handshake failed: XMPP_EINT, interface restored, and
    the next loop iteration tears the connection down -/
theorem direct_failure (E : Engine) (p : Policy) (hd : p.disabled = false) (hn : E.newOk = true)
    (ho : (tlsStart E p).ok = false) (he : (tlsStart E p).err ≠ 0) :
    (start E p .direct).rc = some Gen.Tls.rcStartFail ∧
    (start E p .direct).clear = [] ∧ (start E p .direct).enc = [] ∧
    (start E p .direct).conn.state = .disconnected ∧ isSecured (start E p .direct).conn = false ∧
    (start E p .direct).conn.intfTls = false := by
  have he' : ((tlsStart E p).err : Int) ≠ 0 := by exact_mod_cast he
  simp [start, attempt, connTlsStart, writePass, connDisconnect, isSecured, hd, hn, ho, he, he', pin_rc.2.2]

/-- whatever the engine, the policy and the way the handshake is reached: data goes through TLS
    during `start` only after a successful handshake, and then the connection reports secured -/
theorem enc_only_after_handshake (E : Engine) (p : Policy) (path : Path)
    (h : (start E p path).enc ≠ []) :
    p.disabled = false ∧ E.newOk = true ∧ (tlsStart E p).ok = true ∧ isSecured (start E p path).conn = true := by
  cases path <;> cases hd : p.disabled <;> cases hn : E.newOk <;> cases ho : (tlsStart E p).ok <;>
    simp [start, attempt, connTlsStart, writePass, send, xmppDisconnect, connDisconnect, negotiateOverTls,
      isSecured, hd, hn, ho, pin_rc.1, pin_rc.2.1, pin_rc.2.2] at h ⊢ <;>
    (try (split at h <;> simp_all))

/-! ### H-openssl is satisfiable: an engine that behaves exactly as the contract says -/

/-- events an ideal verifier reports for a chain: issuer not found (20), host name mismatch (62),
    outside validity (10), then the leaf passes -/
def idealFacts (cert : PeerCert) (cfg : SslCfg) : List VCall :=
  (if cert.chains then [] else [⟨false, 0, 20⟩]) ++
  (if hostOk cert cfg then [] else [⟨false, 0, 62⟩]) ++
  (if cert.inValidity then [] else [⟨false, 0, 10⟩]) ++ [⟨true, 0, 0⟩]

def idealPeer (completes : Bool) (cert : PeerCert) : Peer :=
  { completes := completes, cert := cert, facts := idealFacts cert }

def idealEngine (newOk completes : Bool) (cert : PeerCert) : Engine :=
  { newOk := newOk,
    connect := fun cfg cb =>
      if completes then
        let calls := run (cb.getD defaultCb) 0 (idealFacts cert cfg)
        let ok := cfg.verifyMode == 0 || accepted calls
        { calls := calls, ok := ok, err := if ok then 0 else 1 }
      else { calls := [], ok := false, err := 1 } }

theorem ideal_satisfies (newOk completes : Bool) (cert : PeerCert) :
    HOpenSsl (idealEngine newOk completes cert) (idealPeer completes cert) where
  calls_eq := by
    intro cfg cb hc
    simp [idealPeer] at hc
    simp [idealEngine, idealPeer, hc]
  no_peer_no_calls := by
    intro cfg cb hc
    simp [idealPeer] at hc
    simp [idealEngine, hc]
  ok_iff := by
    intro cfg cb
    cases completes <;> simp [idealEngine, idealPeer]
  err_iff := by
    intro cfg cb
    cases completes
    · simp [idealEngine]
    · simp only [idealEngine, if_true]
      cases h : (cfg.verifyMode == 0 || accepted (run (cb.getD defaultCb) 0 (idealFacts cert cfg))) <;> simp [h]
  sound := by
    intro cfg _ _
    simp only [idealPeer, idealFacts, good]
    cases cert.chains <;> cases hostOk cert cfg <;> cases cert.inValidity <;> simp

end Strophe.Lemmas.TlsTrust
