/-
Timed handlers (`handler_fire_timed`): what the functions a timed handler can call do to the list of
timed handlers, and the two scheduling theorems of Props/C13.lean.
-/
import Strophe.Lemmas.ConnC13Tac

namespace Strophe.Lemmas.ConnC13
open Strophe Strophe.Conn

/-- `c` was reached from `c0` by functions that only ADD timed handlers: the clock is untouched,
    the old entries are all still there (unchanged, in place), the new ones are in front, stamped
    with the current time, with fresh uids and a positive period -/
def TE (c0 c : Conn) : Prop :=
  c.now = c0.now ∧ c0.nextUid ≤ c.nextUid ∧
  ∃ new, c.timed = new ++ c0.timed ∧ ∀ x ∈ new, c0.nextUid ≤ x.uid ∧ x.lastStamp = c0.now ∧ 0 < x.period

variable {c0 c : Conn}

theorem TE_refl (c : Conn) : TE c c := ⟨rfl, Nat.le_refl _, [], rfl, fun _ h => by cases h⟩

theorem TE_rec1 {n : Nat} (h : TE c0 c) (hn : c.nextUid ≤ n) : TE c0 { c with nextUid := n } :=
  ⟨h.1, Nat.le_trans h.2.1 hn, h.2.2⟩

theorem TE_addHandler {fn ud ns name type user} (h : TE c0 c) : TE c0 (addHandler c fn ud ns name type user) := by
  cauto addHandler
theorem TE_addIdHandler {fn id user} (h : TE c0 c) : TE c0 (addIdHandler c fn id user) := by
  cauto addIdHandler

theorem TE_addTimed {fn period user} (h : TE c0 c) (hp : 0 < period) : TE c0 (addTimed c fn period user) := by
  unfold addTimed; split
  · exact h
  · obtain ⟨h1, h2, new, h3, h4⟩ := h
    refine ⟨h1, Nat.le_succ_of_le h2, { uid := c.nextUid, fn := fn, period := period, lastStamp := c.now, user := user } :: new, by simp [h3], ?_⟩
    intro x hx
    simp only [List.mem_cons] at hx
    rcases hx with rfl | hx
    · exact ⟨h2, h1, hp⟩
    · exact h4 x hx

theorem TE_triggerSmCallback (h : TE c0 c) : TE c0 (triggerSmCallback c) := h
theorem TE_resetSmForReconnect (h : TE c0 c) : TE c0 (resetSmForReconnect c) := by
  cauto resetSmForReconnect
theorem TE_notify {e} (h : TE c0 c) : TE c0 (notify c e) := by
  cauto notify
theorem TE_connDisconnect (h : TE c0 c) : TE c0 (connDisconnect c) := by
  cauto connDisconnect
theorem TE_pushRawWith {it o sn} (h : TE c0 c) : TE c0 (pushRawWith c it o sn) := by
  cauto pushRawWith
theorem TE_pushRaw {it o} (h : TE c0 c) : TE c0 (pushRaw c it o) := by
  cauto pushRaw
theorem TE_sendStanza {it o} (h : TE c0 c) : TE c0 (sendStanza c it o) := by
  cauto sendStanza
theorem TE_sendRawString {it} (h : TE c0 c) : TE c0 (sendRawString c it) := by
  cauto sendRawString
theorem TE_xmppDisconnect (h : TE c0 c) : TE c0 (xmppDisconnect c) := by
  cauto xmppDisconnect
theorem TE_authLegacyStep (h : TE c0 c) : TE c0 (authLegacyStep c) := by
  cauto authLegacyStep

theorem TE_auth (n : Nat) : ∀ {c}, TE c0 c → TE c0 (auth c n) := by
  induction n with
  | zero => intro c h; exact h
  | succ n ih =>
    intro c h
    rw [auth]
    dsimp only
    ctrav
    all_goals first | (apply ih; ctrav) | skip

theorem TE_authTop (h : TE c0 c) : TE c0 (authTop c) := TE_auth _ h

theorem TE_runTimed {f} (h : TE c0 c) : TE c0 (runTimed c f).1 := by
  cauto runTimed

/-! ### list facts -/

theorem eq_of_uid_eq {l : List Timed} (hn : (l.map (·.uid)).Nodup) {x y : Timed} (hx : x ∈ l) (hy : y ∈ l)
    (h : x.uid = y.uid) : x = y := by
  induction l with
  | nil => cases hx
  | cons z l ih =>
    simp only [List.map_cons, List.nodup_cons] at hn
    simp only [List.mem_cons] at hx hy
    rcases hx with rfl | hx <;> rcases hy with rfl | hy
    · rfl
    · exact absurd (List.mem_map.2 ⟨y, hy, h.symm⟩) hn.1
    · exact absurd (List.mem_map.2 ⟨x, hx, h⟩) hn.1
    · exact ih hn.2 hx hy

theorem find_uid_of_nodup {l : List Timed} (hn : (l.map (·.uid)).Nodup) {t : Timed} (ht : t ∈ l) :
    l.find? (·.uid = t.uid) = some t := by
  cases hf : l.find? (·.uid = t.uid) with
  | none =>
    have := List.find?_eq_none.1 hf t ht
    simp at this
  | some x =>
    have hx := List.mem_of_find?_eq_some hf
    have hu := List.find?_some hf
    simp only [decide_eq_true_eq] at hu
    rw [eq_of_uid_eq hn hx ht hu]

theorem find_map_keep {k : Nat} (f : Timed → Timed) (hf : ∀ y, (f y).uid = y.uid) (hk : ∀ y, y.uid = k → f y = y)
    (l : List Timed) : (l.map f).find? (·.uid = k) = l.find? (·.uid = k) := by
  induction l with
  | nil => rfl
  | cons z l ih =>
    simp only [List.map_cons, List.find?_cons, hf]
    by_cases hz : z.uid = k
    · simp [hz, hk z hz]
    · simp [hz, ih]

theorem find_filter_keep {k : Nat} (p : Timed → Bool) (hp : ∀ y, y.uid = k → p y = true) (l : List Timed) :
    (l.filter p).find? (·.uid = k) = l.find? (·.uid = k) := by
  induction l with
  | nil => rfl
  | cons z l ih =>
    by_cases hz : z.uid = k
    · simp [hp z hz, hz]
    · by_cases hpz : p z = true
      · simp [hpz, hz, ih]
      · simp [hpz, hz, ih]

theorem find_append_fresh {k : Nat} (new l : List Timed) (h : ∀ x ∈ new, x.uid ≠ k) :
    (new ++ l).find? (·.uid = k) = l.find? (·.uid = k) := by
  rw [List.find?_append]
  have : new.find? (·.uid = k) = none := by
    rw [List.find?_eq_none]
    intro x hx; simp [h x hx]
  rw [this]; rfl

/-- the part of `fireTimedOne` after the handler was found due and re-stamped (state `C0`) -/
theorem fireTail {P : Conn → Prop} (C0 : Conn) (f : TFun) (u : Nat)
    (hP : ∀ c1, TE C0 c1 → P c1 ∧ P { c1 with timed := c1.timed.filter (·.uid ≠ u) }) :
    P (if (runTimed C0 f).2 = true then (runTimed C0 f).1
       else { (runTimed C0 f).1 with timed := (runTimed C0 f).1.timed.filter (·.uid ≠ u) }) := by
  have := hP (runTimed C0 f).1 (TE_runTimed (TE_refl C0))
  split
  · exact this.1
  · exact this.2

/-! ### a handler that is not due is left alone -/

/-- `t` (uid, stamp, function) is still registered and no entry with its uid is due -/
def NotDue (t : Timed) (n : Nat) (c : Conn) : Prop :=
  c.now = n ∧ (∃ t' ∈ c.timed, t'.uid = t.uid ∧ t'.lastStamp = t.lastStamp ∧ t'.fn = t.fn) ∧
  ∀ x ∈ c.timed, x.uid = t.uid → n - x.lastStamp < x.period

theorem NotDue_TE {t : Timed} {n : Nat} (h : NotDue t n c0) (hte : TE c0 c) : NotDue t n c := by
  obtain ⟨h1, ⟨t', ht', hu⟩, h3⟩ := h
  obtain ⟨e1, _, new, e3, e4⟩ := hte
  refine ⟨e1.trans h1, ⟨t', by rw [e3]; exact List.mem_append_right _ ht', hu⟩, ?_⟩
  intro x hx hxu
  rw [e3] at hx
  rcases List.mem_append.1 hx with hx | hx
  · obtain ⟨_, hs, hp⟩ := e4 x hx
    rw [hs, h1]; omega
  · exact h3 x hx hxu

theorem NotDue_fireTimedOne {t : Timed} {n : Nat} (u : Nat) (h : NotDue t n c) : NotDue t n (fireTimedOne c u) := by
  unfold fireTimedOne
  split
  · exact h
  · rename_i x hf
    have hx := List.mem_of_find?_eq_some hf
    have hxu : x.uid = u := by simpa using List.find?_some hf
    split
    · exact h
    · split
      · rename_i hdue
        have hne : u ≠ t.uid := by
          intro he
          have := h.2.2 x hx (hxu.trans he)
          rw [h.1] at hdue
          omega
        -- the re-stamped state
        have h0 : NotDue t n { c with timed := c.timed.map fun (y : Timed) =>
            if y.uid = u then { y with lastStamp := c.now } else y } := by
          obtain ⟨h1, ⟨t', ht', hu1, hu2, hu3⟩, h3⟩ := h
          refine ⟨h1, ⟨t', ?_, hu1, hu2, hu3⟩, ?_⟩
          · refine List.mem_map.2 ⟨t', ht', ?_⟩
            rw [if_neg (by omega)]
          · intro y hy hyu
            obtain ⟨z, hz, rfl⟩ := List.mem_map.1 hy
            by_cases hzu : z.uid = u
            · rw [if_pos hzu] at hyu
              exact absurd (hzu.symm.trans hyu) hne
            · rw [if_neg hzu] at hyu ⊢
              exact h3 z hz hyu
        dsimp only
        apply fireTail
        intro c1 hte
        have h1 := NotDue_TE h0 hte
        refine ⟨h1, ?_⟩
        obtain ⟨e1, ⟨t', ht', hu1, hu2, hu3⟩, e3⟩ := h1
        refine ⟨e1, ⟨t', ?_, hu1, hu2, hu3⟩, ?_⟩
        · refine List.mem_filter.2 ⟨ht', ?_⟩
          simp; omega
        · intro y hy hyu
          exact e3 y (List.mem_filter.1 hy).1 hyu
      · exact h

theorem NotDue_foldl {t : Timed} {n : Nat} (l : List Nat) : ∀ {c}, NotDue t n c → NotDue t n (l.foldl fireTimedOne c) := by
  induction l with
  | nil => intro c h; exact h
  | cons u l ih => intro c h; exact ih (NotDue_fireTimedOne u h)

theorem timed_not_early' (c : Conn) (t : Timed) (ht : t ∈ c.timed) (hn : (c.timed.map (·.uid)).Nodup)
    (h : c.now - t.lastStamp < t.period) :
    ∃ t' ∈ (fireTimed c).timed, t'.uid = t.uid ∧ t'.lastStamp = t.lastStamp ∧ t'.fn = t.fn := by
  unfold fireTimed
  split
  · exact ⟨t, ht, rfl, rfl, rfl⟩
  · dsimp only
    have h0 : NotDue t c.now { c with timed := c.timed.map fun (t : Timed) => { t with enabled := true } } := by
      refine ⟨rfl, ⟨{ t with enabled := true }, List.mem_map.2 ⟨t, ht, rfl⟩, rfl, rfl, rfl⟩, ?_⟩
      intro y hy hyu
      obtain ⟨z, hz, rfl⟩ := List.mem_map.1 hy
      have : z = t := eq_of_uid_eq hn hz ht hyu
      subst this
      exact h
    exact (NotDue_foldl _ h0).2.1

/-! ### a handler that is due is invoked -/

/-- before its turn: the first entry with uid `k` is the handler, untouched, enabled -/
def Before (k ls pd n : Nat) (c : Conn) : Prop :=
  c.now = n ∧ k < c.nextUid ∧
  ∃ x, c.timed.find? (·.uid = k) = some x ∧ x.lastStamp = ls ∧ x.period = pd ∧ x.user = false ∧ x.enabled = true

/-- after its turn: every entry with uid `k` carries the current time -/
def After (k n : Nat) (c : Conn) : Prop :=
  c.now = n ∧ ∀ x ∈ c.timed, x.uid = k → x.lastStamp = n

theorem After_TE {k n : Nat} (h : After k n c0) (hte : TE c0 c) : After k n c := by
  obtain ⟨e1, _, new, e3, e4⟩ := hte
  refine ⟨e1.trans h.1, ?_⟩
  intro x hx hxu
  rw [e3] at hx
  rcases List.mem_append.1 hx with hx | hx
  · rw [(e4 x hx).2.1, h.1]
  · exact h.2 x hx hxu

theorem Before_TE {k ls pd n : Nat} (h : Before k ls pd n c0) (hte : TE c0 c) : Before k ls pd n c := by
  obtain ⟨e1, e2, new, e3, e4⟩ := hte
  obtain ⟨h1, h2, x, h3, h4⟩ := h
  refine ⟨e1.trans h1, by omega, x, ?_, h4⟩
  rw [e3, find_append_fresh _ _ (fun y hy => by have := (e4 y hy).1; omega)]
  exact h3

theorem After_fire {k n : Nat} {u : Nat} {f : TFun} {C0 : Conn} (h : After k n C0) :
    After k n (if (runTimed C0 f).2 = true then (runTimed C0 f).1
       else { (runTimed C0 f).1 with timed := (runTimed C0 f).1.timed.filter (·.uid ≠ u) }) := by
  apply fireTail
  intro c1 hte
  have h1 := After_TE h hte
  exact ⟨h1, h1.1, fun y hy hyu => h1.2 y (List.mem_filter.1 hy).1 hyu⟩

theorem After_fireTimedOne {k n : Nat} (u : Nat) (h : After k n c) : After k n (fireTimedOne c u) := by
  unfold fireTimedOne
  split
  · exact h
  · split
    · exact h
    · split
      · dsimp only
        apply After_fire
        refine ⟨h.1, ?_⟩
        intro y hy hyu
        obtain ⟨z, hz, rfl⟩ := List.mem_map.1 hy
        by_cases hzu : z.uid = u
        · rw [if_pos hzu]; exact h.1
        · rw [if_neg hzu] at hyu ⊢
          exact h.2 z hz hyu
      · exact h

theorem After_foldl {k n : Nat} (l : List Nat) : ∀ {c}, After k n c → After k n (l.foldl fireTimedOne c) := by
  induction l with
  | nil => intro c h; exact h
  | cons u l ih => intro c h; exact ih (After_fireTimedOne u h)

theorem Before_fireTimedOne {k ls pd n : Nat} (u : Nat) (hu : u ≠ k) (h : Before k ls pd n c) :
    Before k ls pd n (fireTimedOne c u) := by
  unfold fireTimedOne
  split
  · exact h
  · split
    · exact h
    · split
      · dsimp only
        have h0 : Before k ls pd n { c with timed := c.timed.map fun (y : Timed) =>
            if y.uid = u then { y with lastStamp := c.now } else y } := by
          obtain ⟨h1, h2, x, h3, h4⟩ := h
          refine ⟨h1, h2, x, ?_, h4⟩
          show (c.timed.map _).find? _ = _
          rw [find_map_keep _ (fun y => by split <;> rfl) (fun y hy => by rw [if_neg (by omega)])]
          exact h3
        apply fireTail
        intro c1 hte
        have h1 := Before_TE h0 hte
        refine ⟨h1, ?_⟩
        obtain ⟨e1, e2, x, e3, e4⟩ := h1
        refine ⟨e1, e2, x, ?_, e4⟩
        show (c1.timed.filter _).find? _ = _
        rw [find_filter_keep _ (fun y hy => by simp; omega)]
        exact e3
      · exact h

theorem Before_foldl {k ls pd n : Nat} (l : List Nat) (hl : k ∉ l) :
    ∀ {c}, Before k ls pd n c → Before k ls pd n (l.foldl fireTimedOne c) := by
  induction l with
  | nil => intro c h; exact h
  | cons u l ih =>
    intro c h
    simp only [List.mem_cons, not_or] at hl
    exact ih hl.2 (Before_fireTimedOne u (fun e => hl.1 e.symm) h)

theorem After_of_Before {k ls pd n : Nat} (hdue : n - ls ≥ pd) (h : Before k ls pd n c) :
    After k n (fireTimedOne c k) := by
  obtain ⟨h1, h2, x, h3, hls, hpd, hus, hen⟩ := h
  unfold fireTimedOne
  rw [h3]
  dsimp only
  rw [if_neg (by simp [hus, hen]), if_pos (by rw [h1, hls, hpd]; exact hdue)]
  apply After_fire
  refine ⟨h1, ?_⟩
  intro y hy hyu
  obtain ⟨z, hz, rfl⟩ := List.mem_map.1 hy
  by_cases hzu : z.uid = k
  · rw [if_pos hzu]; exact h1
  · rw [if_neg hzu] at hyu; exact absurd hyu hzu

/-- `timed_fires_when_due` for a connection whose uid counter is ahead of the handler's uid (true of
    every reachable state: `timed_uids_fresh`) -/
theorem timed_fires_when_due' (c : Conn) (t : Timed) (ht : t ∈ c.timed)
    (hn : (c.timed.map (·.uid)).Nodup) (hs : c.state = .connected)
    (hu : t.user = false) (h : c.now - t.lastStamp ≥ t.period) (hfresh : t.uid < c.nextUid) :
    ∀ t' ∈ (fireTimed c).timed, t'.uid = t.uid → t'.lastStamp = c.now := by
  unfold fireTimed
  rw [if_neg (by simp [hs])]
  dsimp only
  have hmap : (c.timed.map fun (t : Timed) => ({ t with enabled := true } : Timed)).map (·.uid) = c.timed.map (·.uid) := by
    rw [List.map_map]; rfl
  rw [hmap]
  have hk : t.uid ∈ c.timed.map (·.uid) := List.mem_map.2 ⟨t, ht, rfl⟩
  obtain ⟨l1, l2, hl⟩ := List.append_of_mem hk
  have hk1 : t.uid ∉ l1 := by
    rw [hl] at hn
    intro hm
    have := (List.nodup_append.1 hn).2.2 _ hm _ (List.mem_cons_self)
    exact this rfl
  rw [hl, List.foldl_append, List.foldl_cons]
  have h0 : Before t.uid t.lastStamp t.period c.now
      { c with timed := c.timed.map fun (t : Timed) => { t with enabled := true } } := by
    refine ⟨rfl, hfresh, { t with enabled := true }, ?_, rfl, rfl, hu, rfl⟩
    show (c.timed.map _).find? _ = _
    rw [List.find?_map]
    have : ((fun (x : Timed) => decide (x.uid = t.uid)) ∘ fun (t : Timed) => ({ t with enabled := true } : Timed)) =
        fun x => decide (x.uid = t.uid) := rfl
    rw [this, find_uid_of_nodup hn ht]; rfl
  exact (After_foldl l2 (After_of_Before h (Before_foldl l1 hk1 h0))).2

end Strophe.Lemmas.ConnC13
