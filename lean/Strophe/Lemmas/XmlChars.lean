/-
Lemmas about `legalChars` (UTF-8 encoded XML `Char`s) of `Spec/Xml.lean`: it distributes over
concatenation and is preserved by `_escape_xml`.  Used by Lemmas/XmlParse.lean.
-/
import Strophe.Model.StanzaRead
import Strophe.Lemmas.StanzaRender
set_option linter.unusedSimpArgs false
namespace Strophe.Stanza
open Strophe.Spec.Xml

theorem legalChars_nil : legalChars [] = true := by rw [legalChars.eq_def]

theorem legalChars_cons_lt (b0 : UInt8) (rest : Bytes) (h : b0 < 128) :
    legalChars (b0 :: rest) = (legalAscii b0 && legalChars rest) := by
  rw [legalChars.eq_def]; simp only [h, if_true]

theorem legalChars_1 (b0 : UInt8) (h : ¬ b0 < 128) : legalChars [b0] = false := by
  rw [legalChars.eq_def]; simp only [h, if_false]
theorem legalChars_2 (b0 b1 : UInt8) (r : Bytes) (h : ¬ b0 < 128) (h2 : seq2 b0 b1 = true) :
    legalChars (b0 :: b1 :: r) = legalChars r := by
  rw [legalChars.eq_def]; simp only [h, if_false, h2, if_true]
theorem legalChars_2' (b0 b1 : UInt8) (h : ¬ b0 < 128) (h2 : ¬ seq2 b0 b1 = true) : legalChars [b0, b1] = false := by
  rw [legalChars.eq_def]; simp [h, h2]
theorem legalChars_3 (b0 b1 b2 : UInt8) (r : Bytes) (h : ¬ b0 < 128) (h2 : ¬ seq2 b0 b1 = true) (h3 : seq3 b0 b1 b2 = true) :
    legalChars (b0 :: b1 :: b2 :: r) = legalChars r := by
  rw [legalChars.eq_def]; simp [h, h2, h3]
theorem legalChars_3' (b0 b1 b2 : UInt8) (h : ¬ b0 < 128) (h2 : ¬ seq2 b0 b1 = true) (h3 : ¬ seq3 b0 b1 b2 = true) :
    legalChars [b0, b1, b2] = false := by
  rw [legalChars.eq_def]; simp [h, h2, h3]
theorem legalChars_4 (b0 b1 b2 b3 : UInt8) (r : Bytes) (h : ¬ b0 < 128) (h2 : ¬ seq2 b0 b1 = true)
    (h3 : ¬ seq3 b0 b1 b2 = true) : legalChars (b0 :: b1 :: b2 :: b3 :: r) = (seq4 b0 b1 b2 b3 && legalChars r) := by
  rw [legalChars.eq_def]; simp [h, h2, h3]

theorem legalChars_append (a b : Bytes) (h : legalChars a = true) : legalChars (a ++ b) = legalChars b := by
  induction a using legalChars.induct with
  | case1 => simp
  | case2 b0 rest hlt ih =>
    rw [legalChars_cons_lt _ _ hlt] at h
    simp only [Bool.and_eq_true] at h
    rw [List.cons_append, legalChars_cons_lt _ _ hlt, h.1, ih h.2]; simp
  | case3 b0 hge => rw [legalChars_1 _ hge] at h; cases h
  | case4 b0 hge b1 r1 h2 ih =>
    rw [legalChars_2 _ _ _ hge h2] at h
    simp only [List.cons_append]
    rw [legalChars_2 _ _ _ hge h2]; exact ih h
  | case5 b0 hge b1 h2 => rw [legalChars_2' _ _ hge h2] at h; cases h
  | case6 b0 hge b1 h2 b2 r2 h3 ih =>
    rw [legalChars_3 _ _ _ _ hge h2 h3] at h
    simp only [List.cons_append]
    rw [legalChars_3 _ _ _ _ hge h2 h3]; exact ih h
  | case7 b0 hge b1 h2 b2 h3 => rw [legalChars_3' _ _ _ hge h2 h3] at h; cases h
  | case8 b0 hge b1 h2 b2 h3 b3 r3 ih =>
    rw [legalChars_4 _ _ _ _ _ hge h2 h3] at h
    simp only [Bool.and_eq_true] at h
    simp only [List.cons_append]
    rw [legalChars_4 _ _ _ _ _ hge h2 h3, h.1, ih h.2]; simp

theorem legalChars_append_true (a b : Bytes) (ha : legalChars a = true) (hb : legalChars b = true) :
    legalChars (a ++ b) = true := by rw [legalChars_append a b ha, hb]

/-- continuation and lead bytes of multi-byte sequences are never touched by the escaper -/
theorem escapeByte_ge (b : UInt8) (h : ¬ b < 128) : escapeByte b = [b] := by
  rcases escapeByte_cases b with ⟨hb, _⟩ | ⟨hb, _⟩ | ⟨hb, _⟩ | ⟨hb, _⟩ | ⟨_, _, _, _, e⟩
  · subst hb; exact absurd (by decide) h
  · subst hb; exact absurd (by decide) h
  · subst hb; exact absurd (by decide) h
  · subst hb; exact absurd (by decide) h
  · exact e

theorem isCont_ge (b : UInt8) (h : isCont b = true) : ¬ b < 128 := by
  simp only [isCont, Bool.and_eq_true, decide_eq_true_eq] at h
  intro hlt
  have h1 := UInt8.le_iff_toNat_le.1 h.1
  have h2 := UInt8.lt_iff_toNat_lt.1 hlt
  have e1 : (0x80 : UInt8).toNat = 128 := rfl
  have e2 : (128 : UInt8).toNat = 128 := rfl
  omega

theorem seq2_cont (b0 b1 : UInt8) (h : seq2 b0 b1 = true) : ¬ b1 < 128 := by
  simp only [seq2, Bool.and_eq_true] at h; exact isCont_ge _ h.2


theorem toNat_lt_128 (b : UInt8) : b < 128 ↔ b.toNat < 128 := UInt8.lt_iff_toNat_lt

theorem seq3_ge (b0 b1 b2 : UInt8) (h : seq3 b0 b1 b2 = true) : ¬ b1 < 128 ∧ ¬ b2 < 128 := by
  simp only [seq3, Bool.and_eq_true, Bool.or_eq_true, decide_eq_true_eq, beq_iff_eq] at h
  refine ⟨?_, isCont_ge _ h.1⟩
  rcases h.2 with (((h' | h') | h') | h') | h'
  · intro hlt
    have h1 := UInt8.le_iff_toNat_le.1 h'.1.2
    have h2 := UInt8.lt_iff_toNat_lt.1 hlt
    have e1 : (0xA0 : UInt8).toNat = 160 := rfl
    have e2 : (128 : UInt8).toNat = 128 := rfl
    omega
  · exact isCont_ge _ h'.2
  · intro hlt
    have h1 := UInt8.le_iff_toNat_le.1 h'.1.2
    have h2 := UInt8.lt_iff_toNat_lt.1 hlt
    have e1 : (0x80 : UInt8).toNat = 128 := rfl
    have e2 : (128 : UInt8).toNat = 128 := rfl
    omega
  · exact isCont_ge _ h'.2
  · exact isCont_ge _ h'.1.2

theorem seq4_ge (b0 b1 b2 b3 : UInt8) (h : seq4 b0 b1 b2 b3 = true) : ¬ b1 < 128 ∧ ¬ b2 < 128 ∧ ¬ b3 < 128 := by
  simp only [seq4, Bool.and_eq_true, Bool.or_eq_true, decide_eq_true_eq, beq_iff_eq] at h
  refine ⟨?_, isCont_ge _ h.1.1, isCont_ge _ h.1.2⟩
  rcases h.2 with (h' | h') | h'
  · intro hlt
    have h1 := UInt8.le_iff_toNat_le.1 h'.1.2
    have h2 := UInt8.lt_iff_toNat_lt.1 hlt
    have e1 : (0x90 : UInt8).toNat = 144 := rfl
    have e2 : (128 : UInt8).toNat = 128 := rfl
    omega
  · exact isCont_ge _ h'.2
  · intro hlt
    have h1 := UInt8.le_iff_toNat_le.1 h'.1.2
    have h2 := UInt8.lt_iff_toNat_lt.1 hlt
    have e1 : (0x80 : UInt8).toNat = 128 := rfl
    have e2 : (128 : UInt8).toNat = 128 := rfl
    omega

theorem legalChars_escapeByte (b : UInt8) (hlt : b < 128) (h : legalAscii b = true) :
    legalChars (escapeByte b) = true := by
  rcases escapeByte_cases b with ⟨_, e⟩ | ⟨_, e⟩ | ⟨_, e⟩ | ⟨_, e⟩ | ⟨_, _, _, _, e⟩
  · rw [e]; decide
  · rw [e]; decide
  · rw [e]; decide
  · rw [e]; decide
  · rw [e, legalChars_cons_lt _ _ hlt, h, legalChars_nil]; rfl

/-- escaping keeps a sequence of XML characters a sequence of XML characters -/
theorem legalChars_escapeXml (d : Bytes) (h : legalChars d = true) : legalChars (escapeXml d) = true := by
  induction d using legalChars.induct with
  | case1 => rw [escapeXml_nil]; exact legalChars_nil
  | case2 b0 rest hlt ih =>
    rw [legalChars_cons_lt _ _ hlt] at h
    simp only [Bool.and_eq_true] at h
    rw [escapeXml_cons]
    exact legalChars_append_true _ _ (legalChars_escapeByte b0 hlt h.1) (ih h.2)
  | case3 b0 hge => rw [legalChars_1 _ hge] at h; cases h
  | case4 b0 hge b1 r1 h2 ih =>
    rw [legalChars_2 _ _ _ hge h2] at h
    rw [escapeXml_cons, escapeXml_cons, escapeByte_ge _ hge, escapeByte_ge _ (seq2_cont _ _ h2)]
    simp only [List.cons_append, List.nil_append]
    rw [legalChars_2 _ _ _ hge h2]; exact ih h
  | case5 b0 hge b1 h2 => rw [legalChars_2' _ _ hge h2] at h; cases h
  | case6 b0 hge b1 h2 b2 r2 h3 ih =>
    rw [legalChars_3 _ _ _ _ hge h2 h3] at h
    have hg := seq3_ge _ _ _ h3
    rw [escapeXml_cons, escapeXml_cons, escapeXml_cons, escapeByte_ge _ hge, escapeByte_ge _ hg.1, escapeByte_ge _ hg.2]
    simp only [List.cons_append, List.nil_append]
    rw [legalChars_3 _ _ _ _ hge h2 h3]; exact ih h
  | case7 b0 hge b1 h2 b2 h3 => rw [legalChars_3' _ _ _ hge h2 h3] at h; cases h
  | case8 b0 hge b1 h2 b2 h3 b3 r3 ih =>
    rw [legalChars_4 _ _ _ _ _ hge h2 h3] at h
    simp only [Bool.and_eq_true] at h
    have hg := seq4_ge _ _ _ _ h.1
    rw [escapeXml_cons, escapeXml_cons, escapeXml_cons, escapeXml_cons, escapeByte_ge _ hge, escapeByte_ge _ hg.1,
      escapeByte_ge _ hg.2.1, escapeByte_ge _ hg.2.2]
    simp only [List.cons_append, List.nil_append]
    rw [legalChars_4 _ _ _ _ _ hge h2 h3, h.1, ih h.2]; rfl

end Strophe.Stanza
